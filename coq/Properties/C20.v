(* C20  Results are deterministic, history-independent and leave inputs untouched.
   What a functional model can carry: every order-insensitive input is modelled as a list taken in an arbitrary permutation, and the results are
   proved invariant under Permutation; every stateful component is a state machine whose outputs are proved independent of the history
   (those theorems live with the models of the sets, metadata and platform domains and are restated here as they are merged).
   PYTHONHASHSEED, aliasing and in-place mutation are properties of the CPython heap: covered by the multi-process transcript runs only. *)
From Coq Require Import List Arith NArith Bool Lia Permutation.
Import ListNotations.
Require Import S1 Py VCmp Order Canon SortPerm.
Open Scope N_scope.

(* str(SpecifierSet) / str(Requirement) sort the member strings (code-point order) before joining: the result does not depend on the
   iteration order of the underlying set, i.e. on the hash seed or on the order in which the clauses / extras were supplied *)
Theorem C20_sorted_strings_order_independent (l l' : list (list N)) :
  Permutation l l' -> isort str_cmp l = isort str_cmp l'.
Proof.
  destruct str_cmp_ok as [R SY TE TL].
  apply (isort_perm_invariant str_cmp R str_cmp_eq SY).
  intros a b c H1 H2. apply (TL a b c H1). rewrite H2. discriminate.
Qed.
Print Assumptions C20_sorted_strings_order_independent.

(* sorting is a permutation of its input (nothing dropped or invented) *)
Theorem C20_sorted_is_permutation (l : list (list N)) : Permutation l (isort str_cmp l).
Proof. apply isort_perm. Qed.
Print Assumptions C20_sorted_is_permutation.

Definition nonvac_check : bool :=
  match isort str_cmp [[62;61;49]; [33;61;50]; [60;51]], isort str_cmp [[60;51]; [62;61;49]; [33;61;50]] with
  | [a; b; c], [a'; b'; c'] => VCmp.str_eqb a a' && VCmp.str_eqb b b' && VCmp.str_eqb c c' && VCmp.str_eqb a [33;61;50]
  | _, _ => false end.
Example C20_nonvacuous : nonvac_check = true.
Proof. vm_compute. reflexivity. Qed.

(* ---------------- permutation / history theorems of the domain models (restated here) ---------------- *)
Require C05 C06 C16 C17 C18.
(* the members of a SpecifierSet are a frozenset: contains() and str() do not depend on its iteration order (hash seed, supply order) *)
Theorem C20_set_contains_order_independent S S' arg inst item : Permutation (SetsModel.ms S) (SetsModel.ms S') -> SetsModel.ov S = SetsModel.ov S' ->
  SetsBridge.wf_set S -> SetsModel.set_contains S arg inst item = SetsModel.set_contains S' arg inst item.
Proof. exact (C05.C05_perm_invariant S S' arg inst item). Qed.
Print Assumptions C20_set_contains_order_independent.
Theorem C20_set_str_order_independent S S' : Permutation (SetsModel.ms S) (SetsModel.ms S') -> SetsModel.set_str S = SetsModel.set_str S'.
Proof. exact (C05.C05_str_deterministic S S'). Qed.
Print Assumptions C20_set_str_order_independent.
(* the only state of a Specifier / SpecifierSet is the pre-release override: after any sequence of operations the next answer depends only on
   the latest override that was assigned *)
Theorem C20_specifier_history_independent x ops ops' o : SetsFilter.latest ops (SetsModel.obj_override x) = SetsFilter.latest ops' (SetsModel.obj_override x) ->
  snd (SetsModel.step (SetsFilter.after x ops) o) = snd (SetsModel.step (SetsFilter.after x ops') o).
Proof. exact (C06.C06_history x ops ops' o). Qed.
Print Assumptions C20_specifier_history_independent.
(* Metadata: every sequence of attribute reads returns the conversion of the ORIGINAL raw values (cached reads included) *)
Theorem C20_metadata_reads_history_independent O data ks :
  MetaModel.reads O (MetaModel.init data) ks = map (fun k => MetaModel.compute O k (MetaBase.lookup k data)) ks.
Proof. exact (C17.C17_reads_history_independent O data ks). Qed.
Print Assumptions C20_metadata_reads_history_independent.
(* the cached libc probes are transparent: repeating a probe returns what the first call returned *)
Theorem C20_probe_cache_transparent e envs n :
  PlatModel.run_probes None (e :: envs) = e :: map (fun _ => e) envs /\ PlatModel.run_probes None (repeat e n) = repeat e n.
Proof. exact (C16.C16_cache_transparent e envs n). Qed.
Print Assumptions C20_probe_cache_transparent.

(* ---------------- further order-insensitive inputs ---------------- *)
Require C08 C14.
(* parse_tag: the order of the dotted parts of a compressed tag does not matter (the result is a frozenset: the same tags, as a multiset) *)
Lemma flat_map_perm_pointwise {A B} (f g : A -> list B) l : (forall x, Permutation (f x) (g x)) -> Permutation (flat_map f l) (flat_map g l).
Proof. intros H. induction l as [|x xs IH]; cbn [flat_map]; [constructor|]. apply Permutation_app; [apply H | exact IH]. Qed.
Theorem C20_parse_tag_parts_order_irrelevant i i' a a' p p' : Permutation i i' -> Permutation a a' -> Permutation p p' ->
  Permutation (WheelModel.tag_product i a p) (WheelModel.tag_product i' a' p').
Proof.
  intros Hi Ha Hp. unfold WheelModel.tag_product.
  transitivity (flat_map (fun x => flat_map (fun y => map (fun z => WheelModel.mk_tag x y z) p') a') i).
  - apply flat_map_perm_pointwise. intros x.
    transitivity (flat_map (fun y => map (fun z => WheelModel.mk_tag x y z) p') a).
    + apply flat_map_perm_pointwise. intros y. now apply Permutation_map.
    + now apply Permutation_flat_map.
  - now apply Permutation_flat_map.
Qed.
Print Assumptions C20_parse_tag_parts_order_irrelevant.
(* filter() of a set: the iteration order of the frozenset of members does not matter (the code asks every member in one pass since fix
   70278f0; the model's chain of per-member filters is extensionally the same function) *)
Theorem C20_set_filter_order_independent S S' arg xs : Permutation (SetsModel.ms S) (SetsModel.ms S') -> SetsModel.ov S = SetsModel.ov S' ->
  SetsBridge.wf_set S -> SetsFilter.wf_items xs -> SetsModel.set_filter_v S arg xs = SetsModel.set_filter_v S' arg xs.
Proof. exact (C06.C06_chain_order_irrelevant S S' arg xs). Qed.
Print Assumptions C20_set_filter_order_independent.
(* str(Requirement): extras as a set, clauses in any order (no two canonically equal clauses: finding D33 otherwise) *)
Theorem C20_requirement_str_order_independent a b :
  ReqModel.q_name a = ReqModel.q_name b -> (forall e, In e (ReqModel.q_extras a) <-> In e (ReqModel.q_extras b)) ->
  Permutation (ReqModel.q_specs a) (ReqModel.q_specs b) -> NoDup (map ReqModel.rq_ckey (ReqModel.q_specs a)) ->
  ReqModel.q_url a = ReqModel.q_url b -> ReqModel.q_marker a = ReqModel.q_marker b -> ReqModel.req_str a = ReqModel.req_str b.
Proof. exact (C08.C08_str_deterministic a b). Qed.
Print Assumptions C20_requirement_str_order_independent.
(* Metadata built WITH validation: reads still return the conversion of the original raw values, whatever order the fields were validated in *)
Theorem C20_metadata_reads_after_validation O data ord s ks : MetaFacts.well_typed data -> MetaModel.from_raw_ord ord O true data = MetaModel.FOk s ->
  MetaModel.reads O s ks = map (fun k => MetaModel.compute O k (MetaBase.lookup k data)) ks.
Proof. exact (C17.C17_reads_after_validation O data ord s ks). Qed.
Print Assumptions C20_metadata_reads_after_validation.

(* ---------------- supply order of the clause LIST (not only iteration order of the stored frozenset) ---------------- *)
Require SetsSupply SetsLaws SetsLink.
(* str(): any two supply orders of the same Specifier objects print alike - provided == members are the same object text ("literal":
   no two members that are equal as specifiers but spelled differently; without it the statement is false: finding D33, refuted below) *)
Theorem C20_set_str_supply_order l l' p : Permutation l l' -> SetsLaws.literal l ->
  SetsModel.set_str (SetsModel.SpecifierSet_of l p) = SetsModel.set_str (SetsModel.SpecifierSet_of l' p).
Proof. exact (SetsSupply.set_str_supply_order l l' p). Qed.
Print Assumptions C20_set_str_supply_order.
(* .prereleases, contains and filter: any two supply orders behave alike - provided == members carry the same pre-release setting
   ("coherent"; without it the statement is false: finding D39) *)
Theorem C20_set_behaviour_supply_order l l' p : Permutation l l' -> Forall SetsLink.built l -> SetsSupply.coherent l ->
  SetsModel.set_pre (SetsModel.SpecifierSet_of l p) = SetsModel.set_pre (SetsModel.SpecifierSet_of l' p) /\
  (forall arg inst item, SetsModel.set_contains (SetsModel.SpecifierSet_of l p) arg inst item = SetsModel.set_contains (SetsModel.SpecifierSet_of l' p) arg inst item) /\
  (forall arg texts, SetsModel.set_filter (SetsModel.SpecifierSet_of l p) arg texts = SetsModel.set_filter (SetsModel.SpecifierSet_of l' p) arg texts).
Proof. exact (SetsSupply.supply_order_behaviour_perm l l' p). Qed.
Print Assumptions C20_set_behaviour_supply_order.

(* ---------------- caches: keyed platform probes, metadata attributes on the richer models ---------------- *)
(* _get_musl_version is memoised PER EXECUTABLE PATH (model: an unbounded association list; functools.lru_cache keeps 128 entries, so this
   is about batteries of at most 128 distinct paths): every probe returns what the FIRST probe for the same path returned; hence a battery
   of probes is transparent when each path answers consistently (one direction only) *)
Theorem C20_keyed_probe_cache l :
  (forall i k now, nth_error l i = Some (k, now) ->
     exists v, nth_error (PlatLoader.run_keyed [] l) i = Some v /\ PlatLoaderProofs.first_for k (firstn (S i) l) = Some v) /\
  ((forall i j k a b, nth_error l i = Some (k, a) -> nth_error l j = Some (k, b) -> a = b) -> PlatLoader.run_keyed [] l = map snd l).
Proof. destruct (C16.C16_keyed_probe_cache l) as (H1 & H2 & _). split; assumption. Qed.
Print Assumptions C20_keyed_probe_cache.
(* Metadata with raising component parsers (the model the correspondence runs): after a successful validated construction every
   sequence of reads returns the attribute of the ORIGINAL raw data (AttributeError for a name that is no field) *)
Theorem C20_metadata_reads3_after_validation O data ord s ks : MetaModel3.from_raw3_ord ord O true data = MetaModel.FOk s ->
  MetaModel3.reads3 O s ks = map (MetaFacts3.attr3 O data) ks.
Proof. exact (C17.C17_reads3_after_validation O data ord s ks). Qed.
Print Assumptions C20_metadata_reads3_after_validation.
(* ... and the caller's dict is untouched (heap model: from_raw copies the dict shallowly; reads never write to the caller's object) *)
Theorem C20_metadata_caller_dict_untouched O w dl d ks : MetaBase.lookup dl (MetaHeap.w_dicts w) = Some d ->
  let '(w1, hi) := MetaHeap.from_raw_h w dl in
  let '(w', _, _) := MetaHeap.hreads O w1 hi ks in
  MetaBase.lookup dl (MetaHeap.w_dicts w') = Some d /\ MetaHeap.w_vals w' = MetaHeap.w_vals w.
Proof. exact (C17.C17_caller_dict_untouched O w dl d ks). Qed.
Print Assumptions C20_metadata_caller_dict_untouched.

(* parse_tag on TEXT: permuting the dotted parts of each of the three fields permutes the resulting tags (same set) *)
Theorem C20_parse_tag_text_parts_order s s' i a p i' a' p' :
  WheelModel.split_all 45 s = [i; a; p] -> WheelModel.split_all 45 s' = [i'; a'; p'] ->
  Permutation (WheelModel.split_all 46 i) (WheelModel.split_all 46 i') -> Permutation (WheelModel.split_all 46 a) (WheelModel.split_all 46 a') ->
  Permutation (WheelModel.split_all 46 p) (WheelModel.split_all 46 p') ->
  exists l l', WheelModel.parse_tag s = WheelModel.FOk l /\ WheelModel.parse_tag s' = WheelModel.FOk l' /\ Permutation l l'.
Proof.
  intros E E' Hi Ha Hp. unfold WheelModel.parse_tag. rewrite E, E'. do 2 eexists. split; [reflexivity|]. split; [reflexivity|].
  now apply C20_parse_tag_parts_order_irrelevant.
Qed.
Print Assumptions C20_parse_tag_text_parts_order.
