From Coq Require Import List NArith Bool.
Import ListNotations.
Require Import MText MkModel.
Theorem C09_stub : format_marker [] = [].
Proof. reflexivity. Qed.
Print Assumptions C09_stub.
