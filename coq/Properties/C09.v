(* C09  Marker string form is canonical and round-trips.
   Model (coq/Marker/MkModel.v): Marker.__init__ = _normalize_extra_values(parse_marker(s)) with ast.literal_eval as an oracle
   on quoted tokens (identity on backslash-free bodies, rejection of NUL/LF/CR), __str__ = _format_marker (first flag, single-item
   peeling, Value.serialize quote choice), __eq__/__hash__ on str.  Tokenizer + grammar: MText.v.
   peel_top m is m with its single-element groups dissolved - the structure the printed text denotes.
   This file holds statements only. *)
From Coq Require Import List Arith NArith Bool Lia.
Import ListNotations.
Require Import MText MRound MRound2 MkModel MkEval MkEvalP MkGroupsP MkFmtP MkShapeP MkRoundP MkTreeP MkLexP MkLayoutP MkTextP.
Require Names.
Open Scope N_scope.

(* 1. str(Marker(s)) is itself a valid marker: it parses, to the same structure with single-element groups dissolved;
   2. it has the same string (str is idempotent);
   3. it evaluates identically - for every valuation of the comparisons, hence in every environment;
   4. it has the same operands in the same order (every literal preserved) *)
Theorem C09_str_roundtrip s m : Marker s = MOk m ->
  Marker (format_marker m) = MOk (peel_top m)
  /\ format_marker (peel_top m) = format_marker m
  /\ (forall evi, geval_markers evi (peel_top m) = geval_markers evi m)
  /\ sides_l (peel_top m) = sides_l m.
Proof. exact (str_roundtrip s m). Qed.
Print Assumptions C09_str_roundtrip.

Theorem C09_eval_preserved s m defaults ov : Marker s = MOk m -> evaluate (peel_top m) defaults ov = evaluate m defaults ov.
Proof. exact (str_roundtrip_eval s m defaults ov). Qed.
Print Assumptions C09_eval_preserved.

(* the reparsed marker is equal to the original and hashes alike (for any hash that is a function of the string) *)
Theorem C09_reparsed_equal s m (h : str -> N) : Marker s = MOk m ->
  marker_eq (peel_top m) m = true /\ h (format_marker (peel_top m)) = h (format_marker m).
Proof. intros H. split; [exact (str_roundtrip_eq s m H) | apply marker_hash_agrees; exact (str_roundtrip_eq s m H)]. Qed.
Print Assumptions C09_reparsed_equal.

(* 5. parentheses preserve the grouping: the printed text of a formula, parsed again, still has the value of that formula *)
Theorem C09_grouping_preserved s f : no_bare_or f = true -> Marker s = MOk (flat f) ->
  exists m', Marker (format_marker (flat f)) = MOk m' /\ forall evi, geval_markers evi m' = den evi f.
Proof. exact (str_keeps_grouping s f). Qed.
Print Assumptions C09_grouping_preserved.

(* 6. the printed text is the canonical layout of the peeled structure: canonical variable names, one space around
      operators and connectives, parentheses exactly around groups of three or more elements (MRound.fmt_list) *)
Theorem C09_canonical_text s m : Marker s = MOk m ->
  exists d, wfm d (peel_top m) /\ format_marker m = fmt_list (peel_top m).
Proof.
  intros H. apply Marker_shape in H as (Sh & _ & _). exists (S (length s)).
  destruct (format_peel _ _ Sh) as (W & _ & F). split; assumption.
Qed.
Print Assumptions C09_canonical_text.

(* 7. quoting preserves each literal: the serialised value is read back as the same value, and the quote chosen is one
      the literal does not contain (double quote unless the literal contains it) *)
Theorem C09_quoting_preserves_literal v p t : (has 34 v && has 39 v) = false -> pre_ok p ->
  p_var {| prev := p; rest := ser_side (SVal v) ++ t |} = Some (SVal v, {| prev := Some (ser_quote v); rest := t |}).
Proof. exact (quote_preserves_literal v p t). Qed.
Print Assumptions C09_quoting_preserves_literal.
Theorem C09_quote_choice v : (has 34 v && has 39 v) = false ->
  has_char (ser_quote v) v = false /\ (has_char 34 v = false -> ser_quote v = 34).
Proof. exact (quote_choice v). Qed.
Print Assumptions C09_quote_choice.
(* every literal of an accepted marker is printable: it never holds both quote characters *)
Theorem C09_literals_printable s m : Marker s = MOk m -> exists d, pfm d m.
Proof. intros H. apply Marker_shape in H as (Sh & _). eauto. Qed.
Print Assumptions C09_literals_printable.

(* 8. equality is equality of strings; equal markers hash alike *)
Theorem C09_eq_is_str_eq a b : marker_eq a b = true <-> format_marker a = format_marker b.
Proof. exact (marker_eq_iff a b). Qed.
Print Assumptions C09_eq_is_str_eq.
Theorem C09_hash_agrees (h : str -> N) a b : marker_eq a b = true -> h (format_marker a) = h (format_marker b).
Proof. exact (marker_hash_agrees h a b). Qed.
Print Assumptions C09_hash_agrees.

(* 9. variants.  Redundant outer parentheses (any number), parentheses around a single comparison, doubled parentheses: *)
Theorem C09_variant_outer_parens m : format_marker [Nested m] = format_marker m.
Proof. exact (variant_outer_parens m). Qed.
Print Assumptions C09_variant_outer_parens.
Theorem C09_variant_inner_parens first l o r m :
  fmt_e first (Nested [Item l o r]) = fmt_e first (Item l o r) /\ fmt_e first (Nested [Nested m]) = fmt_e first (Nested m).
Proof. split; reflexivity. Qed.
Print Assumptions C09_variant_inner_parens.
(* ... in general: structures with the same peeled form are equal markers *)
Theorem C09_variant_same_peeled d a b : pfm d a -> pfm d b -> peel_top a = peel_top b -> marker_eq a b = true.
Proof. exact (variant_peel_equal d a b). Qed.
Print Assumptions C09_variant_same_peeled.
(* the spelling of a name compared with extra, on either side, at any depth (norm_e recurses through every list) *)
Theorem C09_variant_extra_spelling (n o v1 v2 : str) : str_eqb n w_extra = true -> Names.canon_name v1 = Names.canon_name v2 ->
  norm_e (Item (SVar n) o (SVal v1)) = norm_e (Item (SVar n) o (SVal v2)) /\
  norm_e (Item (SVal v1) o (SVar n)) = norm_e (Item (SVal v2) o (SVar n)).
Proof. intros E H. split; [now apply variant_extra_right | now apply variant_extra_left]. Qed.
Print Assumptions C09_variant_extra_spelling.
(* PEP 345 dotted spellings and python_implementation read as the one canonical name (finite check over the alternation) *)
Theorem C09_variant_variable_spelling : forall w, In w var_alts -> In (norm_var w) canon_vars.
Proof. exact norm_var_canon. Qed.
Print Assumptions C09_variant_variable_spelling.
(* whitespace, quote style, spelling of variables: RList m t says "t is a text of the structure m" (any runs of spaces/tabs
   where the grammar allows them, either quote, any spelling of the alternation; MkLayoutP.v).  Two texts of one structure
   construct the very same Marker - hence equal, same hash, same str *)
Theorem C09_variant_layout m t1 t2 g0 g3 nl g0' g3' nl' : RList m t1 -> RList m t2 ->
  is_ws_str g0 = true -> is_ws_str g3 = true -> nl = [] \/ nl = [10] ->
  is_ws_str g0' = true -> is_ws_str g3' = true -> nl' = [] \/ nl' = [10] ->
  Marker (g0 ++ t1 ++ g3 ++ nl) = Marker (g0' ++ t2 ++ g3' ++ nl').
Proof. exact (layout_variants m t1 t2 g0 g3 nl g0' g3' nl'). Qed.
Print Assumptions C09_variant_layout.
(* all variant kinds together: texts of structures that agree after extra-normalisation and dissolving single-element groups
   (redundant / doubled parentheses) are accepted and are equal markers *)
Theorem C09_variants_equal m1 m2 t1 t2 : RList m1 t1 -> RList m2 t2 -> lit_class m1 = LOk -> lit_class m2 = LOk ->
  peel_top (norm_l m1) = peel_top (norm_l m2) ->
  exists a b, Marker t1 = MOk a /\ Marker t2 = MOk b /\ marker_eq a b = true.
Proof. exact (layout_variants_eq m1 m2 t1 t2). Qed.
Print Assumptions C09_variants_equal.

(* non-vacuity: a doubly parenthesised or-group holding a literal with a double quote and an extra comparison with an
   un-normalised name on the left, and-ed with a parenthesised single comparison: the text printed differs from the input
   (normalised name, single quotes kept, inner parentheses kept once, the single comparison unwrapped) and round-trips *)
Definition ex_txt : str := [40;40;111;115;95;110;97;109;101;32;61;61;32;39;97;34;98;39;32;111;114;32;34;88;95;121;34;32;61;61;32;101;120;116;114;97;41;41;32;97;110;100;32;40;111;115;95;110;97;109;101;32;61;61;32;34;99;34;41].
Definition ex_out : str := [40;111;115;95;110;97;109;101;32;61;61;32;39;97;34;98;39;32;111;114;32;34;120;45;121;34;32;61;61;32;101;120;116;114;97;41;32;97;110;100;32;111;115;95;110;97;109;101;32;61;61;32;34;99;34].
Example C09_nonvacuous :
  match Marker ex_txt with
  | MOk m => str_eqb (format_marker m) ex_out
             && match Marker (format_marker m) with MOk m' => str_eqb (format_marker m') ex_out | _ => false end
             && negb (Nat.eqb (length (sides_l m)) 0) && negb (str_eqb ex_txt ex_out)
  | _ => false
  end = true.
Proof. vm_compute. reflexivity. Qed.
