(* C09  Marker string form is canonical and round-trips.
   Model (coq/Marker/MkModel.v): Marker.__init__ = _normalize_extra_values(parse_marker(s)) with ast.literal_eval as an oracle
   on quoted tokens (identity on backslash-free bodies, rejection of NUL/LF/CR), __str__ = _format_marker (first flag, single-item
   peeling, Value.serialize quote choice), __eq__/__hash__ on str.  Tokenizer + grammar: MText.v.
   peel_top m is m with its single-element groups dissolved - the structure the printed text denotes.
   This file holds statements only. *)
From Coq Require Import List Arith NArith Bool Lia.
Import ListNotations.
Require Import MText MRound MRound2 MkModel MkEval MkEvalP MkGroupsP MkFmtP MkShapeP MkRoundP MkTreeP MkLexP MkLayoutP MkTextP.
Require Names.
Require MkEqP MkVariantP MkNewlineP MkReqP ReqModel ReqSpec.
Open Scope N_scope.

(* 1. str(Marker(s)) is itself a valid marker: it parses, to the same structure with single-element groups dissolved;
   2. it has the same string (str is idempotent);
   3. it evaluates identically - for every valuation of the comparisons, hence in every environment;
   4. it has the same operands in the same order (every literal preserved) *)
Theorem C09_str_roundtrip s m : Marker s = MOk m ->
  Marker (format_marker m) = MOk (peel_top m)
  /\ format_marker (peel_top m) = format_marker m
  /\ (forall evi, geval_markers evi (peel_top m) = geval_markers evi m)
  /\ sides_l (peel_top m) = sides_l m.
Proof. exact (str_roundtrip s m). Qed.
Print Assumptions C09_str_roundtrip.

Theorem C09_eval_preserved s m defaults ov : Marker s = MOk m -> evaluate (peel_top m) defaults ov = evaluate m defaults ov.
Proof. exact (str_roundtrip_eval s m defaults ov). Qed.
Print Assumptions C09_eval_preserved.

(* the reparsed marker is equal to the original and hashes alike (for any hash that is a function of the string) *)
Theorem C09_reparsed_equal s m (h : str -> N) : Marker s = MOk m ->
  marker_eq (peel_top m) m = true /\ h (format_marker (peel_top m)) = h (format_marker m).
Proof. intros H. split; [exact (str_roundtrip_eq s m H) | apply marker_hash_agrees; exact (str_roundtrip_eq s m H)]. Qed.
Print Assumptions C09_reparsed_equal.

(* 5. parentheses preserve the grouping: the printed text of a formula, parsed again, still has the value of that formula *)
Theorem C09_grouping_preserved s f : no_bare_or f = true -> Marker s = MOk (flat f) ->
  exists m', Marker (format_marker (flat f)) = MOk m' /\ forall evi, geval_markers evi m' = den evi f.
Proof. exact (str_keeps_grouping s f). Qed.
Print Assumptions C09_grouping_preserved.

(* 6. the printed text is the canonical layout of the peeled structure: canonical variable names, one space around
      operators and connectives, parentheses exactly around groups of three or more elements (MRound.fmt_list) *)
Theorem C09_canonical_text s m : Marker s = MOk m ->
  exists d, wfm d (peel_top m) /\ format_marker m = fmt_list (peel_top m).
Proof.
  intros H. apply Marker_shape in H as (Sh & _ & _). exists (S (length s)).
  destruct (format_peel _ _ Sh) as (W & _ & F). split; assumption.
Qed.
Print Assumptions C09_canonical_text.

(* 7. quoting preserves each literal: the serialised value is read back as the same value, and the quote chosen is one
      the literal does not contain (double quote unless the literal contains it) *)
Theorem C09_quoting_preserves_literal v p t : (has 34 v && has 39 v) = false -> pre_ok p ->
  p_var {| prev := p; rest := ser_side (SVal v) ++ t |} = Some (SVal v, {| prev := Some (ser_quote v); rest := t |}).
Proof. exact (quote_preserves_literal v p t). Qed.
Print Assumptions C09_quoting_preserves_literal.
Theorem C09_quote_choice v : (has 34 v && has 39 v) = false ->
  has_char (ser_quote v) v = false /\ (has_char 34 v = false -> ser_quote v = 34).
Proof. exact (quote_choice v). Qed.
Print Assumptions C09_quote_choice.
(* every literal of an accepted marker is printable: it never holds both quote characters *)
Theorem C09_literals_printable s m : Marker s = MOk m -> exists d, pfm d m.
Proof. intros H. apply Marker_shape in H as (Sh & _). eauto. Qed.
Print Assumptions C09_literals_printable.

(* 8. equality is equality of strings; equal markers hash alike *)
Theorem C09_eq_is_str_eq a b : marker_eq a b = true <-> format_marker a = format_marker b.
Proof. exact (marker_eq_iff a b). Qed.
Print Assumptions C09_eq_is_str_eq.
Theorem C09_hash_agrees (h : str -> N) a b : marker_eq a b = true -> h (format_marker a) = h (format_marker b).
Proof. exact (marker_hash_agrees h a b). Qed.
Print Assumptions C09_hash_agrees.

(* 9. variants.  Redundant outer parentheses (any number), parentheses around a single comparison, doubled parentheses: *)
Theorem C09_variant_outer_parens m : format_marker [Nested m] = format_marker m.
Proof. exact (variant_outer_parens m). Qed.
Print Assumptions C09_variant_outer_parens.
Theorem C09_variant_inner_parens first l o r m :
  fmt_e first (Nested [Item l o r]) = fmt_e first (Item l o r) /\ fmt_e first (Nested [Nested m]) = fmt_e first (Nested m).
Proof. split; reflexivity. Qed.
Print Assumptions C09_variant_inner_parens.
(* ... in general: structures with the same peeled form are equal markers *)
Theorem C09_variant_same_peeled d a b : pfm d a -> pfm d b -> peel_top a = peel_top b -> marker_eq a b = true.
Proof. exact (variant_peel_equal d a b). Qed.
Print Assumptions C09_variant_same_peeled.
(* the spelling of a name compared with extra, on either side, at any depth (norm_e recurses through every list) *)
Theorem C09_variant_extra_spelling (n o v1 v2 : str) : str_eqb n w_extra = true -> Names.canon_name v1 = Names.canon_name v2 ->
  norm_e (Item (SVar n) o (SVal v1)) = norm_e (Item (SVar n) o (SVal v2)) /\
  norm_e (Item (SVal v1) o (SVar n)) = norm_e (Item (SVal v2) o (SVar n)).
Proof. intros E H. split; [now apply variant_extra_right | now apply variant_extra_left]. Qed.
Print Assumptions C09_variant_extra_spelling.
(* PEP 345 dotted spellings and python_implementation read as the one canonical name (finite check over the alternation) *)
Theorem C09_variant_variable_spelling : forall w, In w var_alts -> In (norm_var w) canon_vars.
Proof. exact norm_var_canon. Qed.
Print Assumptions C09_variant_variable_spelling.
(* whitespace, quote style, spelling of variables: RList m t says "t is a text of the structure m" (any runs of spaces/tabs
   where the grammar allows them, either quote, any spelling of the alternation; MkLayoutP.v).  Two texts of one structure
   construct the very same Marker - hence equal, same hash, same str *)
Theorem C09_variant_layout m t1 t2 g0 g3 nl g0' g3' nl' : RList m t1 -> RList m t2 ->
  is_ws_str g0 = true -> is_ws_str g3 = true -> nl = [] \/ nl = [10] ->
  is_ws_str g0' = true -> is_ws_str g3' = true -> nl' = [] \/ nl' = [10] ->
  Marker (g0 ++ t1 ++ g3 ++ nl) = Marker (g0' ++ t2 ++ g3' ++ nl').
Proof. exact (layout_variants m t1 t2 g0 g3 nl g0' g3' nl'). Qed.
Print Assumptions C09_variant_layout.
(* all variant kinds together: texts of structures that agree after extra-normalisation and dissolving single-element groups
   (redundant / doubled parentheses) are accepted and are equal markers *)
Theorem C09_variants_equal m1 m2 t1 t2 : RList m1 t1 -> RList m2 t2 -> lit_class m1 = LOk -> lit_class m2 = LOk ->
  peel_top (norm_l m1) = peel_top (norm_l m2) ->
  exists a b, Marker t1 = MOk a /\ Marker t2 = MOk b /\ marker_eq a b = true.
Proof. exact (layout_variants_eq m1 m2 t1 t2). Qed.
Print Assumptions C09_variants_equal.

(* 10. canonicity converse: == conflates NOTHING but structures with the same peeled form (so, with C09_variant_same_peeled, equality
       of accepted markers IS equality of the peeled structures), and it is an equivalence *)
Theorem C09_eq_only_if_same_peeled d a b : pfm d a -> pfm d b -> marker_eq a b = true -> peel_top a = peel_top b.
Proof. exact (MkEqP.eq_only_if_same_peeled d a b). Qed.
Print Assumptions C09_eq_only_if_same_peeled.
Theorem C09_eq_iff_same_peeled s1 s2 a b : Marker s1 = MOk a -> Marker s2 = MOk b -> (marker_eq a b = true <-> peel_top a = peel_top b).
Proof. exact (MkEqP.Marker_eq_iff_same_peeled s1 s2 a b). Qed.
Print Assumptions C09_eq_iff_same_peeled.
(* (definitional: marker_eq is equality of two strings) *)
Theorem C09_eq_equivalence : (forall a, marker_eq a a = true) /\ (forall a b, marker_eq a b = marker_eq b a) /\
  (forall a b c, marker_eq a b = true -> marker_eq b c = true -> marker_eq a c = true).
Proof. split; [exact MkEqP.marker_eq_refl | split; [exact MkEqP.marker_eq_sym | exact MkEqP.marker_eq_trans]]. Qed.
Print Assumptions C09_eq_equivalence.
(* equal markers evaluate identically in every environment and have the same operands in the same order *)
Theorem C09_equal_markers_evaluate_alike s1 s2 a b defaults ov : Marker s1 = MOk a -> Marker s2 = MOk b -> marker_eq a b = true ->
  evaluate a defaults ov = evaluate b defaults ov /\ sides_l a = sides_l b.
Proof.
  intros Ha Hb E. split; [exact (MkEqP.equal_markers_evaluate_alike s1 s2 a b defaults ov Ha Hb E) | exact (MkEqP.equal_markers_same_operands s1 s2 a b Ha Hb E)].
Qed.
Print Assumptions C09_equal_markers_evaluate_alike.

(* 11. PEP 345 variable spellings, by name (C09_variant_variable_spelling only said "some canonical name"): every spelling of the
       alternation is read as its own text with "." replaced by "_", except python_implementation, which is read as
       platform_python_implementation; canonical names are read as themselves; every canonical name has a spelling *)
Theorem C09_var_spellings :
  forallb (fun w => str_eqb (norm_var w) (if str_eqb (MkEqP.dot2us w) w_pyimpl then w_ppyimpl else MkEqP.dot2us w)) var_alts = true
  /\ forallb (fun w => str_eqb (norm_var w) w) canon_vars = true
  /\ forallb (fun n => existsb (fun w => str_eqb (norm_var w) n) var_alts) canon_vars = true.
Proof. exact MkEqP.var_spellings. Qed.
Print Assumptions C09_var_spellings.
(* ... hence two spellings denote the same variable exactly when they agree after that replacement: os.name / os_name are
   identified, os_name / sys_platform are not *)
Theorem C09_var_spellings_exact w1 w2 : In w1 var_alts -> In w2 var_alts ->
  (norm_var w1 = norm_var w2 <->
   MkEqP.dot2us w1 = MkEqP.dot2us w2 \/ (MkEqP.dot2us w1 = w_pyimpl /\ MkEqP.dot2us w2 = w_ppyimpl) \/
   (MkEqP.dot2us w1 = w_ppyimpl /\ MkEqP.dot2us w2 = w_pyimpl)).
Proof. exact (MkEqP.var_spellings_exact w1 w2). Qed.
Print Assumptions C09_var_spellings_exact.

(* 12. redundant parentheses and extra-name spellings AT ANY DEPTH.  MkVariantP.Variant m1 m2: related by any number of steps, each
       wrapping/unwrapping a single element in a group or replacing the literal compared with extra (either side) by one with the
       same PEP 503 normal form - in any context (VE_ctx: inside any group at any position, hence at any depth).
       Variants normalise and peel to the same structure ... *)
Theorem C09_variant_any_depth m1 m2 : MkVariantP.Variant m1 m2 -> peel_top (norm_l m1) = peel_top (norm_l m2).
Proof. exact (MkVariantP.variant_same_peeled m1 m2). Qed.
Print Assumptions C09_variant_any_depth.
(* ... so whatever two texts look like, if what the parser reads from them are variants, the Markers are equal, print alike (hash
   alike) and evaluate alike *)
Theorem C09_variant_markers_equal t1 t2 m1 m2 : parse_marker_nl t1 = Some m1 -> parse_marker_nl t2 = Some m2 ->
  lit_class m1 = LOk -> lit_class m2 = LOk -> MkVariantP.Variant m1 m2 ->
  exists a b, Marker t1 = MOk a /\ Marker t2 = MOk b /\ marker_eq a b = true /\ format_marker a = format_marker b.
Proof. exact (MkVariantP.variant_markers_equal t1 t2 m1 m2). Qed.
Print Assumptions C09_variant_markers_equal.
Theorem C09_variant_evaluate_alike t1 t2 m1 m2 defaults ov : parse_marker_nl t1 = Some m1 -> parse_marker_nl t2 = Some m2 ->
  lit_class m1 = LOk -> lit_class m2 = LOk -> MkVariantP.Variant m1 m2 ->
  exists a b, Marker t1 = MOk a /\ Marker t2 = MOk b /\ evaluate a defaults ov = evaluate b defaults ov.
Proof. exact (MkVariantP.variant_evaluate_alike t1 t2 m1 m2 defaults ov). Qed.
Print Assumptions C09_variant_evaluate_alike.
(* the constructors the statement names, as derived rules: outer parentheses; a variant step inside a group inside a group
   (restates the definition of Variant for the reader; no content of its own) *)
Theorem C09_variant_rules :
  (forall m, MkVariantP.Variant m [Nested m]) /\
  (forall e, is_bool e = false -> MkVariantP.VarE e (Nested [e])) /\
  (forall n o v1 v2, str_eqb n w_extra = true -> Names.canon_name v1 = Names.canon_name v2 ->
     MkVariantP.VarE (Item (SVar n) o (SVal v1)) (Item (SVar n) o (SVal v2)) /\
     MkVariantP.VarE (Item (SVal v1) o (SVar n)) (Item (SVal v2) o (SVar n))) /\
  (forall pre post pre' post' e e', MkVariantP.VarE e e' ->
     MkVariantP.Variant (pre ++ Nested (pre' ++ e :: post') :: post) (pre ++ Nested (pre' ++ e' :: post') :: post)).
Proof.
  split; [exact MkVariantP.Variant_outer_parens|]. split; [exact MkVariantP.VE_wrap|]. split.
  - intros n o v1 v2 E H. split; [now apply MkVariantP.VE_extra_r | now apply MkVariantP.VE_extra_l].
  - exact MkVariantP.Variant_at2.
Qed.
Print Assumptions C09_variant_rules.

(* 13. a trailing newline (END is "$"): for every text the strict parser accepts, Marker(text + "\n") is Marker(text) *)
Theorem C09_trailing_newline mt m : MText.parse_marker mt = Some m -> Marker (mt ++ [10]) = Marker mt.
Proof. exact (MkNewlineP.Marker_trailing_newline mt m). Qed.
Print Assumptions C09_trailing_newline.

(* 14. the marker attached to a parsed Requirement equals the stand-alone Marker of the same text (composition of the C08 theorem
       C08_marker_is_Marker = ReqTopP.Requirement_marker_is_Marker with the laws above).  sp ranges over every spelled requirement:
       name, optional extras, a version clause list (parenthesised or not) or "@ url", blanks wherever the grammar allows them, and
       the marker text mt after ";".  The content: the requirement's marker IS the Marker of mt, also of mt followed by ONE newline
       (the newline is appended to the STAND-ALONE text only; Requirement(text + "\n") is not stated - the requirement model has no
       lemma for it; it is computed on one instance in MkReqP.rx_check and sampled by the stream law-req-prefix), and its str
       reparses to the peeled structure. *)
Theorem C09_requirement_marker_core sp mt m : ReqSpec.rq_wf sp (Some m) -> ReqSpec.rs_marker sp = Some mt -> lit_class m = LOk ->
  exists r a,
    ReqModel.Requirement (ReqSpec.rq_render sp) = ReqModel.RqOk r /\ ReqModel.q_marker r = Some a /\ Marker mt = MOk a /\
    Marker (mt ++ [10]) = MOk a /\ Marker (format_marker a) = MOk (peel_top a).
Proof. exact (MkReqP.requirement_marker_core sp mt m). Qed.
Print Assumptions C09_requirement_marker_core.
(* the same spelled out as "equal, same str, same hash, same evaluation".  NOTE: after the conjunct a = b the five conjuncts
   marker_eq a b, format_marker a = format_marker b, h .. = h .., evaluate a = evaluate b and marker_eq (peel_top b) b are immediate
   (reflexivity / C09_reparsed_equal); they carry no content beyond C09_requirement_marker_core and are kept for readability only *)
Theorem C09_requirement_marker_same sp mt m : ReqSpec.rq_wf sp (Some m) -> ReqSpec.rs_marker sp = Some mt -> lit_class m = LOk ->
  exists r a b,
    ReqModel.Requirement (ReqSpec.rq_render sp) = ReqModel.RqOk r /\ ReqModel.q_marker r = Some a /\ Marker mt = MOk b /\
    a = b /\ marker_eq a b = true /\ format_marker a = format_marker b /\
    (forall (h : str -> N), h (format_marker a) = h (format_marker b)) /\
    (forall defaults ov, evaluate a defaults ov = evaluate b defaults ov) /\
    Marker (format_marker a) = MOk (peel_top b) /\ marker_eq (peel_top b) b = true /\
    Marker (mt ++ [10]) = MOk b.
Proof. exact (MkReqP.requirement_marker_same sp mt m). Qed.
Print Assumptions C09_requirement_marker_same.
(* non-vacuity of 14: a spelled requirement (extras, parenthesised clause list, a marker with a dotted variable and an un-normalised
   extra name) that satisfies every hypothesis, and the conclusion computed on it *)
Example C09_requirement_marker_nonvacuous :
  (exists m, ReqSpec.rq_wf MkReqP.rx_sp (Some m) /\ ReqSpec.rs_marker MkReqP.rx_sp = Some MkReqP.rx_marker_text /\ lit_class m = LOk)
  /\ MkReqP.rx_check = true.
Proof. split; [exact MkReqP.requirement_marker_hypotheses | exact MkReqP.rx_nonvacuous]. Qed.

(* non-vacuity of 10-13 (14: see above): closed boolean checks and one explicit Variant derivation (a respelling two groups down, a wrap at depth
   one, outer parentheses) between the structures two concrete texts parse to *)
Example C09_new_nonvacuous :
  MkEqP.eq_check = true /\ MkVariantP.variant_check = true /\ MkNewlineP.newline_check = true /\
  MkVariantP.Variant MkVariantP.vx_m1 MkVariantP.vx_m2 /\
  parse_marker_nl MkVariantP.vx_t1 = Some MkVariantP.vx_m1 /\ parse_marker_nl MkVariantP.vx_t2 = Some MkVariantP.vx_m2.
Proof.
  split; [exact MkEqP.eq_nonvacuous|]. split; [exact MkVariantP.variant_nonvacuous|]. split; [exact MkNewlineP.newline_nonvacuous|].
  split; [exact MkVariantP.variant_example | exact MkVariantP.variant_example_parses].
Qed.

(* non-vacuity: a doubly parenthesised or-group holding a literal with a double quote and an extra comparison with an
   un-normalised name on the left, and-ed with a parenthesised single comparison: the text printed differs from the input
   (normalised name, single quotes kept, inner parentheses kept once, the single comparison unwrapped) and round-trips *)
Definition ex_txt : str := [40;40;111;115;95;110;97;109;101;32;61;61;32;39;97;34;98;39;32;111;114;32;34;88;95;121;34;32;61;61;32;101;120;116;114;97;41;41;32;97;110;100;32;40;111;115;95;110;97;109;101;32;61;61;32;34;99;34;41].
Definition ex_out : str := [40;111;115;95;110;97;109;101;32;61;61;32;39;97;34;98;39;32;111;114;32;34;120;45;121;34;32;61;61;32;101;120;116;114;97;41;32;97;110;100;32;111;115;95;110;97;109;101;32;61;61;32;34;99;34].
Example C09_nonvacuous :
  match Marker ex_txt with
  | MOk m => str_eqb (format_marker m) ex_out
             && match Marker (format_marker m) with MOk m' => str_eqb (format_marker m') ex_out | _ => false end
             && negb (Nat.eqb (length (sides_l m)) 0) && negb (str_eqb ex_txt ex_out)
  | _ => false
  end = true.
Proof. vm_compute. reflexivity. Qed.
