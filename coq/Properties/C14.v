(* C14 placeholder, grown below *)
From Coq Require Import List NArith Bool.
Import ListNotations.
Require Import VParse VMeaning Names WheelModel.
Open Scope N_scope.
Theorem C14_placeholder : parse_tag [97;45;98;45;99] = FOk [mk_tag [97] [98] [99]].
Proof. reflexivity. Qed.
Print Assumptions C14_placeholder.
