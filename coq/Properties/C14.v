(* C14  Wheel and sdist filenames decode to what they encode.
   Model: WheelModel.parse_wheel / parse_sdist (extension test, dash counting, split("-", dashes-2), the project-name check, Version(),
   the build-tag regex + int(), rpartition), WheelModel.parse_tag / mk_tag / tag_eq / tag_str (tags.parse_tag, Tag.__init__/__eq__/__str__).
   The version part reuses the version model of C01/C02 (SpecModel.Version, vstr).
   Encoders: WheelLaws.wheel_name / escape (binary-distribution spec), p ++ "-" ++ version ++ ext (source-distribution spec).
   Non-ASCII text: the model is exact on every string of code points - str.lower() (Tag fields, canonicalize_name) is NamesX.lower_full /
   canon_full (the interpreter's full table and the Final_Sigma rule), \w and \d / int() are the generated range tables of Gen/WordTable.v;
   all of them are re-validated against the running interpreter for every code point on every run (law.n.lowertable, law.f.tables).
   ONE EXCEPTION to "exact": the model has no digit limit (finding D10).  CPython's int() refuses a digit run of more than 4300 digits and the
   code then raises InvalidWheelFilename (build number) / InvalidVersion (version part), where the model decodes the number.  So wherever
   this file says "exact", "rejects EXACTLY" (C14_rejects_exactly), a round trip of a build tag (C14_wheel_roundtrip*, C14_build_text_ascii)
   or "nothing else can happen" (C14_only_documented_errors), the claim about the real code is for digit runs of at most 4300 digits;
   beyond that the theorems are statements about the model only (harness matcher match_d10_build).
   Domain of the round trips: project names over ASCII letters, digits and -_. (escaped with or without lower-casing); any version text
   without '-' that Version() accepts, in particular str(v); build (number, suffix) with a suffix free of '-' that does not start
   with a digit; non-empty lists of tag parts free of '-' and '.'.  Outside it the encoding is not injective (12 + "3x" = 123 + "x").
   A frozenset of tags is modelled as the list the triple loop produces; the set is its set of elements (C14_tags_are_the_product).
   This file holds statements only. *)
From Coq Require Import List Arith NArith Bool Lia.
Import ListNotations.
Require Import S1 VParse VDec Py VMeaning SpecModel CanonLaws Names NamesSpec NamesLaws NamesX NamesLowerFull WheelModel Wheel WheelLaws WheelMore.
Open Scope N_scope.

(* 0. complete characterisation: on every text of the shape a-b(-c)?-d-e-f.whl the parser answers component-wise as wheel_spec says *)
Theorem C14_wheel_decomposition w : wf_wheel w -> parse_wheel (encode w) = wheel_spec w.
Proof. exact (parse_wheel_encode w). Qed.
Print Assumptions C14_wheel_decomposition.

(* 1. wheel round trip, for any escaped spelling p of the project name that passes the name check *)
Theorem C14_wheel_roundtrip p vtxt v b pys abis plats :
  name_ok p -> nochar dash vtxt = true -> Version vtxt = Some v -> build_ok b -> parts_ok pys -> parts_ok abis -> parts_ok plats ->
  parse_wheel (wheel_name p vtxt b pys abis plats) = FOk (canon_full p, v, b, tag_product pys abis plats).
Proof. exact (wheel_roundtrip p vtxt v b pys abis plats). Qed.
Print Assumptions C14_wheel_roundtrip.

(* 1b. the statement's form: name n escaped per the binary-distribution spec (lower-cased or not), the version written as str(v) *)
Theorem C14_wheel_roundtrip_spec (n : list N) (lower : bool) v b pys abis plats :
  forallb is_cls n = true -> VMeaning.wf_version v -> build_ok b -> parts_ok pys -> parts_ok abis -> parts_ok plats ->
  parse_wheel (wheel_name (if lower then lower_full (escape n) else escape n) (vstr v) b pys abis plats)
  = FOk (canon_full n, v, b, tag_product pys abis plats).
Proof.
  intros Hn Wv B P1 P2 P3. rewrite wheel_roundtrip with (v := v); auto using vstr_nodash, Version_vstr.
  - destruct lower; now rewrite ?canon_escape_lower, ?canon_escape.
  - destruct lower; [now apply escape_lower_ok|now apply escape_ok].
Qed.
Print Assumptions C14_wheel_roundtrip_spec.

(* 1c. "exactly the cartesian product ... as Tags": membership in the returned tag list *)
Theorem C14_tags_are_the_product t pys abis plats :
  In t (tag_product pys abis plats) <-> exists i a p, In i pys /\ In a abis /\ In p plats /\ t = mk_tag i a p.
Proof. exact (in_tag_product t pys abis plats). Qed.
Print Assumptions C14_tags_are_the_product.

(* 2. sdist round trip; the name part may be any text (legacy names with dashes included), the extension .tar.gz or .zip *)
Theorem C14_sdist_roundtrip p vtxt v ext : nochar dash vtxt = true -> Version vtxt = Some v -> (ext = w_targz \/ ext = w_zip) ->
  parse_sdist (p ++ dash :: vtxt ++ ext) = FOk (canon_full p, v).
Proof. intros H E X. rewrite parse_sdist_encode by assumption. now rewrite E. Qed.
Print Assumptions C14_sdist_roundtrip.
Theorem C14_sdist_roundtrip_spec (n : list N) (lower : bool) v ext : VMeaning.wf_version v -> (ext = w_targz \/ ext = w_zip) ->
  parse_sdist ((if lower then lower_full (escape n) else escape n) ++ dash :: vstr v ++ ext) = FOk (canon_full n, v).
Proof.
  intros W X. rewrite C14_sdist_roundtrip with (v := v); auto using vstr_nodash, Version_vstr.
  destruct lower; now rewrite ?canon_escape_lower, ?canon_escape.
Qed.
Print Assumptions C14_sdist_roundtrip_spec.

(* 3. parse_tag(str(t)) = {t}: for every tag whose fields contain neither '-' nor '.', in particular every member of a parsed set *)
Theorem C14_parse_tag_str i a p :
  nochar 45 i = true -> nochar 46 i = true -> nochar 45 a = true -> nochar 46 a = true -> nochar 45 p = true -> nochar 46 p = true ->
  parse_tag (tag_str (mk_tag i a p)) = FOk [mk_tag i a p].
Proof. exact (parse_tag_str i a p). Qed.
Print Assumptions C14_parse_tag_str.
Theorem C14_parse_tag_members s ts t : parse_tag s = FOk ts -> In t ts -> parse_tag (tag_str t) = FOk [t].
Proof. exact (parse_tag_members s ts t). Qed.
Print Assumptions C14_parse_tag_members.
(* parse_tag fails (tuple unpacking) exactly when the text does not have three dash-separated parts; the statement is silent there *)
Theorem C14_parse_tag_defined s : (exists ts, parse_tag s = FOk ts) <-> count_c 45 s = 2%nat.
Proof. exact (parse_tag_ok_iff s). Qed.
Print Assumptions C14_parse_tag_defined.

(* 4. Tag fields are case-insensitive: == (whatever the stored hash function) is equality of the lower-cased triples,
      the stored fields are already lower case, and upper-casing any ASCII letters of the arguments gives the same tag *)
Theorem C14_tag_case_insensitive h i a p i' a' p' :
  tag_eq h (mk_tag i a p) (mk_tag i' a' p') = true <-> lower_full i = lower_full i' /\ lower_full a = lower_full a' /\ lower_full p = lower_full p'.
Proof. rewrite tag_eq_iff. apply mk_tag_eq_iff. Qed.
Print Assumptions C14_tag_case_insensitive.
Theorem C14_tag_fields_normalised i a p :
  let t := mk_tag i a p in mk_tag (t_interp t) (t_abi t) (t_plat t) = t /\ mk_tag (map upper_a i) (map upper_a a) (map upper_a p) = t.
Proof. split; [apply mk_tag_fields|apply mk_tag_upper]. Qed.
Print Assumptions C14_tag_fields_normalised.

(* 5. rejections, each with the documented exception (FErr) *)
Theorem C14_rejects_wrong_extension fn : ends_with w_whl fn = false -> parse_wheel fn = FErr.
Proof. exact (reject_extension fn). Qed.
Print Assumptions C14_rejects_wrong_extension.
Theorem C14_rejects_wrong_part_count fn : count_c dash (drop_last 4 fn) <> 4%nat -> count_c dash (drop_last 4 fn) <> 5%nat -> parse_wheel fn = FErr.
Proof. exact (reject_part_count fn). Qed.
Print Assumptions C14_rejects_wrong_part_count.
Theorem C14_rejects_unescaped_name w : wf_wheel w ->
  (exists a b, w_name w = a ++ 95 :: 95 :: b) \/ (exists c, In c (w_name w) /\ ascii_unescaped c) -> parse_wheel (encode w) = FErr.
Proof. intros W H. apply reject_name; auto. now apply name_bad_unescaped. Qed.
Print Assumptions C14_rejects_unescaped_name.
Theorem C14_rejects_build_without_digit w b : wf_wheel w -> w_build w = Some b -> hd_is is_d b = false -> parse_wheel (encode w) = FErr.
Proof. exact (reject_build w b). Qed.
Print Assumptions C14_rejects_build_without_digit.
Theorem C14_rejects_invalid_version w : wf_wheel w -> Version (w_ver w) = None -> parse_wheel (encode w) = FErr.
Proof. exact (reject_version w). Qed.
Print Assumptions C14_rejects_invalid_version.
Theorem C14_sdist_rejects fn stem p vtxt ext : (ext = w_targz \/ ext = w_zip) ->
  (ends_with w_targz fn = false -> ends_with w_zip fn = false -> parse_sdist fn = FErr) /\
  (nochar dash stem = true -> parse_sdist (stem ++ ext) = FErr) /\
  (nochar dash vtxt = true -> Version vtxt = None -> parse_sdist (p ++ dash :: vtxt ++ ext) = FErr).
Proof.
  intros X. repeat split.
  - apply sdist_reject_extension.
  - intros H. now apply sdist_reject_nodash.
  - intros H E. rewrite parse_sdist_encode by assumption. now rewrite E.
Qed.
Print Assumptions C14_sdist_rejects.

(* 5b. the rejections above are exhaustive: every text that passes the extension and part-count tests is encode w of a well-formed w ... *)
Theorem C14_decode_exists fn : ends_with w_whl fn = true ->
  (count_c dash (drop_last 4 fn) = 4 \/ count_c dash (drop_last 4 fn) = 5)%nat -> exists w, wf_wheel w /\ fn = encode w.
Proof. exact (decode_exists fn). Qed.
Print Assumptions C14_decode_exists.
(* ... so parse_wheel_filename rejects EXACTLY: wrong extension, wrong number of parts, a name failing the name check, an invalid version,
   a build tag not starting with a \d digit *)
Theorem C14_rejects_exactly fn : parse_wheel fn = FErr <->
  ends_with w_whl fn = false \/
  (count_c dash (drop_last 4 fn) <> 4 /\ count_c dash (drop_last 4 fn) <> 5)%nat \/
  exists w, wf_wheel w /\ fn = encode w /\
    (name_bad (w_name w) = true \/ Version (w_ver w) = None \/ exists b, w_build w = Some b /\ hd_is is_d b = false).
Proof. exact (reject_iff fn). Qed.
Print Assumptions C14_rejects_exactly.
(* the name check, exactly: "__" or a character outside \w and '.'.  It does NOT require an escaped name: "foo.bar", "._.", "" and
   upper case pass (WheelMore.unescaped_accepted_check); the statement's "non-escaped project name" is read as this check. *)
Theorem C14_name_check_exact n : name_bad n = true <-> (exists a b, n = a ++ 95 :: 95 :: b) \/ (exists c, In c n /\ name_char c = false).
Proof. exact (name_bad_iff n). Qed.
Print Assumptions C14_name_check_exact.
(* 5c. accepted implies well-formed: an accepted filename is the encoding of components that answer as wheel_spec says *)
Theorem C14_accept_inv fn r : parse_wheel fn = FOk r -> exists w, wf_wheel w /\ fn = encode w /\ wheel_spec w = FOk r.
Proof. exact (accept_inv fn r). Qed.
Print Assumptions C14_accept_inv.
Theorem C14_accept_components w r : wf_wheel w -> parse_wheel (encode w) = FOk r ->
  name_bad (w_name w) = false /\ (exists v, Version (w_ver w) = Some v /\
    exists bt, r = (canon_full (w_name w), v, bt, tag_product (split_all 46 (w_py w)) (split_all 46 (w_abi w)) (split_all 46 (w_plat w))) /\
               match w_build w with None => bt = None | Some b => exists k, build_of b = Some k /\ bt = Some k end).
Proof. exact (accept_components w r). Qed.
Print Assumptions C14_accept_components.

(* 1d. the build tag as text: any non-empty run of \d digits (leading zeros, non-ASCII decimal digits) followed by a suffix that does not
       start with a \d digit is read as (int(run), suffix); for ASCII digits int is the decimal value ("007x" -> (7, "x")) *)
Theorem C14_wheel_roundtrip_build_text p vtxt v b pys abis plats :
  name_ok p -> nochar dash vtxt = true -> Version vtxt = Some v -> build_ok_t b -> parts_ok pys -> parts_ok abis -> parts_ok plats ->
  parse_wheel (wheel_name_t p vtxt b pys abis plats)
  = FOk (canon_full p, v, option_map (fun b => (int_of (fst b), snd b)) b, tag_product pys abis plats).
Proof. exact (wheel_roundtrip_text p vtxt v b pys abis plats). Qed.
Print Assumptions C14_wheel_roundtrip_build_text.
Theorem C14_build_text_ascii ds rest : ds <> [] -> forallb is_digit ds = true -> hd_is is_d rest = false ->
  build_of (ds ++ rest) = Some (num ds, rest) /\ int_of ds = num ds.
Proof. intros NE D R. split; [now apply build_of_ascii_text|apply (ascii_digits_d ds D)]. Qed.
Print Assumptions C14_build_text_ascii.

(* 4b. case-insensitivity through the parsers: ASCII-upper-casing the tag text gives the same tag set / the same wheel result *)
Theorem C14_parse_tag_upper s : parse_tag (map upper_a s) = parse_tag s.
Proof. exact (parse_tag_upper s). Qed.
Print Assumptions C14_parse_tag_upper.
Theorem C14_parse_wheel_upper_tags w : wf_wheel w -> parse_wheel (encode (upper_tags w)) = parse_wheel (encode w).
Proof. exact (parse_wheel_upper_tags w). Qed.
Print Assumptions C14_parse_wheel_upper_tags.
(* 3b. the restriction of C14_parse_tag_str to fields without '-' and '.' is necessary: Tag("a.b","c","d") prints as a two-member set,
       Tag("a-b","c","d") prints as text that parse_tag cannot unpack (closed computation WheelMore.tag_str_check) *)

(* 6. nothing else can happen: the parsers return a value or raise their documented exception (no unpacking / index failure is reachable) *)
Theorem C14_only_documented_errors fn :
  (parse_wheel fn = FErr \/ exists r, parse_wheel fn = FOk r) /\ (parse_sdist fn = FErr \/ exists r, parse_sdist fn = FOk r).
Proof. split; [apply parse_wheel_total|apply parse_sdist_total]. Qed.
Print Assumptions C14_only_documented_errors.

(* non-vacuity of C14_wheel_roundtrip_build_text and C14_parse_wheel_upper_tags: hypotheses instantiated (mixed-script build "007" U+0967 + "x",
   i.e. (71, "x"); a well-formed wheel whose tag parts change under upper-casing) and the conclusions computed *)
Example C14_text_upper_nonvacuous :
  let b := Some ([48; 48; 55; 2407], [120]) in
  let w := {| w_name := [102]; w_ver := [49]; w_build := None; w_py := [112; 121; 51]; w_abi := [110; 233]; w_plat := [97] |} in
  name_ok [102; 111; 111] /\ build_ok_t b /\ parts_ok [[112; 121; 51]] /\ parts_ok [[110]] /\ parts_ok [[97]; [98]] /\ wf_wheel w /\ wf_wheel (upper_tags w)
  /\ encode (upper_tags w) <> encode w /\ text_upper_check = true.
Proof.
  cbv zeta. split; [split; vm_compute; reflexivity|]. split; [repeat split; try discriminate; vm_compute; reflexivity|].
  split; [split; [discriminate|repeat constructor]|]. split; [split; [discriminate|repeat constructor]|]. split; [split; [discriminate|repeat constructor]|].
  split; [repeat split; vm_compute; reflexivity|]. split; [repeat split; vm_compute; reflexivity|]. split; [vm_compute; discriminate|exact text_upper_ok].
Qed.

(* non-vacuity: "Foo.Bar" 1!2.0rc1+ab.5 build (7,"x") py2.py3-none-any  ->  foo_bar-1!2.0rc1+ab.5-7x-py2.py3-none-any.whl  and back *)
Example C14_nonvacuous :
  let v := {| epoch := 1; release := [2; 0]; pre := Some (w_rc, 1); post := None; dev := None; local := Some [inr [97; 98]; inl 5] |} in
  let n := [70; 111; 111; 46; 66; 97; 114] in
  let fn := wheel_name (lower_full (escape n)) (vstr v) (Some (7, [120])) [[112; 121; 50]; [80; 89; 51]] [[110; 111; 110; 101]] [[97; 110; 121]] in
  fn = [102;111;111;95;98;97;114;45;49;33;50;46;48;114;99;49;43;97;98;46;53;45;55;120;45;112;121;50;46;80;89;51;45;110;111;110;101;45;97;110;121;46;119;104;108]
  /\ parse_wheel fn = FOk ([102;111;111;45;98;97;114], v, Some (7, [120]),
                           [mk_tag [112;121;50] [110;111;110;101] [97;110;121]; mk_tag [112;121;51] [110;111;110;101] [97;110;121]])
  /\ VMeaning.wf_version v /\ build_ok (Some (7, [120])) /\ parts_ok [[112; 121; 50]; [80; 89; 51]]
  /\ parse_wheel [102;111;111;32;45;49;45;97;45;98;45;99;46;119;104;108] = FErr
  /\ unescaped_accepted_check = true /\ build_text_check = true /\ tag_str_check = true /\ lower_full_check = true /\ text_upper_check = true.
Proof.
  cbv zeta. split; [vm_compute; reflexivity|]. split; [vm_compute; reflexivity|]. split.
  - repeat split; try discriminate; cbn; auto.
  - split; [repeat split|]. split; [split; [discriminate|repeat constructor]|]. split; [vm_compute; reflexivity|].
    split; [exact unescaped_accepted_ok|]. split; [exact build_text_ok|]. split; [exact tag_str_check_ok|]. split; [exact lower_full_check_ok|exact text_upper_ok].
Qed.
