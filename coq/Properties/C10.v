(* C10  Equality is an equivalence, agrees with hash, and implies same behaviour.
   Version: __eq__/__hash__ through _key (model Py.key, Py.rich Eq_).  Specifier: through _canonical_spec (model SpecContains.spec_key).
   The theorems for SpecifierSet, Marker, Requirement and Tag live with their models (sections below are extended as those are merged). *)
From Coq Require Import List Arith NArith Bool Lia.
Import ListNotations.
Require Import S1 VParse Py VMeaning VCmp SpecModel SpecOps Order Canon SpecEq SpecParse SpecContains SpecSem SpecMain SpecLink SpecEqual VWf VKeyEq.
Open Scope N_scope.

(* ---------------- Version ---------------- *)
Definition v_eq (x y : version) : option bool := rich Eq_ (key x) (key y).

Theorem C10_version_eq_equivalence a b c x y z : Version a = Some x -> Version b = Some y -> Version c = Some z ->
  v_eq x x = Some true /\ (v_eq x y = v_eq y x) /\ (v_eq x y = Some true -> v_eq y z = Some true -> v_eq x z = Some true).
Proof.
  intros Ha Hb Hc. pose proof (Version_wf _ _ Ha) as Wx. pose proof (Version_wf _ _ Hb) as Wy. pose proof (Version_wf _ _ Hc) as Wz.
  unfold v_eq. rewrite !C01_rich_is_pep440 by (apply wf_c01; assumption).
  destruct pep440_cmp_ok as [R SY TE TL]. repeat split.
  - now rewrite R.
  - rewrite (SY x y). destruct (pep440_cmp x y); reflexivity.
  - intros H1 H2. assert (E : pep440_cmp x y = Eq) by (destruct (pep440_cmp x y); cbn in H1; congruence).
    rewrite <- (TE x y z E). exact H2.
Qed.
Print Assumptions C10_version_eq_equivalence.

Theorem C10_version_hash a b x y (h : pv -> N) : Version a = Some x -> Version b = Some y -> v_eq x y = Some true -> h (key x) = h (key y).
Proof.
  intros Ha Hb. pose proof (Version_wf _ _ Ha) as Wx. pose proof (Version_wf _ _ Hb) as Wy. unfold v_eq.
  rewrite C01_rich_is_pep440 by (apply wf_c01; assumption). intros H.
  assert (E : pep440_cmp x y = Eq) by (destruct (pep440_cmp x y); cbn in H; congruence). now rewrite (key_of_equal x y Wx Wy E).
Qed.
Print Assumptions C10_version_hash.

(* equal versions are interchangeable: every comparison with a third version gives the same answer *)
Theorem C10_version_interchangeable a b c x y z o : Version a = Some x -> Version b = Some y -> Version c = Some z ->
  v_eq x y = Some true -> rich o (key x) (key z) = rich o (key y) (key z).
Proof.
  intros Ha Hb Hc H.
  pose proof (Version_wf _ _ Ha) as Wx. pose proof (Version_wf _ _ Hb) as Wy. unfold v_eq in H.
  rewrite C01_rich_is_pep440 in H by (apply wf_c01; assumption).
  assert (E : pep440_cmp x y = Eq) by (destruct (pep440_cmp x y); cbn in H; congruence). now rewrite (key_of_equal x y Wx Wy E).
Qed.
Print Assumptions C10_version_interchangeable.

(* ---------------- Specifier ---------------- *)
(* __eq__ and __hash__ are both functions of _canonical_spec, so == is an equivalence (equality of keys) and equal objects hash alike *)
Definition s_eq (sp sp' : specifier) : Prop := spec_key sp = spec_key sp'.
Theorem C10_specifier_eq_equivalence sp sp' sp'' :
  s_eq sp sp /\ (s_eq sp sp' -> s_eq sp' sp) /\ (s_eq sp sp' -> s_eq sp' sp'' -> s_eq sp sp'').
Proof. unfold s_eq. repeat split; congruence. Qed.
Print Assumptions C10_specifier_eq_equivalence.
Theorem C10_specifier_hash sp sp' (h : oper * str -> N) : s_eq sp sp' -> h (spec_key sp) = h (spec_key sp').
Proof. unfold s_eq. now intros ->. Qed.
Print Assumptions C10_specifier_hash.

(* equal specifiers match the same candidates, under every pre-release setting (object override and call argument) *)
Theorem C10_equal_specifiers_match_alike a b sp sp' override arg item :
  Specifier a = Some sp -> Specifier b = Some sp' -> s_eq sp sp' -> contains sp override arg item = contains sp' override arg item.
Proof. exact (equal_specifiers_same_matches a b sp sp' override arg item). Qed.
Print Assumptions C10_equal_specifiers_match_alike.

(* non-vacuity: "== 1.0" and "==v1.0.0" are equal specifiers; "===1.0" and "===1.0.0" are not *)
Definition nonvac_check : bool :=
  match Specifier [61;61;32;49;46;48], Specifier [61;61;118;49;46;48;46;48], Specifier [61;61;61;49;46;48], Specifier [61;61;61;49;46;48;46;48] with
  | Some a, Some b, Some c, Some d =>
      VMeaning.str_eqb (snd (spec_key a)) (snd (spec_key b)) && negb (VMeaning.str_eqb (snd (spec_key c)) (snd (spec_key d)))
  | _, _, _, _ => false end.
Example C10_nonvacuous : nonvac_check = true.
Proof. vm_compute. reflexivity. Qed.

(* ---------------- Marker, Requirement, Tag (theorems proved with their models; restated here) ---------------- *)
Require C08 C09 C14 Wheel.
(* Marker: == is equality of the canonical strings (an equivalence), equal markers hash alike; str(m) reparses to an equal marker *)
Theorem C10_marker_eq_is_string_eq a b : MkModel.marker_eq a b = true <-> MkModel.format_marker a = MkModel.format_marker b.
Proof. exact (C09.C09_eq_is_str_eq a b). Qed.
Print Assumptions C10_marker_eq_is_string_eq.
Theorem C10_marker_hash (h : str -> N) a b : MkModel.marker_eq a b = true -> h (MkModel.format_marker a) = h (MkModel.format_marker b).
Proof. exact (C09.C09_hash_agrees h a b). Qed.
Print Assumptions C10_marker_hash.
(* Requirement: == is an equivalence (equality of the key: PEP 503 name, extras as a set, canonical clause set, url, marker string);
   the hash is a function of that key *)
Theorem C10_requirement_eq_equivalence : (forall a, ReqModel.req_eq a a = true) /\ (forall a b, ReqModel.req_eq a b = ReqModel.req_eq b a) /\
  (forall a b c, ReqModel.req_eq a b = true -> ReqModel.req_eq b c = true -> ReqModel.req_eq a c = true).
Proof. exact C08.C08_eq_equivalence. Qed.
Print Assumptions C10_requirement_eq_equivalence.
Theorem C10_requirement_hash {H : Type} (hash : ReqModel.rq_key -> H) a b : ReqModel.req_eq a b = true -> hash (ReqModel.req_key a) = hash (ReqModel.req_key b).
Proof. exact (C08.C08_hash_respects_eq hash a b). Qed.
Print Assumptions C10_requirement_hash.
(* Tag: equality is equality of the three lower-cased fields (case-insensitive), for any stored hash function *)
Theorem C10_tag_eq_is_field_eq h i a p i' a' p' :
  WheelModel.tag_eq h (WheelModel.mk_tag i a p) (WheelModel.mk_tag i' a' p') = true <->
  NamesX.lower_full i = NamesX.lower_full i' /\ NamesX.lower_full a = NamesX.lower_full a' /\ NamesX.lower_full p = NamesX.lower_full p'.
Proof. exact (C14.C14_tag_case_insensitive h i a p i' a' p'). Qed.
Print Assumptions C10_tag_eq_is_field_eq.
(* ... hence == on tags is an equivalence, and equal tags carry the same stored hash *)
Theorem C10_tag_eq_equivalence h i a p i2 a2 p2 i3 a3 p3 :
  let x := WheelModel.mk_tag i a p in let y := WheelModel.mk_tag i2 a2 p2 in let z := WheelModel.mk_tag i3 a3 p3 in
  WheelModel.tag_eq h x x = true /\ WheelModel.tag_eq h x y = WheelModel.tag_eq h y x /\
  (WheelModel.tag_eq h x y = true -> WheelModel.tag_eq h y z = true -> WheelModel.tag_eq h x z = true).
Proof.
  cbv zeta. split; [|split].
  - apply (C14.C14_tag_case_insensitive h i a p i a p). repeat split; reflexivity.
  - apply Bool.eq_true_iff_eq. rewrite !C14.C14_tag_case_insensitive. split; intros (A & B & C); repeat split; congruence.
  - rewrite !C14.C14_tag_case_insensitive. intros (A & B & C) (A' & B' & C'). repeat split; congruence.
Qed.
Print Assumptions C10_tag_eq_equivalence.
Theorem C10_tag_hash h x y : WheelModel.tag_eq h x y = true ->
  h (WheelModel.t_interp x, WheelModel.t_abi x, WheelModel.t_plat x) = h (WheelModel.t_interp y, WheelModel.t_abi y, WheelModel.t_plat y).
Proof. unfold WheelModel.tag_eq. intros H. apply andb_prop in H as [H _]. apply andb_prop in H as [H _]. apply andb_prop in H as [H _]. now apply N.eqb_eq in H. Qed.
Print Assumptions C10_tag_hash.
(* Marker == (equality of the canonical strings) is an equivalence *)
Theorem C10_marker_eq_equivalence a b c : MkModel.marker_eq a a = true /\ MkModel.marker_eq a b = MkModel.marker_eq b a /\
  (MkModel.marker_eq a b = true -> MkModel.marker_eq b c = true -> MkModel.marker_eq a c = true).
Proof.
  split; [|split].
  - now apply C09.C09_eq_is_str_eq.
  - apply Bool.eq_true_iff_eq. rewrite !C09.C09_eq_is_str_eq. split; congruence.
  - rewrite !C09.C09_eq_is_str_eq. congruence.
Qed.
Print Assumptions C10_marker_eq_equivalence.

(* ---------------- SpecifierSet ---------------- *)
(* Model SetsModel: __eq__ = equality of the member frozensets (set_eqb), __hash__ = hash(self._specs).  fs_ok = "no two equal members",
   established by every constructor and by & (C05_constructor_invariant).  Proofs in Sets/SetsEqual.v. *)
Require SetsModel SetsFs SetsEqual.
Theorem C10_set_eq_equivalence A B C : SetsFs.fs_ok (SetsModel.ms A) -> SetsFs.fs_ok (SetsModel.ms B) -> SetsFs.fs_ok (SetsModel.ms C) ->
  SetsModel.set_eqb A A = true /\ SetsModel.set_eqb A B = SetsModel.set_eqb B A /\
  (SetsModel.set_eqb A B = true -> SetsModel.set_eqb B C = true -> SetsModel.set_eqb A C = true).
Proof.
  intros HA HB HC. split; [apply SetsEqual.set_eqb_refl|]. split; [now apply SetsEqual.set_eqb_symmetric|]. now apply SetsEqual.set_eqb_trans.
Qed.
Print Assumptions C10_set_eq_equivalence.
(* == holds exactly when the canonical keys of the members are permutations of each other; so every order-independent function of
   the keys (the hash of the frozenset) agrees on equal sets *)
Theorem C10_set_eq_is_same_keys A B : SetsFs.fs_ok (SetsModel.ms A) -> SetsFs.fs_ok (SetsModel.ms B) ->
  (SetsModel.set_eqb A B = true <-> Permutation.Permutation (SetsEqual.keys A) (SetsEqual.keys B)).
Proof. exact (SetsEqual.set_eqb_keys A B). Qed.
Print Assumptions C10_set_eq_is_same_keys.
Theorem C10_set_hash {H : Type} (h : list (oper * str) -> H) A B : (forall l l', Permutation.Permutation l l' -> h l = h l') ->
  SetsFs.fs_ok (SetsModel.ms A) -> SetsFs.fs_ok (SetsModel.ms B) -> SetsModel.set_eqb A B = true -> h (SetsEqual.keys A) = h (SetsEqual.keys B).
Proof. exact (SetsEqual.set_eqb_hash h A B). Qed.
Print Assumptions C10_set_hash.
(* equal sets match and filter alike and report the same .prereleases - given the same override (== ignores it by documented design)
   and members that are constructor-built and carry no override of their own (every set built from a text) *)
Theorem C10_equal_sets_match_alike A B : SetsModel.set_eqb A B = true -> SetsFs.fs_ok (SetsModel.ms A) -> SetsFs.fs_ok (SetsModel.ms B) ->
  SetsModel.ov A = SetsModel.ov B -> SetsEqual.all_built A -> SetsEqual.all_built B -> SetsEqual.plain A -> SetsEqual.plain B ->
  (forall arg inst item, SetsModel.set_contains A arg inst item = SetsModel.set_contains B arg inst item) /\
  (forall arg texts, SetsModel.set_filter A arg texts = SetsModel.set_filter B arg texts) /\
  SetsModel.set_pre A = SetsModel.set_pre B.
Proof.
  intros. split; [|split]; intros; [apply SetsEqual.equal_sets_same_contains | apply SetsEqual.equal_sets_same_filter | apply SetsEqual.equal_sets_same_prereleases]; assumption.
Qed.
Print Assumptions C10_equal_sets_match_alike.
Theorem C10_equal_text_sets_match_alike a b p A B : SetsModel.SpecifierSet a p = Some A -> SetsModel.SpecifierSet b p = Some B ->
  SetsModel.set_eqb A B = true ->
  (forall arg inst item, SetsModel.set_contains A arg inst item = SetsModel.set_contains B arg inst item) /\
  (forall arg texts, SetsModel.set_filter A arg texts = SetsModel.set_filter B arg texts) /\ SetsModel.set_pre A = SetsModel.set_pre B.
Proof. exact (SetsEqual.equal_text_sets_behave_alike a b p A B). Qed.
Print Assumptions C10_equal_text_sets_match_alike.

(* ---------------- equal => same behaviour, further (proved with the domain models in the improvement round) ---------------- *)
Require SetsFilterMore ReqSetsLinkP ReqMarkerEqP.
(* equal specifiers filter alike (not only contains) *)
Theorem C10_equal_specifiers_filter_alike a b sp sp' o arg texts : Specifier a = Some sp -> Specifier b = Some sp' -> s_eq sp sp' ->
  SetsModel.spec_filter sp o arg texts = SetsModel.spec_filter sp' o arg texts.
Proof. exact (SetsFilterMore.spec_filter_equal_keys a b sp sp' o arg texts). Qed.
Print Assumptions C10_equal_specifiers_filter_alike.
(* equal requirements have specifier sets that are equal AS SETS OF THE SETS DOMAIN (the model C05/C06 are about) and match, filter
   and report .prereleases alike ... *)
Theorem C10_equal_requirements_sets_alike sa sb a b : ReqModel.Requirement sa = ReqModel.RqOk a -> ReqModel.Requirement sb = ReqModel.RqOk b ->
  ReqModel.req_eq a b = true ->
  let A := ReqSetsLinkP.rq_sset (ReqModel.q_specs a) in let B := ReqSetsLinkP.rq_sset (ReqModel.q_specs b) in
  SetsModel.set_eqb A B = true /\
  (forall arg inst item, SetsModel.set_contains A arg inst item = SetsModel.set_contains B arg inst item) /\
  (forall arg texts, SetsModel.set_filter A arg texts = SetsModel.set_filter B arg texts) /\ SetsModel.set_pre A = SetsModel.set_pre B.
Proof.
  intros Ha Hb E. destruct (ReqSetsLinkP.equal_requirements_sets_alike sa sb a b Ha Hb E) as (H1 & _ & _ & H2 & H3 & H4). cbv zeta. auto.
Qed.
Print Assumptions C10_equal_requirements_sets_alike.
(* ... and markers that evaluate alike in every environment *)
Theorem C10_equal_requirements_markers_alike sa sb a b : ReqModel.Requirement sa = ReqModel.RqOk a -> ReqModel.Requirement sb = ReqModel.RqOk b ->
  ReqModel.req_eq a b = true ->
  match ReqModel.q_marker a, ReqModel.q_marker b with
  | Some ma, Some mb => forall defaults ov, MkEval.evaluate ma defaults ov = MkEval.evaluate mb defaults ov
  | None, None => True
  | _, _ => False
  end.
Proof. exact (ReqMarkerEqP.equal_requirements_markers_alike sa sb a b). Qed.
Print Assumptions C10_equal_requirements_markers_alike.

(* ---------------- the remaining clauses, restated from the marker and requirement domains ---------------- *)
(* equal Marker objects (plain ones, not only those inside a requirement) evaluate alike in every environment and have the same operands *)
Theorem C10_equal_markers_evaluate_alike s1 s2 a b defaults ov : MkModel.Marker s1 = MkModel.MOk a -> MkModel.Marker s2 = MkModel.MOk b ->
  MkModel.marker_eq a b = true -> MkEval.evaluate a defaults ov = MkEval.evaluate b defaults ov /\ MkModel.sides_l a = MkModel.sides_l b.
Proof. exact (C09.C09_equal_markers_evaluate_alike s1 s2 a b defaults ov). Qed.
Print Assumptions C10_equal_markers_evaluate_alike.
(* equal requirements have equal parts: PEP 503-equal names, the same extras, the same clause keys, the same URL, the same marker string *)
Theorem C10_equal_requirements_equal_parts a b : ReqModel.req_eq a b = true <->
  Names.canon_name (ReqModel.q_name a) = Names.canon_name (ReqModel.q_name b) /\
  (forall e, In e (ReqModel.q_extras a) <-> In e (ReqModel.q_extras b)) /\
  (forall k, In k (map ReqModel.rq_ckey (ReqModel.q_specs a)) <-> In k (map ReqModel.rq_ckey (ReqModel.q_specs b))) /\
  ReqModel.q_url a = ReqModel.q_url b /\
  option_map MkModel.format_marker (ReqModel.q_marker a) = option_map MkModel.format_marker (ReqModel.q_marker b).
Proof. exact (C08.C08_eq_semantics a b). Qed.
Print Assumptions C10_equal_requirements_equal_parts.
(* the hash of a Tag is a function of its stored (lower-cased) fields: tags whose fields agree after lower-casing hash alike, whatever
   hash function is used (C10_tag_hash above only projects the first conjunct of Tag.__eq__; this is the statement with content) *)
Theorem C10_tag_hash_of_equal_fields (h : list N * list N * list N -> N) i a p i' a' p' :
  WheelModel.t_interp (WheelModel.mk_tag i a p) = WheelModel.t_interp (WheelModel.mk_tag i' a' p') ->
  WheelModel.t_abi (WheelModel.mk_tag i a p) = WheelModel.t_abi (WheelModel.mk_tag i' a' p') ->
  WheelModel.t_plat (WheelModel.mk_tag i a p) = WheelModel.t_plat (WheelModel.mk_tag i' a' p') ->
  let x := WheelModel.mk_tag i a p in let y := WheelModel.mk_tag i' a' p' in
  h (WheelModel.t_interp x, WheelModel.t_abi x, WheelModel.t_plat x) = h (WheelModel.t_interp y, WheelModel.t_abi y, WheelModel.t_plat y) /\
  WheelModel.tag_eq h x y = true.
Proof.
  intros E1 E2 E3. cbv zeta. split; [now rewrite E1, E2, E3|].
  unfold WheelModel.tag_eq. rewrite E1, E2, E3, N.eqb_refl. cbn [andb].
  rewrite !Wheel.str_eqb_refl. reflexivity.
Qed.
Print Assumptions C10_tag_hash_of_equal_fields.
