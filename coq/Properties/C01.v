(* C01  Version comparison is the PEP 440 total order.
   Model: Py.rich (CPython rich comparison on the value shapes inside Version._key, all six operators modelled separately),
   Py.key (_cmpkey verbatim), SpecModel.Version (regex scanner + __init__).  Spec: C01.pep440_cmp (the order of the statement).
   This file holds statements only; every proof is `exact <lemma>` or a few lines over lemmas proved elsewhere. *)
From Coq Require Import List Arith NArith Bool Lia Permutation.
Import ListNotations.
Require Import S1 VParse Py VMeaning VCmp SpecModel SpecOps Order Canon SpecEq VWf VKeyEq SortUnique CanonLaws VObsModel VSortLaws VClauses VClauses2 VNumeric VKeyEqb VDec VPreOrder.
Open Scope N_scope.

(* the six Python operators on two parsed strings *)
Definition vop (o : cop) (x y : version) : option bool := rich o (key x) (key y).

(* 1. every operator, on every pair of accepted strings, is the PEP 440 order (never a TypeError) *)
Theorem C01_ops_are_pep440 a b x y : Version a = Some x -> Version b = Some y ->
  forall o, vop o x y = Some (of_cmp o (pep440_cmp x y)).
Proof. intros Ha Hb. apply C01_rich_is_pep440; apply wf_c01; eapply Version_wf; eassumption. Qed.
Print Assumptions C01_ops_are_pep440.

(* 2. that order is a total preorder: reflexive, antisymmetric up to CompOpp, transitive through = and < *)
Theorem C01_total_preorder : cmp_ok pep440_cmp.
Proof. exact pep440_cmp_ok. Qed.
Print Assumptions C01_total_preorder.

(* 3. trichotomy of the Python operators: exactly one of a<b, a==b, a>b *)
Theorem C01_trichotomy a b x y : Version a = Some x -> Version b = Some y ->
  exists lt eq gt, vop Lt_ x y = Some lt /\ vop Eq_ x y = Some eq /\ vop Gt_ x y = Some gt /\
     ((lt = true /\ eq = false /\ gt = false) \/ (lt = false /\ eq = true /\ gt = false) \/ (lt = false /\ eq = false /\ gt = true)).
Proof.
  intros Ha Hb. exists (of_cmp Lt_ (pep440_cmp x y)), (of_cmp Eq_ (pep440_cmp x y)), (of_cmp Gt_ (pep440_cmp x y)).
  rewrite !(C01_ops_are_pep440 a b x y Ha Hb). repeat split; auto. destruct (pep440_cmp x y); cbn; auto.
Qed.
Print Assumptions C01_trichotomy.

(* 4. <= is (< or ==), != is not ==, >= / > mirror <= / < *)
Theorem C01_operators_agree a b x y : Version a = Some x -> Version b = Some y ->
  exists lt le eq ne ge gt, vop Lt_ x y = Some lt /\ vop Le_ x y = Some le /\ vop Eq_ x y = Some eq /\ vop Ne_ x y = Some ne /\
     vop Ge_ x y = Some ge /\ vop Gt_ x y = Some gt /\
     le = (lt || eq) /\ ne = negb eq /\ ge = (gt || eq) /\ vop Gt_ y x = Some lt /\ vop Ge_ y x = Some le /\ vop Eq_ y x = Some eq.
Proof.
  intros Ha Hb. do 6 eexists. rewrite !(C01_ops_are_pep440 a b x y Ha Hb), !(C01_ops_are_pep440 b a y x Hb Ha).
  rewrite (ok_sym _ pep440_cmp_ok x y). repeat split; destruct (pep440_cmp x y); reflexivity.
Qed.
Print Assumptions C01_operators_agree.

(* 5. transitivity of < and of == on accepted strings *)
Theorem C01_lt_transitive a b c x y z : Version a = Some x -> Version b = Some y -> Version c = Some z ->
  vop Lt_ x y = Some true -> vop Lt_ y z = Some true -> vop Lt_ x z = Some true.
Proof.
  intros Ha Hb Hc. rewrite (C01_ops_are_pep440 a b x y Ha Hb), (C01_ops_are_pep440 b c y z Hb Hc), (C01_ops_are_pep440 a c x z Ha Hc).
  intros H1 H2. assert (E1 : pep440_cmp x y = Lt) by (destruct (pep440_cmp x y); cbn in H1; congruence).
  assert (E2 : pep440_cmp y z = Lt) by (destruct (pep440_cmp y z); cbn in H2; congruence).
  rewrite (ok_trans_lt _ pep440_cmp_ok x y z E1) by congruence. reflexivity.
Qed.
Print Assumptions C01_lt_transitive.
Theorem C01_eq_transitive a b c x y z : Version a = Some x -> Version b = Some y -> Version c = Some z ->
  vop Eq_ x y = Some true -> vop Eq_ y z = Some true -> vop Eq_ x z = Some true.
Proof.
  intros Ha Hb Hc. rewrite (C01_ops_are_pep440 a b x y Ha Hb), (C01_ops_are_pep440 b c y z Hb Hc), (C01_ops_are_pep440 a c x z Ha Hc).
  intros H1 H2. assert (E1 : pep440_cmp x y = Eq) by (destruct (pep440_cmp x y); cbn in H1; congruence).
  rewrite <- (ok_trans_eq _ pep440_cmp_ok x y z E1). exact H2.
Qed.
Print Assumptions C01_eq_transitive.

(* 6. hash agrees with ==: equal versions have the same comparison key, so any function of the key (hash(self._key)) agrees *)
Theorem C01_hash_agrees a b x y (h : pv -> N) : Version a = Some x -> Version b = Some y ->
  vop Eq_ x y = Some true -> h (key x) = h (key y).
Proof.
  intros Ha Hb. rewrite (C01_ops_are_pep440 a b x y Ha Hb). intros H.
  assert (E : pep440_cmp x y = Eq) by (destruct (pep440_cmp x y); cbn in H; congruence).
  now rewrite (key_of_equal x y (Version_wf _ _ Ha) (Version_wf _ _ Hb) E).
Qed.
Print Assumptions C01_hash_agrees.

(* 7. the release is compared numerically with missing components read as zero (trailing-zero stripping = zero padding) *)
Theorem C01_release_zero_padded r1 r2 : lex (strip r1) (strip r2) = padcmp r1 r2.
Proof. rewrite !strip_eq. exact (strip_pad r1 r2). Qed.
Print Assumptions C01_release_zero_padded.

(* 8. sorting gives one answer whatever the input order or spelling: two ascending arrangements (no element greater than its successor -
      what any correct sort returns) of lists that are permutations of each other up to equal versions (other spellings, trailing zeros)
      agree position by position up to ==.  Independent of the sorting algorithm. *)
Theorem C01_sorting_gives_one_answer (l1 l2 m m' : list version) :
  ascending pep440_cmp l1 -> ascending pep440_cmp l2 ->
  Permutation l1 m -> Forall2 (fun a b => pep440_cmp a b = Eq) m m' -> Permutation m' l2 ->
  Forall2 (fun a b => pep440_cmp a b = Eq) l1 l2.
Proof.
  intros A1 A2 P1 E P2. apply (sorted_arrangements_agree pep440_cmp pep440_cmp_ok l1 l2 A1 A2).
  eapply same_counts_trans; [apply perm_same_counts; exact P1|].
  eapply same_counts_trans; [apply (equiv_same_counts pep440_cmp pep440_cmp_ok); exact E|]. apply perm_same_counts; exact P2.
Qed.
Print Assumptions C01_sorting_gives_one_answer.


(* ---------------------------------------------------------------------------------------------------------------------------------
   9-14. "The order is PEP 440's", clause by clause: consequences of the definition of pep440_cmp stated one rule at a time (proofs in
   Ver/VClauses.v, VClauses2.v), so that a reader checks the rules and not the nested definition.  Most need a proof (induction, case analysis, the
   sandwich argument); a few conjuncts are DEFINITIONAL (hold by `reflexivity`) and are marked so where they occur.  The clauses about whole
   versions (epoch, release, ladder, .dev/.post, local label last) are also stated on the six Python operators on parsed strings (`_ops`);
   the rules about `padcmp`, `seg_lex`, `seg_cmp` alone (10b, 14 conjuncts 2-8) have no operator form of their own - they enter the operators only
   through C01_release_second_ops and C01_local_decides_ops.
   The model has no digit limit (finding D10): beyond int()'s 4300-digit limit the real Version() raises InvalidVersion, so none of these theorems
   speaks about the real code on such strings. *)

(* x is strictly below y for every one of the Python operators *)
Definition strictly_below (x y : version) : Prop :=
  vop Lt_ x y = Some true /\ vop Le_ x y = Some true /\ vop Eq_ x y = Some false /\ vop Ne_ x y = Some true /\
  vop Ge_ x y = Some false /\ vop Gt_ x y = Some false /\ vop Gt_ y x = Some true /\ vop Lt_ y x = Some false.
Theorem C01_below_iff a b x y : Version a = Some x -> Version b = Some y -> (pep440_cmp x y = Lt <-> strictly_below x y).
Proof.
  intros Ha Hb. unfold strictly_below. rewrite !(C01_ops_are_pep440 a b x y Ha Hb), !(C01_ops_are_pep440 b a y x Hb Ha).
  rewrite (ok_sym _ pep440_cmp_ok x y). split.
  - intros ->. cbn. repeat split.
  - intros (H & _). destruct (pep440_cmp x y); cbn in H; congruence.
Qed.
Print Assumptions C01_below_iff.

(* 9. epoch first *)
Theorem C01_epoch_first x y : epoch x < epoch y -> pep440_cmp x y = Lt.
Proof. exact (epoch_first_lt x y). Qed.
Print Assumptions C01_epoch_first.
Theorem C01_epoch_first_ops a b x y : Version a = Some x -> Version b = Some y -> epoch x < epoch y -> strictly_below x y.
Proof. intros Ha Hb H. apply (C01_below_iff a b x y Ha Hb), epoch_first_lt, H. Qed.
Print Assumptions C01_epoch_first_ops.

(* 10. then the release: with equal epochs a differing release decides; the comparison is the component-wise numeric comparison of the
       releases padded with zeros to a common length (so the first differing component decides by value and trailing zeros are irrelevant);
       Version._key's stripping (Py.strip0) is the S1.strip of theorem 7 *)
Theorem C01_release_second x y c : epoch x = epoch y -> padcmp (release x) (release y) = c -> c <> Eq -> pep440_cmp x y = c.
Proof. exact (release_second x y c). Qed.
Print Assumptions C01_release_second.
Theorem C01_release_numeric_zero_padded :
  (forall a b n, (length a <= n)%nat -> (length b <= n)%nat -> padcmp a b = lex (pad n a) (pad n b)) /\
  (forall p x y a b, x < y -> lex (p ++ x :: a) (p ++ y :: b) = Lt) /\
  (forall r k, padcmp (r ++ repeat 0 k) r = Eq) /\
  (forall l, Py.strip0 l = S1.strip l).
Proof. repeat split. exact padcmp_is_padded_lex. exact lex_first_diff. exact padcmp_trailing_zeros. Qed.
Print Assumptions C01_release_numeric_zero_padded.
Theorem C01_release_second_ops a b x y : Version a = Some x -> Version b = Some y ->
  epoch x = epoch y -> (forall n, (length (release x) <= n)%nat -> (length (release y) <= n)%nat -> lex (pad n (release x)) (pad n (release y)) = Lt) ->
  strictly_below x y.
Proof.
  intros Ha Hb E H. apply (C01_below_iff a b x y Ha Hb). apply release_second; [exact E | | discriminate].
  rewrite (padcmp_is_padded_lex _ _ (Nat.max (length (release x)) (length (release y)))) by lia. apply H; lia.
Qed.
Print Assumptions C01_release_second_ops.

(* 11. within one release (same epoch, releases equal after zero padding):  devN-only < aN < bN < rcN < final < postN *)
Definition ladder_step (x y : version) : Prop :=
  (is_devonly x /\ exists l n, pre y = Some (l, n)) \/
  (is_devonly x /\ (is_final y \/ is_post y)) \/
  (exists n m, pre x = Some (a_, n) /\ pre y = Some (b_, m)) \/
  (exists n m, pre x = Some (b_, n) /\ pre y = Some (rc_, m)) \/
  (exists n m, pre x = Some (a_, n) /\ pre y = Some (rc_, m)) \/
  (exists l n m, pre x = Some (l, n) /\ pre y = Some (l, m) /\ n < m) \/
  (exists l n, pre x = Some (l, n) /\ (is_final y \/ is_post y)) \/
  (is_final x /\ is_post y) \/
  (exists n m, is_post x /\ is_post y /\ post_number x = Some n /\ post_number y = Some m /\ n < m) \/
  (exists n m, is_devonly x /\ is_devonly y /\ dev_number x = Some n /\ dev_number y = Some m /\ n < m).
Theorem C01_ladder x y : same_release x y -> ladder_step x y -> pep440_cmp x y = Lt.
Proof.
  intros S [(D & l & n & P)|[(D & F)|[(n & m & P & Q)|[(n & m & P & Q)|[(n & m & P & Q)|[(l & n & m & P & Q & L)|[(l & n & P & F)|[(F & P)|
            [(n & m & P & Q & A & B & L)|(n & m & P & Q & A & B & L)]]]]]]]]].
  - eapply ladder_devonly_pre; eassumption.   - now apply ladder_devonly_final.
  - eapply ladder_a_b; eassumption.           - eapply ladder_b_rc; eassumption.      - eapply ladder_a_rc; eassumption.
  - eapply ladder_pre_number; eassumption.    - eapply ladder_pre_final; eassumption. - now apply ladder_final_post.
  - eapply ladder_post_number; eassumption.   - eapply ladder_dev_number; eassumption.
Qed.
Print Assumptions C01_ladder.
Theorem C01_ladder_ops a b x y : Version a = Some x -> Version b = Some y -> same_release x y -> ladder_step x y -> strictly_below x y.
Proof. intros Ha Hb S L. apply (C01_below_iff a b x y Ha Hb), C01_ladder; assumption. Qed.
Print Assumptions C01_ladder_ops.

(* 12. a .devM suffix sorts just below the thing it is attached to: v.devM < v, and whatever lies strictly between is another .dev release of v.
       (v has a pre or post part, no dev part and no local label; for a bare final X, X.devM is the "dev-only" rung of clause 11.) *)
Theorem C01_dev_just_below v m : dev v = None -> local v = None -> (pre v <> None \/ post v <> None) ->
  pep440_cmp (with_dev v m) v = Lt /\
  forall w, pep440_cmp (with_dev v m) w = Lt -> pep440_cmp w v = Lt ->
    epoch w = epoch v /\ padcmp (release w) (release v) = Eq /\ pre_class w = pre_class v /\ post_class w = post_class v /\ dev w <> None.
Proof. exact (dev_just_below v m). Qed.
Print Assumptions C01_dev_just_below.
Lemma wf_with_dev v m : VMeaning.wf_version v -> VMeaning.wf_version (with_dev v m).
Proof. intros (A & B & C & D & E). repeat split; auto. Qed.
Lemma wf_with_post v m : VMeaning.wf_version v -> VMeaning.wf_version (with_post v m).
Proof. intros (A & B & C & D & E). repeat split; auto. Qed.
Lemma vop_lt_cmp a b x y : Version a = Some x -> Version b = Some y -> vop Lt_ x y = Some true -> pep440_cmp x y = Lt.
Proof. intros Ha Hb. rewrite (C01_ops_are_pep440 a b x y Ha Hb). destruct (pep440_cmp x y); cbn; congruence. Qed.
Theorem C01_dev_just_below_ops a v m : Version a = Some v -> dev v = None -> local v = None -> (pre v <> None \/ post v <> None) ->
  Version (vstr (with_dev v m)) = Some (with_dev v m) /\ strictly_below (with_dev v m) v /\
  forall c w, Version c = Some w -> vop Lt_ (with_dev v m) w = Some true -> vop Lt_ w v = Some true ->
    epoch w = epoch v /\ padcmp (release w) (release v) = Eq /\ pre_class w = pre_class v /\ post_class w = post_class v /\ dev w <> None.
Proof.
  intros Ha Dv Lv Hp. pose proof (Version_vstr _ (wf_with_dev v m (Version_wf _ _ Ha))) as Hd.
  destruct (dev_just_below v m Dv Lv Hp) as [H1 H2]. split; [exact Hd|]. split.
  - apply (C01_below_iff _ a _ _ Hd Ha), H1.
  - intros c w Hc L1 L2. apply H2; [exact (vop_lt_cmp _ c _ _ Hd Hc L1) | exact (vop_lt_cmp c a _ _ Hc Ha L2)].
Qed.
Print Assumptions C01_dev_just_below_ops.

(* 13. a .postM suffix sorts just above the thing it is attached to: v < v.postM, and whatever lies strictly between has v's epoch, release and
       pre class and is either some post-release of v (post w <> None: its number and dev part are not constrained further here - the order among
       post-releases is clause 11b) or v without dev part and with a local label *)
Theorem C01_post_just_above v m : post v = None -> dev v = None ->
  pep440_cmp v (with_post v m) = Lt /\
  forall w, pep440_cmp v w = Lt -> pep440_cmp w (with_post v m) = Lt ->
    epoch w = epoch v /\ padcmp (release w) (release v) = Eq /\ pre_class w = pre_class v /\ (post w <> None \/ (dev w = None /\ local w <> None)).
Proof. exact (post_just_above v m). Qed.
Print Assumptions C01_post_just_above.
Theorem C01_post_just_above_ops a v m : Version a = Some v -> post v = None -> dev v = None ->
  Version (vstr (with_post v m)) = Some (with_post v m) /\ strictly_below v (with_post v m) /\
  forall c w, Version c = Some w -> vop Lt_ v w = Some true -> vop Lt_ w (with_post v m) = Some true ->
    epoch w = epoch v /\ padcmp (release w) (release v) = Eq /\ pre_class w = pre_class v /\ (post w <> None \/ (dev w = None /\ local w <> None)).
Proof.
  intros Ha Pv Dv. pose proof (Version_vstr _ (wf_with_post v m (Version_wf _ _ Ha))) as Hd.
  destruct (post_just_above v m Pv Dv) as [H1 H2]. split; [exact Hd|]. split.
  - apply (C01_below_iff a _ _ _ Ha Hd), H1.
  - intros c w Hc L1 L2. apply H2; [exact (vop_lt_cmp a c _ _ Ha Hc L1) | exact (vop_lt_cmp c _ _ _ Hc Hd L2)].
Qed.
Print Assumptions C01_post_just_above_ops.

(* 14. finally the local label: it decides only when everything before it ties; none < any; segment-wise (first differing segment decides);
       numeric above alphanumeric; numeric by value; alphanumeric lexically (by code point); a proper prefix first.
       Conjuncts 1 (local label last), 4 (first differing segment), 7 (str_cmp is the lexicographic order lexc) and 8 (proper prefix first) need proofs.
       Conjuncts 2 (none < any), 3 (Some/Some is seg_lex), 5 (alphanumeric below numeric) and 6 (numeric by value) are DEFINITIONAL: they hold by
       `reflexivity`, i.e. they restate lines of the definitions of local_cmp / seg_cmp and are listed only so that the clause reads completely. *)
Theorem C01_local_rules :
  (forall x y, same_release x y -> pre_class x = pre_class y -> post_class x = post_class y -> dev_class x = dev_class y ->
               pep440_cmp x y = local_cmp (local x) (local y)) /\
  (forall l, local_cmp None (Some l) = Lt) /\
  (forall l m, local_cmp (Some l) (Some m) = seg_lex l m) /\
  (forall p x y a b, seg_cmp x y <> Eq -> seg_lex (p ++ x :: a) (p ++ y :: b) = seg_cmp x y) /\
  (forall s n, seg_cmp (inr s) (inl n) = Lt) /\
  (forall n m, seg_cmp (inl n) (inl m) = (n ?= m)) /\
  (forall s t, seg_cmp (inr s) (inr t) = lexc N.compare s t) /\
  (forall l x m, seg_lex l (l ++ x :: m) = Lt).
Proof.
  split; [exact local_last|]. split; [exact local_none_first|]. split; [reflexivity|]. split; [exact local_first_diff|].
  split; [exact local_num_above_alnum|]. split; [exact local_num_by_value|]. split; [exact local_alnum_lexical | exact local_prefix_first].
Qed.
Print Assumptions C01_local_rules.
Theorem C01_local_last_ops a b x y : Version a = Some x -> Version b = Some y ->
  epoch x = epoch y -> release x = release y -> pre x = pre y -> post x = post y -> dev x = dev y ->
  local_cmp (local x) (local y) = Lt -> strictly_below x y.
Proof.
  intros Ha Hb E R P Q D L. apply (C01_below_iff a b x y Ha Hb). rewrite local_last; [exact L | | | |].
  - split; [exact E | rewrite R; apply padcmp_refl].
  - unfold pre_class. now rewrite P, Q, D.
  - unfold post_class. now rewrite Q.
  - unfold dev_class. now rewrite D.
Qed.
Print Assumptions C01_local_last_ops.
(* 14b. the same with any outcome and without asking for literally equal components: whenever epoch, zero-padded release and the pre/post/dev
        classes tie (e.g. "1+a" against "1.0+b"), all six operators are decided by the local labels alone *)
Theorem C01_local_decides_ops a b x y : Version a = Some x -> Version b = Some y ->
  same_release x y -> pre_class x = pre_class y -> post_class x = post_class y -> dev_class x = dev_class y ->
  pep440_cmp x y = local_cmp (local x) (local y) /\ forall o, vop o x y = Some (of_cmp o (local_cmp (local x) (local y))).
Proof.
  intros Ha Hb S P Q D. pose proof (local_last x y S P Q D) as E. split; [exact E|]. intros o.
  now rewrite (C01_ops_are_pep440 a b x y Ha Hb o), E.
Qed.
Print Assumptions C01_local_decides_ops.

(* 11b. the two rungs clause 11 leaves open: with the same pre part the post NUMBER decides (1.0a1.post1 < 1.0a1.post2, with or without .dev), and
        with the same pre and post parts the dev NUMBER decides (1.0a1.dev1 < 1.0a1.dev2, 1.0.post1.dev1 < 1.0.post1.dev2) *)
Theorem C01_ladder_suffix_numbers x y :
  same_release x y -> pre x = pre y ->
  (forall l1 n l2 m, post x = Some (l1, n) -> post y = Some (l2, m) -> n < m -> pep440_cmp x y = Lt) /\
  (forall l1 n l2 m, post x = post y -> dev x = Some (l1, n) -> dev y = Some (l2, m) -> n < m -> pep440_cmp x y = Lt).
Proof.
  intros S P. split.
  - intros l1 n l2 m. exact (ladder_post_number_any x y l1 n l2 m S P).
  - intros l1 n l2 m Q. exact (ladder_dev_number_any x y l1 n l2 m S P Q).
Qed.
Print Assumptions C01_ladder_suffix_numbers.
Theorem C01_ladder_suffix_numbers_ops a b x y : Version a = Some x -> Version b = Some y -> same_release x y -> pre x = pre y ->
  (forall l1 n l2 m, post x = Some (l1, n) -> post y = Some (l2, m) -> n < m -> strictly_below x y) /\
  (forall l1 n l2 m, post x = post y -> dev x = Some (l1, n) -> dev y = Some (l2, m) -> n < m -> strictly_below x y).
Proof.
  intros Ha Hb S P. destruct (C01_ladder_suffix_numbers x y S P) as [H1 H2]. split.
  - intros l1 n l2 m A B L. apply (C01_below_iff a b x y Ha Hb). exact (H1 l1 n l2 m A B L).
  - intros l1 n l2 m Q A B L. apply (C01_below_iff a b x y Ha Hb). exact (H2 l1 n l2 m Q A B L).
Qed.
Print Assumptions C01_ladder_suffix_numbers_ops.


(* 15. mixed transitivity on the Python operators: <= chains, and == is a congruence for every operator (so other spellings of the same
       version behave identically against any third version: "whatever the spelling") *)
Theorem C01_le_transitive a b c x y z : Version a = Some x -> Version b = Some y -> Version c = Some z ->
  vop Le_ x y = Some true -> vop Le_ y z = Some true -> vop Le_ x z = Some true.
Proof.
  intros Ha Hb Hc. rewrite (C01_ops_are_pep440 a b x y Ha Hb), (C01_ops_are_pep440 b c y z Hb Hc), (C01_ops_are_pep440 a c x z Ha Hc).
  intros H1 H2. destruct (pep440_cmp x y) eqn:E1; cbn in H1; try congruence.
  - now rewrite <- (ok_trans_eq _ pep440_cmp_ok x y z E1).
  - rewrite (ok_trans_lt _ pep440_cmp_ok x y z E1); [reflexivity|]. destruct (pep440_cmp y z); cbn in H2; congruence.
Qed.
Print Assumptions C01_le_transitive.
Theorem C01_eq_congruence a b c x y z : Version a = Some x -> Version b = Some y -> Version c = Some z ->
  vop Eq_ x y = Some true -> forall o, vop o x z = vop o y z /\ vop o z x = vop o z y.
Proof.
  intros Ha Hb Hc H o. rewrite (C01_ops_are_pep440 a b x y Ha Hb) in H.
  assert (E : pep440_cmp x y = Eq) by (destruct (pep440_cmp x y); cbn in H; congruence).
  rewrite (C01_ops_are_pep440 a c x z Ha Hc), (C01_ops_are_pep440 b c y z Hb Hc), (C01_ops_are_pep440 c a z x Hc Ha), (C01_ops_are_pep440 c b z y Hc Hb).
  rewrite (ok_sym _ pep440_cmp_ok x z), (ok_sym _ pep440_cmp_ok y z), (ok_trans_eq _ pep440_cmp_ok x y z E). split; reflexivity.
Qed.
Print Assumptions C01_eq_congruence.
Theorem C01_spelling_irrelevant a b c x y z : Version a = Some x -> Version b = Some y -> Version c = Some z ->
  canon true a = canon true b -> forall o, vop o x z = vop o y z /\ vop o z x = vop o z y.
Proof.
  intros Ha Hb Hc K. apply (C01_eq_congruence a b c x y z Ha Hb Hc).
  rewrite (C01_ops_are_pep440 a b x y Ha Hb), (proj1 (canon_complete a b x y Ha Hb) K). reflexivity.
Qed.
Print Assumptions C01_spelling_irrelevant.

(* 16. the sort that the `v.sort` observation runs (VObsModel.sort_v = what RunVersion.obs_sort calls; it asks only `<` on keys, like list.sort)
       returns, on any list of accepted strings, an ascending arrangement that is a permutation of the input and keeps == versions in input order *)
Theorem C01_run_sort_correct (ss : list str) (vs : list version) : all_some (map Version ss) = Some vs ->
  ascending pep440_cmp (sort_v vs) /\ Permutation vs (sort_v vs) /\ forall z, filter (eqv z) (sort_v vs) = filter (eqv z) vs.
Proof.
  intros H. destruct (all_some_Forall Version VCmp.wf_version (fun a b E => wf_c01 _ (Version_wf a b E)) ss vs H) as [W _].
  split; [now apply sort_v_ascending|]. split; [apply sort_v_perm|]. intros z. now apply sort_v_stable.
Qed.
Print Assumptions C01_run_sort_correct.
(* 17. ... hence sorting gives one answer whatever the input order or spelling, for the sort that is run, on strings *)
Theorem C01_run_sort_one_answer (ss1 ss2 : list str) (vs1 vs2 m m' : list version) :
  all_some (map Version ss1) = Some vs1 -> all_some (map Version ss2) = Some vs2 ->
  Permutation vs1 m -> Forall2 (fun a b => pep440_cmp a b = Eq) m m' -> Permutation m' vs2 ->
  Forall2 (fun a b => vop Eq_ a b = Some true) (sort_v vs1) (sort_v vs2).
Proof.
  intros H1 H2 P1 E P2.
  destruct (all_some_Forall Version VCmp.wf_version (fun a b E => wf_c01 _ (Version_wf a b E)) ss1 vs1 H1) as [W1 _].
  destruct (all_some_Forall Version VCmp.wf_version (fun a b E => wf_c01 _ (Version_wf a b E)) ss2 vs2 H2) as [W2 _].
  pose proof (sort_v_one_answer vs1 vs2 m m' W1 W2 P1 E P2) as F.
  pose proof (sort_v_wf vs1 W1) as S1. pose proof (sort_v_wf vs2 W2) as S2.
  revert S1 S2. induction F as [|x y l1 l2 Exy F IH]; intros S1 S2; constructor.
  - inversion S1; inversion S2; subst. unfold vop. rewrite C01_rich_is_pep440 by assumption. now rewrite Exy.
  - inversion S1; inversion S2; subst. now apply IH.
Qed.
Print Assumptions C01_run_sort_one_answer.

(* 18. "numerically": a plain decimal string with any number of leading zeros is accepted and read as its value, so every operator compares two of
        them as their values compare.  (This one fails if int() - VMeaning.num - or the scanner's treatment of digits were wrong.)
        About the model, for every k, n: the model has no digit limit (finding D10); the real Version() rejects a digit run longer than 4300. *)
Theorem C01_decimal_strings_compare_by_value k n j m : exists x y,
  Version (repeat 48 k ++ dec n) = Some x /\ Version (repeat 48 j ++ dec m) = Some y /\ forall o, vop o x y = Some (of_cmp o (n ?= m)).
Proof.
  exists (plain n), (plain m). split; [apply Version_decimal|]. split; [apply Version_decimal|]. intros o.
  rewrite (C01_ops_are_pep440 _ _ _ _ (Version_decimal k n) (Version_decimal j m)). now rewrite plain_cmp.
Qed.
Print Assumptions C01_decimal_strings_compare_by_value.

(* 19. hash in the correspondence: the `v.cmph` observation reports T exactly when the two keys are structurally equal (pv_eqb decides equality),
        and == versions always have equal keys - so the implementation must report equal hashes wherever the model prints T *)
Theorem C01_hash_observation a b x y : Version a = Some x -> Version b = Some y ->
  (pv_eqb (key x) (key y) = true <-> key x = key y) /\ (vop Eq_ x y = Some true -> pv_eqb (key x) (key y) = true).
Proof.
  intros Ha Hb. split; [apply pv_eqb_eq|]. intros H. apply pv_eqb_eq. rewrite (C01_ops_are_pep440 a b x y Ha Hb) in H.
  assert (E : pep440_cmp x y = Eq) by (destruct (pep440_cmp x y); cbn in H; congruence).
  exact (key_of_equal x y (Version_wf _ _ Ha) (Version_wf _ _ Hb) E).
Qed.
Print Assumptions C01_hash_observation.

(* 20. a version sits strictly above its own public version exactly when it has a local label, and equals it otherwise: for every accepted
       string, `Version(v.public) < v` iff `v.local is not None`, decided by all six operators *)
Theorem C01_public_below_local a v : Version a = Some v -> local v <> None ->
  Version (public_str v) = Some (drop_local v) /\ pep440_cmp (drop_local v) v = Lt /\ strictly_below (drop_local v) v.
Proof.
  intros Ha L. pose proof (Version_wf a v Ha) as W. pose proof (Version_public v W) as P. split; [exact P|].
  assert (C : pep440_cmp (drop_local v) v = Lt).
  { rewrite local_last; [| split; [reflexivity | apply padcmp_refl] | reflexivity | reflexivity | reflexivity].
    cbn [drop_local local]. destruct (local v) as [l|]; [reflexivity | congruence]. }
  split; [exact C|]. apply (C01_below_iff (public_str v) a (drop_local v) v P Ha). exact C.
Qed.
Print Assumptions C01_public_below_local.
Theorem C01_public_equal_without_local a v : Version a = Some v -> local v = None -> drop_local v = v /\ pep440_cmp (drop_local v) v = Eq.
Proof.
  intros Ha L. assert (E : drop_local v = v) by (destruct v; cbn in L |- *; unfold drop_local; cbn; now subst).
  split; [exact E|]. rewrite E. apply (ok_refl _ pep440_cmp_ok).
Qed.
Print Assumptions C01_public_equal_without_local.

(* 21. pre-releases sort before what they lead to: an accepted pre-release (a/b/rc segment or dev segment, also the dev release of a
       post-release) is strictly below - for all six operators - the version with those segments dropped, and a version that is not a
       pre-release is that version *)
Theorem C01_prerelease_below_its_final a v : Version a = Some v ->
  Version (vstr (final_of v)) = Some (final_of v) /\
  (is_prerelease v = true -> strictly_below v (final_of v)) /\ (is_prerelease v = false -> final_of v = v).
Proof.
  intros E. pose proof (Version_wf a v E) as (A & B & C & D & F).
  assert (P : Version (vstr (final_of v)) = Some (final_of v)).
  { apply Version_vstr. unfold VMeaning.wf_version, final_of; cbn [release pre post dev local]. split; [exact A|]. split; [exact I|].
    split; [exact C|]. split; [exact I | exact F]. }
  split; [exact P|]. split.
  - intros H. apply (C01_below_iff a (vstr (final_of v)) v (final_of v) E P). rewrite prerelease_below_final, H. reflexivity.
  - unfold is_prerelease. destruct (dev v) eqn:Dv; [discriminate|]. destruct (pre v) eqn:Pv; [discriminate|]. intros _.
    destruct v; cbn in Dv, Pv |- *; unfold final_of; cbn; now subst.
Qed.
Print Assumptions C01_prerelease_below_its_final.

(* non-vacuity: two accepted spellings of equal versions, and a strict chain  1.0.dev1 < 1.0a1 < 1.0 < 1.0+a < 1.0.post0 *)
Definition nonvac_check : bool :=
  match Version [32;118;49;46;48;46;48;45;82;67;46;49], Version [49;99;49] with
  | Some x, Some y => match vop Eq_ x y, pep440_cmp x y with Some true, Eq => true | _, _ => false end
  | _, _ => false end.
Example C01_nonvacuous : nonvac_check = true.
Proof. vm_compute. reflexivity. Qed.
(* the strict chain  1.0.dev1 < 1.0a1 < 1.0a1.post1.dev0 < 1.0a1.post1 < 1rc1 < 1.0.0 < 1+a < 1.0+1 < 1.0.post0  on the keys (Py.vs), asserted *)
Example C01_chain : chain vs = [Some true; Some false; Some true; Some false; Some true; Some false; Some true; Some false;
                                 Some true; Some false; Some true; Some false; Some true; Some false; Some true; Some false].
Proof. vm_compute. reflexivity. Qed.
(* the sort that is run, on spellings:  sorted(["1.0.post0", "1.0", "1.0a1", "1!0", "1.0.0", "1.0.dev1"]) keeps "1.0" before "1.0.0" *)
Definition sort_check : bool :=
  match all_some (map Version [[49;46;48;46;112;111;115;116;48]; [49;46;48]; [49;46;48;97;49]; [49;33;48]; [49;46;48;46;48]; [49;46;48;46;100;101;118;49]]) with
  | Some l => match map vstr (sort_v l) with
              | [d; a; f1; f2; p; e] => str_eqb d [49;46;48;46;100;101;118;49] && str_eqb f1 [49;46;48] && str_eqb f2 [49;46;48;46;48] && str_eqb e [49;33;48]
              | _ => false end
  | None => false end.
Example C01_sort_nonvacuous : sort_check = true.
Proof. vm_compute. reflexivity. Qed.

(* the `_ops` sandwich theorems and the two-list sorting theorem on parsed strings: their hypotheses are instantiated by
   v = "1.0a1" (dev_just_below: 1.0a1.dev5 < w = "1.0a1.dev7" < 1.0a1), v = "1.0" (post_just_above: 1.0 < w = "1.0+a" < 1.0.post3), the tie
   "1+a" / "1.0+b" of C01_local_decides_ops, the rungs "1.0a1.post1" / "1a1.post2.dev0", and two spellings lists that are permutations up to == *)
Definition ops_check : bool :=
  let lt x y := match vop Lt_ x y with Some true => true | _ => false end in
  match Version [49;46;48;97;49], Version [49;46;48;97;49;46;100;101;118;55], Version [49;46;48], Version [49;46;48;43;97],
        Version [49;43;97], Version [49;46;48;43;98], Version [49;46;48;97;49;46;112;111;115;116;49], Version [49;97;49;46;112;111;115;116;50;46;100;101;118;48] with
  | Some v, Some w, Some f, Some fw, Some la, Some lb, Some p1, Some p2 =>
      lt (with_dev v 5) w && lt w v && lt f fw && lt fw (with_post f 3) &&
      lt la lb && (match pep440_cmp la lb, local_cmp (local la) (local lb) with Lt, Lt => true | _, _ => false end) && lt p1 p2
  | _, _, _, _, _, _, _, _ => false end.
Example C01_ops_nonvacuous : ops_check = true.
Proof. vm_compute. reflexivity. Qed.
Definition sort2_check : bool :=
  match all_some (map Version [[49;46;48]; [50]; [49;46;48;97;49]]), all_some (map Version [[50;46;48;46;48]; [49;97;49]; [49]]) with
  | Some l1, Some l2 => forallb (fun p => match vop Eq_ (fst p) (snd p) with Some true => true | _ => false end) (combine (sort_v l1) (sort_v l2))
                        && Nat.eqb (length (sort_v l1)) 3 && Nat.eqb (length (sort_v l2)) 3
  | _, _ => false end.
Example C01_sort2_nonvacuous : sort2_check = true.
Proof. vm_compute. reflexivity. Qed.
