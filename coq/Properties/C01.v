(* C01  Version comparison is the PEP 440 total order.
   Model: Py.rich (CPython rich comparison on the value shapes inside Version._key, all six operators modelled separately),
   Py.key (_cmpkey verbatim), SpecModel.Version (regex scanner + __init__).  Spec: C01.pep440_cmp (the order of the statement).
   This file holds statements only; every proof is `exact <lemma>` or a few lines over lemmas proved elsewhere. *)
From Coq Require Import List Arith NArith Bool Lia.
Import ListNotations.
Require Import S1 VParse Py VMeaning VCmp SpecModel SpecOps Order Canon SpecEq VWf VKeyEq.
Open Scope N_scope.

(* the six Python operators on two parsed strings *)
Definition vop (o : cop) (x y : version) : option bool := rich o (key x) (key y).

(* 1. every operator, on every pair of accepted strings, is the PEP 440 order (never a TypeError) *)
Theorem C01_ops_are_pep440 a b x y : Version a = Some x -> Version b = Some y ->
  forall o, vop o x y = Some (of_cmp o (pep440_cmp x y)).
Proof. intros Ha Hb. apply C01_rich_is_pep440; apply wf_c01; eapply Version_wf; eassumption. Qed.
Print Assumptions C01_ops_are_pep440.

(* 2. that order is a total preorder: reflexive, antisymmetric up to CompOpp, transitive through = and < *)
Theorem C01_total_preorder : cmp_ok pep440_cmp.
Proof. exact pep440_cmp_ok. Qed.
Print Assumptions C01_total_preorder.

(* 3. trichotomy of the Python operators: exactly one of a<b, a==b, a>b *)
Theorem C01_trichotomy a b x y : Version a = Some x -> Version b = Some y ->
  exists lt eq gt, vop Lt_ x y = Some lt /\ vop Eq_ x y = Some eq /\ vop Gt_ x y = Some gt /\
     ((lt = true /\ eq = false /\ gt = false) \/ (lt = false /\ eq = true /\ gt = false) \/ (lt = false /\ eq = false /\ gt = true)).
Proof.
  intros Ha Hb. exists (of_cmp Lt_ (pep440_cmp x y)), (of_cmp Eq_ (pep440_cmp x y)), (of_cmp Gt_ (pep440_cmp x y)).
  rewrite !(C01_ops_are_pep440 a b x y Ha Hb). repeat split; auto. destruct (pep440_cmp x y); cbn; auto.
Qed.
Print Assumptions C01_trichotomy.

(* 4. <= is (< or ==), != is not ==, >= / > mirror <= / < *)
Theorem C01_operators_agree a b x y : Version a = Some x -> Version b = Some y ->
  exists lt le eq ne ge gt, vop Lt_ x y = Some lt /\ vop Le_ x y = Some le /\ vop Eq_ x y = Some eq /\ vop Ne_ x y = Some ne /\
     vop Ge_ x y = Some ge /\ vop Gt_ x y = Some gt /\
     le = (lt || eq) /\ ne = negb eq /\ ge = (gt || eq) /\ vop Gt_ y x = Some lt /\ vop Ge_ y x = Some le /\ vop Eq_ y x = Some eq.
Proof.
  intros Ha Hb. do 6 eexists. rewrite !(C01_ops_are_pep440 a b x y Ha Hb), !(C01_ops_are_pep440 b a y x Hb Ha).
  rewrite (ok_sym _ pep440_cmp_ok x y). repeat split; destruct (pep440_cmp x y); reflexivity.
Qed.
Print Assumptions C01_operators_agree.

(* 5. transitivity of < and of == on accepted strings *)
Theorem C01_lt_transitive a b c x y z : Version a = Some x -> Version b = Some y -> Version c = Some z ->
  vop Lt_ x y = Some true -> vop Lt_ y z = Some true -> vop Lt_ x z = Some true.
Proof.
  intros Ha Hb Hc. rewrite (C01_ops_are_pep440 a b x y Ha Hb), (C01_ops_are_pep440 b c y z Hb Hc), (C01_ops_are_pep440 a c x z Ha Hc).
  intros H1 H2. assert (E1 : pep440_cmp x y = Lt) by (destruct (pep440_cmp x y); cbn in H1; congruence).
  assert (E2 : pep440_cmp y z = Lt) by (destruct (pep440_cmp y z); cbn in H2; congruence).
  rewrite (ok_trans_lt _ pep440_cmp_ok x y z E1) by congruence. reflexivity.
Qed.
Print Assumptions C01_lt_transitive.
Theorem C01_eq_transitive a b c x y z : Version a = Some x -> Version b = Some y -> Version c = Some z ->
  vop Eq_ x y = Some true -> vop Eq_ y z = Some true -> vop Eq_ x z = Some true.
Proof.
  intros Ha Hb Hc. rewrite (C01_ops_are_pep440 a b x y Ha Hb), (C01_ops_are_pep440 b c y z Hb Hc), (C01_ops_are_pep440 a c x z Ha Hc).
  intros H1 H2. assert (E1 : pep440_cmp x y = Eq) by (destruct (pep440_cmp x y); cbn in H1; congruence).
  rewrite <- (ok_trans_eq _ pep440_cmp_ok x y z E1). exact H2.
Qed.
Print Assumptions C01_eq_transitive.

(* 6. hash agrees with ==: equal versions have the same comparison key, so any function of the key (hash(self._key)) agrees *)
Theorem C01_hash_agrees a b x y (h : pv -> N) : Version a = Some x -> Version b = Some y ->
  vop Eq_ x y = Some true -> h (key x) = h (key y).
Proof.
  intros Ha Hb. rewrite (C01_ops_are_pep440 a b x y Ha Hb). intros H.
  assert (E : pep440_cmp x y = Eq) by (destruct (pep440_cmp x y); cbn in H; congruence).
  now rewrite (key_of_equal x y (Version_wf _ _ Ha) (Version_wf _ _ Hb) E).
Qed.
Print Assumptions C01_hash_agrees.

(* 7. the release is compared numerically with missing components read as zero (trailing-zero stripping = zero padding) *)
Theorem C01_release_zero_padded r1 r2 : lex (strip r1) (strip r2) = padcmp r1 r2.
Proof. rewrite !strip_eq. exact (strip_pad r1 r2). Qed.
Print Assumptions C01_release_zero_padded.

(* non-vacuity: two accepted spellings of equal versions, and a strict chain  1.0.dev1 < 1.0a1 < 1.0 < 1.0+a < 1.0.post0 *)
Definition nonvac_check : bool :=
  match Version [32;118;49;46;48;46;48;45;82;67;46;49], Version [49;99;49] with
  | Some x, Some y => match vop Eq_ x y, pep440_cmp x y with Some true, Eq => true | _, _ => false end
  | _, _ => false end.
Example C01_nonvacuous : nonvac_check = true.
Proof. vm_compute. reflexivity. Qed.
