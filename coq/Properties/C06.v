(* C06  Pre-release gating and filter() follow the PEP 440 policy.
   Model: SpecContains (Specifier.prereleases / contains), SetsModel (SpecifierSet.prereleases / contains(installed) / filter,
   Specifier.filter as the generator is written: kw, yielded flag, found_prereleases list; SpecifierSet.filter as the single pass over
   the items it is since /repo 70278f0 (SetsModel.one_pass), proved equal to the former chain of member filters; the empty-set branch;
   the objects with their mutable override as a state machine).  The model has no digit limit for numbers (the code rejects numbers
   beyond the interpreter's 4300-digit conversion limit with InvalidVersion since 71d4b23, finding D10): nothing here speaks about such inputs.  Items carry their position in the input list, which stands for object identity:
   a filter result is a sub-list of the input items, so "the very objects, in input order" is what `filter _ xs` says.
   Premises: wf_member / wf_set (no operator method raises) - they hold for everything the constructors accept (C05_wf_specifier,
   C05_wf_set in Properties/C05.v, through SpecLink.compare_op_total); the *_text corollaries below have no such premise.
   Statements only; proofs in Filter/SetsFilter.v. *)
From Coq Require Import List Arith NArith Bool Lia Permutation.
Import ListNotations.
Require Import S1 VParse Py VMeaning SpecModel SpecParse SpecContains SetModel SetsModel SetsBridge SetsFs SetsLaws SetsLink SetsFilter SpecOps VKeyEq.
Require Import SetsFilterMore SetsWorld SetsWorldLaws.
Open Scope N_scope.

(* 1. the gate: a pre-release candidate is matched only if pre-releases are enabled - by the argument, else by the override,
      else by what the specifier(s) name *)
Theorem C06_gate_specifier sp o arg item c : Version item = Some c -> is_prerelease c = true ->
  contains sp o arg item = Ans true -> spec_effective sp o arg = true.
Proof. exact (spec_gate sp o arg item c). Qed.
Print Assumptions C06_gate_specifier.
Theorem C06_gate_set S arg inst item c : Version item = Some c -> is_prerelease c = true ->
  set_contains S arg inst item = Ans true -> set_effective S arg = true.
Proof. exact (set_gate S arg inst item c). Qed.
Print Assumptions C06_gate_set.
(* the three layers for a set built from a text *)
Theorem C06_effective_of_text_set s p S arg : SpecifierSet s p = Some S ->
  set_effective S arg =
  match arg with Some b => b | None => match p with Some b => b | None => existsb (fun m => auto_pre (m_sp m)) (ms S) end end.
Proof. exact (text_set_effective s p S arg). Qed.
Print Assumptions C06_effective_of_text_set.
(* a specifier enables pre-releases by itself only when its operator is not != and its version text is a pre-release *)
Theorem C06_auto_names_prerelease sp : auto_pre sp = true ->
  sp_op sp <> ONe /\ exists v, is_prerelease v = true /\
    Version (match sp_op sp with OEq => if ends_dotstar (sp_text sp) then drop2 (sp_text sp) else sp_text sp | _ => sp_text sp end) = Some v.
Proof. exact (auto_pre_names_prerelease sp). Qed.
Print Assumptions C06_auto_names_prerelease.

(* 2. non-pre-release candidates are unaffected by any of the three layers *)
Theorem C06_final_unaffected_specifier sp o o' arg arg' item c : Version item = Some c -> is_prerelease c = false ->
  contains sp o arg item = contains sp o' arg' item.
Proof. exact (spec_final_unaffected sp o o' arg arg' item c). Qed.
Print Assumptions C06_final_unaffected_specifier.
Theorem C06_final_unaffected_set S p p' arg arg' inst inst' item c : Version item = Some c -> is_prerelease c = false ->
  set_contains (set_override S p) arg inst item = set_contains (set_override S p') arg' inst' item.
Proof. exact (set_final_unaffected S p p' arg arg' inst inst' item c). Qed.
Print Assumptions C06_final_unaffected_set.

(* 3. enabling pre-releases never removes a match *)
Theorem C06_enable_monotone_specifier sp o o' item :
  contains sp o (Some false) item = Ans true -> contains sp o' (Some true) item = Ans true.
Proof. exact (spec_enable_monotone sp o o' item). Qed.
Print Assumptions C06_enable_monotone_specifier.
Theorem C06_enable_monotone_set S p p' inst item :
  set_contains (set_override S p) (Some false) inst item = Ans true -> set_contains (set_override S p') (Some true) inst item = Ans true.
Proof. exact (set_enable_monotone S p p' inst item). Qed.
Print Assumptions C06_enable_monotone_set.

(* 4. Specifier.filter: outside the fall-back case, exactly the items contains() accepts under the effective setting, in input order *)
Theorem C06_filter_exact_specifier sp o arg xs : wf_member sp -> wf_items xs ->
  (arg <> None \/ o <> None \/ auto_pre sp = true) ->
  spec_filter_v sp o arg xs = Some (filter (fun x => is_true (contains_v sp o arg (snd x))) xs).
Proof. exact (spec_filter_exact sp o arg xs). Qed.
Print Assumptions C06_filter_exact_specifier.
(* the same on the input list of strings / Version objects: positions of the returned objects *)
Theorem C06_filter_exact_specifier_positions sp o arg texts xs : wf_member sp -> coerce_from 0 texts = Some xs ->
  (arg <> None \/ o <> None \/ auto_pre sp = true) ->
  spec_filter sp o arg texts = FOk (map fst (filter (fun x => is_true (contains_v sp o arg (snd x))) xs)).
Proof. exact (spec_filter_exact_top sp o arg texts xs). Qed.
Print Assumptions C06_filter_exact_specifier_positions.
Theorem C06_filter_invalid_item_iff f texts : lift_filter f texts = FBad <-> exists t, In t texts /\ Version t = None.
Proof. exact (filter_bad_iff f texts). Qed.
Print Assumptions C06_filter_invalid_item_iff.

Theorem C06_filter_exact_specifier_text s sp o arg texts xs : Specifier s = Some sp -> coerce_from 0 texts = Some xs ->
  (arg <> None \/ o <> None \/ auto_pre sp = true) ->
  spec_filter sp o arg texts = FOk (map fst (filter (fun x => is_true (contains_v sp o arg (snd x))) xs)).
Proof. intros H. exact (spec_filter_exact_top sp o arg texts xs (Specifier_wf_member s sp H)). Qed.
Print Assumptions C06_filter_exact_specifier_text.

(* 5. the fall-back case of a single Specifier (no argument, no override, the text names no pre-release):
      the accepted final releases if there is one, else the matching pre-releases - pre-releases are returned iff no final matched *)
Theorem C06_fallback_specifier sp xs : wf_member sp -> wf_items xs -> auto_pre sp = false ->
  let accepted := filter (fun x => is_true (contains_v sp None None (snd x))) xs in
  let pres := filter (fun x => it_pre x && is_true (contains_v sp None (Some true) (snd x))) xs in
  spec_filter_v sp None None xs = Some (match accepted with [] => pres | _ => accepted end).
Proof. exact (spec_filter_fallback sp xs). Qed.
Print Assumptions C06_fallback_specifier.
Theorem C06_fallback_specifier_iff sp xs ys : wf_member sp -> wf_items xs -> auto_pre sp = false ->
  spec_filter_v sp None None xs = Some ys ->
  forall x, In x ys -> (it_pre x = true <-> filter (fun x => negb (it_pre x) && is_true (contains_v sp None (Some true) (snd x))) xs = []).
Proof. exact (spec_filter_fallback_iff sp xs ys). Qed.
Print Assumptions C06_fallback_specifier_iff.

(* 6. SpecifierSet.filter, non-empty set: exactly the items the set's contains() accepts (no fall-back) *)
Theorem C06_filter_exact_set S arg xs : ms S <> [] -> wf_set S -> wf_items xs ->
  set_filter_v S arg xs = Some (filter (fun x => is_true (set_contains_v S arg None (snd x))) xs).
Proof. exact (set_filter_exact S arg xs). Qed.
Print Assumptions C06_filter_exact_set.
Theorem C06_filter_exact_set_positions S arg texts xs : ms S <> [] -> wf_set S -> coerce_from 0 texts = Some xs ->
  set_filter S arg texts = FOk (map fst (filter (fun x => is_true (set_contains_v S arg None (snd x))) xs)).
Proof. exact (set_filter_exact_top S arg texts xs). Qed.
Print Assumptions C06_filter_exact_set_positions.

Theorem C06_filter_exact_set_text s p S arg texts xs : SpecifierSet s p = Some S -> ms S <> [] -> coerce_from 0 texts = Some xs ->
  set_filter S arg texts = FOk (map fst (filter (fun x => is_true (set_contains_v S arg None (snd x))) xs)).
Proof. intros H NE. exact (set_filter_exact_top S arg texts xs NE (SpecifierSet_wf s p S H)). Qed.
Print Assumptions C06_filter_exact_set_text.

(* 7. the empty set: exact filter under an explicit setting; with no setting at all the final releases, or - iff there is none -
      everything (which then consists of pre-releases only) *)
Theorem C06_fallback_emptyset S arg xs : ms S = [] ->
  set_filter_v S arg xs = Some (
    match arg, ov S with
    | None, None => match filter (fun x => negb (it_pre x)) xs with [] => xs | finals => finals end
    | _, _ => filter (fun x => is_true (set_contains_v S arg None (snd x))) xs
    end).
Proof. exact (empty_set_filter S arg xs). Qed.
Print Assumptions C06_fallback_emptyset.

(* 8. once past the gate, installed=True judges a pre-release candidate by its base version; elsewhere it changes nothing *)
Theorem C06_installed S arg item c : Version item = Some c -> is_prerelease c = true -> set_effective S arg = true ->
  set_contains S arg (Some true) item = set_contains S arg None (base_str c).
Proof. exact (set_installed S arg item c). Qed.
Print Assumptions C06_installed.
Theorem C06_installed_irrelevant S arg inst item c : Version item = Some c -> (is_prerelease c = false \/ truthy inst = false) ->
  set_contains S arg inst item = set_contains S arg None item.
Proof. exact (set_installed_irrelevant S arg inst item c). Qed.
Print Assumptions C06_installed_irrelevant.

(* 9. histories: after any sequence of assignments / contains / in / filter / reads the object is the original one with the
      latest assignment as override, so every output depends only on the latest override *)
Theorem C06_history_state ops x : after x ops = with_override x (latest ops (obj_override x)).
Proof. exact (history_state ops x). Qed.
Print Assumptions C06_history_state.
Theorem C06_history x ops ops' o : latest ops (obj_override x) = latest ops' (obj_override x) ->
  snd (step (after x ops) o) = snd (step (after x ops') o).
Proof. exact (history_outputs x ops ops' o). Qed.
Print Assumptions C06_history.

(* 10. the order of the members (iteration order of the frozenset) is irrelevant for the single-pass filter: set_filter_v runs
       SetsModel.one_pass, `item for item in iterable if all(spec.contains(item, prereleases=allow) for spec in specs)`.
       (The name dates from the chain of member filters the code had before 70278f0; C20.v refers to it.) *)
Theorem C06_chain_order_irrelevant S S' arg xs : Permutation (ms S) (ms S') -> ov S = ov S' -> wf_set S -> wf_items xs ->
  set_filter_v S arg xs = set_filter_v S' arg xs.
Proof. exact (set_filter_order_irrelevant S S' arg xs). Qed.
Print Assumptions C06_chain_order_irrelevant.
Theorem C06_member_order_irrelevant S S' arg xs : Permutation (ms S) (ms S') -> ov S = ov S' -> wf_set S -> wf_items xs ->
  set_filter_v S arg xs = set_filter_v S' arg xs.
Proof. exact (set_filter_order_irrelevant S S' arg xs). Qed.
Print Assumptions C06_member_order_irrelevant.
(* the single pass of the code and the chain of member filters it replaced are the same function - for ALL members, with no wf premise
   (so also where a member's operator raises) *)
Theorem C06_filter_is_one_pass b l xs : chain_filter b l xs = one_pass b l xs.
Proof. exact (chain_is_one_pass b l xs). Qed.
Print Assumptions C06_filter_is_one_pass.

(* ================================================================ second round (audit of C06) *)

(* 3'. contains() depends on (override, argument) only through the effective setting (the two *_only_effective statements are a case split
       of the definitions); so enabling pre-releases by the call argument, the constructor override or a later assignment never removes a match.
       For a set, S' may differ from S in the set's override AND in the members' own overrides (the fourth layer): only the member
       specifiers must be the same. *)
Theorem C06_contains_only_effective sp o arg item : contains sp o arg item = contains sp None (Some (spec_effective sp o arg)) item.
Proof. exact (contains_only_effective sp o arg item). Qed.
Print Assumptions C06_contains_only_effective.
Theorem C06_enable_monotone_general sp o arg o' arg' item : spec_effective sp o' arg' = true ->
  contains sp o arg item = Ans true -> contains sp o' arg' item = Ans true.
Proof. exact (enable_monotone_general sp o arg o' arg' item). Qed.
Print Assumptions C06_enable_monotone_general.
Theorem C06_set_contains_only_effective S arg inst item :
  set_contains S arg inst item = set_contains S (Some (set_effective S arg)) inst item.
Proof. exact (set_contains_only_effective S arg inst item). Qed.
Print Assumptions C06_set_contains_only_effective.
(* S' : the same member specifiers under any other overrides of the set and of the members *)
Theorem C06_set_enable_monotone_general S S' arg arg' inst item : map m_sp (ms S) = map m_sp (ms S') -> set_effective S' arg' = true ->
  set_contains S arg inst item = Ans true -> set_contains S' arg' inst item = Ans true.
Proof. exact (set_enable_monotone_general S S' arg arg' inst item). Qed.
Print Assumptions C06_set_enable_monotone_general.
(* filter(): whatever is returned under one setting - by the fall-back too - is returned once pre-releases are enabled *)
Theorem C06_filter_monotone_specifier sp o arg o' arg' xs ys : wf_member sp -> wf_items xs -> spec_effective sp o' arg' = true ->
  spec_filter_v sp o arg xs = Some ys ->
  exists zs, spec_filter_v sp o' arg' xs = Some zs /\ incl ys zs /\ zs = filter (fun x => is_true (contains_v sp None (Some true) (snd x))) xs.
Proof. exact (spec_filter_monotone sp o arg o' arg' xs ys). Qed.
Print Assumptions C06_filter_monotone_specifier.
Theorem C06_filter_monotone_set S S' arg arg' xs ys : ms S = ms S' -> ms S <> [] -> wf_set S -> wf_items xs -> set_effective S' arg' = true ->
  set_filter_v S arg xs = Some ys -> exists zs, set_filter_v S' arg' xs = Some zs /\ incl ys zs.
Proof. exact (set_filter_monotone S S' arg arg' xs ys). Qed.
Print Assumptions C06_filter_monotone_set.
Theorem C06_filter_monotone_emptyset S S' arg arg' xs : ms S = [] -> ms S' = [] -> set_effective S' arg' = true ->
  set_filter_v S' arg' xs = Some xs /\ forall ys, set_filter_v S arg xs = Some ys -> incl ys xs.
Proof. exact (empty_filter_monotone S S' arg arg' xs). Qed.
Print Assumptions C06_filter_monotone_emptyset.

(* 4'. filter() is idempotent, the fall-back included: filtering its own output under the same setting returns it unchanged *)
Theorem C06_filter_idempotent_specifier sp o arg xs ys : wf_member sp -> wf_items xs ->
  spec_filter_v sp o arg xs = Some ys -> spec_filter_v sp o arg ys = Some ys.
Proof. exact (spec_filter_idempotent sp o arg xs ys). Qed.
Print Assumptions C06_filter_idempotent_specifier.
Theorem C06_filter_idempotent_set S arg xs ys : wf_set S -> wf_items xs -> set_filter_v S arg xs = Some ys -> set_filter_v S arg ys = Some ys.
Proof. exact (set_filter_idempotent S arg xs ys). Qed.
Print Assumptions C06_filter_idempotent_set.

(* 1'. the layers of the effective setting for sets built from Specifier OBJECTS and for a & b.  A member's own override is a fourth
       layer, which the property text does not mention: SpecifierSet([Specifier(">=1.0", prereleases=True)]) matches 2.0a1. *)
Theorem C06_effective_of_object_set l p arg :
  set_effective (SpecifierSet_of l p) arg =
  match arg with Some b => b | None => match p with Some b => b | None => existsb member_enables (fs_of l) end end.
Proof. exact (object_set_effective l p arg). Qed.
Print Assumptions C06_effective_of_object_set.
Theorem C06_effective_of_object_set_all l p arg : pre_coherent l ->
  set_effective (SpecifierSet_of l p) arg =
  match arg with Some b => b | None => match p with Some b => b | None => existsb member_enables l end end.
Proof. exact (object_set_effective_all l p arg). Qed.
Print Assumptions C06_effective_of_object_set_all.
Theorem C06_gate_object_set l p arg inst item c : Version item = Some c -> is_prerelease c = true ->
  set_contains (SpecifierSet_of l p) arg inst item = Ans true ->
  arg = Some true \/ (arg = None /\ p = Some true) \/
  (arg = None /\ p = None /\ exists m, In m l /\ (m_ov m = Some true \/ (m_ov m = None /\ auto_pre (m_sp m) = true))).
Proof. exact (object_set_gate l p arg inst item c). Qed.
Print Assumptions C06_gate_object_set.
Theorem C06_effective_of_and A B C arg : set_and A B = Some C -> pre_coherent (ms A ++ ms B) ->
  set_effective C arg =
  match arg with
  | Some b => b
  | None => match ov A with Some x => x | None => match ov B with Some y => y | None => existsb m_pre (ms A) || existsb m_pre (ms B) end end
  end.
Proof. exact (and_effective_all A B C arg). Qed.
Print Assumptions C06_effective_of_and.
Theorem C06_effective_of_and_text a b pa pb A B C arg : SpecifierSet a pa = Some A -> SpecifierSet b pb = Some B -> set_and A B = Some C ->
  set_effective C arg =
  match arg with
  | Some x => x
  | None => match pa with Some x => x | None => match pb with Some y => y | None =>
              existsb (fun m => auto_pre (m_sp m)) (ms A) || existsb (fun m => auto_pre (m_sp m)) (ms B) end end
  end.
Proof. exact (and_effective_text a b pa pb A B C arg). Qed.
Print Assumptions C06_effective_of_and_text.

(* 5'. the fall-back of a single Specifier on the input list of strings / Version objects, no wf premises *)
Theorem C06_fallback_specifier_text s sp texts xs : Specifier s = Some sp -> coerce_from 0 texts = Some xs -> auto_pre sp = false ->
  let accepted := filter (fun x => is_true (contains_v sp None None (snd x))) xs in
  let pres := filter (fun x => it_pre x && is_true (contains_v sp None (Some true) (snd x))) xs in
  spec_filter sp None None texts = FOk (map fst (match accepted with [] => pres | _ => accepted end)).
Proof. exact (spec_filter_fallback_text s sp texts xs). Qed.
Print Assumptions C06_fallback_specifier_text.
Theorem C06_fallback_specifier_iff_text s sp texts xs ps : Specifier s = Some sp -> coerce_from 0 texts = Some xs -> auto_pre sp = false ->
  spec_filter sp None None texts = FOk ps ->
  exists ys, ps = map fst ys /\ incl ys xs /\
    forall x, In x ys -> (it_pre x = true <-> filter (fun x => negb (it_pre x) && is_true (contains_v sp None (Some true) (snd x))) xs = []).
Proof. exact (spec_filter_fallback_iff_text s sp texts xs ps). Qed.
Print Assumptions C06_fallback_specifier_iff_text.
(* 7'. the empty set built from a text *)
Theorem C06_fallback_emptyset_text s p S arg texts xs : SpecifierSet s p = Some S -> ms S = [] -> coerce_from 0 texts = Some xs ->
  set_filter S arg texts = FOk (map fst (
    match arg, p with
    | None, None => match filter (fun x => negb (it_pre x)) xs with [] => xs | finals => finals end
    | _, _ => filter (fun x => is_true (set_contains_v S arg None (snd x))) xs
    end)).
Proof. exact (empty_set_filter_text s p S arg texts xs). Qed.
Print Assumptions C06_fallback_emptyset_text.

(* 9'. histories over objects WITH IDENTITY (SetsWorld; the s.world command runs wstep): Specifier objects live in a heap, sets hold
       references, a & b holds the operands' member objects.  After any history of constructions, &, assignments to a set, assignments to
       a member object (through any alias) and reads: every pre-existing object is unchanged except that its override is its latest
       assignment (frame: assigning one object never touches another; membership and _spec never change).
       C06_world_history is the frame of a functional list update and C06_world_reads_do_not_write holds by the way wstep is written:
       both are definitional for the MODEL; that the real contains / filter / .prereleases write nothing rests on the s.world correspondence
       stream.  The theorem with content is C06_world_and_shares_members (with C06_world_set_shares_members): sharing through & .
       An op `WRead i (OpSet p)` is the assignment WSetOv i p (C06_world_opset_is_assignment), not a read. *)
Theorem C06_world_history ops w : frame w (wrun w ops) ops.
Proof. exact (world_history ops w). Qed.
Print Assumptions C06_world_history.
Theorem C06_world_reads_do_not_write w i a o : is_read o = true -> fst (wstep w (WRead i o)) = w /\ fst (wstep w (WReadCell a o)) = w.
Proof. exact (reads_do_not_write w i a o). Qed.
Print Assumptions C06_world_reads_do_not_write.
Theorem C06_world_opset_is_assignment w i a p :
  wstep w (WRead i (OpSet p)) = wstep w (WSetOv i p) /\ wstep w (WReadCell a (OpSet p)) = wstep w (WCellOv a p).
Proof. exact (read_opset_is_assignment w i a p). Qed.
Print Assumptions C06_world_opset_is_assignment.
(* the premise wf_world of the theorems below holds for every world reached from the empty one by a well-addressed program
   (wf_ops: every address / index mentioned by a construction exists - what s.world programs are) *)
Theorem C06_world_wf_from_empty ops : wf_ops empty_world ops -> wf_world (wrun empty_world ops).
Proof. exact (wf_world_from_empty ops). Qed.
Print Assumptions C06_world_wf_from_empty.
(* ... so what a set answers is what SetsModel answers for its members under their latest overrides and its own latest override ... *)
Theorem C06_world_resolve ops w i : wf_world w -> (i < length (sets w))%nat ->
  resolve (wrun w ops) i =
  {| ms := map (fun a => {| m_sp := c_sp (cell_at w a); m_ov := latest_cell a ops (c_ov (cell_at w a)) |}) (h_ms (set_at w i));
     ov := latest_set i ops (h_ov (set_at w i)) |}.
Proof. exact (resolve_after ops w i). Qed.
Print Assumptions C06_world_resolve.
(* ... and two histories with the same latest assignments (to the set and to each of its member objects) give the same outputs *)
Theorem C06_world_history_outputs w ops ops' i o : wf_world w -> (i < length (sets w))%nat ->
  latest_set i ops (h_ov (set_at w i)) = latest_set i ops' (h_ov (set_at w i)) ->
  (forall a, In a (h_ms (set_at w i)) -> latest_cell a ops (c_ov (cell_at w a)) = latest_cell a ops' (c_ov (cell_at w a))) ->
  snd (wstep (wrun w ops) (WRead i o)) = snd (wstep (wrun w ops') (WRead i o)).
Proof. exact (reads_depend_on_latest w ops ops' i o). Qed.
Print Assumptions C06_world_history_outputs.
Theorem C06_world_history_outputs_specifier w ops ops' a o : (a < length (cells w))%nat ->
  latest_cell a ops (c_ov (cell_at w a)) = latest_cell a ops' (c_ov (cell_at w a)) ->
  snd (wstep (wrun w ops) (WReadCell a o)) = snd (wstep (wrun w ops') (WReadCell a o)).
Proof. exact (cell_reads_depend_on_latest w ops ops' a o). Qed.
Print Assumptions C06_world_history_outputs_specifier.
(* sharing: at every moment after c = a & b, the members of c are the union of the CURRENT members of a and b (same objects), so an
   assignment to a member of a is seen through c; likewise SpecifierSet([objects]) *)
Theorem C06_world_and_shares_members w i j o ops : wf_world w -> (i < length (sets w))%nat -> (j < length (sets w))%nat ->
  SetModel.merge (h_ov (set_at w i)) (h_ov (set_at w j)) = Some o ->
  let k := length (sets w) in
  let w' := wrun w (WAnd i j :: ops) in
  ms (resolve w' k) = fs_union (ms (resolve w' i)) (ms (resolve w' j)) /\ ov (resolve w' k) = latest_set k ops o.
Proof. exact (and_shares_members w i j o ops). Qed.
Print Assumptions C06_world_and_shares_members.
Theorem C06_world_set_shares_members w addrs p ops : Forall (fun a => (a < length (cells w))%nat) addrs ->
  let k := length (sets w) in
  let w' := wrun w (WSet addrs p :: ops) in
  resolve w' k = SpecifierSet_of (map (member_at w') addrs) (latest_set k ops p).
Proof. exact (set_shares_members w addrs p ops). Qed.
Print Assumptions C06_world_set_shares_members.
Theorem C06_world_sharing_nonvacuous : sharing_check = true.
Proof. exact sharing_nonvacuous. Qed.
Print Assumptions C06_world_sharing_nonvacuous.

(* non-vacuity: Specifier(">=1.0") is a wf_member that does not name a pre-release; filter(["1.5a1"]) falls back to the pre-release,
   filter(["1.5a1","2.0"]) returns the final only, and with prereleases=False on the object (D22 repaired) nothing is returned *)
Example C06_nonvacuous :
  let sp := {| sp_op := OGe; sp_text := [49;46;48] |} in
  Specifier [62;61;49;46;48] = Some sp /\ auto_pre sp = false /\
  spec_filter sp None None [[49;46;53;97;49]] = FOk [0%nat] /\
  spec_filter sp None None [[49;46;53;97;49]; [50;46;48]] = FOk [1%nat] /\
  spec_filter sp (Some false) None [[49;46;53;97;49]] = FOk [] /\
  set_filter {| ms := []; ov := None |} None [[49;46;53;97;49]] = FOk [0%nat] /\
  set_filter {| ms := []; ov := None |} None [[49;46;53;97;49]; [50;46;48]] = FOk [1%nat].
Proof. vm_compute. repeat split. Qed.
