From Coq Require Import List NArith Bool.
Require Import SetsModel.
Theorem C06_stub : truthy None = false. Proof. reflexivity. Qed.
Print Assumptions C06_stub.
