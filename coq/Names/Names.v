(* Model of packaging.utils.canonicalize_name / is_normalized_name (C13).  Executable definitions only.
   Strings are lists of code points.  ASCII is exact.  str.lower() is VMeaning.py_lower_c: ASCII upper case -> lower case,
   U+0130 -> "i" U+0307, U+212A -> "k", every other code point unchanged (generators stay inside the code points for which that is
   what CPython does; see harness/props/c13.py). *)
From Coq Require Import List NArith Bool.
Import ListNotations.
Require Import VParse VMeaning.
Open Scope N_scope.

Definition is_upper (c : char) := (65 <=? c) && (c <=? 90).
Definition is_alnum (c : char) := is_digit c || is_lower c || is_upper c.        (* [A-Z0-9] under IGNORECASE | ASCII *)

(* _canonicalize_regex.sub("-", name):  every maximal run of [-_.] becomes one "-" *)
Fixpoint sub_runs (in_run : bool) (s : str) : str :=
  match s with
  | [] => []
  | c :: t => if is_sep c then (if in_run then sub_runs true t else 45 :: sub_runs true t) else c :: sub_runs false t
  end.
(* canonicalize_name(name) = _canonicalize_regex.sub("-", name).lower() *)
Definition canon_name (s : str) : str := py_lower (sub_runs false s).

(* _validate_regex = ^([A-Z0-9]|[A-Z0-9][A-Z0-9._-]*[A-Z0-9])\Z   with re.IGNORECASE | re.ASCII, used with .match *)
Definition is_cls (c : char) := is_alnum c || is_sep c.                          (* [A-Z0-9._-] *)
(* [A-Z0-9._-]*[A-Z0-9]\Z on the rest: the greedy star backs off to the last character, which must be alphanumeric *)
Fixpoint v_tail (t : str) : bool :=
  match t with
  | [] => false
  | d :: t' => match t' with [] => is_alnum d | _ => is_cls d && v_tail t' end
  end.
Definition valid_name (s : str) : bool :=
  match s with
  | [] => false
  | c :: t => is_alnum c && match t with [] => true (* first alternative, then \Z *) | _ => v_tail t end
  end.

Inductive nres := NOk (s : str) | NInvalidName.
Definition canonicalize_name (validate : bool) (s : str) : nres :=
  if validate && negb (valid_name s) then NInvalidName else NOk (canon_name s).

(* _normalized_regex = ^(?!.*--)([a-z0-9]|[a-z0-9][a-z0-9-]*[a-z0-9])\Z   (no flags), used with .match *)
Definition is_la (c : char) := is_digit c || is_lower c.                         (* [a-z0-9] *)
(* the look-ahead body .*-- tried at position 0: '.' does not match a newline *)
Fixpoint la_dd (s : str) : bool :=
  match s with
  | [] => false
  | c :: t => match t with
              | d :: _ => ((c =? 45) && (d =? 45)) || (negb (c =? 10) && la_dd t)
              | [] => false
              end
  end.
Fixpoint n_tail (t : str) : bool :=
  match t with
  | [] => false
  | d :: t' => match t' with [] => is_la d | _ => (is_la d || (d =? 45)) && n_tail t' end
  end.
Definition is_normalized (s : str) : bool :=
  negb (la_dd s) &&
  match s with
  | [] => false
  | c :: t => is_la c && match t with [] => true | _ => n_tail t end
  end.
