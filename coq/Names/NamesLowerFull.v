(* Facts about the exact str.lower() model NamesX.lower_full used by the filename / tag laws (C14):
   idempotence, no new '-' or '.', insensitivity to ASCII upper-casing, the ASCII restriction, and the behaviour under the
   dash <-> underscore renaming of the binary-distribution name escaping (with the Final_Sigma context carried along). *)
From Coq Require Import List Arith NArith Bool Lia.
Import ListNotations.
Require Import VParse VTop VComplete VMeaning Names NamesSpec NamesAscii NamesLaws LowerTable NamesX NamesLower NamesLowerLaws.
Open Scope N_scope.
Arguments N.eqb : simpl never.
Arguments N.leb : simpl never.
Arguments N.ltb : simpl never.

(* ---------------- images ---------------- *)
Lemma lower_x_sep c : is_sep c = true -> lower_x c = [c].
Proof. intros H. rewrite (lower_x_cls c (sep_is_cls c H)). now rewrite sep_lower_a. Qed.
Lemma sigma_not_sep : is_sep 931 = false. Proof. reflexivity. Qed.
(* every code point of an image is fixed by lower_x and is not U+03A3 *)
Lemma lower_at_fixed br t c : Forall (fun d => lower_x d = [d] /\ d <> 931) (lower_at br t c).
Proof.
  assert (K : forall d, lower_x d = [d] -> lower_x d = [d] /\ d <> 931).
  { intros d H. split; [exact H|]. intros ->. vm_compute in H. discriminate. }
  unfold lower_at. destruct (c =? 931) eqn:E.
  - constructor; [|constructor]. destruct (final_sigma br t); apply K; vm_compute; reflexivity.
  - destruct (is_sep c) eqn:S.
    + rewrite (lower_x_sep c S). constructor; [|constructor]. apply K. now apply lower_x_sep.
    + eapply Forall_impl; [|apply (lower_x_low c S)]. intros d [_ H]. now apply K.
Qed.
Lemma lower_go_fixed s : forall br, Forall (fun d => lower_x d = [d] /\ d <> 931) (lower_go br s).
Proof. induction s as [|c t IH]; intros br; [constructor|]. cbn [lower_go]. apply Forall_app. split; [apply lower_at_fixed|apply IH]. Qed.
Lemma py_lower_x_fixed s : Forall (fun d => lower_x d = [d]) s -> py_lower_x s = s.
Proof. induction 1 as [|x s Hx _ IH]; [reflexivity|]. cbn [py_lower_x flat_map]. fold (py_lower_x s). now rewrite Hx, IH. Qed.
Theorem lower_full_idem s : lower_full (lower_full s) = lower_full s.
Proof.
  pose proof (lower_go_fixed s []) as F. fold (lower_full s) in F. unfold lower_full at 1. rewrite lower_go_no_sigma.
  - apply py_lower_x_fixed. eapply Forall_impl; [|exact F]. now intros d [H _].
  - intros I. rewrite Forall_forall in F. now destruct (F 931 I).
Qed.

(* lower-casing creates no '-', '.', '_' *)
Lemma lower_at_nosep x br t c : is_sep x = true -> (c =? x) = false -> forallb (fun d => negb (d =? x)) (lower_at br t c) = true.
Proof.
  intros Hx Hc. unfold lower_at. destruct (c =? 931) eqn:E.
  - apply NamesLaws.sep_cases in Hx as [->|[->| ->]]; destruct (final_sigma br t); reflexivity.
  - destruct (is_sep c) eqn:S.
    + rewrite (lower_x_sep c S). cbn [forallb]. now rewrite Hc.
    + apply forallb_forall. intros d Hd. pose proof (lower_x_low c S) as F. rewrite Forall_forall in F. destruct (F d Hd) as [Sd _].
      apply negb_true_iff. apply N.eqb_neq. intros ->. congruence.
Qed.
Lemma lower_go_nosep x s : is_sep x = true -> forallb (fun d => negb (d =? x)) s = true -> forall br, forallb (fun d => negb (d =? x)) (lower_go br s) = true.
Proof.
  intros Hx. induction s as [|c t IH]; intros H br; [reflexivity|]. cbn [forallb] in H. apply andb_prop in H as [Hc Ht]. apply negb_true_iff in Hc.
  cbn [lower_go]. rewrite forallb_app, lower_at_nosep, IH; auto.
Qed.

(* ---------------- the pass under a renaming of code points that keeps the Final_Sigma classes ---------------- *)
Lemma next_cased_map (r : char -> char) : (forall c, sig_ign (r c) = sig_ign c) -> (forall c, sig_cased (r c) = sig_cased c) ->
  forall s, next_cased (map r s) = next_cased s.
Proof. intros Hi Hc. induction s as [|c t IH]; [reflexivity|]. cbn [map next_cased]. now rewrite Hi, Hc, IH. Qed.
Lemma lower_go_sim (r r2 : char -> char) (P : char -> Prop) :
  (forall c, sig_ign (r c) = sig_ign c) -> (forall c, sig_cased (r c) = sig_cased c) -> (forall c, (r c =? 931) = (c =? 931)) ->
  (forall c, P c -> (c =? 931) = false -> lower_x (r c) = map r2 (lower_x c)) -> r2 962 = 962 -> r2 963 = 963 ->
  forall s br, Forall P s -> lower_go (map r br) (map r s) = map r2 (lower_go br s).
Proof.
  intros Hi Hc Hs Hl H2 H3. induction s as [|c t IH]; intros br F; [reflexivity|]. inversion F as [|? ? Pc Ft]; subst.
  cbn [map lower_go]. rewrite map_app. change (r c :: map r br) with (map r (c :: br)). rewrite IH by assumption. f_equal.
  unfold lower_at, final_sigma. rewrite Hs, !(next_cased_map r Hi Hc). destruct (c =? 931) eqn:E.
  - cbn [map]. destruct (next_cased br && negb (next_cased t)); now rewrite ?H2, ?H3.
  - now apply Hl.
Qed.

(* ASCII upper-casing of the input does not change the result *)
Definition upper_a (c : char) : char := if is_lower c then c - 32 else c.
Definition letters_az : list N := map N.of_nat (seq 97 26).
Lemma in_letters c : is_lower c = true -> In c letters_az.
Proof.
  unfold is_lower. intros H. apply andb_prop in H as [A B]. apply N.leb_le in A, B. unfold letters_az.
  replace c with (N.of_nat (N.to_nat c)) by apply N2Nat.id. apply in_map. apply in_seq. lia.
Qed.
Definition upper_class_check : bool :=
  forallb (fun c => Bool.eqb (sig_ign (c - 32)) (sig_ign c) && Bool.eqb (sig_cased (c - 32)) (sig_cased c)) letters_az.
Lemma upper_class_ok : upper_class_check = true. Proof. vm_compute. reflexivity. Qed.
Lemma upper_a_classes c : sig_ign (upper_a c) = sig_ign c /\ sig_cased (upper_a c) = sig_cased c.
Proof.
  unfold upper_a. destruct (is_lower c) eqn:L; [|split; reflexivity]. pose proof upper_class_ok as K. unfold upper_class_check in K.
  rewrite forallb_forall in K. specialize (K c (in_letters c L)). apply andb_prop in K as [A B]. apply Bool.eqb_prop in A, B. auto.
Qed.
Lemma upper_a_sigma c : (upper_a c =? 931) = (c =? 931).
Proof. unfold upper_a, is_lower. destruct ((97 <=? c) && (c <=? 122)) eqn:L; [|reflexivity]. bcase. Qed.
Lemma lower_x_upper_a c : lower_x (upper_a c) = lower_x c.
Proof.
  unfold upper_a, is_lower. destruct ((97 <=? c) && (c <=? 122)) eqn:L; [|reflexivity]. unfold lower_x, is_upper.
  assert (E0 : (c - 32 <? 128) = true) by (apply N.ltb_lt; nb; lia). assert (E0' : (c <? 128) = true) by (apply N.ltb_lt; nb; lia).
  assert (E1 : (65 <=? c - 32) && (c - 32 <=? 90) = true) by bcase. assert (E2 : (65 <=? c) && (c <=? 90) = false) by bcase.
  rewrite E0, E0', E1, E2. f_equal. nb. lia.
Qed.
Lemma lower_go_upper s : forall br, lower_go (map upper_a br) (map upper_a s) = lower_go br s.
Proof.
  intros br. rewrite (lower_go_sim upper_a (fun d => d) (fun _ => True)); auto.
  - apply map_id.
  - intros c. apply upper_a_classes.
  - intros c. apply upper_a_classes.
  - apply upper_a_sigma.
  - intros c _ _. rewrite map_id. apply lower_x_upper_a.
  - apply Forall_forall. auto.
Qed.
Theorem lower_full_upper s : lower_full (map upper_a s) = lower_full s.
Proof. exact (lower_go_upper s []). Qed.

(* ---------------- ASCII ---------------- *)
Lemma lower_full_cls s : forallb is_cls s = true -> lower_full s = map lower_a s.
Proof.
  intros H. unfold lower_full. rewrite lower_go_no_sigma by now apply cls_no_sigma.
  induction s as [|c t IH]; [reflexivity|]. cbn [forallb] in H. apply andb_prop in H as [Hc Ht]. cbn [py_lower_x flat_map map]. fold (py_lower_x t).
  now rewrite lower_x_cls, IH.
Qed.
Lemma lower_full_ascii s : Forall (fun c => c < 128) s -> lower_full s = py_lower s.
Proof.
  intros F. unfold lower_full. rewrite lower_go_no_sigma.
  - induction F as [|c t Hc _ IH]; [reflexivity|]. cbn [py_lower_x py_lower flat_map]. fold (py_lower_x t) (py_lower t). rewrite IH. f_equal.
    apply lower_x_ascii. now apply N.ltb_lt.
  - intros I. rewrite Forall_forall in F. specialize (F 931 I). lia.
Qed.

(* ---------------- the escaped name: runs of [-_.] written as one '_' ---------------- *)
Definition dash_us (c : char) : char := if c =? 45 then 95 else c.
Lemma dash_us_classes c : sig_ign (dash_us c) = sig_ign c /\ sig_cased (dash_us c) = sig_cased c.
Proof. unfold dash_us. destruct (c =? 45) eqn:E; [|split; reflexivity]. apply N.eqb_eq in E. subst c. split; vm_compute; reflexivity. Qed.
Lemma dash_us_sigma c : (dash_us c =? 931) = (c =? 931).
Proof. unfold dash_us. destruct (c =? 45) eqn:E; [|reflexivity]. apply N.eqb_eq in E. subst c. reflexivity. Qed.
Lemma dash_us_nosep l : Forall (fun d => is_sep d = false) l -> map dash_us l = l.
Proof.
  induction 1 as [|d l Hd _ IH]; [reflexivity|]. cbn [map]. rewrite IH. f_equal. unfold dash_us. destruct (d =? 45) eqn:E; [|reflexivity].
  apply N.eqb_eq in E. subst d. discriminate.
Qed.
Lemma lower_x_dash_us c : (is_sep c = false \/ c = 45) -> lower_x (dash_us c) = map dash_us (lower_x c).
Proof.
  intros [S| ->]; [|reflexivity]. assert (E : dash_us c = c).
  { unfold dash_us. destruct (c =? 45) eqn:E; [|reflexivity]. apply N.eqb_eq in E. subst c. discriminate. }
  rewrite E. symmetry. apply dash_us_nosep. eapply Forall_impl; [|apply (lower_x_low c S)]. now intros d [H _].
Qed.
Lemma lower_full_dash_us t : Forall (fun c => is_sep c = false \/ c = 45) t -> lower_full (map dash_us t) = map dash_us (lower_full t).
Proof.
  intros F. unfold lower_full. change (@nil N) with (map dash_us []) at 1.
  apply (lower_go_sim dash_us dash_us (fun c => is_sep c = false \/ c = 45)); auto.
  - intros c. apply dash_us_classes.
  - intros c. apply dash_us_classes.
  - apply dash_us_sigma.
  - intros c Pc _. now apply lower_x_dash_us.
Qed.
Lemma sub_runs_chars s : forall b, Forall (fun c => is_sep c = false \/ c = 45) (sub_runs b s).
Proof.
  induction s as [|c t IH]; intros b; cbn [sub_runs]; [constructor|]. destruct (is_sep c) eqn:E; [destruct b|]; auto.
Qed.
Lemma dash_us_sep c : is_sep (dash_us c) = is_sep c /\ (is_sep c = false -> dash_us c = c).
Proof. unfold dash_us. destruct (c =? 45) eqn:E; [|auto]. apply N.eqb_eq in E. subst c. split; [reflexivity|discriminate]. Qed.
Lemma sub_runs_map_dash_us u : forall b, sub_runs b (map dash_us u) = sub_runs b u.
Proof.
  induction u as [|c t IH]; intros b; [reflexivity|]. cbn [map sub_runs]. destruct (dash_us_sep c) as [E1 E2]. rewrite E1.
  destruct (is_sep c); [destruct b|]; rewrite IH; auto. now rewrite E2.
Qed.
Lemma sub_runs_idem s : forall b, sub_runs b (sub_runs b s) = sub_runs b s.
Proof.
  induction s as [|c t IH]; intros b; cbn [sub_runs]; [reflexivity|]. destruct (is_sep c) eqn:E; [destruct b|].
  - apply IH.
  - cbn [sub_runs]. change (is_sep 45) with true. cbn iota. now rewrite IH.
  - cbn [sub_runs]. now rewrite E, IH.
Qed.
(* re.sub(r"[-_.]+", "_", s) *)
Fixpoint esc (in_run : bool) (s : str) : str :=
  match s with
  | [] => []
  | c :: t => if is_sep c then (if in_run then esc true t else 95 :: esc true t) else c :: esc false t
  end.
Lemma esc_sub_runs s : forall b, esc b s = map dash_us (sub_runs b s).
Proof.
  induction s as [|c t IH]; intros b; cbn [esc sub_runs]; [reflexivity|]. destruct (is_sep c) eqn:E; [destruct b|]; cbn [map]; rewrite IH; auto.
  f_equal. unfold dash_us. destruct (c =? 45) eqn:E2; [|reflexivity]. apply N.eqb_eq in E2. subst c. discriminate.
Qed.
Theorem canon_full_esc s : canon_full (esc false s) = canon_full s.
Proof. unfold canon_full. now rewrite esc_sub_runs, sub_runs_map_dash_us, sub_runs_idem. Qed.
Theorem canon_full_lower_esc s : canon_full (lower_full (esc false s)) = canon_full s.
Proof.
  rewrite esc_sub_runs, lower_full_dash_us by apply sub_runs_chars. fold (canon_full s).
  unfold canon_full at 1. rewrite sub_runs_map_dash_us. fold (canon_full (canon_full s)). apply canon_full_idempotent.
Qed.

(* closed check: the sub-then-lower order matters for U+03A3 before '.', and the escaped spelling still decodes to the same name *)
Definition lower_full_check : bool :=
  str_eqb (canon_full (lower_full (esc false [97; 931; 46; 98]))) (canon_full [97; 931; 46; 98])
  && negb (str_eqb (canon_full (lower_full [97; 931; 46; 98])) (canon_full [97; 931; 46; 98]))
  && str_eqb (lower_full (map upper_a [97; 931; 98; 233])) [97; 963; 98; 233].
Example lower_full_check_ok : lower_full_check = true. Proof. vm_compute. reflexivity. Qed.
