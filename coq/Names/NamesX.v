(* Exact model of str.lower() and of packaging.utils.canonicalize_name on EVERY string of code points (C13, C14).
   Executable definitions only.
     lower_x c        chr(c).lower(): ASCII by formula, every other code point through the generated table Gen/LowerTable.lower_table
                      (all 1407 non-ASCII code points the interpreter's str.lower() changes; re-validated per code point on every run)
     lower_full s     s.lower(): lower_x code point by code point, except U+03A3 GREEK CAPITAL LETTER SIGMA, which CPython lower-cases
                      to U+03C2 (final sigma) when it is preceded by a cased letter and not followed by one - case-ignorable code
                      points skipped on both sides (unicodeobject.c handle_capital_sigma) - and to U+03C3 otherwise
     canon_full s     canonicalize_name(s) = _canonicalize_regex.sub("-", s).lower()
   Names.canon_name (VMeaning.py_lower: ASCII + U+0130 + U+212A) is the restriction used by the marker / requirement models;
   NamesLowerLaws.canon_full_agree states where the two coincide. *)
From Coq Require Import List NArith Bool.
Import ListNotations.
Require Import VParse VMeaning Names LowerTable.
Open Scope N_scope.

Fixpoint in_ranges (c : N) (l : list (N * N)) : bool :=
  match l with [] => false | p :: t => ((fst p <=? c) && (c <=? snd p)) || in_ranges c t end.

(* chr(c).lower() *)
Definition lower_x (c : char) : str :=
  if c <? 128 then (if is_upper c then [c + 32] else [c])
  else match find (fun p => fst p =? c) lower_table with Some p => snd p | None => [c] end.
Definition py_lower_x (s : str) : str := flat_map lower_x s.

(* the two character classes the Final_Sigma rule reads *)
Definition sig_ign (c : char) : bool := in_ranges c sig_ign_ranges.          (* Case_Ignorable *)
Definition sig_cased (c : char) : bool := in_ranges c sig_cased_ranges.      (* Cased and not Case_Ignorable *)
(* skipping case-ignorable code points: is the next code point a cased one? *)
Fixpoint next_cased (s : str) : bool :=
  match s with [] => false | c :: t => if sig_ign c then next_cased t else sig_cased c end.
Definition final_sigma (before_rev after : str) : bool := next_cased before_rev && negb (next_cased after).
(* the lower-casing of c with before_rev (nearest first) to its left and after to its right *)
Definition lower_at (before_rev after : str) (c : char) : str :=
  if c =? 931 then [if final_sigma before_rev after then 962 else 963] else lower_x c.
Fixpoint lower_go (before_rev s : str) : str :=
  match s with [] => [] | c :: t => lower_at before_rev t c ++ lower_go (c :: before_rev) t end.
Definition lower_full (s : str) : str := lower_go [] s.                       (* s.lower() *)

Definition canon_full (s : str) : str := lower_full (sub_runs false s).       (* canonicalize_name(s) *)
Definition canonicalize_name_x (validate : bool) (s : str) : nres :=
  if validate && negb (valid_name s) then NInvalidName else NOk (canon_full s).
