(* ASCII core of the name laws (ported from the round-0 spike): on strings over [A-Za-z0-9._-] str.lower() is one character per
   character, and the fixed points of canonicalize_name are characterised exactly. *)
From Coq Require Import List Arith NArith Bool Lia.
Import ListNotations.
Require Import VParse VMeaning Names.
Open Scope N_scope.
Arguments N.eqb : simpl never.
Arguments N.leb : simpl never.

Definition lower_a (c : char) : char := if is_upper c then c + 32 else c.  (* ASCII part of str.lower *)

(* canonicalize_name: re.sub(r"[-_.]+", "-", name).lower() *)
Fixpoint collapse_a (in_run : bool) (s : str) : str :=
  match s with
  | [] => []
  | c :: t => if is_sep c then (if in_run then collapse_a true t else 45 :: collapse_a true t)
              else lower_a c :: collapse_a false t
  end.
Definition canon_a (s : str) : str := collapse_a false s.

(* _validate_regex (after the fix: \Z and re.ASCII):  ^([A-Z0-9]|[A-Z0-9][A-Z0-9._-]*[A-Z0-9])\Z, IGNORECASE *)
Definition valid_a (s : str) : bool :=
  match s with
  | [] => false
  | c :: t => is_alnum c && forallb (fun x => is_alnum x || is_sep x) t && is_alnum (last s 0)
  end.
(* _normalized_regex (after the fix):  ^(?!.*--)([a-z0-9]|[a-z0-9][a-z0-9-]*[a-z0-9])\Z *)
Fixpoint has_dd (s : str) : bool :=
  match s with c :: ((d :: _) as t) => ((c =? 45) && (d =? 45)) || has_dd t | _ => false end.
Definition normalized_a (s : str) : bool :=
  match s with
  | [] => false
  | c :: t => negb (has_dd s) && is_la c && forallb (fun x => is_la x || (x =? 45)) t && is_la (last s 0)
  end.

Lemma has_dd_cons c d t : has_dd (c :: d :: t) = ((c =? 45) && (d =? 45)) || has_dd (d :: t).
Proof. reflexivity. Qed.
(* ---- characterisation of the fixed points of canon_a ---- *)
Definition fix_char (c : char) : bool := negb (is_upper c) && negb ((c =? 46) || (c =? 95)).
Lemma lower_id c : lower_a c = c <-> is_upper c = false.
Proof.
  unfold lower_a. destruct (is_upper c) eqn:E; split; auto; try discriminate. intros H. exfalso.
  unfold is_upper in E. apply andb_prop in E as [H1 H2]. apply N.leb_le in H1, H2. lia.
Qed.
Lemma sep_cases c : is_sep c = true -> c = 45 \/ c = 46 \/ c = 95.
Proof. unfold is_sep. intros H. apply orb_prop in H as [H|H]; [apply orb_prop in H as [H|H]|]; apply N.eqb_eq in H; auto. Qed.
Lemma collapse_len b s : (length (collapse_a b s) <= length s)%nat.
Proof. revert b; induction s as [|c t IH]; intros b; simpl; auto. destruct (is_sep c), b; simpl; try apply le_n_S; auto. Qed.
Lemma collapse_true_sep c t : is_sep c = true -> collapse_a true (c :: t) <> c :: t.
Proof.
  intros H E. simpl in E. rewrite H in E. pose proof (collapse_len true t) as L. rewrite E in L. simpl in L. lia.
Qed.

Lemma collapse_fix s : forall b, collapse_a b s = s <->
  (forallb fix_char s = true /\ has_dd s = false /\ (b = true -> match s with c :: _ => is_sep c = false | [] => True end)).
Proof.
  induction s as [|c t IH]; intros b.
  - simpl. intuition.
  - cbn [collapse_a]. destruct (is_sep c) eqn:Es.
    + destruct b.
      * split; [intros E; exfalso; apply (collapse_true_sep c t Es); simpl; now rewrite Es | intros (_ & _ & H); specialize (H eq_refl); simpl in H; congruence].
      * split.
        -- intros E. injection E as Ec Et. subst c. apply IH in Et as (F & D & S). specialize (S eq_refl).
           repeat split; try discriminate.
           ++ simpl. rewrite F. reflexivity.
           ++ destruct t as [|d t']; auto. rewrite has_dd_cons, D.
              destruct (d =? 45) eqn:E45; auto. apply N.eqb_eq in E45. subst d. discriminate.
        -- intros (F & D & _). cbn [forallb] in F. apply andb_prop in F as [Fc Ft].
           assert (c = 45). { apply sep_cases in Es as [->|[->| ->]]; auto; discriminate. } subst c.
           f_equal. apply IH. repeat split; auto.
           ++ destruct t as [|d t']; auto. rewrite has_dd_cons in D. apply orb_false_elim in D as [_ D]. exact D.
           ++ intros _. destruct t as [|d t']; auto. rewrite has_dd_cons in D. apply orb_false_elim in D as [D _].
              destruct (is_sep d) eqn:Ed; auto. cbn [forallb] in Ft. apply andb_prop in Ft as [Fd _].
              apply sep_cases in Ed as [->|[->| ->]]; discriminate.
    + split.
      * intros E. injection E as Ec Et. apply lower_id in Ec. apply IH in Et as (F & D & _).
        repeat split; auto.
        -- cbn [forallb]. rewrite F, andb_true_r. unfold fix_char. rewrite Ec. cbn [negb andb].
           unfold is_sep in Es. apply orb_false_elim in Es as [Es E95]. apply orb_false_elim in Es as [_ E46]. now rewrite E46, E95.
        -- destruct t as [|d t']; auto. rewrite has_dd_cons, D.
           unfold is_sep in Es. apply orb_false_elim in Es as [Es _]. apply orb_false_elim in Es as [E45 _]. now rewrite E45.
      * intros (F & D & _). cbn [forallb] in F. apply andb_prop in F as [Fc Ft].
        unfold fix_char in Fc. apply andb_prop in Fc as [Fu _]. apply negb_true_iff in Fu.
        f_equal; [now apply lower_id|]. apply IH. repeat split; auto; try discriminate.
        destruct t as [|d t']; auto. rewrite has_dd_cons in D. apply orb_false_elim in D as [_ D]. exact D.
Qed.

Lemma la_alnum c : is_la c = true -> is_alnum c = true.
Proof. unfold is_la, is_alnum. intros ->. reflexivity. Qed.
Lemma la_fix c : is_la c = true -> fix_char c = true.
Proof.
  unfold is_la, fix_char, is_digit, is_lower, is_upper. intros H.
  apply orb_prop in H as [H|H]; apply andb_prop in H as [H1 H2]; apply N.leb_le in H1, H2.
  - rewrite (proj2 (N.leb_gt 65 c)) by lia. cbn. rewrite !(proj2 (N.eqb_neq _ _)) by lia. reflexivity.
  - rewrite (proj2 (N.leb_gt c 90)) by lia. rewrite andb_false_r. cbn. rewrite !(proj2 (N.eqb_neq _ _)) by lia. reflexivity.
Qed.
Lemma alnum_fix_la c : is_alnum c = true -> fix_char c = true -> is_la c = true.
Proof.
  unfold is_alnum, is_la, fix_char. intros H F. apply andb_prop in F as [F _]. apply negb_true_iff in F.
  rewrite F in H. now rewrite orb_false_r in H.
Qed.
Lemma sep_fix_dash c : is_sep c = true -> fix_char c = true -> (c =? 45) = true.
Proof.
  intros H F. apply sep_cases in H as [->|[->| ->]]; auto; discriminate.
Qed.
Lemma last_in (s : str) d : s <> [] -> In (last s d) s.
Proof.
  induction s as [|c t IH]; [congruence|]. intros _. destruct t as [|c' t']; [left; reflexivity|].
  right. apply IH. discriminate.
Qed.

Theorem normalized_a_iff s :
  normalized_a s = true <-> valid_a s = true /\ canon_a s = s.
Proof.
  unfold canon_a. rewrite collapse_fix. destruct s as [|c t]; [simpl; intuition discriminate|].
  unfold normalized_a, valid_a. split.
  - intros H. apply andb_prop in H as [H Hl]. apply andb_prop in H as [H Ht]. apply andb_prop in H as [Hd Hc].
    apply negb_true_iff in Hd. rewrite forallb_forall in Ht. repeat split; auto; try discriminate.
    + rewrite (la_alnum _ Hc), (la_alnum _ Hl). rewrite andb_true_r. cbn [andb]. apply forallb_forall.
      intros x Hx. specialize (Ht x Hx). apply orb_prop in Ht as [Ht|Ht]; [now rewrite la_alnum|].
      apply N.eqb_eq in Ht. subst x. reflexivity.
    + cbn [forallb]. rewrite (la_fix _ Hc). apply forallb_forall. intros x Hx. specialize (Ht x Hx).
      apply orb_prop in Ht as [Ht|Ht]; [now apply la_fix|]. apply N.eqb_eq in Ht. subst x. reflexivity.
  - intros (V & F & D & _). apply andb_prop in V as [V Vl]. apply andb_prop in V as [Vc Vt].
    cbn [forallb] in F. apply andb_prop in F as [Fc Ft]. rewrite forallb_forall in Vt, Ft.
    rewrite D. cbn [negb andb]. rewrite (alnum_fix_la _ Vc Fc). cbn [andb].
    assert (Fl : fix_char (last (c :: t) 0) = true).
    { pose proof (last_in (c :: t) 0 ltac:(discriminate)) as [<-|I]; auto. }
    rewrite (alnum_fix_la _ Vl Fl), andb_true_r. apply forallb_forall. intros x Hx.
    specialize (Vt x Hx). specialize (Ft x Hx). apply orb_prop in Vt as [Vt|Vt].
    + now rewrite alnum_fix_la.
    + rewrite (sep_fix_dash _ Vt Ft). apply orb_true_r.
Qed.
Print Assumptions normalized_a_iff.
(* non-vacuity *)
Example ex_norm : normalized_a [102;111;111;45;98;97;114] = true /\ normalized_a [97;45;45;98] = false /\ normalized_a [97;10] = false.
Proof. repeat split. Qed.

(* ---- idempotence: the output of canon_a is a fixed point ---- *)
Lemma lower_fix c : is_sep c = false -> fix_char (lower_a c) = true.
Proof.
  intros Hs. unfold fix_char, lower_a. unfold is_sep in Hs. apply orb_false_elim in Hs as [Hs H95]. apply orb_false_elim in Hs as [H45 H46].
  destruct (is_upper c) eqn:U.
  - unfold is_upper in *. apply andb_prop in U as [U1 U2]. apply N.leb_le in U1, U2.
    rewrite (proj2 (N.leb_gt (c + 32) 90)) by lia. rewrite andb_false_r. cbn [negb andb].
    rewrite !(proj2 (N.eqb_neq _ _)) by lia. reflexivity.
  - rewrite U. cbn [negb andb]. now rewrite H46, H95.
Qed.
Lemma lower_not_sep c : is_sep c = false -> is_sep (lower_a c) = false.
Proof.
  intros Hs. unfold lower_a. destruct (is_upper c) eqn:U; auto.
  unfold is_upper in U. apply andb_prop in U as [U1 U2]. apply N.leb_le in U1, U2. unfold is_sep.
  rewrite !(proj2 (N.eqb_neq _ _)) by lia. reflexivity.
Qed.
Lemma collapse_props s : forall b,
  forallb fix_char (collapse_a b s) = true /\ has_dd (collapse_a b s) = false /\
  (b = true -> match collapse_a b s with c :: _ => (c =? 45) = false | [] => True end).
Proof.
  induction s as [|c t IH]; intros b; cbn [collapse_a]; [repeat split; auto|].
  destruct (is_sep c) eqn:Es.
  - destruct b.
    + apply IH.
    + destruct (IH true) as (F & D & H). specialize (H eq_refl). repeat split; try discriminate.
      * cbn [forallb]. now rewrite F.
      * destruct (collapse_a true t) as [|d r] eqn:E; auto. rewrite has_dd_cons, D, H. reflexivity.
  - destruct (IH false) as (F & D & _). repeat split.
    + cbn [forallb]. now rewrite F, lower_fix.
    + destruct (collapse_a false t) as [|d r] eqn:E; auto. rewrite has_dd_cons, D.
      pose proof (lower_not_sep c Es) as L. unfold is_sep in L. apply orb_false_elim in L as [L _]. apply orb_false_elim in L as [L _]. now rewrite L.
    + intros _. pose proof (lower_not_sep c Es) as L. unfold is_sep in L. apply orb_false_elim in L as [L _]. apply orb_false_elim in L as [L _]. exact L.
Qed.
Theorem canon_a_idempotent s : canon_a (canon_a s) = canon_a s.
Proof.
  unfold canon_a. apply collapse_fix. destruct (collapse_props s false) as (F & D & _). repeat split; auto. discriminate.
Qed.
Print Assumptions canon_a_idempotent.
