(* The laws of canonicalize_name (C13) for ANY per-code-point lower-casing table lowc : char -> str that satisfies the three facts
   the proofs use:
     lowc_nonnil   no code point lower-cases to the empty string
     lowc_low      a code point outside [-_.] lower-cases to code points outside [-_.] that lower-casing leaves fixed
     lowc_cls      on [A-Za-z0-9._-] lower-casing is the ASCII one
   Instances: VMeaning.py_lower_c (the restricted table, NamesLaws) and NamesX.lower_x (the interpreter's full table, NamesLowerLaws);
   the three facts are re-validated for every code point of the running interpreter by the law case law.n.lowertable.
   Also here: the folding as a relation over an arbitrary admissible image (so that the context-dependent image of U+03A3 is covered):
   whatever image is chosen, the result is a fixed point of the canonical form. *)
From Coq Require Import List Arith NArith Bool Lia.
Import ListNotations.
Require Import VParse VTop VComplete VMeaning Names NamesSpec NamesAscii NamesLaws.
Open Scope N_scope.
Arguments N.eqb : simpl never.
Arguments N.leb : simpl never.

(* "every maximal run of [-_.] becomes one '-', every other code point c becomes an image l with img c l" *)
Inductive folds_r (img : char -> str -> Prop) : str -> str -> Prop :=
| FR_nil : folds_r img [] []
| FR_chr c l t o : is_sep c = false -> img c l -> folds_r img t o -> folds_r img (c :: t) (l ++ o)
| FR_run r t o : r <> [] -> forallb is_sep r = true -> hd_is is_sep t = false -> folds_r img t o -> folds_r img (r ++ t) (45 :: o).

(* a lower-casing pass whose image of a code point may depend on what is to its left (reversed) and to its right *)
Fixpoint low_go (f : str -> str -> char -> str) (before_rev s : str) : str :=
  match s with [] => [] | c :: t => f before_rev t c ++ low_go f (c :: before_rev) t end.

Lemma sep_is_cls c : is_sep c = true -> is_cls c = true.
Proof. unfold is_cls. intros ->. apply orb_true_r. Qed.
Lemma sep_lower_a c : is_sep c = true -> lower_a c = c.
Proof. intros H. apply NamesLaws.sep_cases in H as [->|[->| ->]]; reflexivity. Qed.
Lemma span_sep_tail t r t' : span is_sep t = (r, t') -> hd_is is_sep t' = false.
Proof.
  revert r t'. induction t as [|x t IH]; intros r t'; cbn [span].
  - intros [= <- <-]. reflexivity.
  - destruct (is_sep x) eqn:Ex.
    + destruct (span is_sep t) as [a b] eqn:S2. intros [= <- <-]. now apply (IH a b).
    + intros [= <- <-]. cbn [hd_is]. exact Ex.
Qed.
Lemma sub_runs_seps r : forallb is_sep r = true -> forall t, sub_runs true (r ++ t) = sub_runs true t.
Proof. induction r as [|c r IH]; intros H t; cbn [app sub_runs forallb] in *; auto. apply andb_prop in H as [Hc Hr]. rewrite Hc. now apply IH. Qed.
Lemma sub_runs_nosep_hd b t : hd_is is_sep t = false -> sub_runs b t = sub_runs false t.
Proof. destruct t as [|c t]; cbn [hd_is sub_runs]; auto. intros ->. reflexivity. Qed.

(* totality, for any context-dependent choice f of admissible images that maps '-' to '-' *)
Lemma folds_r_total_len (img : char -> str -> Prop) (f : str -> str -> char -> str) :
  (forall br t c, is_sep c = false -> img c (f br t c)) -> (forall br t, f br t 45 = [45]) ->
  forall n s br, (length s <= n)%nat -> folds_r img s (low_go f br (sub_runs false s)).
Proof.
  intros Himg Hdash. induction n as [|n IH]; intros s br L.
  - destruct s; [constructor|cbn in L; lia].
  - destruct s as [|c t]; [constructor|]. cbn [length] in L. cbn [sub_runs]. destruct (is_sep c) eqn:Ec.
    + destruct (span is_sep t) as [r t'] eqn:Sp. pose proof (span_sound _ _ _ _ Sp) as [Et Hr]. pose proof (span_sep_tail _ _ _ Sp) as Ht'.
      subst t. rewrite sub_runs_seps by assumption. rewrite sub_runs_nosep_hd by assumption.
      cbn [low_go]. rewrite Hdash. cbn [app].
      change (c :: r ++ t') with ((c :: r) ++ t'). apply FR_run; auto; [discriminate|cbn [forallb]; now rewrite Ec|].
      apply IH. rewrite app_length in L. lia.
    + cbn [low_go]. apply FR_chr; auto. apply IH. lia.
Qed.

Section Lower.
Set Default Proof Using "All".
Variable lowc : char -> str.
Hypothesis lowc_nonnil : forall c, lowc c <> [].
Hypothesis lowc_low : forall c, is_sep c = false -> Forall (fun d => is_sep d = false /\ lowc d = [d]) (lowc c).
Hypothesis lowc_cls : forall c, is_cls c = true -> lowc c = [lower_a c].

Definition low_ok_g (d : char) : Prop := is_sep d = false /\ lowc d = [d].
Definition lower_g (s : str) : str := flat_map lowc s.
Definition canon_g (s : str) : str := lower_g (sub_runs false s).          (* re.sub(r"[-_.]+", "-", s).lower() *)

Lemma lowc_sep c : is_sep c = true -> lowc c = [c].
Proof. intros H. rewrite (lowc_cls c (sep_is_cls c H)). now rewrite sep_lower_a. Qed.

(* ---------------- canonicalize_name as one pass ---------------- *)
Fixpoint collapse_g (in_run : bool) (s : str) : str :=
  match s with
  | [] => []
  | c :: t => if is_sep c then (if in_run then collapse_g true t else 45 :: collapse_g true t)
              else lowc c ++ collapse_g false t
  end.
Lemma lower_g_app a b : lower_g (a ++ b) = lower_g a ++ lower_g b.
Proof. apply flat_map_app. Qed.
Lemma lower_collapse_g b s : lower_g (sub_runs b s) = collapse_g b s.
Proof.
  revert b. induction s as [|c t IH]; intros b; cbn [sub_runs collapse_g]; [reflexivity|].
  destruct (is_sep c); [destruct b|].
  - apply IH.
  - change (45 :: sub_runs true t) with ([45] ++ sub_runs true t). rewrite lower_g_app, IH. cbn [lower_g flat_map].
    rewrite (lowc_sep 45 eq_refl). reflexivity.
  - change (c :: sub_runs false t) with ([c] ++ sub_runs false t). rewrite lower_g_app, IH. cbn [lower_g flat_map]. now rewrite app_nil_r.
Qed.
Lemma canon_collapse_g s : canon_g s = collapse_g false s.
Proof. apply lower_collapse_g. Qed.

Lemma collapse_g_app a : forall b w, collapse_g b (a ++ w) = collapse_g b a ++ collapse_g (st_after b a) w.
Proof.
  induction a as [|c a IH]; intros b w; cbn [app collapse_g st_after fold_left]; [reflexivity|].
  fold (st_after (is_sep c) a). destruct (is_sep c) eqn:E; [destruct b|]; rewrite IH; cbn [app]; try reflexivity.
  now rewrite app_assoc.
Qed.
Lemma collapse_g_seps r : forallb is_sep r = true -> forall t, collapse_g true (r ++ t) = collapse_g true t.
Proof. induction r as [|c r IH]; intros H t; cbn [app collapse_g forallb] in *; auto. apply andb_prop in H as [Hc Hr]. rewrite Hc. now apply IH. Qed.
Lemma collapse_g_nosep_hd b t : hd_is is_sep t = false -> collapse_g b t = collapse_g false t.
Proof. destruct t as [|c t]; cbn [hd_is collapse_g]; auto. intros ->. reflexivity. Qed.
Lemma collapse_g_low s : Forall low_ok_g s -> forall b, collapse_g b s = s /\ (s <> [] -> st_after b s = false).
Proof.
  induction 1 as [|c s [Hs Hl] _ IH]; intros b; [split; [reflexivity|congruence]|].
  cbn [collapse_g st_after fold_left]. rewrite Hs, Hl. fold (st_after false s). destruct (IH false) as [E1 E2]. rewrite E1. split; [reflexivity|].
  intros _. destruct s; [reflexivity|]. apply E2. discriminate.
Qed.
(* an admissible image: not empty, made of code points outside [-_.] that lower-casing leaves fixed *)
Lemma collapse_g_image l st w : l <> [] -> Forall low_ok_g l -> collapse_g st (l ++ w) = l ++ collapse_g false w.
Proof. intros NE F. rewrite collapse_g_app. destruct (collapse_g_low l F st) as [E1 E2]. now rewrite E1, E2. Qed.
Lemma collapse_g_lowered c st w : is_sep c = false -> collapse_g st (lowc c ++ w) = lowc c ++ collapse_g false w.
Proof. intros Hc. apply collapse_g_image; [apply lowc_nonnil|now apply lowc_low]. Qed.

(* ---------------- 1. the folding of the statement ---------------- *)
Definition folds_g : str -> str -> Prop := folds_r (fun c l => l = lowc c).
Lemma folds_g_sound s o : folds_g s o -> collapse_g false s = o.
Proof.
  induction 1 as [|c l t o Hc -> _ IH|r t o Hr Hs Ht _ IH]; [reflexivity| |].
  - cbn [collapse_g]. now rewrite Hc, IH.
  - destruct r as [|c r]; [congruence|]. cbn [forallb] in Hs. apply andb_prop in Hs as [Hc Hs]. cbn [app collapse_g]. rewrite Hc.
    rewrite collapse_g_seps by assumption. rewrite collapse_g_nosep_hd by assumption. now rewrite IH.
Qed.
Lemma low_go_const s : forall br, low_go (fun _ _ c => lowc c) br s = lower_g s.
Proof. induction s as [|c t IH]; intros br; [reflexivity|]. cbn [low_go lower_g flat_map]. now rewrite IH. Qed.
Theorem canon_g_is_fold s o : folds_g s o <-> canon_g s = o.
Proof.
  split; [rewrite canon_collapse_g; apply folds_g_sound|]. intros <-. unfold canon_g. rewrite <- (low_go_const _ []).
  apply (folds_r_total_len _ (fun _ _ c => lowc c)) with (n := length s); auto. intros _ _. now apply lowc_sep.
Qed.

(* ---------------- 2. every result of the folding is a fixed point; idempotence ---------------- *)
Theorem folds_r_fixed (img : char -> str -> Prop) : (forall c l, is_sep c = false -> img c l -> l <> [] /\ Forall low_ok_g l) ->
  forall s o, folds_r img s o -> canon_g o = o.
Proof.
  intros Himg s o H. rewrite canon_collapse_g.
  enough (G : collapse_g false o = o /\ (hd_is is_sep s = false -> collapse_g true o = o)) by apply G.
  induction H as [|c l t o Hc Hi _ [IH _]|r t o Hr Hs Ht _ [_ IH]].
  - split; reflexivity.
  - destruct (Himg c l Hc Hi) as [NE F]. rewrite !collapse_g_image by assumption. rewrite IH. split; reflexivity.
  - split.
    + cbn [collapse_g]. change (is_sep 45) with true. cbn iota. now rewrite IH.
    + destruct r as [|x r]; [congruence|]. cbn [forallb] in Hs. apply andb_prop in Hs as [Hx _]. cbn [app hd_is]. congruence.
Qed.
Lemma folds_r_chars (img : char -> str -> Prop) : (forall c l, is_sep c = false -> img c l -> l <> [] /\ Forall low_ok_g l) ->
  forall s o, folds_r img s o -> Forall (fun d => d = 45 \/ low_ok_g d) o.
Proof.
  intros Himg s o H. induction H as [|c l t o Hc Hi _ IH|r t o _ _ _ _ IH]; [constructor| |constructor; auto].
  apply Forall_app. split; [|exact IH]. destruct (Himg c l Hc Hi) as [_ F]. eapply Forall_impl; [|exact F]. auto.
Qed.
Lemma img_g_ok c l : is_sep c = false -> l = lowc c -> l <> [] /\ Forall low_ok_g l.
Proof. intros Hc ->. split; [apply lowc_nonnil|now apply lowc_low]. Qed.
Theorem canon_g_idempotent s : canon_g (canon_g s) = canon_g s.
Proof. apply (folds_r_fixed _ img_g_ok s). now apply canon_g_is_fold. Qed.

(* ---------------- 3. same canonical form <-> equal after folding ---------------- *)
Inductive same_fold_g : str -> str -> Prop :=
| SG_refl a : same_fold_g a a
| SG_sym a b : same_fold_g a b -> same_fold_g b a
| SG_trans a b c : same_fold_g a b -> same_fold_g b c -> same_fold_g a c
| SG_ctx u a b w : same_fold_g a b -> same_fold_g (u ++ a ++ w) (u ++ b ++ w)
| SG_sep c d : is_sep c = true -> is_sep d = true -> same_fold_g [c] [d]
| SG_run c d : is_sep c = true -> is_sep d = true -> same_fold_g [c; d] [c]
| SG_case c : same_fold_g [c] (lowc c).

Lemma sg_cons x a b : same_fold_g a b -> same_fold_g (x :: a) (x :: b).
Proof. intros H. pose proof (SG_ctx [x] a b [] H) as C. now rewrite !app_nil_r in C. Qed.
Lemma sg_app_l u a b : same_fold_g a b -> same_fold_g (u ++ a) (u ++ b).
Proof. intros H. pose proof (SG_ctx u a b [] H) as C. now rewrite !app_nil_r in C. Qed.
Lemma sg_app_r a b w : same_fold_g a b -> same_fold_g (a ++ w) (b ++ w).
Proof. intros H. exact (SG_ctx [] a b w H). Qed.
Lemma sg_sound a b : same_fold_g a b -> forall st, collapse_g st a = collapse_g st b /\ st_after st a = st_after st b.
Proof.
  induction 1 as [a|a b _ IH|a b c _ IH1 _ IH2|u a b w _ IH|c d Hc Hd|c d Hc Hd|c]; intros st.
  - split; reflexivity.
  - destruct (IH st). split; congruence.
  - destruct (IH1 st), (IH2 st). split; congruence.
  - rewrite !collapse_g_app, !st_after_app. destruct (IH (st_after st u)) as [E1 E2]. rewrite E1, E2. split; reflexivity.
  - cbn [collapse_g st_after fold_left]. rewrite Hc, Hd. split; reflexivity.
  - cbn [collapse_g st_after fold_left]. rewrite Hc, Hd. split; [destruct st|]; reflexivity.
  - destruct (is_sep c) eqn:Ec.
    + rewrite (lowc_sep c Ec). split; reflexivity.
    + destruct (collapse_g_low _ (lowc_low c Ec) st) as [E1 E2]. rewrite E1, E2 by apply lowc_nonnil.
      cbn [collapse_g st_after fold_left]. rewrite Ec, app_nil_r. split; reflexivity.
Qed.
Lemma sg_collapse t : (forall x, is_sep x = true -> same_fold_g (x :: t) (45 :: collapse_g true t)) /\ same_fold_g t (collapse_g false t).
Proof.
  induction t as [|c t [IHp IHq]]; cbn [collapse_g].
  - split; [|constructor]. intros x Hx. now apply SG_sep.
  - destruct (is_sep c) eqn:Ec.
    + split.
      * intros x Hx. eapply SG_trans; [|apply (IHp x Hx)]. exact (sg_app_r [x; c] [x] t (SG_run x c Hx Ec)).
      * now apply IHp.
    + assert (Q : same_fold_g (c :: t) (lowc c ++ collapse_g false t)).
      { eapply SG_trans; [exact (sg_app_r [c] (lowc c) t (SG_case c))|]. now apply sg_app_l. }
      split; [|exact Q]. intros x Hx.
      eapply SG_trans; [exact (sg_app_r [x] [45] (c :: t) (SG_sep x 45 Hx eq_refl))|]. now apply sg_cons.
Qed.
Theorem canon_g_eq_iff_same_fold a b : canon_g a = canon_g b <-> same_fold_g a b.
Proof.
  rewrite !canon_collapse_g. split.
  - intros E. eapply SG_trans; [apply (sg_collapse a)|]. rewrite E. apply SG_sym, (sg_collapse b).
  - intros H. apply (sg_sound a b H false).
Qed.

(* ---------------- 5./6. on [A-Za-z0-9._-] the table is the ASCII one: the validity / fixed-point clauses ---------------- *)
Lemma collapse_g_ascii s : forallb is_cls s = true -> forall b, collapse_g b s = collapse_a b s.
Proof.
  induction s as [|c t IH]; intros H b; cbn [forallb collapse_g collapse_a] in *; [reflexivity|]. apply andb_prop in H as [Hc Ht].
  destruct (is_sep c); [destruct b|]; rewrite IH by assumption; try reflexivity. now rewrite lowc_cls.
Qed.
Lemma canon_g_cls s : forallb is_cls s = true -> canon_g s = canon_name s.
Proof. intros H. now rewrite canon_collapse_g, canon_collapse, collapse_g_ascii, collapse_ascii. Qed.
Theorem is_normalized_iff_g s : is_normalized s = true <-> valid_name s = true /\ canon_g s = s.
Proof.
  rewrite is_normalized_iff. split; intros [V E]; (split; [exact V|]); pose proof (valid_cls s V) as C; [rewrite canon_g_cls|rewrite <- canon_g_cls]; auto.
Qed.
Theorem canon_valid_normalized_g s : valid_name s = true -> is_normalized (canon_g s) = true.
Proof. intros V. rewrite canon_g_cls by now apply valid_cls. now apply canon_valid_normalized. Qed.

(* ---------------- shape of the canonical form: no upper-case ASCII letter, no '.', no '_', no "--" ---------------- *)
Lemma low_ok_shape d : low_ok_g d -> is_upper d = false /\ (d =? 46) = false /\ (d =? 95) = false /\ (d =? 45) = false.
Proof.
  intros [Hs Hl]. assert (U : is_upper d = false).
  { destruct (is_upper d) eqn:U; [|reflexivity]. exfalso.
    assert (C : is_cls d = true) by (unfold is_cls, is_alnum; rewrite U; now rewrite !orb_true_r).
    rewrite (lowc_cls d C) in Hl. unfold lower_a in Hl. rewrite U in Hl. injection Hl as Hl. lia. }
  unfold is_sep in Hs. apply orb_false_elim in Hs as [Hs H95]. apply orb_false_elim in Hs as [H45 H46]. auto.
Qed.
Lemma canon_g_shape s : forall b, Forall (fun c => is_upper c = false /\ (c =? 46) = false /\ (c =? 95) = false) (collapse_g b s) /\ has_dd (collapse_g b s) = false
   /\ (b = true -> hd_is (N.eqb 45) (collapse_g b s) = false).
Proof.
  induction s as [|c t IH]; intros b; cbn [collapse_g]; [repeat split; auto|].
  destruct (is_sep c) eqn:Ec; [destruct b|].
  - apply IH.
  - destruct (IH true) as (F & D & H). specialize (H eq_refl). repeat split; [constructor; auto| |discriminate].
    destruct (collapse_g true t) as [|d r]; [reflexivity|]. rewrite has_dd_cons, D. cbn [hd_is] in H. rewrite (N.eqb_sym d 45), H. now rewrite andb_false_r.
  - destruct (IH false) as (F & D & _). pose proof (lowc_low c Ec) as LOW. pose proof (lowc_nonnil c) as NN.
    assert (G : forall l, Forall low_ok_g l ->
       Forall (fun c => is_upper c = false /\ (c =? 46) = false /\ (c =? 95) = false) (l ++ collapse_g false t) /\
       has_dd (l ++ collapse_g false t) = false /\ (l <> [] -> hd_is (N.eqb 45) (l ++ collapse_g false t) = false)).
    { induction 1 as [|x l Hx _ IHl]; cbn [app]; [repeat split; auto; congruence|]. destruct IHl as (F' & D' & _).
      destruct (low_ok_shape x Hx) as (A & B & C & E).
      repeat split; [constructor; auto| |intros _; cbn [hd_is]; now rewrite N.eqb_sym].
      destruct (l ++ collapse_g false t); [reflexivity|]. now rewrite has_dd_cons, D', E. }
    destruct (G _ LOW) as (G1 & G2 & G3). repeat split; auto.
Qed.
End Lower.
