(* A small backtracking regular-expression matcher for the fragment the name patterns of packaging.utils use (character class,
   sequence, alternation, greedy star, \Z, negative look-ahead), and the proof that the hand-written recognisers of Names.v
   (valid_name, is_normalized) are exactly what it computes on the transcribed patterns:
     _validate_regex   = ^([A-Z0-9]|[A-Z0-9][A-Z0-9._-]*[A-Z0-9])\Z        re.IGNORECASE | re.ASCII,  used with .match
     _normalized_regex = ^(?!.*--)([a-z0-9]|[a-z0-9][a-z0-9-]*[a-z0-9])\Z   no flags,                  used with .match
   pattern.match(s) is not None  <->  some way of matching the pattern at position 0 exists; for that question the order in which a
   backtracking engine tries the alternatives is irrelevant, so re_match is written with boolean "or".  Star guards against empty
   iterations the way every engine does (an iteration must consume input).  What stays trusted: the transcription of the two pattern
   strings into the terms validate_re / normalized_re below (character classes under the flags: IGNORECASE|ASCII makes [A-Z] match
   exactly the ASCII letters; '.' without DOTALL is any code point but newline) and that CPython's re implements this semantics. *)
From Coq Require Import List Arith NArith Bool Lia.
Import ListNotations.
Require Import VParse VMeaning Names.
Open Scope N_scope.
Arguments N.eqb : simpl never.
Arguments N.leb : simpl never.

Inductive re :=
| Eps
| Chr (p : char -> bool)          (* a character class / a literal / '.' *)
| Seq (a b : re)
| Alt (a b : re)
| Star (a : re)                   (* greedy a* *)
| EndZ                            (* \Z *)
| NegLook (a : re).               (* (?!a) *)

(* greedy star of a matcher ma, at most n iterations (n = length + 1 suffices: every iteration must consume input) *)
Definition star_go (ma : str -> (str -> bool) -> bool) (k : str -> bool) : nat -> str -> bool :=
  fix go (n : nat) (s : str) {struct n} : bool :=
    match n with
    | O => k s
    | S n' => ma s (fun s' => Nat.ltb (length s') (length s) && go n' s') || k s
    end.
(* rm r s k: can r match a prefix of s such that the continuation k accepts the rest? *)
Fixpoint rm (r : re) (s : str) (k : str -> bool) {struct r} : bool :=
  match r with
  | Eps => k s
  | Chr p => match s with c :: t => p c && k t | [] => false end
  | Seq a b => rm a s (fun s' => rm b s' k)
  | Alt a b => rm a s k || rm b s k
  | Star a => star_go (rm a) k (S (length s)) s
  | EndZ => match s with [] => k s | _ :: _ => false end
  | NegLook a => negb (rm a s (fun _ => true)) && k s
  end.
Definition re_match (r : re) (s : str) : bool := rm r s (fun _ => true).        (* pattern.match(s) is not None *)

(* ---------------- the two patterns ---------------- *)
Definition cls_alnum_i : re := Chr is_alnum.                                   (* [A-Z0-9] under IGNORECASE | ASCII *)
Definition cls_name_i : re := Chr is_cls.                                      (* [A-Z0-9._-] under IGNORECASE | ASCII *)
Definition validate_re : re :=
  Seq (Alt cls_alnum_i (Seq cls_alnum_i (Seq (Star cls_name_i) cls_alnum_i))) EndZ.
Definition cls_la : re := Chr is_la.                                           (* [a-z0-9] *)
Definition cls_la_dash : re := Chr (fun c => is_la c || (c =? 45)).            (* [a-z0-9-] *)
Definition dot : re := Chr (fun c => negb (c =? 10)).                          (* . *)
Definition lit (x : char) : re := Chr (fun c => c =? x).
Definition normalized_re : re :=
  Seq (NegLook (Seq (Star dot) (Seq (lit 45) (lit 45))))
      (Seq (Alt cls_la (Seq cls_la (Seq (Star cls_la_dash) cls_la))) EndZ).

(* ---------------- star of a character class ---------------- *)
Fixpoint star_chr (p : char -> bool) (s : str) (k : str -> bool) : bool :=
  k s || match s with c :: t => p c && star_chr p t k | [] => false end.
Lemma star_go_chr p k n : forall s, (length s < n)%nat -> star_go (rm (Chr p)) k n s = star_chr p s k.
Proof.
  induction n as [|n IH]; intros s L; [lia|]. destruct s as [|c t]; cbn [star_go rm star_chr]; [now rewrite orb_false_r|].
  cbn [length]. replace (Nat.ltb (length t) (S (length t))) with true by (symmetry; apply Nat.ltb_lt; lia). cbn [andb].
  fold (star_go (rm (Chr p)) k). rewrite IH by (cbn [length] in L; lia). apply orb_comm.
Qed.
Lemma rm_star_chr p s k : rm (Star (Chr p)) s k = star_chr p s k.
Proof. cbn [rm]. apply star_go_chr. lia. Qed.

(* unfolding equations *)
Lemma rm_Seq a b s k : rm (Seq a b) s k = rm a s (fun s' => rm b s' k). Proof. reflexivity. Qed.
Lemma rm_Alt a b s k : rm (Alt a b) s k = rm a s k || rm b s k. Proof. reflexivity. Qed.
Lemma rm_Chr_cons p c t k : rm (Chr p) (c :: t) k = p c && k t. Proof. reflexivity. Qed.
Lemma rm_Chr_nil p k : rm (Chr p) [] k = false. Proof. reflexivity. Qed.
Lemma rm_EndZ_nil k : rm EndZ [] k = k []. Proof. reflexivity. Qed.
Lemma rm_EndZ_cons c t k : rm EndZ (c :: t) k = false. Proof. reflexivity. Qed.
Lemma rm_NegLook a s k : rm (NegLook a) s k = negb (rm a s (fun _ => true)) && k s. Proof. reflexivity. Qed.

(* ---------------- _validate_regex ---------------- *)
Definition k_end : str -> bool := fun s' => rm EndZ s' (fun _ => true).
Lemma star_cls_v_tail t : star_chr is_cls t (fun s' => rm cls_alnum_i s' k_end) = v_tail t.
Proof.
  induction t as [|d t IH]; [reflexivity|]. cbn [star_chr v_tail]. rewrite IH. unfold cls_alnum_i, k_end. rewrite rm_Chr_cons. destruct t as [|e t'].
  - rewrite rm_EndZ_nil. cbn [v_tail]. destruct (is_alnum d), (is_cls d); reflexivity.
  - rewrite rm_EndZ_cons. destruct (is_alnum d), (is_cls d && v_tail (e :: t')); reflexivity.
Qed.
Theorem validate_re_is_valid_name s : re_match validate_re s = valid_name s.
Proof.
  unfold re_match, validate_re. rewrite rm_Seq, rm_Alt. fold k_end. rewrite rm_Seq. destruct s as [|c t]; [reflexivity|].
  unfold cls_alnum_i at 1 2. rewrite !rm_Chr_cons. rewrite rm_Seq. unfold cls_name_i. rewrite rm_star_chr, star_cls_v_tail.
  unfold valid_name, k_end. destruct t as [|d t'].
  - rewrite rm_EndZ_nil. cbn [v_tail]. destruct (is_alnum c); reflexivity.
  - rewrite rm_EndZ_cons. destruct (is_alnum c); reflexivity.
Qed.

(* ---------------- _normalized_regex ---------------- *)
Lemma star_dot_la_dd s : star_chr (fun c => negb (c =? 10)) s (fun s' => rm (Seq (lit 45) (lit 45)) s' (fun _ => true)) = la_dd s.
Proof.
  induction s as [|c t IH]; [reflexivity|]. cbn [star_chr]. rewrite IH. rewrite rm_Seq. unfold lit. rewrite rm_Chr_cons. destruct t as [|d t'].
  - rewrite rm_Chr_nil. cbn [la_dd]. destruct (c =? 45), (c =? 10); reflexivity.
  - rewrite rm_Chr_cons. cbn [la_dd]. now rewrite andb_true_r.
Qed.
Lemma star_la_n_tail t : star_chr (fun c => is_la c || (c =? 45)) t (fun s' => rm cls_la s' k_end) = n_tail t.
Proof.
  induction t as [|d t IH]; [reflexivity|]. cbn [star_chr n_tail]. rewrite IH. unfold cls_la, k_end. rewrite rm_Chr_cons. destruct t as [|e t'].
  - rewrite rm_EndZ_nil. cbn [n_tail]. destruct (is_la d), (d =? 45); reflexivity.
  - rewrite rm_EndZ_cons. destruct (is_la d), (d =? 45), (n_tail (e :: t')); reflexivity.
Qed.
Theorem normalized_re_is_normalized s : re_match normalized_re s = is_normalized s.
Proof.
  unfold re_match, normalized_re. rewrite rm_Seq, rm_NegLook. rewrite (rm_Seq (Star dot)). unfold dot. rewrite rm_star_chr, star_dot_la_dd.
  unfold is_normalized. f_equal. rewrite rm_Seq, rm_Alt. fold k_end. rewrite rm_Seq. destruct s as [|c t]; [reflexivity|].
  unfold cls_la at 1 2. rewrite !rm_Chr_cons. rewrite rm_Seq. unfold cls_la_dash. rewrite rm_star_chr, star_la_n_tail.
  unfold k_end. destruct t as [|d t'].
  - rewrite rm_EndZ_nil. cbn [n_tail]. destruct (is_la c); reflexivity.
  - rewrite rm_EndZ_cons. destruct (is_la c); reflexivity.
Qed.

(* closed checks of the matcher itself (independent of the recognisers): a*, (a|ab)c backtracking, an empty-iteration star, look-ahead *)
Definition re_check : bool :=
  re_match (Seq (Star (lit 97)) EndZ) [97; 97; 97] && negb (re_match (Seq (Star (lit 97)) EndZ) [97; 98])
  && re_match (Seq (Alt (lit 97) (Seq (lit 97) (lit 98))) (Seq (lit 99) EndZ)) [97; 98; 99]
  && re_match (Seq (Star (Star (lit 97))) (Seq (lit 98) EndZ)) [97; 97; 98] && re_match (Seq (Star Eps) EndZ) []
  && re_match (Seq (Star (Chr (fun _ => true))) (lit 98)) [97; 98; 97; 98; 97]
  && negb (re_match (Seq (NegLook (lit 97)) (Star dot)) [97]) && re_match (Seq (NegLook (lit 97)) (Star dot)) [98]
  && re_match validate_re [70; 111; 111; 46; 95; 45; 66; 97; 114] && negb (re_match validate_re [97; 10]) && negb (re_match validate_re [383])
  && re_match normalized_re [102; 111; 111; 45; 98] && negb (re_match normalized_re [97; 45; 45; 98]) && negb (re_match normalized_re [10; 45; 45]).
Example re_check_ok : re_check = true. Proof. vm_compute. reflexivity. Qed.
