(* Laws of the name model (C13). *)
From Coq Require Import List Arith NArith Bool Lia.
Import ListNotations.
Require Import VParse VTop VComplete VMeaning Names NamesSpec.
Open Scope N_scope.
Arguments N.eqb : simpl never.
Arguments N.leb : simpl never.

Ltac nb := repeat match goal with
  | H : _ && _ = true |- _ => apply andb_prop in H as [? ?]
  | H : _ || _ = false |- _ => apply orb_false_elim in H as [? ?]
  | H : negb _ = true |- _ => apply negb_true_iff in H
  | H : negb _ = false |- _ => apply negb_false_iff in H
  | H : (_ <=? _) = true |- _ => apply N.leb_le in H
  | H : (_ <=? _) = false |- _ => apply N.leb_gt in H
  | H : (_ =? _) = true |- _ => apply N.eqb_eq in H
  | H : (_ =? _) = false |- _ => apply N.eqb_neq in H
  end.
(* decide a goal / hypotheses made of N comparisons by case analysis on every comparison *)
Ltac bcase := repeat match goal with
  | |- context [?a =? ?b] => let E := fresh "E" in destruct (a =? b) eqn:E; [apply N.eqb_eq in E | apply N.eqb_neq in E]
  | |- context [?a <=? ?b] => let E := fresh "E" in destruct (a <=? b) eqn:E; [apply N.leb_le in E | apply N.leb_gt in E]
  | H : context [?a =? ?b] |- _ => let E := fresh "E" in destruct (a =? b) eqn:E; [apply N.eqb_eq in E | apply N.eqb_neq in E]
  | H : context [?a <=? ?b] |- _ => let E := fresh "E" in destruct (a <=? b) eqn:E; [apply N.leb_le in E | apply N.leb_gt in E]
  end; cbn [andb orb negb] in *; try reflexivity; try discriminate; try (exfalso; lia); try lia.

(* ---------------- characters ---------------- *)
Lemma sep_cases c : is_sep c = true -> c = 45 \/ c = 46 \/ c = 95.
Proof. unfold is_sep. intros H. bcase; auto. Qed.
Lemma lower_sep c : is_sep c = true -> py_lower_c c = [c].
Proof. intros H. apply sep_cases in H as [->|[->| ->]]; reflexivity. Qed.
(* the characters str.lower() produces from a non-separator: not separators, and fixed by str.lower() *)
Definition low_ok (c : char) : Prop := is_sep c = false /\ py_lower_c c = [c].
Lemma lower_low c : is_sep c = false -> Forall low_ok (py_lower_c c).
Proof.
  intros Hs. unfold py_lower_c. destruct ((65 <=? c) && (c <=? 90)) eqn:U.
  - constructor; [|constructor]. unfold low_ok, is_sep, py_lower_c. nb. split.
    + bcase.
    + assert (E1 : (65 <=? c + 32) && (c + 32 <=? 90) = false) by bcase. rewrite E1.
      assert (E2 : (c + 32 =? 304) = false) by bcase. assert (E3 : (c + 32 =? 8490) = false) by bcase. now rewrite E2, E3.
  - destruct (c =? 304) eqn:E1; [repeat constructor|].
    destruct (c =? 8490) eqn:E2; [repeat constructor|].
    constructor; [|constructor]. split; auto. unfold py_lower_c. now rewrite U, E1, E2.
Qed.

(* ---------------- canonicalize_name as one pass ---------------- *)
Fixpoint collapse (in_run : bool) (s : str) : str :=
  match s with
  | [] => []
  | c :: t => if is_sep c then (if in_run then collapse true t else 45 :: collapse true t)
              else py_lower_c c ++ collapse false t
  end.
Lemma py_lower_app a b : py_lower (a ++ b) = py_lower a ++ py_lower b.
Proof. apply flat_map_app. Qed.
Lemma lower_collapse b s : py_lower (sub_runs b s) = collapse b s.
Proof.
  revert b. induction s as [|c t IH]; intros b; cbn [sub_runs collapse]; [reflexivity|].
  destruct (is_sep c); [destruct b|].
  - apply IH.
  - change (45 :: sub_runs true t) with ([45] ++ sub_runs true t). rewrite py_lower_app, IH. reflexivity.
  - change (c :: sub_runs false t) with ([c] ++ sub_runs false t). rewrite py_lower_app, IH. cbn [py_lower flat_map]. now rewrite app_nil_r.
Qed.
Lemma canon_collapse s : canon_name s = collapse false s.
Proof. apply lower_collapse. Qed.

Definition st_after (b : bool) (a : str) : bool := fold_left (fun _ c => is_sep c) a b.
Lemma collapse_app a : forall b w, collapse b (a ++ w) = collapse b a ++ collapse (st_after b a) w.
Proof.
  induction a as [|c a IH]; intros b w; cbn [app collapse st_after fold_left]; [reflexivity|].
  fold (st_after (is_sep c) a). destruct (is_sep c) eqn:E; [destruct b|]; rewrite IH; cbn [app]; try reflexivity.
  now rewrite app_assoc.
Qed.
Lemma st_after_app b a w : st_after b (a ++ w) = st_after (st_after b a) w.
Proof. apply fold_left_app. Qed.
Lemma collapse_seps r : forallb is_sep r = true -> forall t, collapse true (r ++ t) = collapse true t.
Proof. induction r as [|c r IH]; intros H t; cbn [app collapse forallb] in *; auto. nb. rewrite H. now apply IH. Qed.
Lemma collapse_nosep_hd b t : hd_is is_sep t = false -> collapse b t = collapse false t.
Proof. destruct t as [|c t]; cbn [hd_is collapse]; auto. intros ->. reflexivity. Qed.
Lemma collapse_low s : Forall low_ok s -> forall b, collapse b s = s /\ (s <> [] -> st_after b s = false).
Proof.
  induction 1 as [|c s [Hs Hl] _ IH]; intros b; [split; [reflexivity|congruence]|].
  cbn [collapse st_after fold_left]. rewrite Hs, Hl. fold (st_after false s). destruct (IH false) as [E1 E2]. rewrite E1. split; [reflexivity|].
  intros _. destruct s; [reflexivity|]. apply E2. discriminate.
Qed.

(* ---------------- 1. canonicalize_name is the run-collapse + lower-casing of the statement ---------------- *)
Lemma folds_sound s o : folds s o -> collapse false s = o.
Proof.
  induction 1 as [|c t o Hc _ IH|r t o Hr Hs Ht _ IH]; [reflexivity| |].
  - cbn [collapse]. now rewrite Hc, IH.
  - destruct r as [|c r]; [congruence|]. cbn [forallb] in Hs. nb. cbn [app collapse]. rewrite H.
    rewrite collapse_seps by assumption. rewrite collapse_nosep_hd by assumption. now rewrite IH.
Qed.
Lemma folds_total_len n : forall s, (length s <= n)%nat -> folds s (collapse false s).
Proof.
  induction n as [|n IH]; intros s L.
  - destruct s; [constructor|cbn in L; lia].
  - destruct s as [|c t]; [constructor|]. cbn [length] in L. cbn [collapse]. destruct (is_sep c) eqn:Ec.
    + destruct (span is_sep t) as [r t'] eqn:Sp. pose proof (span_sound _ _ _ _ Sp) as [Et Hr].
      assert (Ht' : hd_is is_sep t' = false).
      { destruct t' as [|d t'']; [reflexivity|]. cbn [hd_is]. destruct (is_sep d) eqn:Ed; [|reflexivity]. exfalso.
        subst t. clear -Sp Hr Ed. revert Sp. induction r as [|x r IHr]; cbn [app span].
        - rewrite Ed. destruct (span is_sep t''). discriminate.
        - cbn [forallb] in Hr. apply andb_prop in Hr as [Hx Hr]. rewrite Hx. destruct (span is_sep (r ++ d :: t'')) as [a b] eqn:S2.
          intros [= E1 E2]. subst. apply IHr; auto. }
      subst t. rewrite collapse_seps by assumption. rewrite collapse_nosep_hd by assumption.
      change (c :: r ++ t') with ((c :: r) ++ t'). apply F_run; auto; [discriminate|cbn [forallb]; now rewrite Ec|].
      apply IH. rewrite app_length in L. lia.
    + apply F_chr; auto. apply IH. lia.
Qed.
Theorem canon_is_fold s o : folds s o <-> canon_name s = o.
Proof.
  rewrite canon_collapse. split; [apply folds_sound|]. intros <-. apply (folds_total_len (length s)). lia.
Qed.

(* ---------------- 2. idempotence ---------------- *)
Lemma lower_nonnil c : py_lower_c c <> [].
Proof. unfold py_lower_c. destruct (_ && _); [discriminate|]. destruct (c =? 304); [discriminate|]. destruct (c =? 8490); discriminate. Qed.
Lemma collapse_lowered c st w : is_sep c = false -> collapse st (py_lower_c c ++ w) = py_lower_c c ++ collapse false w.
Proof.
  intros Hc. rewrite collapse_app. destruct (collapse_low _ (lower_low c Hc) st) as [E1 E2]. rewrite E1, E2; auto using lower_nonnil.
Qed.
Lemma collapse_collapse s : forall b,
  collapse false (collapse b s) = collapse b s /\ (b = true -> collapse true (collapse b s) = collapse b s).
Proof.
  induction s as [|c t IH]; intros b; cbn [collapse]; [split; reflexivity|].
  destruct (is_sep c) eqn:Ec; [destruct b|].
  - apply IH.
  - split; [|discriminate]. cbn [collapse]. change (is_sep 45) with true. cbn iota. f_equal. now apply (IH true).
  - rewrite !collapse_lowered by assumption. destruct (IH false) as [E _]. rewrite E. split; reflexivity.
Qed.
Theorem canon_idempotent s : canon_name (canon_name s) = canon_name s.
Proof. rewrite !canon_collapse. apply (collapse_collapse s false). Qed.

(* ---------------- 3. same canonical form <-> equal after folding ---------------- *)
Lemma sf_cons x a b : same_fold a b -> same_fold (x :: a) (x :: b).
Proof. intros H. pose proof (SF_ctx [x] a b [] H) as C. now rewrite !app_nil_r in C. Qed.
Lemma sf_app_l u a b : same_fold a b -> same_fold (u ++ a) (u ++ b).
Proof. intros H. pose proof (SF_ctx u a b [] H) as C. now rewrite !app_nil_r in C. Qed.
Lemma sf_app_r a b w : same_fold a b -> same_fold (a ++ w) (b ++ w).
Proof. intros H. exact (SF_ctx [] a b w H). Qed.

Lemma sf_sound a b : same_fold a b -> forall st, collapse st a = collapse st b /\ st_after st a = st_after st b.
Proof.
  induction 1 as [a|a b _ IH|a b c _ IH1 _ IH2|u a b w _ IH|c d Hc Hd|c d Hc Hd|c]; intros st.
  - split; reflexivity.
  - destruct (IH st). split; congruence.
  - destruct (IH1 st), (IH2 st). split; congruence.
  - rewrite !collapse_app, !st_after_app. destruct (IH (st_after st u)) as [E1 E2]. rewrite E1, E2. split; reflexivity.
  - cbn [collapse st_after fold_left]. rewrite Hc, Hd. split; reflexivity.
  - cbn [collapse st_after fold_left]. rewrite Hc, Hd. split; [destruct st|]; reflexivity.
  - destruct (is_sep c) eqn:Ec.
    + rewrite (lower_sep c Ec). split; reflexivity.
    + destruct (collapse_low _ (lower_low c Ec) st) as [E1 E2]. rewrite E1, E2 by apply lower_nonnil.
      cbn [collapse st_after fold_left]. rewrite Ec, app_nil_r. split; reflexivity.
Qed.
(* every string folds, by the generating steps, to its canonical form *)
Lemma sf_collapse t : (forall x, is_sep x = true -> same_fold (x :: t) (45 :: collapse true t)) /\ same_fold t (collapse false t).
Proof.
  induction t as [|c t [IHp IHq]]; cbn [collapse].
  - split; [|constructor]. intros x Hx. now apply SF_sep.
  - destruct (is_sep c) eqn:Ec.
    + split.
      * intros x Hx. eapply SF_trans; [|apply (IHp x Hx)]. exact (sf_app_r [x; c] [x] t (SF_run x c Hx Ec)).
      * now apply IHp.
    + assert (Q : same_fold (c :: t) (py_lower_c c ++ collapse false t)).
      { eapply SF_trans; [exact (sf_app_r [c] (py_lower_c c) t (SF_case c))|]. now apply sf_app_l. }
      split; [|exact Q]. intros x Hx.
      eapply SF_trans; [exact (sf_app_r [x] [45] (c :: t) (SF_sep x 45 Hx eq_refl))|]. now apply sf_cons.
Qed.
Theorem canon_eq_iff_same_fold a b : canon_name a = canon_name b <-> same_fold a b.
Proof.
  rewrite !canon_collapse. split.
  - intros E. eapply SF_trans; [apply (sf_collapse a)|]. rewrite E. apply SF_sym, (sf_collapse b).
  - intros H. apply (sf_sound a b H false).
Qed.

(* ---------------- 4. the validity language ---------------- *)
Lemma alnum_iff c : is_alnum c = true <-> alnum_spec c.
Proof.
  unfold is_alnum, is_digit, is_lower, is_upper, alnum_spec. split.
  - intros H. bcase.
  - intros H. bcase.
Qed.
Lemma cls_iff c : is_cls c = true <-> interior_spec c.
Proof.
  unfold is_cls, interior_spec. rewrite <- alnum_iff. split.
  - intros H. apply orb_prop in H as [H|H]; auto. apply sep_cases in H. auto.
  - intros [H|[->|[->| ->]]]; [now rewrite H| | |]; now rewrite orb_true_r.
Qed.
Lemma alnum_cls c : is_alnum c = true -> is_cls c = true.
Proof. unfold is_cls. now intros ->. Qed.
Lemma v_tail_iff t : v_tail t = true <-> exists m d, t = m ++ [d] /\ Forall interior_spec m /\ alnum_spec d.
Proof.
  induction t as [|x t IH]; cbn [v_tail].
  - split; [discriminate|]. intros (m & d & E & _). destruct m; discriminate.
  - destruct t as [|y t'].
    + rewrite alnum_iff. split.
      * intros H. exists [], x. auto.
      * intros (m & d & E & _ & Hd). destruct m as [|z m]; [now injection E as ->|]. destruct m; discriminate.
    + split.
      * intros H. apply andb_prop in H as [Hx Ht]. apply IH in Ht as (m & d & E & Hm & Hd).
        exists (x :: m), d. rewrite E. repeat split; auto. constructor; auto. now apply cls_iff.
      * intros (m & d & E & Hm & Hd). destruct m as [|z m]; [destruct t'; discriminate|].
        injection E as -> E. inversion Hm; subst. apply andb_true_intro. split; [now apply cls_iff|].
        apply IH. exists m, d. auto.
Qed.
Theorem valid_name_exact s : valid_name s = true <-> valid_lang s.
Proof.
  unfold valid_name, valid_lang. destruct s as [|c t].
  - split; [discriminate|]. intros [(c & E & _)|(c & m & d & E & _)]; discriminate.
  - destruct t as [|y t'].
    + rewrite andb_true_r, alnum_iff. split.
      * intros H. left. exists c. auto.
      * intros [(c' & [= ->] & H)|(c' & m & d & E & _)]; auto. destruct m; discriminate.
    + split.
      * intros H. apply andb_prop in H as [Hc Ht]. apply v_tail_iff in Ht as (m & d & E & Hm & Hd).
        right. exists c, m, d. rewrite E. repeat split; auto. now apply alnum_iff.
      * intros [(c' & [=] & _)|(c' & m & d & [= -> E] & Hc & Hm & Hd)].
        apply andb_true_intro. split; [now apply alnum_iff|]. apply v_tail_iff. exists m, d. auto.
Qed.

(* ---------------- bridge to the ASCII core ---------------- *)
Require Import NamesAscii.
Lemma last_cons2 (x y : N) t d : last (x :: y :: t) d = last (y :: t) d.
Proof. reflexivity. Qed.
Lemma v_tail_a t : v_tail t = true <-> t <> [] /\ forallb is_cls t = true /\ is_alnum (last t 0) = true.
Proof.
  induction t as [|x t IH]; cbn [v_tail]; [split; [discriminate|intros ([] & _); reflexivity]|].
  destruct t as [|y t'].
  - cbn [forallb last]. split.
    + intros H. rewrite (alnum_cls _ H). repeat split; auto. discriminate.
    + now intros (_ & _ & H).
  - rewrite last_cons2. cbn [forallb] in *. split.
    + intros H. apply andb_prop in H as [Hx Ht]. apply IH in Ht as (_ & Hf & Hl). rewrite Hx. repeat split; auto. discriminate.
    + intros (_ & Hf & Hl). apply andb_prop in Hf as [Hx Hf]. rewrite Hx. apply IH. repeat split; auto. discriminate.
Qed.
Lemma valid_name_a s : valid_name s = valid_a s.
Proof.
  apply eq_true_iff_eq. unfold valid_name, valid_a. destruct s as [|c t]; [tauto|]. destruct t as [|y t'].
  - cbn [forallb last]. rewrite !andb_true_r. destruct (is_alnum c); tauto.
  - rewrite last_cons2. rewrite !andb_true_iff, v_tail_a. fold is_cls. intuition discriminate.
Qed.
Lemma valid_cls s : valid_name s = true -> forallb is_cls s = true.
Proof.
  rewrite valid_name_a. unfold valid_a. destruct s as [|c t]; [discriminate|]. intros H. apply andb_prop in H as [H Hl]. apply andb_prop in H as [Hc Ht]. cbn [forallb]. rewrite (alnum_cls c Hc). exact Ht.
Qed.
Lemma lower_cls c : is_cls c = true -> py_lower_c c = [lower_a c].
Proof.
  unfold is_cls, is_alnum, is_digit, is_lower, is_sep, py_lower_c, lower_a, is_upper. intros H.
  destruct ((65 <=? c) && (c <=? 90)) eqn:U; [reflexivity|].
  assert (E1 : (c =? 304) = false) by bcase. assert (E2 : (c =? 8490) = false) by bcase. now rewrite E1, E2.
Qed.
Lemma collapse_ascii s : forallb is_cls s = true -> forall b, collapse b s = collapse_a b s.
Proof.
  induction s as [|c t IH]; intros H b; cbn [forallb collapse collapse_a] in *; [reflexivity|]. nb.
  destruct (is_sep c); [destruct b|]; rewrite IH by assumption; try reflexivity. now rewrite lower_cls.
Qed.
Lemma n_tail_a t : n_tail t = true <-> t <> [] /\ forallb (fun x => is_la x || (x =? 45)) t = true /\ is_la (last t 0) = true.
Proof.
  induction t as [|x t IH]; cbn [n_tail]; [split; [discriminate|intros ([] & _); reflexivity]|].
  destruct t as [|y t'].
  - cbn [forallb last]. split.
    + intros H. rewrite H. repeat split; auto. discriminate.
    + now intros (_ & _ & H).
  - rewrite last_cons2. cbn [forallb] in *. split.
    + intros H. apply andb_prop in H as [Hx Ht]. apply IH in Ht as (_ & Hf & Hl). rewrite Hx. repeat split; auto. discriminate.
    + intros (_ & Hf & Hl). apply andb_prop in Hf as [Hx Hf]. rewrite Hx. apply IH. repeat split; auto. discriminate.
Qed.
Lemma la_not_nl x : is_la x || (x =? 45) = true -> (x =? 10) = false.
Proof. unfold is_la, is_digit, is_lower. intros H. bcase. Qed.
Lemma la_dd_has_dd s : forallb (fun x => is_la x || (x =? 45)) s = true -> la_dd s = has_dd s.
Proof.
  induction s as [|c t IH]; [reflexivity|]. intros H. cbn [forallb] in H. apply andb_prop in H as [Hc Ht].
  destruct t as [|d t']; [reflexivity|]. rewrite has_dd_cons. cbn [la_dd] in *. rewrite (la_not_nl _ Hc). cbn [negb andb].
  now rewrite <- IH.
Qed.
Lemma is_normalized_a s : is_normalized s = normalized_a s.
Proof.
  apply eq_true_iff_eq. unfold is_normalized, normalized_a. destruct s as [|c t]; [cbn [la_dd negb andb]; tauto|].
  destruct t as [|y t'].
  - cbn [forallb last la_dd has_dd negb andb]. rewrite !andb_true_r. destruct (is_la c); tauto.
  - rewrite last_cons2. rewrite !andb_true_iff, n_tail_a. split.
    + intros (Hd & Hc & _ & Hf & Hl). rewrite <- la_dd_has_dd; [auto|]. cbn [forallb] in Hf |- *. rewrite Hc. exact Hf.
    + intros (((Hd & Hc) & Hf) & Hl). rewrite la_dd_has_dd; [|cbn [forallb] in Hf |- *; rewrite Hc; exact Hf]. repeat split; auto. discriminate.
Qed.

(* ---------------- 5. is_normalized_name is the valid-fixed-point test; 6. canonicalised valid names are normalized ---------------- *)
Theorem is_normalized_iff s : is_normalized s = true <-> valid_name s = true /\ canon_name s = s.
Proof.
  rewrite is_normalized_a, valid_name_a, canon_collapse, normalized_a_iff. unfold canon_a. split.
  - intros [V E]. split; auto. rewrite collapse_ascii; auto. apply valid_cls. now rewrite valid_name_a.
  - intros [V E]. split; auto. rewrite <- collapse_ascii; auto. apply valid_cls. now rewrite valid_name_a.
Qed.
Lemma alnum_not_sep c : is_alnum c = true -> is_sep c = false.
Proof. unfold is_alnum, is_digit, is_lower, is_upper, is_sep. intros H. bcase. Qed.
Lemma lower_a_alnum c : is_alnum c = true -> is_alnum (lower_a c) = true.
Proof. unfold lower_a, is_alnum, is_digit, is_lower, is_upper. intros H. destruct ((65 <=? c) && (c <=? 90)) eqn:U; [|now rewrite U]. bcase. Qed.
Lemma collapse_a_cls t : forallb is_cls t = true -> forall b, forallb is_cls (collapse_a b t) = true.
Proof.
  induction t as [|c t IH]; intros H b; cbn [forallb collapse_a] in *; [reflexivity|]. apply andb_prop in H as [Hc Ht].
  destruct (is_sep c) eqn:Ec; [destruct b|]; cbn [forallb]; rewrite ?IH by assumption; try reflexivity.
  unfold is_cls in Hc. rewrite Ec, orb_false_r in Hc. now rewrite (alnum_cls _ (lower_a_alnum c Hc)).
Qed.
Lemma collapse_a_last t : t <> [] -> is_sep (last t 0) = false -> forall b, collapse_a b t <> [] /\ last (collapse_a b t) 0 = lower_a (last t 0).
Proof.
  induction t as [|c t IH]; [congruence|]. intros _ Hl b. destruct t as [|d t'].
  - cbn [last] in Hl. cbn [collapse_a last]. rewrite Hl. cbn [last]. split; [discriminate|reflexivity].
  - rewrite last_cons2 in *. assert (NE : d :: t' <> []) by discriminate. remember (d :: t') as u eqn:Eu.
    cbn [collapse_a]. destruct (is_sep c); [destruct b|].
    + apply (IH NE Hl).
    + destruct (IH NE Hl true) as [E1 E2]. split; [discriminate|]. destruct (collapse_a true u); [congruence|]. exact E2.
    + destruct (IH NE Hl false) as [E1 E2]. split; [discriminate|]. destruct (collapse_a false u); [congruence|]. exact E2.
Qed.
Lemma valid_canon s : valid_name s = true -> valid_name (canon_name s) = true.
Proof.
  intros V. pose proof (valid_cls s V) as C. rewrite canon_collapse, collapse_ascii by assumption. rewrite valid_name_a in *.
  destruct s as [|c t]; [discriminate|]. unfold valid_a in V. apply andb_prop in V as [V Hl]. apply andb_prop in V as [Hc Ht].
  destruct (collapse_a_last (c :: t) ltac:(discriminate) (alnum_not_sep _ Hl) false) as [_ L].
  cbn [collapse_a] in *. rewrite (alnum_not_sep c Hc) in *. unfold valid_a. rewrite L, (lower_a_alnum c Hc), (lower_a_alnum _ Hl), andb_true_r.
  cbn [andb]. fold is_cls in Ht |- *. now apply collapse_a_cls.
Qed.
Theorem canon_valid_normalized s : valid_name s = true -> is_normalized (canon_name s) = true.
Proof. intros V. apply is_normalized_iff. split; [now apply valid_canon|apply canon_idempotent]. Qed.

(* further facts about the canonical form: no upper-case ASCII letter, no '.', no '_', no "--" *)
Lemma canon_shape s : forall b, Forall (fun c => is_upper c = false /\ (c =? 46) = false /\ (c =? 95) = false) (collapse b s) /\ has_dd (collapse b s) = false
   /\ (b = true -> hd_is (N.eqb 45) (collapse b s) = false).
Proof.
  assert (LOW : forall c, is_sep c = false -> Forall (fun c => is_upper c = false /\ (c =? 46) = false /\ (c =? 95) = false /\ (c =? 45) = false) (py_lower_c c)).
  { intros c Hc. unfold py_lower_c. destruct ((65 <=? c) && (c <=? 90)) eqn:U; [|destruct (c =? 304) eqn:E1; [|destruct (c =? 8490) eqn:E2]].
    - constructor; [|constructor]. unfold is_upper. bcase.
    - repeat constructor.
    - repeat constructor.
    - constructor; [|constructor]. unfold is_upper, is_sep in *. rewrite U. bcase. }
  induction s as [|c t IH]; intros b; cbn [collapse]; [repeat split; auto|].
  destruct (is_sep c) eqn:Ec; [destruct b|].
  - apply IH.
  - destruct (IH true) as (F & D & H). specialize (H eq_refl). repeat split; [constructor; auto| |discriminate].
    destruct (collapse true t) as [|d r]; [reflexivity|]. rewrite has_dd_cons, D. cbn [hd_is] in H. rewrite (N.eqb_sym d 45), H. now rewrite andb_false_r.
  - destruct (IH false) as (F & D & _). specialize (LOW c Ec). pose proof (lower_nonnil c) as NN.
    assert (G : forall l, Forall (fun c => is_upper c = false /\ (c =? 46) = false /\ (c =? 95) = false /\ (c =? 45) = false) l ->
       Forall (fun c => is_upper c = false /\ (c =? 46) = false /\ (c =? 95) = false) (l ++ collapse false t) /\
       has_dd (l ++ collapse false t) = false /\ (l <> [] -> hd_is (N.eqb 45) (l ++ collapse false t) = false)).
    { induction 1 as [|x l (A & B & C & E) _ IHl]; cbn [app]; [repeat split; auto; congruence|]. destruct IHl as (F' & D' & _).
      repeat split; [constructor; auto| |intros _; cbn [hd_is]; now rewrite N.eqb_sym].
      destruct (l ++ collapse false t); [reflexivity|]. now rewrite has_dd_cons, D', E. }
    destruct (G _ LOW) as (G1 & G2 & G3). repeat split; auto.
Qed.
