(* Declarative reading of the C13 statement: the folding, the congruence "equal after folding", the core-metadata name language. *)
From Coq Require Import List NArith Bool.
Import ListNotations.
Require Import VParse VMeaning Names.
Open Scope N_scope.

(* "lower-cases and replaces every maximal run of '-', '_' and '.' by a single '-'":
   folds s o  =  o is s with every maximal separator run replaced by one '-' and every other character lower-cased.
   A run is maximal: what follows it does not start with a separator (F_run), and what precedes it is a non-separator (F_chr) or the start. *)
Inductive folds : str -> str -> Prop :=
| F_nil : folds [] []
| F_chr c t o : is_sep c = false -> folds t o -> folds (c :: t) (py_lower_c c ++ o)
| F_run r t o : r <> [] -> forallb is_sep r = true -> hd_is is_sep t = false -> folds t o -> folds (r ++ t) (45 :: o).

(* "equal after that folding": the least congruence on strings that identifies a character with its lower-case form,
   any separator with any other separator, and a run of two separators with one *)
Inductive same_fold : str -> str -> Prop :=
| SF_refl a : same_fold a a
| SF_sym a b : same_fold a b -> same_fold b a
| SF_trans a b c : same_fold a b -> same_fold b c -> same_fold a c
| SF_ctx u a b w : same_fold a b -> same_fold (u ++ a ++ w) (u ++ b ++ w)
| SF_sep c d : is_sep c = true -> is_sep d = true -> same_fold [c] [d]
| SF_run c d : is_sep c = true -> is_sep d = true -> same_fold [c; d] [c]
| SF_case c : same_fold [c] (py_lower_c c).

(* the core-metadata Name language: ASCII letters and digits, with '.', '_', '-' only in the interior *)
Definition alnum_spec (c : char) : Prop := (48 <= c /\ c <= 57) \/ (65 <= c /\ c <= 90) \/ (97 <= c /\ c <= 122).
Definition interior_spec (c : char) : Prop := alnum_spec c \/ c = 45 \/ c = 46 \/ c = 95.
Definition valid_lang (s : str) : Prop :=
  (exists c, s = [c] /\ alnum_spec c) \/
  (exists c m d, s = c :: m ++ [d] /\ alnum_spec c /\ Forall interior_spec m /\ alnum_spec d).
