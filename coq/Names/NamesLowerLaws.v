(* The C13 laws for the exact model NamesX.canon_full (= canonicalize_name with the interpreter's full str.lower() table and the
   Final_Sigma rule), obtained from the table-independent theory NamesLower:
     - lower_x (the generated table) satisfies the three hypotheses of NamesLower (a computation over the 1407 entries);
     - whatever image U+03A3 gets (U+03C2 or U+03C3), the result is a fixed point: canon_full is idempotent on ALL strings;
     - on strings without U+03A3 canon_full is the context-free canon_g lower_x, so clauses 1 and 3 hold there verbatim;
     - clauses 5, 6 hold on all strings (valid names are ASCII). *)
From Coq Require Import List Arith NArith Bool Lia.
Import ListNotations.
Require Import VParse VTop VComplete VMeaning Names NamesSpec NamesAscii NamesLaws LowerTable NamesX NamesLower.
Open Scope N_scope.
Arguments N.eqb : simpl never.
Arguments N.leb : simpl never.
Arguments N.ltb : simpl never.

(* ---------------- the generated table satisfies the hypotheses ---------------- *)
Definition entry_ok (p : N * list N) : bool :=
  (128 <=? fst p) && negb (match snd p with [] => true | _ => false end)
  && forallb (fun d => negb (is_sep d) && str_eqb (lower_x d) [d]) (snd p).
Lemma lower_table_ok : forallb entry_ok lower_table = true.
Proof. vm_compute. reflexivity. Qed.
Lemma str_eqb_eq a b : str_eqb a b = true -> a = b.
Proof.
  revert b. induction a as [|x a IH]; intros [|y b]; cbn [str_eqb]; try discriminate; auto.
  intros H. apply andb_prop in H as [H1 H2]. apply N.eqb_eq in H1. subst. f_equal. now apply IH.
Qed.
Lemma lower_x_table c p : (c <? 128) = false -> find (fun p => fst p =? c) lower_table = Some p ->
  lower_x c = snd p /\ snd p <> [] /\ Forall (fun d => is_sep d = false /\ lower_x d = [d]) (snd p).
Proof.
  intros L F. unfold lower_x. rewrite L, F. split; [reflexivity|]. apply find_some in F as [I _].
  pose proof lower_table_ok as T. rewrite forallb_forall in T. specialize (T p I). unfold entry_ok in T.
  apply andb_prop in T as [T T3]. apply andb_prop in T as [_ T2]. split.
  - destruct (snd p); [discriminate|discriminate].
  - apply Forall_forall. intros d Hd. rewrite forallb_forall in T3. specialize (T3 d Hd). apply andb_prop in T3 as [A B].
    apply negb_true_iff in A. split; [exact A|now apply str_eqb_eq].
Qed.
Lemma lower_x_ascii c : (c <? 128) = true -> lower_x c = py_lower_c c.
Proof.
  intros L. unfold lower_x, py_lower_c, is_upper. rewrite L. apply N.ltb_lt in L. destruct ((65 <=? c) && (c <=? 90)) eqn:U; [reflexivity|].
  rewrite (proj2 (N.eqb_neq c 304)) by lia. rewrite (proj2 (N.eqb_neq c 8490)) by lia. reflexivity.
Qed.
Lemma lower_x_nonnil c : lower_x c <> [].
Proof.
  destruct (c <? 128) eqn:L; [rewrite lower_x_ascii by assumption; apply lower_nonnil|].
  destruct (find (fun p => fst p =? c) lower_table) as [p|] eqn:F.
  - destruct (lower_x_table c p L F) as (-> & NE & _). exact NE.
  - unfold lower_x. rewrite L, F. discriminate.
Qed.
Lemma lower_x_low c : is_sep c = false -> Forall (fun d => is_sep d = false /\ lower_x d = [d]) (lower_x c).
Proof.
  intros Hs. destruct (c <? 128) eqn:L.
  - rewrite lower_x_ascii by assumption. pose proof (lower_low c Hs) as F. apply N.ltb_lt in L.
    assert (B : Forall (fun d => d < 128 \/ lower_x d = [d]) (py_lower_c c)).
    { unfold py_lower_c. destruct ((65 <=? c) && (c <=? 90)) eqn:U; [constructor; [|constructor]; left; nb; lia|].
      rewrite (proj2 (N.eqb_neq c 304)) by lia. rewrite (proj2 (N.eqb_neq c 8490)) by lia. constructor; [now left|constructor]. }
    clear -F B. induction F as [|d l [Hd Hl] _ IH]; [constructor|]. inversion B as [|? ? Bd Bl]; subst. constructor; [|now apply IH].
    split; [exact Hd|]. destruct Bd as [Bd|Bd]; [|exact Bd]. rewrite lower_x_ascii; [exact Hl|now apply N.ltb_lt].
  - destruct (find (fun p => fst p =? c) lower_table) as [p|] eqn:F.
    + destruct (lower_x_table c p L F) as (-> & _ & G). exact G.
    + assert (E : lower_x c = [c]) by (unfold lower_x; now rewrite L, F). rewrite E. constructor; [|constructor]. auto.
Qed.
Lemma cls_ascii c : is_cls c = true -> (c <? 128) = true.
Proof. unfold is_cls, is_alnum, is_digit, is_lower, is_upper, is_sep. intros H. apply N.ltb_lt. bcase. Qed.
Lemma lower_x_cls c : is_cls c = true -> lower_x c = [lower_a c].
Proof. intros H. rewrite lower_x_ascii by now apply cls_ascii. now apply lower_cls. Qed.

(* ---------------- the context-free model: canonicalize_name on strings without U+03A3 ---------------- *)
Definition canon_x (s : str) : str := canon_g lower_x s.                      (* py_lower_x (sub_runs false s) *)
Definition folds_x : str -> str -> Prop := folds_g lower_x.
Definition same_fold_x : str -> str -> Prop := same_fold_g lower_x.
Definition low_ok_x (d : char) : Prop := low_ok_g lower_x d.

Theorem canon_x_is_fold s o : folds_x s o <-> canon_x s = o.
Proof. exact (canon_g_is_fold lower_x lower_x_nonnil lower_x_low lower_x_cls s o). Qed.
Theorem canon_x_idempotent s : canon_x (canon_x s) = canon_x s.
Proof. exact (canon_g_idempotent lower_x lower_x_nonnil lower_x_low lower_x_cls s). Qed.
Theorem canon_x_eq_iff_same_fold a b : canon_x a = canon_x b <-> same_fold_x a b.
Proof. exact (canon_g_eq_iff_same_fold lower_x lower_x_nonnil lower_x_low lower_x_cls a b). Qed.

(* the restricted table of Names.canon_name is the instance the older files use: the same theory gives its laws back *)
Lemma py_lower_c_low c : is_sep c = false -> Forall (fun d => is_sep d = false /\ py_lower_c d = [d]) (py_lower_c c).
Proof. exact (lower_low c). Qed.
Theorem canon_name_is_canon_g s : canon_name s = canon_g py_lower_c s.
Proof. reflexivity. Qed.
Theorem canon_name_idempotent_again s : canon_name (canon_name s) = canon_name s.
Proof. rewrite !canon_name_is_canon_g. exact (canon_g_idempotent py_lower_c lower_nonnil py_lower_c_low lower_cls s). Qed.

(* ---------------- U+03A3: either image is admissible ---------------- *)
Definition img_sigma (c : char) (l : str) : Prop := if c =? 931 then l = [962] \/ l = [963] else l = lower_x c.
Definition folds_sigma : str -> str -> Prop := folds_r img_sigma.
Lemma low_ok_962 : low_ok_x 962. Proof. split; vm_compute; reflexivity. Qed.
Lemma low_ok_963 : low_ok_x 963. Proof. split; vm_compute; reflexivity. Qed.
Lemma img_sigma_ok c l : is_sep c = false -> img_sigma c l -> l <> [] /\ Forall low_ok_x l.
Proof.
  intros Hc. unfold img_sigma. destruct (c =? 931).
  - intros [->| ->]; (split; [discriminate|constructor; [|constructor]]); [apply low_ok_962|apply low_ok_963].
  - intros ->. split; [apply lower_x_nonnil|now apply lower_x_low].
Qed.
Lemma lower_at_img br t c : img_sigma c (lower_at br t c).
Proof. unfold img_sigma, lower_at. destruct (c =? 931); [|reflexivity]. destruct (final_sigma br t); auto. Qed.
Lemma lower_go_low_go s : forall br, lower_go br s = low_go lower_at br s.
Proof. induction s as [|c t IH]; intros br; [reflexivity|]. cbn [lower_go low_go]. now rewrite IH. Qed.

(* 1 (all strings). canon_full is the folding of the statement, U+03A3 becoming U+03C2 or U+03C3 *)
Theorem canon_full_folds s : folds_sigma s (canon_full s).
Proof.
  unfold canon_full, lower_full. rewrite lower_go_low_go.
  apply (folds_r_total_len img_sigma lower_at) with (n := length s); auto.
  intros br t c _. apply lower_at_img.
Qed.
(* 2 (all strings). idempotence *)
Lemma canon_full_fixed_x s : canon_x (canon_full s) = canon_full s.
Proof. exact (folds_r_fixed lower_x lower_x_nonnil lower_x_low lower_x_cls img_sigma img_sigma_ok s _ (canon_full_folds s)). Qed.
Lemma not_low_ok_931 : ~ low_ok_x 931.
Proof. intros [_ H]. vm_compute in H. discriminate. Qed.
Lemma canon_full_no_sigma s : ~ In 931 (canon_full s).
Proof.
  intros I. pose proof (folds_r_chars lower_x lower_x_nonnil lower_x_low lower_x_cls img_sigma img_sigma_ok s _ (canon_full_folds s)) as F.
  rewrite Forall_forall in F. destruct (F 931 I) as [E|E]; [discriminate|now apply not_low_ok_931].
Qed.
Lemma lower_go_no_sigma s : ~ In 931 s -> forall br, lower_go br s = py_lower_x s.
Proof.
  induction s as [|c t IH]; intros N br; [reflexivity|]. cbn [lower_go py_lower_x flat_map]. fold (py_lower_x t).
  rewrite IH by (intros I; apply N; now right). unfold lower_at. destruct (c =? 931) eqn:E; [|reflexivity].
  apply N.eqb_eq in E. exfalso. apply N. now left.
Qed.
Lemma sub_runs_in c s : forall b, In c (sub_runs b s) -> c = 45 \/ In c s.
Proof.
  induction s as [|x t IH]; intros b; cbn [sub_runs]; [tauto|]. destruct (is_sep x); [destruct b|].
  - intros I. destruct (IH _ I); auto. right. now right.
  - intros [<-|I]; auto. destruct (IH _ I); auto. right. now right.
  - intros [<-|I]; [right; now left|]. destruct (IH _ I); auto. right. now right.
Qed.
Theorem canon_full_x s : ~ In 931 s -> canon_full s = canon_x s.
Proof.
  intros N. unfold canon_full, lower_full, canon_x, canon_g, lower_g. apply lower_go_no_sigma.
  intros I. apply sub_runs_in in I as [E|I]; [discriminate|auto].
Qed.
Theorem canon_full_idempotent s : canon_full (canon_full s) = canon_full s.
Proof. rewrite (canon_full_x (canon_full s)) by apply canon_full_no_sigma. apply canon_full_fixed_x. Qed.

(* 1, 3 on strings without U+03A3 *)
Theorem canon_full_is_fold s o : ~ In 931 s -> (folds_x s o <-> canon_full s = o).
Proof. intros N. rewrite canon_full_x by assumption. apply canon_x_is_fold. Qed.
Theorem canon_full_eq_iff_same_fold a b : ~ In 931 a -> ~ In 931 b -> (canon_full a = canon_full b <-> same_fold_x a b).
Proof. intros Na Nb. rewrite !canon_full_x by assumption. apply canon_x_eq_iff_same_fold. Qed.

(* 5, 6 on all strings *)
Lemma cls_no_sigma s : forallb is_cls s = true -> ~ In 931 s.
Proof. intros H I. rewrite forallb_forall in H. specialize (H 931 I). discriminate. Qed.
Lemma canon_full_cls s : forallb is_cls s = true -> canon_full s = canon_name s.
Proof. intros H. rewrite canon_full_x by now apply cls_no_sigma. exact (canon_g_cls lower_x lower_x_nonnil lower_x_low lower_x_cls s H). Qed.
Theorem is_normalized_iff_full s : is_normalized s = true <-> valid_name s = true /\ canon_full s = s.
Proof.
  rewrite is_normalized_iff. split; intros [V E]; (split; [exact V|]); pose proof (valid_cls s V) as C; [rewrite canon_full_cls|rewrite <- canon_full_cls]; auto.
Qed.
Theorem canon_full_valid_normalized s : valid_name s = true -> is_normalized (canon_full s) = true.
Proof. intros V. rewrite canon_full_cls by now apply valid_cls. now apply canon_valid_normalized. Qed.

(* shape, all strings *)
Theorem canon_full_shape s :
  Forall (fun c => is_upper c = false /\ (c =? 46) = false /\ (c =? 95) = false) (canon_full s) /\ has_dd (canon_full s) = false.
Proof.
  rewrite <- canon_full_fixed_x. unfold canon_x. rewrite (canon_collapse_g lower_x lower_x_nonnil lower_x_low lower_x_cls).
  destruct (canon_g_shape lower_x lower_x_nonnil lower_x_low lower_x_cls (canon_full s) false) as (A & B & _). auto.
Qed.

(* where the restricted model Names.canon_name (used by the marker / requirement models) is the exact one *)
Theorem canon_full_agree s : Forall (fun c => lower_x c = py_lower_c c) s -> canon_full s = canon_name s.
Proof.
  intros F. assert (N : ~ In 931 s).
  { intros I. rewrite Forall_forall in F. specialize (F 931 I). vm_compute in F. discriminate. }
  rewrite canon_full_x by assumption. unfold canon_x, canon_g, lower_g, canon_name, py_lower.
  assert (G : forall b, Forall (fun c => lower_x c = py_lower_c c) (sub_runs b s)).
  { clear N. induction F as [|c t Hc _ IH]; intros b; cbn [sub_runs]; [constructor|]. destruct (is_sep c); [destruct b|].
    - apply IH.
    - constructor; [reflexivity|apply IH].
    - constructor; [exact Hc|apply IH]. }
  specialize (G false). induction G as [|c t Hc _ IH]; [reflexivity|]. cbn [flat_map]. now rewrite Hc, IH.
Qed.
Corollary canon_full_agree_ascii s : Forall (fun c => c < 128) s -> canon_full s = canon_name s.
Proof. intros F. apply canon_full_agree. eapply Forall_impl; [|exact F]. intros c L. apply lower_x_ascii. now apply N.ltb_lt. Qed.

(* closed checks: E-acute, Omega, DZ-caron digraph, sharp-S capital; sigma in final / non-final / initial position and before a separator run *)
Definition canon_full_check : bool :=
  str_eqb (canon_full [201; 46; 95; 937]) [233; 45; 969] && str_eqb (canon_full [452; 7838]) [454; 223]
  && str_eqb (canon_full [97; 931]) [97; 962] && str_eqb (canon_full [97; 931; 98]) [97; 963; 98] && str_eqb (canon_full [931; 97]) [963; 97]
  && str_eqb (canon_full [97; 931; 46; 98]) [97; 962; 45; 98] && str_eqb (lower_full [97; 931; 46; 98]) [97; 963; 46; 98]
  && str_eqb (canon_full [97; 39; 931; 39]) [97; 39; 962; 39] && str_eqb (canon_full [304; 8490]) [105; 775; 107]
  && negb (str_eqb (canon_full [201]) (canon_name [201])).
Example canon_full_check_ok : canon_full_check = true.
Proof. vm_compute. reflexivity. Qed.
