From Coq Require Import List Bool Lia.
Import ListNotations.

Section F.
Variable item : Type.
Variable is_pre : item -> bool.          (* Version(item).is_prerelease *)

(* ---------- one Specifier ---------- *)
Section One.
Variable matches : item -> bool.          (* operator semantics, C03 *)
Variable auto : bool.                     (* Specifier.prereleases without override *)

Definition contains (p : bool) (x : item) : bool := if is_pre x && negb p then false else matches x.
Definition self_pre (override : option bool) : bool := match override with Some b => b | None => auto end.

(* Specifier.filter as the generator is written (with the D22 repair: an object-level override is the default argument).
   State of the loop: (yielded?, output so far reversed, deferred reversed). *)
Definition norm_arg (arg override : option bool) : option bool :=
  match arg with Some _ => arg | None => override end.
Definition step (kw pre_ok : bool) (st : bool * list item * list item) (x : item) :=
  let '(yielded, out, deferred) := st in
  if contains kw x then
    if is_pre x && negb pre_ok then (yielded, out, x :: deferred) else (true, x :: out, deferred)
  else st.
Definition spec_filter (arg override : option bool) (xs : list item) : list item :=
  let arg := norm_arg arg override in
  let kw := match arg with Some b => b | None => true end in
  let pre_ok := (match arg with Some b => b | None => false end) || self_pre override in
  let '(yielded, out, deferred) := fold_left (step kw pre_ok) xs (false, [], []) in
  if negb yielded then rev out ++ rev deferred else rev out.

(* ---------- spec, transcribing C06 ---------- *)
Definition effective (arg override : option bool) : bool :=
  match arg with Some b => b | None => self_pre override end.
Definition fallback_case (arg override : option bool) : bool :=
  match arg, override with None, None => negb auto | _, _ => false end.
Definition filter_spec (arg override : option bool) (xs : list item) : list item :=
  if fallback_case arg override then
    let finals := filter (fun x => negb (is_pre x) && matches x) xs in
    match finals with [] => filter (fun x => is_pre x && matches x) xs | _ => finals end
  else filter (contains (effective arg override)) xs.

Lemma fold_step kw pre_ok xs : forall y out deferred,
  fold_left (step kw pre_ok) xs (y, out, deferred) =
  (y || existsb (fun x => contains kw x && negb (is_pre x && negb pre_ok)) xs,
   rev (filter (fun x => contains kw x && negb (is_pre x && negb pre_ok)) xs) ++ out,
   rev (filter (fun x => contains kw x && (is_pre x && negb pre_ok)) xs) ++ deferred).
Proof.
  induction xs as [|x xs IH]; intros y out deferred; cbn [fold_left existsb filter rev app].
  - now rewrite orb_false_r.
  - unfold step at 2. destruct (contains kw x) eqn:C; cbn [andb].
    + destruct (is_pre x && negb pre_ok) eqn:P; cbn [negb]; rewrite IH; cbn [rev]; rewrite <- ?app_assoc; cbn [app].
      * reflexivity.
      * now rewrite orb_true_r.
    + rewrite IH. reflexivity.
Qed.
Lemma existsb_filter_nil {A} (p : A -> bool) l : existsb p l = false <-> filter p l = [].
Proof. induction l as [|a l IH]; cbn; [tauto|]. destruct (p a); cbn; [split; discriminate|exact IH]. Qed.

Definition ycond kw pre_ok x := contains kw x && negb (is_pre x && negb pre_ok).
Definition dcond kw pre_ok x := contains kw x && (is_pre x && negb pre_ok).
Lemma spec_filter_eq arg override xs :
  spec_filter arg override xs =
  let a := norm_arg arg override in
  let kw := match a with Some b => b | None => true end in
  let pre_ok := (match a with Some b => b | None => false end) || self_pre override in
  match filter (ycond kw pre_ok) xs with [] => filter (dcond kw pre_ok) xs | ys => ys end.
Proof.
  unfold spec_filter. rewrite fold_step. cbn [orb]. rewrite !app_nil_r, !rev_involutive. cbv zeta.
  match goal with |- context [existsb ?p xs] => destruct (existsb p xs) eqn:E; cbn [negb] end.
  - fold (ycond (match norm_arg arg override with Some b => b | None => true end)
              ((match norm_arg arg override with Some b => b | None => false end) || self_pre override)).
    match goal with |- ?Y = match ?Y with [] => _ | _ => _ end => destruct Y eqn:EY; auto end.
    apply existsb_filter_nil in EY. unfold ycond in EY. congruence.
  - apply existsb_filter_nil in E. unfold ycond. rewrite E. reflexivity.
Qed.

Lemma filter_false {A} (p : A -> bool) l : (forall x, p x = false) -> filter p l = [].
Proof. intros H. induction l; cbn; auto. now rewrite H. Qed.
Lemma no_defer kw pre_ok xs : (forall x, dcond kw pre_ok x = false) ->
  match filter (ycond kw pre_ok) xs with [] => filter (dcond kw pre_ok) xs | ys => ys end = filter (contains kw) xs.
Proof.
  intros H. rewrite (filter_false (dcond kw pre_ok)) by assumption.
  assert (E : filter (ycond kw pre_ok) xs = filter (contains kw) xs).
  { apply filter_ext. intros x. specialize (H x). unfold ycond, dcond in *.
    destruct (contains kw x); auto. cbn in *. now rewrite H. }
  rewrite E. destruct (filter (contains kw) xs); reflexivity.
Qed.

Theorem C06_filter_is_spec arg override xs : spec_filter arg override xs = filter_spec arg override xs.
Proof.
  rewrite spec_filter_eq. unfold filter_spec. cbv zeta.
  destruct arg as [b|].
  - (* explicit argument: exact filter, no fall-back *)
    cbn [norm_arg fallback_case effective]. rewrite no_defer; [reflexivity|].
    intros x. unfold dcond, contains. destruct b; cbn; destruct (is_pre x), (matches x); reflexivity.
  - destruct override as [b|].
    + (* object override: same as an explicit argument (D22 repaired) *)
      cbn [norm_arg fallback_case effective self_pre]. rewrite no_defer; [reflexivity|].
      intros x. unfold dcond, contains. destruct b; cbn; destruct (is_pre x), (matches x); reflexivity.
    + cbn [norm_arg fallback_case effective self_pre orb]. destruct auto; cbn [negb].
      * rewrite no_defer; [reflexivity|]. intros x. unfold dcond, contains; cbn. destruct (is_pre x), (matches x); reflexivity.
      * (* the fall-back case *)
        assert (EY : filter (ycond true false) xs = filter (fun x => negb (is_pre x) && matches x) xs).
        { apply filter_ext. intros x. unfold ycond, contains; cbn. destruct (is_pre x), (matches x); reflexivity. }
        assert (ED : filter (dcond true false) xs = filter (fun x => is_pre x && matches x) xs).
        { apply filter_ext. intros x. unfold dcond, contains; cbn. destruct (is_pre x), (matches x); reflexivity. }
        rewrite EY, ED. destruct (filter (fun x => negb (is_pre x) && matches x) xs); reflexivity.
Qed.
End One.
End F.
Print Assumptions C06_filter_is_spec.
