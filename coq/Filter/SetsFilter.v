(* C06 on the string-level model: the pre-release gate, filter() of Specifier and SpecifierSet, installed, histories. *)
From Coq Require Import List Arith NArith Bool Lia Permutation.
Import ListNotations.
Require Filter.
Require Import S1 VParse VDec Py VMeaning VCmp SpecModel SpecParse Prefix Canon SpecContains SetModel SetsModel SetsBridge SetsFs SetsLaws VKeyEq.
Open Scope N_scope.
Arguments N.eqb : simpl never.
Arguments N.leb : simpl never.

Definition is_true (o : outcome) : bool := match o with Ans true => true | _ => false end.

(* ---------------------------------------------------------------- the effective setting *)
(* call argument, else the object's override, else what the specifier text itself names *)
Definition spec_effective (sp : specifier) (o arg : option bool) : bool :=
  match arg with Some b => b | None => match o with Some b => b | None => auto_pre sp end end.
Definition set_effective (S : sset) (arg : option bool) : bool :=
  match arg with Some b => b | None => match ov S with Some b => b | None => existsb m_pre (ms S) end end.
Lemma truthy_eff_arg S arg : truthy (eff_arg S arg) = set_effective S arg.
Proof.
  unfold eff_arg, set_effective, set_pre. destruct arg; auto. destruct (ov S); auto. destruct (ms S); reflexivity.
Qed.
(* a specifier enables pre-releases by itself only if its operator is not != and its version text is a pre-release *)
Theorem auto_pre_names_prerelease sp : auto_pre sp = true ->
  sp_op sp <> ONe /\ exists v, is_prerelease v = true /\
    Version (match sp_op sp with OEq => if ends_dotstar (sp_text sp) then drop2 (sp_text sp) else sp_text sp | _ => sp_text sp end) = Some v.
Proof.
  unfold auto_pre. destruct (sp_op sp); try discriminate;
    match goal with |- context [Version ?t] => destruct (Version t) as [v|] eqn:E; [|discriminate] end;
    intros H; (split; [discriminate|]); exists v; auto.
Qed.

(* for a set built from a text the three layers are: argument, the set's override, some member naming a pre-release *)
Lemma existsb_ext_in {A} (p q : A -> bool) l : (forall a, In a l -> p a = q a) -> existsb p l = existsb q l.
Proof. induction l as [|x l IH]; cbn; auto. intros H. rewrite (H x), IH; auto. Qed.
Theorem text_set_effective s p S arg : SpecifierSet s p = Some S ->
  set_effective S arg =
  match arg with Some b => b | None => match p with Some b => b | None => existsb (fun m => auto_pre (m_sp m)) (ms S) end end.
Proof.
  intros E. destruct (SpecifierSet_fs_ok s p S E) as (_ & O & F). unfold set_effective. rewrite O. destruct arg; auto. destruct p; auto.
  rewrite Forall_forall in F. apply existsb_ext_in. intros m Hm. unfold m_pre. now rewrite (F m Hm).
Qed.

(* ---------------------------------------------------------------- gate / finals / monotonicity : Specifier *)
Theorem spec_gate sp o arg item c : Version item = Some c -> is_prerelease c = true ->
  contains sp o arg item = Ans true -> spec_effective sp o arg = true.
Proof.
  intros V P. unfold contains, spec_effective, effective_pre. rewrite V, P. cbn [andb].
  destruct arg as [[|]|]; auto; try discriminate. destruct o as [[|]|]; auto; try discriminate. destruct (auto_pre sp); auto. discriminate.
Qed.
Theorem spec_final_unaffected sp o o' arg arg' item c : Version item = Some c -> is_prerelease c = false ->
  contains sp o arg item = contains sp o' arg' item.
Proof. intros V P. unfold contains. rewrite V, P. reflexivity. Qed.
Theorem spec_enable_monotone sp o o' item : contains sp o (Some false) item = Ans true -> contains sp o' (Some true) item = Ans true.
Proof.
  unfold contains. destruct (Version item) as [c|]; [|discriminate]. destruct (is_prerelease c); cbn [andb negb]; [discriminate|auto].
Qed.

(* ---------------------------------------------------------------- gate / finals / monotonicity / installed : SpecifierSet *)
Lemma all_members_final pre pre' c l : is_prerelease c = false -> all_members pre c l = all_members pre' c l.
Proof.
  intros P. induction l as [|m l IH]; cbn [all_members]; auto.
  assert (E : contains_v (m_sp m) (m_ov m) pre c = contains_v (m_sp m) (m_ov m) pre' c) by (unfold contains_v; now rewrite P).
  rewrite E. destruct (contains_v _ _ pre' c) as [[|]| |]; auto.
Qed.
Theorem set_gate S arg inst item c : Version item = Some c -> is_prerelease c = true ->
  set_contains S arg inst item = Ans true -> set_effective S arg = true.
Proof.
  intros V P. unfold set_contains, set_contains_v. rewrite V, P. fold (eff_arg S arg). rewrite truthy_eff_arg.
  destruct (set_effective S arg); auto. discriminate.
Qed.
Theorem set_final_unaffected S p p' arg arg' inst inst' item c : Version item = Some c -> is_prerelease c = false ->
  set_contains (set_override S p) arg inst item = set_contains (set_override S p') arg' inst' item.
Proof.
  intros V P. unfold set_contains, set_contains_v. rewrite V, P, !andb_false_r. cbn [ms set_override]. now apply all_members_final.
Qed.
Theorem set_enable_monotone S p p' inst item :
  set_contains (set_override S p) (Some false) inst item = Ans true -> set_contains (set_override S p') (Some true) inst item = Ans true.
Proof.
  unfold set_contains. destruct (Version item) as [c|] eqn:V; [|discriminate]. unfold set_contains_v. cbn [truthy negb andb].
  destruct (is_prerelease c) eqn:P; [discriminate|]. rewrite andb_false_r. cbn [ms set_override]. intros <-. now apply all_members_final.
Qed.
(* once past the gate, installed=True judges a pre-release by its base version *)
Theorem set_installed S arg item c : Version item = Some c -> is_prerelease c = true -> set_effective S arg = true ->
  set_contains S arg (Some true) item = set_contains S arg None (base_str c).
Proof.
  intros V P E. assert (Wc := Version_wf _ _ V). unfold set_contains. rewrite V, (Version_base c Wc). unfold set_contains_v.
  fold (eff_arg S arg). rewrite truthy_eff_arg, E, P, (Version_base c Wc). cbn [negb andb truthy]. reflexivity.
Qed.
Theorem set_installed_irrelevant S arg inst item c : Version item = Some c -> (is_prerelease c = false \/ truthy inst = false) ->
  set_contains S arg inst item = set_contains S arg None item.
Proof.
  intros V H. unfold set_contains. rewrite V. unfold set_contains_v. cbn [truthy andb].
  destruct H as [H|H]; rewrite H; now rewrite ?andb_false_r.
Qed.

(* ---------------------------------------------------------------- Specifier.filter *)
Definition wf_items (xs : list item) : Prop := Forall (fun x => VMeaning.wf_version (snd x)) xs.
Definition imatch (sp : specifier) (x : item) : bool := matches sp (snd x).
Definition as_member (sp : specifier) (o : option bool) : member := {| m_sp := sp; m_ov := o |}.

Lemma contains_v_filter sp o kw x : wf_member sp -> VMeaning.wf_version (snd x) ->
  contains_v sp o (Some kw) (snd x) = Ans (Filter.contains item it_pre (imatch sp) kw x).
Proof. intros W Wx. pose proof (contains_v_ans (as_member sp o) (Some kw) (snd x) W Wx) as H. cbn [as_member m_sp m_ov] in H. rewrite H. reflexivity. Qed.

Lemma sf_loop_fold sp o prer kw xs : wf_member sp -> wf_items xs -> forall st,
  sf_loop sp o prer kw xs st = Some (fold_left (Filter.step item it_pre (imatch sp) kw (truthy prer || effective_pre o sp)) xs st).
Proof.
  intros W WI. induction WI as [|x xs Wx WI IH]; intros [[y out] d]; cbn [sf_loop fold_left]; auto.
  rewrite contains_v_filter by assumption. unfold Filter.step at 2.
  destruct (Filter.contains item it_pre (imatch sp) kw x); [|apply IH].
  destruct (it_pre x && negb (truthy prer || effective_pre o sp)); apply IH.
Qed.
Theorem spec_filter_v_is sp o arg xs : wf_member sp -> wf_items xs ->
  spec_filter_v sp o arg xs = Some (Filter.spec_filter item it_pre (imatch sp) (auto_pre sp) arg o xs).
Proof.
  intros W WI. unfold spec_filter_v. rewrite sf_loop_fold by assumption. unfold Filter.spec_filter, Filter.norm_arg, Filter.self_pre, effective_pre.
  destruct arg as [b|], o as [b'|]; cbn [truthy];
  match goal with |- context [fold_left ?f xs ?i] => destruct (fold_left f xs i) as [[y out] d] end; reflexivity.
Qed.

Lemma is_true_contains_v sp o arg x : wf_member sp -> VMeaning.wf_version (snd x) ->
  is_true (contains_v sp o arg (snd x)) = Filter.contains item it_pre (imatch sp) (spec_effective sp o arg) x.
Proof.
  intros W Wx. pose proof (contains_v_ans (as_member sp o) arg (snd x) W Wx) as H. cbn [as_member m_sp m_ov] in H. rewrite H. clear H. unfold is_true, s_cont, SetModel.s_contains, Filter.contains, spec_effective, m_pre, effective_pre, imatch, mmatch, it_pre.
  cbn [as_member m_sp m_ov]. destruct arg as [b|]; [|destruct o as [b|]];
  match goal with |- context [if ?c then false else ?m] => destruct (if c then false else m); reflexivity end.
Qed.
Lemma filter_ext_in' {A} (p q : A -> bool) l : (forall x, In x l -> p x = q x) -> filter p l = filter q l.
Proof. induction l as [|x l IH]; cbn; auto. intros H. rewrite (H x), IH; auto. Qed.

(* outside the fall-back case filter() is the exact filter under the effective setting: the very items, in input order *)
Theorem spec_filter_exact sp o arg xs : wf_member sp -> wf_items xs ->
  (arg <> None \/ o <> None \/ auto_pre sp = true) ->
  spec_filter_v sp o arg xs = Some (filter (fun x => is_true (contains_v sp o arg (snd x))) xs).
Proof.
  intros W WI H. rewrite spec_filter_v_is, Filter.C06_filter_is_spec by assumption. f_equal. unfold Filter.filter_spec.
  assert (F : Filter.fallback_case (auto_pre sp) arg o = false).
  { unfold Filter.fallback_case. destruct arg, o; auto. destruct H as [H|[H|H]]; try congruence. now rewrite H. }
  rewrite F. unfold wf_items in WI. rewrite Forall_forall in WI. apply filter_ext_in'. intros x Hx. rewrite is_true_contains_v; auto.
Qed.
(* the fall-back case: no argument, no override, the specifier does not itself name a pre-release *)
Theorem spec_filter_fallback sp xs : wf_member sp -> wf_items xs -> auto_pre sp = false ->
  let accepted := filter (fun x => is_true (contains_v sp None None (snd x))) xs in
  let pres := filter (fun x => it_pre x && is_true (contains_v sp None (Some true) (snd x))) xs in
  spec_filter_v sp None None xs = Some (match accepted with [] => pres | _ => accepted end).
Proof.
  intros W WI A. cbv zeta. rewrite spec_filter_v_is, Filter.C06_filter_is_spec by assumption. f_equal. unfold Filter.filter_spec, Filter.fallback_case.
  rewrite A. cbn [negb]. unfold wf_items in WI. rewrite Forall_forall in WI.
  assert (E1 : filter (fun x => negb (it_pre x) && imatch sp x) xs = filter (fun x => is_true (contains_v sp None None (snd x))) xs).
  { apply filter_ext_in'. intros x Hx. rewrite is_true_contains_v by auto. unfold Filter.contains, spec_effective. rewrite A.
    destruct (it_pre x); cbn; auto. }
  assert (E2 : filter (fun x => it_pre x && imatch sp x) xs = filter (fun x => it_pre x && is_true (contains_v sp None (Some true) (snd x))) xs).
  { apply filter_ext_in'. intros x Hx. rewrite is_true_contains_v by auto. unfold Filter.contains, spec_effective.
    destruct (it_pre x); cbn; auto. }
  now rewrite E1, E2.
Qed.
(* ... which returns pre-releases if and only if no final release matched *)
Corollary spec_filter_fallback_iff sp xs ys : wf_member sp -> wf_items xs -> auto_pre sp = false ->
  spec_filter_v sp None None xs = Some ys ->
  forall x, In x ys -> (it_pre x = true <-> filter (fun x => negb (it_pre x) && is_true (contains_v sp None (Some true) (snd x))) xs = []).
Proof.
  intros W WI A E x Hx. rewrite (spec_filter_fallback sp xs W WI A) in E. cbv zeta in E.
  unfold wf_items in WI. rewrite Forall_forall in WI.
  assert (EA : filter (fun x => is_true (contains_v sp None None (snd x))) xs =
               filter (fun x => negb (it_pre x) && is_true (contains_v sp None (Some true) (snd x))) xs).
  { apply filter_ext_in'. intros z Hz. rewrite !is_true_contains_v by auto. unfold Filter.contains, spec_effective. rewrite A.
    destruct (it_pre z); cbn; auto. }
  rewrite EA in E. destruct (filter (fun x => negb (it_pre x) && _) xs) as [|f fs] eqn:F.
  - inversion E; subst ys. apply filter_In in Hx as [_ Hx]. apply andb_prop in Hx as [Hx _]. tauto.
  - inversion E; subst ys. rewrite <- F in Hx. apply filter_In in Hx as [_ Hx]. apply andb_prop in Hx as [Hx _].
    apply negb_true_iff in Hx. rewrite Hx. split; discriminate.
Qed.

(* ---------------------------------------------------------------- SpecifierSet.filter *)
Definition mm (m : member) (x : item) : bool := mmatch m (snd x).
Lemma wf_items_filter p xs : wf_items xs -> wf_items (filter p xs).
Proof. unfold wf_items. rewrite !Forall_forall. intros H x Hx. apply filter_In in Hx as [Hx _]. auto. Qed.
Lemma member_filter_explicit m b xs : wf_member (m_sp m) -> wf_items xs ->
  spec_filter_v (m_sp m) (m_ov m) (Some b) xs = Some (filter (SetModel.s_contains member item it_pre mm b m) xs).
Proof.
  intros W WI. rewrite spec_filter_v_is, Filter.C06_filter_is_spec by assumption. reflexivity.
Qed.
Lemma chain_filter_is b l : Forall (fun m => wf_member (m_sp m)) l -> forall xs, wf_items xs ->
  chain_filter b l xs = Some (SetModel.chain member item it_pre mm b l xs).
Proof.
  induction 1 as [|m l Wm W IH]; intros xs WI; cbn [chain_filter]; auto.
  rewrite member_filter_explicit by assumption. rewrite IH by now apply wf_items_filter. reflexivity.
Qed.
(* ---- the single-pass filter of the code (SetsModel.one_pass) is the chain of member filters, for ALL members (no wf premise: escapes included) *)
Fixpoint mfilter (b : bool) (m : member) (xs : list item) : option (list item) :=
  match xs with
  | [] => Some []
  | x :: t => match contains_v (m_sp m) (m_ov m) (Some b) (snd x) with
              | Ans true => option_map (cons x) (mfilter b m t)
              | Ans false => mfilter b m t
              | _ => None
              end
  end.
Lemma contains_v_true_not_deferred sp o b (x : item) : contains_v sp o (Some b) (snd x) = Ans true ->
  it_pre x && negb (truthy (Some b) || effective_pre o sp) = false.
Proof.
  unfold contains_v, it_pre. cbn [truthy]. destruct (is_prerelease (snd x)); cbn [andb]; auto. destruct b; cbn [negb orb]; auto. discriminate.
Qed.
Lemma sf_loop_explicit sp o b xs : forall y out,
  sf_loop sp o (Some b) b xs (y, out, []) =
  match mfilter b {| m_sp := sp; m_ov := o |} xs with Some r => Some (y || nonempty_l r, rev r ++ out, []) | None => None end.
Proof.
  induction xs as [|x xs IH]; intros y out; cbn [sf_loop mfilter m_sp m_ov].
  - cbn. now rewrite orb_false_r.
  - destruct (contains_v sp o (Some b) (snd x)) as [[|]| |] eqn:E; auto.
    rewrite (contains_v_true_not_deferred sp o b x E), IH. cbn [m_sp m_ov].
    destruct (mfilter b _ xs) as [r|]; cbn [option_map]; auto. cbn [nonempty_l rev]. rewrite <- app_assoc. cbn [app]. now rewrite orb_true_r.
Qed.
Lemma spec_filter_explicit m b xs : spec_filter_v (m_sp m) (m_ov m) (Some b) xs = mfilter b m xs.
Proof.
  unfold spec_filter_v. rewrite sf_loop_explicit. destruct m as [sp o]. cbn [m_sp m_ov].
  destruct (mfilter b _ xs) as [r|]; auto. f_equal. destruct (negb _); cbn [rev]; rewrite ?app_nil_r; apply rev_involutive.
Qed.
Definition obind' {A B} (x : option A) (f : A -> option B) : option B := match x with Some a => f a | None => None end.
Lemma one_pass_nil b xs : one_pass b [] xs = Some xs.
Proof. induction xs as [|x xs IH]; cbn [one_pass all_members]; auto. now rewrite IH. Qed.
Lemma one_pass_cons b m l xs : one_pass b (m :: l) xs = obind' (mfilter b m xs) (one_pass b l).
Proof.
  induction xs as [|x xs IH]; cbn [one_pass all_members mfilter]; auto.
  destruct (contains_v (m_sp m) (m_ov m) (Some b) (snd x)) as [[|]| |]; cbn [obind']; auto.
  rewrite IH. destruct (mfilter b m xs) as [r|]; cbn [option_map obind' one_pass].
  - reflexivity.
  - destruct (all_members (Some b) (snd x) l) as [[|]| |]; reflexivity.
Qed.
Theorem chain_is_one_pass b l : forall xs, chain_filter b l xs = one_pass b l xs.
Proof.
  induction l as [|m l IH]; intros xs; cbn [chain_filter].
  - now rewrite one_pass_nil.
  - rewrite one_pass_cons, spec_filter_explicit. destruct (mfilter b m xs); cbn [obind']; auto.
Qed.
Lemma set_cont_item eff l x : SetModel.set_contains member item it_pre mm (fun y => y) eff false l x = set_cont eff false l (snd x).
Proof. reflexivity. Qed.
Theorem set_filter_exact S arg xs : ms S <> [] -> wf_set S -> wf_items xs ->
  set_filter_v S arg xs = Some (filter (fun x => is_true (set_contains_v S arg None (snd x))) xs).
Proof.
  intros NE W WI. unfold set_filter_v. fold (eff_arg S arg). destruct (ms S) as [|m l] eqn:E; [congruence|]. rewrite <- E in *.
  rewrite <- chain_is_one_pass. rewrite chain_filter_is by assumption. f_equal. rewrite E at 1. rewrite (SetModel.C06_set_filter_exact member item it_pre mm (fun y => y)).
  rewrite <- E. unfold wf_items in WI. rewrite Forall_forall in WI. apply filter_ext_in'. intros x Hx.
  rewrite set_contains_v_ans by auto. rewrite set_cont_item. cbn [truthy is_true]. destruct (set_cont _ false (ms S) (snd x)); reflexivity.
Qed.
Theorem set_filter_order_irrelevant S S' arg xs : Permutation (ms S) (ms S') -> ov S = ov S' -> wf_set S -> wf_items xs ->
  set_filter_v S arg xs = set_filter_v S' arg xs.
Proof.
  intros P E W WI. assert (W' := wf_set_perm S S' P W). unfold set_filter_v. rewrite (set_pre_perm S S' P E).
  destruct (ms S) as [|m l] eqn:A, (ms S') as [|m' l'] eqn:B; auto.
  - apply Permutation_nil in P. discriminate.
  - apply Permutation_sym, Permutation_nil in P. discriminate.
  - rewrite <- A, <- B in *. rewrite <- !chain_is_one_pass. rewrite !chain_filter_is by assumption. f_equal. now apply SetModel.C06_chain_order_irrelevant.
Qed.

(* the empty set *)
Lemma ef_fold pre xs : truthy pre = false -> forall f d,
  exists d', fold_left (ef_step pre) xs (f, d) = (rev (filter (fun x => negb (it_pre x)) xs) ++ f, d') /\
             (f = [] -> filter (fun x => negb (it_pre x)) xs = [] -> d' = rev xs ++ d).
Proof.
  intros T. induction xs as [|x xs IH]; intros f d; cbn [fold_left filter rev app].
  - exists d. auto.
  - unfold ef_step at 2. rewrite T. cbn [negb]. rewrite andb_true_r. destruct (it_pre x) eqn:P; cbn [negb].
    + destruct f as [|y f]; cbn [nonempty_l].
      * destruct (IH [] (x :: d)) as (d' & E & H). exists d'. split; auto. intros _ F. rewrite (H eq_refl F). now rewrite <- app_assoc.
      * destruct (IH (y :: f) d) as (d' & E & H). exists d'. split; auto. discriminate.
    + destruct (IH (x :: f) d) as (d' & E & H). exists d'. rewrite E. cbn [rev]. rewrite <- app_assoc. split; auto. discriminate.
Qed.
Theorem empty_filter_spec pre xs :
  empty_filter pre xs =
  match pre with
  | Some true => xs
  | Some false => filter (fun x => negb (it_pre x)) xs
  | None => match filter (fun x => negb (it_pre x)) xs with [] => xs | finals => finals end
  end.
Proof.
  unfold empty_filter. destruct pre as [[|]|].
  - assert (E : forall f d, fold_left (ef_step (Some true)) xs (f, d) = (rev xs ++ f, d)).
    { induction xs as [|x xs IH]; intros f d; cbn [fold_left rev app]; auto. unfold ef_step at 2. cbn [truthy negb]. rewrite andb_false_r, IH.
      now rewrite <- app_assoc. }
    rewrite E, app_nil_r. cbn [is_none]. rewrite andb_false_r. apply rev_involutive.
  - destruct (ef_fold (Some false) xs eq_refl [] []) as (d' & E & _). rewrite E, app_nil_r. cbn [is_none]. rewrite andb_false_r. apply rev_involutive.
  - destruct (ef_fold None xs eq_refl [] []) as (d' & E & H). rewrite E, app_nil_r. cbn [is_none]. rewrite andb_true_r.
    destruct (filter (fun x => negb (it_pre x)) xs) as [|y l] eqn:F.
    + cbn [rev nonempty_l negb andb]. rewrite (H eq_refl eq_refl), app_nil_r. destruct xs; [reflexivity|].
      cbn [rev]. destruct (rev xs ++ [i]) eqn:R; [now apply app_eq_nil in R as [_ R]|]. cbn [nonempty_l]. rewrite <- R, rev_app_distr, rev_involutive. reflexivity.
    + assert (NE : nonempty_l (rev (y :: l)) = true).
      { cbn [rev]. destruct (rev l ++ [y]) eqn:R; [now apply app_eq_nil in R as [_ R]|reflexivity]. }
      rewrite NE. cbn [negb andb]. apply rev_involutive.
Qed.
(* the empty set: exact filter under the setting, except that with no setting at all it falls back to the pre-releases
   if and only if there is no final release *)
Theorem empty_set_filter S arg xs : ms S = [] ->
  set_filter_v S arg xs = Some (
    match arg, ov S with
    | None, None => match filter (fun x => negb (it_pre x)) xs with [] => xs | finals => finals end
    | _, _ => filter (fun x => is_true (set_contains_v S arg None (snd x))) xs
    end).
Proof.
  intros E. unfold set_filter_v. rewrite E. f_equal. rewrite empty_filter_spec. unfold set_pre. rewrite E.
  assert (PW : forall b c, set_contains_v S (Some b) None c = Ans (negb (negb b && is_prerelease c))).
  { intros b c. unfold set_contains_v. rewrite E. cbn [truthy all_members andb]. destruct (negb b && is_prerelease c); reflexivity. }
  assert (X : forall b, filter (fun x => is_true (set_contains_v S (Some b) None (snd x))) xs = if b then xs else filter (fun x => negb (it_pre x)) xs).
  { intros b. destruct b.
    - apply filter_id. intros x _. now rewrite PW.
    - apply filter_ext. intros x. rewrite PW. unfold it_pre. cbn [negb andb]. destruct (is_prerelease (snd x)); reflexivity. }
  destruct arg as [b|].
  - rewrite X. destruct b; reflexivity.
  - destruct (ov S) as [b|] eqn:O; auto.
    assert (Y : filter (fun x => is_true (set_contains_v S None None (snd x))) xs = filter (fun x => is_true (set_contains_v S (Some b) None (snd x))) xs).
    { apply filter_ext. intros x. unfold set_contains_v, set_pre. rewrite E, O. reflexivity. }
    rewrite Y, X. destruct b; reflexivity.
Qed.

(* ---------------------------------------------------------------- histories *)
Definition latest (ops : list op) (d : option bool) : option bool :=
  fold_left (fun d o => match o with OpSet p => p | _ => d end) ops d.
Definition after (x : obj) (ops : list op) : obj := fold_left (fun s o => fst (step s o)) ops x.
Lemma with_override_twice x p q : with_override (with_override x p) q = with_override x q.
Proof. destruct x; reflexivity. Qed.
Lemma with_override_same x : with_override x (obj_override x) = x.
Proof. destruct x as [sp o|[l o]]; reflexivity. Qed.
Lemma override_with x p : obj_override (with_override x p) = p.
Proof. destruct x; reflexivity. Qed.
(* the state reached after any history is the original object with the latest assignment as its override *)
Theorem history_state ops : forall x, after x ops = with_override x (latest ops (obj_override x)).
Proof.
  induction ops as [|o ops IH]; intros x; cbn [after latest fold_left].
  - symmetry. apply with_override_same.
  - fold (after (fst (step x o)) ops). rewrite IH. destruct o; cbn [step fst]; auto.
    rewrite with_override_twice, override_with. reflexivity.
Qed.
(* so every output depends only on the latest override, not on how it was reached *)
Theorem history_outputs x ops ops' o : latest ops (obj_override x) = latest ops' (obj_override x) ->
  snd (step (after x ops) o) = snd (step (after x ops') o).
Proof. intros E. now rewrite !history_state, E. Qed.

(* ---------------------------------------------------------------- the input list *)
Lemma coerce_spec l : forall i xs, coerce_from i l = Some xs ->
  wf_items xs /\ map fst xs = seq i (length l) /\ Forall2 (fun t x => Version t = Some (snd x)) l xs.
Proof.
  induction l as [|t l IH]; intros i xs; cbn [coerce_from].
  - intros [= <-]. repeat split; constructor.
  - destruct (Version t) as [c|] eqn:V; [|discriminate]. destruct (coerce_from (S i) l) as [ys|] eqn:E; [|discriminate]. cbn. intros [= <-].
    destruct (IH (S i) ys E) as (W & F & G). repeat split.
    + constructor; auto. cbn. eapply Version_wf; eauto.
    + cbn. now rewrite F.
    + constructor; auto.
Qed.
Lemma coerce_none l : forall i, coerce_from i l = None <-> exists t, In t l /\ Version t = None.
Proof.
  induction l as [|t l IH]; intros i; cbn [coerce_from].
  - split; [discriminate|]. intros (t & [] & _).
  - destruct (Version t) as [c|] eqn:V.
    + destruct (coerce_from (S i) l) as [ys|] eqn:E; cbn.
      * split; [discriminate|]. intros (u & [<-|Hu] & Vu); [congruence|]. assert (X : coerce_from (S i) l = None) by (apply IH; eauto). congruence.
      * split; auto. intros _. destruct (proj1 (IH (S i)) E) as (u & Hu & Vu). exists u. cbn; auto.
    + split; auto. intros _. exists t. cbn; auto.
Qed.
(* an invalid candidate anywhere in the list makes filter() raise InvalidVersion, and nothing else does *)
Theorem filter_bad_iff f texts : lift_filter f texts = FBad <-> exists t, In t texts /\ Version t = None.
Proof.
  unfold lift_filter. rewrite <- (coerce_none texts 0). destruct (coerce_from 0 texts); [|tauto]. destruct (f l); split; discriminate.
Qed.
Theorem spec_filter_exact_top sp o arg texts xs : wf_member sp -> coerce_from 0 texts = Some xs ->
  (arg <> None \/ o <> None \/ auto_pre sp = true) ->
  spec_filter sp o arg texts = FOk (map fst (filter (fun x => is_true (contains_v sp o arg (snd x))) xs)).
Proof.
  intros W C H. unfold spec_filter, lift_filter. rewrite C. destruct (coerce_spec _ _ _ C) as (WI & _). now rewrite spec_filter_exact.
Qed.
Theorem set_filter_exact_top S arg texts xs : ms S <> [] -> wf_set S -> coerce_from 0 texts = Some xs ->
  set_filter S arg texts = FOk (map fst (filter (fun x => is_true (set_contains_v S arg None (snd x))) xs)).
Proof.
  intros NE W C. unfold set_filter, lift_filter. rewrite C. destruct (coerce_spec _ _ _ C) as (WI & _). now rewrite set_filter_exact.
Qed.
Print Assumptions chain_is_one_pass.
Print Assumptions spec_filter_exact.
Print Assumptions set_filter_exact.
Print Assumptions empty_set_filter.
Print Assumptions history_outputs.
