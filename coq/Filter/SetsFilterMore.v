(* C06, second round: contains() depends on (override, argument) only through the effective setting; general monotonicity for
   contains and filter (the fall-back included); the layers of the effective setting for sets built from Specifier objects and for
   a & b (the member's own override is a FOURTH layer); text-level fall-back corollaries without wf premises;
   Specifier.filter of == specifiers (C10). *)
From Coq Require Import List Arith NArith Bool Lia Permutation.
Import ListNotations.
Require Filter SpecEqual.
Require Import S1 VParse VDec Py VMeaning VCmp SpecModel SpecParse Prefix Canon CanonLaws SpecContains SpecLink SetModel SetsModel SetsBridge SetsFs SetsLaws SetsLink
               SetsFilter SetsEqual VKeyEq.
Open Scope N_scope.
Arguments N.eqb : simpl never.
Arguments N.leb : simpl never.

(* ---------------------------------------------------------------- contains: only the effective setting matters *)
Theorem contains_only_effective sp o arg item : contains sp o arg item = contains sp None (Some (spec_effective sp o arg)) item.
Proof. unfold contains, spec_effective, effective_pre. destruct arg as [b|]; [reflexivity|]. destruct o; reflexivity. Qed.
Corollary contains_same_effective sp o arg o' arg' item : spec_effective sp o arg = spec_effective sp o' arg' ->
  contains sp o arg item = contains sp o' arg' item.
Proof. intros E. rewrite (contains_only_effective sp o arg), (contains_only_effective sp o' arg'), E. reflexivity. Qed.
(* enabling pre-releases by ANY of the three means (argument, constructor override, later assignment) never removes a match *)
Theorem enable_monotone_general sp o arg o' arg' item : spec_effective sp o' arg' = true ->
  contains sp o arg item = Ans true -> contains sp o' arg' item = Ans true.
Proof.
  intros E. rewrite (contains_only_effective sp o arg), (contains_only_effective sp o' arg'), E.
  destruct (spec_effective sp o arg); auto. apply spec_enable_monotone.
Qed.
(* ... and disabling never adds one *)
Corollary disable_antitone_general sp o arg o' arg' item b : spec_effective sp o arg = false ->
  contains sp o arg item = Ans true -> contains sp o' arg' item = Ans b -> b = true.
Proof.
  intros E H H'. destruct (spec_effective sp o' arg') eqn:E'.
  - rewrite (enable_monotone_general sp o arg o' arg' item E' H) in H'. congruence.
  - rewrite (contains_same_effective sp o' arg' o arg item) in H' by congruence. congruence.
Qed.

Theorem set_contains_only_effective S arg inst item :
  set_contains S arg inst item = set_contains S (Some (set_effective S arg)) inst item.
Proof.
  destruct arg as [b|]; [reflexivity|]. unfold set_contains. destruct (Version item) as [c|]; auto.
  unfold set_contains_v, set_effective, set_pre. destruct (ov S) as [b|]; [reflexivity|].
  destruct (ms S) as [|m l]; reflexivity.
Qed.
Corollary set_contains_same_effective S S' arg arg' inst item : ms S = ms S' -> set_effective S arg = set_effective S' arg' ->
  set_contains S arg inst item = set_contains S' arg' inst item.
Proof.
  intros M E. rewrite (set_contains_only_effective S arg), (set_contains_only_effective S' arg'), E.
  unfold set_contains, set_contains_v. now rewrite M.
Qed.
(* with an explicit setting a member's own override is not consulted: the conjunction depends on the members' _spec only *)
Lemma all_members_sp b c l : forall l', map m_sp l = map m_sp l' -> all_members (Some b) c l = all_members (Some b) c l'.
Proof.
  induction l as [|m l IH]; intros [|m' l'] E; try discriminate; auto. cbn [map] in E. injection E as E1 E2.
  cbn [all_members]. assert (X : contains_v (m_sp m) (m_ov m) (Some b) c = contains_v (m_sp m') (m_ov m') (Some b) c) by (unfold contains_v; now rewrite E1).
  rewrite X. destruct (contains_v (m_sp m') (m_ov m') (Some b) c) as [[|]| |]; auto.
Qed.
(* S' : the same member SPECIFIERS under any other overrides - of the set (constructor, later assignment) and of the members themselves
   (the fourth layer).  Enabling pre-releases by any of these means, or by the argument, never removes a match. *)
Theorem set_enable_monotone_general S S' arg arg' inst item : map m_sp (ms S) = map m_sp (ms S') -> set_effective S' arg' = true ->
  set_contains S arg inst item = Ans true -> set_contains S' arg' inst item = Ans true.
Proof.
  intros M E. rewrite (set_contains_only_effective S arg), (set_contains_only_effective S' arg'), E.
  unfold set_contains. destruct (Version item) as [c|]; [|discriminate]. unfold set_contains_v. cbn [truthy negb andb].
  destruct (set_effective S arg); cbn [negb andb].
  - destruct (if truthy inst && is_prerelease c then Version (base_str c) else Some c) as [c'|]; auto. now rewrite (all_members_sp true c' (ms S) (ms S') M).
  - destruct (is_prerelease c) eqn:P; [discriminate|]. rewrite andb_false_r.
    rewrite (all_members_final (Some false) (Some true) c (ms S) P). now rewrite (all_members_sp true c (ms S) (ms S') M).
Qed.
(* ---------------------------------------------------------------- filter: monotone in the effective setting *)
Lemma filter_incl_impl {X} (p q : X -> bool) l : (forall x, In x l -> p x = true -> q x = true) -> incl (filter p l) (filter q l).
Proof. intros H x Hx. apply filter_In in Hx as [I P]. apply filter_In. auto. Qed.
Lemma is_true_monotone sp o arg (x : SetsModel.item) : wf_member sp -> VMeaning.wf_version (snd x) ->
  is_true (contains_v sp o arg (snd x)) = true -> is_true (contains_v sp None (Some true) (snd x)) = true.
Proof.
  intros W Wx. rewrite !is_true_contains_v by auto. unfold Filter.contains. cbn [spec_effective negb]. rewrite andb_false_r.
  destruct (it_pre x && negb _); [discriminate|auto].
Qed.
(* whatever filter() returned under one setting (the fall-back included) is returned when pre-releases are enabled *)
Theorem spec_filter_monotone sp o arg o' arg' xs ys : wf_member sp -> wf_items xs -> spec_effective sp o' arg' = true ->
  spec_filter_v sp o arg xs = Some ys ->
  exists zs, spec_filter_v sp o' arg' xs = Some zs /\ incl ys zs /\ zs = filter (fun x => is_true (contains_v sp None (Some true) (snd x))) xs.
Proof.
  intros W WI E H. pose proof WI as WI0. unfold wf_items in WI0. rewrite Forall_forall in WI0.
  assert (X : spec_filter_v sp o' arg' xs = Some (filter (fun x => is_true (contains_v sp None (Some true) (snd x))) xs)).
  { rewrite spec_filter_exact; auto.
    - f_equal. apply filter_ext_in'. intros x Hx. rewrite !is_true_contains_v by auto. now rewrite E.
    - unfold spec_effective in E. destruct arg'; [left; discriminate|]. destruct o'; [right; left; discriminate|]. right. right. exact E. }
  eexists. split; [exact X|]. split; [|reflexivity].
  destruct arg as [a|] eqn:EA; [|destruct o as [b|] eqn:EO; [|destruct (auto_pre sp) eqn:AP]].
  - rewrite spec_filter_exact in H; [|assumption|assumption|left; discriminate]. inversion H; subst ys. apply filter_incl_impl. intros x Hx. apply is_true_monotone; auto.
  - rewrite spec_filter_exact in H; [|assumption|assumption|right; left; discriminate]. inversion H; subst ys. apply filter_incl_impl. intros x Hx. apply is_true_monotone; auto.
  - rewrite spec_filter_exact in H; [|assumption|assumption|right; right; exact AP]. inversion H; subst ys. apply filter_incl_impl. intros x Hx. apply is_true_monotone; auto.
  - rewrite (spec_filter_fallback sp xs W WI AP) in H. cbv zeta in H. inversion H; subst ys.
    destruct (filter (fun x => is_true (contains_v sp None None (snd x))) xs) as [|f fs] eqn:F.
    + intros x Hx. apply filter_In in Hx as [I P]. apply filter_In. split; auto. now apply andb_prop in P as [_ P].
    + rewrite <- F. apply filter_incl_impl. intros x Hx. apply is_true_monotone; auto.
Qed.
Theorem set_filter_monotone S S' arg arg' xs ys : ms S = ms S' -> ms S <> [] -> wf_set S -> wf_items xs -> set_effective S' arg' = true ->
  set_filter_v S arg xs = Some ys -> exists zs, set_filter_v S' arg' xs = Some zs /\ incl ys zs.
Proof.
  intros M NE W WI E H. assert (W' : wf_set S') by (unfold wf_set in *; now rewrite <- M). assert (NE' : ms S' <> []) by now rewrite <- M.
  rewrite (set_filter_exact S arg xs NE W WI) in H. inversion H; subst ys. rewrite (set_filter_exact S' arg' xs NE' W' WI).
  eexists. split; [reflexivity|]. apply filter_incl_impl. intros x Hx P.
  unfold wf_items in WI. rewrite Forall_forall in WI.
  assert (V : Version (vstr (snd x)) = Some (snd x)) by (apply Version_vstr; auto).
  assert (A : set_contains S arg None (vstr (snd x)) = Ans true).
  { rewrite set_contains_split, V. destruct (set_contains_v S arg None (snd x)) as [[|]| |]; try discriminate; reflexivity. }
  pose proof (set_enable_monotone_general S S' arg arg' None (vstr (snd x)) (f_equal (map m_sp) M) E A) as Bq. rewrite set_contains_split, V in Bq. now rewrite Bq.
Qed.
(* the empty set with its fall-back: everything returned under any setting is returned once pre-releases are enabled (= the whole list) *)
Theorem empty_filter_monotone S S' arg arg' xs : ms S = [] -> ms S' = [] -> set_effective S' arg' = true ->
  set_filter_v S' arg' xs = Some xs /\ forall ys, set_filter_v S arg xs = Some ys -> incl ys xs.
Proof.
  intros M M' E. split.
  - unfold set_filter_v. rewrite M'. rewrite empty_filter_spec.
    unfold set_effective in E. rewrite M' in E. unfold set_pre. rewrite M'.
    destruct arg' as [b|]; [cbn in E; subst b; reflexivity|]. destruct (ov S') as [b|]; [subst b; reflexivity|]. discriminate.
  - intros ys. unfold set_filter_v. rewrite M, empty_filter_spec. intros H. inversion H; subst ys.
    destruct (match arg with Some _ => arg | None => set_pre S end) as [[|]|]; try apply incl_refl; try apply incl_filter.
    destruct (filter (fun x => negb (it_pre x)) xs) eqn:F; [apply incl_refl|]. rewrite <- F. apply incl_filter.
Qed.

(* ---------------------------------------------------------------- the layers of the effective setting *)
(* sets built from Specifier OBJECTS: argument, else the set's override, else some member whose OWN override is True or which
   (having no override) names a pre-release - the member's own override is a fourth layer *)
Definition member_enables (m : member) : bool := match m_ov m with Some b => b | None => auto_pre (m_sp m) end.
Lemma m_pre_is_member_enables m : m_pre m = member_enables m.
Proof. reflexivity. Qed.
Theorem object_set_effective l p arg :
  set_effective (SpecifierSet_of l p) arg =
  match arg with Some b => b | None => match p with Some b => b | None => existsb member_enables (fs_of l) end end.
Proof. reflexivity. Qed.
(* the members consulted are first occurrences of the supplied list: each is one of the supplied objects, and every supplied object
   is == to one of them *)
Theorem object_set_members l p : (forall m, In m (ms (SpecifierSet_of l p)) -> In m l) /\
  (forall x, In x l -> exists m, In m (ms (SpecifierSet_of l p)) /\ m_eqb m x = true).
Proof.
  split; cbn [SpecifierSet_of ms].
  - intros m. apply in_fs_of.
  - intros x Hx. assert (M : fs_mem x (fs_of l) = true).
    { unfold fs_of. rewrite fs_mem_fs_union. apply orb_true_iff. right. apply fs_mem_iff. eauto. }
    apply fs_mem_iff in M as (z & Hz & Kz). exists z. split; auto. now apply m_eqb_eq.
Qed.
(* the gate spelled out for such a set: a matched pre-release candidate was enabled by one of the four layers *)
Theorem object_set_gate l p arg inst item c : Version item = Some c -> is_prerelease c = true ->
  set_contains (SpecifierSet_of l p) arg inst item = Ans true ->
  arg = Some true \/ (arg = None /\ p = Some true) \/
  (arg = None /\ p = None /\ exists m, In m l /\ (m_ov m = Some true \/ (m_ov m = None /\ auto_pre (m_sp m) = true))).
Proof.
  intros V P H. pose proof (set_gate _ arg inst item c V P H) as G. rewrite object_set_effective in G.
  destruct arg as [b|]; [left; now subst|]. destruct p as [b|]; [right; left; now subst|]. right. right. split; auto. split; auto.
  apply existsb_exists in G as (m & Hm & Em). exists m. split; [now apply in_fs_of|].
  unfold member_enables in Em. destruct (m_ov m) as [b|]; [left; now subst|right; auto].
Qed.
(* when == members of the supplied list carry the same override, the first-occurrence detail disappears *)
Lemma existsb_negb_forallb {X} (P : X -> bool) l : existsb P l = negb (forallb (fun x => negb (P x)) l).
Proof. induction l as [|x l IH]; cbn; auto. rewrite IH, negb_andb, negb_involutive. reflexivity. Qed.
Lemma existsb_fs_union (P : member -> bool) a b :
  (forall x y, In x (a ++ b) -> In y (a ++ b) -> m_eqb x y = true -> P x = P y) ->
  existsb P (fs_union a b) = existsb P a || existsb P b.
Proof.
  intros R. rewrite !existsb_negb_forallb, forallb_fs_union.
  - now rewrite negb_andb.
  - intros x y Hx Hy E. now rewrite (R x y Hx Hy E).
Qed.
Lemma existsb_fs_of (P : member -> bool) l :
  (forall x y, In x l -> In y l -> m_eqb x y = true -> P x = P y) -> existsb P (fs_of l) = existsb P l.
Proof. intros R. unfold fs_of. rewrite existsb_fs_union; auto. Qed.
Definition pre_coherent (l : list member) : Prop := forall x y, In x l -> In y l -> m_eqb x y = true -> m_pre x = m_pre y.
Theorem object_set_effective_all l p arg : pre_coherent l ->
  set_effective (SpecifierSet_of l p) arg =
  match arg with Some b => b | None => match p with Some b => b | None => existsb member_enables l end end.
Proof. intros C. rewrite object_set_effective. destruct arg; auto. destruct p; auto. now apply existsb_fs_of. Qed.
(* a & b: argument, else the override carried over (left operand's first), else some member of either operand *)
Theorem and_effective A B C arg : set_and A B = Some C ->
  set_effective C arg =
  match arg with
  | Some b => b
  | None => match ov A with Some x => x | None => match ov B with Some y => y | None => existsb m_pre (fs_union (ms A) (ms B)) end end
  end.
Proof.
  unfold set_and. destruct (ov A) as [[|]|] eqn:OA, (ov B) as [[|]|] eqn:OB; cbn [SetModel.merge Bool.eqb]; intros [= <-];
    unfold set_effective; cbn [ov ms]; destruct arg; reflexivity.
Qed.
Theorem and_effective_all A B C arg : set_and A B = Some C -> pre_coherent (ms A ++ ms B) ->
  set_effective C arg =
  match arg with
  | Some b => b
  | None => match ov A with Some x => x | None => match ov B with Some y => y | None => existsb m_pre (ms A) || existsb m_pre (ms B) end end
  end.
Proof. intros E R. rewrite (and_effective A B C arg E). now rewrite existsb_fs_union. Qed.
(* members built from texts have no override of their own, so the premise holds and the third layer is "names a pre-release" *)
Lemma text_sets_pre_coherent a b pa pb A B : SpecifierSet a pa = Some A -> SpecifierSet b pb = Some B -> pre_coherent (ms A ++ ms B).
Proof.
  intros HA HB x y Hx Hy E.
  destruct (text_set_invariants a pa A HA) as (_ & BA & PA & _). destruct (text_set_invariants b pb B HB) as (_ & BB & PB & _).
  assert (P : Forall (fun m => m_ov m = None) (ms A ++ ms B)) by (apply Forall_app; split; assumption).
  assert (Bl : Forall built (ms A ++ ms B)) by (apply Forall_app; split; assumption).
  rewrite Forall_forall in P, Bl. unfold m_pre. rewrite (P x Hx), (P y Hy). cbn [effective_pre].
  destruct (Bl x Hx) as (tx & Tx), (Bl y Hy) as (ty & Ty). apply (auto_pre_equal_keys tx ty); auto. now apply m_eqb_eq in E.
Qed.
Theorem and_effective_text a b pa pb A B C arg : SpecifierSet a pa = Some A -> SpecifierSet b pb = Some B -> set_and A B = Some C ->
  set_effective C arg =
  match arg with
  | Some x => x
  | None => match pa with Some x => x | None => match pb with Some y => y | None =>
              existsb (fun m => auto_pre (m_sp m)) (ms A) || existsb (fun m => auto_pre (m_sp m)) (ms B) end end
  end.
Proof.
  intros HA HB E. rewrite (and_effective_all A B C arg E (text_sets_pre_coherent a b pa pb A B HA HB)).
  destruct (SpecifierSet_fs_ok a pa A HA) as (_ & OA & FA). destruct (SpecifierSet_fs_ok b pb B HB) as (_ & OB & FB). rewrite OA, OB.
  destruct arg; auto. destruct pa; auto. destruct pb; auto. rewrite Forall_forall in FA, FB. f_equal; apply existsb_ext_in; intros m Hm; unfold m_pre.
  - now rewrite (FA m Hm).
  - now rewrite (FB m Hm).
Qed.

(* ---------------------------------------------------------------- text-level fall-back corollaries (no wf premises) *)
Theorem spec_filter_fallback_text s sp texts xs : Specifier s = Some sp -> coerce_from 0 texts = Some xs -> auto_pre sp = false ->
  let accepted := filter (fun x => is_true (contains_v sp None None (snd x))) xs in
  let pres := filter (fun x => it_pre x && is_true (contains_v sp None (Some true) (snd x))) xs in
  spec_filter sp None None texts = FOk (map fst (match accepted with [] => pres | _ => accepted end)).
Proof.
  intros H C A. cbv zeta. unfold spec_filter, lift_filter. rewrite C. destruct (coerce_spec _ _ _ C) as (WI & _).
  rewrite (spec_filter_fallback sp xs (Specifier_wf_member s sp H) WI A). reflexivity.
Qed.
(* pre-releases are returned if and only if no final release matched; stated on the positions of the input list *)
Theorem spec_filter_fallback_iff_text s sp texts xs ps : Specifier s = Some sp -> coerce_from 0 texts = Some xs -> auto_pre sp = false ->
  spec_filter sp None None texts = FOk ps ->
  exists ys, ps = map fst ys /\ incl ys xs /\
    forall x, In x ys -> (it_pre x = true <-> filter (fun x => negb (it_pre x) && is_true (contains_v sp None (Some true) (snd x))) xs = []).
Proof.
  intros H C A E. unfold spec_filter, lift_filter in E. rewrite C in E. destruct (coerce_spec _ _ _ C) as (WI & _).
  pose proof (Specifier_wf_member s sp H) as W.
  destruct (spec_filter_v sp None None xs) as [ys|] eqn:F; [|discriminate]. inversion E; subst ps. exists ys. split; auto. split.
  - rewrite (spec_filter_fallback sp xs W WI A) in F. cbv zeta in F. inversion F; subst ys.
    destruct (filter (fun x => is_true (contains_v sp None None (snd x))) xs) eqn:G; [apply incl_filter|]. rewrite <- G. apply incl_filter.
  - exact (spec_filter_fallback_iff sp xs ys W WI A F).
Qed.
Theorem empty_set_filter_text s p S arg texts xs : SpecifierSet s p = Some S -> ms S = [] -> coerce_from 0 texts = Some xs ->
  set_filter S arg texts = FOk (map fst (
    match arg, p with
    | None, None => match filter (fun x => negb (it_pre x)) xs with [] => xs | finals => finals end
    | _, _ => filter (fun x => is_true (set_contains_v S arg None (snd x))) xs
    end)).
Proof.
  intros H M C. unfold set_filter, lift_filter. rewrite C, (empty_set_filter S arg xs M).
  destruct (SpecifierSet_fs_ok s p S H) as (_ & O & _). rewrite O. reflexivity.
Qed.

(* ---------------------------------------------------------------- Specifier.filter of == specifiers (C10) *)
Lemma contains_v_equal_keys a b sp sp' o arg c : Specifier a = Some sp -> Specifier b = Some sp' -> spec_key sp = spec_key sp' ->
  VMeaning.wf_version c -> contains_v sp o arg c = contains_v sp' o arg c.
Proof.
  intros Sa Sb K Wc. pose proof (SpecEqual.equal_specifiers_same_matches a b sp sp' o arg (vstr c) Sa Sb K) as H.
  rewrite !contains_split, (Version_vstr c Wc) in H. exact H.
Qed.
Lemma sf_loop_equal_keys a b sp sp' o prer kw xs : Specifier a = Some sp -> Specifier b = Some sp' -> spec_key sp = spec_key sp' ->
  wf_items xs -> forall st, sf_loop sp o prer kw xs st = sf_loop sp' o prer kw xs st.
Proof.
  intros Sa Sb K WI. induction WI as [|x xs Wx WI IH]; intros [[y out] d]; cbn [sf_loop]; auto.
  rewrite (contains_v_equal_keys a b sp sp' o (Some kw) (snd x) Sa Sb K Wx).
  unfold effective_pre. rewrite (auto_pre_equal_keys a b sp sp' Sa Sb K).
  destruct (contains_v sp' o (Some kw) (snd x)) as [[|]| |]; auto.
  destruct (it_pre x && negb _); apply IH.
Qed.
(* == specifiers filter alike: same positions returned (or InvalidVersion alike), for every override, argument and input list *)
Theorem spec_filter_equal_keys a b sp sp' o arg texts : Specifier a = Some sp -> Specifier b = Some sp' -> spec_key sp = spec_key sp' ->
  spec_filter sp o arg texts = spec_filter sp' o arg texts.
Proof.
  intros Sa Sb K. unfold spec_filter, lift_filter. destruct (coerce_from 0 texts) as [xs|] eqn:C; auto.
  destruct (coerce_spec _ _ _ C) as (WI & _). unfold spec_filter_v.
  now rewrite (sf_loop_equal_keys a b sp sp' o _ _ xs Sa Sb K WI).
Qed.

(* ---------------------------------------------------------------- filter of a filter *)
Lemma filter_filter_same {X} (p : X -> bool) l : filter p (filter p l) = filter p l.
Proof. induction l as [|x l IH]; cbn; auto. destruct (p x) eqn:E; cbn; rewrite ?E, IH; reflexivity. Qed.
Lemma filter_filter_and {X} (p q : X -> bool) l : filter p (filter q l) = filter (fun x => q x && p x) l.
Proof. induction l as [|x l IH]; cbn; auto. destruct (q x); cbn; [destruct (p x)|]; now rewrite IH. Qed.
Lemma filter_nil_sub {X} (p q : X -> bool) l : filter p l = [] -> filter p (filter q l) = [].
Proof.
  intros H. rewrite filter_filter_and. induction l as [|x l IH]; cbn in *; auto.
  destruct (p x) eqn:E; [discriminate|]. rewrite andb_false_r. auto.
Qed.
(* Specifier.filter is idempotent - the fall-back included: filtering its own output (same override, same argument) changes nothing *)
Theorem spec_filter_idempotent sp o arg xs ys : wf_member sp -> wf_items xs ->
  spec_filter_v sp o arg xs = Some ys -> spec_filter_v sp o arg ys = Some ys.
Proof.
  intros W WI H.
  destruct arg as [a|] eqn:EA; [|destruct o as [b|] eqn:EO; [|destruct (auto_pre sp) eqn:AP]].
  - rewrite spec_filter_exact in H; [|assumption|assumption|left; discriminate]. inversion H; subst ys.
    rewrite spec_filter_exact; [|assumption|now apply wf_items_filter|left; discriminate]. now rewrite filter_filter_same.
  - rewrite spec_filter_exact in H; [|assumption|assumption|right; left; discriminate]. inversion H; subst ys.
    rewrite spec_filter_exact; [|assumption|now apply wf_items_filter|right; left; discriminate]. now rewrite filter_filter_same.
  - rewrite spec_filter_exact in H; [|assumption|assumption|right; right; exact AP]. inversion H; subst ys.
    rewrite spec_filter_exact; [|assumption|now apply wf_items_filter|right; right; exact AP]. now rewrite filter_filter_same.
  - rewrite (spec_filter_fallback sp xs W WI AP) in H. cbv zeta in H. inversion H; subst ys. clear H.
    destruct (filter (fun x => is_true (contains_v sp None None (snd x))) xs) as [|f fs] eqn:F.
    + rewrite (spec_filter_fallback sp _ W (wf_items_filter _ xs WI) AP). cbv zeta.
      rewrite (filter_nil_sub _ _ xs F). now rewrite filter_filter_same.
    + rewrite <- F. rewrite (spec_filter_fallback sp _ W (wf_items_filter _ xs WI) AP). cbv zeta.
      rewrite filter_filter_same, F. reflexivity.
Qed.
Theorem set_filter_idempotent S arg xs ys : wf_set S -> wf_items xs -> set_filter_v S arg xs = Some ys -> set_filter_v S arg ys = Some ys.
Proof.
  intros W WI H. destruct (nil_or_not (ms S)) as [E|NE].
  - rewrite (empty_set_filter S arg xs E) in H. inversion H; subst ys. clear H. rewrite (empty_set_filter S arg _ E). f_equal.
    destruct arg as [a|]; [now rewrite filter_filter_same|]. destruct (ov S); [now rewrite filter_filter_same|].
    destruct (filter (fun x => negb (it_pre x)) xs) as [|f fs] eqn:F.
    + now rewrite F.
    + rewrite <- F, filter_filter_same, F. reflexivity.
  - rewrite (set_filter_exact S arg xs NE W WI) in H. inversion H; subst ys.
    rewrite (set_filter_exact S arg _ NE W (wf_items_filter _ xs WI)). now rewrite filter_filter_same.
Qed.

Definition forallb2 (a b : list item) : bool := Nat.eqb (length a) (length b) && forallb (fun p => Nat.eqb (fst (fst p)) (fst (snd p))) (combine a b).
(* non-vacuity, each conjunct instantiating the hypotheses of a theorem above on ONE input:
   - monotone contains: Specifier(">=1.0", prereleases=False).contains("2.0") is True (effective setting false) and stays True with the
     argument True; 1.5a1 is rejected under the override False and accepted under the argument True;
   - monotone filter, the SAME list ["1.5a1", "0.1"]: the fall-back returns [1.5a1], filter(prereleases=True) returns [1.5a1] too;
     on ["1.5a1", "2.0"] the fall-back is not taken and returns [2.0], which is included in [1.5a1, 2.0];
   - idempotence on the fall-back: filtering the fall-back's own output [1.5a1] returns it again;
   - ">=1.0" and ">=1" filter alike; the fourth layer: SpecifierSet([Specifier(">=1.0", prereleases=True)]) enables pre-releases;
   - monotone set contains across MEMBER overrides: the member without override rejects 2.0a1 ... accepts it once the member has True;
   - pre_coherent: [>=1 (True); >=1.0 (True)] are == with the same .prereleases and either supply order gives prereleases True *)
Definition c06more_check : bool :=
  match Specifier [62;61;49;46;48], Specifier [62;61;49] with
  | Some sp, Some sp' =>
      let pre1 := [49;46;53;97;49] in let low := [48;46;49] in let two := [50;46;48] in
      (match contains sp (Some false) None two, contains sp None (Some true) two with Ans true, Ans true => true | _, _ => false end)
      && negb (spec_effective sp (Some false) None) && spec_effective sp None (Some true)
      && (match contains sp (Some false) None pre1, contains sp None (Some true) pre1 with Ans false, Ans true => true | _, _ => false end)
      && (match spec_filter sp None None [pre1; low], spec_filter sp None (Some true) [pre1; low] with FOk [0%nat], FOk [0%nat] => true | _, _ => false end)
      && (match spec_filter sp None None [pre1; two], spec_filter sp (Some true) None [pre1; two] with FOk [1%nat], FOk [0%nat; 1%nat] => true | _, _ => false end)
      && (match coerce_from 0 [pre1; low] with
          | Some xs => match spec_filter_v sp None None xs with
                       | Some ys => (match ys with [y] => it_pre y | _ => false end) &&
                                    (match spec_filter_v sp None None ys with Some zs => Nat.eqb (length zs) 1 && forallb2 zs ys | None => false end)
                       | None => false end
          | None => false end)
      && (match spec_filter sp None None [pre1], spec_filter sp' None None [pre1] with FOk [0%nat], FOk [0%nat] => true | _, _ => false end)
      && set_effective (SpecifierSet_of [{| m_sp := sp; m_ov := Some true |}] None) None
      && negb (set_effective (SpecifierSet_of [{| m_sp := sp; m_ov := None |}] None) None)
      && (match set_contains (SpecifierSet_of [{| m_sp := sp; m_ov := None |}] None) None None two,
                set_contains (SpecifierSet_of [{| m_sp := sp; m_ov := Some true |}] None) None None two,
                set_contains (SpecifierSet_of [{| m_sp := sp; m_ov := None |}] None) None None [50;46;48;97;49],
                set_contains (SpecifierSet_of [{| m_sp := sp; m_ov := Some true |}] None) None None [50;46;48;97;49] with
          | Ans true, Ans true, Ans false, Ans true => true | _, _, _, _ => false end)
      && (let a := {| m_sp := sp'; m_ov := Some true |} in let b := {| m_sp := sp; m_ov := Some true |} in
          m_eqb a b && Bool.eqb (m_pre a) (m_pre b) &&
          set_effective (SpecifierSet_of [a; b] None) None && set_effective (SpecifierSet_of [b; a] None) None)
  | _, _ => false
  end.
Example c06more_nonvacuous : c06more_check = true.
Proof. vm_compute. reflexivity. Qed.

Print Assumptions enable_monotone_general.
Print Assumptions set_enable_monotone_general.
Print Assumptions spec_filter_monotone.
Print Assumptions set_filter_monotone.
Print Assumptions and_effective_text.
Print Assumptions spec_filter_fallback_iff_text.
Print Assumptions spec_filter_equal_keys.
Print Assumptions spec_filter_idempotent.
Print Assumptions set_filter_idempotent.
