From Coq Require Import List NArith Extraction ExtrOcamlBasic.
Require Import Dispatch.
Extraction Language OCaml.
Extraction "model.ml" run.
