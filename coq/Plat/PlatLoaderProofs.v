(* C16 / C20 - theorems about the un-stubbed musl probe (PlatLoader.v): agreement with the oracle model when nothing raises,
   the two escaping exceptions, the musl pipeline end to end on encoder images, and the memoised probes across calls. *)
From Coq Require Import List Arith NArith Bool Lia.
Import ListNotations.
Require Import Elf ElfFile ElfProofs ElfDisk ElfDiskProofs VParse VDec Tags TagsLit TagsModel TagsProofs TagsThread PlatLit PlatModel PlatProofs PlatParse PlatLoader.
Open Scope N_scope.
Arguments N.eqb : simpl never.
Arguments N.leb : simpl never.

(* ---------------------------------------------------------------- agreement with the oracle model *)
Lemma musl_loader_mem exe : musl_loader_disk mem_limits exe = musl_loader exe.
Proof.
  unfold musl_loader_disk, musl_loader. destruct exe as [f|]; [|reflexivity]. destruct (parse_header f) as [e|]; [|reflexivity].
  now rewrite <- interpreter_is_disk.
Qed.
(* when the probe stops before running anything: no tags *)
Lemma musl_x_no_loader lim exe le archs : musl_loader_disk lim exe = None -> musllinux_tags_x lim exe le archs = [].
Proof. intros H. unfold musllinux_tags_x, get_musl_version_x. now rewrite H. Qed.
(* when the loader runs, the sequence is the one of the oracle model with the loader's output *)
Theorem musl_x_agrees lim exe le archs :
  musl_loader_disk lim exe = musl_loader exe ->
  (forall ld, musl_loader exe = Some ld -> run_loader le ld = LRan (le_stderr le)) ->
  parse_musl_version_l (le_intmax le) (le_stderr le) = parse_musl_version (le_stderr le) ->
  musllinux_tags_x lim exe le archs = musllinux_tags exe (le_stderr le) archs.
Proof.
  intros A R P. unfold musllinux_tags_x, get_musl_version_x, musllinux_tags, get_musl_version, musl_render. rewrite A.
  destruct (musl_loader exe) as [ld|] eqn:E; [|reflexivity]. now rewrite (R ld eq_refl), P.
Qed.
Lemma run_loader_ok le ld : has_nul ld = false -> (le_all le = true \/ In ld (le_existing le)) -> run_loader le ld = LRan (le_stderr le).
Proof.
  intros N H. unfold run_loader. rewrite N. destruct H as [->|H]; [reflexivity|]. apply mem_spec in H. rewrite H. now rewrite orb_true_r.
Qed.
(* a loader that cannot be run - an embedded NUL in its path (ValueError) or a path that does not exist (FileNotFoundError) -
   means "no musl": no tags, and no exception (the result type has no such outcome) *)
Theorem musl_x_unrunnable lim exe le archs ld : musl_loader_disk lim exe = Some ld ->
  (has_nul ld = true -> run_loader le ld = LValueError /\ musllinux_tags_x lim exe le archs = []) /\
  (has_nul ld = false -> le_all le = false -> ~ In ld (le_existing le) ->
     run_loader le ld = LFileNotFound /\ musllinux_tags_x lim exe le archs = []).
Proof.
  intros L. unfold musllinux_tags_x, get_musl_version_x, run_loader. rewrite L. split.
  - intros ->. split; reflexivity.
  - intros -> -> H. destruct (mem ld (le_existing le)) eqn:M; [apply mem_spec in M; contradiction | split; reflexivity].
Qed.
(* for ANY executable, limits and loader environment the result is a list of musllinux tags of one version, newest first per
   architecture: either none at all or exactly the enumeration of the version the loader printed *)
Theorem musl_x_total lim exe le archs :
  musllinux_tags_x lim exe le archs = [] \/
  exists M m, musllinux_tags_x lim exe le archs = map (render3 s_musllinux_) (musl_struct (Some (M, m)) archs).
Proof.
  unfold musllinux_tags_x, musl_render. destruct (get_musl_version_x lim exe le) as [[M m]|]; [right; eauto | now left].
Qed.
(* ... and everything built on it *)
Theorem linux_x_shape is32 plat e lim le :
  (starts_with s_linux_ (normalize_string plat) = false -> linux_platforms_x is32 plat e lim le = [normalize_string plat]) /\
  (forall arch, normalize_string plat = s_linux_ ++ arch ->
     linux_platforms_x is32 plat e lim le =
     let archs := linux_archs (if is32 then remap32 arch else arch) in
     manylinux_tags_l (le_intmax le) e archs ++ musllinux_tags_x lim (m_exe e) le archs ++ map (fun a => s_linux_ ++ a) archs).
Proof.
  split.
  - intros H. unfold linux_platforms_x. cbv zeta. now rewrite H.
  - intros arch H. unfold linux_platforms_x. rewrite H, starts_with_app. cbn [negb]. destruct is32.
    + change (streq (s_linux_ ++ arch) s_linux_x86_64) with (streq arch s_x86_64).
      change (streq (s_linux_ ++ arch) s_linux_aarch64) with (streq arch s_aarch64). unfold remap32.
      destruct (streq arch s_x86_64); [reflexivity|]. destruct (streq arch s_aarch64); reflexivity.
    + reflexivity.
Qed.
Corollary linux_x_agrees is32 plat e lim le :
  musl_loader_disk lim (m_exe e) = musl_loader (m_exe e) ->
  (forall ld, musl_loader (m_exe e) = Some ld -> run_loader le ld = LRan (le_stderr le)) ->
  parse_musl_version_l (le_intmax le) (le_stderr le) = parse_musl_version (le_stderr le) ->
  get_glibc_version_l (le_intmax le) (m_confstr e) (m_ctypes e) = get_glibc_version (m_confstr e) (m_ctypes e) ->
  linux_platforms_x is32 plat e lim le = linux_platforms is32 plat e (le_stderr le).
Proof.
  intros A R P G. unfold linux_platforms_x, linux_platforms. cbv zeta. destruct (negb (starts_with s_linux_ (normalize_string plat))); [reflexivity|].
  rewrite (musl_x_agrees lim (m_exe e) le _ A R P). unfold manylinux_tags_l, manylinux_tags. now rewrite G.
Qed.

(* ---------------------------------------------------------------- the musl pipeline end to end on encoder images *)
(* an image whose first PT_INTERP entry points at the payload: the loader path is the payload without its NUL padding; it is run iff
   it contains "musl"; the tags are musllinux_<M>_<k>_<arch>, k = m .. 0, for the version the loader prints *)
Lemma payload_off_small s : wf_spec s -> payload_off s < 4194304.
Proof.
  intros [F _]. unfold payload_off.
  assert (T : total (e_sizes (s_is64 s)) <= 48 /\ total (p_sizes (s_is64 s)) <= 56) by (destruct (s_is64 s); cbv; split; discriminate).
  assert (Len : N.of_nat (length (s_phdrs s)) < 65536).
  { unfold hdr_of in F. destruct (s_is64 s); cbn [e_sizes fits] in F; decompose [and] F;
      match goal with H : N.of_nat (length (s_phdrs s)) < _ |- _ => cbn in H; lia end. }
  nia.
Qed.
Theorem musl_loader_encoded s ph : wf_spec s ->
  first_interp (s_is64 s) (s_phdrs s) = Some ph -> ph_off (s_is64 s) ph = payload_off s -> ph_size (s_is64 s) ph = flen (s_payload s) ->
  flen (s_payload s) < ssize_limit ->
  musl_loader (Some (encode s)) = if contains s_musl (strip_nul (s_payload s)) then Some (strip_nul (s_payload s)) else None.
Proof.
  intros W FI Off Sz Small. unfold musl_loader. rewrite (encode_header s W), (encode_interpreter s W), FI.
  unfold interp_result. rewrite Off, Sz. pose proof (payload_off_small s W) as PS.
  destruct (N.leb_spec ssize_limit (payload_off s)); [unfold ssize_limit in *; lia|].
  destruct (N.leb_spec ssize_limit (flen (s_payload s))); [lia|]. cbn [orb]. now rewrite (payload_read s W).
Qed.
Theorem musl_end_to_end s ph err archs : wf_spec s ->
  first_interp (s_is64 s) (s_phdrs s) = Some ph -> ph_off (s_is64 s) ph = payload_off s -> ph_size (s_is64 s) ph = flen (s_payload s) ->
  flen (s_payload s) < ssize_limit ->
  (forall M m, contains s_musl (strip_nul (s_payload s)) = true -> parse_musl_version err = Some (M, m) ->
     musllinux_tags (Some (encode s)) err archs = map (render3 s_musllinux_) (musl_struct (Some (M, m)) archs)) /\
  (contains s_musl (strip_nul (s_payload s)) = true -> parse_musl_version err = None -> musllinux_tags (Some (encode s)) err archs = []) /\
  (contains s_musl (strip_nul (s_payload s)) = false -> musllinux_tags (Some (encode s)) err archs = []).
Proof.
  intros W FI Off Sz Small. pose proof (musl_loader_encoded s ph W FI Off Sz Small) as L.
  unfold musllinux_tags, get_musl_version. rewrite L. repeat split.
  - intros M m C P. now rewrite C, P.
  - intros C P. now rewrite C, P.
  - intros C. now rewrite C.
Qed.
(* the same through the real file and the real subprocess.run: Done when the loader exists and its path has no NUL, else the exception *)
Lemma musl_loader_disk_encoded lim s ph : wf_spec s -> 4194304 <= seek_max lim ->
  first_interp (s_is64 s) (s_phdrs s) = Some ph -> ph_off (s_is64 s) ph = payload_off s -> ph_size (s_is64 s) ph = flen (s_payload s) ->
  flen (s_payload s) < read_max lim ->
  musl_loader_disk lim (Some (encode s)) = if contains s_musl (strip_nul (s_payload s)) then Some (strip_nul (s_payload s)) else None.
Proof.
  intros W SM FI Off Sz Small. unfold musl_loader_disk. rewrite (encode_header s W), (encode_interpreter_disk lim s W SM), FI.
  unfold interp_result_disk. rewrite Off, Sz. pose proof (payload_off_small s W) as PS.
  destruct (N.leb_spec (seek_max lim) (payload_off s)); [lia|].
  destruct (N.leb_spec (read_max lim) (flen (s_payload s))); [lia|]. cbn [orb]. now rewrite (payload_read s W).
Qed.
Theorem musl_end_to_end_x lim le s ph archs : wf_spec s -> 4194304 <= seek_max lim ->
  first_interp (s_is64 s) (s_phdrs s) = Some ph -> ph_off (s_is64 s) ph = payload_off s -> ph_size (s_is64 s) ph = flen (s_payload s) ->
  flen (s_payload s) < read_max lim ->
  let ld := strip_nul (s_payload s) in
  (contains s_musl ld = false -> musllinux_tags_x lim (Some (encode s)) le archs = []) /\
  (contains s_musl ld = true -> has_nul ld = true -> musllinux_tags_x lim (Some (encode s)) le archs = []) /\
  (contains s_musl ld = true -> has_nul ld = false -> le_all le = false -> ~ In ld (le_existing le) ->
     musllinux_tags_x lim (Some (encode s)) le archs = []) /\
  (contains s_musl ld = true -> has_nul ld = false -> (le_all le = true \/ In ld (le_existing le)) ->
     musllinux_tags_x lim (Some (encode s)) le archs = map (render3 s_musllinux_) (musl_struct (parse_musl_version_l (le_intmax le) (le_stderr le)) archs)).
Proof.
  intros W SM FI Off Sz Small ld. pose proof (musl_loader_disk_encoded lim s ph W SM FI Off Sz Small) as L. fold ld in L.
  split; [intros C; rewrite C in L; now apply musl_x_no_loader|].
  split; [intros C N; rewrite C in L; exact (proj2 (proj1 (musl_x_unrunnable lim _ le archs ld L) N))|].
  split; [intros C N A B; rewrite C in L; exact (proj2 (proj2 (musl_x_unrunnable lim _ le archs ld L) N A B))|].
  intros C N E. rewrite C in L. unfold musllinux_tags_x, get_musl_version_x. rewrite L, (run_loader_ok le ld N E). reflexivity.
Qed.

(* ---------------------------------------------------------------- the keyed memo of _get_musl_version *)
(* the first answer probed for a key *)
Fixpoint first_for (k : list N) (l : list (list N * option (nat * nat))) : option (option (nat * nat)) :=
  match l with [] => None | (k', v) :: t => if streq k' k then Some v else first_for k t end.
Definition or_cache (c : musl_cache) (k : list N) (l : list (list N * option (nat * nat))) : option (option (nat * nat)) :=
  match cache_get k c with Some v => Some v | None => first_for k l end.
Lemma run_keyed_nth c l : forall i k now, nth_error l i = Some (k, now) ->
  option_map Some (nth_error (run_keyed c l) i) = Some (or_cache c k (firstn (S i) l)).
Proof.
  revert c. induction l as [|[k0 n0] t IH]; intros c i k now H; [destruct i; discriminate H|].
  cbn [run_keyed]. unfold cached_unb. destruct i as [|j].
  - cbn [nth_error] in H. inversion H; subst. unfold or_cache. cbn [firstn first_for]. rewrite streq_refl.
    destruct (cache_get k c) as [v|]; reflexivity.
  - cbn [nth_error] in H. destruct (cache_get k0 c) as [v0|] eqn:G.
    + cbn [nth_error]. rewrite (IH c j k now H). unfold or_cache. cbn [firstn first_for].
      destruct (cache_get k c) as [v|] eqn:Gk; [reflexivity|]. destruct (streq_spec k0 k) as [->|N]; [congruence | reflexivity].
    + cbn [nth_error]. rewrite (IH ((k0, n0) :: c) j k now H). unfold or_cache. cbn [cache_get firstn first_for].
      destruct (streq_spec k0 k) as [->|N]; [now rewrite G | reflexivity].
Qed.
(* every call answers what the FIRST call with the same executable path probed - whatever the environment is by then *)
Theorem keyed_first_probe l i k now : nth_error l i = Some (k, now) ->
  exists v, nth_error (run_keyed [] l) i = Some v /\ first_for k (firstn (S i) l) = Some v.
Proof.
  intros H. pose proof (run_keyed_nth [] l i k now H) as E. unfold or_cache in E. cbn [cache_get] in E.
  destruct (nth_error (run_keyed [] l) i) as [v|]; [|discriminate E]. cbn [option_map] in E. inversion E. eauto.
Qed.
Lemma run_keyed_length c l : length (run_keyed c l) = length l.
Proof.
  revert c. induction l as [|[k n] t IH]; intros c; [reflexivity|]. cbn [run_keyed]. unfold cached_unb.
  destruct (cache_get k c); cbn [length]; now rewrite IH.
Qed.
(* transparency: if an executable path always gets the same uncached answer, memoisation changes nothing; and different paths do
   not share an answer (the cache is keyed) *)
Theorem keyed_transparent l :
  (forall i j k a b, nth_error l i = Some (k, a) -> nth_error l j = Some (k, b) -> a = b) -> run_keyed [] l = map snd l.
Proof.
  intros Same. apply nth_ext with (d := None) (d' := None); [now rewrite run_keyed_length, map_length|].
  intros i Hi. rewrite run_keyed_length in Hi.
  destruct (nth_error l i) as [[k now]|] eqn:E; [|apply nth_error_None in E; lia].
  destruct (keyed_first_probe l i k now E) as (v & H1 & H2).
  rewrite (nth_error_nth _ _ _ H1). rewrite (nth_error_nth _ _ None (map_nth_error snd _ _ E)). cbn [snd].
  assert (F : forall l' v, first_for k l' = Some v -> exists j, nth_error l' j = Some (k, v)).
  { clear. induction l' as [|[k' v'] t IH]; intros v H; [discriminate|]. cbn [first_for] in H.
    destruct (streq_spec k' k) as [->|N]; [inversion H; subst; now exists 0%nat|]. destruct (IH v H) as [j Hj]. now exists (S j). }
  destruct (F _ _ H2) as [j Hj].
  assert (Hj' : nth_error l j = Some (k, v)).
  { assert (j < length (firstn (S i) l))%nat by (apply nth_error_Some; congruence).
    rewrite <- Hj. rewrite <- (firstn_skipn (S i) l) at 1. now apply nth_error_app1. }
  symmetry. exact (Same _ _ _ _ _ E Hj').
Qed.
Theorem keyed_not_shared k1 k2 a b : k1 <> k2 -> run_keyed [] [(k1, a); (k2, b); (k1, b)] = [a; b; a].
Proof.
  intros N. unfold run_keyed, cached_unb. cbn [cache_get].
  destruct (streq_spec k1 k2) as [E|_]; [contradiction|]. cbn [cache_get].
  destruct (streq_spec k2 k1) as [E|_]; [congruence|]. now rewrite streq_refl.
Qed.
(* a None answer is memoised like any other (so a loader that could not be run is not tried again for that path) *)
Lemma none_is_cached c k : cache_get k c = None -> cached_unb c k None = ((k, None) :: c, None) /\ cached_musl c k None = (firstn cache_cap ((k, None) :: c), None).
Proof. intros H. unfold cached_unb, cached_musl. now rewrite H. Qed.

(* ---------------------------------------------------------------- the bounded memo (lru_cache, 128 entries) *)
Definition keys (c : musl_cache) : list (list N) := map fst c.
Lemma cache_get_none k c : cache_get k c = None <-> ~ In k (keys c).
Proof.
  induction c as [|[k' v] t IH]; cbn [cache_get keys map In]; [tauto|]. destruct (streq_spec k' k) as [->|N]; [split; [discriminate | intros H; exfalso; auto]|].
  rewrite IH. unfold keys. tauto.
Qed.
Lemma cache_remove_get k k' c : NoDup (keys c) -> cache_get k' (cache_remove k c) = if streq k k' then None else cache_get k' c.
Proof.
  induction c as [|[k0 v] t IH]; intros ND; cbn [cache_remove cache_get]; [destruct (streq k k'); reflexivity|].
  inversion ND as [|? ? Hn Ht]; subst. destruct (streq_spec k0 k) as [->|N].
  - destruct (streq_spec k k') as [->|N']; [apply cache_get_none; exact Hn | reflexivity].
  - cbn [cache_get]. rewrite (IH Ht). destruct (streq_spec k0 k') as [->|N2]; [destruct (streq_spec k k'); [congruence | reflexivity] | reflexivity].
Qed.
Lemma cache_remove_keys k c : incl (keys (cache_remove k c)) (keys c) /\ (NoDup (keys c) -> NoDup (keys (cache_remove k c)) /\ ~ In k (keys (cache_remove k c))).
Proof.
  induction c as [|[k0 v] t [I1 I2]]; cbn [cache_remove keys map]; [split; [apply incl_refl | intros; split; [constructor | intros []]]|].
  destruct (streq_spec k0 k) as [->|N].
  - split; [apply incl_tl, incl_refl|]. intros ND. inversion ND; subst. auto.
  - split; [cbn [keys map]; apply incl_cons; [now left | apply incl_tl; exact I1]|].
    intros ND. inversion ND as [|? ? Hn Ht]; subst. destruct (I2 Ht) as [J1 J2]. cbn [keys map]. split.
    + constructor; auto.
    + intros [E|C]; [exact (N E) | exact (J2 C)].
Qed.
(* as long as at most cache_cap different paths are in play (K lists them), the bounded memo answers like the unbounded one *)
Lemma run_lru_eq K : (length K <= cache_cap)%nat -> forall l cl cu,
  NoDup (keys cl) -> incl (keys cl) K -> incl (map fst l) K -> (forall k, cache_get k cl = cache_get k cu) ->
  run_lru cl l = run_keyed cu l.
Proof.
  intros HK. induction l as [|[k now] t IH]; intros cl cu ND IC IL G; [reflexivity|]. cbn [run_lru run_keyed].
  unfold cached_musl, cached_unb. rewrite <- (G k). cbn [map fst] in IL.
  assert (Hk : In k K) by (apply IL; now left). assert (IT : incl (map fst t) K) by (intros x Hx; apply IL; now right).
  destruct (cache_get k cl) as [v|] eqn:E.
  - f_equal. destruct (cache_remove_keys k cl) as [I1 I2]. destruct (I2 ND) as [J1 J2]. apply IH; auto.
    + cbn [keys map]. constructor; auto.
    + cbn [keys map]. apply incl_cons; auto. intros x Hx. apply IC. exact (I1 _ Hx).
    + intros k'. cbn [cache_get]. rewrite (cache_remove_get k k' cl ND), <- (G k'). destruct (streq_spec k k') as [->|]; [now rewrite E | reflexivity].
  - f_equal. assert (NK : ~ In k (keys cl)) by (now apply cache_get_none).
    assert (ND' : NoDup (k :: keys cl)) by (constructor; auto).
    assert (Len : (length ((k, now) :: cl) <= cache_cap)%nat).
    { assert (L1 : (length (k :: keys cl) <= length K)%nat) by (apply (NoDup_incl_length ND'); apply incl_cons; auto).
      cbn [length] in *. unfold keys in L1. rewrite map_length in L1. lia. }
    rewrite firstn_all2 by exact Len. apply IH; auto.
    + cbn [keys map]. apply incl_cons; auto.
    + intros k'. cbn [cache_get]. now rewrite (G k').
Qed.
Theorem lru_is_keyed l K : (length K <= cache_cap)%nat -> incl (map fst l) K -> run_lru [] l = run_keyed [] l.
Proof. intros HK IL. apply (run_lru_eq K HK l [] []); auto; [constructor | intros x []]. Qed.
(* beyond the bound the first answer is forgotten: 129 other paths in between evict it (the model of the 130-key battery case) *)

(* ---------------------------------------------------------------- the battery step ties both memo cells to the tag functions *)
(* the glibc cell is the one-cell memo of PlatModel (C16_cache_transparent), consulted only when the ABI check passes; with empty
   memos a step answers what the uncached functions answer *)
Theorem step_fresh archs st :
  snd (step_probes archs pstate0 st) =
  (manylinux_tags_l (le_intmax (st_le st)) (st_menv st) archs, musllinux_tags_x (st_lim st) (m_exe (st_menv st)) (st_le st) archs).
Proof.
  unfold step_probes, pstate0, manylinux_tags_l, musllinux_tags_x. cbn [ps_glibc ps_musl cached_probe]. unfold cached_musl. cbn [cache_get].
  destruct (have_compatible_abi (m_exe (st_menv st)) archs) eqn:A; reflexivity.
Qed.
Theorem step_glibc_cell archs s st :
  ps_glibc (fst (step_probes archs s st)) =
  if have_compatible_abi (m_exe (st_menv st)) archs
  then fst (cached_probe (ps_glibc s) (get_glibc_version_l (le_intmax (st_le st)) (m_confstr (st_menv st)) (m_ctypes (st_menv st))))
  else ps_glibc s.
Proof.
  unfold step_probes. destruct (have_compatible_abi _ _); [destruct (cached_probe _ _) | ]; destruct (cached_musl _ _ _); reflexivity.
Qed.

(* the musl column of the battery the correspondence run executes (p.probes: run_steps) IS the keyed memo run_lru over the steps'
   (executable path, uncached answer) pairs - so the theorems about run_lru / run_keyed are about what is run *)
Definition probe_of (st : pstep) : list N * option (nat * nat) := (st_key st, get_musl_version_x (st_lim st) (m_exe (st_menv st)) (st_le st)).
Theorem run_steps_musl_column archs : forall sts s,
  map snd (run_steps archs s sts) = map (fun v => musl_render v archs) (run_lru (ps_musl s) (map probe_of sts)).
Proof.
  induction sts as [|st t IH]; intros s; [reflexivity|]. cbn [run_steps map run_lru probe_of]. unfold step_probes.
  destruct (if have_compatible_abi _ _ then _ else _) as [g' gv]. unfold probe_of.
  destruct (cached_musl (ps_musl s) (st_key st) _) as [m' mv]. cbn [map snd]. f_equal. exact (IH _).
Qed.

(* ---------------------------------------------------------------- the version parsers with the interpreter's digit limit and digit class *)
Definition version_shape_l (isd : char -> bool) (lim : nat) (s : str) (M m : nat) : Prop :=
  exists d1 d2 r, s = d1 ++ [46] ++ d2 ++ r /\ d1 <> [] /\ d2 <> [] /\ forallb isd d1 = true /\ forallb isd d2 = true /\
                  head_not isd r = true /\ (length d1 <= lim)%nat /\ (length d2 <= lim)%nat /\
                  to_nat_dec (map to_ascii_digit d1) = M /\ to_nat_dec (map to_ascii_digit d2) = m.
Lemma scan_l_spec isd lim s M m : isd 46 = false -> (scan_version_l isd lim s = Some (M, m) <-> version_shape_l isd lim s M m).
Proof.
  intros Dot. unfold scan_version_l, version_shape_l, within. split.
  - destruct (span isd s) as [d1 r1] eqn:S1. apply span_complete in S1 as (-> & D1 & H1).
    destruct d1 as [|x d1]; [discriminate|]. destruct r1 as [|c r2]; [discriminate|].
    destruct (N.eqb_spec c 46) as [->|]; [|discriminate]. destruct (span isd r2) as [d2 r] eqn:S2.
    apply span_complete in S2 as (-> & D2 & H2). destruct d2 as [|y d2]; [discriminate|].
    destruct (Nat.leb_spec (length (x :: d1)) lim); [|discriminate]. destruct (Nat.leb_spec (length (y :: d2)) lim); [|discriminate].
    cbn [andb]. intros E. inversion E; subst. exists (x :: d1), (y :: d2), r. repeat split; auto; discriminate.
  - intros (d1 & d2 & r & -> & N1 & N2 & D1 & D2 & H & L1 & L2 & <- & <-).
    assert (H46 : head_not isd ([46] ++ d2 ++ r) = true) by (cbn [app head_not]; now rewrite Dot).
    rewrite (span_app isd d1 ([46] ++ d2 ++ r) D1 H46). destruct d1 as [|x d1]; [congruence|]. cbn [app].
    rewrite N.eqb_refl, (span_app isd d2 r D2 H). destruct d2 as [|y d2]; [congruence|].
    destruct (Nat.leb_spec (length (x :: d1)) lim); [|lia]. destruct (Nat.leb_spec (length (y :: d2)) lim); [|lia]. reflexivity.
Qed.
Lemma to_ascii_id d : forallb is_digit d = true -> map to_ascii_digit d = d.
Proof.
  induction d as [|c d IH]; cbn [forallb map]; auto. intros H. apply andb_prop in H as [H1 H2]. rewrite (IH H2). f_equal.
  unfold to_ascii_digit. unfold is_digit in H1. apply andb_prop in H1 as [_ H1]. apply N.leb_le in H1. destruct (N.ltb_spec c 128); [reflexivity | lia].
Qed.
(* glibc: accepted iff  <ASCII digits>.<ASCII digits><rest>  with both runs within the limit; inside the limit it is the parser of 16./22. *)
Theorem parse_glibc_l_spec lim s M m : parse_glibc_version_l lim s = Some (M, m) <-> version_shape_l is_digit lim s M m.
Proof. apply scan_l_spec. reflexivity. Qed.
Theorem parse_glibc_l_short lim s : (length s <= lim)%nat -> parse_glibc_version_l lim s = parse_glibc_version s.
Proof.
  intros L. unfold parse_glibc_version_l, scan_version_l, parse_glibc_version, within.
  destruct (span is_digit s) as [d1 r1] eqn:S1. apply span_complete in S1 as (-> & D1 & _).
  destruct d1 as [|x d1]; [reflexivity|]. destruct r1 as [|c r2]; [reflexivity|]. destruct (c =? 46); [|reflexivity].
  destruct (span is_digit r2) as [d2 r] eqn:S2. apply span_complete in S2 as (-> & D2 & _). destruct d2 as [|y d2]; [reflexivity|].
  rewrite !app_length in L. cbn [length] in L. rewrite app_length in L. cbn [length] in L.
  destruct (Nat.leb_spec (length (x :: d1)) lim); [|cbn [length] in *; lia]. destruct (Nat.leb_spec (length (y :: d2)) lim); [|cbn [length] in *; lia].
  cbn [andb]. now rewrite !to_ascii_id.
Qed.
Theorem parse_glibc_l_too_long lim s M m : parse_glibc_version s = Some (M, m) -> parse_glibc_version_l lim s = None \/ parse_glibc_version_l lim s = Some (M, m).
Proof.
  intros P. unfold parse_glibc_version_l, scan_version_l. unfold parse_glibc_version in P.
  destruct (span is_digit s) as [d1 r1] eqn:S1. apply span_complete in S1 as (-> & D1 & _).
  destruct d1 as [|x d1]; [discriminate|]. destruct r1 as [|c r2]; [discriminate|]. destruct (c =? 46); [|discriminate].
  destruct (span is_digit r2) as [d2 r] eqn:S2. apply span_complete in S2 as (-> & D2 & _). destruct d2 as [|y d2]; [discriminate|].
  destruct (within lim (x :: d1) && within lim (y :: d2)); [right | now left]. rewrite !to_ascii_id by assumption. exact P.
Qed.
(* musl: the digit class is the Unicode one *)
Theorem parse_musl_l_iff lim output M m :
  parse_musl_version_l lim output = Some (M, m) <->
  exists l0 l1 more v, nonblank_lines output = l0 :: l1 :: more /\ firstn 4 l0 = s_musl /\ l1 = s_Version_ ++ v /\ version_shape_l is_ud lim v M m.
Proof.
  unfold parse_musl_version_l. fold (nonblank_lines output). split.
  - destruct (nonblank_lines output) as [|l0 [|l1 more]]; try discriminate.
    destruct (streq_spec (firstn 4 l0) s_musl) as [E0|]; [|discriminate]. cbn [negb].
    destruct (starts_with s_Version_ l1) eqn:E1; [|discriminate]. cbn [negb]. intros S. apply scan_l_spec in S; [|reflexivity].
    exists l0, l1, more, (skipn 8 l1). repeat split; auto. exact (starts_with_split s_Version_ l1 E1).
  - intros (l0 & l1 & more & v & -> & E0 & -> & S). rewrite E0, streq_refl, starts_with_app. cbn [negb].
    change (skipn 8 (s_Version_ ++ v)) with v. apply scan_l_spec; [reflexivity | exact S].
Qed.
