(* C16 - executable model of the platform-tag generators, as the code is now:
   _manylinux.py (_have_compatible_abi, _glibc_version_string*, _parse_glibc_version, _is_compatible, platform_tags),
   _musllinux.py (_parse_musl_version, _get_musl_version, platform_tags),
   tags.py (_mac_binary_formats, mac_platforms, ios_platforms, _linux_platforms, platform_tags).
   The environment probes (os.confstr, ctypes, the bytes of sys.executable, the `_manylinux` policy module, the loader's
   stderr, platform.mac_ver ...) are explicit parameters.  Definitions only; theorems in PlatProofs.v. *)
From Coq Require Import List Arith NArith Bool.
Import ListNotations.
Require Import Elf ElfFile VParse VDec Tags TagsModel PlatLit.
Open Scope N_scope.

(* str.strip() *)
Fixpoint lstrip (s : str) : str := match s with [] => [] | c :: t => if is_ws c then lstrip t else s end.
Definition strip (s : str) : str := rev (lstrip (rev (lstrip s))).
(* int(s) for the texts that occur here: surrounding whitespace is ignored, then ASCII digits (no sign, no underscores) *)
Definition py_int (s : str) : option N := undec (strip s).

(* ---------------------------------------------------------------- glibc version probes *)
(* str.split() / rsplit() without arguments: maximal runs of non-whitespace *)
Fixpoint wsplit_aux (cur : str) (s : str) : list str :=
  match s with
  | [] => match cur with [] => [] | _ :: _ => [rev cur] end
  | c :: t => if is_ws c then match cur with [] => wsplit_aux [] t | _ :: _ => rev cur :: wsplit_aux [] t end
              else wsplit_aux (c :: cur) t
  end.
Definition wsplit (s : str) : list str := wsplit_aux [] s.

(* os.confstr("CS_GNU_LIBC_VERSION"): a string, None, or one of the caught exceptions (OSError, ValueError, AttributeError) *)
Inductive confstr_r := CStr (s : str) | CNone | CRaise.
Definition glibc_confstr (c : confstr_r) : option str :=
  match c with
  | CStr s => match wsplit s with [_; v] => Some v | _ => None end           (* `_, version = s.rsplit()` *)
  | CNone | CRaise => None
  end.
(* ctypes fallback: no module, CDLL(None) raises OSError, no gnu_get_libc_version symbol, or its (decoded) result *)
Inductive ctypes_r := TNoModule | TOSError | TNoSymbol | TStr (s : str).
Definition glibc_ctypes (t : ctypes_r) : option str := match t with TStr s => Some s | _ => None end.
(* a or b *)
Definition glibc_version_string (c : confstr_r) (t : ctypes_r) : option str :=
  match glibc_confstr c with Some ((_ :: _) as v) => Some v | _ => glibc_ctypes t end.
(* _parse_glibc_version: re.match(r"(?P<major>[0-9]+)\.(?P<minor>[0-9]+)", s); None = (-1, -1) after the warning *)
Definition to_nat_dec (d : str) : nat := match undec d with Some n => N.to_nat n | None => 0%nat end.
Definition parse_glibc_version (s : str) : option (nat * nat) :=
  let '(d1, r1) := span is_digit s in
  match d1, r1 with
  | _ :: _, c :: r2 =>
      if c =? 46 then
        let '(d2, _) := span is_digit r2 in
        match d2 with _ :: _ => Some (to_nat_dec d1, to_nat_dec d2) | [] => None end
      else None
  | _, _ => None
  end.
(* _get_glibc_version (uncached) *)
Definition get_glibc_version (c : confstr_r) (t : ctypes_r) : option (nat * nat) :=
  match glibc_version_string c t with None => None | Some s => parse_glibc_version s end.

(* ---------------------------------------------------------------- _have_compatible_abi *)
(* _parse_elf(sys.executable): None when the file cannot be opened or is not an ELF file *)
Definition parse_exe (exe : option bytes) : option elf :=
  match exe with None => None | Some f => match parse_header f with Ok e => Some e | Invalid => None end end.
Definition is_linux_armhf (e : option elf) : bool :=
  match e with
  | None => false
  | Some e => (capacity e =? 1) && (encoding e =? 1) && (machine e =? 40) &&
              (N.land (flags e) 4278190080 =? 83886080) &&          (* flags & EF_ARM_ABIMASK == EF_ARM_ABI_VER5 *)
              (N.land (flags e) 1024 =? 1024)                        (* flags & EF_ARM_ABI_FLOAT_HARD *)
  end.
Definition is_linux_i686 (e : option elf) : bool :=
  match e with None => false | Some e => (capacity e =? 1) && (encoding e =? 1) && (machine e =? 3) end.
Definition allowed_archs : list str := [s_x86_64; s_aarch64; s_ppc64; s_ppc64le; s_s390x; s_loongarch64; s_riscv64].
Definition have_compatible_abi (exe : option bytes) (archs : list str) : bool :=
  if mem s_armv7l archs then is_linux_armhf (parse_exe exe)
  else if mem s_i686 archs then is_linux_i686 (parse_exe exe)
  else existsb (fun a => mem a allowed_archs) archs.

(* ---------------------------------------------------------------- the `_manylinux` policy module *)
(* manylinux_compatible(major, minor, arch) returns None or a value with a truth value *)
Inductive fres := FNone | FBool (b : bool).
Record pmodule := { p_func : option (nat -> nat -> str -> fres);
                    p_1 : option bool; p_2010 : option bool; p_2014 : option bool }.     (* manylinuxN_compatible attributes *)
Definition attr_or_true (o : option bool) : bool := match o with Some b => b | None => true end.
Definition policy (pm : option pmodule) (arch : str) (M m : nat) : bool :=
  match pm with
  | None => true                                         (* ImportError *)
  | Some pm =>
      match p_func pm with
      | Some f => match f M m arch with FNone => true | FBool b => b end
      | None =>
          if (M =? 2)%nat && (m =? 5)%nat then attr_or_true (p_1 pm)
          else if (M =? 2)%nat && (m =? 12)%nat then attr_or_true (p_2010 pm)
          else if (M =? 2)%nat && (m =? 17)%nat then attr_or_true (p_2014 pm)
          else true
      end
  end.
Definition ver_lt (a b : nat * nat) : bool := (fst a <? fst b)%nat || ((fst a =? fst b)%nat && (snd a <? snd b)%nat).
(* _is_compatible(arch, version) *)
Definition is_compatible (sys_glibc : nat * nat) (pm : option pmodule) (arch : str) (M m : nat) : bool :=
  if ver_lt sys_glibc (M, m) then false else policy pm arch M m.

(* ---------------------------------------------------------------- _manylinux.platform_tags *)
Inductive mtag := MT (legacy : bool) (M m : nat) (arch : str).
Definition legacy_name (M m : nat) : option str :=          (* _LEGACY_MANYLINUX_MAP *)
  if (M =? 2)%nat && (m =? 17)%nat then Some s_manylinux2014
  else if (M =? 2)%nat && (m =? 12)%nat then Some s_manylinux2010
  else if (M =? 2)%nat && (m =? 5)%nat then Some s_manylinux1 else None.
Definition render_mtag (t : mtag) : str :=
  match t with
  | MT false M m a => s_manylinux_ ++ dn M ++ [95] ++ dn m ++ [95] ++ a
  | MT true M m a => match legacy_name M m with Some n => n ++ [95] ++ a | None => [] end
  end.
Fixpoint majors_below (M : nat) : list nat :=          (* range(M - 1, 1, -1) *)
  match M with O => [] | S k => if (2 <=? k)%nat then k :: majors_below k else [] end.
Definition last_glibc_minor : nat := 50.               (* _LAST_GLIBC_MINOR default *)
Definition x86_floor (archs : list str) : bool := existsb (fun a => streq a s_x86_64 || streq a s_i686) archs.
Definition too_old_minor (archs : list str) : nat := if x86_floor archs then 4%nat else 16%nat.
(* range(glibc_max.minor, min_minor, -1) *)
Definition minor_range (too_old : nat) (GM Gm : nat) : list nat :=
  if (GM =? 2)%nat then down (S Gm) (S too_old) else down (S Gm) 0.
Definition emit (sys : nat * nat) (pm : option pmodule) (arch : str) (M m : nat) : list mtag :=
  (if is_compatible sys pm arch M m then [MT false M m arch] else []) ++
  (match legacy_name M m with
   | Some _ => if is_compatible sys pm arch M m then [MT true M m arch] else []
   | None => []
   end).
Definition many_struct (abi_ok : bool) (archs : list str) (sys : option (nat * nat)) (pm : option pmodule) : list mtag :=
  if negb abi_ok then [] else
  match sys with
  | None => []                                          (* (-1, -1): every range is empty *)
  | Some (M, m) =>
      let too_old := too_old_minor archs in
      let max_list := (M, m) :: map (fun MM => (MM, last_glibc_minor)) (majors_below M) in
      flat_map (fun arch =>
        flat_map (fun gm => flat_map (fun mi => emit (M, m) pm arch (fst gm) mi) (minor_range too_old (fst gm) (snd gm))) max_list) archs
  end.
(* the environment of the manylinux probe *)
Record menv := { m_confstr : confstr_r; m_ctypes : ctypes_r; m_exe : option bytes; m_policy : option pmodule }.
Definition manylinux_tags (e : menv) (archs : list str) : list str :=
  map render_mtag (many_struct (have_compatible_abi (m_exe e) archs) archs (get_glibc_version (m_confstr e) (m_ctypes e)) (m_policy e)).

(* ---------------------------------------------------------------- _musllinux *)
Definition is_linebreak (c : char) : bool := existsb (N.eqb c) [10; 11; 12; 13; 28; 29; 30; 133; 8232; 8233].
(* str.splitlines(); "\r\n" is split twice here - the extra empty line is dropped by the filter in _parse_musl_version *)
Fixpoint splitlines_aux (cur : str) (s : str) : list str :=
  match s with
  | [] => match cur with [] => [] | _ :: _ => [rev cur] end
  | c :: t => if is_linebreak c then rev cur :: splitlines_aux [] t else splitlines_aux (c :: cur) t
  end.
Definition splitlines (s : str) : list str := splitlines_aux [] s.
Definition nonempty (s : str) : bool := match s with [] => false | _ :: _ => true end.
(* _parse_musl_version *)
Definition parse_musl_version (output : str) : option (nat * nat) :=
  match filter nonempty (map strip (splitlines output)) with
  | l0 :: l1 :: _ =>
      if negb (streq (firstn 4 l0) s_musl) then None else
      if negb (starts_with s_Version_ l1) then None else
      let '(d1, r1) := span is_digit (skipn 8 l1) in
      match d1, r1 with
      | _ :: _, c :: r2 =>
          if c =? 46 then
            let '(d2, _) := span is_digit r2 in
            match d2 with _ :: _ => Some (to_nat_dec d1, to_nat_dec d2) | [] => None end
          else None
      | _, _ => None
      end
  | _ => None
  end.
Fixpoint contains (needle hay : str) : bool :=           (* needle in hay *)
  starts_with needle hay || match hay with [] => false | _ :: t => contains needle t end.
(* the loader path _get_musl_version hands to subprocess.run: None when it stops before running anything *)
Definition musl_loader (exe : option bytes) : option bytes :=
  match exe with
  | None => None                                          (* OSError *)
  | Some f =>
      match parse_header f with
      | Invalid => None                                   (* ELFInvalid is a ValueError *)
      | Ok e => match interpreter f e with ISome ld => if contains s_musl ld then Some ld else None | _ => None end
      end
  end.
(* _get_musl_version (uncached); [stderr] = what the loader prints *)
Definition get_musl_version (exe : option bytes) (stderr : str) : option (nat * nat) :=
  match musl_loader exe with None => None | Some _ => parse_musl_version stderr end.
Definition musl_struct (v : option (nat * nat)) (archs : list str) : list (nat * nat * str) :=
  match v with
  | None => []
  | Some (M, m) => flat_map (fun arch => map (fun mi => (M, mi, arch)) (down (S m) 0)) archs
  end.
Definition render3 (prefix : str) (t : nat * nat * str) : str :=
  let '(M, m, a) := t in prefix ++ dn M ++ [95] ++ dn m ++ [95] ++ a.
Definition musllinux_tags (exe : option bytes) (stderr : str) (archs : list str) : list str :=
  map (render3 s_musllinux_) (musl_struct (get_musl_version exe stderr) archs).

(* ---------------------------------------------------------------- macOS *)
Definition in_set (x : str) (l : list str) : bool := mem x l.
Definition mac_binary_formats (v : nat * nat) (cpu_arch : str) : list str :=
  let tail := (if in_set cpu_arch [s_arm64; s_x86_64] then [s_universal2] else []) ++
              (if in_set cpu_arch [s_x86_64; s_i386; s_ppc64; s_ppc; s_intel] then [s_universal] else []) in
  if streq cpu_arch s_x86_64 then
    if ver_lt v (10, 4)%nat then [] else [cpu_arch; s_intel; s_fat64; s_fat32] ++ tail
  else if streq cpu_arch s_i386 then
    if ver_lt v (10, 4)%nat then [] else [cpu_arch; s_intel; s_fat32; s_fat] ++ tail
  else if streq cpu_arch s_ppc64 then
    if ver_lt (10, 5)%nat v || ver_lt v (10, 4)%nat then [] else [cpu_arch; s_fat64] ++ tail
  else if streq cpu_arch s_ppc then
    if ver_lt (10, 6)%nat v then [] else [cpu_arch; s_fat32; s_fat] ++ tail
  else [cpu_arch] ++ tail.
Definition mac_block (v : nat * nat) (arch : str) : list (nat * nat * str) :=
  map (fun f => (fst v, snd v, f)) (mac_binary_formats v arch).
(* mac_platforms(version, arch) with explicit arguments *)
Definition mac_struct (v : nat * nat) (arch : str) : list (nat * nat * str) :=
  (if negb (ver_lt v (10, 0)%nat) && ver_lt v (11, 0)%nat
   then flat_map (fun mi => mac_block (10, mi)%nat arch) (down (S (snd v)) 0) else []) ++
  (if negb (ver_lt v (11, 0)%nat) then flat_map (fun Mj => mac_block (Mj, 0)%nat arch) (down (S (fst v)) 11) else []) ++
  (if negb (ver_lt v (11, 0)%nat) then
     if streq arch s_x86_64 then flat_map (fun mi => mac_block (10, mi)%nat arch) (down 17 4)
     else map (fun mi => (10, mi, s_universal2)%nat) (down 17 4)
   else []).
Definition mac_platforms (v : nat * nat) (arch : str) : list str := map (render3 s_macosx_) (mac_struct v arch).
(* version=None: tuple(map(int, version_str.split(".")[:2])), re-read through a subprocess when it is (10, 16);
   None = int() fails / fewer than two components (outside the generated domain) *)
Definition parse_ver2 (s : str) : option (nat * nat) :=
  match tsplit 46 s with
  | a :: b :: _ => match py_int a, py_int b with Some x, Some y => Some (N.to_nat x, N.to_nat y) | _, _ => None end
  | _ => None
  end.
Definition mac_default (version_str cpu_arch sub_out : str) : option (list str) :=
  match parse_ver2 version_str with
  | None => None
  | Some v =>
      if (fst v =? 10)%nat && (snd v =? 16)%nat
      then match parse_ver2 sub_out with Some v' => Some (mac_platforms v' cpu_arch) | None => None end
      else Some (mac_platforms v cpu_arch)
  end.

(* ---------------------------------------------------------------- iOS *)
Definition dash_to_us (s : str) : str := map (fun c => if c =? 45 then 95 else c) s.      (* replace("-", "_") *)
Definition ios_struct (v : nat * nat) (multiarch : str) : list (nat * nat * str) :=
  let ma := dash_to_us multiarch in
  if (fst v <? 12)%nat then [] else
  (fst v, snd v, ma) :: map (fun mi => (fst v, mi, ma)) (down (snd v) 0) ++
  flat_map (fun Mj => map (fun mi => (Mj, mi, ma)) (down 10 0)) (down (fst v) 12).
Definition ios_platforms (v : nat * nat) (multiarch : str) : list str := map (render3 s_ios_) (ios_struct v multiarch).

(* ---------------------------------------------------------------- Linux and the dispatch *)
Fixpoint split1 (c0 : N) (s : str) : str * str :=           (* s.split(c0, 1) when c0 occurs *)
  match s with [] => ([], []) | c :: t => if c =? c0 then ([], t) else let '(a, b) := split1 c0 t in (c :: a, b) end.
Definition linux_platforms (is_32bit : bool) (get_platform : str) (e : menv) (musl_stderr : str) : list str :=
  let linux := normalize_string get_platform in
  if negb (starts_with s_linux_ linux) then [linux] else
  let linux := if is_32bit then (if streq linux s_linux_x86_64 then s_linux_i686
                                 else if streq linux s_linux_aarch64 then s_linux_armv8l else linux) else linux in
  let arch := snd (split1 95 linux) in
  let archs := if streq arch s_armv8l then [s_armv8l; s_armv7l] else [arch] in
  manylinux_tags e archs ++ musllinux_tags (m_exe e) musl_stderr archs ++ map (fun a => s_linux_ ++ a) archs.
Definition ios_default (release multiarch : str) : option (list str) :=
  match parse_ver2 release with Some v => Some (ios_platforms v multiarch) | None => None end.
(* tags.platform_tags(): dispatch on platform.system(); None = a ValueError from int() (outside the generated domain) *)
Record penv := { pe_system : str; pe_get_platform : str; pe_menv : menv; pe_musl_stderr : str;
                 pe_mac_ver : str; pe_mac_cpu : str; pe_mac_sub : str; pe_ios_release : str; pe_multiarch : str }.
Definition platform_tags (p : penv) : option (list str) :=
  if streq (pe_system p) s_Darwin then mac_default (pe_mac_ver p) (pe_mac_cpu p) (pe_mac_sub p)
  else if streq (pe_system p) s_iOS then ios_default (pe_ios_release p) (pe_multiarch p)
  else if streq (pe_system p) s_Linux then Some (linux_platforms false (pe_get_platform p) (pe_menv p) (pe_musl_stderr p))
  else Some [normalize_string (pe_get_platform p)].

(* ---------------------------------------------------------------- functools.lru_cache on the argument-less libc probe *)
(* one memo cell; a call made in an environment whose uncached answer would be [now] *)
Definition probe_cache := option (option (nat * nat)).
Definition cached_probe (c : probe_cache) (now : option (nat * nat)) : probe_cache * option (nat * nat) :=
  match c with Some v => (c, v) | None => (Some now, now) end.
Fixpoint run_probes (c : probe_cache) (envs : list (option (nat * nat))) : list (option (nat * nat)) :=
  match envs with [] => [] | now :: t => let '(c', v) := cached_probe c now in v :: run_probes c' t end.
