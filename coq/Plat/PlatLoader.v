(* C16 / C20 - the parts of the musl probe that the first model (PlatModel.v) left to an oracle, as the code is now:
   (1) sys.executable is read through a regular file (ElfDisk.v: offsets/sizes the platform cannot serve);
   (2) subprocess.run([ld], ...) raises ValueError for an embedded NUL in the PT_INTERP path and FileNotFoundError for a path
       that does not exist; _get_musl_version catches both (OSError, ValueError) and answers None: a loader that cannot be
       run means "no musl" - no musllinux tags, never an exception (repaired in /repo, 020ba8a; it used to escape);
   (3) functools.lru_cache: _get_glibc_version() is one cell, _get_musl_version(executable) is keyed by the path (a None
       answer - including the one of a loader that cannot be run - is memoised like any other).
   (4) the version parsers as the code has them now: int() refuses more than sys.get_int_max_str_digits() digit characters
       (default 4300; the parameter le_intmax) and both parsers then treat the string as unreadable (71d4b23); the musl regex
       uses backslash-d and int(), which accept every Unicode decimal digit ([0-9] in the glibc regex is ASCII only).
       PlatModel.parse_glibc_version / parse_musl_version (no digit limit, ASCII digits) are the readings of these inside the
       limit and on ASCII text (PlatLoaderProofs: parse_glibc_l_spec, parse_musl_l_ascii).
   Definitions only (extracted); theorems in PlatLoaderProofs.v. *)
From Coq Require Import List Arith NArith Bool.
Import ListNotations.
Require Import Elf ElfFile ElfDisk VParse VDec Tags TagsModel PlatLit PlatModel.
Require WordTable.
Open Scope N_scope.

(* ---------------------------------------------------------------- running the loader *)
(* the system as subprocess.run sees it: which loader paths exist (le_all: every NUL-free path does), and what a loader prints *)
Record loader_env := { le_all : bool; le_existing : list bytes; le_stderr : str;
                        le_intmax : nat }.           (* sys.get_int_max_str_digits(): 4300 unless configured *)
Definition default_intmax : nat := 4300%nat.

(* ---------------------------------------------------------------- the version parsers, exactly *)
(* the value of a decimal digit of any script (Gen/WordTable.digit_ranges: (lo, hi, value of lo)) as the ASCII digit int() reads *)
Definition to_ascii_digit (c : char) : char :=
  if c <? 128 then c
  else match find (fun p => (fst (fst p) <=? c) && (c <=? snd (fst p))) WordTable.digit_ranges with
       | Some p => 48 + snd p + (c - fst (fst p)) | None => c end.
Definition within (lim : nat) (d : str) : bool := (length d <=? lim)%nat.
(* re.match(<digits>.<digits>) with the digit class [isd]; int() of both groups, None when int() raises ValueError *)
Definition scan_version_l (isd : char -> bool) (lim : nat) (s : str) : option (nat * nat) :=
  let '(d1, r1) := span isd s in
  match d1, r1 with
  | _ :: _, c :: r2 =>
      if c =? 46 then
        let '(d2, _) := span isd r2 in
        match d2 with
        | _ :: _ => if within lim d1 && within lim d2 then Some (to_nat_dec (map to_ascii_digit d1), to_nat_dec (map to_ascii_digit d2)) else None
        | [] => None
        end
      else None
  | _, _ => None
  end.
Definition parse_glibc_version_l (lim : nat) (s : str) : option (nat * nat) := scan_version_l is_digit lim s.
Definition parse_musl_version_l (lim : nat) (output : str) : option (nat * nat) :=
  match filter nonempty (map strip (splitlines output)) with
  | l0 :: l1 :: _ =>
      if negb (streq (firstn 4 l0) s_musl) then None else
      if negb (starts_with s_Version_ l1) then None else scan_version_l is_ud lim (skipn 8 l1)
  | _ => None
  end.
Definition get_glibc_version_l (lim : nat) (c : confstr_r) (t : ctypes_r) : option (nat * nat) :=
  match glibc_version_string c t with None => None | Some s => parse_glibc_version_l lim s end.
Definition manylinux_tags_l (lim : nat) (e : menv) (archs : list str) : list str :=
  map render_mtag (many_struct (have_compatible_abi (m_exe e) archs) archs (get_glibc_version_l lim (m_confstr e) (m_ctypes e)) (m_policy e)).
Inductive loader_r := LRan (stderr : str) | LValueError | LFileNotFound.          (* what subprocess.run([ld], ...) does *)
Definition has_nul (b : bytes) : bool := existsb (N.eqb 0) b.
Definition run_loader (le : loader_env) (ld : bytes) : loader_r :=
  if has_nul ld then LValueError                                           (* ValueError: embedded null byte *)
  else if le_all le || mem ld (le_existing le) then LRan (le_stderr le)
  else LFileNotFound.

(* the loader path _get_musl_version hands to subprocess.run (None: it returns None before running anything) *)
Definition musl_loader_disk (lim : file_limits) (exe : option bytes) : option bytes :=
  match exe with
  | None => None
  | Some f =>
      match parse_header f with
      | Invalid => None
      | Ok e => match interpreter_disk lim f e with ISome ld => if contains s_musl ld then Some ld else None | _ => None end
      end
  end.
(* _get_musl_version(executable), uncached: `except (OSError, ValueError): return None` around the run *)
Definition get_musl_version_x (lim : file_limits) (exe : option bytes) (le : loader_env) : option (nat * nat) :=
  match musl_loader_disk lim exe with
  | None => None
  | Some ld => match run_loader le ld with LRan err => parse_musl_version_l (le_intmax le) err | LValueError | LFileNotFound => None end
  end.
Definition musl_render (v : option (nat * nat)) (archs : list str) : list str := map (render3 s_musllinux_) (musl_struct v archs).
(* _musllinux.platform_tags(archs) *)
Definition musllinux_tags_x (lim : file_limits) (exe : option bytes) (le : loader_env) (archs : list str) : list str :=
  musl_render (get_musl_version_x lim exe le) archs.

(* _linux_platforms / platform_tags() *)
Definition linux_platforms_x (is_32bit : bool) (get_platform : str) (e : menv) (lim : file_limits) (le : loader_env) : list str :=
  let linux := normalize_string get_platform in
  if negb (starts_with s_linux_ linux) then [linux] else
  let linux := if is_32bit then (if streq linux s_linux_x86_64 then s_linux_i686
                                 else if streq linux s_linux_aarch64 then s_linux_armv8l else linux) else linux in
  let arch := snd (split1 95 linux) in
  let archs := if streq arch s_armv8l then [s_armv8l; s_armv7l] else [arch] in
  manylinux_tags_l (le_intmax le) e archs ++ musllinux_tags_x lim (m_exe e) le archs ++ map (fun a => s_linux_ ++ a) archs.
Definition platform_tags_x (p : penv) (lim : file_limits) (le : loader_env) : option (list str) :=
  if streq (pe_system p) s_Darwin then mac_default (pe_mac_ver p) (pe_mac_cpu p) (pe_mac_sub p)
  else if streq (pe_system p) s_iOS then ios_default (pe_ios_release p) (pe_multiarch p)
  else if streq (pe_system p) s_Linux then Some (linux_platforms_x false (pe_get_platform p) (pe_menv p) lim le)
  else Some [normalize_string (pe_get_platform p)].

(* ---------------------------------------------------------------- the memoised probes across calls *)
Definition musl_cache := list (list N * option (nat * nat)).             (* executable path -> memoised answer *)
Fixpoint cache_get (k : list N) (c : musl_cache) : option (option (nat * nat)) :=
  match c with [] => None | (k', v) :: t => if streq k' k then Some v else cache_get k t end.
(* functools.lru_cache(maxsize=128): a hit moves the entry to the most-recently-used end, a miss stores the answer there and, when
   the memo is full, evicts the least recently used entry.  The list is ordered most recent first. *)
Definition cache_cap : nat := 128%nat.
Fixpoint cache_remove (k : list N) (c : musl_cache) : musl_cache :=
  match c with [] => [] | (k', v) :: t => if streq k' k then t else (k', v) :: cache_remove k t end.
(* a call _get_musl_version(k) whose uncached answer would be [now] *)
Definition cached_musl (c : musl_cache) (k : list N) (now : option (nat * nat)) : musl_cache * option (nat * nat) :=
  match cache_get k c with
  | Some v => ((k, v) :: cache_remove k c, v)
  | None => (firstn cache_cap ((k, now) :: c), now)
  end.
(* the memo without a size bound (the reading of the above while at most 128 different paths are in play) *)
Definition cached_unb (c : musl_cache) (k : list N) (now : option (nat * nat)) : musl_cache * option (nat * nat) :=
  match cache_get k c with
  | Some v => (c, v)
  | None => ((k, now) :: c, now)
  end.
Record pstate := { ps_glibc : probe_cache; ps_musl : musl_cache }.
Definition pstate0 : pstate := {| ps_glibc := None; ps_musl := [] |}.
(* one step of a battery: sys.executable = the file named [key] with content m_exe, then _manylinux.platform_tags(archs) and
   _musllinux.platform_tags(archs) - no cache_clear() in between.  _get_glibc_version() is reached only when the ABI check passes. *)
Record pstep := { st_key : list N; st_menv : menv; st_lim : file_limits; st_le : loader_env }.
Definition step_probes (archs : list str) (s : pstate) (st : pstep) : pstate * (list str * list str) :=
  let e := st_menv st in
  let abi_ok := have_compatible_abi (m_exe e) archs in
  let '(g', gv) := if abi_ok then cached_probe (ps_glibc s) (get_glibc_version_l (le_intmax (st_le st)) (m_confstr e) (m_ctypes e)) else (ps_glibc s, None) in
  let many := map render_mtag (many_struct abi_ok archs gv (m_policy e)) in
  let '(m', mv) := cached_musl (ps_musl s) (st_key st) (get_musl_version_x (st_lim st) (m_exe e) (st_le st)) in
  ({| ps_glibc := g'; ps_musl := m' |}, (many, musl_render mv archs)).
Fixpoint run_steps (archs : list str) (s : pstate) (sts : list pstep) : list (list str * list str) :=
  match sts with [] => [] | st :: t => let '(s', o) := step_probes archs s st in o :: run_steps archs s' t end.
(* the keyed memo alone: a sequence of calls (key, what an uncached call would answer now) *)
Fixpoint run_lru (c : musl_cache) (l : list (list N * option (nat * nat))) : list (option (nat * nat)) :=
  match l with
  | [] => []
  | (k, now) :: t => let '(c', r) := cached_musl c k now in r :: run_lru c' t
  end.
Fixpoint run_keyed (c : musl_cache) (l : list (list N * option (nat * nat))) : list (option (nat * nat)) :=
  match l with
  | [] => []
  | (k, now) :: t => let '(c', r) := cached_unb c k now in r :: run_keyed c' t
  end.
