(* C16 - lemmas about the platform-tag model (PlatModel.v): exact sequences, nothing newer, NoDup, monotonicity,
   injectivity of the tag spellings, version-string parsers. *)
From Coq Require Import List Arith NArith Bool Lia FinFun Sorted.
Import ListNotations.
Require Import Elf ElfFile ElfProofs VParse VDec Tags TagsLit TagsModel TagsProofs PlatLit PlatModel.
Open Scope N_scope.
Arguments N.eqb : simpl never.
Arguments N.leb : simpl never.

(* ---------------------------------------------------------------- lists *)
Lemma NoDup_flat_map {A B} (f : A -> list B) (l : list A) :
  NoDup l -> (forall x, In x l -> NoDup (f x)) -> (forall x y b, In x l -> In y l -> In b (f x) -> In b (f y) -> x = y) ->
  NoDup (flat_map f l).
Proof.
  induction 1 as [|a l Ha Hl IH]; intros H1 H2; cbn [flat_map]; [constructor|].
  apply NoDup_app.
  - apply H1. now left.
  - apply IH; [intros; apply H1; now right | intros x y b Hx Hy; apply H2; now right].
  - intros b Hb Hb'. apply in_flat_map in Hb' as [y [Hy Hb']]. assert (a = y) by (eapply H2; eauto; [now left | now right]). subst. contradiction.
Qed.
Lemma NoDup_map_in {A B} (f : A -> B) (l : list A) :
  (forall x y, In x l -> In y l -> f x = f y -> x = y) -> NoDup l -> NoDup (map f l).
Proof.
  intros Inj H. induction H as [|a l Ha Hl IH]; cbn [map]; constructor.
  - intros C. apply in_map_iff in C as [y [E Hy]]. assert (y = a) by (apply Inj; auto; [now right | now left]). subst. contradiction.
  - apply IH. intros x y Hx Hy. apply Inj; now right.
Qed.
Lemma sorted_app {A} (R : A -> A -> Prop) (a b : list A) :
  StronglySorted R a -> StronglySorted R b -> (forall x y, In x a -> In y b -> R x y) -> StronglySorted R (a ++ b).
Proof.
  induction 1 as [|x a Hs IH Hx]; intros Hb H; cbn [app]; auto. constructor.
  - apply IH; auto. intros; apply H; auto. now right.
  - apply Forall_forall. intros y Hy. apply in_app_iff in Hy as [Hy|Hy].
    + rewrite Forall_forall in Hx. auto.
    + apply H; auto. now left.
Qed.
Lemma sorted_map {A B} (R : A -> A -> Prop) (S : B -> B -> Prop) (f : A -> B) (l : list A) :
  (forall x y, R x y -> S (f x) (f y)) -> StronglySorted R l -> StronglySorted S (map f l).
Proof.
  intros H. induction 1 as [|x l Hs IH Hx]; cbn [map]; constructor; auto.
  rewrite Forall_forall in *. intros y Hy. apply in_map_iff in Hy as [z [<- Hz]]. auto.
Qed.
Lemma sorted_irrefl_nodup {A} (R : A -> A -> Prop) (l : list A) : (forall x, ~ R x x) -> StronglySorted R l -> NoDup l.
Proof.
  intros Irr. induction 1 as [|x l Hs IH Hx]; constructor; auto. intros C. rewrite Forall_forall in Hx. exact (Irr x (Hx x C)).
Qed.
Lemma down_incl hi hi' lo : (hi <= hi')%nat -> incl (down hi lo) (down hi' lo).
Proof. intros H x Hx. apply down_spec in Hx. apply down_spec. lia. Qed.

(* ---------------------------------------------------------------- spelling of a tag is injective *)
(* a digit string followed by a non-digit determines both parts *)
Lemma digits_sep_inj : forall (d d' : str) (c c' : N) (x x' : str),
  forallb is_digit d = true -> forallb is_digit d' = true -> is_digit c = false -> is_digit c' = false ->
  d ++ c :: x = d' ++ c' :: x' -> d = d' /\ c :: x = c' :: x'.
Proof.
  induction d as [|a d IH]; intros [|a' d'] c c' x x' D D' C C' E; cbn [app forallb] in *.
  - auto.
  - inversion E; subst. apply andb_prop in D' as [D1 _]. congruence.
  - inversion E; subst. apply andb_prop in D as [D1 _]. congruence.
  - inversion E; subst. apply andb_prop in D as [_ D]. apply andb_prop in D' as [_ D'].
    destruct (IH d' c c' x x' D D' C C' H1) as [-> ->]. auto.
Qed.
Lemma ver_text_inj M m a M' m' a' :
  dn M ++ [95] ++ dn m ++ [95] ++ a = dn M' ++ [95] ++ dn m' ++ [95] ++ a' -> M = M' /\ m = m' /\ a = a'.
Proof.
  intros E. cbn [app] in E.
  apply digits_sep_inj in E as [E1 E2]; try apply dn_digits; try reflexivity.
  inversion E2 as [E3]. apply digits_sep_inj in E3 as [E4 E5]; try apply dn_digits; try reflexivity.
  inversion E5. apply dn_inj in E1, E4. auto.
Qed.
Lemma render3_inj (pfx : str) t t' : render3 pfx t = render3 pfx t' -> t = t'.
Proof.
  destruct t as [[M m] a], t' as [[M' m'] a']. unfold render3. intros E. apply app_inv_head in E.
  apply ver_text_inj in E as (-> & -> & ->). reflexivity.
Qed.

(* legacy aliases *)
Definition wf_mtag (t : mtag) : Prop := match t with MT true M m _ => legacy_name M m <> None | MT false _ _ _ => True end.
Lemma legacy_name_cases M m n : legacy_name M m = Some n ->
  (M = 2 /\ m = 17 /\ n = s_manylinux2014)%nat \/ (M = 2 /\ m = 12 /\ n = s_manylinux2010)%nat \/ (M = 2 /\ m = 5 /\ n = s_manylinux1)%nat.
Proof.
  unfold legacy_name.
  destruct (Nat.eqb_spec M 2), (Nat.eqb_spec m 17), (Nat.eqb_spec m 12), (Nat.eqb_spec m 5); cbn; intros E; inversion E; subst; auto; lia.
Qed.
Lemma render_mtag_inj t t' : wf_mtag t -> wf_mtag t' -> render_mtag t = render_mtag t' -> t = t'.
Proof.
  destruct t as [[|] M m a], t' as [[|] M' m' a']; cbn [wf_mtag render_mtag]; intros W W' E.
  - destruct (legacy_name M m) as [n|] eqn:L; [|congruence]. destruct (legacy_name M' m') as [n'|] eqn:L'; [|congruence].
    apply legacy_name_cases in L as [(-> & -> & ->)|[(-> & -> & ->)|(-> & -> & ->)]];
    apply legacy_name_cases in L' as [(-> & -> & ->)|[(-> & -> & ->)|(-> & -> & ->)]];
      cbv [s_manylinux2014 s_manylinux2010 s_manylinux1 app] in E; try discriminate; inversion E; reflexivity.
  - destruct (legacy_name M m) as [n|] eqn:L; [|congruence].
    apply legacy_name_cases in L as [(-> & -> & ->)|[(-> & -> & ->)|(-> & -> & ->)]];
      cbv [s_manylinux2014 s_manylinux2010 s_manylinux1 s_manylinux_ app] in E; discriminate.
  - destruct (legacy_name M' m') as [n|] eqn:L; [|congruence].
    apply legacy_name_cases in L as [(-> & -> & ->)|[(-> & -> & ->)|(-> & -> & ->)]];
      cbv [s_manylinux2014 s_manylinux2010 s_manylinux1 s_manylinux_ app] in E; discriminate.
  - apply app_inv_head in E. apply ver_text_inj in E as (-> & -> & ->). reflexivity.
Qed.

(* ---------------------------------------------------------------- manylinux: the versions offered *)
Definition ver_le (a b : nat * nat) : Prop := (fst a < fst b \/ (fst a = fst b /\ snd a <= snd b))%nat.
Lemma ver_lt_false a b : ver_lt a b = false <-> ver_le b a.
Proof.
  unfold ver_lt, ver_le. destruct (Nat.ltb_spec (fst a) (fst b)), (Nat.eqb_spec (fst a) (fst b)), (Nat.ltb_spec (snd a) (snd b)); cbn; split; intros; try lia; try discriminate; auto.
Qed.
Lemma ver_lt_true a b : ver_lt a b = true <-> ~ ver_le b a.
Proof. rewrite <- ver_lt_false. destruct (ver_lt a b); split; congruence. Qed.

Definition max_list (M m : nat) : list (nat * nat) := (M, m) :: map (fun MM => (MM, last_glibc_minor)) (majors_below M).
(* the glibc versions tried for one architecture, in the order tried *)
Definition many_versions (too_old M m : nat) : list (nat * nat) :=
  flat_map (fun gm => map (pair (fst gm)) (minor_range too_old (fst gm) (snd gm))) (max_list M m).
Definition min_minor (too_old a : nat) : nat := if (a =? 2)%nat then S too_old else 0%nat.

Lemma in_majors_below M x : In x (majors_below M) <-> (2 <= x < M)%nat.
Proof.
  induction M as [|k IH]; cbn [majors_below]; [cbn; lia|].
  destruct (Nat.leb_spec 2 k); cbn [In]; [rewrite IH; lia | lia].
Qed.
Lemma majors_below_sorted M : StronglySorted (fun a b => (b < a)%nat) (majors_below M).
Proof.
  induction M as [|k IH]; cbn [majors_below]; [constructor|]. destruct (Nat.leb_spec 2 k); [|constructor].
  constructor; auto. apply Forall_forall. intros x Hx. apply in_majors_below in Hx. lia.
Qed.
Lemma in_minor_range t a hi b : In b (minor_range t a hi) <-> (min_minor t a <= b <= hi)%nat.
Proof. unfold minor_range, min_minor. destruct (a =? 2)%nat; rewrite down_spec; lia. Qed.
(* membership: from the running version down to the floor; lower majors from their last minor (50) *)
Lemma in_many_versions t M m a b :
  In (a, b) (many_versions t M m) <->
  (a = M /\ min_minor t a <= b <= m)%nat \/ (2 <= a < M /\ min_minor t a <= b <= last_glibc_minor)%nat.
Proof.
  unfold many_versions, max_list. cbn [flat_map fst snd]. rewrite in_app_iff, in_map_iff, in_flat_map. split.
  - intros [[x [E H]]|[[MM mm] [H1 H2]]].
    + inversion E; subst. apply in_minor_range in H. auto.
    + apply in_map_iff in H1 as [K [E1 HK]]. inversion E1; subst. cbn [fst snd] in H2.
      apply in_map_iff in H2 as [x [E H2]]. inversion E; subst. apply in_majors_below in HK. apply in_minor_range in H2. auto.
  - intros [[-> H]|[H1 H2]].
    + left. exists b. split; auto. now apply in_minor_range.
    + right. exists (a, last_glibc_minor). split; [apply in_map_iff; exists a; split; auto; now apply in_majors_below|].
      cbn [fst snd]. apply in_map_iff. exists b. split; auto. now apply in_minor_range.
Qed.
(* order: newest first, strictly *)
Definition ver_gt (x y : nat * nat) : Prop := (fst y < fst x \/ (fst y = fst x /\ snd y < snd x))%nat.
Lemma many_versions_sorted t M m : StronglySorted ver_gt (many_versions t M m).
Proof.
  unfold many_versions, max_list. cbn [flat_map fst snd].
  assert (Row : forall a hi, StronglySorted ver_gt (map (pair a) (minor_range t a hi))).
  { intros a hi. apply (sorted_map (fun x y => (y < x)%nat)); [intros x y H; right; cbn; lia|].
    unfold minor_range. destruct (a =? 2)%nat; apply down_sorted. }
  apply sorted_app; auto.
  - assert (G : forall l, StronglySorted (fun a b => (b < a)%nat) l ->
                StronglySorted ver_gt (flat_map (fun gm : nat * nat => map (pair (fst gm)) (minor_range t (fst gm) (snd gm))) (map (fun MM => (MM, last_glibc_minor)) l))).
    { induction 1 as [|x l Hs IH Hx]; cbn [map flat_map]; [constructor|]. apply sorted_app; auto.
      intros [a b] [a' b'] H1 H2. apply in_map_iff in H1 as [? [E _]]. inversion E; subst.
      apply in_flat_map in H2 as [[K kk] [HK H2]]. apply in_map_iff in HK as [K' [E' HK]]. inversion E'; subst.
      apply in_map_iff in H2 as [? [E2 _]]. inversion E2; subst. rewrite Forall_forall in Hx. left. cbn. auto. }
    apply G, majors_below_sorted.
  - intros [a b] [a' b'] H1 H2. apply in_map_iff in H1 as [? [E _]]. inversion E; subst.
    apply in_flat_map in H2 as [[K kk] [HK H2]]. apply in_map_iff in HK as [K' [E' HK]]. inversion E'; subst.
    apply in_map_iff in H2 as [? [E2 _]]. inversion E2; subst. apply in_majors_below in HK. left. cbn. lia.
Qed.
Lemma many_versions_nodup t M m : NoDup (many_versions t M m).
Proof. eapply sorted_irrefl_nodup; [|apply many_versions_sorted]. intros [a b]. unfold ver_gt. cbn. lia. Qed.
Lemma many_versions_le t M m a b : In (a, b) (many_versions t M m) -> ver_le (a, b) (M, m).
Proof. rewrite in_many_versions. unfold ver_le. cbn. lia. Qed.

(* ---------------------------------------------------------------- manylinux: the exact sequence *)
(* what one version contributes for one architecture: the PEP 600 tag, then (for 2.17 / 2.12 / 2.5) its legacy alias,
   both subject to the policy module *)
Definition emit_spec (pm : option pmodule) (arch : str) (v : nat * nat) : list mtag :=
  if policy pm arch (fst v) (snd v)
  then MT false (fst v) (snd v) arch :: (match legacy_name (fst v) (snd v) with Some _ => [MT true (fst v) (snd v) arch] | None => [] end)
  else [].
Definition many_spec (archs : list str) (M m : nat) (pm : option pmodule) : list mtag :=
  flat_map (fun arch => flat_map (emit_spec pm arch) (many_versions (too_old_minor archs) M m)) archs.

Lemma emit_is_spec M m pm arch a b : ver_le (a, b) (M, m) -> emit (M, m) pm arch a b = emit_spec pm arch (a, b).
Proof.
  intros H. unfold emit, emit_spec, is_compatible. cbn [fst snd]. apply ver_lt_false in H. rewrite H.
  destruct (policy pm arch a b), (legacy_name a b); reflexivity.
Qed.
Lemma flat_map_ext_in' {A B} (f g : A -> list B) l : (forall x, In x l -> f x = g x) -> flat_map f l = flat_map g l.
Proof. induction l as [|a l IH]; intros H; cbn [flat_map]; auto. rewrite H by now left. f_equal. apply IH. intros. apply H. now right. Qed.
Lemma flat_map_flat_map {A B C} (f : A -> list B) (g : B -> list C) l : flat_map g (flat_map f l) = flat_map (fun x => flat_map g (f x)) l.
Proof. induction l as [|a l IH]; cbn [flat_map]; auto. now rewrite flat_map_app, IH. Qed.
Lemma flat_map_map {A B C} (f : A -> B) (g : B -> list C) l : flat_map g (map f l) = flat_map (fun x => g (f x)) l.
Proof. induction l as [|a l IH]; cbn [flat_map map]; auto. now rewrite IH. Qed.

Lemma many_exact archs M m pm : many_struct true archs (Some (M, m)) pm = many_spec archs M m pm.
Proof.
  unfold many_struct, many_spec. cbn [negb]. fold (max_list M m). apply flat_map_ext. intros arch.
  unfold many_versions at 1. rewrite flat_map_flat_map. apply flat_map_ext_in'. intros gm Hgm.
  rewrite flat_map_map. apply flat_map_ext_in'. intros mi Hmi.
  apply emit_is_spec. apply (many_versions_le (too_old_minor archs)).
  unfold many_versions. apply in_flat_map. exists gm. split; auto. apply in_map_iff. exists mi. auto.
Qed.
(* nothing is offered when the interpreter's ABI is incompatible or there is no glibc *)
Lemma many_incompatible archs sys pm : many_struct false archs sys pm = [].
Proof. reflexivity. Qed.
Lemma many_no_glibc ok archs pm : many_struct ok archs None pm = [].
Proof. destruct ok; reflexivity. Qed.

(* membership *)
Lemma in_emit_spec pm arch v k a b ar :
  In (MT k a b ar) (emit_spec pm arch v) <-> v = (a, b) /\ ar = arch /\ policy pm arch a b = true /\ (k = true -> legacy_name a b <> None).
Proof.
  unfold emit_spec. destruct v as [x y]. cbn [fst snd]. destruct (policy pm arch x y) eqn:P.
  - cbn [In]. split.
    + intros [E|H]; [inversion E; subst; repeat split; auto; discriminate|].
      destruct (legacy_name x y) eqn:L; [|contradiction]. destruct H as [E|[]]. inversion E; subst. repeat split; auto. congruence.
    + intros (E & -> & _ & L). inversion E; subst. destruct k; [right|now left].
      destruct (legacy_name a b); [now left | exfalso; now apply L].
  - split; [intros [] | intros (E & -> & P' & _); inversion E; subst; congruence].
Qed.
Lemma in_many_spec archs M m pm k a b ar :
  In (MT k a b ar) (many_spec archs M m pm) <->
  In ar archs /\ In (a, b) (many_versions (too_old_minor archs) M m) /\ policy pm ar a b = true /\ (k = true -> legacy_name a b <> None).
Proof.
  unfold many_spec. rewrite in_flat_map. split.
  - intros [arch [H1 H2]]. apply in_flat_map in H2 as [v [H2 H3]]. apply in_emit_spec in H3 as (-> & -> & P & L). auto.
  - intros (H1 & H2 & P & L). exists ar. split; auto. apply in_flat_map. exists (a, b). split; auto. apply in_emit_spec. auto.
Qed.
Lemma many_spec_wf archs M m pm t : In t (many_spec archs M m pm) -> wf_mtag t.
Proof. destruct t as [[|] a b ar]; cbn [wf_mtag]; auto. intros H. apply in_many_spec in H as (_ & _ & _ & L). auto. Qed.

(* nothing newer than the running system; nothing below the floor *)
Lemma many_nothing_newer archs M m pm k a b ar : In (MT k a b ar) (many_spec archs M m pm) -> ver_le (a, b) (M, m).
Proof. intros H. apply in_many_spec in H as (_ & H & _). eapply many_versions_le; eauto. Qed.
Lemma many_floor archs M m pm k b ar : In (MT k 2 b ar) (many_spec archs M m pm) -> (too_old_minor archs < b)%nat.
Proof. intros H. apply in_many_spec in H as (_ & H & _). apply in_many_versions in H. unfold min_minor in H. cbn in H. lia. Qed.

(* no duplicates *)
Lemma emit_spec_nodup pm arch v : NoDup (emit_spec pm arch v).
Proof.
  unfold emit_spec. destruct (policy _ _ _ _); [|constructor]. destruct (legacy_name _ _); repeat constructor; cbn; try tauto.
  intros [E|[]]. discriminate.
Qed.
Lemma many_spec_nodup archs M m pm : NoDup archs -> NoDup (many_spec archs M m pm).
Proof.
  intros Ha. unfold many_spec. apply NoDup_flat_map; auto.
  - intros arch _. apply NoDup_flat_map; [apply many_versions_nodup | intros; apply emit_spec_nodup |].
    intros x y [k a b ar] _ _ H1 H2. apply in_emit_spec in H1 as (-> & _). apply in_emit_spec in H2 as (-> & _). reflexivity.
  - intros x y [k a b ar] _ _ H1 H2. apply in_flat_map in H1 as [v [_ H1]]. apply in_flat_map in H2 as [v' [_ H2]].
    apply in_emit_spec in H1 as (_ & -> & _). apply in_emit_spec in H2 as (_ & -> & _). reflexivity.
Qed.
Lemma many_strings_nodup archs M m pm : NoDup archs -> NoDup (map render_mtag (many_spec archs M m pm)).
Proof.
  intros Ha. apply NoDup_map_in; [|now apply many_spec_nodup].
  intros x y Hx Hy. apply render_mtag_inj; eapply many_spec_wf; eauto.
Qed.

(* a newer glibc offers a superset (same architecture list and policy) *)
Lemma many_versions_mono t M m M' m' : ver_le (M, m) (M', m') -> (M < M' -> 2 <= M /\ m <= last_glibc_minor)%nat ->
  incl (many_versions t M m) (many_versions t M' m').
Proof.
  unfold ver_le. cbn [fst snd]. intros H1 H2 [a b] H. apply in_many_versions in H. apply in_many_versions.
  unfold last_glibc_minor in *. lia.
Qed.
Lemma many_monotone archs M m M' m' pm : ver_le (M, m) (M', m') -> (M < M' -> 2 <= M /\ m <= last_glibc_minor)%nat ->
  incl (many_spec archs M m pm) (many_spec archs M' m' pm).
Proof.
  intros H1 H2 [k a b ar] H. apply in_many_spec in H as (A & V & P & L). apply in_many_spec. repeat split; auto.
  eapply many_versions_mono; eauto.
Qed.

(* the floor: 2.5 when x86_64 or i686 is in the list, 2.17 otherwise *)
Lemma too_old_cases archs :
  (too_old_minor archs = 4%nat /\ (In s_x86_64 archs \/ In s_i686 archs)) \/
  (too_old_minor archs = 16%nat /\ ~ In s_x86_64 archs /\ ~ In s_i686 archs).
Proof.
  unfold too_old_minor, x86_floor. destruct (existsb _ archs) eqn:E.
  - left. split; auto. apply existsb_exists in E as [a [Ha E]]. apply orb_prop in E as [E|E];
      [left | right]; destruct (streq_spec a s_x86_64), (streq_spec a s_i686); subst; auto; discriminate.
  - right. split; auto. split; intros C;
      (assert (existsb (fun a => streq a s_x86_64 || streq a s_i686) archs = true); [|congruence]);
      apply existsb_exists; eexists; split; eauto; rewrite streq_refl; auto using orb_true_r.
Qed.

(* ---------------------------------------------------------------- musllinux *)
Lemma in_musl M m archs a b ar : In (a, b, ar) (musl_struct (Some (M, m)) archs) <-> a = M /\ (b <= m)%nat /\ In ar archs.
Proof.
  cbn [musl_struct]. rewrite in_flat_map. split.
  - intros [arch [H1 H2]]. apply in_map_iff in H2 as [mi [E H2]]. inversion E; subst. apply down_spec in H2. repeat split; auto. lia.
  - intros (-> & H & Ha). exists ar. split; auto. apply in_map_iff. exists b. split; auto. apply down_spec. lia.
Qed.
Lemma musl_nodup v archs : NoDup archs -> NoDup (musl_struct v archs).
Proof.
  intros Ha. destruct v as [[M m]|]; [|constructor]. cbn [musl_struct]. apply NoDup_flat_map; auto.
  - intros arch _. apply Injective_map_NoDup; [|apply down_nodup]. intros x y E. now inversion E.
  - intros x y [[a b] ar] _ _ H1 H2. apply in_map_iff in H1 as [? [E1 _]]. apply in_map_iff in H2 as [? [E2 _]]. inversion E1; inversion E2; subst. auto.
Qed.
Lemma musl_monotone M m m' archs : (m <= m')%nat -> incl (musl_struct (Some (M, m)) archs) (musl_struct (Some (M, m')) archs).
Proof. intros H [[a b] ar] Hin. apply in_musl in Hin. apply in_musl. intuition lia. Qed.
Lemma render3_nodup pfx l : NoDup l -> NoDup (map (render3 pfx) l).
Proof. apply Injective_map_NoDup. intros x y. apply render3_inj. Qed.

(* ---------------------------------------------------------------- macOS *)
Lemma mac_cond10 M m : negb (ver_lt (M, m) (10, 0)%nat) && ver_lt (M, m) (11, 0)%nat = (M =? 10)%nat.
Proof.
  unfold ver_lt. cbn [fst snd].
  destruct (Nat.ltb_spec M 10), (Nat.eqb_spec M 10), (Nat.ltb_spec M 11), (Nat.eqb_spec M 11), (Nat.ltb_spec m 0); cbn; try lia; reflexivity.
Qed.
Lemma mac_cond11 M m : negb (ver_lt (M, m) (11, 0)%nat) = (11 <=? M)%nat.
Proof.
  unfold ver_lt. cbn [fst snd].
  destruct (Nat.ltb_spec M 11), (Nat.eqb_spec M 11), (Nat.ltb_spec m 0), (Nat.leb_spec 11 M); cbn; try lia; reflexivity.
Qed.
Definition mac_legacy_part (arch : str) : list (nat * nat * str) :=
  if streq arch s_x86_64 then flat_map (fun mi => mac_block (10, mi)%nat arch) (down 17 4)
  else map (fun mi => (10, mi, s_universal2)%nat) (down 17 4).
Lemma mac_exact_10 m arch : mac_struct (10, m)%nat arch = flat_map (fun mi => mac_block (10, mi)%nat arch) (down (S m) 0).
Proof. unfold mac_struct. rewrite mac_cond10, mac_cond11. cbn [Nat.eqb Nat.leb fst snd]. now rewrite !app_nil_r. Qed.
Lemma mac_exact_11 M m arch : (11 <= M)%nat ->
  mac_struct (M, m) arch = flat_map (fun Mj => mac_block (Mj, 0)%nat arch) (down (S M) 11) ++ mac_legacy_part arch.
Proof.
  intros H. unfold mac_struct, mac_legacy_part. rewrite mac_cond10, mac_cond11. cbn [fst snd].
  destruct (Nat.eqb_spec M 10); [lia|]. destruct (Nat.leb_spec 11 M); [|lia]. reflexivity.
Qed.
Lemma mac_exact_old M m arch : (M < 10)%nat -> mac_struct (M, m) arch = [].
Proof.
  intros H. unfold mac_struct. rewrite mac_cond10, mac_cond11. cbn [fst snd].
  destruct (Nat.eqb_spec M 10); [lia|]. destruct (Nat.leb_spec 11 M); [lia|]. reflexivity.
Qed.
Lemma in_mac_block v arch a b f : In (a, b, f) (mac_block v arch) <-> (a, b) = v /\ In f (mac_binary_formats v arch).
Proof.
  unfold mac_block. rewrite in_map_iff. destruct v as [x y]. cbn [fst snd]. split.
  - intros [g [E H]]. inversion E; subst. auto.
  - intros [E H]. inversion E; subst. exists f. auto.
Qed.

Fixpoint nodupb (l : list str) : bool := match l with [] => true | x :: t => negb (mem x t) && nodupb t end.
Lemma nodupb_sound l : nodupb l = true -> NoDup l.
Proof.
  induction l as [|x t IH]; cbn [nodupb]; [constructor|]. intros H. apply andb_prop in H as [H1 H2]. constructor; auto.
  intros C. apply mem_spec in C. rewrite C in H1. discriminate.
Qed.
Lemma formats_nodup v arch : NoDup (mac_binary_formats v arch).
Proof.
  unfold mac_binary_formats, in_set, mem. cbn [existsb].
  destruct (ver_lt v (10, 4)%nat), (ver_lt (10, 5)%nat v), (ver_lt (10, 6)%nat v); cbn [orb];
  (destruct (streq_spec arch s_x86_64) as [->|N1]; [apply nodupb_sound; vm_compute; reflexivity|];
   destruct (streq_spec arch s_i386) as [->|N2]; [apply nodupb_sound; vm_compute; reflexivity|];
   destruct (streq_spec arch s_ppc64) as [->|N3]; [apply nodupb_sound; vm_compute; reflexivity|];
   destruct (streq_spec arch s_ppc) as [->|N4]; [apply nodupb_sound; vm_compute; reflexivity|];
   destruct (streq_spec arch s_arm64) as [->|N5]; [apply nodupb_sound; vm_compute; reflexivity|];
   destruct (streq_spec arch s_intel) as [->|N6]; [apply nodupb_sound; vm_compute; reflexivity|];
   cbn [orb app]; constructor; [intros []|constructor]).
Qed.
Lemma mac_block_nodup v arch : NoDup (mac_block v arch).
Proof. unfold mac_block. apply Injective_map_NoDup; [|apply formats_nodup]. intros x y E. now inversion E. Qed.
Lemma mac_blocks_nodup (f : nat -> nat * nat) arch l : Injective f -> NoDup l -> NoDup (flat_map (fun k => mac_block (f k) arch) l).
Proof.
  intros Inj Hl. apply NoDup_flat_map; auto; [intros; apply mac_block_nodup|].
  intros x y [[a b] g] _ _ H1 H2. apply in_mac_block in H1 as [E1 _]. apply in_mac_block in H2 as [E2 _]. apply Inj. congruence.
Qed.
Lemma mac_legacy_nodup arch : NoDup (mac_legacy_part arch).
Proof.
  unfold mac_legacy_part. destruct (streq arch s_x86_64).
  - apply mac_blocks_nodup; [intros x y E; now inversion E | apply down_nodup].
  - apply Injective_map_NoDup; [intros x y E; now inversion E | apply down_nodup].
Qed.
Lemma in_mac_legacy arch a b f : In (a, b, f) (mac_legacy_part arch) -> (a = 10 /\ 4 <= b <= 16)%nat.
Proof.
  unfold mac_legacy_part. destruct (streq arch s_x86_64); intros H.
  - apply in_flat_map in H as [mi [H1 H2]]. apply in_mac_block in H2 as [E _]. inversion E; subst. apply down_spec in H1. lia.
  - apply in_map_iff in H as [mi [E H1]]. inversion E; subst. apply down_spec in H1. lia.
Qed.
Lemma mac_nodup v arch : NoDup (mac_struct v arch).
Proof.
  destruct v as [M m]. destruct (Nat.lt_ge_cases M 10) as [H|H]; [rewrite mac_exact_old by assumption; constructor|].
  destruct (Nat.eq_dec M 10) as [->|N].
  - rewrite mac_exact_10. apply mac_blocks_nodup; [intros x y E; now inversion E | apply down_nodup].
  - rewrite mac_exact_11 by lia. apply NoDup_app.
    + apply (mac_blocks_nodup (fun Mj => (Mj, 0)%nat)); [intros x y E; now inversion E | apply down_nodup].
    + apply mac_legacy_nodup.
    + intros [[a b] f] H1 H2. apply in_mac_legacy in H2. apply in_flat_map in H1 as [Mj [H1 H3]].
      apply in_mac_block in H3 as [E _]. inversion E; subst. apply down_spec in H1. lia.
Qed.
(* nothing newer than the running system *)
Lemma mac_nothing_newer M m arch a b f : In (a, b, f) (mac_struct (M, m) arch) -> ver_le (a, b) (M, m).
Proof.
  unfold ver_le. cbn [fst snd]. destruct (Nat.lt_ge_cases M 10) as [H|H]; [rewrite mac_exact_old by assumption; intros []|].
  destruct (Nat.eq_dec M 10) as [->|N].
  - rewrite mac_exact_10. intros Hin. apply in_flat_map in Hin as [mi [H1 H2]]. apply in_mac_block in H2 as [E _]. inversion E; subst.
    apply down_spec in H1. lia.
  - rewrite mac_exact_11 by lia. intros Hin. apply in_app_iff in Hin as [Hin|Hin].
    + apply in_flat_map in Hin as [Mj [H1 H2]]. apply in_mac_block in H2 as [E _]. inversion E; subst. apply down_spec in H1. lia.
    + apply in_mac_legacy in Hin. lia.
Qed.
(* a newer system of the same regime offers a superset *)
Lemma mac_monotone_10 m m' arch : (m <= m')%nat -> incl (mac_struct (10, m)%nat arch) (mac_struct (10, m')%nat arch).
Proof.
  intros H t Hin. rewrite mac_exact_10 in *. apply in_flat_map in Hin as [mi [H1 H2]]. apply in_flat_map. exists mi. split; auto.
  eapply down_incl; [|eassumption]. lia.
Qed.
Lemma mac_monotone_11 M m M' m' arch : (11 <= M <= M')%nat -> incl (mac_struct (M, m) arch) (mac_struct (M', m') arch).
Proof.
  intros H t Hin. rewrite mac_exact_11 in * by lia. apply in_app_iff in Hin as [Hin|Hin]; apply in_app_iff; [left|now right].
  apply in_flat_map in Hin as [Mj [H1 H2]]. apply in_flat_map. exists Mj. split; auto. eapply down_incl; [|eassumption]. lia.
Qed.

(* ---------------------------------------------------------------- iOS *)
Lemma ios_exact M m ma : (12 <= M)%nat ->
  ios_struct (M, m) ma =
  map (fun mi => (M, mi, dash_to_us ma)) (down (S m) 0) ++
  flat_map (fun Mj => map (fun mi => (Mj, mi, dash_to_us ma)) (down 10 0)) (down M 12).
Proof.
  intros H. unfold ios_struct. cbn [fst snd]. destruct (Nat.ltb_spec M 12); [lia|]. rewrite down_step by lia. reflexivity.
Qed.
Lemma ios_below_floor M m ma : (M < 12)%nat -> ios_struct (M, m) ma = [].
Proof. intros H. unfold ios_struct. cbn [fst snd]. destruct (Nat.ltb_spec M 12); [reflexivity | lia]. Qed.
Lemma in_ios M m ma a b x : (12 <= M)%nat ->
  (In (a, b, x) (ios_struct (M, m) ma) <-> x = dash_to_us ma /\ ((a = M /\ b <= m) \/ (12 <= a < M /\ b <= 9))%nat).
Proof.
  intros H. rewrite ios_exact by assumption. rewrite in_app_iff, in_map_iff, in_flat_map. split.
  - intros [[mi [E H1]]|[Mj [H1 H2]]].
    + inversion E; subst. apply down_spec in H1. split; auto. left. lia.
    + apply in_map_iff in H2 as [mi [E H2]]. inversion E; subst. apply down_spec in H1, H2. split; auto. right. lia.
  - intros [-> [[-> Hb]|[Ha Hb]]].
    + left. exists b. split; auto. apply down_spec. lia.
    + right. exists a. split; [apply down_spec; lia|]. apply in_map_iff. exists b. split; auto. apply down_spec. lia.
Qed.
Lemma ios_nodup v ma : NoDup (ios_struct v ma).
Proof.
  destruct v as [M m]. destruct (Nat.lt_ge_cases M 12) as [H|H]; [rewrite ios_below_floor by assumption; constructor|].
  rewrite ios_exact by assumption. apply NoDup_app.
  - apply Injective_map_NoDup; [intros x y E; now inversion E | apply down_nodup].
  - apply NoDup_flat_map; [apply down_nodup | |].
    + intros Mj _. apply Injective_map_NoDup; [intros x y E; now inversion E | apply down_nodup].
    + intros x y [[a b] z] _ _ H1 H2. apply in_map_iff in H1 as [? [E1 _]]. apply in_map_iff in H2 as [? [E2 _]]. inversion E1; inversion E2; subst; auto.
  - intros [[a b] z] H1 H2. apply in_map_iff in H1 as [? [E1 _]]. apply in_flat_map in H2 as [Mj [H2 H3]].
    apply in_map_iff in H3 as [? [E3 _]]. inversion E1; inversion E3; subst. apply down_spec in H2. lia.
Qed.
Lemma ios_nothing_newer M m ma a b x : In (a, b, x) (ios_struct (M, m) ma) -> ver_le (a, b) (M, m) /\ (12 <= a)%nat.
Proof.
  destruct (Nat.lt_ge_cases M 12) as [H|H]; [rewrite ios_below_floor by assumption; intros []|].
  intros Hin. apply in_ios in Hin; auto. unfold ver_le. cbn [fst snd]. lia.
Qed.
Lemma ios_monotone M m M' m' ma : ((M = M' /\ m <= m') \/ (M < M' /\ m <= 9))%nat ->
  incl (ios_struct (M, m) ma) (ios_struct (M', m') ma).
Proof.
  intros H [[a b] x] Hin. destruct (Nat.lt_ge_cases M 12) as [L|L]; [rewrite ios_below_floor in Hin by assumption; destruct Hin|].
  apply in_ios in Hin; auto. apply in_ios; [lia|]. intuition lia.
Qed.
(* newest first, strictly *)
Lemma ios_sorted v ma : StronglySorted ver_gt (map (fun t : nat * nat * str => fst t) (ios_struct v ma)).
Proof.
  destruct v as [M m]. destruct (Nat.lt_ge_cases M 12) as [H|H]; [rewrite ios_below_floor by assumption; constructor|].
  rewrite ios_exact by assumption. rewrite map_app. apply sorted_app.
  - rewrite map_map. cbn [fst]. apply (sorted_map (fun x y => (y < x)%nat)); [intros x y L; right; cbn; lia | apply down_sorted].
  - assert (G : forall l, StronglySorted (fun a b => (b < a)%nat) l ->
       StronglySorted ver_gt (map (fun t : nat * nat * str => fst t) (flat_map (fun Mj => map (fun mi => (Mj, mi, dash_to_us ma)) (down 10 0)) l))).
    { induction 1 as [|x l Hs IH Hx]; cbn [flat_map map]; [constructor|]. rewrite map_app. apply sorted_app; auto.
      - rewrite map_map. cbn [fst]. apply (sorted_map (fun x y => (y < x)%nat)); [intros a b L; right; cbn; lia | apply down_sorted].
      - intros [a b] [a' b'] H1 H2. apply in_map_iff in H1 as [[[? ?] ?] [E1 H1]]. apply in_map_iff in H1 as [? [E1' _]].
        apply in_map_iff in H2 as [[[? ?] ?] [E2 H2]]. apply in_flat_map in H2 as [Mj [H2 H3]]. apply in_map_iff in H3 as [? [E3 _]].
        cbn [fst] in *. inversion E1'; inversion E3; subst. inversion E1; inversion E2; subst. rewrite Forall_forall in Hx. left. cbn. auto. }
    apply G, down_sorted.
  - intros [a b] [a' b'] H1 H2. apply in_map_iff in H1 as [[[? ?] ?] [E1 H1]]. apply in_map_iff in H1 as [? [E1' _]].
    apply in_map_iff in H2 as [[[? ?] ?] [E2 H2]]. apply in_flat_map in H2 as [Mj [H2 H3]]. apply in_map_iff in H3 as [? [E3 _]].
    cbn [fst] in *. inversion E1'; inversion E3; subst. inversion E1; inversion E2; subst. apply down_spec in H2. left. cbn. lia.
Qed.

(* ---------------------------------------------------------------- version strings *)
Lemma to_nat_dec_dn n : to_nat_dec (dn n) = n.
Proof. unfold to_nat_dec, dn. rewrite undec_dec. apply Nat2N.id. Qed.
Lemma dn_cons n : exists c t, dn n = c :: t.
Proof. destruct (dn n) eqn:E; [exfalso; exact (dn_nonnil n E) | eauto]. Qed.
Definition not_digit_head (s : str) : bool := match s with [] => true | c :: _ => negb (is_digit c) end.
(* _parse_glibc_version reads back major.minor whatever follows the minor (as long as it is not another digit) *)
Lemma parse_glibc_render M m junk : not_digit_head junk = true -> parse_glibc_version (dn M ++ [46] ++ dn m ++ junk) = Some (M, m).
Proof.
  intros J. unfold parse_glibc_version. rewrite (span_digits_stop (dn M) ([46] ++ dn m ++ junk)); [|apply dn_digits|reflexivity].
  destruct (dn_cons M) as (c & t & E). rewrite E at 1. cbn [app]. rewrite N.eqb_refl.
  rewrite (span_digits_stop (dn m) junk); [|apply dn_digits|exact J].
  destruct (dn_cons m) as (c' & t' & E'). rewrite E' at 1. cbv iota beta. now rewrite !to_nat_dec_dn.
Qed.
Lemma parse_glibc_reject s : not_digit_head s = true -> parse_glibc_version s = None.
Proof. unfold parse_glibc_version. destruct s as [|c s]; [reflexivity|]. cbn [not_digit_head span]. intros H. apply negb_true_iff in H. now rewrite H. Qed.

Definition ws_free (w : str) : Prop := forallb (fun c => negb (is_ws c)) w = true.
Lemma wsplit_aux_word w : ws_free w -> forall cur rest, wsplit_aux cur (w ++ rest) = wsplit_aux (rev w ++ cur) rest.
Proof.
  unfold ws_free. induction w as [|c w IH]; intros H cur rest; [reflexivity|]. cbn [forallb] in H. apply andb_prop in H as [H1 H2].
  apply negb_true_iff in H1. cbn [app wsplit_aux rev]. rewrite H1, IH by assumption. now rewrite <- app_assoc.
Qed.
Lemma wsplit_two a b : ws_free a -> ws_free b -> a <> [] -> b <> [] -> wsplit (a ++ [32] ++ b) = [a; b].
Proof.
  intros Ha Hb Na Nb. unfold wsplit. rewrite wsplit_aux_word by assumption. rewrite app_nil_r. cbn [app wsplit_aux].
  change (is_ws 32) with true. cbv iota.
  destruct (rev a) eqn:E; [apply (f_equal (@rev N)) in E; rewrite rev_involutive in E; contradiction|]. rewrite <- E, rev_involutive.
  f_equal. rewrite <- (app_nil_r b), wsplit_aux_word by assumption. rewrite app_nil_r. cbn [wsplit_aux].
  destruct (rev b) eqn:E'; [apply (f_equal (@rev N)) in E'; rewrite rev_involutive in E'; contradiction|]. now rewrite <- E', rev_involutive, app_nil_r.
Qed.
Lemma digit_not_ws c : is_digit c = true -> is_ws c = false.
Proof.
  unfold is_digit, is_ws, ws_table. intros H. apply andb_prop in H as [H1 H2]. apply N.leb_le in H1, H2. cbn [existsb].
  repeat match goal with |- context [c =? ?k] => replace (c =? k) with false by (symmetry; apply N.eqb_neq; lia) end. reflexivity.
Qed.
Lemma ws_free_app a b : ws_free a -> ws_free b -> ws_free (a ++ b).
Proof. unfold ws_free. intros. rewrite forallb_app. now apply andb_true_intro. Qed.
Lemma ws_free_dn n : ws_free (dn n).
Proof.
  unfold ws_free. pose proof (dn_digits n) as H. induction (dn n) as [|c t IH]; [reflexivity|]. cbn [forallb] in *.
  apply andb_prop in H as [H1 H2]. rewrite (digit_not_ws c H1), IH; auto.
Qed.
(* the whole glibc probe: os.confstr gives "<name> <major>.<minor><junk>", the version is read back *)
Lemma glibc_probe name M m junk t : ws_free name -> name <> [] -> ws_free junk -> not_digit_head junk = true ->
  get_glibc_version (CStr (name ++ [32] ++ dn M ++ [46] ++ dn m ++ junk)) t = Some (M, m).
Proof.
  intros Hn Nn Hj J. unfold get_glibc_version, glibc_version_string, glibc_confstr.
  assert (W : ws_free (dn M ++ [46] ++ dn m ++ junk)).
  { apply ws_free_app; [apply ws_free_dn|]. apply ws_free_app; [reflexivity|]. apply ws_free_app; [apply ws_free_dn|assumption]. }
  assert (NE : dn M ++ [46] ++ dn m ++ junk <> []) by (destruct (dn_cons M) as (c & t' & E); rewrite E; discriminate).
  rewrite wsplit_two by assumption. destruct (dn M ++ [46] ++ dn m ++ junk) eqn:E; [congruence|]. rewrite <- E.
  now apply parse_glibc_render.
Qed.
(* ... and the fallbacks: a missing / failing / malformed confstr leaves the decision to the ctypes probe *)
Lemma glibc_fallback c t : glibc_confstr c = None -> glibc_version_string c t = glibc_ctypes t.
Proof. unfold glibc_version_string. now intros ->. Qed.
Lemma glibc_confstr_fails : glibc_confstr CNone = None /\ glibc_confstr CRaise = None /\
  forall s, (forall a b, wsplit s <> [a; b]) -> glibc_confstr (CStr s) = None.
Proof.
  repeat split. intros s H. unfold glibc_confstr. destruct (wsplit s) as [|a [|b [|c r]]] eqn:E; auto. exfalso. eapply H; eauto.
Qed.

(* musl loader banner *)
Definition lb_free (w : str) : Prop := forallb (fun c => negb (is_linebreak c)) w = true.
Definition edge_ok (s : str) : Prop := s <> [] /\ is_ws (hd 0 s) = false /\ is_ws (last s 0) = false.
Lemma splitlines_aux_word w : lb_free w -> forall cur rest, splitlines_aux cur (w ++ rest) = splitlines_aux (rev w ++ cur) rest.
Proof.
  unfold lb_free. induction w as [|c w IH]; intros H cur rest; [reflexivity|]. cbn [forallb] in H. apply andb_prop in H as [H1 H2].
  apply negb_true_iff in H1. cbn [app splitlines_aux rev]. rewrite H1, IH by assumption. now rewrite <- app_assoc.
Qed.
Lemma lstrip_id s : is_ws (hd 0 s) = false -> lstrip s = s.
Proof. destruct s as [|c s]; [reflexivity|]. cbn [hd lstrip]. now intros ->. Qed.
Lemma strip_id s : edge_ok s -> strip s = s.
Proof.
  intros (N & H1 & H2). unfold strip. rewrite (lstrip_id s H1).
  rewrite (app_removelast_last 0 N) at 1. rewrite rev_app_distr. cbn [rev app]. rewrite lstrip_id by (cbn [hd]; exact H2).
  cbn [rev]. rewrite rev_involutive. symmetry. now apply app_removelast_last.
Qed.
Lemma nonempty_edge s : edge_ok s -> nonempty s = true.
Proof. intros (N & _). destruct s; [congruence | reflexivity]. Qed.
Lemma musl_two_lines l0 l1 tail : lb_free l0 -> lb_free l1 -> edge_ok l0 -> edge_ok l1 -> (tail = [] \/ exists t, tail = 10 :: t) ->
  exists more, filter nonempty (map strip (splitlines (l0 ++ [10] ++ l1 ++ tail))) = l0 :: l1 :: more.
Proof.
  intros F0 F1 E0 E1 T. unfold splitlines. rewrite splitlines_aux_word by assumption. rewrite app_nil_r. cbn [app splitlines_aux].
  change (is_linebreak 10) with true. cbv iota. rewrite rev_involutive. cbn [map filter]. rewrite (strip_id l0 E0), (nonempty_edge l0 E0).
  rewrite splitlines_aux_word by assumption. rewrite app_nil_r.
  destruct T as [->|[t ->]].
  - cbn [splitlines_aux]. destruct (rev l1) eqn:E; [apply (f_equal (@rev N)) in E; rewrite rev_involutive in E; destruct E1 as (N & _); contradiction|].
    rewrite <- E, rev_involutive. cbn [map filter]. rewrite (strip_id l1 E1), (nonempty_edge l1 E1). eauto.
  - cbn [splitlines_aux]. change (is_linebreak 10) with true. cbv iota. rewrite rev_involutive. cbn [map filter].
    rewrite (strip_id l1 E1), (nonempty_edge l1 E1). eauto.
Qed.
Lemma digit_not_lb c : is_digit c = true -> is_linebreak c = false.
Proof.
  unfold is_digit, is_linebreak. intros H. apply andb_prop in H as [H1 H2]. apply N.leb_le in H1, H2. cbn [existsb].
  repeat match goal with |- context [c =? ?k] => replace (c =? k) with false by (symmetry; apply N.eqb_neq; lia) end. reflexivity.
Qed.
Lemma lb_free_app a b : lb_free a -> lb_free b -> lb_free (a ++ b).
Proof. unfold lb_free. intros. rewrite forallb_app. now apply andb_true_intro. Qed.
Lemma lb_free_dn n : lb_free (dn n).
Proof.
  unfold lb_free. pose proof (dn_digits n) as H. induction (dn n) as [|c t IH]; [reflexivity|]. cbn [forallb] in *.
  apply andb_prop in H as [H1 H2]. rewrite (digit_not_lb c H1), IH; auto.
Qed.
(* _parse_musl_version reads major.minor back from the loader's banner:
     musl<a>  NEWLINE  Version <major>.<minor><sfx>  [NEWLINE anything] *)
Lemma parse_musl_render a M m sfx tail :
  lb_free a -> is_ws (last (s_musl ++ a) 0) = false ->
  lb_free sfx -> not_digit_head sfx = true -> is_ws (last (s_Version_ ++ dn M ++ [46] ++ dn m ++ sfx) 0) = false ->
  (tail = [] \/ exists t, tail = 10 :: t) ->
  parse_musl_version ((s_musl ++ a) ++ [10] ++ (s_Version_ ++ dn M ++ [46] ++ dn m ++ sfx) ++ tail) = Some (M, m).
Proof.
  intros Fa La Fs Ds Ls T.
  destruct (musl_two_lines (s_musl ++ a) (s_Version_ ++ dn M ++ [46] ++ dn m ++ sfx) tail) as [more E]; auto.
  - apply lb_free_app; [reflexivity|]. apply lb_free_app; [apply lb_free_dn|]. apply lb_free_app; [reflexivity|]. apply lb_free_app; [apply lb_free_dn|assumption].
  - repeat split; auto. discriminate.
  - repeat split; auto. discriminate.
  - unfold parse_musl_version. rewrite E. change (firstn 4 (s_musl ++ a)) with s_musl. rewrite streq_refl. cbn [negb].
    change (starts_with s_Version_ (s_Version_ ++ dn M ++ [46] ++ dn m ++ sfx)) with true. cbn [negb].
    change (skipn 8 (s_Version_ ++ dn M ++ [46] ++ dn m ++ sfx)) with (dn M ++ [46] ++ dn m ++ sfx).
    pose proof (parse_glibc_render M m sfx Ds) as P. unfold parse_glibc_version in P. exact P.
Qed.

(* ---------------------------------------------------------------- _linux_platforms: architecture remapping and order *)
Definition linux_archs (arch : str) : list str := if streq arch s_armv8l then [s_armv8l; s_armv7l] else [arch].
Definition remap32 (arch : str) : str := if streq arch s_x86_64 then s_i686 else if streq arch s_aarch64 then s_armv8l else arch.
Lemma starts_with_app p s : starts_with p (p ++ s) = true.
Proof. induction p as [|c p IH]; [destruct s; reflexivity|]. cbn [app starts_with]. now rewrite N.eqb_refl, IH. Qed.
Lemma linux_not_linux is32 plat e stderr : starts_with s_linux_ (normalize_string plat) = false ->
  linux_platforms is32 plat e stderr = [normalize_string plat].
Proof. intros H. unfold linux_platforms. now rewrite H. Qed.
Lemma linux_shape is32 plat e stderr arch : normalize_string plat = s_linux_ ++ arch ->
  linux_platforms is32 plat e stderr =
  let archs := linux_archs (if is32 then remap32 arch else arch) in
  manylinux_tags e archs ++ musllinux_tags (m_exe e) stderr archs ++ map (fun a => s_linux_ ++ a) archs.
Proof.
  intros H. unfold linux_platforms. rewrite H, starts_with_app. cbn [negb]. destruct is32.
  - change (streq (s_linux_ ++ arch) s_linux_x86_64) with (streq arch s_x86_64).
    change (streq (s_linux_ ++ arch) s_linux_aarch64) with (streq arch s_aarch64). unfold remap32.
    destruct (streq arch s_x86_64); [reflexivity|]. destruct (streq arch s_aarch64); reflexivity.
  - reflexivity.
Qed.

(* ---------------------------------------------------------------- the memoised probe *)
Lemma run_probes_filled v envs : run_probes (Some v) envs = map (fun _ => v) envs.
Proof. induction envs as [|e t IH]; cbn [run_probes cached_probe map]; [reflexivity | now rewrite IH]. Qed.
(* from an empty cache every call answers what the first call probed; in an unchanged environment that is what an
   uncached probe answers each time (the cache is transparent); cache_clear() (= starting again from None) re-probes *)
Lemma probes_memoised e envs : run_probes None (e :: envs) = e :: map (fun _ => e) envs.
Proof. cbn [run_probes cached_probe]. now rewrite run_probes_filled. Qed.
Lemma probes_transparent e n : run_probes None (repeat e n) = repeat e n.
Proof. destruct n as [|n]; [reflexivity|]. cbn [repeat]. rewrite probes_memoised. f_equal. induction n; cbn; congruence. Qed.

(* ---------------------------------------------------------------- _mac_binary_formats as a table *)
Lemma mac_formats_table v :
  mac_binary_formats v s_x86_64 = (if ver_lt v (10, 4)%nat then [] else [s_x86_64; s_intel; s_fat64; s_fat32; s_universal2; s_universal]) /\
  mac_binary_formats v s_i386 = (if ver_lt v (10, 4)%nat then [] else [s_i386; s_intel; s_fat32; s_fat; s_universal]) /\
  mac_binary_formats v s_ppc64 = (if ver_lt (10, 5)%nat v || ver_lt v (10, 4)%nat then [] else [s_ppc64; s_fat64; s_universal]) /\
  mac_binary_formats v s_ppc = (if ver_lt (10, 6)%nat v then [] else [s_ppc; s_fat32; s_fat; s_universal]) /\
  mac_binary_formats v s_arm64 = [s_arm64; s_universal2] /\
  mac_binary_formats v s_intel = [s_intel; s_universal] /\
  (forall a, ~ In a [s_x86_64; s_i386; s_ppc64; s_ppc; s_arm64; s_intel] -> mac_binary_formats v a = [a]).
Proof.
  repeat split; try (unfold mac_binary_formats; destruct (ver_lt v (10, 4)%nat), (ver_lt (10, 5)%nat v), (ver_lt (10, 6)%nat v); reflexivity).
  intros a H. unfold mac_binary_formats, in_set, mem. cbn [existsb].
  destruct (streq_spec a s_x86_64) as [->|N1]; [exfalso; apply H; cbn; auto|].
  destruct (streq_spec a s_i386) as [->|N2]; [exfalso; apply H; cbn; auto|].
  destruct (streq_spec a s_ppc64) as [->|N3]; [exfalso; apply H; cbn; auto|].
  destruct (streq_spec a s_ppc) as [->|N4]; [exfalso; apply H; cbn; auto|].
  destruct (streq_spec a s_arm64) as [->|N5]; [exfalso; apply H; cbn; auto 10|].
  destruct (streq_spec a s_intel) as [->|N6]; [exfalso; apply H; cbn; auto 10|]. reflexivity.
Qed.

(* ---------------------------------------------------------------- the policy module kinds; the ABI probes on an encoded image *)
Lemma policy_kinds arch M m :
  policy None arch M m = true /\
  (forall f a1 a2 a3, policy (Some {| p_func := Some f; p_1 := a1; p_2010 := a2; p_2014 := a3 |}) arch M m =
                      match f M m arch with FNone => true | FBool b => b end) /\
  (forall a1 a2 a3, policy (Some {| p_func := None; p_1 := a1; p_2010 := a2; p_2014 := a3 |}) arch M m =
                    if (M =? 2)%nat && (m =? 5)%nat then attr_or_true a1
                    else if (M =? 2)%nat && (m =? 12)%nat then attr_or_true a2
                    else if (M =? 2)%nat && (m =? 17)%nat then attr_or_true a3 else true).
Proof. repeat split. Qed.
Lemma abi_probe_encoded s : wf_spec s ->
  is_linux_armhf (parse_exe (Some (encode s))) =
    (negb (s_is64 s) && negb (s_big s) && (s_machine s =? 40) && (N.land (s_flags s) 4278190080 =? 83886080) && (N.land (s_flags s) 1024 =? 1024)) /\
  is_linux_i686 (parse_exe (Some (encode s))) = (negb (s_is64 s) && negb (s_big s) && (s_machine s =? 3)).
Proof.
  intros W. unfold parse_exe. rewrite (encode_header s W). unfold is_linux_armhf, is_linux_i686, elf_of.
  cbn [capacity encoding machine flags]. destruct (s_is64 s), (s_big s); split; reflexivity.
Qed.
Lemma abi_without_probe exe archs : mem s_armv7l archs = false -> mem s_i686 archs = false ->
  have_compatible_abi exe archs = existsb (fun a => mem a allowed_archs) archs.
Proof. intros H1 H2. unfold have_compatible_abi. now rewrite H1, H2. Qed.
