(* C16 - "the glibc and musl version strings decode exactly what the string encodes": _parse_glibc_version and
   _parse_musl_version characterised completely (accepted iff of the stated shape, and then exactly these numbers), instead of
   only on canonical renderings.  Leading zeros, digit-led rejects ("2", "2.", "2x"), junk after the minor are all covered. *)
From Coq Require Import List Arith NArith Bool Lia.
Import ListNotations.
Require Import Elf ElfFile VParse VDec Tags TagsLit TagsModel TagsProofs TagsThread PlatLit PlatModel PlatProofs.
Open Scope N_scope.
Arguments N.eqb : simpl never.
Arguments N.leb : simpl never.

(* <digits>.<digits><rest>, rest not starting with a digit (the digit runs are maximal); the numbers are the decimal values *)
Definition version_shape (s : str) (M m : nat) : Prop :=
  exists d1 d2 r, s = d1 ++ [46] ++ d2 ++ r /\ d1 <> [] /\ d2 <> [] /\ forallb is_digit d1 = true /\ forallb is_digit d2 = true /\
                  head_not is_digit r = true /\ to_nat_dec d1 = M /\ to_nat_dec d2 = m.
(* the scanner shared by the two parsers *)
Definition scan_version (s : str) : option (nat * nat) :=
  let '(d1, r1) := span is_digit s in
  match d1, r1 with
  | _ :: _, c :: r2 =>
      if c =? 46 then let '(d2, _) := span is_digit r2 in match d2 with _ :: _ => Some (to_nat_dec d1, to_nat_dec d2) | [] => None end
      else None
  | _, _ => None
  end.
Lemma scan_version_spec s M m : scan_version s = Some (M, m) <-> version_shape s M m.
Proof.
  unfold scan_version, version_shape. split.
  - destruct (span is_digit s) as [d1 r1] eqn:S1. apply span_complete in S1 as (-> & D1 & H1).
    destruct d1 as [|x d1]; [discriminate|]. destruct r1 as [|c r2]; [discriminate|].
    destruct (N.eqb_spec c 46) as [->|]; [|discriminate]. destruct (span is_digit r2) as [d2 r] eqn:S2.
    apply span_complete in S2 as (-> & D2 & H2). destruct d2 as [|y d2]; [discriminate|]. intros E. inversion E; subst.
    exists (x :: d1), (y :: d2), r. repeat split; auto; discriminate.
  - intros (d1 & d2 & r & -> & N1 & N2 & D1 & D2 & H & <- & <-).
    rewrite (span_app is_digit d1 ([46] ++ d2 ++ r) D1 eq_refl). destruct d1 as [|x d1]; [congruence|]. cbn [app].
    rewrite N.eqb_refl, (span_app is_digit d2 r D2 H). destruct d2; [congruence | reflexivity].
Qed.
Lemma parse_glibc_is_scan s : parse_glibc_version s = scan_version s.
Proof. reflexivity. Qed.
Theorem parse_glibc_iff s M m : parse_glibc_version s = Some (M, m) <-> version_shape s M m.
Proof. rewrite parse_glibc_is_scan. apply scan_version_spec. Qed.
Theorem parse_glibc_none_iff s : parse_glibc_version s = None <-> ~ exists M m, version_shape s M m.
Proof.
  split.
  - intros H (M & m & S). apply parse_glibc_iff in S. congruence.
  - intros H. destruct (parse_glibc_version s) as [[M m]|] eqn:E; [|reflexivity]. exfalso. apply H. exists M, m. now apply parse_glibc_iff.
Qed.
(* the decimal value: leading zeros do not matter, the canonical rendering is read back *)
Lemma to_nat_dec_dn n : to_nat_dec (dn n) = n.
Proof. unfold to_nat_dec, dn. rewrite undec_dec. apply Nat2N.id. Qed.

(* musl: the non-blank stripped lines of the loader's output; the first must begin with "musl", the second must be
   "Version " followed by a version of the shape above *)
Definition nonblank_lines (output : str) : list str := filter nonempty (map strip (splitlines output)).
Lemma parse_musl_unfold output :
  parse_musl_version output =
  match nonblank_lines output with
  | l0 :: l1 :: _ => if negb (streq (firstn 4 l0) s_musl) then None else if negb (starts_with s_Version_ l1) then None else scan_version (skipn 8 l1)
  | _ => None
  end.
Proof. reflexivity. Qed.
Lemma starts_with_split p s : starts_with p s = true -> s = p ++ skipn (length p) s.
Proof.
  revert s. induction p as [|c p IH]; intros s H; [reflexivity|]. destruct s as [|x s]; [discriminate|]. cbn [starts_with] in H.
  apply andb_prop in H as [H1 H2]. apply N.eqb_eq in H1. subst. cbn [app length skipn]. f_equal. now apply IH.
Qed.
Theorem parse_musl_iff output M m :
  parse_musl_version output = Some (M, m) <->
  exists l0 l1 more v, nonblank_lines output = l0 :: l1 :: more /\ firstn 4 l0 = s_musl /\ l1 = s_Version_ ++ v /\ version_shape v M m.
Proof.
  rewrite parse_musl_unfold. split.
  - destruct (nonblank_lines output) as [|l0 [|l1 more]]; try discriminate.
    destruct (streq_spec (firstn 4 l0) s_musl) as [E0|]; [|discriminate]. cbn [negb].
    destruct (starts_with s_Version_ l1) eqn:E1; [|discriminate]. cbn [negb]. intros S. apply scan_version_spec in S.
    exists l0, l1, more, (skipn 8 l1). repeat split; auto. exact (starts_with_split s_Version_ l1 E1).
  - intros (l0 & l1 & more & v & -> & E0 & -> & S). rewrite E0, streq_refl, starts_with_app. cbn [negb].
    change (skipn 8 (s_Version_ ++ v)) with v. now apply scan_version_spec.
Qed.
