(* C16 - where the code departs from the TEXT of the property (each a closed counterexample on the model the run executes, next
   to the hypothesis under which the existing theorem holds):
   (a) "floor 2.5 on x86_64/i686, 2.17 elsewhere" is applied per LIST, not per architecture (D27);
   (b) "a newer system offers a superset" fails across glibc majors when the older minor exceeds the assumed last minor 50, and
       for glibc 1.x; for iOS it fails exactly when the older minor exceeds 9 (an iff);
   (c) "sequences contain no duplicates" needs distinct architectures. *)
From Coq Require Import List Arith NArith Bool Lia.
Import ListNotations.
Require Import Elf ElfFile VParse VDec Tags TagsLit TagsModel TagsProofs PlatLit PlatModel PlatProofs.
Open Scope N_scope.
Arguments N.eqb : simpl never.
Arguments N.leb : simpl never.

(* the floor the text gives an architecture *)
Definition arch_floor (a : str) : nat := if streq a s_x86_64 || streq a s_i686 then 5%nat else 17%nat.
(* (a) a mixed list: s390x is offered manylinux_2_16 .. manylinux_2_5 and manylinux1/2010 (below its floor 2.17) *)
Theorem mixed_list_floor :
  arch_floor s_s390x = 17%nat /\
  In (MT false 2 16 s_s390x) (many_spec [s_s390x; s_x86_64] 2 19 None) /\ In (MT true 2 5 s_s390x) (many_spec [s_s390x; s_x86_64] 2 19 None).
Proof.
  split; [reflexivity|]. split; apply in_many_spec; (split; [now left|]); (split; [apply in_many_versions; left; vm_compute; lia|]);
    (split; [reflexivity|]); intros E; first [discriminate E | vm_compute; discriminate].
Qed.
(* for a list of one floor class the text's floor holds per architecture *)
Theorem homogeneous_floor archs M m pm k b ar :
  (forall a, In a archs -> arch_floor a = arch_floor ar) -> In (MT k 2 b ar) (many_spec archs M m pm) -> (arch_floor ar <= b)%nat.
Proof.
  intros Hom H. pose proof (many_floor archs M m pm k b ar H) as F. apply in_many_spec in H as (Hin & _).
  destruct (too_old_cases archs) as [[E [Hx|Hx]]|[E [N1 N2]]]; rewrite E in F.
  - rewrite <- (Hom _ Hx). unfold arch_floor. rewrite streq_refl. cbn. lia.
  - rewrite <- (Hom _ Hx). unfold arch_floor. rewrite streq_refl, orb_true_r. lia.
  - unfold arch_floor. destruct (streq_spec ar s_x86_64) as [->|]; [contradiction|]. destruct (streq_spec ar s_i686) as [->|]; [contradiction|]. cbn. lia.
Qed.

(* (b) manylinux across majors *)
Theorem cross_major_superset_fails :
  In (MT false 2 51 s_x86_64) (many_spec [s_x86_64] 2 51 None) /\ ~ In (MT false 2 51 s_x86_64) (many_spec [s_x86_64] 3 0 None) /\
  In (MT false 1 3 s_x86_64) (many_spec [s_x86_64] 1 3 None) /\ ~ In (MT false 1 3 s_x86_64) (many_spec [s_x86_64] 2 17 None).
Proof.
  repeat split.
  - apply in_many_spec. repeat split; [now left | apply in_many_versions; left; vm_compute; lia | discriminate].
  - intros H. apply in_many_spec in H as (_ & H & _). apply in_many_versions in H. vm_compute in H. lia.
  - apply in_many_spec. repeat split; [now left | apply in_many_versions; left; vm_compute; lia | discriminate].
  - intros H. apply in_many_spec in H as (_ & H & _). apply in_many_versions in H. vm_compute in H. lia.
Qed.
(* iOS: exactly when the superset clause holds *)
Theorem ios_superset_iff M m M' m' ma : (12 <= M)%nat -> (12 <= M')%nat ->
  (incl (ios_struct (M, m) ma) (ios_struct (M', m') ma) <-> ((M = M' /\ m <= m') \/ (M < M' /\ m <= 9))%nat).
Proof.
  intros H H'. split; [|apply ios_monotone].
  intros I. assert (Hin : In (M, m, dash_to_us ma) (ios_struct (M, m) ma)) by (apply in_ios; auto; split; auto; left; lia).
  apply I in Hin. apply in_ios in Hin; auto. lia.
Qed.
Theorem ios_minor10_superset_fails ma :
  In (13, 10, dash_to_us ma)%nat (ios_struct (13, 10)%nat ma) /\ ~ In (13, 10, dash_to_us ma)%nat (ios_struct (14, 0)%nat ma).
Proof.
  split; [apply in_ios; [lia|]; split; auto; left; lia|]. intros H. apply in_ios in H; [|lia]. lia.
Qed.

(* (c) a repeated architecture repeats every tag *)
Theorem repeated_arch_repeats : ~ NoDup (many_spec [s_aarch64; s_aarch64] 2 18 None) /\ ~ NoDup (musl_struct (Some (1, 2)%nat) [s_aarch64; s_aarch64]).
Proof.
  split; intros H; vm_compute in H; inversion H as [|x l N _]; apply N; cbn [In]; auto 10.
Qed.
