(* C12: the version language is closed under changing the case of ASCII letters - stated on the scanner itself:
   for any character map f that keeps every character's case-folded value (lc (f c) = lc c), scanning map f s gives the tree of s mapped by f.
   Also: a character that is neither whitespace nor ASCII makes Version reject the string. *)
From Coq Require Import List Arith NArith Bool Lia.
Import ListNotations.
Require Import VParse VComplete VTop VTop2 VDec Py VMeaning VCanon VCanon2 VWf SpecModel VAscii VGnfExists.
Open Scope N_scope.
Arguments N.eqb : simpl never.
Arguments N.leb : simpl never.

(* predicates that cannot tell the case of an ASCII letter *)
Definition caseblind (q : char -> bool) : Prop := forall c, q c = q (lc c).
Lemma lc_cases c : lc c = c \/ (65 <= c /\ c <= 90 /\ lc c = c + 32).
Proof. unfold lc. destruct ((65 <=? c) && (c <=? 90)) eqn:U; [|now left]. apply andb_prop in U as [A B]. apply N.leb_le in A, B. right; auto. Qed.
Lemma cb_digit : caseblind is_digit.
Proof. intros c. destruct (lc_cases c) as [->|(A & B & ->)]; [reflexivity|]. unfold is_digit. chr. Qed.
Lemma cb_sep : caseblind is_sep.
Proof. intros c. destruct (lc_cases c) as [->|(A & B & ->)]; [reflexivity|]. unfold is_sep. chr. Qed.
Lemma cb_eqb k : k < 65 -> caseblind (N.eqb k).
Proof. intros K c. destruct (lc_cases c) as [->|(A & B & ->)]; [reflexivity|]. chr. Qed.
Lemma cb_eqb' k : k < 65 -> caseblind (fun c => c =? k).
Proof. intros K c. destruct (lc_cases c) as [->|(A & B & ->)]; [reflexivity|]. chr. Qed.
Lemma cb_ws : caseblind is_ws.
Proof.
  intros c. destruct (lc_cases c) as [->|(A & B & E)]; [reflexivity|].
  assert (L : is_lower (lc c) = true) by (rewrite E; unfold is_lower; chr).
  assert (L' : is_lower (lc (lc c)) = true) by (now rewrite lc_idem).
  destruct (is_ws c) eqn:W1.
  - pose proof (alnum_not_ws c) as X. unfold is_alnum_ci in X. rewrite L, orb_true_r in X. specialize (X eq_refl). congruence.
  - destruct (is_ws (lc c)) eqn:W2; [|reflexivity].
    pose proof (alnum_not_ws (lc c)) as X. unfold is_alnum_ci in X. rewrite L', orb_true_r in X. specialize (X eq_refl). congruence.
Qed.
Lemma cb_alnum : caseblind is_alnum_ci.
Proof. intros c. unfold is_alnum_ci. now rewrite lc_idem, <- (cb_digit c). Qed.
Lemma cb_v : caseblind (fun c => lc c =? 118).
Proof. intros c. now rewrite lc_idem. Qed.

Section Fold.
Variable f : char -> char.
Hypothesis Hf : forall c, lc (f c) = lc c.

Lemma cb_f q : caseblind q -> forall c, q (f c) = q c.
Proof. intros Q c. now rewrite (Q (f c)), Hf, <- (Q c). Qed.
Lemma map_lc_f s : map lc (map f s) = map lc s.
Proof. rewrite map_map. apply map_ext. exact Hf. Qed.

Definition map2 (p : str * str) : str * str := (map f (fst p), map f (snd p)).
Lemma span_map q : caseblind q -> forall s, span q (map f s) = map2 (span q s).
Proof.
  intros Q. induction s as [|c s IH]; [reflexivity|]. cbn [map span]. rewrite (cb_f q Q c), IH.
  destruct (q c); [|reflexivity]. destruct (span q s); reflexivity.
Qed.
Lemma hd_is_map q : caseblind q -> forall s, hd_is q (map f s) = hd_is q s.
Proof. intros Q [|c s]; [reflexivity|]. cbn [map hd_is]. apply (cb_f q Q). Qed.
Lemma hd2_is_map k q : k < 65 -> caseblind q -> forall s, hd2_is k q (map f s) = hd2_is k q s.
Proof.
  intros K Q [|c s]; [reflexivity|]. cbn [map hd2_is]. rewrite (cb_f _ (cb_eqb' k K) c). f_equal. apply (hd_is_map q Q).
Qed.
Lemma tl_map (s : str) : tl (map f s) = map f (tl s).
Proof. destruct s; reflexivity. Qed.
Lemma forallb_map q : caseblind q -> forall s, forallb q (map f s) = forallb q s.
Proof. intros Q. induction s as [|c s IH]; [reflexivity|]. cbn [map forallb]. now rewrite (cb_f q Q c), IH. Qed.
Lemma nonempty_map (s : str) : nonempty (map f s) = nonempty s.
Proof. destruct s; reflexivity. Qed.

Lemma opt_sep_map s : opt_sep (map f s) = (option_map f (fst (opt_sep s)), map f (snd (opt_sep s))).
Proof. destruct s as [|c s]; [reflexivity|]. cbn [map opt_sep]. rewrite (cb_f _ cb_sep c). destruct (is_sep c); reflexivity. Qed.
Lemma match_word_map w : forall s, match_word w (map f s) = option_map map2 (match_word w s).
Proof.
  induction w as [|p w IH]; intros s; [reflexivity|]. destruct s as [|c s]; [reflexivity|].
  cbn [map match_word]. rewrite Hf, IH. destruct (lc c =? p); [|reflexivity]. destruct (match_word w s) as [[a r]|]; reflexivity.
Qed.
Lemma first_word_map ws : forall s, first_word ws (map f s) = option_map map2 (first_word ws s).
Proof.
  induction ws as [|w ws IH]; intros s; [reflexivity|]. cbn [first_word]. rewrite match_word_map, IH.
  destruct (match_word w s) as [[a r]|]; reflexivity.
Qed.

Definition map_lv (l : lv_sp) : lv_sp :=
  {| l_sep1 := option_map f (l_sep1 l); l_word := map f (l_word l); l_sep2 := option_map f (l_sep2 l); l_num := map f (l_num l) |}.
Definition map_post (p : post_sp) : post_sp :=
  match p with PostImplicit d => PostImplicit (map f d) | PostWord l => PostWord (map_lv l) end.
Definition map_segs (t : list (char * str)) : list (char * str) := map (fun cs => (f (fst cs), map f (snd cs))) t.
Definition map_loc (l : str * list (char * str)) : str * list (char * str) := (map f (fst l), map_segs (snd l)).
Definition map_sp (sp : spelling) : spelling :=
  {| ws_l := map f (ws_l sp); vpre := option_map f (vpre sp); ep := option_map (map f) (ep sp); rel0 := map f (rel0 sp);
     rels := map (map f) (rels sp); spre := option_map map_lv (spre sp); spost := option_map map_post (spost sp);
     sdev := option_map map_lv (sdev sp); sloc := option_map map_loc (sloc sp); ws_r := map f (ws_r sp) |}.
Definition mapr {A} (g : A -> A) (x : A * str) : A * str := (g (fst x), map f (snd x)).

Lemma p_lv_map words s : p_lv words (map f s) = option_map (mapr map_lv) (p_lv words s).
Proof.
  unfold p_lv. rewrite opt_sep_map. destruct (opt_sep s) as [s1 t1]. cbn [fst snd]. rewrite first_word_map.
  destruct (first_word words t1) as [[w t2]|]; [|reflexivity]. cbn [option_map map2 fst snd]. rewrite opt_sep_map.
  destruct (opt_sep t2) as [s2 t3]. cbn [fst snd]. rewrite (span_map _ cb_digit). destruct (span is_digit t3) as [n t4]. reflexivity.
Qed.
Lemma p_post_map s : p_post (map f s) = option_map (mapr map_post) (p_post s).
Proof.
  unfold p_post. rewrite (hd2_is_map 45 _ eq_refl cb_digit). destruct (hd2_is 45 is_digit s).
  - rewrite tl_map, (span_map _ cb_digit). destruct (span is_digit (tl s)); reflexivity.
  - rewrite p_lv_map. destruct (p_lv post_words s) as [[l r]|]; reflexivity.
Qed.
Lemma p_rels_map fuel : forall s, p_rels fuel (map f s) = (map (map f) (fst (p_rels fuel s)), map f (snd (p_rels fuel s))).
Proof.
  induction fuel as [|n IH]; intros s; [reflexivity|]. cbn [p_rels]. rewrite (hd2_is_map 46 _ eq_refl cb_digit).
  destruct (hd2_is 46 is_digit s); [|reflexivity]. rewrite tl_map, (span_map _ cb_digit). destruct (span is_digit (tl s)) as [d r].
  cbn [map2 fst snd]. rewrite IH. destruct (p_rels n r); reflexivity.
Qed.
Lemma p_segs_map fuel : forall s, p_segs fuel (map f s) = (map_segs (fst (p_segs fuel s)), map f (snd (p_segs fuel s))).
Proof.
  induction fuel as [|n IH]; intros s; [reflexivity|]. cbn [p_segs]. destruct s as [|c t]; [reflexivity|]. cbn [map].
  rewrite (cb_f _ cb_sep c), (hd_is_map _ cb_alnum). destruct (is_sep c && hd_is is_alnum_ci t); [|reflexivity].
  rewrite (span_map _ cb_alnum). destruct (span is_alnum_ci t) as [d r]. cbn [map2 fst snd]. rewrite IH. destruct (p_segs n r); reflexivity.
Qed.
Lemma p_loc_map s : p_loc (map f s) = option_map (mapr map_loc) (p_loc s).
Proof.
  unfold p_loc. destruct s as [|c t]; [reflexivity|]. cbn [map].
  rewrite (cb_f _ (cb_eqb' 43 eq_refl) c), (hd_is_map _ cb_alnum). destruct ((c =? 43) && hd_is is_alnum_ci t); [|reflexivity].
  rewrite (span_map _ cb_alnum). destruct (span is_alnum_ci t) as [d r]. cbn [map2 fst snd]. rewrite map_length, p_segs_map.
  destruct (p_segs (length r) r); reflexivity.
Qed.
Lemma p_opt_map {A} (p : str -> option (A * str)) (g : A -> A) :
  (forall s, p (map f s) = option_map (mapr g) (p s)) ->
  forall s, p_opt p (map f s) = (option_map g (fst (p_opt p s)), map f (snd (p_opt p s))).
Proof. intros H s. unfold p_opt. rewrite H. destruct (p s) as [[a r]|]; reflexivity. Qed.
Lemma p_v_map s : p_v (map f s) = (option_map f (fst (p_v s)), map f (snd (p_v s))).
Proof. destruct s as [|c s]; [reflexivity|]. cbn [map p_v]. rewrite Hf. destruct (lc c =? 118); reflexivity. Qed.

Theorem parse_spelling_map s : parse_spelling (map f s) = option_map map_sp (parse_spelling s).
Proof.
  unfold parse_spelling. rewrite (span_map _ cb_ws). destruct (span is_ws s) as [wl s1]. cbn [map2 fst snd].
  rewrite p_v_map. destruct (p_v s1) as [v s2]. cbn [fst snd].
  rewrite (span_map _ cb_digit). destruct (span is_digit s2) as [d1 s3]. cbn [map2 fst snd].
  rewrite nonempty_map. destruct (nonempty d1); [|reflexivity]. cbn [negb].
  rewrite (hd_is_map _ (cb_eqb 33 eq_refl)), tl_map, (span_map _ cb_digit).
  destruct (hd_is (N.eqb 33) s3).
  - destruct (span is_digit (tl s3)) as [d2 t']. cbn [map2 fst snd]. rewrite nonempty_map. destruct (nonempty d2); [|reflexivity]. cbn [negb].
    rewrite map_length, p_rels_map. destruct (p_rels (length t') t') as [rs s5]. cbn [fst snd].
    rewrite (p_opt_map _ map_lv (p_lv_map pre_words)). destruct (p_opt (p_lv pre_words) s5) as [pr s6]. cbn [fst snd].
    rewrite (p_opt_map _ map_post p_post_map). destruct (p_opt p_post s6) as [po s7]. cbn [fst snd].
    rewrite (p_opt_map _ map_lv (p_lv_map dev_words)). destruct (p_opt (p_lv dev_words) s7) as [dv s8]. cbn [fst snd].
    rewrite (p_opt_map _ map_loc p_loc_map). destruct (p_opt p_loc s8) as [lo s9]. cbn [fst snd].
    rewrite (forallb_map _ cb_ws). destruct (forallb is_ws s9); reflexivity.
  - rewrite nonempty_map. destruct (nonempty d1); [|reflexivity]. cbn [negb].
    rewrite map_length, p_rels_map. destruct (p_rels (length s3) s3) as [rs s5]. cbn [fst snd].
    rewrite (p_opt_map _ map_lv (p_lv_map pre_words)). destruct (p_opt (p_lv pre_words) s5) as [pr s6]. cbn [fst snd].
    rewrite (p_opt_map _ map_post p_post_map). destruct (p_opt p_post s6) as [po s7]. cbn [fst snd].
    rewrite (p_opt_map _ map_lv (p_lv_map dev_words)). destruct (p_opt (p_lv dev_words) s7) as [dv s8]. cbn [fst snd].
    rewrite (p_opt_map _ map_loc p_loc_map). destruct (p_opt p_loc s8) as [lo s9]. cbn [fst snd].
    rewrite (forallb_map _ cb_ws). destruct (forallb is_ws s9); reflexivity.
Qed.

Corollary Version_accepts_map s : (exists v, Version s = Some v) <-> (exists v, Version (map f s) = Some v).
Proof.
  unfold Version. rewrite parse_spelling_map. destruct (parse_spelling s); cbn [option_map]; split; intros [v E]; try discriminate; eexists; reflexivity.
Qed.
End Fold.

(* two strings that differ only in the case of ASCII letters are accepted or rejected together *)
Theorem Version_case_insensitive s t : Forall2 (fun c d => lc c = lc d) s t -> ((exists v, Version s = Some v) <-> (exists v, Version t = Some v)).
Proof.
  intros H. assert (E : map lc s = map lc t) by (induction H; cbn [map]; congruence).
  rewrite (Version_accepts_map lc lc_idem s), (Version_accepts_map lc lc_idem t), E. reflexivity.
Qed.
(* ... and read alike up to the spelling: same epoch, release, numbers; (lemma for the meaning is not needed for C12) *)

(* a character that is neither whitespace nor ASCII makes the string a non-version *)
Theorem non_ascii_rejected s c : In c s -> is_ws c = false -> is_ascii c = false -> Version s = None.
Proof.
  intros Hin Hw Ha. destruct (Version s) as [v|] eqn:E; [|reflexivity]. exfalso.
  destruct (version_core_ascii s v E) as (wl & core & wr & -> & W1 & W2 & A).
  rewrite forallb_forall in W1, W2, A.
  apply in_app_or in Hin as [H|H]; [rewrite (W1 _ H) in Hw; discriminate|].
  apply in_app_or in H as [H|H]; [rewrite (A _ H) in Ha; discriminate | rewrite (W2 _ H) in Hw; discriminate].
Qed.
Print Assumptions parse_spelling_map.
Print Assumptions Version_case_insensitive.
Print Assumptions non_ascii_rejected.
