(* C01 "numerically": a plain decimal string, with any number of leading zeros, is accepted and read as its value, so two of them compare
   as their values do - a statement that would be false if int() (VMeaning.num) or the scanner were wrong about digits. *)
From Coq Require Import List Arith NArith Bool Lia.
Import ListNotations.
Require Import S1 VParse VComplete VTop VTop2 VDec Py VMeaning VCanon VCanon3 VInt VCmp SpecModel.
Open Scope N_scope.
Arguments N.eqb : simpl never.
Arguments N.leb : simpl never.

Definition sp_digits (d : str) : spelling :=
  {| ws_l := []; vpre := None; ep := None; rel0 := d; rels := []; spre := None; spost := None; sdev := None; sloc := None; ws_r := [] |}.
Lemma hd_digit_facts d : hd_is is_digit d = true -> hd_is is_ws d = false /\ hd_is (fun c => lc c =? 118) d = false.
Proof.
  destruct d as [|c d]; cbn [hd_is]; [discriminate|]. intros H. split; [now apply digit_not_ws|].
  rewrite (lc_digit c H). apply digit_range in H. apply N.eqb_neq. lia.
Qed.
Lemma gnf_digits d : wf_digits d = true -> gnf (sp_digits d) = true.
Proof.
  intros W. pose proof (wf_digits_hd d W) as H. destruct (hd_digit_facts d H) as [A B].
  assert (N : nonempty d = true) by (unfold wf_digits in W; now apply andb_prop in W as [? _]).
  unfold gnf, t_v, t_num, t_rels, t_pre, t_post, t_dev, t_loc, sp_digits; cbn [ws_l vpre ep rel0 rels spre spost sdev sloc ws_r r_opt r_osep r_rels app].
  rewrite !app_nil_r, A, B, W. reflexivity.
Qed.
Lemma zeros_dec_wf k n : wf_digits (repeat 48 k ++ dec n) = true.
Proof.
  unfold wf_digits. rewrite forallb_app, dec_digits, andb_true_r.
  assert (Z : forallb is_digit (repeat 48 k) = true) by (induction k; cbn [repeat forallb]; auto).
  rewrite Z, andb_true_r. destruct k; cbn [repeat app nonempty]; [|reflexivity]. pose proof (dec_nonnil n). now destruct (dec n).
Qed.
Definition plain (n : N) : version := {| epoch := 0; release := [n]; pre := None; post := None; dev := None; local := None |}.
Theorem Version_decimal k n : Version (repeat 48 k ++ dec n) = Some (plain n).
Proof.
  pose proof (parse_spelling_complete _ (gnf_digits _ (zeros_dec_wf k n))) as P.
  unfold render, sp_digits in P; cbn [ws_l vpre ep rel0 rels spre spost sdev sloc ws_r r_opt r_osep r_rels app] in P. rewrite !app_nil_r in P.
  unfold Version. rewrite P. cbn [option_map]. unfold meaning, plain; cbn [ep rel0 rels spre spost sdev sloc option_map map]. now rewrite num_leading_zeros.
Qed.
Theorem plain_cmp n m : pep440_cmp (plain n) (plain m) = (n ?= m).
Proof. unfold pep440_cmp, plain; cbn [epoch release padcmp]. change (0 ?= 0) with Eq. cbn [thenc]. destruct (n ?= m); reflexivity. Qed.
Print Assumptions Version_decimal.
