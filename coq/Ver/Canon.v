From Coq Require Import List Arith NArith Bool Lia.
Import ListNotations.
Require Import S1 VParse VComplete VTop VTop2 VDec Py VMeaning VCanon VCanon2 VCanon3 VCmp SpecModel Order.
Open Scope N_scope.

(* _TrimmedRelease.release: drop trailing zeros but keep the first component *)
Definition trim_rel (r : list N) : list N := match strip' r with [] => firstn 1 r | s => s end.
Definition trim (v : version) : version :=
  {| Py.epoch := Py.epoch v; Py.release := trim_rel (Py.release v); Py.pre := Py.pre v; Py.post := Py.post v;
     Py.dev := Py.dev v; Py.local := Py.local v |}.
(* canonicalize_version(s, strip_trailing_zero) *)
Definition canon (strip : bool) (s : str) : str :=
  match Version s with Some v => if strip then vstr (trim v) else vstr v | None => s end.

Lemma trim_rel_nonempty r : r <> [] -> trim_rel r <> [].
Proof. unfold trim_rel. destruct (strip' r) eqn:E; [destruct r; cbn; congruence | discriminate]. Qed.
Lemma wf_trim v : VMeaning.wf_version v -> VMeaning.wf_version (trim v).
Proof. intros (A & B & C & D & E). repeat split; auto. cbn. now apply trim_rel_nonempty. Qed.

(* vstr is injective on well-formed versions, because Version(str(v)) gives v back *)
Lemma vstr_inj a b : VMeaning.wf_version a -> VMeaning.wf_version b -> vstr a = vstr b -> a = b.
Proof.
  intros Wa Wb E. pose proof (parse_vstr a Wa) as Pa. pose proof (parse_vstr b Wb) as Pb. rewrite E in Pa. congruence.
Qed.

(* comparison Eq means structurally equal, component by component *)
Lemma lex_eq a : forall b, lex a b = Eq -> a = b.
Proof.
  induction a as [|x a IH]; intros [|y b]; cbn; try discriminate; auto.
  destruct (x ?= y) eqn:E; try discriminate. apply N.compare_eq in E. intros H. f_equal; auto.
Qed.
Lemma str_cmp_eq a : forall b, str_cmp a b = Eq -> a = b.
Proof.
  induction a as [|x a IH]; intros [|y b]; cbn; try discriminate; auto.
  destruct (x ?= y) eqn:E; try discriminate. apply N.compare_eq in E. intros H. f_equal; auto.
Qed.
Lemma seg_lex_eq a : forall b, seg_lex a b = Eq -> a = b.
Proof.
  induction a as [|x a IH]; intros [|y b]; cbn; try discriminate; auto.
  destruct (seg_cmp x y) eqn:E; cbn; try discriminate. intros H. f_equal; auto.
  destruct x, y; cbn in E; try discriminate; f_equal; [now apply N.compare_eq | now apply str_cmp_eq].
Qed.
Lemma pair_cmp_eq x y : pair_cmp x y = Eq -> x = y.
Proof.
  destruct x as [a b], y as [c d]. unfold pair_cmp; cbn. destruct (a ?= c) eqn:E; cbn; try discriminate.
  intros H. apply N.compare_eq in E, H. congruence.
Qed.
Lemma thenc_eq c d : thenc c d = Eq -> c = Eq /\ d = Eq.
Proof. destruct c; cbn; auto; discriminate. Qed.

Lemma strip'_trim r : strip' (trim_rel r) = strip' r.
Proof.
  unfold trim_rel. destruct (strip' r) as [|x s] eqn:E.
  - destruct r as [|y r]; cbn; auto. apply strip'_nil in E. cbn in E. apply andb_prop in E as [E _]. cbn. now rewrite E.
  - rewrite <- E. clear E.
    induction r as [|y r IH]; cbn [strip']; auto. destruct (allz (y :: r)) eqn:A; auto.
    cbn [strip']. rewrite IH.
    assert (allz (y :: strip' r) = false).
    { cbn [allz] in *. destruct (y =? 0) eqn:Y; auto. cbn in *. clear IH. induction r as [|z r IH]; [discriminate|].
      cbn [strip']. rewrite A. cbn [allz] in *. destruct (z =? 0); cbn in *; auto. }
    now rewrite H.
Qed.
Lemma trim_rel_eq a b : a <> [] -> b <> [] -> strip' a = strip' b -> trim_rel a = trim_rel b.
Proof.
  intros Ha Hb E. unfold trim_rel. rewrite <- E. destruct (strip' a) eqn:S; auto.
  symmetry in E. apply strip'_nil in S, E. destruct a as [|x a], b as [|y b]; try congruence.
  cbn in *. apply andb_prop in S as [S _], E as [E _]. apply N.eqb_eq in S, E. now subst.
Qed.

Section CI.
Variables a b : version.
Hypothesis Wa : VMeaning.wf_version a.
Hypothesis Wb : VMeaning.wf_version b.

Lemma pre_eq : pair_cmp (pre_class a) (pre_class b) = Eq -> pair_cmp (post_class a) (post_class b) = Eq ->
  pair_cmp (dev_class a) (dev_class b) = Eq -> Py.pre a = Py.pre b /\ Py.post a = Py.post b /\ Py.dev a = Py.dev b.
Proof.
  intros H1 H2 H3. apply pair_cmp_eq in H1, H2, H3.
  destruct Wa as (_ & Pa & Qa & Da & _), Wb as (_ & Pb & Qb & Db & _).
  unfold pre_class, post_class, dev_class in *.
  assert (Post : Py.post a = Py.post b).
  { destruct (Py.post a) as [[l n]|], (Py.post b) as [[l' n']|]; try discriminate; auto. inversion H2. congruence. }
  assert (Dev : Py.dev a = Py.dev b).
  { destruct (Py.dev a) as [[l n]|], (Py.dev b) as [[l' n']|]; try discriminate; auto. inversion H3. congruence. }
  repeat split; auto.
  destruct (Py.pre a) as [[l n]|], (Py.pre b) as [[l' n']|]; auto.
  - inversion H1. f_equal. f_equal; auto.
    destruct Pa as [->|[->| ->]], Pb as [->|[->| ->]]; auto; discriminate.
  - exfalso. destruct (Py.post b), (Py.dev b); inversion H1; destruct Pa as [->|[->| ->]]; discriminate.
  - exfalso. destruct (Py.post a), (Py.dev a); inversion H1; destruct Pb as [->|[->| ->]]; discriminate.
Qed.

Theorem C02_canon_complete_invariant : vstr (trim a) = vstr (trim b) <-> pep440_cmp a b = Eq.
Proof.
  split.
  - intros E. apply vstr_inj in E; auto using wf_trim. destruct pep440_cmp_ok as [R _ TE _].
    assert (Ta : pep440_cmp a (trim a) = Eq).
    { unfold pep440_cmp; cbn. rewrite N.compare_refl, <- strip_pad, strip'_trim.
      destruct (lexc_ok N.compare N_cmp_ok) as [r _ _ _]. specialize (r (strip' (Py.release a))).
      assert (lex (strip' (Py.release a)) (strip' (Py.release a)) = Eq).
      { generalize (strip' (Py.release a)). induction l; cbn; auto. now rewrite N.compare_refl. }
      rewrite H. cbn. destruct pair_cmp_ok as [pr _ _ _]. rewrite !pr. cbn. destruct local_cmp_ok as [lr _ _ _]. apply lr. }
    assert (Tb : pep440_cmp b (trim b) = Eq).
    { unfold pep440_cmp; cbn. rewrite N.compare_refl, <- strip_pad, strip'_trim.
      assert (lex (strip' (Py.release b)) (strip' (Py.release b)) = Eq).
      { generalize (strip' (Py.release b)). induction l; cbn; auto. now rewrite N.compare_refl. }
      rewrite H. cbn. destruct pair_cmp_ok as [pr _ _ _]. rewrite !pr. cbn. destruct local_cmp_ok as [lr _ _ _]. apply lr. }
    destruct pep440_cmp_ok as [_ SY TE' _].
    rewrite <- (TE' _ _ b Ta). rewrite E. rewrite SY, Tb. reflexivity.
  - intros H. unfold pep440_cmp in H.
    apply thenc_eq in H as [H1 H]. apply thenc_eq in H as [H2 H]. apply thenc_eq in H as [H3 H].
    apply thenc_eq in H as [H4 H]. apply thenc_eq in H as [H5 H6].
    apply N.compare_eq in H1. rewrite <- strip_pad in H2. apply lex_eq in H2.
    destruct (pre_eq H3 H4 H5) as (P & Q & D).
    assert (Lo : Py.local a = Py.local b).
    { unfold local_cmp in H6. destruct (Py.local a), (Py.local b); try discriminate; auto. f_equal. now apply seg_lex_eq. }
    f_equal. unfold trim. destruct Wa as (Ra & _), Wb as (Rb & _).
    rewrite H1, P, Q, D, Lo, (trim_rel_eq _ _ Ra Rb H2). reflexivity.
Qed.
End CI.
Print Assumptions C02_canon_complete_invariant.
