(* int() is defined on every digit group the version pattern hands to it (no totalised default is ever used). *)
From Coq Require Import List Arith NArith Bool Lia.
Import ListNotations.
Require Import VParse VComplete VTop VTop2 VDec VCanon.
Open Scope N_scope.
Arguments N.eqb : simpl never.
Arguments N.leb : simpl never.

Lemma uint_of_digits_defined s : forallb is_digit s = true -> exists u, uint_of_digits s = Some u.
Proof.
  induction s as [|c t IH]; cbn [forallb uint_of_digits]; [eexists; reflexivity|].
  intros H. apply andb_prop in H as [Hc Ht]. destruct (IH Ht) as [u ->]. apply digit_range in Hc.
  assert (D : c = 48 \/ c = 49 \/ c = 50 \/ c = 51 \/ c = 52 \/ c = 53 \/ c = 54 \/ c = 55 \/ c = 56 \/ c = 57) by lia.
  destruct D as [->|[->|[->|[->|[->|[->|[->|[->|[->| ->]]]]]]]]]; cbn; eexists; reflexivity.
Qed.
Lemma undec_defined d : wf_digits d = true -> exists n, undec d = Some n.
Proof.
  unfold wf_digits. intros H. apply andb_prop in H as [N D]. destruct (uint_of_digits_defined d D) as [u E].
  unfold undec. destruct d; [discriminate|]. rewrite E. eexists; reflexivity.
Qed.

(* leading zeros do not change the value int() reads *)
Require Import VMeaning.
Lemma undec_zero_cons s : s <> [] -> undec (48 :: s) = undec s.
Proof.
  intros H. unfold undec. destruct s as [|c t]; [congruence|]. cbn [uint_of_digits].
  destruct (uint_of_digits t) as [u|]; [|reflexivity].
  change (48 =? 48) with true. cbn iota.
  destruct (c =? 48), (c =? 49), (c =? 50), (c =? 51), (c =? 52), (c =? 53), (c =? 54), (c =? 55), (c =? 56), (c =? 57); reflexivity.
Qed.
Lemma num_leading_zeros n k : num (repeat 48 k ++ dec n) = n.
Proof.
  induction k as [|k IH]; cbn [repeat app]; [unfold num; now rewrite undec_dec|].
  unfold num in *. rewrite undec_zero_cons; [exact IH|]. destruct k; cbn; [apply dec_nonnil|discriminate].
Qed.
