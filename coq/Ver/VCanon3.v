From Coq Require Import List Arith NArith Bool Lia.
Import ListNotations.
Require Import VParse VComplete VTop VTop2 VDec Py VMeaning VCanon VCanon2.
Open Scope N_scope.
Arguments N.eqb : simpl never.
Arguments N.leb : simpl never.

Lemma wf_digits_dec n : wf_digits (dec n) = true.
Proof. unfold wf_digits. rewrite dec_digits. pose proof (dec_nonnil n). destruct (dec n); [congruence|reflexivity]. Qed.
Lemma lower_alnum_ci c : is_lower_alnum c = true -> is_alnum_ci c = true.
Proof.
  unfold is_lower_alnum, is_alnum_ci. intros H. apply orb_prop in H as [->|H]; auto.
  rewrite lc_lower by assumption. rewrite H. apply orb_true_r.
Qed.
Lemma wf_alnum_seg x : wf_seg x = true -> wf_alnum (c_seg x) = true.
Proof.
  destruct x as [n|s]; cbn [c_seg wf_seg].
  - intros _. unfold wf_alnum. pose proof (dec_nonnil n). pose proof (dec_digits n) as D.
    destruct (dec n) as [|c r]; [congruence|]. cbn [nonempty andb].
    rewrite forallb_forall in *. intros y Hy. apply digit_alnum. now apply D.
  - intros H. apply andb_prop in H as [H _]. apply andb_prop in H as [H1 H2]. unfold wf_alnum. rewrite H1. cbn [andb].
    rewrite forallb_forall in *. intros y Hy. apply lower_alnum_ci. now apply H2.
Qed.

Lemma gnf_rels_canon l tail : hd_is is_digit tail = false -> hd2_is 46 is_digit tail = false ->
  gnf_rels (map dec l) tail = true.
Proof.
  intros H1 H2. induction l as [|x l IH]; cbn [map gnf_rels].
  - now rewrite H2.
  - rewrite wf_digits_dec, IH. cbn [andb]. rewrite andb_true_r. apply negb_true_iff.
    destruct l as [|y l]; cbn [map r_rels app]; [exact H1|]. cbn [hd_is]. reflexivity.
Qed.
Lemma gnf_segs_canon l : forallb wf_seg l = true -> gnf_segs (map (fun x => (46, c_seg x)) l) [] = true.
Proof.
  induction l as [|x l IH]; cbn [map gnf_segs forallb]; [reflexivity|]. intros H. apply andb_prop in H as [Hx Hl].
  rewrite wf_alnum_seg, IH by assumption. cbn [andb]. rewrite andb_true_r.
  replace (is_sep 46) with true by reflexivity. cbn [andb]. apply negb_true_iff.
  destruct l as [|y l]; cbn [map r_segs app hd_is]; reflexivity.
Qed.

Theorem gnf_canon v : wf_version v -> gnf (canon_sp v) = true.
Proof.
  intros W. pose proof (pre_not_digit v W) as Pd. pose proof (pre_not_bang v W) as Pb.
  pose proof (pre_not_dotdigit v W) as Pdd.
  pose proof (g_pre v W) as Gp. pose proof (g_post v W) as Gpo. pose proof (g_dev v W) as Gd.
  cbv zeta in Pd, Pb, Pdd, Gp, Gpo, Gd.
  unfold gnf. rewrite Gp, Gpo, Gd.
  destruct W as (Hr & Hpre & Hpost & Hdev & Hloc).
  assert (Rels : forall p b, p 46 = b -> hd_is p (t_pre (canon_sp v)) = b ->
            hd_is p (t_rels (canon_sp v)) = b).
  { intros p b H46 Hp. unfold t_rels. unfold canon_sp at 1; cbn [rels].
    destruct (tl (release v)); cbn [map r_rels app]; auto. }
  assert (T6 : hd_is is_digit (t_rels (canon_sp v)) = false) by (apply Rels; auto).
  assert (G7 : gnf_rels (rels (canon_sp v)) (t_pre (canon_sp v)) = true).
  { unfold canon_sp at 1; cbn [rels]. now apply gnf_rels_canon. }
  assert (G4 : match ep (canon_sp v) with Some e => wf_digits e | None => negb (hd_is (N.eqb 33) (t_rels (canon_sp v))) end = true).
  { unfold canon_sp at 1; cbn [ep]. destruct (epoch v =? 0); [|apply wf_digits_dec].
    apply negb_true_iff. unfold t_rels. unfold canon_sp at 1; cbn [rels].
    destruct (tl (release v)); cbn [map r_rels app hd_is]; auto. }
  assert (G11 : gnf_opt p_loc gnf_loc (sloc (canon_sp v)) (ws_r (canon_sp v)) = true).
  { unfold canon_sp; cbn [sloc ws_r]. destruct (local v) as [l|]; cbn [option_map gnf_opt]; [|reflexivity].
    destruct Hloc as [Hne Hw]. destruct l as [|x l]; [congruence|]. cbn [hd tl forallb] in *.
    apply andb_prop in Hw as [Hx Hl]. unfold gnf_loc; cbn [fst snd].
    rewrite wf_alnum_seg, gnf_segs_canon by assumption. cbn [andb]. rewrite andb_true_r. apply negb_true_iff.
    destruct l; cbn [map r_segs app hd_is]; reflexivity. }
  rewrite T6, G7, G4, G11. cbn [negb andb].
  assert (G5 : wf_digits (rel0 (canon_sp v)) = true) by (unfold canon_sp; cbn [rel0]; apply wf_digits_dec).
  rewrite G5. cbn [andb]. replace (ws_l (canon_sp v)) with (@nil char) by reflexivity.
  replace (ws_r (canon_sp v)) with (@nil char) by reflexivity. cbn [forallb andb].
  replace (vpre (canon_sp v)) with (@None char) by reflexivity. cbn [r_osep].
  (* the text after the optional v starts with a digit *)
  assert (Hd : hd_is is_digit (t_num (canon_sp v)) = true).
  { unfold t_num. unfold canon_sp at 1 2; cbn [ep rel0]. destruct (epoch v =? 0); cbn [r_opt app].
    - rewrite hd_dec_app. apply dec_hd_digit.
    - unfold r_ep. rewrite <- app_assoc, hd_dec_app. apply dec_hd_digit. }
  unfold t_v. replace (vpre (canon_sp v)) with (@None char) by reflexivity. cbn [r_osep app].
  destruct (t_num (canon_sp v)) as [|c r]; [discriminate|]. cbn [hd_is] in *.
  rewrite digit_not_ws, lc_digit by assumption. apply digit_range in Hd.
  rewrite (proj2 (N.eqb_neq c 118)) by lia. reflexivity.
Qed.

Theorem parse_vstr v : wf_version v -> option_map meaning (parse_spelling (vstr v)) = Some v.
Proof.
  intros W. unfold vstr. rewrite parse_spelling_complete by now apply gnf_canon.
  cbn [option_map]. now rewrite meaning_canon.
Qed.
Print Assumptions parse_vstr.
