From Coq Require Import List Arith NArith Bool Lia.
Import ListNotations.
Require Import VParse.
Open Scope N_scope.



Lemma span_complete p a r : forallb p a = true -> hd_is p r = false -> span p (a ++ r) = (a, r).
Proof.
  induction a as [|c a IH]; simpl; intros Ha Hr.
  - destruct r as [|c r]; simpl in *; [reflexivity|]. now rewrite Hr.
  - apply andb_prop in Ha as [Hc Ha]. rewrite Hc, IH; auto.
Qed.
Lemma opt_sep_some c r : is_sep c = true -> opt_sep (c :: r) = (Some c, r).
Proof. simpl; now intros ->. Qed.
Lemma opt_sep_none r : hd_is is_sep r = false -> opt_sep r = (None, r).
Proof. destruct r; simpl; auto. now intros ->. Qed.
Lemma opt_sep_complete o r : match o with Some c => is_sep c = true | None => hd_is is_sep r = false end ->
  opt_sep (r_osep o ++ r) = (o, r).
Proof. destruct o; simpl r_osep; simpl app; [apply opt_sep_some | apply opt_sep_none]. Qed.

(* match_word only looks at lc of the text *)
Fixpoint prefixb (w t : str) : bool :=
  match w, t with [], _ => true | p :: w', c :: t' => (c =? p) && prefixb w' t' | _ :: _, [] => false end.
Lemma match_word_spec w : forall s,
  match_word w s = if prefixb w (map lc s) then Some (firstn (length w) s, skipn (length w) s) else None.
Proof.
  induction w as [|p w IH]; intros s; simpl; [reflexivity|].
  destruct s as [|c t]; simpl; [reflexivity|]. destruct (lc c =? p); simpl; [|reflexivity].
  rewrite IH. destruct (prefixb w (map lc t)); reflexivity.
Qed.
Lemma prefixb_app_self a r : prefixb a (a ++ r) = true.
Proof. induction a; simpl; auto. now rewrite N.eqb_refl. Qed.
Lemma match_word_complete a r : match_word (map lc a) (a ++ r) = Some (a, r).
Proof.
  rewrite match_word_spec, map_app, prefixb_app_self, map_length.
  rewrite firstn_app, Nat.sub_diag, firstn_all, skipn_app, Nat.sub_diag, skipn_all. simpl. now rewrite app_nil_r.
Qed.

Fixpoint first_word_ok (ws : list str) (w : str) (t : str) : bool :=
  match ws with
  | [] => false
  | w' :: ws' => if list_eq_dec N.eq_dec w' w then true
                 else negb (prefixb w' (w ++ t)) && first_word_ok ws' w t
  end.
Lemma first_word_complete ws : forall a r,
  first_word_ok ws (map lc a) (map lc r) = true -> first_word ws (a ++ r) = Some (a, r).
Proof.
  induction ws as [|w' ws IH]; intros a r; simpl; [discriminate|].
  destruct (list_eq_dec N.eq_dec w' (map lc a)) as [->|Hne].
  - intros _. now rewrite match_word_complete.
  - intros H. apply andb_prop in H as [H1 H2]. rewrite match_word_spec, map_app.
    apply negb_true_iff in H1. rewrite H1. now apply IH.
Qed.

(* completeness of the letter-version component, with explicit follow conditions *)
Definition gnf_lv (words : list str) (l : lv_sp) (tail : str) : bool :=
  first_word_ok words (map lc (l_word l)) (map lc (r_osep (l_sep2 l) ++ l_num l ++ tail)) &&
  (match l_sep1 l with Some c => is_sep c | None => negb (hd_is is_sep (l_word l ++ r_osep (l_sep2 l) ++ l_num l ++ tail)) end) &&
  (match l_sep2 l with Some c => is_sep c | None => negb (hd_is is_sep (l_num l ++ tail)) end) &&
  forallb is_digit (l_num l) && negb (hd_is is_digit tail).

Lemma p_lv_complete words l tail : gnf_lv words l tail = true -> p_lv words (r_lv l ++ tail) = Some (l, tail).
Proof.
  unfold gnf_lv, p_lv, r_lv. destruct l as [s1 w s2 n]; cbn [l_sep1 l_word l_sep2 l_num].
  intros H. repeat (apply andb_prop in H as [H ?]).
  rewrite <- !app_assoc.
  rewrite opt_sep_complete by (destruct s1; [assumption | now apply negb_true_iff]).
  rewrite first_word_complete by assumption.
  rewrite opt_sep_complete by (destruct s2; [assumption | now apply negb_true_iff]).
  rewrite span_complete by (try assumption; now apply negb_true_iff).
  reflexivity.
Qed.

(* non-vacuity: "1.0a-1" pre component, "rc" followed by ".post1" *)
Example ex1 : gnf_lv pre_words {| l_sep1 := None; l_word := [65]; l_sep2 := Some 45; l_num := [49] |} [46;100;101;118] = true.
Proof. reflexivity. Qed.
Example ex2 : gnf_lv pre_words {| l_sep1 := Some 46; l_word := [114;67]; l_sep2 := None; l_num := [] |} [112;111;115;116] = true.
Proof. reflexivity. Qed.
(* 'a' directly followed by 'l' is (rightly) not in normal form: alpha would be tried first *)
Example ex3 : gnf_lv pre_words {| l_sep1 := None; l_word := [97]; l_sep2 := None; l_num := [] |} [108;80;104;97] = false.
Proof. reflexivity. Qed.
Print Assumptions p_lv_complete.
