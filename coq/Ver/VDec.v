From Coq Require Import List Arith NArith Bool Lia DecimalN DecimalPos DecimalFacts.
Import ListNotations.
Require Import VParse VComplete.
Open Scope N_scope.

(* ---- decimal codec through the standard library's uint ---- *)
Fixpoint digits_of_uint (u : Decimal.uint) : str :=
  match u with
  | Decimal.Nil => []
  | Decimal.D0 u => 48 :: digits_of_uint u | Decimal.D1 u => 49 :: digits_of_uint u
  | Decimal.D2 u => 50 :: digits_of_uint u | Decimal.D3 u => 51 :: digits_of_uint u
  | Decimal.D4 u => 52 :: digits_of_uint u | Decimal.D5 u => 53 :: digits_of_uint u
  | Decimal.D6 u => 54 :: digits_of_uint u | Decimal.D7 u => 55 :: digits_of_uint u
  | Decimal.D8 u => 56 :: digits_of_uint u | Decimal.D9 u => 57 :: digits_of_uint u
  end.
Fixpoint uint_of_digits (s : str) : option Decimal.uint :=
  match s with
  | [] => Some Decimal.Nil
  | c :: t =>
    match uint_of_digits t with
    | None => None
    | Some u =>
      if c =? 48 then Some (Decimal.D0 u) else if c =? 49 then Some (Decimal.D1 u)
      else if c =? 50 then Some (Decimal.D2 u) else if c =? 51 then Some (Decimal.D3 u)
      else if c =? 52 then Some (Decimal.D4 u) else if c =? 53 then Some (Decimal.D5 u)
      else if c =? 54 then Some (Decimal.D6 u) else if c =? 55 then Some (Decimal.D7 u)
      else if c =? 56 then Some (Decimal.D8 u) else if c =? 57 then Some (Decimal.D9 u)
      else None
    end
  end.
Definition dec (n : N) : str := digits_of_uint (N.to_uint n).
Definition undec (s : str) : option N :=
  match s with [] => None | _ => option_map N.of_uint (uint_of_digits s) end.

Lemma uint_digits_rt u : uint_of_digits (digits_of_uint u) = Some u.
Proof. induction u; simpl; rewrite ?IHu; reflexivity. Qed.
Lemma digits_all_digit u : forallb is_digit (digits_of_uint u) = true.
Proof. induction u; simpl; auto. Qed.
Lemma dec_digits n : forallb is_digit (dec n) = true.
Proof. apply digits_all_digit. Qed.
Lemma dec_nonnil n : dec n <> [].
Proof.
  unfold dec. destruct n as [|p]; simpl; [discriminate|].
  pose proof (DecimalPos.Unsigned.to_uint_nonnil p) as H.
  destruct (Pos.to_uint p); simpl; try discriminate. congruence.
Qed.
Lemma undec_dec n : undec (dec n) = Some n.
Proof.
  unfold undec. pose proof (dec_nonnil n). destruct (dec n) eqn:E; [congruence|].
  rewrite <- E. unfold dec. rewrite uint_digits_rt. simpl. now rewrite DecimalN.Unsigned.of_to.
Qed.
Lemma dec_hd_digit n : hd_is is_digit (dec n) = true.
Proof.
  pose proof (dec_nonnil n). pose proof (dec_digits n). destruct (dec n); [congruence|].
  simpl in *. now apply andb_prop in H0 as [? _].
Qed.
Print Assumptions undec_dec.
