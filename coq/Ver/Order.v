From Coq Require Import List Arith NArith Bool Lia.
Import ListNotations.
Require Import S1 Py VCmp.
Open Scope N_scope.

(* ---- comparison-valued functions that behave like a total preorder ---- *)
Record cmp_ok {A} (f : A -> A -> comparison) : Prop := {
  ok_refl : forall a, f a a = Eq;
  ok_sym : forall a b, f b a = CompOpp (f a b);
  ok_trans_eq : forall a b c, f a b = Eq -> f b c = f a c;
  ok_trans_lt : forall a b c, f a b = Lt -> f b c <> Gt -> f a c = Lt }.

Lemma N_cmp_ok : cmp_ok N.compare.
Proof.
  split.
  - apply N.compare_refl.
  - intros a b. apply N.compare_antisym.
  - intros a b c H. apply N.compare_eq in H. now subst.
  - intros a b c H1 H2. apply N.compare_lt_iff in H1. apply N.compare_lt_iff.
    destruct (b ?= c) eqn:E.
    + apply N.compare_eq in E. subst. assumption.
    + apply N.compare_lt_iff in E. eapply N.lt_trans; eauto.
    + congruence.
Qed.

(* lexicographic product *)
Lemma thenc_ok {A} (f g : A -> A -> comparison) : cmp_ok f -> cmp_ok g -> cmp_ok (fun a b => thenc (f a b) (g a b)).
Proof.
  intros [fr fs fe fl] [gr gs ge gl]. split.
  - intros a. now rewrite fr, gr.
  - intros a b. rewrite fs, gs. destruct (f a b); reflexivity.
  - intros a b c H. destruct (f a b) eqn:F; cbn in H; try discriminate. rewrite (fe _ _ c F). destruct (f a c); cbn; auto.
  - intros a b c H1 H2. destruct (f a b) eqn:F; cbn in H1; try discriminate.
    + rewrite <- (fe _ _ c F). destruct (f b c) eqn:F2; cbn in *; auto; try congruence. eapply gl; eauto.
    + destruct (f b c) eqn:F2; cbn in H2; try congruence.
      * assert (f a c = Lt). { apply (fl a b c F). congruence. } now rewrite H.
      * assert (f a c = Lt). { apply (fl a b c F). congruence. } now rewrite H.
Qed.
Lemma map_ok {A B} (h : A -> B) (f : B -> B -> comparison) : cmp_ok f -> cmp_ok (fun a b => f (h a) (h b)).
Proof. intros [r s e l]. split; intros; eauto. Qed.

Lemma pair_cmp_ok : cmp_ok pair_cmp.
Proof. unfold pair_cmp. apply (thenc_ok (fun x y => fst x ?= fst y) (fun x y => snd x ?= snd y)); apply map_ok, N_cmp_ok. Qed.

(* lexicographic order on lists with prefix-first, over an ok element comparison *)
Section Lex.
Context {A} (f : A -> A -> comparison) (F : cmp_ok f).
Fixpoint lexc (a b : list A) : comparison :=
  match a, b with [], [] => Eq | [], _ => Lt | _, [] => Gt | x :: a', y :: b' => thenc (f x y) (lexc a' b') end.
Lemma lexc_ok : cmp_ok lexc.
Proof.
  destruct F as [fr fs fe fl]. split.
  - induction a; cbn; auto. now rewrite fr.
  - induction a as [|x a IH]; intros [|y b]; cbn; auto. rewrite fs, IH. destruct (f x y); reflexivity.
  - induction a as [|x a IH]; intros [|y b] [|z c]; cbn; auto; try discriminate.
    intros H. destruct (f x y) eqn:E; cbn in H; try discriminate. rewrite (fe _ _ z E). destruct (f x z); auto. cbn. now apply IH.
  - induction a as [|x a IH]; intros [|y b] [|z c]; cbn; auto; try discriminate; try congruence.
    intros H1 H2. destruct (f x y) eqn:E; cbn in H1; try discriminate.
    + rewrite <- (fe _ _ z E). destruct (f y z) eqn:E2; cbn in *; auto; try congruence. eapply IH; eauto.
    + destruct (f y z) eqn:E2; cbn in H2; try congruence.
      * assert (X : f x z = Lt) by (apply (fl x y z E); congruence). now rewrite X.
      * assert (X : f x z = Lt) by (apply (fl x y z E); congruence). now rewrite X.
Qed.
End Lex.

Lemma str_cmp_lexc a b : str_cmp a b = lexc N.compare a b.
Proof. revert b; induction a as [|x a IH]; intros [|y b]; cbn; auto. rewrite IH. destruct (x ?= y); reflexivity. Qed.
Lemma str_cmp_ok : cmp_ok str_cmp.
Proof.
  pose proof (lexc_ok N.compare N_cmp_ok) as [r s e l].
  split; intros; rewrite ?str_cmp_lexc in *; eauto.
Qed.
Lemma seg_cmp_ok : cmp_ok seg_cmp.
Proof.
  destruct N_cmp_ok as [nr ns ne nl], str_cmp_ok as [sr ss se sl]. split.
  - intros [n|s]; cbn; auto.
  - intros [n|s] [m|t]; cbn; auto.
  - intros [n|s] [m|t] [k|u]; cbn; eauto; try discriminate.
  - intros [n|s] [m|t] [k|u]; cbn; eauto; try discriminate; try congruence.
Qed.
Lemma seg_lex_lexc a b : seg_lex a b = lexc seg_cmp a b.
Proof. revert b; induction a as [|x a IH]; intros [|y b]; cbn; auto. Qed.
Lemma local_cmp_ok : cmp_ok local_cmp.
Proof.
  pose proof (lexc_ok seg_cmp seg_cmp_ok) as [r s e l]. split.
  - intros [a|]; cbn; rewrite ?seg_lex_lexc; eauto.
  - intros [a|] [b|]; cbn; rewrite ?seg_lex_lexc; eauto.
  - intros [a|] [b|] [c|]; cbn; rewrite ?seg_lex_lexc; eauto; try discriminate.
  - intros [a|] [b|] [c|]; cbn; rewrite ?seg_lex_lexc; eauto; try discriminate; try congruence.
Qed.

(* zero-padded comparison of releases: through the strip lemma it is lexc on stripped lists *)
Lemma padcmp_ok : cmp_ok padcmp.
Proof.
  pose proof (lexc_ok N.compare N_cmp_ok) as [r s e l].
  assert (E : forall a b, padcmp a b = lexc N.compare (strip' a) (strip' b)).
  { intros. rewrite <- strip_pad. generalize (strip' a) (strip' b). induction l0 as [|x a' IH]; intros [|y b']; cbn; auto.
    rewrite IH. destruct (x ?= y); reflexivity. }
  split; intros; rewrite ?E in *; eauto.
Qed.

Theorem pep440_cmp_ok : cmp_ok pep440_cmp.
Proof.
  unfold pep440_cmp.
  apply (thenc_ok (fun a b => epoch a ?= epoch b)); [apply (map_ok epoch), N_cmp_ok|].
  apply (thenc_ok (fun a b => padcmp (release a) (release b))); [apply (map_ok release), padcmp_ok|].
  apply (thenc_ok (fun a b => pair_cmp (pre_class a) (pre_class b))); [apply (map_ok pre_class), pair_cmp_ok|].
  apply (thenc_ok (fun a b => pair_cmp (post_class a) (post_class b))); [apply (map_ok post_class), pair_cmp_ok|].
  apply (thenc_ok (fun a b => pair_cmp (dev_class a) (dev_class b))); [apply (map_ok dev_class), pair_cmp_ok|].
  apply (map_ok local), local_cmp_ok.
Qed.
Print Assumptions pep440_cmp_ok.
