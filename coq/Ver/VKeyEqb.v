(* VObsModel.pv_eqb (run by the `v.cmph` observation) decides structural equality of keys; with VKeyEq.key_of_equal: == versions give T *)
From Coq Require Import List Arith NArith Bool Lia.
Import ListNotations.
Require Import Py VObsModel.
Open Scope N_scope.

Fixpoint pv_size (x : pv) : nat :=
  match x with PTup l => S (fold_right (fun y n => (pv_size y + n)%nat) O l) | _ => 1%nat end.

Lemma str_go_eq (a : list N) : forall b,
  (fix go (a b : list N) {struct a} : bool :=
     match a, b with [], [] => true | c :: a', d :: b' => (c =? d) && go a' b' | _, _ => false end) a b = true <-> a = b.
Proof.
  induction a as [|c a IH]; intros [|d b]; split; intros H; try reflexivity; try discriminate.
  - apply andb_prop in H as [H1 H2]. apply N.eqb_eq in H1. apply IH in H2. congruence.
  - injection H as -> ->. rewrite N.eqb_refl. cbn [andb]. now apply IH.
Qed.

Lemma pv_eqb_eq_n n : forall x y, (pv_size x <= n)%nat -> (pv_eqb x y = true <-> x = y).
Proof.
  induction n as [|n IH]; intros x y Hs; [destruct x; cbn in Hs; lia|].
  destruct x as [a|a|a| |], y as [b|b|b| |]; cbn [pv_eqb]; try (split; intros H; [discriminate|discriminate]); try (split; reflexivity).
  - rewrite N.eqb_eq. split; congruence.
  - rewrite str_go_eq. split; congruence.
  - cbn [pv_size] in Hs. apply le_S_n in Hs.
    assert (G : forall a b, (fold_right (fun y n => (pv_size y + n)%nat) O a <= n)%nat ->
      ((fix go (a b : list pv) {struct a} : bool :=
         match a, b with [], [] => true | x :: a', y :: b' => pv_eqb x y && go a' b' | _, _ => false end) a b = true <-> a = b)).
    { clear a b Hs. induction a as [|x a IHa]; intros [|y b] Hs; split; intros H; try reflexivity; try discriminate.
      - cbn [fold_right] in Hs. apply andb_prop in H as [H1 H2]. apply IH in H1; [|lia]. apply IHa in H2; [|lia]. congruence.
      - cbn [fold_right] in Hs. injection H as -> ->. apply andb_true_intro. split; [apply IH; [lia|reflexivity] | apply IHa; [lia|reflexivity]]. }
    rewrite (G a b Hs). split; congruence.
Qed.
Theorem pv_eqb_eq x y : pv_eqb x y = true <-> x = y.
Proof. apply (pv_eqb_eq_n (pv_size x)). apply Nat.le_refl. Qed.
Print Assumptions pv_eqb_eq.
