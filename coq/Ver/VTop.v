From Coq Require Import List Arith NArith Bool Lia.
Import ListNotations.
Require Import VParse VComplete.
Open Scope N_scope.

Lemma span_none p s : hd_is p s = false -> span p s = ([], s).
Proof. destruct s; simpl; auto. now intros ->. Qed.

(* ---------------- soundness of the remaining components ---------------- *)
Lemma hd2_is_true c0 p s : hd2_is c0 p s = true -> exists d t, s = c0 :: d :: t /\ p d = true.
Proof.
  destruct s as [|c [|d t]]; simpl; try discriminate.
  - intros H. apply andb_prop in H as [_ H]. discriminate.
  - intros H. apply andb_prop in H as [H1 H2]. apply N.eqb_eq in H1. subst. eauto.
Qed.
Lemma hd_is_true p s : hd_is p s = true -> exists c t, s = c :: t /\ p c = true.
Proof. destruct s; simpl; try discriminate. eauto. Qed.

Definition wf_digits (d : str) : bool := nonempty d && forallb is_digit d.
Definition wf_alnum (d : str) : bool := nonempty d && forallb is_alnum_ci d.

Lemma span_hd p s a r : span p s = (a, r) -> hd_is p s = true -> nonempty a = true.
Proof. destruct s; simpl; try discriminate. intros H Hc. rewrite Hc in H. destruct (span p s); now inversion H. Qed.

Lemma p_rels_sound fuel : forall s l r, p_rels fuel s = (l, r) ->
  s = r_rels l ++ r /\ forallb wf_digits l = true.
Proof.
  induction fuel as [|f IH]; intros s l r; simpl.
  - intros [= <- <-]; auto.
  - destruct (hd2_is 46 is_digit s) eqn:E; [|intros [= <- <-]; auto].
    apply hd2_is_true in E as (d & t & -> & Hd). cbn [tl].
    destruct (span is_digit (d :: t)) as [n r0] eqn:E1.
    destruct (p_rels f r0) as [more r'] eqn:E2. intros [= <- <-].
    pose proof (span_hd _ _ _ _ E1 Hd) as Hne.
    apply span_sound in E1 as [H1 H1']. apply IH in E2 as [H2 H2'].
    split.
    + cbn [r_rels app]. rewrite <- app_assoc, <- H2, <- H1. reflexivity.
    + cbn [forallb]. unfold wf_digits at 1. now rewrite Hne, H1', H2'.
Qed.
Lemma p_segs_sound fuel : forall s l r, p_segs fuel s = (l, r) ->
  s = r_segs l ++ r /\ forallb (fun cs => is_sep (fst cs) && wf_alnum (snd cs)) l = true.
Proof.
  induction fuel as [|f IH]; intros s l r; simpl.
  - intros [= <- <-]; auto.
  - destruct s as [|c t]; [intros [= <- <-]; auto|].
    destruct (is_sep c && hd_is is_alnum_ci t) eqn:E; [|intros [= <- <-]; auto].
    apply andb_prop in E as [Ec Et].
    destruct (span is_alnum_ci t) as [n r0] eqn:E1.
    destruct (p_segs f r0) as [more r'] eqn:E2. intros [= <- <-].
    pose proof (span_hd _ _ _ _ E1 Et) as Hne.
    apply span_sound in E1 as [H1 H1']. apply IH in E2 as [H2 H2'].
    split.
    + cbn [r_segs app]. rewrite <- app_assoc, <- H2, <- H1. reflexivity.
    + cbn [forallb fst snd]. unfold wf_alnum at 1. now rewrite Ec, Hne, H1', H2'.
Qed.
Definition wf_loc (l : str * list (char * str)) : bool :=
  wf_alnum (fst l) && forallb (fun cs => is_sep (fst cs) && wf_alnum (snd cs)) (snd l).
Lemma p_loc_sound s l r : p_loc s = Some (l, r) -> s = r_loc l ++ r /\ wf_loc l = true.
Proof.
  unfold p_loc. destruct s as [|c t]; [discriminate|].
  destruct ((c =? 43) && hd_is is_alnum_ci t) eqn:E; [|discriminate].
  apply andb_prop in E as [Ec Et]. apply N.eqb_eq in Ec; subst c.
  destruct (span is_alnum_ci t) as [n r0] eqn:E1.
  destruct (p_segs (length r0) r0) as [more r'] eqn:E2. intros [= <- <-].
  pose proof (span_hd _ _ _ _ E1 Et) as Hne.
  apply span_sound in E1 as [H1 H1']. apply p_segs_sound in E2 as [H2 H2'].
  split.
  - unfold r_loc; cbn [fst snd]. simpl. rewrite <- app_assoc, <- H2, <- H1. reflexivity.
  - unfold wf_loc; cbn [fst snd]. rewrite H2'. unfold wf_alnum. now rewrite Hne, H1'.
Qed.
Definition wf_post (p : post_sp) : Prop :=
  match p with PostImplicit d => wf_digits d = true | PostWord l => wf_lv post_words l end.
Lemma p_post_sound s p r : p_post s = Some (p, r) -> s = r_post p ++ r /\ wf_post p.
Proof.
  unfold p_post. destruct (hd2_is 45 is_digit s) eqn:E.
  - apply hd2_is_true in E as (d & t & -> & Hd). cbn [tl].
    destruct (span is_digit (d :: t)) as [n r0] eqn:E1. intros [= <- <-].
    pose proof (span_hd _ _ _ _ E1 Hd) as Hne. apply span_sound in E1 as [H1 H1'].
    split; [simpl; now rewrite <- H1 | simpl; unfold wf_digits; now rewrite Hne, H1'].
  - destruct (p_lv post_words s) as [[l r0]|] eqn:E1; [|discriminate]. intros [= <- <-].
    apply p_lv_sound in E1 as [-> H]. auto.
Qed.
Lemma p_opt_sound {A} (p : str -> option (A * str)) (f : A -> str) (W : A -> Prop) :
  (forall s a r, p s = Some (a, r) -> s = f a ++ r /\ W a) ->
  forall s o r, p_opt p s = (o, r) -> s = r_opt f o ++ r /\ match o with Some a => W a | None => True end.
Proof.
  intros H s o r. unfold p_opt. destruct (p s) as [[a r0]|] eqn:E.
  - intros [= <- <-]. apply H in E. exact E.
  - intros [= <- <-]. auto.
Qed.

(* ---------------- top-level soundness ---------------- *)
Definition wf_spelling (sp : spelling) : Prop :=
  forallb is_ws (ws_l sp) = true /\ forallb is_ws (ws_r sp) = true /\
  (match vpre sp with Some c => lc c = 118 | None => True end) /\
  (match ep sp with Some e => wf_digits e = true | None => True end) /\
  wf_digits (rel0 sp) = true /\ forallb wf_digits (rels sp) = true /\
  (match spre sp with Some l => wf_lv pre_words l | None => True end) /\
  (match spost sp with Some p => wf_post p | None => True end) /\
  (match sdev sp with Some l => wf_lv dev_words l | None => True end) /\
  (match sloc sp with Some l => wf_loc l = true | None => True end).

Theorem parse_spelling_sound s sp : parse_spelling s = Some sp -> render sp = s /\ wf_spelling sp.
Proof.
  unfold parse_spelling.
  destruct (span is_ws s) as [wl s1] eqn:E1.
  destruct (p_v s1) as [v s2] eqn:E2.
  destruct (span is_digit s2) as [d1 s3] eqn:E3.
  destruct (nonempty d1) eqn:Ed1; [|discriminate]. cbn [negb].
  destruct (if hd_is (N.eqb 33) s3 then let '(d2, t') := span is_digit (tl s3) in (Some d1, d2, t') else (None, d1, s3))
    as [[e r0] s4] eqn:E4.
  destruct (nonempty r0) eqn:Er0; [|discriminate]. cbn [negb].
  destruct (p_rels (length s4) s4) as [rs s5] eqn:E5.
  destruct (p_opt (p_lv pre_words) s5) as [pr s6] eqn:E6.
  destruct (p_opt p_post s6) as [po s7] eqn:E7.
  destruct (p_opt (p_lv dev_words) s7) as [dv s8] eqn:E8.
  destruct (p_opt p_loc s8) as [lo s9] eqn:E9.
  destruct (forallb is_ws s9) eqn:E10; [|discriminate].
  intros [= <-]. unfold render; cbn.
  apply span_sound in E1 as [-> W1].
  assert (Hv : s1 = r_osep v ++ s2 /\ match v with Some c => lc c = 118 | None => True end).
  { unfold p_v in E2. destruct s1 as [|c t]; [inversion E2; auto|].
    destruct (lc c =? 118) eqn:Ev; inversion E2; subst; simpl; auto. apply N.eqb_eq in Ev. auto. }
  destruct Hv as [-> Wv].
  apply span_sound in E3 as [-> W3].
  assert (He : s3 = match e with Some _ => 33 :: r0 | None => [] end ++ s4 /\
               d1 = match e with Some e' => e' | None => r0 end /\ forallb is_digit r0 = true).
  { destruct (hd_is (N.eqb 33) s3) eqn:Eh.
    - apply hd_is_true in Eh as (c & t & -> & Hc). apply N.eqb_eq in Hc. subst c. cbn [tl] in E4.
      destruct (span is_digit t) as [d2 t'] eqn:Es. inversion E4; subst. apply span_sound in Es as [-> Hd].
      simpl. auto.
    - inversion E4; subst. repeat split; auto. }
  destruct He as (-> & Hd1 & Wr0).
  apply p_rels_sound in E5 as [-> W5].
  eapply (p_opt_sound _ r_lv) in E6 as [-> W6]; [|apply p_lv_sound].
  eapply (p_opt_sound _ r_post) in E7 as [-> W7]; [|apply p_post_sound].
  eapply (p_opt_sound _ r_lv) in E8 as [-> W8]; [|apply p_lv_sound].
  eapply (p_opt_sound _ r_loc (fun l => wf_loc l = true)) in E9 as [-> W9]; [|apply p_loc_sound].
  split.
  - destruct e as [e'|]; subst d1; cbn [r_opt]; unfold r_ep; rewrite <- ?app_assoc; reflexivity.
  - unfold wf_spelling; cbn. unfold wf_digits. rewrite Er0, Wr0.
    repeat split; auto.
    destruct e as [e'|]; auto. subst e'. now rewrite Ed1, W3.
Qed.
Print Assumptions parse_spelling_sound.
