(* Everything Version() returns is a well-formed version record (letters normalised, local segments lower-case alnum). *)
From Coq Require Import List Arith NArith Bool Lia.
Import ListNotations.
Require Import VParse VComplete VTop VTop2 VDec Py VMeaning VCanon VCanon2.
Open Scope N_scope.
Arguments N.eqb : simpl never.
Arguments N.leb : simpl never.

Lemma py_lower_c_lc c : is_digit c || is_lower (lc c) = true -> py_lower_c c = [lc c].
Proof.
  unfold py_lower_c, lc, is_digit, is_lower. intros H.
  destruct ((65 <=? c) && (c <=? 90)) eqn:U; [reflexivity|].
  destruct (c =? 304) eqn:E1. { apply N.eqb_eq in E1; subst c. discriminate H. }
  destruct (c =? 8490) eqn:E2. { apply N.eqb_eq in E2; subst c. discriminate H. }
  reflexivity.
Qed.
Lemma py_lower_lc s : forallb is_alnum_ci s = true -> py_lower s = map lc s.
Proof.
  induction s as [|c s IH]; cbn [forallb py_lower flat_map map]; auto.
  intros H. apply andb_prop in H as [H1 H2]. unfold is_alnum_ci in H1.
  fold (py_lower s). rewrite IH by assumption. rewrite py_lower_c_lc by assumption. reflexivity.
Qed.
Lemma lower_alnum_ci_all s : forallb is_lower s = true -> forallb is_alnum_ci s = true.
Proof.
  induction s as [|c s IH]; cbn [forallb]; auto. intros H. apply andb_prop in H as [H1 H2].
  rewrite IH by assumption. unfold is_alnum_ci. rewrite (lc_lower c H1), H1. now rewrite orb_true_r.
Qed.
Lemma lc_idem c : lc (lc c) = lc c.
Proof.
  unfold lc. destruct ((65 <=? c) && (c <=? 90)) eqn:U; [|now rewrite U].
  apply andb_prop in U as [A B]. apply N.leb_le in A, B.
  destruct ((65 <=? c + 32) && (c + 32 <=? 90)) eqn:V; auto.
  apply andb_prop in V as [_ V]. apply N.leb_le in V. lia.
Qed.
Lemma word_alnum_ci w ws : In (map lc w) ws -> forallb (forallb is_lower) ws = true -> forallb is_alnum_ci w = true.
Proof.
  intros Hin Hall. rewrite forallb_forall in Hall. specialize (Hall _ Hin).
  clear Hin. induction w as [|c w IH]; cbn [forallb map] in *; auto.
  apply andb_prop in Hall as [H1 H2]. rewrite IH by assumption. unfold is_alnum_ci. rewrite H1. now rewrite orb_true_r.
Qed.

Lemma norm_pre l : wf_lv pre_words l -> let w := norm_letter (l_word l) in w = w_a \/ w = w_b \/ w = w_rc.
Proof.
  intros (Hin & _). cbv zeta. unfold norm_letter. rewrite py_lower_lc by (eapply word_alnum_ci; [exact Hin|reflexivity]).
  cbn [pre_words In] in Hin.
  destruct Hin as [<-|[<-|[<-|[<-|[<-|[<-|[<-|[<-|[]]]]]]]]]; vm_compute; auto.
Qed.
Lemma norm_post l : wf_lv post_words l -> norm_letter (l_word l) = w_post.
Proof.
  intros (Hin & _). unfold norm_letter. rewrite py_lower_lc by (eapply word_alnum_ci; [exact Hin|reflexivity]).
  cbn [post_words In] in Hin. destruct Hin as [<-|[<-|[<-|[]]]]; vm_compute; auto.
Qed.
Lemma norm_dev l : wf_lv dev_words l -> norm_letter (l_word l) = w_dev.
Proof.
  intros (Hin & _). unfold norm_letter. rewrite py_lower_lc by (eapply word_alnum_ci; [exact Hin|reflexivity]).
  cbn [dev_words In] in Hin. destruct Hin as [<-|[]]; vm_compute; auto.
Qed.

Lemma lc_lower_alnum c : is_alnum_ci c = true -> is_lower_alnum (lc c) = true.
Proof.
  unfold is_alnum_ci, is_lower_alnum. intros H. apply orb_prop in H as [H|H].
  - rewrite (lc_digit c H), H. reflexivity.
  - rewrite H. now rewrite orb_true_r.
Qed.
Lemma lc_digit_iff c : is_alnum_ci c = true -> is_digit (lc c) = is_digit c.
Proof.
  unfold is_alnum_ci. intros H. destruct (is_digit c) eqn:D.
  - now rewrite (lc_digit c D).
  - cbn [orb] in H. now apply lower_not_digit.
Qed.
Lemma m_seg_wf s : wf_alnum s = true -> wf_seg (m_seg s) = true.
Proof.
  unfold wf_alnum, m_seg. intros H. apply andb_prop in H as [Hne Hall].
  destruct (forallb is_digit s) eqn:D; [reflexivity|].
  cbn [wf_seg]. rewrite py_lower_lc by assumption.
  assert (N1 : nonempty (map lc s) = true) by (destruct s; [discriminate|reflexivity]).
  assert (N2 : forallb is_lower_alnum (map lc s) = true).
  { clear -Hall. induction s as [|c s IH]; cbn [forallb map] in *; auto. apply andb_prop in Hall as [A B].
    now rewrite lc_lower_alnum, IH. }
  assert (N3 : forallb is_digit (map lc s) = false).
  { clear -Hall D. induction s as [|c s IH]; cbn [forallb map] in *; [discriminate|]. apply andb_prop in Hall as [A B].
    rewrite lc_digit_iff by assumption. destruct (is_digit c); cbn [andb] in *; auto. }
  now rewrite N1, N2, N3.
Qed.

Theorem meaning_wf sp : wf_spelling sp -> VMeaning.wf_version (meaning sp).
Proof.
  intros (_ & _ & _ & _ & _ & _ & Hpre & Hpost & Hdev & Hloc).
  unfold VMeaning.wf_version, meaning; cbn [Py.release Py.pre Py.post Py.dev Py.local].
  split; [discriminate|]. split; [|split; [|split]].
  - destruct (spre sp) as [l|]; cbn [option_map]; auto. unfold m_lv. apply (norm_pre l Hpre).
  - destruct (spost sp) as [[d|l]|]; cbn [option_map m_post]; auto. unfold m_lv. apply (norm_post l Hpost).
  - destruct (sdev sp) as [l|]; cbn [option_map]; auto. unfold m_lv. apply (norm_dev l Hdev).
  - destruct (sloc sp) as [[h t]|]; cbn [option_map]; auto. split; [discriminate|].
    unfold wf_loc in Hloc; cbn [fst snd] in *. apply andb_prop in Hloc as [H1 H2].
    cbn [map forallb]. rewrite m_seg_wf by assumption. cbn [andb].
    clear -H2. induction t as [|[c s] t IH]; cbn [map forallb fst snd] in *; auto.
    apply andb_prop in H2 as [A B]. apply andb_prop in A as [_ A]. now rewrite m_seg_wf, IH.
Qed.
Print Assumptions meaning_wf.
