(* C01, follow-up: the two rungs the first set left open - the post number and the dev number decide whatever the pre part is
   (1.0a1.post1 < 1.0a1.post2, 1.0a1.dev1 < 1.0a1.dev2, 1.0.post1.dev1 < 1.0.post1.dev2) - and the local label deciding with any outcome. *)
From Coq Require Import List Arith NArith Bool Lia.
Import ListNotations.
Require Import S1 Py VCmp Order VClauses.
Open Scope N_scope.
Arguments N.eqb : simpl never.
Arguments N.leb : simpl never.

Lemma pre_class_same x y : pre x = pre y -> (post x = None <-> post y = None) -> (dev x = None <-> dev y = None) -> pre_class x = pre_class y.
Proof.
  intros P Q D. unfold pre_class. rewrite P. destruct (pre y) as [[l n]|]; [reflexivity|].
  destruct (post x), (post y); try reflexivity; try (exfalso; destruct Q as [Q1 Q2]; (discriminate (Q1 eq_refl) || discriminate (Q2 eq_refl))).
  destruct (dev x), (dev y); try reflexivity; exfalso; destruct D as [D1 D2]; (discriminate (D1 eq_refl) || discriminate (D2 eq_refl)).
Qed.

(* same pre part, both have a post part: the post number decides (the dev parts and local labels are irrelevant) *)
Lemma ladder_post_number_any x y l1 n l2 m : same_release x y -> pre x = pre y -> post x = Some (l1, n) -> post y = Some (l2, m) -> n < m ->
  pep440_cmp x y = Lt.
Proof.
  intros S P Px Py L. rewrite (same_release_cmp x y S). unfold suffix_cmp.
  assert (C : pre_class x = pre_class y).
  { unfold pre_class. rewrite P, Px, Py. destruct (pre y) as [[l k]|]; reflexivity. }
  rewrite C, pair_cmp_refl. cbn [thenc]. unfold post_class. rewrite Px, Py. unfold pair_cmp; cbn [fst snd].
  change (1 ?= 1) with Eq. cbn [thenc]. now rewrite (proj2 (N.compare_lt_iff n m) L).
Qed.
(* same pre and post parts, both have a dev part: the dev number decides (the local labels are irrelevant) *)
Lemma ladder_dev_number_any x y l1 n l2 m : same_release x y -> pre x = pre y -> post x = post y -> dev x = Some (l1, n) -> dev y = Some (l2, m) -> n < m ->
  pep440_cmp x y = Lt.
Proof.
  intros S P Q Dx Dy L. rewrite (same_release_cmp x y S). unfold suffix_cmp.
  assert (C : pre_class x = pre_class y).
  { apply pre_class_same; [exact P | rewrite Q; tauto | rewrite Dx, Dy; split; discriminate]. }
  assert (C2 : post_class x = post_class y) by (unfold post_class; now rewrite Q).
  rewrite C, C2, !pair_cmp_refl. cbn [thenc]. unfold dev_class. rewrite Dx, Dy. unfold pair_cmp; cbn [fst snd].
  change (0 ?= 0) with Eq. cbn [thenc]. now rewrite (proj2 (N.compare_lt_iff n m) L).
Qed.

(* non-vacuity on the three pairs named above *)
Definition rungs_check : bool :=
  let a1 := Some (a_, 1) in
  match pep440_cmp (V 0 [1;0] a1 (Some (post_, 1)) None None) (V 0 [1] a1 (Some (post_, 2)) (Some (dev_, 0)) None),
        pep440_cmp (V 0 [1;0] a1 None (Some (dev_, 1)) None) (V 0 [1;0;0] a1 None (Some (dev_, 2)) None),
        pep440_cmp (V 0 [1;0] None (Some (post_, 1)) (Some (dev_, 1)) (Some [inl 7])) (V 0 [1;0] None (Some (post_, 1)) (Some (dev_, 2)) None) with
  | Lt, Lt, Lt => true | _, _, _ => false end.
Example rungs_nonvacuous : rungs_check = true.
Proof. vm_compute. reflexivity. Qed.
Print Assumptions ladder_post_number_any.
Print Assumptions ladder_dev_number_any.
