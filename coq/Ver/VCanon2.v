From Coq Require Import List Arith NArith Bool Lia.
Import ListNotations.
Require Import VParse VComplete VTop VTop2 VDec Py VMeaning VCanon.
Open Scope N_scope.
Arguments N.eqb : simpl never.
Arguments N.leb : simpl never.

(* tails of a canonical rendering begin with nothing, '+', or '.' + lower-case letter *)
Definition okhead (t : str) : bool :=
  match t with [] => true | c :: r => (c =? 43) || ((c =? 46) && hd_is is_lower r) end.
Lemma okhead_not_digit t : okhead t = true -> hd_is is_digit t = false.
Proof.
  destruct t as [|c r]; simpl; auto. intros H. destruct (is_digit c) eqn:E; auto.
  apply digit_range in E. apply orb_prop in H as [H|H]; [|apply andb_prop in H as [H _]]; apply N.eqb_eq in H; lia.
Qed.
Lemma okhead_not_bang t : okhead t = true -> hd_is (N.eqb 33) t = false.
Proof.
  destruct t as [|c r]; simpl; auto. intros H. apply N.eqb_neq. intros <-.
  apply orb_prop in H as [H|H]; [|apply andb_prop in H as [H _]]; apply N.eqb_eq in H; lia.
Qed.
Lemma okhead_not_dotdigit t : okhead t = true -> hd2_is 46 is_digit t = false.
Proof.
  destruct t as [|c [|d r]]; simpl; auto. { intros _. apply andb_false_r. } intros H.
  destruct (c =? 46) eqn:E; auto. cbn [andb]. apply N.eqb_eq in E. subst c. cbn in H.
  destruct (is_digit d) eqn:Ed; auto. now rewrite (digit_not_lower _ Ed) in H.
Qed.
Lemma okhead_not_dashdigit t : okhead t = true -> hd2_is 45 is_digit t = false.
Proof.
  destruct t as [|c r]; simpl; auto. intros H.
  destruct (c =? 45) eqn:E; auto. apply N.eqb_eq in E. subst c. discriminate.
Qed.
Lemma lower_not_digit c : is_lower c = true -> is_digit c = false.
Proof. intros H. destruct (is_digit c) eqn:E; auto. now rewrite (digit_not_lower _ E) in H. Qed.
Lemma lower_not_sep c : is_lower c = true -> is_sep c = false.
Proof. unfold is_lower, is_sep. intros H. apply andb_prop in H as [H1 H2]. apply N.leb_le in H1, H2. neqb. reflexivity. Qed.
Lemma lc_lower c : is_lower c = true -> lc c = c.
Proof.
  unfold is_lower, lc. intros H. apply andb_prop in H as [H1 H2]. apply N.leb_le in H1, H2.
  rewrite (proj2 (N.leb_gt c 90)) by lia. rewrite andb_false_r. neqb. reflexivity.
Qed.
Lemma map_lc_lower w : forallb is_lower w = true -> map lc w = w.
Proof. induction w; simpl; auto. intros H. apply andb_prop in H as [H1 H2]. now rewrite lc_lower, IHw. Qed.

Lemma hd_dec p n t b : (forall c, is_digit c = true -> p c = b) -> hd_is p (dec n ++ t) = b.
Proof.
  intros H. pose proof (dec_nonnil n) as Hn. pose proof (dec_digits n) as Hd.
  destruct (dec n) as [|c r]; [congruence|]. simpl in *. apply andb_prop in Hd as [Hc _]. now apply H.
Qed.

(* the letter/number component in canonical form *)
Lemma gnf_lv_canon words sep l n tail :
  forallb is_lower l = true -> nonempty l = true ->
  first_word_ok words l (map lc (dec n ++ tail)) = true ->
  match sep with Some c => is_sep c = true | None => True end ->
  hd_is is_digit tail = false ->
  gnf_lv words (c_lv sep (l, n)) tail = true.
Proof.
  intros Hl Hne Hf Hs Ht. unfold gnf_lv, c_lv; cbn [l_sep1 l_word l_sep2 l_num fst snd r_osep app].
  rewrite map_lc_lower by assumption. rewrite Hf, dec_digits, Ht. cbn [andb negb].
  rewrite (hd_dec is_sep n tail false) by apply digit_not_sep. cbn [negb andb].
  destruct sep as [c|].
  - now rewrite Hs.
  - destruct l as [|c l]; [discriminate|]. cbn in Hl |- *. apply andb_prop in Hl as [Hc _].
    now rewrite lower_not_sep.
Qed.

(* first_word_ok for the five canonical words, when a digit follows *)
Lemma fwo_digit_tail words l n tail :
  (forall t, hd_is is_digit t = true -> first_word_ok words l (map lc t) = true) ->
  first_word_ok words l (map lc (dec n ++ tail)) = true.
Proof. intros H. apply H. rewrite hd_dec_app. apply dec_hd_digit. Qed.
Lemma pfx_digit w t : hd_is is_lower w = true -> hd_is is_digit t = true -> prefixb w (map lc t) = false.
Proof. apply prefixb_digit. Qed.
Ltac fwo := intros t Ht; cbn [first_word_ok pre_words post_words dev_words]; 
  repeat (match goal with |- context [list_eq_dec N.eq_dec ?a ?b] => 
            let E := fresh in destruct (list_eq_dec N.eq_dec a b) as [E|E]; [try discriminate E | ] end);
  try reflexivity.
Lemma prefixb_cons c w d t : prefixb (c :: w) (d :: t) = (d =? c) && prefixb w t.
Proof. reflexivity. Qed.
Lemma fwo_a : forall t, hd_is is_digit t = true -> first_word_ok pre_words w_a (map lc t) = true.
Proof.
  intros t Ht. unfold pre_words. cbn [first_word_ok].
  destruct (list_eq_dec N.eq_dec w_alpha w_a) as [E|_]; [discriminate E|].
  destruct (list_eq_dec N.eq_dec w_a w_a) as [_|E]; [|congruence].
  unfold w_alpha, w_a. cbn [app]. rewrite prefixb_cons, N.eqb_refl. cbn [andb].
  rewrite (pfx_digit [108;112;104;97] t) by (auto). reflexivity.
Qed.
Lemma fwo_b : forall t, hd_is is_digit t = true -> first_word_ok pre_words w_b (map lc t) = true.
Proof.
  intros t Ht. unfold pre_words. cbn [first_word_ok].
  destruct (list_eq_dec N.eq_dec w_alpha w_b) as [E|_]; [discriminate E|].
  destruct (list_eq_dec N.eq_dec w_a w_b) as [E|_]; [discriminate E|].
  destruct (list_eq_dec N.eq_dec w_beta w_b) as [E|_]; [discriminate E|].
  destruct (list_eq_dec N.eq_dec w_b w_b) as [_|E]; [|congruence].
  unfold w_alpha, w_a, w_beta, w_b. cbn [app]. rewrite !prefixb_cons.
  replace (98 =? 97) with false by reflexivity. rewrite N.eqb_refl. cbn [andb negb].
  rewrite (pfx_digit [101;116;97] t) by (auto). reflexivity.
Qed.
Ltac eval_eqb := repeat match goal with |- context [N.eqb ?a ?b] =>
   let v := eval vm_compute in (N.eqb a b) in change (N.eqb a b) with v end.
Lemma fwo_rc : forall t, first_word_ok pre_words w_rc (map lc t) = true.
Proof.
  intros t. unfold pre_words. cbn [first_word_ok].
  repeat match goal with |- context [list_eq_dec N.eq_dec ?a w_rc] =>
     destruct (list_eq_dec N.eq_dec a w_rc) as [E|NE]; [try discriminate E| try (exfalso; apply NE; reflexivity)] end; try reflexivity.
  all: unfold w_alpha, w_a, w_beta, w_b, w_preview, w_pre, w_c, w_rc in *; cbn [app]; rewrite ?prefixb_cons; eval_eqb; cbn [andb negb]; try reflexivity.
Qed.
Lemma fwo_post : forall t, first_word_ok post_words w_post t = true.
Proof. intros t. unfold post_words. cbn [first_word_ok]. destruct (list_eq_dec N.eq_dec w_post w_post); congruence. Qed.
Lemma fwo_dev : forall t, first_word_ok dev_words w_dev t = true.
Proof. intros t. unfold dev_words. cbn [first_word_ok]. destruct (list_eq_dec N.eq_dec w_dev w_dev); congruence. Qed.

(* ---------------- tails of the canonical rendering ---------------- *)
Section Canon.
Variable v : version.
Hypothesis W : wf_version v.
Let sp := canon_sp v.

Lemma ok_loc : okhead (t_loc sp) = true.
Proof. unfold t_loc, sp, canon_sp; cbn. destruct (local v); reflexivity. Qed.
Lemma ok_dev : okhead (t_dev sp) = true.
Proof.
  pose proof ok_loc as H. unfold t_dev. unfold sp at 1, canon_sp; cbn [sdev].
  destruct W as (_ & _ & _ & Hd & _). destruct (dev v) as [[l n]|]; cbn; auto. subst l. reflexivity.
Qed.
Lemma ok_post : okhead (t_post sp) = true.
Proof.
  pose proof ok_dev as H. unfold t_post. unfold sp at 1, canon_sp; cbn [spost].
  destruct W as (_ & _ & Hp & _). destruct (post v) as [[l n]|]; cbn; auto. subst l. reflexivity.
Qed.
Lemma pre_hd : okhead (t_pre sp) = true \/ hd_is is_lower (t_pre sp) = true.
Proof.
  pose proof ok_post as H. unfold t_pre. unfold sp at 1 3, canon_sp; cbn [spre].
  destruct W as (_ & Hp & _). destruct (pre v) as [[l n]|]; cbn; auto. right.
  destruct Hp as [->|[->| ->]]; reflexivity.
Qed.
Lemma pre_not_digit : hd_is is_digit (t_pre sp) = false.
Proof.
  destruct pre_hd as [H|H]; [now apply okhead_not_digit|].
  destruct (t_pre sp) as [|c r]; auto. cbn in *. now apply lower_not_digit.
Qed.
Lemma pre_not_bang : hd_is (N.eqb 33) (t_pre sp) = false.
Proof.
  destruct pre_hd as [H|H]; [now apply okhead_not_bang|].
  destruct (t_pre sp) as [|c r]; auto. cbn in *. unfold is_lower in H. apply andb_prop in H as [H1 H2].
  apply N.leb_le in H1, H2. apply N.eqb_neq. lia.
Qed.
Lemma pre_not_dotdigit : hd2_is 46 is_digit (t_pre sp) = false.
Proof.
  destruct pre_hd as [H|H]; [now apply okhead_not_dotdigit|].
  destruct (t_pre sp) as [|c r]; auto. cbn in *. unfold is_lower in H. apply andb_prop in H as [H1 H2].
  apply N.leb_le in H1, H2. rewrite (proj2 (N.eqb_neq c 46)) by lia. reflexivity.
Qed.

Lemma g_pre : gnf_opt (p_lv pre_words) (gnf_lv pre_words) (spre sp) (t_post sp) = true.
Proof.
  pose proof ok_post as Hok. unfold gnf_opt. unfold sp at 1, canon_sp; cbn [spre].
  destruct W as (_ & Hp & Hpo & Hd & _). destruct (pre v) as [[l n]|] eqn:E; cbn [option_map].
  - apply gnf_lv_canon; auto using okhead_not_digit.
    + destruct Hp as [->|[->| ->]]; reflexivity.
    + destruct Hp as [->|[->| ->]]; reflexivity.
    + apply fwo_digit_tail. destruct Hp as [->|[->| ->]]; [apply fwo_a | apply fwo_b | intros; apply fwo_rc].
  - unfold t_post, t_dev, t_loc, sp, canon_sp; cbn [spost sdev sloc ws_r].
    destruct (post v) as [[l1 n1]|]; [subst l1; vm_compute; reflexivity|].
    destruct (dev v) as [[l2 n2]|]; [subst l2; vm_compute; reflexivity|].
    destruct (local v); vm_compute; reflexivity.
Qed.
Lemma g_post : gnf_opt p_post gnf_post (spost sp) (t_dev sp) = true.
Proof.
  pose proof ok_dev as Hok. unfold gnf_opt. unfold sp at 1, canon_sp; cbn [spost].
  destruct W as (_ & _ & Hpo & Hd & _). destruct (post v) as [[l n]|] eqn:E; cbn [option_map].
  - subst l. unfold gnf_post. rewrite gnf_lv_canon; auto using okhead_not_digit, fwo_post.
  - unfold t_dev, t_loc, sp, canon_sp; cbn [sdev sloc ws_r].
    destruct (dev v) as [[l2 n2]|]; [subst l2; vm_compute; reflexivity|].
    destruct (local v); vm_compute; reflexivity.
Qed.
Lemma g_dev : gnf_opt (p_lv dev_words) (gnf_lv dev_words) (sdev sp) (t_loc sp) = true.
Proof.
  pose proof ok_loc as Hok. unfold gnf_opt. unfold sp at 1, canon_sp; cbn [sdev].
  destruct W as (_ & _ & _ & Hd & _). destruct (dev v) as [[l n]|] eqn:E; cbn [option_map].
  - subst l. apply gnf_lv_canon; auto using okhead_not_digit, fwo_dev.
  - unfold t_loc, sp, canon_sp; cbn [sloc ws_r]. destruct (local v); vm_compute; reflexivity.
Qed.
End Canon.
