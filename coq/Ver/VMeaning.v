From Coq Require Import List Arith NArith Bool Lia.
Import ListNotations.
Require Import VParse VComplete VTop VTop2 VDec.
Require Import Py.   (* version record, a_ b_ rc_ post_ dev_ *)
Open Scope N_scope.

(* ---------------- meaning of a spelling = Version.__init__ ---------------- *)
Definition num (s : str) : N := match undec s with Some n => n | None => 0 end.
(* str.lower() on the characters the pattern lets through *)
Definition py_lower_c (c : char) : str :=
  if (65 <=? c) && (c <=? 90) then [c + 32] else if c =? 304 then [105; 775] else if c =? 8490 then [107] else [c].
Definition py_lower (s : str) : str := flat_map py_lower_c s.
Fixpoint str_eqb (a b : str) : bool :=
  match a, b with [], [] => true | x :: a', y :: b' => (x =? y) && str_eqb a' b' | _, _ => false end.
Definition norm_letter (w : str) : str :=          (* _parse_letter_version *)
  let l := py_lower w in
  if str_eqb l w_alpha then w_a else if str_eqb l w_beta then w_b
  else if str_eqb l w_c || str_eqb l w_pre || str_eqb l w_preview then w_rc
  else if str_eqb l w_rev || str_eqb l w_r then w_post else l.
Definition m_lv (l : lv_sp) : str * N := (norm_letter (l_word l), match l_num l with [] => 0 | d => num d end).
Definition m_post (p : post_sp) : str * N :=
  match p with PostImplicit d => (w_post, num d) | PostWord l => m_lv l end.
Definition m_seg (s : str) : N + str := if forallb is_digit s then inl (num s) else inr (py_lower s).
Definition meaning (sp : spelling) : version :=
  {| epoch := match ep sp with Some e => num e | None => 0 end;
     release := map num (rel0 sp :: rels sp);
     pre := option_map m_lv (spre sp);
     post := option_map m_post (spost sp);
     dev := option_map m_lv (sdev sp);
     local := option_map (fun l => map m_seg (fst l :: map snd (snd l))) (sloc sp) |}.

(* ---------------- Version.__str__ as a canonical spelling ---------------- *)
Definition c_lv (sep : option char) (p : str * N) : lv_sp :=
  {| l_sep1 := sep; l_word := fst p; l_sep2 := None; l_num := dec (snd p) |}.
Definition c_seg (x : N + str) : str := match x with inl n => dec n | inr s => s end.
Definition canon_sp (v : version) : spelling :=
  {| ws_l := []; vpre := None;
     ep := if epoch v =? 0 then None else Some (dec (epoch v));
     rel0 := dec (hd 0 (release v)); rels := map dec (tl (release v));
     spre := option_map (c_lv None) (pre v);
     spost := option_map (fun p => PostWord (c_lv (Some 46) p)) (post v);
     sdev := option_map (c_lv (Some 46)) (dev v);
     sloc := option_map (fun l => (c_seg (hd (inl 0) l), map (fun x => (46, c_seg x)) (tl l))) (local v);
     ws_r := [] |}.
Definition vstr (v : version) : str := render (canon_sp v).

Definition is_lower_alnum (c : char) := is_digit c || is_lower c.
Definition wf_seg (x : N + str) : bool :=
  match x with inl _ => true | inr s => nonempty s && forallb is_lower_alnum s && negb (forallb is_digit s) end.
Definition wf_version (v : version) : Prop :=
  release v <> [] /\
  (match pre v with Some (l, _) => l = w_a \/ l = w_b \/ l = w_rc | None => True end) /\
  (match post v with Some (l, _) => l = w_post | None => True end) /\
  (match dev v with Some (l, _) => l = w_dev | None => True end) /\
  (match local v with Some l => l <> [] /\ forallb wf_seg l = true | None => True end).

(* "1!2.0rc1.post3.dev4+ab.5" *)
Definition ex_v := {| epoch := 1; release := [2;0]; pre := Some (w_rc, 1); post := Some (w_post, 3);
                      dev := Some (w_dev, 4); local := Some [inr [97;98]; inl 5] |}.
Eval vm_compute in vstr ex_v.
Eval vm_compute in option_map meaning (parse_spelling (vstr ex_v)).
Eval vm_compute in gnf (canon_sp ex_v).
