From Coq Require Import List Arith NArith Bool Lia.
Import ListNotations.
Require Import VParse VComplete VTop.
Open Scope N_scope.

(* ---------------- completeness of the remaining components ---------------- *)
Fixpoint gnf_rels (l : list str) (tail : str) : bool :=
  match l with
  | [] => negb (hd2_is 46 is_digit tail)
  | d :: l' => wf_digits d && negb (hd_is is_digit (r_rels l' ++ tail)) && gnf_rels l' tail
  end.
Lemma hd2_cons c0 p d t : hd_is p d = true -> hd2_is c0 p (c0 :: d ++ t) = true.
Proof. destruct d as [|x d]; simpl; try discriminate. intros ->. now rewrite N.eqb_refl. Qed.
Lemma wf_digits_hd d : wf_digits d = true -> hd_is is_digit d = true.
Proof. unfold wf_digits. destruct d; simpl; try discriminate. intros H. now apply andb_prop in H as [? _]. Qed.
Lemma wf_alnum_hd d : wf_alnum d = true -> hd_is is_alnum_ci d = true.
Proof. unfold wf_alnum. destruct d; simpl; try discriminate. intros H. now apply andb_prop in H as [? _]. Qed.
Lemma hd_is_app p d t : nonempty d = true -> hd_is p (d ++ t) = hd_is p d.
Proof. destruct d; simpl; auto; discriminate. Qed.

Lemma p_rels_complete l : forall fuel tail, (length l <= fuel)%nat -> gnf_rels l tail = true ->
  p_rels fuel (r_rels l ++ tail) = (l, tail).
Proof.
  induction l as [|d l IH]; intros fuel tail Hf H; simpl in H.
  - destruct fuel; simpl; auto. apply negb_true_iff in H. now rewrite H.
  - destruct fuel; [simpl in Hf; lia|]. simpl in Hf.
    apply andb_prop in H as [H H3]. apply andb_prop in H as [H1 H2]. apply negb_true_iff in H2.
    cbn [r_rels app]. rewrite <- app_assoc. cbn [p_rels].
    rewrite hd2_cons by now apply wf_digits_hd. cbn [tl].
    unfold wf_digits in H1. apply andb_prop in H1 as [_ H1].
    rewrite span_complete by assumption. rewrite IH by (auto; lia). reflexivity.
Qed.
Lemma r_rels_len l tail : (length l <= length (r_rels l ++ tail))%nat.
Proof. induction l; simpl; [lia|]. rewrite <- app_assoc, app_length. lia. Qed.

Fixpoint gnf_segs (l : list (char * str)) (tail : str) : bool :=
  match l with
  | [] => negb (match tail with c :: t => is_sep c && hd_is is_alnum_ci t | [] => false end)
  | (c, d) :: l' => is_sep c && wf_alnum d && negb (hd_is is_alnum_ci (r_segs l' ++ tail)) && gnf_segs l' tail
  end.
Lemma p_segs_complete l : forall fuel tail, (length l <= fuel)%nat -> gnf_segs l tail = true ->
  p_segs fuel (r_segs l ++ tail) = (l, tail).
Proof.
  induction l as [|[c d] l IH]; intros fuel tail Hf H; simpl in H.
  - destruct fuel; simpl; auto. apply negb_true_iff in H. destruct tail; auto. now rewrite H.
  - destruct fuel; [simpl in Hf; lia|]. simpl in Hf.
    apply andb_prop in H as [H H4]. apply andb_prop in H as [H H3]. apply andb_prop in H as [H1 H2].
    apply negb_true_iff in H3.
    cbn [r_segs app]. rewrite <- app_assoc. cbn [p_segs].
    assert (Hne : nonempty d = true) by (unfold wf_alnum in H2; now apply andb_prop in H2 as [? _]).
    rewrite H1, hd_is_app, wf_alnum_hd by assumption. cbn [andb].
    unfold wf_alnum in H2. apply andb_prop in H2 as [_ H2].
    rewrite span_complete by assumption. rewrite IH by (auto; lia). reflexivity.
Qed.
Lemma r_segs_len l tail : (length l <= length (r_segs l ++ tail))%nat.
Proof. induction l as [|[c d] l IH]; simpl; [lia|]. rewrite <- app_assoc, app_length. lia. Qed.

Definition gnf_loc (l : str * list (char * str)) (tail : str) : bool :=
  wf_alnum (fst l) && negb (hd_is is_alnum_ci (r_segs (snd l) ++ tail)) && gnf_segs (snd l) tail.
Lemma p_loc_complete l tail : gnf_loc l tail = true -> p_loc (r_loc l ++ tail) = Some (l, tail).
Proof.
  destruct l as [s0 segs]. unfold gnf_loc, r_loc, p_loc; cbn [fst snd]. intros H.
  apply andb_prop in H as [H H3]. apply andb_prop in H as [H1 H2]. apply negb_true_iff in H2.
  cbn [app]. rewrite <- app_assoc.
  assert (Hne : nonempty s0 = true) by (unfold wf_alnum in H1; now apply andb_prop in H1 as [? _]).
  rewrite N.eqb_refl, hd_is_app, wf_alnum_hd by assumption. cbn [andb].
  unfold wf_alnum in H1. apply andb_prop in H1 as [_ H1].
  rewrite span_complete by assumption.
  rewrite p_segs_complete by (auto; apply r_segs_len). reflexivity.
Qed.

Definition gnf_post (p : post_sp) (tail : str) : bool :=
  match p with
  | PostImplicit d => wf_digits d && negb (hd_is is_digit tail)
  | PostWord l => negb (hd2_is 45 is_digit (r_lv l ++ tail)) && gnf_lv post_words l tail
  end.
Lemma p_post_complete p tail : gnf_post p tail = true -> p_post (r_post p ++ tail) = Some (p, tail).
Proof.
  destruct p as [d|l]; unfold gnf_post, p_post; cbn [r_post]; intros H; apply andb_prop in H as [H1 H2].
  - cbn [app]. rewrite hd2_cons by now apply wf_digits_hd. cbn [tl].
    unfold wf_digits in H1. apply andb_prop in H1 as [_ H1]. apply negb_true_iff in H2.
    now rewrite span_complete.
  - apply negb_true_iff in H1. rewrite H1. now rewrite p_lv_complete.
Qed.

Definition gnf_opt {A} (p : str -> option (A * str)) (g : A -> str -> bool) (o : option A) (tail : str) : bool :=
  match o with Some a => g a tail | None => match p tail with None => true | Some _ => false end end.
Lemma p_opt_complete {A} (p : str -> option (A * str)) (f : A -> str) g :
  (forall a tail, g a tail = true -> p (f a ++ tail) = Some (a, tail)) ->
  forall o tail, gnf_opt p g o tail = true -> p_opt p (r_opt f o ++ tail) = (o, tail).
Proof.
  intros H o tail. unfold gnf_opt, p_opt. destruct o as [a|]; cbn [r_opt].
  - intros G. now rewrite H.
  - cbn [app]. destruct (p tail); [discriminate|reflexivity].
Qed.

(* ---------------- greedy normal form of a whole spelling ---------------- *)
Definition t_loc sp := r_opt r_loc (sloc sp) ++ ws_r sp.
Definition t_dev sp := r_opt r_lv (sdev sp) ++ t_loc sp.
Definition t_post sp := r_opt r_post (spost sp) ++ t_dev sp.
Definition t_pre sp := r_opt r_lv (spre sp) ++ t_post sp.
Definition t_rels sp := r_rels (rels sp) ++ t_pre sp.
Definition t_num sp := r_opt r_ep (ep sp) ++ rel0 sp ++ t_rels sp.
Definition t_v sp := r_osep (vpre sp) ++ t_num sp.

Definition gnf (sp : spelling) : bool :=
  forallb is_ws (ws_l sp) && negb (hd_is is_ws (t_v sp)) &&
  (match vpre sp with Some c => lc c =? 118 | None => negb (hd_is (fun c => lc c =? 118) (t_num sp)) end) &&
  (match ep sp with Some e => wf_digits e | None => negb (hd_is (N.eqb 33) (t_rels sp)) end) &&
  wf_digits (rel0 sp) && negb (hd_is is_digit (t_rels sp)) &&
  gnf_rels (rels sp) (t_pre sp) &&
  gnf_opt (p_lv pre_words) (gnf_lv pre_words) (spre sp) (t_post sp) &&
  gnf_opt p_post gnf_post (spost sp) (t_dev sp) &&
  gnf_opt (p_lv dev_words) (gnf_lv dev_words) (sdev sp) (t_loc sp) &&
  gnf_opt p_loc gnf_loc (sloc sp) (ws_r sp) &&
  forallb is_ws (ws_r sp).

Lemma render_eq sp : render sp = ws_l sp ++ t_v sp.
Proof. unfold render, t_v, t_num, t_rels, t_pre, t_post, t_dev, t_loc. reflexivity. Qed.

Theorem parse_spelling_complete sp : gnf sp = true -> parse_spelling (render sp) = Some sp.
Proof.
  unfold gnf. intros H.
  apply andb_prop in H as [H G12]. apply andb_prop in H as [H G11]. apply andb_prop in H as [H G10].
  apply andb_prop in H as [H G9]. apply andb_prop in H as [H G8]. apply andb_prop in H as [H G7].
  apply andb_prop in H as [H G6]. apply andb_prop in H as [H G5]. apply andb_prop in H as [H G4].
  apply andb_prop in H as [H G3]. apply andb_prop in H as [G1 G2].
  apply negb_true_iff in G2, G6.
  rewrite render_eq. unfold parse_spelling.
  rewrite span_complete by assumption.
  assert (Hv : p_v (t_v sp) = (vpre sp, t_num sp)).
  { unfold t_v, p_v. destruct (vpre sp) as [c|]; cbn [r_osep app].
    - now rewrite G3.
    - apply negb_true_iff in G3. destruct (t_num sp) as [|c t]; auto. simpl in G3. now rewrite G3. }
  rewrite Hv. unfold t_num.
  assert (Hr := G5). unfold wf_digits in Hr. apply andb_prop in Hr as [Hr1 Hr2].
  assert (Tail : (let '(rs, s5) := p_rels (length (t_rels sp)) (t_rels sp) in
      let '(pr, s6) := p_opt (p_lv pre_words) s5 in
      let '(po, s7) := p_opt p_post s6 in
      let '(dv, s8) := p_opt (p_lv dev_words) s7 in
      let '(lo, s9) := p_opt p_loc s8 in
      if forallb is_ws s9 then
        Some {| ws_l := ws_l sp; vpre := vpre sp; ep := ep sp; rel0 := rel0 sp; rels := rs;
                spre := pr; spost := po; sdev := dv; sloc := lo; ws_r := s9 |}
      else None) = Some sp).
  { unfold t_rels. rewrite p_rels_complete by (auto; apply r_rels_len).
    unfold t_pre. rewrite (p_opt_complete _ r_lv (gnf_lv pre_words)) by (auto; apply p_lv_complete).
    unfold t_post. rewrite (p_opt_complete _ r_post gnf_post) by (auto; apply p_post_complete).
    unfold t_dev. rewrite (p_opt_complete _ r_lv (gnf_lv dev_words)) by (auto; apply p_lv_complete).
    unfold t_loc. rewrite (p_opt_complete _ r_loc gnf_loc) by (auto; apply p_loc_complete).
    rewrite G12. destruct sp; reflexivity. }
  destruct (ep sp) as [e|] eqn:Ee; cbn [r_opt].
  - unfold r_ep. rewrite <- app_assoc. cbn [app].
    assert (He := G4). unfold wf_digits in He. apply andb_prop in He as [He1 He2].
    rewrite span_complete by (auto). rewrite He1. cbn [negb hd_is]. rewrite N.eqb_refl. cbn [tl].
    rewrite span_complete by assumption. cbn [negb]. rewrite Hr1. cbn [negb]. exact Tail.
  - cbn [app]. apply negb_true_iff in G4.
    rewrite span_complete by assumption. rewrite Hr1. cbn [negb]. rewrite G4. cbn [negb]. rewrite Hr1. cbn [negb]. exact Tail.
Qed.
Print Assumptions parse_spelling_complete.
