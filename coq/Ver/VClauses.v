(* C01: the clauses of "the order is PEP 440's", each stated on its own about VCmp.pep440_cmp, so that a reader checks one rule at a time instead of
   the nested definition: epoch first; then the release, numerically and zero-padded; then the ladder dev-only < a < b < rc < final < post;
   ".devM just below" and ".postM just above" the thing it is attached to; the local-label rules.  All are consequences of the definition; the lemmas
   proved by `reflexivity` (strip0_is_strip, local_none_first, local_num_above_alnum, local_num_by_value) merely restate a line of it.
   ladder_devonly_pre / ladder_pre_number / ladder_pre_final take an arbitrary letter l: for a letter outside {a, b, rc} they hold through letter_rank's
   default; the `_ops` forms in Properties/C01.v are about parsed versions, where the letter is always one of the three (VWf.meaning_wf).
   The post / dev NUMBER rungs for versions that have a pre part are in VClauses2.v. *)
From Coq Require Import List Arith NArith Bool Lia.
Import ListNotations.
Require Import S1 Py VCmp Order.
Open Scope N_scope.
Arguments N.eqb : simpl never.
Arguments N.leb : simpl never.

(* ------------------------------------------------------------------ epoch first *)
Lemma epoch_first x y c : (epoch x ?= epoch y) = c -> c <> Eq -> pep440_cmp x y = c.
Proof. intros E Hc. unfold pep440_cmp. rewrite E. destruct c; [congruence|reflexivity|reflexivity]. Qed.
Lemma epoch_first_lt x y : epoch x < epoch y -> pep440_cmp x y = Lt.
Proof. intros H. apply epoch_first; [now apply N.compare_lt_iff | discriminate]. Qed.

(* ------------------------------------------------------------------ then the release *)
Lemma release_second x y c : epoch x = epoch y -> padcmp (release x) (release y) = c -> c <> Eq -> pep440_cmp x y = c.
Proof. intros E P Hc. unfold pep440_cmp. rewrite E, N.compare_refl, P. destruct c; [congruence|reflexivity|reflexivity]. Qed.

(* padcmp IS the component-wise numeric comparison of the two releases padded with zeros to a common length *)
Definition pad (n : nat) (l : list N) : list N := l ++ repeat 0 (n - length l).
Lemma lex_refl a : lex a a = Eq.
Proof. induction a as [|x a IH]; cbn [lex]; auto. now rewrite N.compare_refl. Qed.
Lemma lex_zeros_l b : forall n, (length b <= n)%nat -> lex (repeat 0 n) (pad n b) = if allz b then Eq else Lt.
Proof.
  unfold pad. induction b as [|y b IH]; intros n Hn.
  - cbn [app length allz]. rewrite Nat.sub_0_r. apply lex_refl.
  - destruct n as [|n]; [cbn in Hn; lia|]. cbn [length Nat.sub repeat app lex allz]. cbn [length] in Hn.
    destruct (N.eqb_spec y 0) as [->|Hy]; cbn [andb].
    + change (0 ?= 0) with Eq. cbn iota. apply IH. lia.
    + destruct y; [congruence|reflexivity].
Qed.
Lemma lex_zeros_r a : forall n, (length a <= n)%nat -> lex (pad n a) (repeat 0 n) = if allz a then Eq else Gt.
Proof.
  unfold pad. induction a as [|y a IH]; intros n Hn.
  - cbn [app length allz]. rewrite Nat.sub_0_r. apply lex_refl.
  - destruct n as [|n]; [cbn in Hn; lia|]. cbn [length Nat.sub repeat app lex allz]. cbn [length] in Hn.
    destruct (N.eqb_spec y 0) as [->|Hy]; cbn [andb].
    + change (0 ?= 0) with Eq. cbn iota. apply IH. lia.
    + destruct y; [congruence|reflexivity].
Qed.
Theorem padcmp_is_padded_lex a : forall b n, (length a <= n)%nat -> (length b <= n)%nat -> padcmp a b = lex (pad n a) (pad n b).
Proof.
  induction a as [|x a IH]; intros b n Ha Hb.
  - cbn [padcmp]. change (pad n []) with (repeat 0 (n - 0)). rewrite Nat.sub_0_r. symmetry. now apply lex_zeros_l.
  - destruct b as [|y b].
    + cbn [padcmp]. change (pad n []) with (repeat 0 (n - 0)). rewrite Nat.sub_0_r. symmetry. now apply lex_zeros_r.
    + destruct n as [|n]; [cbn in Ha; lia|]. cbn [length] in Ha, Hb. unfold pad. cbn [padcmp length Nat.sub app lex].
      rewrite (IH b n) by lia. reflexivity.
Qed.
(* the first differing component of the padded releases decides, by value *)
Lemma lex_first_diff p x y a b : x < y -> lex (p ++ x :: a) (p ++ y :: b) = Lt.
Proof.
  intros H. induction p as [|z p IH]; cbn [app lex].
  - now rewrite (proj2 (N.compare_lt_iff x y) H).
  - now rewrite N.compare_refl.
Qed.
(* trailing zero components do not matter *)
Lemma allz_repeat k : allz (repeat 0 k) = true.
Proof. induction k; cbn; auto. Qed.
Lemma padcmp_trailing_zeros r k : padcmp (r ++ repeat 0 k) r = Eq.
Proof.
  induction r as [|x r IH]; cbn [app padcmp].
  - pose proof (allz_repeat k) as Z. destruct (repeat 0 k) eqn:E; [reflexivity|]. cbn [padcmp]. now rewrite Z.
  - now rewrite N.compare_refl.
Qed.
(* the stripping in Version._key uses the same function as the one C01_release_zero_padded speaks of *)
Lemma strip0_is_strip l : Py.strip0 l = S1.strip l.
Proof. reflexivity. Qed.

(* ------------------------------------------------------------------ the ladder inside one release *)
Definition same_release (x y : version) : Prop := epoch x = epoch y /\ padcmp (release x) (release y) = Eq.
Definition suffix_cmp (x y : version) : comparison :=
  thenc (pair_cmp (pre_class x) (pre_class y)) (thenc (pair_cmp (post_class x) (post_class y))
        (thenc (pair_cmp (dev_class x) (dev_class y)) (local_cmp (local x) (local y)))).
Lemma same_release_cmp x y : same_release x y -> pep440_cmp x y = suffix_cmp x y.
Proof. intros [E P]. unfold pep440_cmp, suffix_cmp. now rewrite E, N.compare_refl, P. Qed.

Definition is_devonly (v : version) : Prop := pre v = None /\ post v = None /\ dev v <> None.     (* X.devN *)
Definition is_final (v : version) : Prop := pre v = None /\ post v = None /\ dev v = None.        (* X *)
Definition is_post (v : version) : Prop := pre v = None /\ post v <> None.                         (* X.postN[.devM] *)
Definition pre_letter (v : version) : option str := option_map fst (pre v).
Definition pre_number (v : version) : option N := option_map snd (pre v).
Definition post_number (v : version) : option N := option_map snd (post v).
Definition dev_number (v : version) : option N := option_map snd (dev v).
Definition pre_letter_ok (l : str) : Prop := l = a_ \/ l = b_ \/ l = rc_.

Lemma pair_lt_fst a n b m : a < b -> pair_cmp (a, n) (b, m) = Lt.
Proof. intros H. unfold pair_cmp; cbn [fst snd]. now rewrite (proj2 (N.compare_lt_iff a b) H). Qed.
Lemma letter_rank_range l : 1 <= letter_rank l /\ letter_rank l <= 3.
Proof. unfold letter_rank. destruct (str_eqb l a_); [lia|]. destruct (str_eqb l b_); lia. Qed.
Lemma pre_class_devonly v : is_devonly v -> pre_class v = (0, 0).
Proof. intros (A & B & C). unfold pre_class. rewrite A, B. destruct (dev v); [reflexivity|congruence]. Qed.
Lemma pre_class_pre v l n : pre v = Some (l, n) -> pre_class v = (letter_rank l, n).
Proof. intros A. unfold pre_class. now rewrite A. Qed.
Lemma pre_class_final v : is_final v -> pre_class v = (4, 0).
Proof. intros (A & B & C). unfold pre_class. now rewrite A, B, C. Qed.
Lemma pre_class_post v : is_post v -> pre_class v = (4, 0).
Proof. intros (A & B). unfold pre_class. rewrite A. destruct (post v); [reflexivity|congruence]. Qed.

Ltac by_pre := intros; rewrite same_release_cmp by assumption; unfold suffix_cmp;
  repeat match goal with
  | H : is_devonly _ |- _ => rewrite (pre_class_devonly _ H); clear H
  | H : is_final _ |- _ => rewrite (pre_class_final _ H); clear H
  | H : is_post _ |- _ => rewrite (pre_class_post _ H); clear H
  | H : pre _ = Some _ |- _ => rewrite (pre_class_pre _ _ _ H); clear H
  end.

(* devN-only < aN, bN, rcN *)
Lemma ladder_devonly_pre x y l n : same_release x y -> is_devonly x -> pre y = Some (l, n) -> pep440_cmp x y = Lt.
Proof. by_pre. rewrite pair_lt_fst; [reflexivity|]. pose proof (letter_rank_range l). lia. Qed.
(* devN-only < final, postN *)
Lemma ladder_devonly_final x y : same_release x y -> is_devonly x -> is_final y \/ is_post y -> pep440_cmp x y = Lt.
Proof. intros S D [F|F]; by_pre; reflexivity. Qed.
(* aN < bM < rcK, whatever the numbers *)
Lemma ladder_a_b x y n m : same_release x y -> pre x = Some (a_, n) -> pre y = Some (b_, m) -> pep440_cmp x y = Lt.
Proof. by_pre. reflexivity. Qed.
Lemma ladder_b_rc x y n m : same_release x y -> pre x = Some (b_, n) -> pre y = Some (rc_, m) -> pep440_cmp x y = Lt.
Proof. by_pre. reflexivity. Qed.
Lemma ladder_a_rc x y n m : same_release x y -> pre x = Some (a_, n) -> pre y = Some (rc_, m) -> pep440_cmp x y = Lt.
Proof. by_pre. reflexivity. Qed.
(* same letter: by number *)
Lemma ladder_pre_number x y l n m : same_release x y -> pre x = Some (l, n) -> pre y = Some (l, m) -> n < m -> pep440_cmp x y = Lt.
Proof.
  by_pre. unfold pair_cmp at 1; cbn [fst snd]. rewrite N.compare_refl. cbn [thenc].
  match goal with H : n < m |- _ => rewrite (proj2 (N.compare_lt_iff n m) H) end. reflexivity.
Qed.
(* aN, bN, rcN < final, postN *)
Lemma ladder_pre_final x y l n : same_release x y -> pre x = Some (l, n) -> is_final y \/ is_post y -> pep440_cmp x y = Lt.
Proof.
  intros S P [F|F]; by_pre; (rewrite pair_lt_fst; [reflexivity|]); pose proof (letter_rank_range l); lia.
Qed.
(* final < postN *)
Lemma ladder_final_post x y : same_release x y -> is_final x -> is_post y -> pep440_cmp x y = Lt.
Proof.
  intros S F P. pose proof F as (_ & F2 & _). pose proof P as (_ & P2). by_pre.
  change (pair_cmp (4, 0) (4, 0)) with Eq. cbn [thenc]. unfold post_class. rewrite F2.
  destruct (post y) as [[l m]|]; [reflexivity|congruence].
Qed.
(* postN < postM for N < M (with or without .dev) ; devN < devM for dev-only versions *)
Lemma ladder_post_number x y n m : same_release x y -> is_post x -> is_post y -> post_number x = Some n -> post_number y = Some m -> n < m ->
  pep440_cmp x y = Lt.
Proof.
  intros S Px Py Nx Ny L. by_pre. change (pair_cmp (4, 0) (4, 0)) with Eq. cbn [thenc]. unfold post_class, post_number in *.
  destruct (post x) as [[l1 n1]|]; [|discriminate]. destruct (post y) as [[l2 m1]|]; [|discriminate].
  cbn [option_map snd] in Nx, Ny. injection Nx as ->. injection Ny as ->.
  unfold pair_cmp; cbn [fst snd]. change (1 ?= 1) with Eq. cbn [thenc]. now rewrite (proj2 (N.compare_lt_iff n m) L).
Qed.
Lemma ladder_dev_number x y n m : same_release x y -> is_devonly x -> is_devonly y -> dev_number x = Some n -> dev_number y = Some m -> n < m ->
  pep440_cmp x y = Lt.
Proof.
  intros S Dx Dy Nx Ny L. pose proof Dx as (_ & X2 & _). pose proof Dy as (_ & Y2 & _). by_pre.
  change (pair_cmp (0, 0) (0, 0)) with Eq. cbn [thenc]. unfold post_class. rewrite X2, Y2.
  change (pair_cmp (0, 0) (0, 0)) with Eq. cbn [thenc]. unfold dev_class, dev_number in *.
  destruct (dev x) as [[l1 n1]|]; [|discriminate]. destruct (dev y) as [[l2 m1]|]; [|discriminate].
  cbn [option_map snd] in Nx, Ny. injection Nx as ->. injection Ny as ->.
  unfold pair_cmp; cbn [fst snd]. change (0 ?= 0) with Eq. cbn [thenc]. now rewrite (proj2 (N.compare_lt_iff n m) L).
Qed.

(* ------------------------------------------------------------------ .devM just below, .postM just above *)
Definition with_dev (v : version) (m : N) : version :=
  {| epoch := epoch v; release := release v; pre := pre v; post := post v; dev := Some (dev_, m); local := local v |}.
Definition with_post (v : version) (m : N) : version :=
  {| epoch := epoch v; release := release v; pre := pre v; post := Some (post_, m); dev := dev v; local := local v |}.

Lemma sandwich c c' r1 r2 : c' = CompOpp c -> thenc c r1 = Lt -> thenc c' r2 = Lt -> c = Eq /\ r1 = Lt /\ r2 = Lt.
Proof. destruct c; cbn; intros ->; cbn; intros; try discriminate; auto. Qed.
Lemma pair_cmp_eq x y : pair_cmp x y = Eq -> x = y.
Proof.
  destruct x as [a b], y as [c d]. unfold pair_cmp; cbn [fst snd]. destruct (a ?= c) eqn:E; cbn [thenc]; try discriminate.
  intros F. apply N.compare_eq in E, F. now subst.
Qed.
Lemma pair_cmp_refl x : pair_cmp x x = Eq.  Proof. apply (ok_refl _ pair_cmp_ok). Qed.
Lemma padcmp_refl r : padcmp r r = Eq.      Proof. apply (ok_refl _ padcmp_ok). Qed.

(* a version between  v' and v  (v' below v) that share epoch, release, pre and post class is in the same class *)
Lemma between_same_class v' v w :
  epoch v' = epoch v -> release v' = release v -> pre_class v' = pre_class v -> post_class v' = post_class v ->
  pep440_cmp v' w = Lt -> pep440_cmp w v = Lt ->
  epoch w = epoch v /\ padcmp (release w) (release v) = Eq /\ pre_class w = pre_class v /\ post_class w = post_class v /\
  thenc (pair_cmp (dev_class w) (dev_class v)) (local_cmp (local w) (local v)) = Lt /\
  thenc (pair_cmp (dev_class v') (dev_class w)) (local_cmp (local v') (local w)) = Lt.
Proof.
  intros E1 E2 E3 E4 H2 H1. unfold pep440_cmp in H1, H2. rewrite E1, E2, E3, E4 in H2.
  destruct (sandwich _ _ _ _ (N.compare_antisym (epoch w) (epoch v)) H1 H2) as (A & H1a & H2a).
  destruct (sandwich _ _ _ _ (ok_sym _ padcmp_ok (release w) (release v)) H1a H2a) as (B & H1b & H2b).
  destruct (sandwich _ _ _ _ (ok_sym _ pair_cmp_ok (pre_class w) (pre_class v)) H1b H2b) as (C & H1c & H2c).
  destruct (sandwich _ _ _ _ (ok_sym _ pair_cmp_ok (post_class w) (post_class v)) H1c H2c) as (D & H1d & H2d).
  apply N.compare_eq in A. apply pair_cmp_eq in C, D. repeat (split; [assumption|]). assumption.
Qed.

(* ".devM just below": for v = X{a|b|rc}N, X.postN or X{a|b|rc}N.postK (no dev, no local label), v.devM is below v, and everything
   strictly between v.devM and v is itself a .dev release of the same thing *)
Theorem dev_just_below v m : dev v = None -> local v = None -> (pre v <> None \/ post v <> None) ->
  pep440_cmp (with_dev v m) v = Lt /\
  forall w, pep440_cmp (with_dev v m) w = Lt -> pep440_cmp w v = Lt ->
    epoch w = epoch v /\ padcmp (release w) (release v) = Eq /\ pre_class w = pre_class v /\ post_class w = post_class v /\ dev w <> None.
Proof.
  intros Dv Lv Hp.
  assert (Pc : pre_class (with_dev v m) = pre_class v).
  { unfold pre_class, with_dev; cbn [pre post dev]. rewrite Dv. destruct (pre v) as [[l n]|]; [reflexivity|].
    destruct (post v); [reflexivity|]. destruct Hp; congruence. }
  assert (Qc : post_class (with_dev v m) = post_class v) by reflexivity.
  split.
  - unfold pep440_cmp. rewrite Pc, Qc. cbn [with_dev epoch release]. rewrite N.compare_refl, padcmp_refl, !pair_cmp_refl. cbn [thenc].
    unfold dev_class; cbn [with_dev dev]. rewrite Dv. reflexivity.
  - intros w H2 H1. destruct (between_same_class (with_dev v m) v w eq_refl eq_refl Pc Qc H2 H1) as (A & B & C & D & F & _).
    repeat split; auto. intros Dw. unfold dev_class in F. rewrite Dw, Dv, Lv in F. cbn in F. destruct (local w); discriminate.
Qed.

(* ".postM just above": for v without post and dev parts (X, X{a|b|rc}N, with or without local label), v.postM is above v, and everything
   strictly between v and v.postM is either a post-release of v (lower number, or a .dev of a post-release) or v with another local label *)
Theorem post_just_above v m : post v = None -> dev v = None ->
  pep440_cmp v (with_post v m) = Lt /\
  forall w, pep440_cmp v w = Lt -> pep440_cmp w (with_post v m) = Lt ->
    epoch w = epoch v /\ padcmp (release w) (release v) = Eq /\ pre_class w = pre_class v /\
    (post w <> None \/ (dev w = None /\ local w <> None)).
Proof.
  intros Pv Dv.
  assert (Pc : pre_class (with_post v m) = pre_class v).
  { unfold pre_class, with_post; cbn [pre post dev]. rewrite Pv, Dv. destruct (pre v) as [[l n]|]; reflexivity. }
  split.
  - unfold pep440_cmp. rewrite Pc. cbn [with_post epoch release]. rewrite N.compare_refl, padcmp_refl, !pair_cmp_refl. cbn [thenc].
    unfold post_class; cbn [with_post post]. rewrite Pv. reflexivity.
  - intros w H1 H2. unfold pep440_cmp in H1, H2. rewrite Pc in H2. cbn [with_post epoch release] in H2.
    destruct (sandwich _ _ _ _ (N.compare_antisym (epoch w) (epoch v)) H2 H1) as (A & H2a & H1a).
    destruct (sandwich _ _ _ _ (ok_sym _ padcmp_ok (release w) (release v)) H2a H1a) as (B & H2b & H1b).
    destruct (sandwich _ _ _ _ (ok_sym _ pair_cmp_ok (pre_class w) (pre_class v)) H2b H1b) as (C & H2c & H1c).
    apply N.compare_eq in A. apply pair_cmp_eq in C. repeat split; auto.
    destruct (post w) as [pw|] eqn:Pw; [left; discriminate|]. right.
    unfold post_class in H1c. rewrite Pv, Pw in H1c. change (pair_cmp (0, 0) (0, 0)) with Eq in H1c. cbn [thenc] in H1c.
    unfold dev_class in H1c. rewrite Dv in H1c. destruct (dev w) as [[l n]|]; [discriminate H1c|].
    change (pair_cmp (1, 0) (1, 0)) with Eq in H1c. cbn [thenc] in H1c. split; [reflexivity|].
    intros Lw. rewrite Lw in H1c. destruct (local v); discriminate.
Qed.

(* ------------------------------------------------------------------ the local label decides last *)
Lemma local_last x y : same_release x y -> pre_class x = pre_class y -> post_class x = post_class y -> dev_class x = dev_class y ->
  pep440_cmp x y = local_cmp (local x) (local y).
Proof. intros S A B C. rewrite same_release_cmp by assumption. unfold suffix_cmp. now rewrite A, B, C, !pair_cmp_refl. Qed.
(* none < any *)
Lemma local_none_first l : local_cmp None (Some l) = Lt.                 Proof. reflexivity. Qed.
(* segment-wise: the first differing segment decides *)
Lemma seg_cmp_refl x : seg_cmp x x = Eq.                                 Proof. apply (ok_refl _ seg_cmp_ok). Qed.
Lemma local_first_diff p x y a b : seg_cmp x y <> Eq -> seg_lex (p ++ x :: a) (p ++ y :: b) = seg_cmp x y.
Proof.
  intros H. induction p as [|z p IH]; cbn [app seg_lex].
  - destruct (seg_cmp x y); [congruence|reflexivity|reflexivity].
  - now rewrite seg_cmp_refl.
Qed.
(* numeric above alphanumeric; numeric by value; alphanumeric lexically by code point *)
Lemma local_num_above_alnum s n : seg_cmp (inr s) (inl n) = Lt.          Proof. reflexivity. Qed.
Lemma local_num_by_value n m : seg_cmp (inl n) (inl m) = (n ?= m).       Proof. reflexivity. Qed.
Lemma local_alnum_lexical s t : seg_cmp (inr s) (inr t) = lexc N.compare s t.  Proof. apply str_cmp_lexc. Qed.
(* a proper prefix first *)
Lemma local_prefix_first l x m : seg_lex l (l ++ x :: m) = Lt.
Proof. induction l as [|z l IH]; cbn [app seg_lex]; [reflexivity|]. now rewrite seg_cmp_refl. Qed.

(* non-vacuity: 1.0a1.dev5 < 1.0a1 ; 1.0 < 1.0+a < 1.0.post0.dev1 < 1.0.post0 *)
Definition clauses_check : bool :=
  let v := V 0 [1;0] (Some (a_, 1)) None None None in
  let f := V 0 [1;0;0] None None None None in
  match pep440_cmp (with_dev v 5) v, pep440_cmp f (with_post f 0), pep440_cmp f (V 0 [1] None None None (Some [inr a_])),
        pep440_cmp (V 0 [1] None None None (Some [inr a_])) (with_dev (with_post f 0) 1), pep440_cmp (with_dev (with_post f 0) 1) (with_post f 0) with
  | Lt, Lt, Lt, Lt, Lt => true | _, _, _, _, _ => false end.
Example clauses_nonvacuous : clauses_check = true.
Proof. vm_compute. reflexivity. Qed.
Print Assumptions dev_just_below.
Print Assumptions post_just_above.
Print Assumptions padcmp_is_padded_lex.
