From Coq Require Import List NArith Bool Lia.
Import ListNotations.
Require Import Py S1.
Open Scope N_scope.

(* ---------- spec: PEP 440 order on structured versions ---------- *)
Definition thenc (c d : comparison) := match c with Eq => d | _ => c end.
Definition pair_cmp (x y : N * N) := thenc (fst x ?= fst y) (snd x ?= snd y).
Fixpoint str_eqb (a b : str) : bool :=
  match a, b with [], [] => true | x :: a', y :: b' => (x =? y) && str_eqb a' b' | _, _ => false end.
Definition letter_rank (l : str) : N := if str_eqb l a_ then 1 else if str_eqb l b_ then 2 else 3.
Definition pre_class (v : version) : N * N :=
  match pre v, post v, dev v with
  | None, None, Some _ => (0, 0)
  | None, _, _ => (4, 0)
  | Some (l, n), _, _ => (letter_rank l, n) end.
Definition post_class v := match post v with None => (0,0) | Some (_, n) => (1, n) end.
Definition dev_class v := match dev v with Some (_, n) => (0, n) | None => (1, 0) end.
Definition seg_cmp (x y : N + str) : comparison :=
  match x, y with
  | inl n, inl m => n ?= m | inr s, inr t => str_cmp s t
  | inr _, inl _ => Lt | inl _, inr _ => Gt end.
Fixpoint seg_lex (a b : list (N + str)) : comparison :=
  match a, b with [], [] => Eq | [], _ => Lt | _, [] => Gt
  | x :: a', y :: b' => thenc (seg_cmp x y) (seg_lex a' b') end.
Definition local_cmp (a b : option (list (N + str))) :=
  match a, b with None, None => Eq | None, Some _ => Lt | Some _, None => Gt | Some l, Some m => seg_lex l m end.
Definition pep440_cmp (a b : version) : comparison :=
  thenc (epoch a ?= epoch b)
 (thenc (padcmp (release a) (release b))
 (thenc (pair_cmp (pre_class a) (pre_class b))
 (thenc (pair_cmp (post_class a) (post_class b))
 (thenc (pair_cmp (dev_class a) (dev_class b))
        (local_cmp (local a) (local b)))))).

Definition wf_version (v : version) : Prop :=
  (match pre v with Some (l, _) => l = a_ \/ l = b_ \/ l = rc_ | None => True end) /\
  (match post v with Some (l, _) => l = post_ | None => True end) /\
  (match dev v with Some (l, _) => l = dev_ | None => True end).

(* ---------- agreement of Python rich comparison with a comparison value ---------- *)
Definition agrees (x y : pv) (c : comparison) := forall o, rich o x y = Some (of_cmp o c).
Definition wagrees (x y : pv) (c : comparison) :=
  rich Eq_ x y = Some (of_cmp Eq_ c) /\ (c <> Eq -> forall o, rich o x y = Some (of_cmp o c)).
Lemma agrees_w x y c : agrees x y c -> wagrees x y c.
Proof. intros H; split; [apply H | intros _; apply H]. Qed.

Lemma tup_unfold o x xs y ys :
  rich o (PTup (x :: xs)) (PTup (y :: ys)) =
  match rich Eq_ x y with
  | None => None
  | Some true => rich o (PTup xs) (PTup ys)
  | Some false => match o with Eq_ => Some false | Ne_ => Some true | _ => rich o x y end
  end.
Proof. reflexivity. Qed.

Lemma agrees_cons x y c xs ys d :
  wagrees x y c -> agrees (PTup xs) (PTup ys) d -> agrees (PTup (x :: xs)) (PTup (y :: ys)) (thenc c d).
Proof.
  intros [He Ho] Ht o. rewrite tup_unfold, He.
  destruct c; cbn [of_cmp thenc].
  - apply Ht.
  - destruct o; try reflexivity; apply Ho; discriminate.
  - destruct o; try reflexivity; apply Ho; discriminate.
Qed.
Lemma agrees_nil : agrees (PTup []) (PTup []) Eq.               Proof. intros o; reflexivity. Qed.
Lemma agrees_nil_l y ys : agrees (PTup []) (PTup (y :: ys)) Lt. Proof. intros o; reflexivity. Qed.
Lemma agrees_nil_r x xs : agrees (PTup (x :: xs)) (PTup []) Gt. Proof. intros o; reflexivity. Qed.
Lemma agrees_int a b : agrees (PInt a) (PInt b) (a ?= b).       Proof. intros o; reflexivity. Qed.
Lemma agrees_str a b : agrees (PStr a) (PStr b) (str_cmp a b).  Proof. intros o; reflexivity. Qed.

Lemma agrees_ints a : forall b, agrees (PTup (map PInt a)) (PTup (map PInt b)) (lex a b).
Proof.
  induction a as [|x a IH]; intros [|y b]; cbn [map lex].
  - apply agrees_nil. - apply agrees_nil_l. - apply agrees_nil_r.
  - replace (match x ?= y with Eq => lex a b | c => c end) with (thenc (x ?= y) (lex a b)) by (destruct (x ?= y); reflexivity).
    apply agrees_cons; [apply agrees_w, agrees_int | apply IH].
Qed.

Lemma thenc_eq_r c : thenc c Eq = c. Proof. destruct c; reflexivity. Qed.

Lemma agrees_pair (s t : str) (n m : N) :
  agrees (ptup2 (s, n)) (ptup2 (t, m)) (thenc (str_cmp s t) (n ?= m)).
Proof.
  unfold ptup2; cbn [fst snd].
  apply agrees_cons; [apply agrees_w, agrees_str|].
  rewrite <- (thenc_eq_r (n ?= m)). apply agrees_cons; [apply agrees_w, agrees_int | apply agrees_nil].
Qed.

Lemma str_cmp_refl s : str_cmp s s = Eq.
Proof. induction s; simpl; auto. now rewrite N.compare_refl. Qed.

(* pre component *)
Definition kpre v := match pre v, post v, dev v with
              | None, None, Some _ => PNegInf | None, _, _ => PPosInf | Some p, _, _ => ptup2 p end.
Definition kpost v := match post v with None => PNegInf | Some p => ptup2 p end.
Definition kdev v := match dev v with None => PPosInf | Some p => ptup2 p end.
Definition klocal v := match local v with
                | None => PNegInf
                | Some l => PTup (map (fun i => match i with
                                               | inl n => PTup [PInt n; PStr []]
                                               | inr s => PTup [PNegInf; PStr s] end) l) end.
Lemma key_eq v : key v = PTup [PInt (epoch v); PTup (map PInt (strip0 (release v))); kpre v; kpost v; kdev v; klocal v].
Proof. reflexivity. Qed.

Lemma letters_cmp l1 l2 : (l1 = a_ \/ l1 = b_ \/ l1 = rc_) -> (l2 = a_ \/ l2 = b_ \/ l2 = rc_) ->
  str_cmp l1 l2 = (letter_rank l1 ?= letter_rank l2).
Proof. intros [->|[->| ->]] [->|[->| ->]]; reflexivity. Qed.

Lemma wagrees_pre a b : wf_version a -> wf_version b -> wagrees (kpre a) (kpre b) (pair_cmp (pre_class a) (pre_class b)).
Proof.
  intros (Wa & _) (Wb & _). unfold kpre, pre_class.
  destruct (pre a) as [[l1 n1]|], (pre b) as [[l2 n2]|].
  - apply agrees_w. unfold pair_cmp; cbn [fst snd]. rewrite <- letters_cmp by assumption. apply agrees_pair.
  - assert (letter_rank l1 < 4) by (destruct Wa as [->|[->| ->]]; vm_compute; reflexivity).
    assert (E: pair_cmp (letter_rank l1, n1) (4,0) = Lt) by (unfold pair_cmp; cbn [fst snd]; rewrite (proj2 (N.compare_lt_iff _ _)) by assumption; reflexivity).
    assert (E0: pair_cmp (letter_rank l1, n1) (0,0) = Gt).
    { unfold pair_cmp; cbn [fst snd]. destruct Wa as [->|[->| ->]]; reflexivity. }
    destruct (post b), (dev b); rewrite ?E, ?E0; split; try reflexivity; intros _ o; destruct o; reflexivity.
  - assert (letter_rank l2 < 4) by (destruct Wb as [->|[->| ->]]; vm_compute; reflexivity).
    assert (E: pair_cmp (4,0) (letter_rank l2, n2) = Gt) by (unfold pair_cmp; cbn [fst snd]; rewrite (proj2 (N.compare_gt_iff _ _)) by assumption; reflexivity).
    assert (E0: pair_cmp (0,0) (letter_rank l2, n2) = Lt).
    { unfold pair_cmp; cbn [fst snd]. destruct Wb as [->|[->| ->]]; reflexivity. }
    destruct (post a), (dev a); rewrite ?E, ?E0; split; try reflexivity; intros _ o; destruct o; reflexivity.
  - destruct (post a), (dev a), (post b), (dev b); split; try reflexivity; intros Hc o; try (exfalso; apply Hc; reflexivity); destruct o; reflexivity.
Qed.

Lemma wagrees_post a b : wf_version a -> wf_version b -> wagrees (kpost a) (kpost b) (pair_cmp (post_class a) (post_class b)).
Proof.
  intros (_ & Wa & _) (_ & Wb & _). unfold kpost, post_class.
  destruct (post a) as [[l1 n1]|], (post b) as [[l2 n2]|]; subst.
  - apply agrees_w. unfold pair_cmp; cbn [fst snd]. replace (1 ?= 1) with (str_cmp post_ post_) by reflexivity. apply agrees_pair.
  - split; try reflexivity; intros _ o; destruct o; reflexivity.
  - split; try reflexivity; intros _ o; destruct o; reflexivity.
  - split; try reflexivity; intros Hc; exfalso; apply Hc; reflexivity.
Qed.

Lemma wagrees_dev a b : wf_version a -> wf_version b -> wagrees (kdev a) (kdev b) (pair_cmp (dev_class a) (dev_class b)).
Proof.
  intros (_ & _ & Wa) (_ & _ & Wb). unfold kdev, dev_class.
  destruct (dev a) as [[l1 n1]|], (dev b) as [[l2 n2]|]; subst.
  - apply agrees_w. unfold pair_cmp; cbn [fst snd]. replace (0 ?= 0) with (str_cmp dev_ dev_) by reflexivity. apply agrees_pair.
  - split; try reflexivity; intros _ o; destruct o; reflexivity.
  - split; try reflexivity; intros _ o; destruct o; reflexivity.
  - split; try reflexivity; intros Hc; exfalso; apply Hc; reflexivity.
Qed.

Definition kseg (i : N + str) := match i with inl n => PTup [PInt n; PStr []] | inr s => PTup [PNegInf; PStr s] end.
Lemma agrees_seg x y : agrees (kseg x) (kseg y) (seg_cmp x y).
Proof.
  destruct x as [n|s], y as [m|t]; cbn [kseg seg_cmp].
  - rewrite <- (thenc_eq_r (n ?= m)). apply agrees_cons; [apply agrees_w, agrees_int|].
    replace Eq with (thenc (str_cmp [] []) Eq) by reflexivity.
    apply agrees_cons; [apply agrees_w, agrees_str | apply agrees_nil].
  - intros o; destruct o; reflexivity.
  - intros o; destruct o; reflexivity.
  - replace (str_cmp s t) with (thenc Eq (thenc (str_cmp s t) Eq)) by (cbn; apply thenc_eq_r).
    apply agrees_cons; [split; [reflexivity| intros H; now elim H]|].
    apply agrees_cons; [apply agrees_w, agrees_str | apply agrees_nil].
Qed.
Lemma agrees_segs a : forall b, agrees (PTup (map kseg a)) (PTup (map kseg b)) (seg_lex a b).
Proof.
  induction a as [|x a IH]; intros [|y b]; cbn [map seg_lex].
  - apply agrees_nil. - apply agrees_nil_l. - apply agrees_nil_r.
  - apply agrees_cons; [apply agrees_w, agrees_seg | apply IH].
Qed.
Lemma wagrees_local a b : wagrees (klocal a) (klocal b) (local_cmp (local a) (local b)).
Proof.
  unfold klocal, local_cmp. destruct (local a) as [l|], (local b) as [m|].
  - apply agrees_w. apply agrees_segs.
  - split; try reflexivity; intros _ o; destruct o; reflexivity.
  - split; try reflexivity; intros _ o; destruct o; reflexivity.
  - split; try reflexivity; intros Hc; exfalso; apply Hc; reflexivity.
Qed.

Theorem C01_rich_is_pep440 a b : wf_version a -> wf_version b ->
  forall o, rich o (key a) (key b) = Some (of_cmp o (pep440_cmp a b)).
Proof.
  intros Wa Wb. rewrite !key_eq. unfold pep440_cmp.
  apply agrees_cons; [apply agrees_w, agrees_int|].
  apply agrees_cons. { apply agrees_w. rewrite <- strip_pad, <- !strip_eq. apply agrees_ints. }
  apply agrees_cons; [apply wagrees_pre; assumption|].
  apply agrees_cons; [apply wagrees_post; assumption|].
  apply agrees_cons; [apply wagrees_dev; assumption|].
  rewrite <- (thenc_eq_r (local_cmp _ _)).
  apply agrees_cons; [apply wagrees_local | apply agrees_nil].
Qed.
Print Assumptions C01_rich_is_pep440.
