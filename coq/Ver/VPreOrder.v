(* is_prerelease as an order fact.  Used by Properties/C02.v. *)
From Coq Require Import List Arith NArith Bool Lia.
Import ListNotations.
Require Import S1 VParse Py VMeaning VCmp SpecModel SpecOps Order VClauses.
Open Scope N_scope.

(* the version without its pre-release and dev segments (post-release number and local label kept) *)
Definition final_of (v : version) : version :=
  {| epoch := epoch v; release := release v; pre := None; post := post v; dev := None; local := local v |}.

Lemma letter_rank_lt4 l : (letter_rank l ?= 4) = Lt.
Proof. unfold letter_rank. destruct (VCmp.str_eqb l a_); [reflexivity|]. destruct (VCmp.str_eqb l b_); reflexivity. Qed.

(* is_prerelease is an order fact: v is a pre-release exactly when it sorts strictly below the version obtained by dropping its pre-release
   and dev segments, and it is that version otherwise (so 1.0.post1.dev2 IS a pre-release: it sorts below 1.0.post1) *)
Theorem prerelease_below_final v :
  pep440_cmp v (final_of v) = if is_prerelease v then Lt else Eq.
Proof.
  unfold is_prerelease. destruct (dev v) as [[dl dn]|] eqn:D; destruct (pre v) as [[l n]|] eqn:P.
  - unfold pep440_cmp. cbn [final_of epoch release]. rewrite N.compare_refl, padcmp_refl. cbn [thenc].
    unfold pre_class. cbn [final_of pre post dev]. rewrite P. destruct (post v); unfold pair_cmp; cbn [fst snd]; now rewrite letter_rank_lt4.
  - unfold pep440_cmp. cbn [final_of epoch release]. rewrite N.compare_refl, padcmp_refl. cbn [thenc].
    unfold pre_class, post_class, dev_class. cbn [final_of pre post dev]. rewrite P, D.
    destruct (post v) as [[pl pn]|]; unfold pair_cmp; cbn [fst snd]; [|reflexivity].
    rewrite !N.compare_refl. reflexivity.
  - unfold pep440_cmp. cbn [final_of epoch release]. rewrite N.compare_refl, padcmp_refl. cbn [thenc].
    unfold pre_class. cbn [final_of pre post dev]. rewrite P. destruct (post v); unfold pair_cmp; cbn [fst snd]; now rewrite letter_rank_lt4.
  - assert (E : final_of v = v) by (destruct v; cbn in D, P |- *; unfold final_of; cbn; now subst).
    rewrite E. apply (ok_refl _ pep440_cmp_ok).
Qed.
