(* Model definitions behind the version observations that are not part of Version() itself:
   is_devrelease / major / minor / micro, and sorted() (a stable sort that only ever asks `<`, as list.sort does).
   Definitions only (this file is extracted through Run/RunVersion.v); laws are in VSortLaws.v / VReading.v. *)
From Coq Require Import List NArith Bool.
Import ListNotations.
Require Import Py.
Open Scope N_scope.

Definition is_devrelease (v : version) : bool := match dev v with Some _ => true | None => false end.
(* major / minor / micro:  release[n] if len(release) > n else 0 *)
Definition rel_nth (n : nat) (v : version) : N := nth n (release v) 0.

(* sorted(): a stable sort that only ever asks `<` (list.sort uses __lt__) *)
Definition lt_v (x y : version) : bool := match rich Lt_ (key x) (key y) with Some true => true | _ => false end.
Fixpoint insert_v (x : version) (l : list version) : list version :=
  match l with [] => [x] | y :: t => if lt_v y x then y :: insert_v x t else x :: l end.
(* insertion from the right keeps equal elements in input order *)
Definition sort_v (l : list version) : list version := fold_right insert_v [] l.
Fixpoint all_some {A} (l : list (option A)) : option (list A) :=
  match l with [] => Some [] | Some a :: t => option_map (cons a) (all_some t) | None :: _ => None end.

(* structural equality of keys: hash(self._key) can only differ where this is false *)
Fixpoint pv_eqb (x y : pv) {struct x} : bool :=
  match x, y with
  | PInt a, PInt b => a =? b
  | PStr a, PStr b =>
      (fix go (a b : list N) {struct a} : bool :=
         match a, b with [], [] => true | c :: a', d :: b' => (c =? d) && go a' b' | _, _ => false end) a b
  | PTup a, PTup b =>
      (fix go (a b : list pv) {struct a} : bool :=
         match a, b with [], [] => true | x :: a', y :: b' => pv_eqb x y && go a' b' | _, _ => false end) a b
  | PNegInf, PNegInf => true
  | PPosInf, PPosInf => true
  | _, _ => false
  end.
