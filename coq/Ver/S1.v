From Coq Require Import List NArith Bool Lia.
Import ListNotations.
Open Scope N_scope.

Fixpoint lex (a b : list N) : comparison :=
  match a, b with
  | [], [] => Eq
  | [], _ :: _ => Lt
  | _ :: _, [] => Gt
  | x :: a', y :: b' => match x ?= y with Eq => lex a' b' | c => c end
  end.

Fixpoint dropwhile0 (l : list N) : list N :=
  match l with 0 :: t => dropwhile0 t | _ => l end.
Definition strip (l : list N) := rev (dropwhile0 (rev l)).

Fixpoint allz (l : list N) : bool := match l with [] => true | x :: t => (x =? 0) && allz t end.

(* spec: compare zero-padded to common length *)
Fixpoint padcmp (a b : list N) : comparison :=
  match a, b with
  | [], _ => if allz b then Eq else Lt
  | _, [] => if allz a then Eq else Gt
  | x :: a', y :: b' => match x ?= y with Eq => padcmp a' b' | c => c end
  end.

Fixpoint strip' (l : list N) : list N :=
  match l with [] => [] | x :: t => if allz l then [] else x :: strip' t end.

Lemma allz_app a b : allz (a ++ b) = allz a && allz b.
Proof. induction a; simpl; auto. rewrite IHa. now rewrite andb_assoc. Qed.

Lemma strip'_snoc l x : strip' (l ++ [x]) = if x =? 0 then strip' l else l ++ [x].
Proof.
  induction l as [|y l IH]; simpl.
  - destruct (x =? 0); reflexivity.
  - rewrite allz_app; simpl. rewrite IH. destruct (x =? 0) eqn:E; simpl.
    + now rewrite !andb_true_r.
    + rewrite !andb_false_r. reflexivity.
Qed.

Lemma strip_eq l : strip l = strip' l.
Proof.
  unfold strip. induction l as [|x l IH] using rev_ind; [reflexivity|].
  rewrite rev_app_distr; simpl. rewrite strip'_snoc.
  destruct x; simpl.
  - exact IH.
  - now rewrite rev_involutive.
Qed.

Lemma allz_strip' l : allz l = true -> strip' l = [].
Proof. destruct l; simpl; auto. intros ->. reflexivity. Qed.

Lemma lex_nil_r a : lex a [] = match a with [] => Eq | _ => Gt end.
Proof. destruct a; reflexivity. Qed.

Lemma strip'_nil l : strip' l = [] -> allz l = true.
Proof. destruct l; simpl; auto. destruct (_ && _) eqn:E; auto. discriminate. Qed.

Theorem strip_pad a : forall b, lex (strip' a) (strip' b) = padcmp a b.
Proof.
  induction a as [|x a IH]; intros b.
  - simpl. destruct (allz b) eqn:E. now rewrite allz_strip'. 
    destruct (strip' b) eqn:F; auto. apply strip'_nil in F. congruence.
  - destruct b as [|y b].
    + cbn [padcmp]. destruct (allz (x::a)) eqn:E. now rewrite allz_strip'.
      destruct (strip' (x::a)) eqn:F; auto. apply strip'_nil in F. congruence.
    + cbn [padcmp]. cbn [strip']. destruct (allz (x::a)) eqn:Ea, (allz (y::b)) eqn:Eb; cbn [allz] in *.
      * apply andb_prop in Ea as [Ex Ea], Eb as [Ey Eb]. apply N.eqb_eq in Ex, Ey. subst. simpl.
        rewrite <- IH. now rewrite !allz_strip'.
      * apply andb_prop in Ea as [Ex Ea]. apply N.eqb_eq in Ex; subst. cbn [lex].
        destruct y; simpl. rewrite <- IH. rewrite allz_strip' by auto. simpl in Eb.
        destruct (strip' b) eqn:F; auto. apply strip'_nil in F; congruence. reflexivity.
      * apply andb_prop in Eb as [Ey Eb]. apply N.eqb_eq in Ey; subst. cbn [lex].
        destruct x; simpl. rewrite <- IH. rewrite (allz_strip' b) by auto. simpl in Ea.
        destruct (strip' a) eqn:F; auto. apply strip'_nil in F; congruence. reflexivity.
      * cbn [lex]. rewrite IH. reflexivity.
Qed.
Print Assumptions strip_pad.
