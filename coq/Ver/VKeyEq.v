(* Versions that compare equal have structurally identical comparison keys, hence equal hashes (hash(self._key)). *)
From Coq Require Import List Arith NArith Bool Lia.
Import ListNotations.
Require Import S1 VParse VComplete VTop VTop2 VDec Py VMeaning VCanon VCanon2 VCanon3 VCmp SpecModel SpecOps Order Canon SpecEq VWf.
Open Scope N_scope.

Lemma padcmp_eq_strip a : forall b, padcmp a b = Eq -> strip' a = strip' b.
Proof. intros b H. rewrite <- strip_pad in H. now apply lex_eq. Qed.

Lemma key_of_equal a b : VMeaning.wf_version a -> VMeaning.wf_version b -> pep440_cmp a b = Eq -> key a = key b.
Proof.
  intros Wa Wb H. destruct (cmp_eq_components a b Wa Wb H) as (E1 & E2 & E3 & E4 & E5 & E6).
  unfold key. rewrite E1, E3, E4, E5, E6.
  change (strip0 (Py.release a)) with (strip (Py.release a)). change (strip0 (Py.release b)) with (strip (Py.release b)).
  rewrite !strip_eq. now rewrite (padcmp_eq_strip _ _ E2).
Qed.

Theorem Version_wf s v : Version s = Some v -> VMeaning.wf_version v.
Proof.
  unfold Version. destruct (parse_spelling s) as [sp|] eqn:E; [|discriminate]. intros [= <-].
  apply meaning_wf. now apply parse_spelling_sound in E.
Qed.
