(* C02: how the remaining components are read - the local label, major/minor/micro, is_devrelease - and uniqueness of the reading. *)
From Coq Require Import List Arith NArith Bool Lia.
Import ListNotations.
Require Import VParse VComplete VTop VTop2 VDec Py VMeaning VCanon VCanon2 VWf SpecModel VGnfParsed VObsModel.
Open Scope N_scope.
Arguments N.eqb : simpl never.
Arguments N.leb : simpl never.

(* the reading of one local segment: a digit run is its integer value (leading zeros dropped), anything else is the text lower-cased *)
Definition seg_reading (raw : str) (x : N + str) : Prop :=
  if forallb is_digit raw then x = inl (num raw) else x = inr (map lc raw).
Lemma m_seg_reading raw : forallb is_alnum_ci raw = true -> seg_reading raw (m_seg raw).
Proof. intros H. unfold seg_reading, m_seg. destruct (forallb is_digit raw); [reflexivity|]. now rewrite py_lower_lc. Qed.

(* the separators ('.', '-', '_') between the segments play no role: the label is the list of segment readings, in order *)
Theorem local_reading sp h t : wf_spelling sp -> sloc sp = Some (h, t) ->
  exists segs, Py.local (meaning sp) = Some segs /\ Forall2 seg_reading (h :: map snd t) segs.
Proof.
  intros (_ & _ & _ & _ & _ & _ & _ & _ & _ & Hloc) E. rewrite E in Hloc.
  exists (map m_seg (h :: map snd t)). split; [unfold meaning; cbn [Py.local]; rewrite E; reflexivity|].
  unfold wf_loc in Hloc; cbn [fst snd] in Hloc. apply andb_prop in Hloc as [H1 H2].
  cbn [map]. constructor.
  - apply m_seg_reading. unfold wf_alnum in H1. now apply andb_prop in H1 as [_ ?].
  - clear -H2. induction t as [|[c s] t IH]; cbn [map forallb fst snd] in *; constructor.
    + apply andb_prop in H2 as [A _]. apply andb_prop in A as [_ A]. unfold wf_alnum in A. apply andb_prop in A as [_ A].
      now apply m_seg_reading.
    + apply IH. now apply andb_prop in H2 as [_ ?].
Qed.
Lemma local_absent sp : sloc sp = None -> Py.local (meaning sp) = None.
Proof. intros E. unfold meaning; cbn [Py.local]. now rewrite E. Qed.

(* major / minor / micro: the first three release components, 0 where the release is shorter *)
Lemma major_reading sp : rel_nth 0 (meaning sp) = num (rel0 sp).
Proof. reflexivity. Qed.
Lemma minor_reading sp : rel_nth 1 (meaning sp) = match rels sp with d :: _ => num d | [] => 0 end.
Proof. unfold rel_nth, meaning; cbn [Py.release map nth]. destruct (rels sp); reflexivity. Qed.
Lemma micro_reading sp : rel_nth 2 (meaning sp) = match rels sp with _ :: d :: _ => num d | _ => 0 end.
Proof. unfold rel_nth, meaning; cbn [Py.release map nth]. destruct (rels sp) as [|a [|b l]]; reflexivity. Qed.
Lemma rel_nth_reading k sp : rel_nth k (meaning sp) = nth k (map num (rel0 sp :: rels sp)) 0.
Proof. reflexivity. Qed.
Lemma rel_nth_is_release k v : rel_nth k v = if (k <? length (release v))%nat then nth k (release v) 0 else 0.
Proof. unfold rel_nth. destruct (Nat.ltb_spec k (length (release v))); [reflexivity | now apply nth_overflow]. Qed.
Lemma devrelease_reading sp : is_devrelease (meaning sp) = true <-> sdev sp <> None.
Proof. unfold is_devrelease, meaning; cbn [Py.dev]. destruct (sdev sp); cbn [option_map]; split; congruence. Qed.

(* the reading of an accepted string is THE greedy-normal-form tree of that string *)
Theorem reading_unique s v : Version s = Some v ->
  exists sp, gnf sp = true /\ render sp = s /\ wf_spelling sp /\ v = meaning sp /\
             forall sp', gnf sp' = true -> render sp' = s -> sp' = sp.
Proof.
  unfold Version. destruct (parse_spelling s) as [sp|] eqn:E; [|discriminate]. intros [= <-].
  exists sp. destruct (gnf_reading_unique s sp E) as (G & R & U). destruct (parse_spelling_sound s sp E) as [_ W]. auto.
Qed.
Print Assumptions reading_unique.
Print Assumptions local_reading.
