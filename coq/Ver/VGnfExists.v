(* C12, completeness of the version scanner on the whole PEP 440 language:
   every rendering of a well-formed spelling is accepted by the greedy scanner (which may choose another tree).
   Route: suffix languages L_loc, L_dev, L_post, L_pre ("a rendering of the remaining optional components");
   each optional scanner applied to a string of L_k succeeds or declines and leaves a string of L_{k+1}. *)
From Coq Require Import List Arith NArith Bool Lia.
Import ListNotations.
Require Import VParse VComplete VTop VTop2.
Open Scope N_scope.
Arguments N.eqb : simpl never.
Arguments N.leb : simpl never.

(* ---------------- character facts ---------------- *)
(* reduce comparisons between closed numerals *)
Ltac eqb_lit := repeat match goal with |- context [N.eqb ?a ?b] =>
    let v := eval vm_compute in (N.eqb a b) in
    match v with true => change (N.eqb a b) with true | false => change (N.eqb a b) with false end end;
  cbn [andb orb negb].
Ltac chr := unfold is_alnum_ci, is_digit, is_sep, is_lower, lc in *;
  repeat (match goal with
    | H : context [N.leb ?a ?b] |- _ => destruct (N.leb_spec a b)
    | H : context [N.eqb ?a ?b] |- _ => destruct (N.eqb_spec a b)
    | |- context [N.leb ?a ?b] => destruct (N.leb_spec a b)
    | |- context [N.eqb ?a ?b] => destruct (N.eqb_spec a b)
    end; cbn [andb orb negb] in *; try discriminate; try lia); try reflexivity; try lia.

Definition nl (c : char) : bool := negb (is_lower (lc c)).            (* not a letter *)
Definition dpr (k : char) : bool := (k =? 100) || (k =? 112) || (k =? 114).
Definition fol (c : char) : bool := nl c || dpr (lc c).   (* not a letter, or d / p / r *)
Definition hdA (q : char -> bool) (s : str) : bool := match s with [] => true | c :: _ => q c end.

Lemma ws_cases c : is_ws c = true -> In c ws_table.
Proof. unfold is_ws. intros H. apply existsb_exists in H as (x & Hx & E). apply N.eqb_eq in E. now subst. Qed.
Lemma ws_facts c : is_ws c = true ->
  is_alnum_ci c = false /\ is_sep c = false /\ (c =? 43) = false /\ (c =? 45) = false /\ (c =? 33) = false.
Proof.
  intros H. apply ws_cases in H. cbn [In ws_table] in H.
  repeat (destruct H as [<-|H]; [vm_compute; repeat split|]). destruct H.
Qed.
Lemma alnum_not_ws c : is_alnum_ci c = true -> is_ws c = false.
Proof. intros H. destruct (is_ws c) eqn:E; auto. apply ws_facts in E as (E & _). congruence. Qed.
Lemma nalnum_nl c : is_alnum_ci c = false -> nl c = true /\ is_digit c = false.
Proof. unfold is_alnum_ci, nl. intros H. apply orb_false_iff in H as [-> ->]. auto. Qed.
Lemma sep_facts c : is_sep c = true -> nl c = true /\ is_digit c = false /\ (c =? 33) = false /\ is_alnum_ci c = false.
Proof. unfold nl. intros H. repeat split; chr. Qed.
Lemma digit_facts c : is_digit c = true -> nl c = true /\ is_sep c = false /\ (lc c =? 118) = false /\ (c =? 33) = false.
Proof. unfold nl. intros H. repeat split; chr. Qed.
Lemma letter_facts c : is_lower (lc c) = true ->
  is_digit c = false /\ is_sep c = false /\ (c =? 33) = false /\ (c =? 45) = false /\ (c =? 46) = false.
Proof. intros H. repeat split; chr. Qed.
Lemma nl_ne c k : nl c = true -> is_lower k = true -> (lc c =? k) = false.
Proof. unfold nl. intros H Hk. apply N.eqb_neq. intros E. rewrite E, Hk in H. discriminate. Qed.
Lemma nl_fol c : nl c = true -> fol c = true.
Proof. unfold fol. now intros ->. Qed.
Lemma fol_ne c k : fol c = true -> is_lower k = true -> k <> 100 -> k <> 112 -> k <> 114 -> (lc c =? k) = false.
Proof.
  unfold fol, dpr. intros H Hk K1 K2 K3. apply orb_prop in H as [H|H]; [|apply orb_prop in H as [H|H]; [apply orb_prop in H as [H|H]|]].
  - now apply nl_ne.
  - apply N.eqb_eq in H. rewrite H. apply N.eqb_neq. congruence.
  - apply N.eqb_eq in H. rewrite H. apply N.eqb_neq. congruence.
  - apply N.eqb_eq in H. rewrite H. apply N.eqb_neq. congruence.
Qed.
Lemma hdA_hd q s : hdA (fun c => negb (q c)) s = true -> hd_is q s = false.
Proof. destruct s; cbn; auto. apply negb_true_iff. Qed.

(* ---------------- the word alternations ---------------- *)
(* the (case-folded) character after a word is none of l e v c: what follows a pre/post/dev word in the language
   is a separator, a digit, '-', '+', whitespace, or the first letter (p, r, d) of a later word *)
Definition nolevc (T : str) : bool :=
  match T with [] => true | y :: _ => negb ((y =? 108) || (y =? 101) || (y =? 118) || (y =? 99)) end.
Definition nomatch (T : str) (ws : list str) : bool := forallb (fun w => negb (prefixb w T)) ws.

Lemma first_word_none ws : forall t, nomatch (map lc t) ws = true -> first_word ws t = None.
Proof.
  induction ws as [|w ws IH]; intros t; cbn [nomatch forallb first_word]; auto.
  intros H. apply andb_prop in H as [H1 H2]. apply negb_true_iff in H1.
  rewrite match_word_spec, H1. now apply IH.
Qed.
Lemma first_word_pick ws1 : forall W ws2 w rest, map lc w = W -> nomatch (W ++ map lc rest) ws1 = true ->
  first_word (ws1 ++ W :: ws2) (w ++ rest) = Some (w, rest).
Proof.
  induction ws1 as [|w1 ws1 IH]; intros W ws2 w rest E; cbn [nomatch forallb first_word app].
  - intros _. subst W. now rewrite match_word_complete.
  - intros H. apply andb_prop in H as [H1 H2]. apply negb_true_iff in H1.
    rewrite match_word_spec, map_app, E, H1. now apply IH.
Qed.

Ltac words_unf := unfold nomatch, pre_words, post_words, dev_words, w_alpha, w_a, w_beta, w_b, w_preview, w_pre, w_c, w_rc,
  w_post, w_rev, w_r, w_dev; cbn [forallb app prefixb].
Ltac nolevc_tac T H := destruct T as [|y T]; [words_unf; eqb_lit; reflexivity|];
  cbn [nolevc] in H; apply negb_true_iff in H; apply orb_false_iff in H as [H ?]; apply orb_false_iff in H as [H ?];
  apply orb_false_iff in H as [H ?]; words_unf; eqb_lit;
  repeat match goal with E : (y =? _) = false |- _ => rewrite E; clear E end; cbn [andb orb negb]; try reflexivity.

Lemma pre_split W T : In W pre_words -> nolevc T = true ->
  exists ws1 ws2, pre_words = ws1 ++ W :: ws2 /\ nomatch (W ++ T) ws1 = true.
Proof.
  intros Hin H. cbn [pre_words In] in Hin.
  destruct Hin as [<-|[<-|[<-|[<-|[<-|[<-|[<-|[<-|[]]]]]]]]].
  - exists [], [w_a; w_beta; w_b; w_preview; w_pre; w_c; w_rc]. split; reflexivity.
  - exists [w_alpha], [w_beta; w_b; w_preview; w_pre; w_c; w_rc]. split; [reflexivity|]. nolevc_tac T H.
  - exists [w_alpha; w_a], [w_b; w_preview; w_pre; w_c; w_rc]. split; [reflexivity|]. words_unf; eqb_lit; reflexivity.
  - exists [w_alpha; w_a; w_beta], [w_preview; w_pre; w_c; w_rc]. split; [reflexivity|]. nolevc_tac T H.
  - exists [w_alpha; w_a; w_beta; w_b], [w_pre; w_c; w_rc]. split; [reflexivity|]. words_unf; eqb_lit; reflexivity.
  - exists [w_alpha; w_a; w_beta; w_b; w_preview], [w_c; w_rc]. split; [reflexivity|]. nolevc_tac T H.
  - exists [w_alpha; w_a; w_beta; w_b; w_preview; w_pre], [w_rc]. split; [reflexivity|]. words_unf; eqb_lit; reflexivity.
  - exists [w_alpha; w_a; w_beta; w_b; w_preview; w_pre; w_c], []. split; [reflexivity|]. words_unf; eqb_lit; reflexivity.
Qed.
Lemma post_split W T : In W post_words -> nolevc T = true ->
  exists ws1 ws2, post_words = ws1 ++ W :: ws2 /\ nomatch (W ++ T) ws1 = true.
Proof.
  intros Hin H. cbn [post_words In] in Hin. destruct Hin as [<-|[<-|[<-|[]]]].
  - exists [], [w_rev; w_r]. split; reflexivity.
  - exists [w_post], [w_r]. split; [reflexivity|]. words_unf; eqb_lit; reflexivity.
  - exists [w_post; w_rev], []. split; [reflexivity|]. nolevc_tac T H.
Qed.
Lemma dev_split W (T : str) : In W dev_words -> nolevc T = true ->
  exists ws1 ws2, dev_words = ws1 ++ W :: ws2 /\ nomatch (W ++ T) ws1 = true.
Proof. intros Hin _. cbn [dev_words In] in Hin. destruct Hin as [<-|[]]. exists [], []. split; reflexivity. Qed.

(* a later component's word is never taken for an earlier component's word *)
Lemma post_not_pre W T : In W post_words -> nolevc T = true -> nomatch (W ++ T) pre_words = true.
Proof.
  intros Hin H. cbn [post_words In] in Hin. destruct Hin as [<-|[<-|[<-|[]]]].
  - words_unf; eqb_lit; reflexivity.
  - words_unf; eqb_lit; reflexivity.
  - nolevc_tac T H.
Qed.
Lemma dev_not_pre W T : In W dev_words -> nomatch (W ++ T) pre_words = true.
Proof. intros Hin. cbn [dev_words In] in Hin. destruct Hin as [<-|[]]. words_unf; eqb_lit; reflexivity. Qed.
Lemma dev_not_post W T : In W dev_words -> nomatch (W ++ T) post_words = true.
Proof. intros Hin. cbn [dev_words In] in Hin. destruct Hin as [<-|[]]. words_unf; eqb_lit; reflexivity. Qed.
(* no word starts at a non-letter *)
Lemma nl_nomatch ws t : forallb (hd_is is_lower) ws = true -> hdA nl t = true -> nomatch (map lc t) ws = true.
Proof.
  intros Hw Ht. unfold nomatch. apply forallb_forall. intros w Hin. rewrite forallb_forall in Hw. specialize (Hw w Hin).
  destruct w as [|k w]; [discriminate|]. cbn [hd_is] in Hw. destruct t as [|c t]; cbn [map prefixb]; auto.
  cbn [hdA] in Ht. now rewrite (nl_ne c k Ht Hw).
Qed.
Lemma fol_nolevc X : hdA fol X = true -> nolevc (map lc X) = true.
Proof.
  destruct X as [|c X]; cbn [hdA map nolevc]; auto. intros H.
  rewrite !(fol_ne c _ H) by (reflexivity || (intro; discriminate)). reflexivity.
Qed.

(* ---------------- heads ---------------- *)
Definition h_loc (c : char) : bool := (c =? 43) || is_ws c.
Lemma h_loc_facts c : h_loc c = true ->
  nl c = true /\ is_digit c = false /\ is_sep c = false /\ (c =? 45) = false /\ (c =? 33) = false /\ is_alnum_ci c = false.
Proof.
  unfold h_loc. intros H. apply orb_prop in H as [H|H].
  - apply N.eqb_eq in H. subst c. vm_compute. repeat split.
  - apply ws_facts in H as (A & B & C & D & E). destruct (nalnum_nl c A) as [F G]. repeat split; auto.
Qed.
Lemma sep_46 c : is_sep c = false -> (c =? 46) = false /\ (c =? 45) = false.
Proof. unfold is_sep. intros H. apply orb_false_iff in H as [H _]. apply orb_false_iff in H as [H1 H2]. auto. Qed.

Lemma hd2_false1 c0 p s : hd_is (N.eqb c0) s = false -> hd2_is c0 p s = false.
Proof. destruct s as [|c t]; cbn [hd_is hd2_is]; auto. rewrite N.eqb_sym. now intros ->. Qed.

(* ---------------- letter-version components in context ---------------- *)
Definition ok_sep (o : option char) : Prop := match o with Some c => is_sep c = true | None => True end.
Lemma word_hd words w : forallb (hd_is is_lower) words = true -> In (map lc w) words ->
  exists c w', w = c :: w' /\ is_lower (lc c) = true.
Proof.
  intros Hw Hin. rewrite forallb_forall in Hw. specialize (Hw _ Hin). destruct w as [|c w']; [discriminate|].
  cbn [map hd_is] in Hw. eauto.
Qed.
Lemma opt_sep_word s1 c X : ok_sep s1 -> is_lower (lc c) = true -> opt_sep (r_osep s1 ++ c :: X) = (s1, c :: X).
Proof.
  intros H1 Hc. apply opt_sep_complete. destruct s1; auto. cbn [hd_is]. now apply letter_facts in Hc as (_ & ? & _).
Qed.
Lemma span_letter c X : is_lower (lc c) = true -> span is_digit (c :: X) = ([], c :: X).
Proof. intros Hc. apply letter_facts in Hc as (Hd & _). cbn [span]. now rewrite Hd. Qed.

Section LV.
Variable words : list str.
Hypothesis W_low : forallb (hd_is is_lower) words = true.

Lemma lv_steal l t o t1 n t2 : wf_lv words l -> opt_sep (r_lv l ++ t) = (o, t1) -> span is_digit t1 = (n, t2) ->
  exists l', wf_lv words l' /\ t2 = r_lv l' ++ t.
Proof.
  destruct l as [s1 w s2 num]. unfold wf_lv, r_lv; cbn [l_sep1 l_word l_sep2 l_num]. intros (Hin & Hn & H1 & H2).
  destruct (word_hd _ _ W_low Hin) as (c & w' & -> & Hc). rewrite <- !app_assoc. cbn [app].
  rewrite opt_sep_word by assumption. intros [= <- <-]. rewrite span_letter by assumption. intros [= <- <-].
  exists {| l_sep1 := None; l_word := c :: w'; l_sep2 := s2; l_num := num |}. cbn [l_sep1 l_word l_sep2 l_num r_osep app].
  rewrite <- !app_assoc. repeat split; auto.
Qed.
Lemma opt_sep_lv l t : wf_lv words l ->
  opt_sep (r_lv l ++ t) = (l_sep1 l, l_word l ++ r_osep (l_sep2 l) ++ l_num l ++ t).
Proof.
  destruct l as [s1 w s2 num]. unfold wf_lv, r_lv; cbn [l_sep1 l_word l_sep2 l_num]. intros (Hin & Hn & H1 & H2).
  destruct (word_hd _ _ W_low Hin) as (c & w' & -> & Hc). rewrite <- !app_assoc. cbn [app].
  now rewrite opt_sep_word.
Qed.
Lemma lv_heads l t : wf_lv words l ->
  hd_is is_digit (r_lv l ++ t) = false /\ hd_is (N.eqb 33) (r_lv l ++ t) = false /\
  (forall c0, is_sep c0 = true -> hd2_is c0 is_digit (r_lv l ++ t) = false).
Proof.
  destruct l as [s1 w s2 num]. unfold wf_lv, r_lv; cbn [l_sep1 l_word l_sep2 l_num]. intros (Hin & Hn & H1 & H2).
  destruct (word_hd _ _ W_low Hin) as (c & w' & -> & Hc). rewrite <- !app_assoc. cbn [app].
  apply letter_facts in Hc as (A & B & C & D & E).
  destruct s1 as [s|]; cbn [r_osep app hd_is hd2_is].
  - apply sep_facts in H1 as (F & G & I & J). rewrite (N.eqb_sym 33 s), I, G, A. repeat split; auto. intros c0 _. apply andb_false_r.
  - rewrite (N.eqb_sym 33 c), A, C. repeat split; auto. intros c0 H0.
    destruct (N.eqb_spec c c0) as [->|]; auto. congruence.
Qed.
(* the head of a component whose words start with d, p or r *)
Lemma lv_fol l t : forallb (hd_is dpr) words = true -> wf_lv words l -> hdA fol (r_lv l ++ t) = true.
Proof.
  intros Wd. destruct l as [s1 w s2 num]. unfold wf_lv, r_lv; cbn [l_sep1 l_word l_sep2 l_num]. intros (Hin & Hn & H1 & H2).
  rewrite forallb_forall in Wd. specialize (Wd _ Hin).
  destruct s1 as [s|]; cbn [r_osep app hdA].
  - apply sep_facts in H1 as (F & _). now apply nl_fol.
  - destruct w as [|c w']; [discriminate|]. cbn [map hd_is app hdA] in *. unfold fol. rewrite Wd. apply orb_true_r.
Qed.

(* what follows the word: optional separator, optional digits, then a string of the next language *)
Variable L : str -> Prop.
Hypothesis L_fol : forall t, L t -> hdA fol t = true.
Hypothesis L_nd : forall t, L t -> hd_is is_digit t = false.
Hypothesis L_steal : forall t o t1 n t2, L t -> opt_sep t = (o, t1) -> span is_digit t1 = (n, t2) -> L t2.
Hypothesis W_split : forall W T, In W words -> nolevc T = true ->
  exists ws1 ws2, words = ws1 ++ W :: ws2 /\ nomatch (W ++ T) ws1 = true.

Lemma after_word_fol s2 n t : ok_sep s2 -> forallb is_digit n = true -> L t -> hdA fol (r_osep s2 ++ n ++ t) = true.
Proof.
  intros H2 Hn Ht. destruct s2 as [s|]; cbn [r_osep app hdA].
  - apply sep_facts in H2 as (F & _). now apply nl_fol.
  - destruct n as [|d n]; cbn [app hdA]; [now apply L_fol|].
    cbn [forallb] in Hn. apply andb_prop in Hn as [Hd _]. apply digit_facts in Hd as (F & _). now apply nl_fol.
Qed.
Lemma after_word_steal s2 n t o t1 m t2 : ok_sep s2 -> forallb is_digit n = true -> L t ->
  opt_sep (r_osep s2 ++ n ++ t) = (o, t1) -> span is_digit t1 = (m, t2) -> L t2.
Proof.
  intros H2 Hn Ht. pose proof (L_nd _ Ht) as Hd.
  destruct s2 as [s|]; cbn [r_osep app].
  - rewrite opt_sep_some by assumption. intros [= <- <-]. rewrite span_complete by assumption. now intros [= <- <-].
  - destruct n as [|d n]; cbn [app]; [now apply L_steal|].
    pose proof Hn as Hn'. cbn [forallb] in Hn'. apply andb_prop in Hn' as [Hd0 _]. apply digit_facts in Hd0 as (_ & S & _).
    rewrite opt_sep_none by (cbn [hd_is]; assumption). intros [= <- <-].
    change (d :: n ++ t) with ((d :: n) ++ t). rewrite span_complete by assumption. now intros [= <- <-].
Qed.

Lemma p_lv_lang l t : wf_lv words l -> L t -> exists a s', p_lv words (r_lv l ++ t) = Some (a, s') /\ L s'.
Proof.
  destruct l as [s1 w s2 num]. unfold wf_lv, r_lv; cbn [l_sep1 l_word l_sep2 l_num]. intros (Hin & Hn & H1 & H2) Ht.
  destruct (word_hd _ _ W_low Hin) as (c & w' & E & Hc). rewrite <- !app_assoc. unfold p_lv.
  subst w. cbn [app]. rewrite opt_sep_word by assumption.
  change (c :: w' ++ r_osep s2 ++ num ++ t) with ((c :: w') ++ r_osep s2 ++ num ++ t).
  destruct (W_split _ (map lc (r_osep s2 ++ num ++ t)) Hin) as (ws1 & ws2 & Ew & Hno).
  { apply fol_nolevc. now apply after_word_fol. }
  pose proof (first_word_pick ws1 _ ws2 (c :: w') _ eq_refl Hno) as P. rewrite <- Ew in P. rewrite P.
  destruct (opt_sep (r_osep s2 ++ num ++ t)) as [o t1] eqn:E1. destruct (span is_digit t1) as [m t2] eqn:E2.
  eexists _, _. split; [reflexivity|]. eapply after_word_steal; eauto.
Qed.

(* when the component is absent, the scanner declines on a string that starts like the next language *)
Lemma p_lv_none t : (forall o t1, opt_sep t = (o, t1) -> nomatch (map lc t1) words = true) -> p_lv words t = None.
Proof.
  intros H. unfold p_lv. destruct (opt_sep t) as [o t1] eqn:E. now rewrite (first_word_none _ _ (H _ _ eq_refl)).
Qed.
End LV.

(* ---------------- the suffix languages ---------------- *)
Definition ok_o {A} (W : A -> Prop) (o : option A) : Prop := match o with Some a => W a | None => True end.

Lemma hdA_imp (q q' : char -> bool) s : (forall c, q c = true -> q' c = true) -> hdA q s = true -> hdA q' s = true.
Proof. destruct s; cbn; auto. Qed.
Lemma hdA_false (q q' : char -> bool) s : (forall c, q c = true -> q' c = false) -> hdA q s = true -> hd_is q' s = false.
Proof. destruct s; cbn; auto. Qed.
Lemma nosteal t o t1 n t2 : hd_is is_sep t = false -> hd_is is_digit t = false ->
  opt_sep t = (o, t1) -> span is_digit t1 = (n, t2) -> t1 = t /\ t2 = t.
Proof. intros Hs Hd. rewrite opt_sep_none by assumption. intros [= <- <-]. rewrite span_none by assumption. now intros [= <- <-]. Qed.
Lemma dev_low : forallb (hd_is is_lower) dev_words = true.   Proof. reflexivity. Qed.
Lemma post_low : forallb (hd_is is_lower) post_words = true. Proof. reflexivity. Qed.
Lemma pre_low : forallb (hd_is is_lower) pre_words = true.   Proof. reflexivity. Qed.

(* first characters of the strings of the base language, L_dev, L_post *)
Definition heads (t : str) : Prop :=
  hdA fol t = true /\ hd_is is_digit t = false /\ hd_is (N.eqb 33) t = false /\ hd2_is 46 is_digit t = false.

(* B is the language of what may follow the dev component: for Version it is  local? whitespace  (L_loc below), for
   specifier operators that take no local version it is whitespace only.  All that matters is how its strings start:
   with '+', with whitespace, or not at all. *)
Section Base.
Variable B : str -> Prop.
Hypothesis B_hd : forall t, B t -> hdA h_loc t = true.

Definition L_dev (s : str) : Prop := exists dv t, ok_o (wf_lv dev_words) dv /\ B t /\ s = r_opt r_lv dv ++ t.
Definition L_post (s : str) : Prop := exists po t, ok_o wf_post po /\ L_dev t /\ s = r_opt r_post po ++ t.
Definition L_pre (s : str) : Prop := exists pr t, ok_o (wf_lv pre_words) pr /\ L_post t /\ s = r_opt r_lv pr ++ t.

Lemma loc_dev t : B t -> L_dev t.   Proof. intros H. exists None, t. cbn. auto. Qed.
Lemma dev_post t : L_dev t -> L_post t. Proof. intros H. exists None, t. cbn. auto. Qed.
Lemma post_pre t : L_post t -> L_pre t. Proof. intros H. exists None, t. cbn. auto. Qed.

Lemma B_nl t : B t -> hdA nl t = true.
Proof. intros H. apply B_hd in H. revert H. apply hdA_imp. intros c H. now apply h_loc_facts in H. Qed.
Lemma B_nsep t : B t -> hd_is is_sep t = false.
Proof. intros H. apply B_hd in H. revert H. apply hdA_false. intros c H. now apply h_loc_facts in H. Qed.
Lemma B_heads t : B t -> heads t /\ hd2_is 45 is_digit t = false.
Proof.
  intros H. pose proof (B_nl _ H) as Hn. pose proof (B_nsep _ H) as Hs. apply B_hd in H.
  repeat split.
  - revert Hn. apply hdA_imp, nl_fol.
  - revert H. apply hdA_false. intros c H. now apply h_loc_facts in H.
  - revert H. apply hdA_false. intros c H. apply h_loc_facts in H as (_ & _ & _ & _ & E & _). now rewrite N.eqb_sym.
  - apply hd2_false1. revert H. apply hdA_false. intros c H. apply h_loc_facts in H as (_ & _ & E & _). apply sep_46 in E as [E _]. now rewrite N.eqb_sym.
  - apply hd2_false1. revert H. apply hdA_false. intros c H. apply h_loc_facts in H as (_ & _ & E & _). apply sep_46 in E as [_ E]. now rewrite N.eqb_sym.
Qed.
Lemma B_steal t o t1 n t2 : B t -> opt_sep t = (o, t1) -> span is_digit t1 = (n, t2) -> B t2.
Proof.
  intros H E1 E2. destruct (nosteal _ _ _ _ _ (B_nsep _ H) (proj1 (proj2 (proj1 (B_heads _ H)))) E1 E2) as [_ ->]. exact H.
Qed.
Lemma B_nomatch ws t o t1 : forallb (hd_is is_lower) ws = true -> B t -> opt_sep t = (o, t1) -> nomatch (map lc t1) ws = true.
Proof.
  intros Hw H. rewrite opt_sep_none by now apply B_nsep. intros [= <- <-]. apply nl_nomatch; auto. now apply B_nl.
Qed.

Lemma L_dev_heads t : L_dev t -> heads t /\ hd2_is 45 is_digit t = false.
Proof.
  intros (dv & t' & Hdv & Ht & ->). destruct dv as [l|]; cbn [r_opt ok_o app] in *; [|now apply B_heads].
  destruct (lv_heads _ dev_low l t' Hdv) as (A & B0 & C). repeat split; auto.
  apply (lv_fol dev_words); auto.
Qed.
Lemma L_dev_steal t o t1 n t2 : L_dev t -> opt_sep t = (o, t1) -> span is_digit t1 = (n, t2) -> L_dev t2.
Proof.
  intros (dv & t' & Hdv & Ht & ->). destruct dv as [l|]; cbn [r_opt ok_o app] in *.
  - intros E1 E2. destruct (lv_steal _ dev_low _ _ _ _ _ _ Hdv E1 E2) as (l' & Hl' & ->). exists (Some l'), t'. cbn. auto.
  - intros E1 E2. apply loc_dev. eapply B_steal; eauto.
Qed.
Lemma L_dev_nomatch ws t o t1 : forallb (hd_is is_lower) ws = true -> (forall W T, In W dev_words -> nomatch (W ++ T) ws = true) ->
  L_dev t -> opt_sep t = (o, t1) -> nomatch (map lc t1) ws = true.
Proof.
  intros Hw Hd (dv & t' & Hdv & Ht & ->). destruct dv as [l|]; cbn [r_opt ok_o app] in *.
  - rewrite (opt_sep_lv _ dev_low) by assumption. intros [= <- <-]. rewrite map_app. apply Hd. apply Hdv.
  - now apply B_nomatch.
Qed.

Lemma L_post_heads t : L_post t -> heads t.
Proof.
  intros (po & t' & Hpo & Ht & ->). destruct po as [[d|l]|]; cbn [r_opt r_post ok_o wf_post app] in *.
  - repeat split; reflexivity.
  - destruct (lv_heads _ post_low l t' Hpo) as (A & B0 & C). repeat split; auto. apply (lv_fol post_words); auto.
  - now apply L_dev_heads.
Qed.
Lemma L_post_steal t o t1 n t2 : L_post t -> opt_sep t = (o, t1) -> span is_digit t1 = (n, t2) -> L_post t2.
Proof.
  intros (po & t' & Hpo & Ht & ->). destruct po as [[d|l]|]; cbn [r_opt r_post ok_o wf_post app] in *.
  - rewrite opt_sep_some by reflexivity. intros [= <- <-]. unfold wf_digits in Hpo. apply andb_prop in Hpo as [_ Hd].
    rewrite span_complete by (auto; apply L_dev_heads; auto). intros [= <- <-]. now apply dev_post.
  - intros E1 E2. destruct (lv_steal _ post_low _ _ _ _ _ _ Hpo E1 E2) as (l' & Hl' & ->). exists (Some (PostWord l')), t'. cbn. auto.
  - intros E1 E2. apply dev_post. eapply L_dev_steal; eauto.
Qed.

(* ---------------- each optional scanner maps its language into the next one ---------------- *)
Lemma stage_dev s : L_dev s -> exists dv s', p_opt (p_lv dev_words) s = (dv, s') /\ B s'.
Proof.
  intros (dv & t & Hdv & Ht & ->). unfold p_opt. destruct dv as [l|]; cbn [r_opt ok_o app] in *.
  - destruct (p_lv_lang dev_words dev_low B) with (l := l) (t := t) as (a & s' & E & Hs'); auto.
    + intros t0 H. now apply B_heads in H as [(? & _) _].
    + intros t0 H. now apply B_heads in H as [(_ & ? & _) _].
    + apply B_steal.
    + apply dev_split.
    + rewrite E. eauto.
  - rewrite (p_lv_none dev_words t).
    + eauto.
    + intros o t1. apply B_nomatch; auto.
Qed.

Lemma stage_post s : L_post s -> exists po s', p_opt p_post s = (po, s') /\ L_dev s'.
Proof.
  intros (po & t & Hpo & Ht & ->). unfold p_opt. destruct po as [[d|l]|]; cbn [r_opt r_post ok_o wf_post app] in *.
  - change (45 :: d ++ t) with (r_post (PostImplicit d) ++ t). rewrite p_post_complete.
    + eauto.
    + cbn [gnf_post]. rewrite Hpo. apply L_dev_heads in Ht as [(_ & -> & _) _]. reflexivity.
  - unfold p_post. destruct (lv_heads _ post_low l t Hpo) as (_ & _ & C). rewrite (C 45 eq_refl).
    destruct (p_lv_lang post_words post_low L_dev) with (l := l) (t := t) as (a & s' & E & Hs'); auto.
    + intros t0 H. now apply L_dev_heads in H as [(? & _) _].
    + intros t0 H. now apply L_dev_heads in H as [(_ & ? & _) _].
    + apply L_dev_steal.
    + apply post_split.
    + rewrite E. eauto.
  - unfold p_post. apply L_dev_heads in Ht as Hh. destruct Hh as [_ ->].
    rewrite (p_lv_none post_words t).
    + eauto.
    + intros o t1. apply L_dev_nomatch; auto. intros W T. apply dev_not_post.
Qed.

Lemma L_post_nomatch t o t1 : L_post t -> opt_sep t = (o, t1) -> nomatch (map lc t1) pre_words = true.
Proof.
  intros (po & t' & Hpo & Ht & ->). destruct po as [[d|l]|]; cbn [r_opt r_post ok_o wf_post app] in *.
  - rewrite opt_sep_some by reflexivity. intros [= <- <-]. apply nl_nomatch; [reflexivity|].
    unfold wf_digits in Hpo. destruct d as [|x d]; [discriminate|]. cbn [nonempty forallb andb app hdA] in *.
    apply andb_prop in Hpo as [Hx _]. now apply digit_facts in Hx.
  - rewrite (opt_sep_lv _ post_low) by assumption. intros [= <- <-]. rewrite map_app.
    destruct Hpo as (Hin & Hn & H1 & H2). apply post_not_pre; auto. apply fol_nolevc.
    apply (after_word_fol L_dev); auto. intros t0 H. now apply L_dev_heads in H as [(? & _) _].
  - apply L_dev_nomatch; auto. intros W T. apply dev_not_pre.
Qed.
Lemma stage_pre s : L_pre s -> exists pr s', p_opt (p_lv pre_words) s = (pr, s') /\ L_post s'.
Proof.
  intros (pr & t & Hpr & Ht & ->). unfold p_opt. destruct pr as [l|]; cbn [r_opt ok_o app] in *.
  - destruct (p_lv_lang pre_words pre_low L_post) with (l := l) (t := t) as (a & s' & E & Hs'); auto.
    + intros t0 H. now apply L_post_heads in H as (? & _).
    + intros t0 H. now apply L_post_heads in H as (_ & ? & _).
    + apply L_post_steal.
    + apply pre_split.
    + rewrite E. eauto.
  - rewrite (p_lv_none pre_words t).
    + eauto.
    + intros o t1. now apply L_post_nomatch.
Qed.

Lemma L_pre_heads t : L_pre t ->
  hd_is is_digit t = false /\ hd_is (N.eqb 33) t = false /\ hd2_is 46 is_digit t = false.
Proof.
  intros (pr & t' & Hpr & Ht & ->). destruct pr as [l|]; cbn [r_opt ok_o app] in *.
  - destruct (lv_heads _ pre_low l t' Hpr) as (A & B0 & C). auto.
  - apply L_post_heads in Ht as (_ & A & B0 & C). auto.
Qed.

(* the three suffix scanners in a row *)
Lemma stages T : L_pre T -> exists pr po dv s6 s7 s8,
  p_opt (p_lv pre_words) T = (pr, s6) /\ p_opt p_post s6 = (po, s7) /\ p_opt (p_lv dev_words) s7 = (dv, s8) /\ B s8.
Proof.
  intros LT. destruct (stage_pre _ LT) as (pr & s6 & E6 & L6). destruct (stage_post _ L6) as (po & s7 & E7 & L7).
  destruct (stage_dev _ L7) as (dv & s8 & E8 & L8). exists pr, po, dv, s6, s7, s8. auto.
Qed.
Lemma L_pre_intro pr po dv t : ok_o (wf_lv pre_words) pr -> ok_o wf_post po -> ok_o (wf_lv dev_words) dv -> B t ->
  L_pre (r_opt r_lv pr ++ r_opt r_post po ++ r_opt r_lv dv ++ t).
Proof.
  intros H1 H2 H3 H4. exists pr, (r_opt r_post po ++ r_opt r_lv dv ++ t). split; auto. split; auto.
  exists po, (r_opt r_lv dv ++ t). split; auto. split; auto. exists dv, t. auto.
Qed.
End Base.

(* ---------------- the local version and trailing whitespace ---------------- *)
Definition L_ws (s : str) : Prop := forallb is_ws s = true.
Definition L_loc (s : str) : Prop :=
  exists lo w, ok_o (fun l => wf_loc l = true) lo /\ forallb is_ws w = true /\ s = r_opt r_loc lo ++ w.
Lemma L_ws_hd t : L_ws t -> hdA h_loc t = true.
Proof.
  unfold L_ws. destruct t as [|c w]; cbn [hdA forallb]; auto. intros Hw. apply andb_prop in Hw as [Hc _].
  unfold h_loc. rewrite Hc. apply orb_true_r.
Qed.
Lemma L_loc_hd t : L_loc t -> hdA h_loc t = true.
Proof.
  intros (lo & w & Hlo & Hw & ->). destruct lo as [[s0 segs]|]; cbn [r_opt r_loc app hdA]; [reflexivity|]. now apply L_ws_hd.
Qed.

Definition wf_segs (l : list (char * str)) : bool := forallb (fun cs => is_sep (fst cs) && wf_alnum (snd cs)) l.
Lemma ws_hd_nalnum w : forallb is_ws w = true -> hd_is is_alnum_ci w = false.
Proof. destruct w as [|c w]; cbn [forallb hd_is]; auto. intros H. apply andb_prop in H as [H _]. now apply ws_facts in H. Qed.
Lemma segs_hd segs w : wf_segs segs = true -> forallb is_ws w = true -> hd_is is_alnum_ci (r_segs segs ++ w) = false.
Proof.
  destruct segs as [|[c d] segs]; cbn [wf_segs forallb r_segs app hd_is fst snd].
  - intros _. apply ws_hd_nalnum.
  - intros H _. apply andb_prop in H as [H _]. apply andb_prop in H as [H _]. now apply sep_facts in H.
Qed.
Lemma gnf_segs_ok segs w : wf_segs segs = true -> forallb is_ws w = true -> gnf_segs segs w = true.
Proof.
  intros Hs Hw. induction segs as [|[c d] segs IH]; cbn [gnf_segs].
  - destruct w as [|x w]; auto. cbn [forallb] in Hw. apply andb_prop in Hw as [Hx _]. apply ws_facts in Hx as (_ & -> & _). reflexivity.
  - cbn [wf_segs forallb fst snd] in Hs. apply andb_prop in Hs as [H Hs]. apply andb_prop in H as [H1 H2].
    rewrite H1, H2, (segs_hd segs w Hs Hw), (IH Hs). reflexivity.
Qed.
Lemma stage_loc s : L_loc s -> exists lo s', p_opt p_loc s = (lo, s') /\ forallb is_ws s' = true.
Proof.
  intros (lo & w & Hlo & Hw & ->). unfold p_opt. destruct lo as [l|]; cbn [r_opt ok_o app] in *.
  - rewrite p_loc_complete.
    + eexists _, _. split; [reflexivity|assumption].
    + unfold wf_loc in Hlo. apply andb_prop in Hlo as [H1 H2]. unfold gnf_loc.
      rewrite H1, (segs_hd _ w H2 Hw), (gnf_segs_ok _ w H2 Hw). reflexivity.
  - assert (E : p_loc w = None).
    { unfold p_loc. destruct w as [|c w]; auto. cbn [forallb] in Hw. apply andb_prop in Hw as [Hc _].
      apply ws_facts in Hc as (_ & _ & -> & _). reflexivity. }
    rewrite E. eexists _, _. split; [reflexivity|assumption].
Qed.

(* ---------------- the mandatory front part: v? (N!)? N(.N)*  is scanned exactly ---------------- *)
Definition front_k {A} (k : option char -> option str -> str -> list str -> str -> option A) (s1 : str) : option A :=
  let '(v, s2) := p_v s1 in
  let '(d1, s3) := span is_digit s2 in
  if negb (nonempty d1) then None else
    let '(e, r0, s4) :=
       if hd_is (N.eqb 33) s3 then let '(d2, t') := span is_digit (tl s3) in (Some d1, d2, t')
       else (None, d1, s3) in
    if negb (nonempty r0) then None else
      let '(rs, s5) := p_rels (length s4) s4 in k v e r0 rs s5.
Definition r_front (v : option char) (e : option str) (r0 : str) (rs : list str) : str :=
  r_osep v ++ r_opt r_ep e ++ r0 ++ r_rels rs.
Definition wf_front (v : option char) (e : option str) (r0 : str) (rs : list str) : Prop :=
  (match v with Some c => lc c = 118 | None => True end) /\ (match e with Some x => wf_digits x = true | None => True end) /\
  wf_digits r0 = true /\ forallb wf_digits rs = true.

Lemma rels_hd l T : hd_is is_digit T = false -> hd_is is_digit (r_rels l ++ T) = false.
Proof. destruct l; cbn [r_rels app hd_is]; auto. Qed.
Lemma rels_hd33 l T : hd_is (N.eqb 33) T = false -> hd_is (N.eqb 33) (r_rels l ++ T) = false.
Proof. destruct l; cbn [r_rels app hd_is]; auto. Qed.
Lemma gnf_rels_ok l T : forallb wf_digits l = true -> hd_is is_digit T = false -> hd2_is 46 is_digit T = false ->
  gnf_rels l T = true.
Proof.
  intros Hl H1 H2. induction l as [|d l IH]; cbn [gnf_rels].
  - now rewrite H2.
  - cbn [forallb] in Hl. apply andb_prop in Hl as [Hd Hl]. rewrite Hd, (rels_hd l T H1), (IH Hl). reflexivity.
Qed.
(* the front part starts with v/V or a digit: never with whitespace *)
Lemma front_hd v e r0 rs T : wf_front v e r0 rs -> exists c rest, r_front v e r0 rs ++ T = c :: rest /\ is_alnum_ci c = true.
Proof.
  intros (Wv & We & Wr0 & _). unfold r_front. destruct v as [c|]; cbn [r_osep app].
  - eexists _, _. split; [reflexivity|]. unfold is_alnum_ci. rewrite Wv. apply orb_true_r.
  - destruct e as [e|]; cbn [r_opt].
    + unfold wf_digits in We. destruct e as [|d e]; [discriminate|]. cbn [nonempty forallb andb] in We.
      apply andb_prop in We as [Hd _]. unfold r_ep. cbn [app]. eexists _, _. split; [reflexivity|]. unfold is_alnum_ci. now rewrite Hd.
    + unfold wf_digits in Wr0. destruct r0 as [|d r]; [discriminate|]. cbn [nonempty forallb andb] in Wr0.
      apply andb_prop in Wr0 as [Hd _]. cbn [app]. eexists _, _. split; [reflexivity|]. unfold is_alnum_ci. now rewrite Hd.
Qed.
Lemma front_not_ws v e r0 rs T : wf_front v e r0 rs -> hd_is is_ws (r_front v e r0 rs ++ T) = false.
Proof. intros W. destruct (front_hd v e r0 rs T W) as (c & rest & -> & Hc). cbn [hd_is]. now apply alnum_not_ws. Qed.

Lemma front_exact {A} (k : option char -> option str -> str -> list str -> str -> option A) v e r0 rs T :
  wf_front v e r0 rs -> hd_is is_digit T = false -> hd_is (N.eqb 33) T = false -> hd2_is 46 is_digit T = false ->
  front_k k (r_front v e r0 rs ++ T) = k v e r0 rs T.
Proof.
  intros W Td T33 T46. pose proof W as (Wv & We & Wr0 & Wrs).
  assert (Hr := Wr0). unfold wf_digits in Hr. apply andb_prop in Hr as [Hr1 Hr2].
  set (Z := r_rels rs ++ T).
  assert (Zd : hd_is is_digit Z = false) by now apply rels_hd.
  assert (Z33 : hd_is (N.eqb 33) Z = false) by now apply rels_hd33.
  set (N0 := r_opt r_ep e ++ r0 ++ Z).
  assert (E0 : r_front v e r0 rs ++ T = r_osep v ++ N0). { unfold r_front, N0, Z. now rewrite <- !app_assoc. }
  assert (Hv : p_v (r_osep v ++ N0) = (v, N0)).
  { destruct (front_hd None e r0 rs T) as (d0 & rest0 & En & Hd0). { unfold wf_front; auto. }
    unfold r_front in En. cbn [r_osep app] in En. rewrite <- !app_assoc in En. fold Z in En. fold N0 in En.
    unfold p_v. destruct v as [c|]; cbn [r_osep app].
    - now rewrite Wv, N.eqb_refl.
    - rewrite En. destruct (lc d0 =? 118) eqn:Ev; auto. exfalso.
      (* the head of N0 is a digit *)
      revert En Ev. unfold N0. destruct e as [x|]; cbn [r_opt].
      + unfold wf_digits in We. destruct x as [|d x]; [discriminate|]. cbn [nonempty forallb andb] in We.
        apply andb_prop in We as [Hd _]. unfold r_ep. cbn [app]. intros [= <- _]. apply digit_facts in Hd as (_ & _ & -> & _). discriminate.
      + destruct r0 as [|d r]; [discriminate|]. cbn [forallb] in Hr2. apply andb_prop in Hr2 as [Hd _]. cbn [app].
        intros [= <- _]. apply digit_facts in Hd as (_ & _ & -> & _). discriminate. }
  rewrite E0. unfold front_k. rewrite Hv. unfold N0.
  assert (Tail : (let '(rs', s5) := p_rels (length Z) Z in k v e r0 rs' s5) = k v e r0 rs T).
  { unfold Z. rewrite p_rels_complete by (try apply r_rels_len; now apply gnf_rels_ok). reflexivity. }
  destruct e as [x|]; cbn [r_opt].
  - unfold r_ep. rewrite <- app_assoc. cbn [app].
    assert (He := We). unfold wf_digits in He. apply andb_prop in He as [He1 He2].
    rewrite span_complete by auto. rewrite He1. cbn [negb hd_is]. rewrite N.eqb_refl. cbn [tl].
    rewrite span_complete by assumption. cbn [negb]. rewrite Hr1. cbn [negb]. exact Tail.
  - cbn [app]. rewrite span_complete by assumption. rewrite Hr1. cbn [negb]. rewrite Z33. cbn [negb]. rewrite Hr1. cbn [negb]. exact Tail.
Qed.

(* ---------------- C12, completeness half ---------------- *)
Lemma parse_spelling_front s : parse_spelling s =
  let '(wl, s1) := span is_ws s in
  front_k (fun v e r0 rs s5 =>
      let '(pr, s6) := p_opt (p_lv pre_words) s5 in
      let '(po, s7) := p_opt p_post s6 in
      let '(dv, s8) := p_opt (p_lv dev_words) s7 in
      let '(lo, s9) := p_opt p_loc s8 in
      if forallb is_ws s9 then
        Some {| ws_l := wl; vpre := v; ep := e; rel0 := r0; rels := rs;
                spre := pr; spost := po; sdev := dv; sloc := lo; ws_r := s9 |}
      else None) s1.
Proof. reflexivity. Qed.

Theorem version_language_complete : forall sp, wf_spelling sp -> exists sp', parse_spelling (render sp) = Some sp'.
Proof.
  intros sp (W1 & W2 & Wv & We & Wr0 & Wrs & Wpre & Wpost & Wdev & Wloc).
  assert (WF : wf_front (vpre sp) (ep sp) (rel0 sp) (rels sp)) by (unfold wf_front; auto).
  assert (LT : L_pre L_loc (t_pre sp)).
  { apply (L_pre_intro L_loc (spre sp) (spost sp) (sdev sp) (t_loc sp)); auto. exists (sloc sp), (ws_r sp). auto. }
  destruct (L_pre_heads _ L_loc_hd _ LT) as (Td & T33 & T46).
  destruct (stages _ L_loc_hd _ LT) as (pr & po & dv & s6 & s7 & s8 & E6 & E7 & E8 & L8).
  destruct (stage_loc _ L8) as (lo & s9 & E9 & L9).
  assert (ER : render sp = ws_l sp ++ r_front (vpre sp) (ep sp) (rel0 sp) (rels sp) ++ t_pre sp).
  { unfold render, r_front, t_pre, t_post, t_dev, t_loc. now rewrite <- !app_assoc. }
  rewrite ER, parse_spelling_front.
  rewrite span_complete by (auto; now apply front_not_ws).
  rewrite front_exact by assumption. rewrite E6, E7, E8, E9, L9. eauto.
Qed.
Print Assumptions version_language_complete.

(* the language-level reading: the scanner accepts exactly { render sp | wf_spelling sp } *)
Corollary version_language_iff s : (exists sp, wf_spelling sp /\ render sp = s) <-> (exists sp', parse_spelling s = Some sp').
Proof.
  split.
  - intros (sp & W & <-). now apply version_language_complete.
  - intros (sp' & E). exists sp'. apply parse_spelling_sound in E as [R W]. auto.
Qed.
Print Assumptions version_language_iff.
(* equivalently: every string of the language is the rendering of a tree that the scanner returns *)
Corollary gnf_exists sp : wf_spelling sp -> exists sp', render sp' = render sp /\ wf_spelling sp' /\ parse_spelling (render sp') = Some sp'.
Proof.
  intros W. destruct (version_language_complete sp W) as (sp' & E). exists sp'.
  destruct (parse_spelling_sound _ _ E) as [R W']. rewrite R. auto.
Qed.

(* non-vacuity: "1.0a-1" rendered from the tree (pre a, implicit post 1) is parsed as the tree (pre a-1, no post) *)
Definition ex_tree : spelling :=
  {| ws_l := []; vpre := None; ep := None; rel0 := [49]; rels := [[48]];
     spre := Some {| l_sep1 := None; l_word := [97]; l_sep2 := None; l_num := [] |};
     spost := Some (PostImplicit [49]); sdev := None; sloc := None; ws_r := [] |}.
Definition ex_check : bool :=
  match parse_spelling (render ex_tree) with
  | Some sp' => match spre sp', spost sp' with
                | Some l, None => match l_sep2 l with Some c => (c =? 45) && nonempty (l_num l) | None => false end
                | _, _ => false end
  | None => false end.
Example ex_nonvacuous : ex_check = true.
Proof. vm_compute. reflexivity. Qed.
Example ex_tree_wf : wf_spelling ex_tree.
Proof. unfold wf_spelling, ex_tree, wf_lv; cbn. repeat split; auto. Qed.
