(* C02: on a well-formed spelling (everything the scanner returns) int() is defined on every digit group that is read:
   the totalised default of VMeaning.num (0 on a non-number) is never what a component's value comes from. *)
From Coq Require Import List Arith NArith Bool Lia.
Import ListNotations.
Require Import VParse VComplete VTop VTop2 VDec VMeaning VInt.
Open Scope N_scope.

Definition read_ok (d : str) : Prop := undec d = Some (num d).
Lemma wf_digits_read d : wf_digits d = true -> read_ok d.
Proof. intros W. destruct (undec_defined d W) as [n E]. unfold read_ok, num. now rewrite E. Qed.
Lemma digits_read d : forallb is_digit d = true -> d <> [] -> read_ok d.
Proof. intros D N. apply wf_digits_read. unfold wf_digits. rewrite D. destruct d; [congruence|reflexivity]. Qed.
Definition lv_read_ok (l : lv_sp) : Prop := l_num l <> [] -> read_ok (l_num l).
Lemma wf_lv_read words l : wf_lv words l -> lv_read_ok l.
Proof. intros (_ & D & _) N. now apply digits_read. Qed.

Theorem numbers_defined sp : wf_spelling sp ->
  (forall e, ep sp = Some e -> read_ok e) /\ read_ok (rel0 sp) /\ Forall read_ok (rels sp) /\
  (forall l, spre sp = Some l -> lv_read_ok l) /\
  (forall d, spost sp = Some (PostImplicit d) -> read_ok d) /\ (forall l, spost sp = Some (PostWord l) -> lv_read_ok l) /\
  (forall l, sdev sp = Some l -> lv_read_ok l).
Proof.
  intros (_ & _ & _ & He & Hr & Hrs & Hpre & Hpost & Hdev & _).
  split; [intros e E; rewrite E in He; now apply wf_digits_read|]. split; [now apply wf_digits_read|].
  split. { apply Forall_forall. intros d Hd. rewrite forallb_forall in Hrs. apply wf_digits_read, Hrs, Hd. }
  split; [intros l E; rewrite E in Hpre; eapply wf_lv_read; exact Hpre|].
  split; [intros d E; rewrite E in Hpost; now apply wf_digits_read|].
  split; [intros l E; rewrite E in Hpost; eapply wf_lv_read; exact Hpost | intros l E; rewrite E in Hdev; eapply wf_lv_read; exact Hdev].
Qed.
Theorem local_numbers_defined sp h t : wf_spelling sp -> sloc sp = Some (h, t) ->
  Forall (fun raw => forallb is_digit raw = true -> read_ok raw) (h :: map snd t).
Proof.
  intros (_ & _ & _ & _ & _ & _ & _ & _ & _ & Hloc) E. rewrite E in Hloc. unfold wf_loc in Hloc; cbn [fst snd] in Hloc.
  apply andb_prop in Hloc as [H1 H2].
  assert (A : forall d, wf_alnum d = true -> forallb is_digit d = true -> read_ok d).
  { intros d W D. apply digits_read; [exact D|]. unfold wf_alnum in W. apply andb_prop in W as [W _]. destruct d; [discriminate|discriminate]. }
  constructor; [now apply A|]. clear -H2 A. induction t as [|[c s] t IH]; cbn [map forallb fst snd] in *; constructor.
  - apply andb_prop in H2 as [X _]. apply andb_prop in X as [_ X]. now apply A.
  - apply IH. now apply andb_prop in H2 as [_ ?].
Qed.
Print Assumptions numbers_defined.
Print Assumptions local_numbers_defined.
