(* C12: apart from its whitespace, an accepted specifier whose operator is not === consists of ASCII characters
   (model of the isascii() check in Specifier.__init__: the scanner is ASCII-only outside the === text).
   Uses only SpecSound.C12_spec_sound and the character lemmas of VAscii. *)
From Coq Require Import List Arith NArith Bool Lia.
Import ListNotations.
Require Import VParse VComplete VTop VTop2 VDec Py VMeaning SpecModel VAscii SpecParse SpecSound SpecContains.
Open Scope N_scope.
Arguments N.eqb : simpl never.
Arguments N.leb : simpl never.
Arguments N.ltb : simpl never.

Notation asc := (forallb is_ascii).
Lemma asc_app a b : asc (a ++ b) = asc a && asc b.  Proof. apply forallb_app. Qed.
Ltac ascP L := apply (L is_ascii); first [exact digit_ascii | exact sep_ascii | exact lc_ascii | reflexivity | assumption].

Lemma front_ascii v e r0 rs :
  (match v with Some c => lc c = 118 | None => True end) -> (match e with Some x => wf_digits x = true | None => True end) ->
  wf_digits r0 = true -> forallb wf_digits rs = true -> asc (r_osep v ++ r_opt r_ep e ++ r0 ++ r_rels rs) = true.
Proof.
  intros Hv He Hr0 Hrs. rewrite !asc_app.
  assert (X1 : asc (r_osep v) = true) by ascP vpre_P.
  assert (X2 : asc (r_opt r_ep e) = true) by ascP ep_P.
  assert (X3 : asc r0 = true) by ascP wf_digits_P.
  assert (X4 : asc (r_rels rs) = true) by ascP rels_P.
  now rewrite X1, X2, X3, X4.
Qed.
Lemma pub_ascii q : wf_pub q -> asc (r_pub q) = true.
Proof.
  intros (Hv & He & Hr0 & Hrs & Hpre & Hpost & Hdev). unfold r_pub.
  pose proof (front_ascii _ _ _ _ Hv He Hr0 Hrs) as F. rewrite !asc_app in *.
  assert (X5 : asc (r_opt r_lv (q_pre q)) = true) by ascP pre_P.
  assert (X6 : asc (r_opt r_post (q_post q)) = true) by ascP post_P.
  assert (X7 : asc (r_opt r_lv (q_dev q)) = true) by ascP dev_P.
  rewrite X5, X6, X7. repeat (apply andb_prop in F as [? F]). repeat (apply andb_true_intro; split); auto.
Qed.
Lemma body_ascii o b : o <> OArb -> wf_body o b -> asc (r_body b) = true.
Proof.
  intros No W. destruct b as [t|v e r0 rs|q lo]; cbn [r_body].
  - destruct o; cbn in W; try contradiction; congruence.
  - assert (H : (match v with Some c => lc c = 118 | None => True end) /\ (match e with Some x => wf_digits x = true | None => True end) /\
                wf_digits r0 = true /\ forallb wf_digits rs = true) by (destruct o; cbn in W; try contradiction; exact W).
    destruct H as (Hv & He & Hr0 & Hrs). pose proof (front_ascii _ _ _ _ Hv He Hr0 Hrs) as F.
    rewrite !asc_app in *. repeat (apply andb_prop in F as [? F]). repeat (apply andb_true_intro; split); auto.
  - assert (H : wf_pub q /\ match lo with Some l => wf_loc l = true | None => True end).
    { destruct o, lo; cbn in W; try contradiction; try (destruct W; split; auto; fail); split; auto. }
    destruct H as [Hq Hl]. assert (X : asc (r_opt r_loc lo) = true) by ascP loc_P.
    now rewrite asc_app, (pub_ascii q Hq), X.
Qed.
Lemma op_ascii o : asc (op_txt o) = true.
Proof. destruct o; reflexivity. Qed.

Theorem specifier_non_ws_is_ascii s sp c : Specifier s = Some sp -> sp_op sp <> OArb -> In c s -> is_ws c = false -> is_ascii c = true.
Proof.
  unfold Specifier. destruct (parse_specifier s) as [t|] eqn:E; [|discriminate]. intros [= <-]. cbn [sp_op]. intros No Hin Hw.
  destruct (C12_spec_sound s t E) as (R & W1 & W2 & W3 & WB). rewrite <- R in Hin. unfold render_spec in Hin.
  pose proof (body_ascii _ _ No WB) as AB. pose proof (op_ascii (s_op t)) as AO.
  rewrite forallb_forall in W1, W2, W3, AB, AO.
  apply in_app_or in Hin as [H|H]; [rewrite (W1 _ H) in Hw; discriminate|].
  apply in_app_or in H as [H|H]; [exact (AO _ H)|].
  apply in_app_or in H as [H|H]; [rewrite (W2 _ H) in Hw; discriminate|].
  apply in_app_or in H as [H|H]; [exact (AB _ H) | rewrite (W3 _ H) in Hw; discriminate].
Qed.
(* contrapositive, as the code states it: a non-ASCII, non-whitespace character is accepted only after === *)
Corollary specifier_non_ascii_only_arbitrary s sp c : Specifier s = Some sp -> In c s -> is_ws c = false -> is_ascii c = false -> sp_op sp = OArb.
Proof.
  intros E Hin Hw Ha. destruct (sp_op sp) eqn:O; try reflexivity;
    (assert (N : sp_op sp <> OArb) by (rewrite O; discriminate); rewrite (specifier_non_ws_is_ascii s sp c E N Hin Hw) in Ha; discriminate).
Qed.
Print Assumptions specifier_non_ws_is_ascii.
Print Assumptions specifier_non_ascii_only_arbitrary.
