(* Laws of the sort that the `v.sort` observation runs (VObsModel.sort_v: stable insertion sort asking only `<` on keys):
   on well-formed versions its output is ascending for the PEP 440 order, a permutation of the input, and stable;
   hence two runs on inputs that are permutations of each other up to == agree position by position up to ==. *)
From Coq Require Import List Arith NArith Bool Lia Permutation.
Import ListNotations.
Require Import S1 Py VCmp Order SortUnique VObsModel.
Open Scope N_scope.

Notation wfv := VCmp.wf_version.
Notation ltc := (SortUnique.lt pep440_cmp).
Notation lec := (SortUnique.le pep440_cmp).
Notation asc_v := (ascending pep440_cmp).

Lemma lt_v_spec x y : wfv x -> wfv y -> lt_v x y = ltc x y.
Proof.
  intros Wx Wy. unfold lt_v, SortUnique.lt. rewrite (C01_rich_is_pep440 x y Wx Wy Lt_).
  destruct (pep440_cmp x y); reflexivity.
Qed.

Lemma insert_v_perm x l : Permutation (x :: l) (insert_v x l).
Proof.
  induction l as [|y t IH]; cbn [insert_v]; [apply Permutation_refl|].
  destruct (lt_v y x); [|apply Permutation_refl].
  eapply perm_trans; [apply perm_swap|]. now apply perm_skip.
Qed.
Lemma sort_v_perm l : Permutation l (sort_v l).
Proof.
  induction l as [|x l IH]; [constructor|]. change (sort_v (x :: l)) with (insert_v x (sort_v l)).
  eapply perm_trans; [apply perm_skip, IH | apply insert_v_perm].
Qed.
Lemma Forall_perm {A} (P : A -> Prop) l l' : Permutation l l' -> Forall P l -> Forall P l'.
Proof. intros Pm H. rewrite Forall_forall in *. intros z Hz. apply H. eapply Permutation_in; [apply Permutation_sym; exact Pm | exact Hz]. Qed.
Lemma sort_v_wf l : Forall wfv l -> Forall wfv (sort_v l).
Proof. apply Forall_perm, sort_v_perm. Qed.

Lemma ascending_cons y l : asc_v l -> (forall z, In z l -> lec y z = true) -> asc_v (y :: l).
Proof. destruct l as [|a l]; cbn [ascending]; auto. intros H1 H2. split; [apply H2; now left | exact H1]. Qed.

Lemma insert_v_ascending x l : wfv x -> Forall wfv l -> asc_v l -> asc_v (insert_v x l).
Proof.
  intros Wx. induction l as [|y t IH]; intros Wl A; cbn [insert_v]; [exact I|].
  inversion Wl as [|? ? Wy Wt]; subst. rewrite (lt_v_spec y x Wy Wx).
  destruct (ltc y x) eqn:L.
  - apply ascending_cons; [apply IH; [assumption | eapply ascending_tail; exact A]|].
    intros z Hz. apply (Permutation_in _ (Permutation_sym (insert_v_perm x t))) in Hz. destruct Hz as [<-|Hz].
    + unfold SortUnique.lt in L. unfold SortUnique.le. destruct (pep440_cmp y x); congruence.
    + exact (ascending_head_le pep440_cmp pep440_cmp_ok y t A z Hz).
  - change (lec x y = true /\ asc_v (y :: t)). split; [|exact A].
    unfold SortUnique.lt in L. unfold SortUnique.le. rewrite (ok_sym _ pep440_cmp_ok y x). destruct (pep440_cmp y x); cbn; congruence.
Qed.
Theorem sort_v_ascending l : Forall wfv l -> asc_v (sort_v l).
Proof.
  induction l as [|x l IH]; intros W; [exact I|]. change (sort_v (x :: l)) with (insert_v x (sort_v l)).
  inversion W; subst. apply insert_v_ascending; [assumption | now apply sort_v_wf | now apply IH].
Qed.

(* stability: the versions equal (==) to any given z come out in their input order *)
Definition eqv (z y : version) : bool := match pep440_cmp y z with Eq => true | _ => false end.
Lemma insert_v_stable z x l : wfv x -> Forall wfv l -> filter (eqv z) (insert_v x l) = filter (eqv z) (x :: l).
Proof.
  intros Wx. induction l as [|y t IH]; intros Wl; cbn [insert_v]; [reflexivity|].
  inversion Wl as [|? ? Wy Wt]; subst. rewrite (lt_v_spec y x Wy Wx).
  destruct (ltc y x) eqn:L; [|reflexivity].
  cbn [filter]. rewrite (IH Wt). cbn [filter].
  destruct (eqv z y) eqn:Ey, (eqv z x) eqn:Ex; try reflexivity.
  exfalso. unfold eqv in *. unfold SortUnique.lt in L.
  destruct (pep440_cmp y z) eqn:E1; try discriminate. destruct (pep440_cmp x z) eqn:E2; try discriminate.
  rewrite <- (ok_trans_eq _ pep440_cmp_ok y z x E1) in L.
  rewrite (ok_sym _ pep440_cmp_ok x z), E2 in L. discriminate.
Qed.
Theorem sort_v_stable z l : Forall wfv l -> filter (eqv z) (sort_v l) = filter (eqv z) l.
Proof.
  induction l as [|x l IH]; intros W; [reflexivity|]. change (sort_v (x :: l)) with (insert_v x (sort_v l)).
  inversion W as [|? ? Wx Wl]; subst. rewrite (insert_v_stable z x (sort_v l) Wx (sort_v_wf l Wl)).
  change (filter (eqv z) (x :: sort_v l)) with (if eqv z x then x :: filter (eqv z) (sort_v l) else filter (eqv z) (sort_v l)).
  rewrite (IH Wl). reflexivity.
Qed.

(* one answer whatever the input order or spelling *)
Theorem sort_v_one_answer l1 l2 m m' : Forall wfv l1 -> Forall wfv l2 ->
  Permutation l1 m -> Forall2 (fun a b => pep440_cmp a b = Eq) m m' -> Permutation m' l2 ->
  Forall2 (fun a b => pep440_cmp a b = Eq) (sort_v l1) (sort_v l2).
Proof.
  intros W1 W2 P1 E P2.
  apply (sorted_arrangements_agree pep440_cmp pep440_cmp_ok); [now apply sort_v_ascending | now apply sort_v_ascending |].
  eapply same_counts_trans; [apply perm_same_counts, Permutation_sym, sort_v_perm|].
  eapply same_counts_trans; [apply perm_same_counts; exact P1|].
  eapply same_counts_trans; [apply (equiv_same_counts pep440_cmp pep440_cmp_ok); exact E|].
  eapply same_counts_trans; [apply perm_same_counts; exact P2|]. apply perm_same_counts, sort_v_perm.
Qed.

Lemma all_some_Forall {A B} (f : A -> option B) (Q : B -> Prop) :
  (forall a b, f a = Some b -> Q b) -> forall l out, all_some (map f l) = Some out -> Forall Q out /\ Forall2 (fun a b => f a = Some b) l out.
Proof.
  intros H. induction l as [|a l IH]; intros out; cbn [map all_some].
  - intros [= <-]. split; constructor.
  - destruct (f a) as [b|] eqn:E; [|discriminate]. destruct (all_some (map f l)) as [o|]; [|discriminate].
    cbn [option_map]. intros [= <-]. destruct (IH o eq_refl). split; constructor; eauto.
Qed.
Print Assumptions sort_v_one_answer.
