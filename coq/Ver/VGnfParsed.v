(* C02: the parse tree the scanner returns is in greedy normal form.  Together with parse_spelling_complete (gnf trees are parsed as
   themselves) this makes the reading of an accepted string unique: among all parse trees that render to s, the gnf one is the one read. *)
From Coq Require Import List Arith NArith Bool Lia.
Import ListNotations.
Require Import VParse VComplete VTop VTop2.
Open Scope N_scope.
Arguments N.eqb : simpl never.
Arguments N.leb : simpl never.

Lemma span_max p s : forall a r, span p s = (a, r) -> hd_is p r = false.
Proof.
  induction s as [|c s IH]; intros a r; simpl.
  - intros [= <- <-]; reflexivity.
  - destruct (p c) eqn:E.
    + destruct (span p s) as [a' r'] eqn:F. intros [= <- <-]. exact (IH _ _ eq_refl).
    + intros [= <- <-]. simpl. exact E.
Qed.
Lemma opt_sep_gnf s o r : opt_sep s = (o, r) -> match o with Some c => is_sep c = true | None => hd_is is_sep r = false end.
Proof.
  destruct s as [|c t]; simpl; [intros [= <- <-]; reflexivity|].
  destruct (is_sep c) eqn:E; intros [= <- <-]; [exact E | simpl; exact E].
Qed.
Lemma first_word_gnf ws : forall s w r, first_word ws s = Some (w, r) -> first_word_ok ws (map lc w) (map lc r) = true.
Proof.
  induction ws as [|w' ws IH]; intros s w r; simpl; [discriminate|].
  destruct (match_word w' s) as [[a' r']|] eqn:F.
  - intros [= <- <-]. destruct (match_word_sound _ _ _ _ F) as [_ <-].
    destruct (list_eq_dec N.eq_dec (map lc a') (map lc a')); [reflexivity|congruence].
  - intros H. destruct (list_eq_dec N.eq_dec w' (map lc w)); [reflexivity|].
    destruct (first_word_sound _ _ _ _ H) as [Hs _]. rewrite match_word_spec, Hs, map_app in F.
    destruct (prefixb w' (map lc w ++ map lc r)); [discriminate|]. simpl. exact (IH _ _ _ H).
Qed.

Lemma p_lv_gnf words s l r : p_lv words s = Some (l, r) -> gnf_lv words l r = true.
Proof.
  unfold p_lv. destruct (opt_sep s) as [s1 t1] eqn:E1.
  destruct (first_word words t1) as [[w t2]|] eqn:E2; [|discriminate].
  destruct (opt_sep t2) as [s2 t3] eqn:E3. destruct (span is_digit t3) as [n t4] eqn:E4. intros [= <- <-].
  unfold gnf_lv; cbn [l_sep1 l_word l_sep2 l_num].
  pose proof (first_word_gnf _ _ _ _ E2) as G1. destruct (first_word_sound _ _ _ _ E2) as [S2 _].
  pose proof (opt_sep_sound _ _ _ E3) as S3. destruct (span_sound _ _ _ _ E4) as [S4 D4].
  pose proof (opt_sep_gnf _ _ _ E1) as G2. pose proof (opt_sep_gnf _ _ _ E3) as G3. pose proof (span_max _ _ _ _ E4) as G5.
  rewrite S2, S3, S4 in G2. rewrite S3, S4 in G1. rewrite S4 in G3.
  rewrite G1, D4, G5. cbn [andb negb].
  destruct s1 as [c1|]; [rewrite G2 | rewrite G2]; (destruct s2 as [c2|]; [rewrite G3 | rewrite G3]); reflexivity.
Qed.

Lemma p_post_gnf s p r : p_post s = Some (p, r) -> gnf_post p r = true.
Proof.
  unfold p_post. destruct (hd2_is 45 is_digit s) eqn:E.
  - apply hd2_is_true in E as (d & t & -> & Hd). cbn [tl].
    destruct (span is_digit (d :: t)) as [n r0] eqn:E1. intros [= <- <-].
    pose proof (span_hd _ _ _ _ E1 Hd) as Hne. pose proof (span_max _ _ _ _ E1) as Hm. apply span_sound in E1 as [_ H1].
    cbn [gnf_post]. unfold wf_digits. now rewrite Hne, H1, Hm.
  - destruct (p_lv post_words s) as [[l r0]|] eqn:E1; [|discriminate]. intros [= <- <-].
    cbn [gnf_post]. destruct (p_lv_sound _ _ _ _ E1) as [<- _]. rewrite E. cbn [negb andb]. exact (p_lv_gnf _ _ _ _ E1).
Qed.

Lemma p_rels_gnf fuel : forall s l r, (length s <= fuel)%nat -> p_rels fuel s = (l, r) -> gnf_rels l r = true.
Proof.
  induction fuel as [|f IH]; intros s l r Hf; cbn [p_rels].
  - intros [= <- <-]. destruct s; [reflexivity | cbn in Hf; lia].
  - destruct (hd2_is 46 is_digit s) eqn:E; [|intros [= <- <-]; cbn [gnf_rels]; now rewrite E].
    apply hd2_is_true in E as (d & t & -> & Hd). cbn [tl].
    destruct (span is_digit (d :: t)) as [n r0] eqn:E1. destruct (p_rels f r0) as [more r'] eqn:E2. intros [= <- <-].
    pose proof (span_hd _ _ _ _ E1 Hd) as Hne. pose proof (span_max _ _ _ _ E1) as Hm. apply span_sound in E1 as [H1 H1'].
    destruct (p_rels_sound _ _ _ _ E2) as [H2 _].
    cbn [gnf_rels]. unfold wf_digits. rewrite Hne, H1', <- H2, Hm. cbn [andb negb]. apply (IH r0); [|exact E2].
    assert (L : length (d :: t) = (length n + length r0)%nat) by (rewrite H1, app_length; reflexivity).
    destruct n; [discriminate|]. cbn [length] in *. lia.
Qed.
Lemma p_segs_gnf fuel : forall s l r, (length s <= fuel)%nat -> p_segs fuel s = (l, r) -> gnf_segs l r = true.
Proof.
  induction fuel as [|f IH]; intros s l r Hf; cbn [p_segs].
  - intros [= <- <-]. destruct s; [reflexivity | cbn in Hf; lia].
  - destruct s as [|c t]; [intros [= <- <-]; reflexivity|].
    destruct (is_sep c && hd_is is_alnum_ci t) eqn:E; [|intros [= <- <-]; cbn [gnf_segs]; now rewrite E].
    apply andb_prop in E as [Ec Et].
    destruct (span is_alnum_ci t) as [n r0] eqn:E1. destruct (p_segs f r0) as [more r'] eqn:E2. intros [= <- <-].
    pose proof (span_hd _ _ _ _ E1 Et) as Hne. pose proof (span_max _ _ _ _ E1) as Hm. apply span_sound in E1 as [H1 H1'].
    destruct (p_segs_sound _ _ _ _ E2) as [H2 _].
    cbn [gnf_segs]. unfold wf_alnum. rewrite Ec, Hne, H1', <- H2, Hm. cbn [andb negb]. apply (IH r0); [|exact E2].
    assert (L : length t = (length n + length r0)%nat) by (rewrite H1, app_length; reflexivity).
    cbn [length] in Hf. lia.
Qed.
Lemma p_loc_gnf s l r : p_loc s = Some (l, r) -> gnf_loc l r = true.
Proof.
  unfold p_loc. destruct s as [|c t]; [discriminate|].
  destruct ((c =? 43) && hd_is is_alnum_ci t) eqn:E; [|discriminate]. apply andb_prop in E as [_ Et].
  destruct (span is_alnum_ci t) as [n r0] eqn:E1. destruct (p_segs (length r0) r0) as [more r'] eqn:E2. intros [= <- <-].
  pose proof (span_hd _ _ _ _ E1 Et) as Hne. pose proof (span_max _ _ _ _ E1) as Hm. apply span_sound in E1 as [_ H1'].
  destruct (p_segs_sound _ _ _ _ E2) as [H2 _].
  unfold gnf_loc; cbn [fst snd]. unfold wf_alnum. rewrite Hne, H1', <- H2, Hm. cbn [andb negb].
  exact (p_segs_gnf _ _ _ _ (Nat.le_refl _) E2).
Qed.
Lemma p_opt_gnf {A} (p : str -> option (A * str)) (g : A -> str -> bool) :
  (forall s a r, p s = Some (a, r) -> g a r = true) -> forall s o r, p_opt p s = (o, r) -> gnf_opt p g o r = true.
Proof.
  intros H s o r. unfold p_opt, gnf_opt. destruct (p s) as [[a r0]|] eqn:E.
  - intros [= <- <-]. exact (H _ _ _ E).
  - intros [= <- <-]. now rewrite E.
Qed.

Theorem parse_spelling_gnf s sp : parse_spelling s = Some sp -> gnf sp = true.
Proof.
  unfold parse_spelling.
  destruct (span is_ws s) as [wl s1] eqn:E1.
  destruct (p_v s1) as [v s2] eqn:E2.
  destruct (span is_digit s2) as [d1 s3] eqn:E3.
  destruct (nonempty d1) eqn:Ed1; [|discriminate]. cbn [negb].
  destruct (if hd_is (N.eqb 33) s3 then let '(d2, t') := span is_digit (tl s3) in (Some d1, d2, t') else (None, d1, s3))
    as [[e r0] s4] eqn:E4.
  destruct (nonempty r0) eqn:Er0; [|discriminate]. cbn [negb].
  destruct (p_rels (length s4) s4) as [rs s5] eqn:E5.
  destruct (p_opt (p_lv pre_words) s5) as [pr s6] eqn:E6.
  destruct (p_opt p_post s6) as [po s7] eqn:E7.
  destruct (p_opt (p_lv dev_words) s7) as [dv s8] eqn:E8.
  destruct (p_opt p_loc s8) as [lo s9] eqn:E9.
  destruct (forallb is_ws s9) eqn:E10; [|discriminate].
  intros [= <-].
  destruct (span_sound _ _ _ _ E1) as [_ W1]. destruct (span_sound _ _ _ _ E3) as [T2 W3].
  pose proof (span_max _ _ _ _ E1) as M1. pose proof (span_max _ _ _ _ E3) as M3.
  assert (He : s2 = r_opt r_ep e ++ r0 ++ s4 /\ forallb is_digit r0 = true /\ hd_is is_digit s4 = false /\
               match e with Some e' => wf_digits e' = true | None => hd_is (N.eqb 33) s4 = false end).
  { destruct (hd_is (N.eqb 33) s3) eqn:Eh.
    - apply hd_is_true in Eh as (c & t & -> & Hc). apply N.eqb_eq in Hc. subst c. cbn [tl] in E4.
      destruct (span is_digit t) as [d2 t'] eqn:Es. injection E4 as <- <- <-.
      pose proof (span_max _ _ _ _ Es) as M. apply span_sound in Es as [-> Hd].
      cbn [r_opt]. unfold r_ep, wf_digits. rewrite <- app_assoc. rewrite Ed1, W3. cbn [app andb]. auto.
    - injection E4 as <- <- <-. cbn [r_opt app]. auto. }
  destruct He as (T1 & Wr0 & M4 & Ge).
  assert (Hv : s1 = r_osep v ++ s2 /\ match v with Some c => (lc c =? 118) = true | None => hd_is (fun c => lc c =? 118) s2 = false end).
  { unfold p_v in E2. destruct s1 as [|c t]; [inversion E2; auto|].
    destruct (lc c =? 118) eqn:Ev; inversion E2; subst; cbn [r_osep app hd_is]; auto. }
  destruct Hv as [T0 Gv].
  (* the tails of the tree are the scanner's intermediate strings *)
  destruct (p_opt_sound p_loc r_loc (fun l => wf_loc l = true) p_loc_sound _ _ _ E9) as [T8 _].
  destruct (p_opt_sound (p_lv dev_words) r_lv (wf_lv dev_words) (p_lv_sound dev_words) _ _ _ E8) as [T7 _].
  destruct (p_opt_sound p_post r_post wf_post p_post_sound _ _ _ E7) as [T6 _].
  destruct (p_opt_sound (p_lv pre_words) r_lv (wf_lv pre_words) (p_lv_sound pre_words) _ _ _ E6) as [T5 _].
  destruct (p_rels_sound _ _ _ _ E5) as [T4 W5].
  unfold gnf, t_v, t_num, t_rels, t_pre, t_post, t_dev, t_loc; cbn [ws_l vpre ep rel0 rels spre spost sdev sloc ws_r].
  rewrite <- T8, <- T7, <- T6, <- T5, <- T4, <- T1, <- T0.
  rewrite W1, M1, M4, E10. unfold wf_digits at 2. rewrite Er0, Wr0. cbn [negb andb].
  rewrite (p_rels_gnf _ _ _ _ (Nat.le_refl _) E5).
  rewrite (p_opt_gnf _ _ (p_lv_gnf pre_words) _ _ _ E6), (p_opt_gnf _ _ p_post_gnf _ _ _ E7),
          (p_opt_gnf _ _ (p_lv_gnf dev_words) _ _ _ E8), (p_opt_gnf _ _ p_loc_gnf _ _ _ E9).
  cbn [andb]. rewrite !andb_true_r.
  destruct v as [c|]; rewrite Gv; (destruct e as [e'|]; rewrite Ge); reflexivity.
Qed.
Print Assumptions parse_spelling_gnf.

(* hence the reading is unique: any gnf tree rendering to an accepted string is the tree that was read *)
Theorem gnf_reading_unique s sp : parse_spelling s = Some sp ->
  gnf sp = true /\ render sp = s /\ forall sp', gnf sp' = true -> render sp' = s -> sp' = sp.
Proof.
  intros H. split; [exact (parse_spelling_gnf s sp H)|]. split; [exact (proj1 (parse_spelling_sound s sp H))|].
  intros sp' G R. pose proof (parse_spelling_complete sp' G) as C. rewrite R, H in C. now injection C.
Qed.
Print Assumptions gnf_reading_unique.
