From Coq Require Import List Arith NArith Bool Lia.
Import ListNotations.
Require Import VParse VComplete VTop VTop2 VDec Py VMeaning.
Open Scope N_scope.

(* ---------------- character facts ---------------- *)
Lemma digit_range c : is_digit c = true -> 48 <= c /\ c <= 57.
Proof. unfold is_digit. intros H. apply andb_prop in H as [H1 H2]. apply N.leb_le in H1, H2. auto. Qed.
Ltac neqb := repeat match goal with |- context [?a =? ?b] => rewrite (proj2 (N.eqb_neq a b)) by lia end.
Lemma digit_not_sep c : is_digit c = true -> is_sep c = false.
Proof. intros H. apply digit_range in H. unfold is_sep. neqb. reflexivity. Qed.
Lemma digit_not_ws c : is_digit c = true -> is_ws c = false.
Proof. intros H. apply digit_range in H. unfold is_ws, ws_table. cbn [existsb]. neqb. reflexivity. Qed.
Lemma lc_digit c : is_digit c = true -> lc c = c.
Proof.
  intros H. apply digit_range in H. unfold lc.
  rewrite (proj2 (N.leb_gt 65 c)) by lia. cbn [andb]. neqb. reflexivity.
Qed.
Lemma digit_alnum c : is_digit c = true -> is_alnum_ci c = true.
Proof. unfold is_alnum_ci. now intros ->. Qed.
Lemma digit_not_lower c : is_digit c = true -> is_lower c = false.
Proof. intros H. apply digit_range in H. unfold is_lower. rewrite (proj2 (N.leb_gt 97 c)) by lia. reflexivity. Qed.
(* a lower-case word never matches at a digit *)
Lemma prefixb_digit w s : hd_is is_lower w = true -> hd_is is_digit s = true -> prefixb w (map lc s) = false.
Proof.
  destruct w as [|p w], s as [|c s]; simpl; try discriminate. intros Hp Hc.
  rewrite lc_digit by assumption. apply digit_range in Hc. unfold is_lower in Hp.
  apply andb_prop in Hp as [H1 H2]. apply N.leb_le in H1, H2. neqb. reflexivity.
Qed.
Lemma hd_dec_app n t p : hd_is p (dec n ++ t) = hd_is p (dec n).
Proof. pose proof (dec_nonnil n). destruct (dec n); [congruence|reflexivity]. Qed.

(* ---------------- meaning (canon_sp v) = v ---------------- *)
Lemma num_dec n : num (dec n) = n.
Proof. unfold num. now rewrite undec_dec. Qed.
Lemma m_lv_c_lv sep l n : norm_letter l = l -> m_lv (c_lv sep (l, n)) = (l, n).
Proof.
  intros Hl. unfold m_lv, c_lv; cbn. rewrite Hl. pose proof (dec_nonnil n) as Hn. pose proof (num_dec n) as Hd.
  destruct (dec n); [congruence|]. now rewrite Hd.
Qed.
Lemma lower_alnum_py_lower c : is_lower_alnum c = true -> py_lower_c c = [c].
Proof.
  unfold is_lower_alnum, py_lower_c. intros H. apply orb_prop in H as [H|H].
  - apply digit_range in H. rewrite (proj2 (N.leb_gt 65 c)) by lia. cbn [andb]. neqb. reflexivity.
  - unfold is_lower in H. apply andb_prop in H as [H1 H2]. apply N.leb_le in H1, H2.
    rewrite (proj2 (N.leb_gt c 90)) by lia. rewrite andb_false_r. neqb. reflexivity.
Qed.
Lemma py_lower_id s : forallb is_lower_alnum s = true -> py_lower s = s.
Proof.
  induction s as [|c s IH]; simpl; auto. intros H. apply andb_prop in H as [H1 H2].
  rewrite lower_alnum_py_lower by assumption. simpl. now rewrite IH.
Qed.
Lemma m_seg_c_seg x : wf_seg x = true -> m_seg (c_seg x) = x.
Proof.
  destruct x as [n|s]; simpl; intros H; unfold m_seg.
  - now rewrite dec_digits, num_dec.
  - apply andb_prop in H as [H H3]. apply andb_prop in H as [H1 H2]. apply negb_true_iff in H3.
    now rewrite H3, py_lower_id.
Qed.

Theorem meaning_canon v : wf_version v -> meaning (canon_sp v) = v.
Proof.
  intros (Hr & Hpre & Hpost & Hdev & Hloc). destruct v as [e r p po d lo]; cbn in *.
  unfold meaning; cbn. f_equal.
  - destruct (e =? 0) eqn:E; [apply N.eqb_eq in E; auto | apply num_dec].
  - destruct r as [|x t]; [congruence|]. cbn. rewrite num_dec. f_equal.
    rewrite map_map. rewrite <- (map_id t) at 2. apply map_ext. intros; apply num_dec.
  - destruct p as [[l n]|]; cbn; auto. f_equal. apply m_lv_c_lv. destruct Hpre as [->|[->| ->]]; reflexivity.
  - destruct po as [[l n]|]; cbn; auto. f_equal. subst l. apply m_lv_c_lv. reflexivity.
  - destruct d as [[l n]|]; cbn; auto. f_equal. subst l. apply m_lv_c_lv. reflexivity.
  - destruct lo as [l|]; cbn; auto. destruct Hloc as [Hne Hw]. f_equal.
    destruct l as [|x t]; [congruence|]. cbn in *. apply andb_prop in Hw as [Hx Ht].
    rewrite m_seg_c_seg by assumption. f_equal. rewrite !map_map. cbn.
    rewrite <- (map_id t) at 2. apply map_ext_in. intros y Hy. apply m_seg_c_seg.
    rewrite forallb_forall in Ht. now apply Ht.
Qed.
Print Assumptions meaning_canon.
