(* An accepted version string consists of ASCII characters between its surrounding whitespace. *)
From Coq Require Import List Arith NArith Bool Lia.
Import ListNotations.
Require Import VParse VComplete VTop VTop2 VDec Py VMeaning SpecModel VCanon VCanon2.
Open Scope N_scope.
Arguments N.eqb : simpl never.
Arguments N.leb : simpl never.
Arguments N.ltb : simpl never.

Definition is_ascii (c : char) : bool := c <? 128.
Definition asciis (s : str) : bool := forallb is_ascii s.
Lemma asciis_app a b : asciis (a ++ b) = asciis a && asciis b.  Proof. apply forallb_app. Qed.

Lemma lc_ascii c : is_lower (lc c) = true -> is_ascii c = true.
Proof.
  unfold lc, is_lower, is_ascii. destruct ((65 <=? c) && (c <=? 90)) eqn:U.
  - apply andb_prop in U as [A B]. apply N.leb_le in B. intros _. apply N.ltb_lt. lia.
  - intros H. apply andb_prop in H as [A B]. apply N.leb_le in B. apply N.ltb_lt. lia.
Qed.
Lemma digit_ascii c : is_digit c = true -> is_ascii c = true.
Proof. intros H. apply digit_range in H. unfold is_ascii. apply N.ltb_lt. lia. Qed.
Lemma sep_ascii c : is_sep c = true -> is_ascii c = true.
Proof.
  unfold is_sep, is_ascii. intros H. apply N.ltb_lt.
  apply orb_prop in H as [H|H]; [apply orb_prop in H as [H|H]|]; apply N.eqb_eq in H; lia.
Qed.
Lemma alnum_ci_ascii c : is_alnum_ci c = true -> is_ascii c = true.
Proof. unfold is_alnum_ci. intros H. apply orb_prop in H as [H|H]; [now apply digit_ascii | now apply lc_ascii]. Qed.
Lemma all_ascii p s : (forall c, p c = true -> is_ascii c = true) -> forallb p s = true -> asciis s = true.
Proof.
  intros Hp. induction s as [|c s IH]; cbn [forallb asciis]; auto. intros H. apply andb_prop in H as [A B].
  rewrite (Hp c A). exact (IH B).
Qed.
Lemma digits_ascii s : forallb is_digit s = true -> asciis s = true.   Proof. apply all_ascii, digit_ascii. Qed.
Lemma wf_digits_ascii s : wf_digits s = true -> asciis s = true.
Proof. unfold wf_digits. intros H. apply andb_prop in H as [_ H]. now apply digits_ascii. Qed.
Lemma wf_alnum_ascii s : wf_alnum s = true -> asciis s = true.
Proof. unfold wf_alnum. intros H. apply andb_prop in H as [_ H]. revert H. apply all_ascii, alnum_ci_ascii. Qed.
Lemma word_ascii w ws : In (map lc w) ws -> forallb (forallb is_lower) ws = true -> asciis w = true.
Proof.
  intros Hin Hall. rewrite forallb_forall in Hall. specialize (Hall _ Hin). clear Hin.
  induction w as [|c w IH]; cbn [forallb map asciis] in *; auto. apply andb_prop in Hall as [A B].
  rewrite (lc_ascii c A). exact (IH B).
Qed.
Lemma osep_ascii o : match o with Some c => is_sep c = true | None => True end -> asciis (r_osep o) = true.
Proof. destruct o as [c|]; cbn; auto. intros H. now rewrite (sep_ascii c H). Qed.
Lemma lv_ascii words l : forallb (forallb is_lower) words = true -> wf_lv words l -> asciis (r_lv l) = true.
Proof.
  intros Hw (Hin & Hn & H1 & H2). unfold r_lv. rewrite !asciis_app.
  rewrite (osep_ascii _ H1), (osep_ascii _ H2), (word_ascii _ _ Hin Hw), (digits_ascii _ Hn). reflexivity.
Qed.
Lemma rels_ascii l : forallb wf_digits l = true -> asciis (r_rels l) = true.
Proof.
  induction l as [|d l IH]; cbn [r_rels forallb]; auto. intros H. apply andb_prop in H as [A B].
  change (46 :: d ++ r_rels l) with ([46] ++ d ++ r_rels l). rewrite !asciis_app, (wf_digits_ascii d A), (IH B). reflexivity.
Qed.
Lemma segs_ascii l : forallb (fun cs => is_sep (fst cs) && wf_alnum (snd cs)) l = true -> asciis (r_segs l) = true.
Proof.
  induction l as [|[c s] l IH]; cbn [r_segs forallb fst snd]; auto. intros H. apply andb_prop in H as [A B].
  apply andb_prop in A as [A1 A2]. change (c :: s ++ r_segs l) with ([c] ++ s ++ r_segs l).
  rewrite !asciis_app, (wf_alnum_ascii s A2), (IH B). cbn. now rewrite (sep_ascii c A1).
Qed.

Definition core (sp : spelling) : str :=
  r_osep (vpre sp) ++ r_opt r_ep (ep sp) ++ rel0 sp ++ r_rels (rels sp) ++
  r_opt r_lv (spre sp) ++ r_opt r_post (spost sp) ++ r_opt r_lv (sdev sp) ++ r_opt r_loc (sloc sp).
Lemma render_core sp : render sp = ws_l sp ++ core sp ++ ws_r sp.
Proof. unfold render, core. now rewrite <- !app_assoc. Qed.

Lemma core_ascii sp : wf_spelling sp -> asciis (core sp) = true.
Proof.
  intros (_ & _ & Hv & He & Hr0 & Hrs & Hpre & Hpost & Hdev & Hloc). unfold core. rewrite !asciis_app.
  assert (A1 : asciis (r_osep (vpre sp)) = true).
  { destruct (vpre sp) as [c|]; cbn; auto. assert (is_lower (lc c) = true) by (rewrite Hv; reflexivity). now rewrite (lc_ascii c H). }
  assert (A2 : asciis (r_opt r_ep (ep sp)) = true).
  { destruct (ep sp) as [e|]; cbn [r_opt]; auto. unfold r_ep. rewrite asciis_app, (wf_digits_ascii e He). reflexivity. }
  assert (A3 : asciis (r_opt r_lv (spre sp)) = true).
  { destruct (spre sp) as [l|]; cbn [r_opt]; auto. now apply (lv_ascii pre_words). }
  assert (A4 : asciis (r_opt r_post (spost sp)) = true).
  { destruct (spost sp) as [[d|l]|]; cbn [r_opt r_post]; auto.
    - change (45 :: d) with ([45] ++ d). rewrite asciis_app, (wf_digits_ascii d Hpost). reflexivity.
    - now apply (lv_ascii post_words). }
  assert (A5 : asciis (r_opt r_lv (sdev sp)) = true).
  { destruct (sdev sp) as [l|]; cbn [r_opt]; auto. now apply (lv_ascii dev_words). }
  assert (A6 : asciis (r_opt r_loc (sloc sp)) = true).
  { destruct (sloc sp) as [[h t]|]; cbn [r_opt]; auto. unfold wf_loc in Hloc; cbn [fst snd] in Hloc. apply andb_prop in Hloc as [H1 H2].
    unfold r_loc; cbn [fst snd]. change (43 :: h ++ r_segs t) with ([43] ++ h ++ r_segs t).
    rewrite !asciis_app, (wf_alnum_ascii h H1), (segs_ascii t H2). reflexivity. }
  rewrite A1, A2, (wf_digits_ascii _ Hr0), (rels_ascii _ Hrs), A3, A4, A5, A6. reflexivity.
Qed.

Theorem version_core_ascii s v : Version s = Some v ->
  exists wl co wr, s = wl ++ co ++ wr /\ forallb is_ws wl = true /\ forallb is_ws wr = true /\ forallb is_ascii co = true.
Proof.
  unfold Version. destruct (parse_spelling s) as [sp|] eqn:E; [|discriminate]. intros _.
  destruct (parse_spelling_sound _ _ E) as [R W]. exists (ws_l sp), (core sp), (ws_r sp).
  rewrite <- R, render_core. pose proof (core_ascii sp W) as CA. destruct W as (W1 & W2 & _). repeat split; auto.
Qed.
