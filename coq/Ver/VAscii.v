(* An accepted version string consists of ASCII characters between its surrounding whitespace. *)
From Coq Require Import List Arith NArith Bool Lia.
Import ListNotations.
Require Import VParse VComplete VTop VTop2 VDec Py VMeaning SpecModel VCanon VCanon2.
Open Scope N_scope.
Arguments N.eqb : simpl never.
Arguments N.leb : simpl never.
Arguments N.ltb : simpl never.

(* a predicate on characters satisfied by everything the grammar can produce outside the whitespace margins *)
Section Chars.
Variable P : char -> bool.
Hypothesis P_digit : forall c, is_digit c = true -> P c = true.
Hypothesis P_sep : forall c, is_sep c = true -> P c = true.
Hypothesis P_letter : forall c, is_lower (lc c) = true -> P c = true.
Hypothesis P_bang : P 33 = true.
Hypothesis P_plus : P 43 = true.

Definition allP (s : str) : bool := forallb P s.
Lemma allP_app a b : allP (a ++ b) = allP a && allP b.  Proof. apply forallb_app. Qed.
Lemma alnum_ci_P c : is_alnum_ci c = true -> P c = true.
Proof. unfold is_alnum_ci. intros H. apply orb_prop in H as [H|H]; auto. Qed.
Lemma all_P q s : (forall c, q c = true -> P c = true) -> forallb q s = true -> allP s = true.
Proof.
  intros Hp. induction s as [|c s IH]; cbn [forallb allP]; auto. intros H. apply andb_prop in H as [A B].
  rewrite (Hp c A). exact (IH B).
Qed.
Lemma digits_P s : forallb is_digit s = true -> allP s = true.   Proof. apply all_P, P_digit. Qed.
Lemma wf_digits_P s : wf_digits s = true -> allP s = true.
Proof. unfold wf_digits. intros H. apply andb_prop in H as [_ H]. now apply digits_P. Qed.
Lemma wf_alnum_P s : wf_alnum s = true -> allP s = true.
Proof. unfold wf_alnum. intros H. apply andb_prop in H as [_ H]. revert H. apply all_P, alnum_ci_P. Qed.
Lemma word_P w ws : In (map lc w) ws -> forallb (forallb is_lower) ws = true -> allP w = true.
Proof.
  intros Hin Hall. rewrite forallb_forall in Hall. specialize (Hall _ Hin). clear Hin.
  induction w as [|c w IH]; cbn [forallb map allP] in *; auto. apply andb_prop in Hall as [A B].
  rewrite (P_letter c A). exact (IH B).
Qed.
Lemma osep_P o : match o with Some c => is_sep c = true | None => True end -> allP (r_osep o) = true.
Proof. destruct o as [c|]; cbn; auto. intros H. now rewrite (P_sep c H). Qed.
Lemma lv_P words l : forallb (forallb is_lower) words = true -> wf_lv words l -> allP (r_lv l) = true.
Proof.
  intros Hw (Hin & Hn & H1 & H2). unfold r_lv. rewrite !allP_app.
  rewrite (osep_P _ H1), (osep_P _ H2), (word_P _ _ Hin Hw), (digits_P _ Hn). reflexivity.
Qed.
Lemma P_dot : P 46 = true.   Proof. apply P_sep. reflexivity. Qed.
Lemma P_dash : P 45 = true.  Proof. apply P_sep. reflexivity. Qed.
Lemma rels_P l : forallb wf_digits l = true -> allP (r_rels l) = true.
Proof.
  induction l as [|d l IH]; cbn [r_rels forallb]; auto. intros H. apply andb_prop in H as [A B].
  change (46 :: d ++ r_rels l) with ([46] ++ d ++ r_rels l). rewrite !allP_app, (wf_digits_P d A), (IH B). cbn. now rewrite P_dot.
Qed.
Lemma segs_P l : forallb (fun cs => is_sep (fst cs) && wf_alnum (snd cs)) l = true -> allP (r_segs l) = true.
Proof.
  induction l as [|[c s] l IH]; cbn [r_segs forallb fst snd]; auto. intros H. apply andb_prop in H as [A B].
  apply andb_prop in A as [A1 A2]. change (c :: s ++ r_segs l) with ([c] ++ s ++ r_segs l).
  rewrite !allP_app, (wf_alnum_P s A2), (IH B). cbn. now rewrite (P_sep c A1).
Qed.
Lemma vpre_P o : match o with Some c => lc c = 118 | None => True end -> allP (r_osep o) = true.
Proof. destruct o as [c|]; cbn; auto. intros Hv. assert (is_lower (lc c) = true) by (rewrite Hv; reflexivity). now rewrite (P_letter c H). Qed.
Lemma ep_P o : match o with Some e => wf_digits e = true | None => True end -> allP (r_opt r_ep o) = true.
Proof. destruct o as [e|]; cbn [r_opt]; auto. intros He. unfold r_ep. rewrite allP_app, (wf_digits_P e He). cbn. now rewrite P_bang. Qed.
Lemma pre_P o : match o with Some l => wf_lv pre_words l | None => True end -> allP (r_opt r_lv o) = true.
Proof. destruct o as [l|]; cbn [r_opt]; auto. now apply (lv_P pre_words). Qed.
Lemma dev_P o : match o with Some l => wf_lv dev_words l | None => True end -> allP (r_opt r_lv o) = true.
Proof. destruct o as [l|]; cbn [r_opt]; auto. now apply (lv_P dev_words). Qed.
Lemma post_P o : match o with Some p => wf_post p | None => True end -> allP (r_opt r_post o) = true.
Proof.
  destruct o as [[d|l]|]; cbn [r_opt r_post wf_post]; auto.
  - intros H. change (45 :: d) with ([45] ++ d). rewrite allP_app, (wf_digits_P d H). cbn. now rewrite P_dash.
  - now apply (lv_P post_words).
Qed.
Lemma loc_P o : match o with Some l => wf_loc l = true | None => True end -> allP (r_opt r_loc o) = true.
Proof.
  destruct o as [[h t]|]; cbn [r_opt]; auto. intros Hloc. unfold wf_loc in Hloc; cbn [fst snd] in Hloc. apply andb_prop in Hloc as [H1 H2].
  unfold r_loc; cbn [fst snd]. change (43 :: h ++ r_segs t) with ([43] ++ h ++ r_segs t).
  rewrite !allP_app, (wf_alnum_P h H1), (segs_P t H2). cbn. now rewrite P_plus.
Qed.

Definition core (sp : spelling) : str :=
  r_osep (vpre sp) ++ r_opt r_ep (ep sp) ++ rel0 sp ++ r_rels (rels sp) ++
  r_opt r_lv (spre sp) ++ r_opt r_post (spost sp) ++ r_opt r_lv (sdev sp) ++ r_opt r_loc (sloc sp).
Lemma render_core sp : render sp = ws_l sp ++ core sp ++ ws_r sp.
Proof. unfold render, core. now rewrite <- !app_assoc. Qed.
Lemma core_P sp : wf_spelling sp -> allP (core sp) = true.
Proof.
  intros (_ & _ & Hv & He & Hr0 & Hrs & Hpre & Hpost & Hdev & Hloc). unfold core. rewrite !allP_app.
  rewrite (vpre_P _ Hv), (ep_P _ He), (wf_digits_P _ Hr0), (rels_P _ Hrs), (pre_P _ Hpre), (post_P _ Hpost), (dev_P _ Hdev), (loc_P _ Hloc).
  reflexivity.
Qed.
End Chars.

Definition is_ascii (c : char) : bool := c <? 128.
Lemma lc_ascii c : is_lower (lc c) = true -> is_ascii c = true.
Proof.
  unfold lc, is_lower, is_ascii. destruct ((65 <=? c) && (c <=? 90)) eqn:U.
  - apply andb_prop in U as [A B]. apply N.leb_le in B. intros _. apply N.ltb_lt. lia.
  - intros H. apply andb_prop in H as [A B]. apply N.leb_le in B. apply N.ltb_lt. lia.
Qed.
Lemma digit_ascii c : is_digit c = true -> is_ascii c = true.
Proof. intros H. apply digit_range in H. unfold is_ascii. apply N.ltb_lt. lia. Qed.
Lemma sep_ascii c : is_sep c = true -> is_ascii c = true.
Proof.
  unfold is_sep, is_ascii. intros H. apply N.ltb_lt.
  apply orb_prop in H as [H|H]; [apply orb_prop in H as [H|H]|]; apply N.eqb_eq in H; lia.
Qed.
Lemma core_ascii sp : wf_spelling sp -> forallb is_ascii (core sp) = true.
Proof. apply (core_P is_ascii digit_ascii sep_ascii lc_ascii); reflexivity. Qed.

Theorem version_core_ascii s v : Version s = Some v ->
  exists wl co wr, s = wl ++ co ++ wr /\ forallb is_ws wl = true /\ forallb is_ws wr = true /\ forallb is_ascii co = true.
Proof.
  unfold Version. destruct (parse_spelling s) as [sp|] eqn:E; [|discriminate]. intros _.
  destruct (parse_spelling_sound _ _ E) as [R W]. exists (ws_l sp), (core sp), (ws_r sp).
  rewrite <- R, render_core. pose proof (core_ascii sp W) as CA. destruct W as (W1 & W2 & _). repeat split; auto.
Qed.
