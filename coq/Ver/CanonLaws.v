(* Laws of canonicalize_version (model: Canon.canon) and of the string-valued properties, on parsed strings. *)
From Coq Require Import List Arith NArith Bool Lia.
Import ListNotations.
Require Import S1 VParse VComplete VTop VTop2 VDec Py VMeaning VCanon VCanon2 VCanon3 VCmp SpecModel SpecOps Order Canon VWf VKeyEq.
Open Scope N_scope.

Lemma Version_vstr v : VMeaning.wf_version v -> Version (vstr v) = Some v.
Proof. intros W. unfold Version. now apply parse_vstr. Qed.

Lemma trim_rel_idem r : trim_rel (trim_rel r) = trim_rel r.
Proof.
  unfold trim_rel at 1. rewrite strip'_trim. unfold trim_rel. destruct (strip' r) as [|x s] eqn:E; auto.
  destruct r; reflexivity.
Qed.
Lemma trim_idem v : trim (trim v) = trim v.
Proof. unfold trim; cbn. now rewrite trim_rel_idem. Qed.

Lemma canon_idem z s : canon z (canon z s) = canon z s.
Proof.
  destruct (Version s) as [v|] eqn:E.
  - pose proof (Version_wf _ _ E) as W.
    assert (C : canon z s = if z then vstr (trim v) else vstr v) by (unfold canon; now rewrite E).
    rewrite C. destruct z; unfold canon.
    + rewrite (Version_vstr _ (wf_trim _ W)). now rewrite trim_idem.
    + now rewrite (Version_vstr _ W).
  - assert (C : canon z s = s) by (unfold canon; now rewrite E). now rewrite !C.
Qed.

Lemma cmp_trim v : VMeaning.wf_version v -> pep440_cmp v (trim v) = Eq.
Proof.
  intros W. apply (C02_canon_complete_invariant v (trim v) W (wf_trim v W)). now rewrite trim_idem.
Qed.

Lemma canon_reparse z s v : Version s = Some v -> exists v', Version (canon z s) = Some v' /\ pep440_cmp v v' = Eq.
Proof.
  intros E. pose proof (Version_wf _ _ E) as W. unfold canon. rewrite E. destruct z.
  - exists (trim v). split; [apply Version_vstr, wf_trim, W | now apply cmp_trim].
  - exists v. split; [now apply Version_vstr | apply (ok_refl _ pep440_cmp_ok)].
Qed.

Lemma canon_complete a b x y : Version a = Some x -> Version b = Some y ->
  (canon true a = canon true b <-> pep440_cmp x y = Eq).
Proof.
  intros Ha Hb. unfold canon. rewrite Ha, Hb.
  apply C02_canon_complete_invariant; eapply Version_wf; eassumption.
Qed.
