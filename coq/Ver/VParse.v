From Coq Require Import List NArith Bool Lia.
Import ListNotations.
Open Scope N_scope.

Notation char := N (only parsing).
Notation str := (list N) (only parsing).

(* ---------------- character classes ---------------- *)
Definition is_digit (c : char) := (48 <=? c) && (c <=? 57).
Definition is_sep (c : char) := (c =? 45) || (c =? 46) || (c =? 95).
Definition ws_table : list char :=
  [9;10;11;12;13;28;29;30;31;32;133;160;5760;8192;8193;8194;8195;8196;8197;8198;8199;8200;8201;8202;8232;8233;8239;8287;12288].
Definition is_ws (c : char) := existsb (N.eqb c) ws_table.
(* the ASCII letter a character is equivalent to under re.IGNORECASE inside the (?a:...) group of Version._regex *)
Definition lc (c : char) : char :=
  if (65 <=? c) && (c <=? 90) then c + 32 else c.
Definition is_lower (c : char) := (97 <=? c) && (c <=? 122).
Definition is_alnum_ci (c : char) := is_digit c || is_lower (lc c).

(* ---------------- scanning primitives ---------------- *)
Fixpoint span (p : char -> bool) (s : str) : str * str :=
  match s with
  | c :: t => if p c then let '(a, r) := span p t in (c :: a, r) else ([], s)
  | [] => ([], [])
  end.
Definition opt_sep (s : str) : option char * str :=
  match s with c :: t => if is_sep c then (Some c, t) else (None, s) | [] => (None, []) end.
(* match the lower-case ASCII word w case-insensitively at the head of s; return the text as spelled *)
Fixpoint match_word (w s : str) : option (str * str) :=
  match w, s with
  | [], _ => Some ([], s)
  | p :: w', c :: t => if lc c =? p then
        match match_word w' t with Some (a, r) => Some (c :: a, r) | None => None end else None
  | _ :: _, [] => None
  end.
Fixpoint first_word (ws : list str) (s : str) : option (str * str) :=
  match ws with
  | [] => None
  | w :: ws' => match match_word w s with Some r => Some r | None => first_word ws' s end
  end.

Definition lit (l : list N) : str := l.
Definition w_alpha := [97;108;112;104;97]. Definition w_a := [97].
Definition w_beta := [98;101;116;97].      Definition w_b := [98].
Definition w_preview := [112;114;101;118;105;101;119]. Definition w_pre := [112;114;101].
Definition w_c := [99]. Definition w_rc := [114;99].
Definition w_post := [112;111;115;116]. Definition w_rev := [114;101;118]. Definition w_r := [114].
Definition w_dev := [100;101;118].
Definition pre_words := [w_alpha; w_a; w_beta; w_b; w_preview; w_pre; w_c; w_rc].
Definition post_words := [w_post; w_rev; w_r].
Definition dev_words := [w_dev].

(* ---------------- spelling (parse tree) ---------------- *)
Record lv_sp := { l_sep1 : option char; l_word : str; l_sep2 : option char; l_num : str (* digits, maybe empty *) }.
Inductive post_sp := PostImplicit (digits : str) | PostWord (l : lv_sp).
Record spelling := {
  ws_l : str; vpre : option char; ep : option str;
  rel0 : str; rels : list str;
  spre : option lv_sp; spost : option post_sp; sdev : option lv_sp;
  sloc : option (str * list (char * str));
  ws_r : str }.

Definition r_osep (o : option char) : str := match o with Some c => [c] | None => [] end.
Definition r_lv (l : lv_sp) : str := r_osep (l_sep1 l) ++ l_word l ++ r_osep (l_sep2 l) ++ l_num l.
Definition r_post (p : post_sp) : str := match p with PostImplicit d => 45 :: d | PostWord l => r_lv l end.
Definition r_opt {A} (f : A -> str) (o : option A) : str := match o with Some a => f a | None => [] end.
Fixpoint r_rels (l : list str) : str := match l with [] => [] | d :: t => 46 :: d ++ r_rels t end.
Fixpoint r_segs (l : list (char * str)) : str := match l with [] => [] | (c, s) :: t => c :: s ++ r_segs t end.
Definition r_loc (l : str * list (char * str)) : str := 43 :: fst l ++ r_segs (snd l).
Definition r_ep (e : str) : str := e ++ [33].
Definition render (sp : spelling) : str :=
  ws_l sp ++ r_osep (vpre sp) ++ r_opt r_ep (ep sp) ++ rel0 sp ++ r_rels (rels sp) ++
  r_opt r_lv (spre sp) ++ r_opt r_post (spost sp) ++ r_opt r_lv (sdev sp) ++ r_opt r_loc (sloc sp) ++ ws_r sp.

(* ---------------- the scanner (model of Version._regex.search) ---------------- *)
Definition p_lv (words : list str) (s : str) : option (lv_sp * str) :=
  let '(s1, t1) := opt_sep s in
  match first_word words t1 with
  | None => None
  | Some (w, t2) =>
      let '(s2, t3) := opt_sep t2 in
      let '(n, t4) := span is_digit t3 in
      Some ({| l_sep1 := s1; l_word := w; l_sep2 := s2; l_num := n |}, t4)
  end.
Definition hd_is (p : char -> bool) (r : str) : bool := match r with c :: _ => p c | [] => false end.
Definition hd2_is (c0 : char) (p : char -> bool) (s : str) : bool :=
  match s with c :: t => (c =? c0) && hd_is p t | [] => false end.
Definition p_post (s : str) : option (post_sp * str) :=
  if hd2_is 45 is_digit s then
    let '(n, r) := span is_digit (tl s) in Some (PostImplicit n, r)
  else match p_lv post_words s with Some (l, r) => Some (PostWord l, r) | None => None end.
Fixpoint p_rels (fuel : nat) (s : str) : list str * str :=
  match fuel with
  | O => ([], s)
  | S f =>
    if hd2_is 46 is_digit s then
      let '(n, r) := span is_digit (tl s) in
      let '(more, r') := p_rels f r in (n :: more, r')
    else ([], s)
  end.
Fixpoint p_segs (fuel : nat) (s : str) : list (char * str) * str :=
  match fuel with
  | O => ([], s)
  | S f =>
    match s with
    | c :: t =>
        if is_sep c && hd_is is_alnum_ci t then
          let '(n, r) := span is_alnum_ci t in
          let '(more, r') := p_segs f r in ((c, n) :: more, r')
        else ([], s)
    | [] => ([], s)
    end
  end.
Definition p_loc (s : str) : option ((str * list (char * str)) * str) :=
  match s with
  | c :: t =>
      if (c =? 43) && hd_is is_alnum_ci t then
        let '(n, r) := span is_alnum_ci t in
        let '(more, r') := p_segs (length r) r in Some ((n, more), r')
      else None
  | [] => None
  end.
Definition p_opt {A} (p : str -> option (A * str)) (s : str) : option A * str :=
  match p s with Some (a, r) => (Some a, r) | None => (None, s) end.
Definition p_v (s : str) : option char * str :=
  match s with c :: t => if lc c =? 118 then (Some c, t) else (None, s) | [] => (None, []) end.

Definition nonempty (s : str) : bool := match s with [] => false | _ => true end.
Definition parse_spelling (s : str) : option spelling :=
  let '(wl, s1) := span is_ws s in
  let '(v, s2) := p_v s1 in
  let '(d1, s3) := span is_digit s2 in
  if negb (nonempty d1) then None else
    let '(e, r0, s4) :=
       if hd_is (N.eqb 33) s3 then let '(d2, t') := span is_digit (tl s3) in (Some d1, d2, t')
       else (None, d1, s3) in
    if negb (nonempty r0) then None else
      let '(rs, s5) := p_rels (length s4) s4 in
      let '(pr, s6) := p_opt (p_lv pre_words) s5 in
      let '(po, s7) := p_opt p_post s6 in
      let '(dv, s8) := p_opt (p_lv dev_words) s7 in
      let '(lo, s9) := p_opt p_loc s8 in
      if forallb is_ws s9 then
        Some {| ws_l := wl; vpre := v; ep := e; rel0 := r0; rels := rs;
                spre := pr; spost := po; sdev := dv; sloc := lo; ws_r := s9 |}
      else None.

(* quick sanity *)
Definition S_ (l : list N) := l.
Eval vm_compute in option_map render (parse_spelling [32;118;49;33;50;46;48;97;45;49;46;100;101;118;43;97;46;49;10]).
Eval vm_compute in parse_spelling [49;46;48;97;45;49].
Eval vm_compute in parse_spelling [49;46;48;45;49].
Eval vm_compute in parse_spelling [49;46;48;45;49;45].

(* ---------------- soundness: the scanner returns what it consumed ---------------- *)
Lemma span_sound p s a r : span p s = (a, r) -> s = a ++ r /\ forallb p a = true.
Proof.
  revert a r; induction s as [|c s IH]; intros a r; simpl.
  - intros [= <- <-]; auto.
  - destruct (p c) eqn:E.
    + destruct (span p s) as [a' r'] eqn:F. intros [= <- <-]. destruct (IH _ _ eq_refl) as [-> H].
      simpl. rewrite E, H. auto.
    + intros [= <- <-]; auto.
Qed.
Lemma opt_sep_sound s o r : opt_sep s = (o, r) -> s = r_osep o ++ r.
Proof. destruct s as [|c t]; simpl. intros [= <- <-]; auto. destruct (is_sep c); intros [= <- <-]; auto. Qed.
Lemma match_word_sound w : forall s a r, match_word w s = Some (a, r) -> s = a ++ r /\ map lc a = w.
Proof.
  induction w as [|p w IH]; intros s a r; simpl.
  - intros [= <- <-]; auto.
  - destruct s as [|c t]; [discriminate|]. destruct (lc c =? p) eqn:E; [|discriminate].
    destruct (match_word w t) as [[a' r']|] eqn:F; [|discriminate]. intros [= <- <-].
    destruct (IH _ _ _ F) as [-> <-]. apply N.eqb_eq in E. subst. auto.
Qed.
Lemma first_word_sound ws : forall s a r, first_word ws s = Some (a, r) -> s = a ++ r /\ In (map lc a) ws.
Proof.
  induction ws as [|w ws IH]; intros s a r; simpl; [discriminate|].
  destruct (match_word w s) as [[a' r']|] eqn:F.
  - intros [= <- <-]. destruct (match_word_sound _ _ _ _ F); auto.
  - intros H. destruct (IH _ _ _ H); auto.
Qed.
Definition wf_lv (words : list str) (l : lv_sp) : Prop :=
  In (map lc (l_word l)) words /\ forallb is_digit (l_num l) = true /\
  (match l_sep1 l with Some c => is_sep c = true | None => True end) /\
  (match l_sep2 l with Some c => is_sep c = true | None => True end).
Lemma opt_sep_wf s o r : opt_sep s = (o, r) -> match o with Some c => is_sep c = true | None => True end.
Proof. destruct s as [|c t]; simpl. intros [= <- <-]; auto. destruct (is_sep c) eqn:E; intros [= <- <-]; auto. Qed.
Lemma p_lv_sound words s l r : p_lv words s = Some (l, r) -> s = r_lv l ++ r /\ wf_lv words l.
Proof.
  unfold p_lv. destruct (opt_sep s) as [s1 t1] eqn:E1.
  destruct (first_word words t1) as [[w t2]|] eqn:E2; [|discriminate].
  destruct (opt_sep t2) as [s2 t3] eqn:E3. destruct (span is_digit t3) as [n t4] eqn:E4.
  intros [= <- <-]. apply opt_sep_sound in E1 as H1. apply first_word_sound in E2 as [H2 H2'].
  apply opt_sep_sound in E3 as H3. apply span_sound in E4 as [H4 H4'].
  subst. unfold r_lv; cbn. rewrite <- !app_assoc. split; [reflexivity|].
  repeat split; auto; eapply opt_sep_wf; eauto.
Qed.
