From Coq Require Import List NArith Bool Lia.
Import ListNotations.
Open Scope N_scope.

Notation char := N (only parsing).
Notation str := (list N) (only parsing).

(* ---- Python values that occur inside Version._key ---- *)
Inductive pv := PInt (n : N) | PStr (s : str) | PTup (l : list pv) | PNegInf | PPosInf.

Inductive cop := Lt_ | Le_ | Eq_ | Ne_ | Ge_ | Gt_.

(* code-point lexicographic comparison of str, as CPython's unicode compare *)
Fixpoint str_cmp (a b : str) : comparison :=
  match a, b with
  | [], [] => Eq | [], _ => Lt | _, [] => Gt
  | x :: a', y :: b' => match x ?= y with Eq => str_cmp a' b' | c => c end
  end.

Definition of_cmp (o : cop) (c : comparison) : bool :=
  match o, c with
  | Lt_, Lt => true | Le_, (Lt|Eq) => true | Eq_, Eq => true
  | Ne_, (Lt|Gt) => true | Ge_, (Gt|Eq) => true | Gt_, Gt => true
  | _, _ => false end.

(* the dunder methods of the two sentinels, verbatim from _structures.py *)
Definition posinf_meth (o : cop) (other_is_posinf : bool) : bool :=
  match o with Lt_ => false | Le_ => false | Eq_ => other_is_posinf
             | Ne_ => negb other_is_posinf (* default __ne__ = not __eq__ *)
             | Gt_ => true | Ge_ => true end.
Definition neginf_meth (o : cop) (other_is_neginf : bool) : bool :=
  match o with Lt_ => true | Le_ => true | Eq_ => other_is_neginf
             | Ne_ => negb other_is_neginf
             | Gt_ => false | Ge_ => false end.
Definition swap (o : cop) : cop :=
  match o with Lt_ => Gt_ | Le_ => Ge_ | Eq_ => Eq_ | Ne_ => Ne_ | Ge_ => Le_ | Gt_ => Lt_ end.
Definition is_posinf v := match v with PPosInf => true | _ => false end.
Definition is_neginf v := match v with PNegInf => true | _ => false end.

(* rich comparison  x <o> y ; None = TypeError *)
Fixpoint rich (o : cop) (x y : pv) {struct x} : option bool :=
  match x, y with
  | PPosInf, _ => Some (posinf_meth o (is_posinf y))
  | PNegInf, _ => Some (neginf_meth o (is_neginf y))
  | _, PPosInf => Some (posinf_meth (swap o) false)     (* x's method returns NotImplemented; reflected *)
  | _, PNegInf => Some (neginf_meth (swap o) false)
  | PInt a, PInt b => Some (of_cmp o (a ?= b))
  | PStr a, PStr b => Some (of_cmp o (str_cmp a b))
  | PTup a, PTup b =>
      (* tuplerichcompare: first index where elements are not ==, then apply o there *)
      (fix go (a b : list pv) {struct a} : option bool :=
         match a, b with
         | [], [] => Some (of_cmp o Eq)
         | [], _ :: _ => Some (of_cmp o Lt)
         | _ :: _, [] => Some (of_cmp o Gt)
         | x :: a', y :: b' =>
             match rich Eq_ x y with
             | None => None
             | Some true => go a' b'
             | Some false =>
                 match o with
                 | Eq_ => Some false | Ne_ => Some true
                 | _ => rich o x y end
             end
         end) a b
  | _, _ => match o with Eq_ => Some false | Ne_ => Some true | _ => None end
  end.

(* ---- _Version and _cmpkey ---- *)
Record version := { epoch : N; release : list N;
  pre : option (str * N); post : option (str * N); dev : option (str * N);
  local : option (list (N + str)) }.

Fixpoint dropwhile0 (l : list N) := match l with 0 :: t => dropwhile0 t | _ => l end.
Definition strip0 (l : list N) := rev (dropwhile0 (rev l)).
Definition ptup2 (p : str * N) := PTup [PStr (fst p); PInt (snd p)].
Definition key (v : version) : pv :=
  let _pre := match pre v, post v, dev v with
              | None, None, Some _ => PNegInf
              | None, _, _ => PPosInf
              | Some p, _, _ => ptup2 p end in
  let _post := match post v with None => PNegInf | Some p => ptup2 p end in
  let _dev := match dev v with None => PPosInf | Some p => ptup2 p end in
  let _local := match local v with
                | None => PNegInf
                | Some l => PTup (map (fun i => match i with
                                               | inl n => PTup [PInt n; PStr []]
                                               | inr s => PTup [PNegInf; PStr s] end) l) end in
  PTup [PInt (epoch v); PTup (map PInt (strip0 (release v))); _pre; _post; _dev; _local].

Definition L (s : list N) := s.
Definition a_ := [97]. Definition b_ := [98]. Definition rc_ := [114;99].
Definition post_ := [112;111;115;116]. Definition dev_ := [100;101;118].
Definition V e r p po d l := {| epoch:=e; release:=r; pre:=p; post:=po; dev:=d; local:=l |}.
(* 1.0.dev1 < 1.0a1 < 1.0a1.post1.dev0 < 1.0a1.post1 < 1.0rc1 < 1.0 < 1.0+a < 1.0+1 < 1.0.post0 *)
Definition vs := [ V 0 [1;0] None None (Some (dev_,1)) None;
                   V 0 [1;0] (Some (a_,1)) None None None;
                   V 0 [1;0] (Some (a_,1)) (Some (post_,1)) (Some (dev_,0)) None;
                   V 0 [1;0] (Some (a_,1)) (Some (post_,1)) None None;
                   V 0 [1] (Some (rc_,1)) None None None;
                   V 0 [1;0;0] None None None None;
                   V 0 [1] None None None (Some [inr a_]);
                   V 0 [1;0] None None None (Some [inl 1]);
                   V 0 [1;0] None (Some (post_,0)) None None ].
Fixpoint chain (l : list version) : list (option bool) :=
  match l with x :: ((y :: _) as t) => rich Lt_ (key x) (key y) :: rich Ge_ (key x) (key y) :: chain t | _ => [] end.
Eval vm_compute in chain vs.
