(* Sorting gives one answer: two ascending arrangements of the same multiset agree position by position up to the order's equivalence.
   Generic over a comparison that is a total preorder (Order.cmp_ok); independent of the sorting algorithm. *)
From Coq Require Import List Arith Bool Lia Permutation.
Import ListNotations.
Require Import Order.

Section SU.
Context {A : Type} (f : A -> A -> comparison).
Hypothesis OK : cmp_ok f.

Definition le (x y : A) : bool := match f x y with Gt => false | _ => true end.
Definition lt (x y : A) : bool := match f x y with Lt => true | _ => false end.

(* ascending: no element is greater than its successor *)
Fixpoint ascending (l : list A) : Prop :=
  match l with x :: ((y :: _) as t) => le x y = true /\ ascending t | _ => True end.

Lemma le_refl x : le x x = true.
Proof. unfold le. now rewrite (ok_refl f OK). Qed.
Lemma le_trans x y z : le x y = true -> le y z = true -> le x z = true.
Proof.
  unfold le. destruct (f x y) eqn:E1; try discriminate; destruct (f y z) eqn:E2; try discriminate; intros _ _.
  - now rewrite <- (ok_trans_eq f OK x y z E1), E2.
  - now rewrite <- (ok_trans_eq f OK x y z E1), E2.
  - rewrite (ok_trans_lt f OK x y z E1); [reflexivity | rewrite E2; discriminate].
  - rewrite (ok_trans_lt f OK x y z E1); [reflexivity | rewrite E2; discriminate].
Qed.
Lemma lt_le_trans x y z : lt x y = true -> le y z = true -> lt x z = true.
Proof.
  unfold lt, le. destruct (f x y) eqn:E1; try discriminate. intros _ H.
  rewrite (ok_trans_lt f OK x y z E1); [reflexivity | destruct (f y z); congruence].
Qed.
Lemma le_lt_trans x y z : le x y = true -> lt y z = true -> lt x z = true.
Proof.
  unfold lt, le. destruct (f x y) eqn:E1; try discriminate; intros _; destruct (f y z) eqn:E2; try discriminate; intros _.
  - now rewrite <- (ok_trans_eq f OK x y z E1), E2.
  - rewrite (ok_trans_lt f OK x y z E1); [reflexivity | rewrite E2; discriminate].
Qed.
Lemma lt_not_le x y : lt x y = true -> le y x = false.
Proof. unfold lt, le. rewrite (ok_sym f OK x y). destruct (f x y); cbn; congruence. Qed.
Lemma not_le_lt x y : le x y = false -> lt y x = true.
Proof. unfold lt, le. rewrite (ok_sym f OK x y). destruct (f x y); cbn; congruence. Qed.

Lemma ascending_tail x l : ascending (x :: l) -> ascending l.
Proof. destruct l; cbn; tauto. Qed.
Lemma ascending_head_le x l : ascending (x :: l) -> forall y, In y l -> le x y = true.
Proof.
  revert x. induction l as [|a l IH]; intros x H y Hy; [destruct Hy|].
  destruct H as [H1 H2]. destruct Hy as [<-|Hy]; auto. apply (le_trans x a y H1). now apply IH.
Qed.
Lemma ascending_app_le p x s : ascending (p ++ x :: s) -> (forall y, In y p -> le y x = true) /\ (forall y, In y s -> le x y = true).
Proof.
  induction p as [|a p IH]; cbn [app]; intros H.
  - split; [intros y []|]. now apply ascending_head_le.
  - destruct (IH (ascending_tail _ _ H)) as [H1 H2]. split; auto. intros y [<-|Hy]; auto.
    apply (ascending_head_le a _ H). apply in_or_app. right. now left.
Qed.

(* counting *)
Definition count (p : A -> bool) (l : list A) : nat := length (filter p l).
Lemma count_perm p l l' : Permutation l l' -> count p l = count p l'.
Proof.
  unfold count. induction 1; cbn; auto.
  - destruct (p x); cbn; auto.
  - destruct (p x), (p y); cbn; auto.
  - congruence.
Qed.
Lemma count_app p a b : count p (a ++ b) = (count p a + count p b)%nat.
Proof. unfold count. now rewrite filter_app, app_length. Qed.
Lemma count_all p l : (forall y, In y l -> p y = true) -> count p l = length l.
Proof.
  unfold count. induction l as [|a l IH]; cbn; auto. intros H. rewrite (H a (or_introl eq_refl)). cbn. f_equal. apply IH. intros y Hy. apply H. now right.
Qed.
Lemma count_none p l : (forall y, In y l -> p y = false) -> count p l = 0%nat.
Proof.
  unfold count. induction l as [|a l IH]; cbn; auto. intros H. rewrite (H a (or_introl eq_refl)). apply IH. intros y Hy. apply H. now right.
Qed.
Lemma count_le_length p l : (count p l <= length l)%nat.
Proof. unfold count. induction l as [|a l IH]; cbn; auto. destruct (p a); cbn; lia. Qed.
Lemma count_mono p q l : (forall y, p y = true -> q y = true) -> (count p l <= count q l)%nat.
Proof.
  intros H. unfold count. induction l as [|a l IH]; cbn; auto. destruct (p a) eqn:P.
  - rewrite (H a P). cbn. lia.
  - destruct (q a); cbn; lia.
Qed.

(* in an ascending list, at least (position+1) elements are <= the element at a position, and at most (position) are < it *)
Lemma rank_le p x s : ascending (p ++ x :: s) -> (length p + 1 <= count (fun y => le y x) (p ++ x :: s))%nat.
Proof.
  intros H. destruct (ascending_app_le p x s H) as [H1 _]. rewrite count_app. rewrite (count_all _ p H1).
  unfold count at 1. cbn [filter]. rewrite le_refl. cbn [length]. lia.
Qed.
Lemma rank_lt p x s : ascending (p ++ x :: s) -> (count (fun y => lt y x) (p ++ x :: s) <= length p)%nat.
Proof.
  intros H. destruct (ascending_app_le p x s H) as [_ H2]. rewrite count_app.
  assert (Z : count (fun y => lt y x) (x :: s) = 0%nat).
  { apply count_none. intros y [<-|Hy].
    - unfold lt. now rewrite (ok_refl f OK).
    - destruct (lt y x) eqn:L; auto. apply lt_not_le in L. rewrite (H2 y Hy) in L. discriminate. }
  rewrite Z. pose proof (count_le_length (fun y => lt y x) p). lia.
Qed.

(* the same multiset up to equivalence: equally many elements below / at-or-below every bound *)
Definition same_counts (l1 l2 : list A) : Prop :=
  length l1 = length l2 /\ forall x, count (fun y => le y x) l1 = count (fun y => le y x) l2 /\ count (fun y => lt y x) l1 = count (fun y => lt y x) l2.
Lemma perm_same_counts l1 l2 : Permutation l1 l2 -> same_counts l1 l2.
Proof. intros P. split; [now apply Permutation_length|]. intros x. split; now apply count_perm. Qed.
Lemma equiv_same_counts l1 l2 : Forall2 (fun a b => f a b = Eq) l1 l2 -> same_counts l1 l2.
Proof.
  intros H. split; [induction H; cbn; congruence|]. intros x. unfold count. induction H as [|a b l1 l2 E H IH]; [split; reflexivity|].
  destruct IH as [I1 I2]. cbn [filter]. unfold le, lt in *. rewrite (ok_trans_eq f OK a b x E).
  split; [destruct (f a x); cbn [length]; congruence | destruct (f a x); cbn [length]; congruence].
Qed.
Lemma same_counts_trans l1 l2 l3 : same_counts l1 l2 -> same_counts l2 l3 -> same_counts l1 l3.
Proof. intros [L1 H1] [L2 H2]. split; [congruence|]. intros x. destruct (H1 x), (H2 x). split; congruence. Qed.

Theorem same_position_equivalent l1 l2 p1 x s1 p2 y s2 :
  ascending l1 -> ascending l2 -> same_counts l1 l2 -> l1 = p1 ++ x :: s1 -> l2 = p2 ++ y :: s2 -> length p1 = length p2 -> f x y = Eq.
Proof.
  intros A1 A2 [_ P] -> -> L.
  destruct (f x y) eqn:E; auto; exfalso.
  - (* x < y: everything <= x is < y *)
    pose proof (rank_le p1 x s1 A1) as R1. pose proof (rank_lt p2 y s2 A2) as R2.
    rewrite (proj1 (P x)) in R1.
    pose proof (count_mono (fun z => le z x) (fun z => lt z y) (p2 ++ y :: s2)) as M.
    assert (Hm : forall z, le z x = true -> lt z y = true) by (intros z Hz; apply (le_lt_trans z x y Hz); unfold lt; now rewrite E).
    specialize (M Hm). lia.
  - pose proof (rank_le p2 y s2 A2) as R1. pose proof (rank_lt p1 x s1 A1) as R2.
    rewrite <- (proj1 (P y)) in R1.
    pose proof (count_mono (fun z => le z y) (fun z => lt z x) (p1 ++ x :: s1)) as M.
    assert (Hm : forall z, le z y = true -> lt z x = true).
    { intros z Hz. apply (le_lt_trans z y x Hz). unfold lt. rewrite (ok_sym f OK x y), E. reflexivity. }
    specialize (M Hm). lia.
Qed.

Lemma forall2_by_position (R : A -> A -> Prop) : forall l1 l2, length l1 = length l2 ->
  (forall p1 x s1 p2 y s2, l1 = p1 ++ x :: s1 -> l2 = p2 ++ y :: s2 -> length p1 = length p2 -> R x y) -> Forall2 R l1 l2.
Proof.
  induction l1 as [|a l1 IH]; intros [|b l2] L H; try discriminate; constructor.
  - apply (H [] a l1 [] b l2); reflexivity.
  - apply IH; [cbn in L; lia|]. intros p1 x s1 p2 y s2 -> -> Lp. apply (H (a :: p1) x s1 (b :: p2) y s2); cbn; auto.
Qed.

Theorem sorted_arrangements_agree l1 l2 : ascending l1 -> ascending l2 -> same_counts l1 l2 -> Forall2 (fun a b => f a b = Eq) l1 l2.
Proof.
  intros A1 A2 P. apply forall2_by_position; [exact (proj1 P)|].
  intros p1 x s1 p2 y s2 E1 E2 L. exact (same_position_equivalent l1 l2 p1 x s1 p2 y s2 A1 A2 P E1 E2 L).
Qed.
End SU.
