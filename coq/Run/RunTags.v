(* Observation commands of the interpreter-tag domain (C15), prefix `t.`.  Definitions only. *)
From Coq Require Import List NArith Bool String.
Import ListNotations.
Require Import VParse VDec Show Elf ElfFile Tags TagsLit TagsModel PlatLit PlatModel.
Open Scope N_scope.

(* list argument: every item is preceded by ","  ("" = [], ",a,b" = [a; b], "," = [""]) *)
Definition parse_list (s : list N) : list (list N) := tl (split_on 44 s).
Definition parse_nat (s : list N) : nat := N.to_nat (parse_N s).
(* python_version "3.11" / "3" / "3.11.4" *)
Definition parse_pv (s : list N) : pyver :=
  match map parse_nat (split_on 46 s) with [] => (0%nat, []) | M :: r => (M, r) end.
Definition parse_optN (s : list N) : option N := if seqb s [78] then None else Some (parse_N s).     (* "N" = None *)
Definition parse_optS (s : list N) : option (list N) :=                                              (* "N" = None, "S<text>" *)
  match s with c :: t => if c =? 83 then Some t else None | [] => None end.
(* abicfg "d,g,p,u,r,e,w" *)
Definition parse_cfg (s : list N) : abicfg :=
  let f := split_on 44 s in
  {| py_debug := parse_optN (nth_str 0 f); gil_disabled := parse_optN (nth_str 1 f); with_pymalloc := parse_optN (nth_str 2 f);
     unicode_size := parse_optN (nth_str 3 f); has_refcount := parse_bool (nth_str 4 f); has_ext := parse_bool (nth_str 5 f);
     wide_unicode := parse_bool (nth_str 6 f) |}.
Definition show_tags (l : list tag) : list N := join [44] (map tag_str l).

Definition obs_cpython (pv abis ps cfg : list N) : list N :=
  let v := parse_pv pv in
  let a := if seqb abis [63] then default_abis (parse_cfg cfg) v else parse_list abis in        (* "?" = None *)
  show_tags (cpython_tags v a (parse_list ps)).
Definition obs_compat (pv interp ps : list N) : list N :=
  show_tags (compatible_tags (parse_pv pv) (opt_interp interp) (parse_list ps)).
Definition obs_generic (interp abis ps : list N) : list N := show_tags (generic_tags interp (parse_list abis) (parse_list ps)).
Definition mk_sys (name nodot_var sysver ext cfg : list N) : syscfg :=
  {| impl_name := name; py_version_nodot := parse_optS nodot_var; sys_version := parse_pv sysver;
     ext_suffix := parse_optS ext; abi_cfg := parse_cfg cfg |}.
Definition obs_sys (name nodot_var sysver ext cfg plat : list N) : list N :=
  match sys_tags (mk_sys name nodot_var sysver ext cfg) [normalize_string plat] with
  | SOk l => show_tags l
  | SSystemError => asc "E"
  | SCrash => asc "!EXC:IndexError"
  end.
(* generic_tags("xx", None, ["p"]): the ABI list derived from EXT_SUFFIX *)
Definition obs_gabi (ext cfg sysver : list N) : list N :=
  match generic_abi (parse_optS ext) (parse_cfg cfg) (parse_pv sysver) with
  | GOk abis => show_tags (generic_tags (asc "xx") abis [asc "p"])
  | GSystemError => asc "E"
  | GCrash => asc "!EXC:IndexError"
  end.

(* ---- the generators with their default arguments (python_version None/(), abis None, platforms None/[], interpreter None/"") ----
   detected platforms: "G<sysconfig.get_platform()>" on a generic system (one platform), "D<mac_ver release>;<cpu>" on Darwin
   (platform.system() = "Darwin": mac_platforms() of PlatModel - many platforms); None = int() fails in mac_platforms *)
Definition parse_det (s : list N) : option (list (list N)) :=
  match s with
  | c :: t => if c =? 68 then match split_on 59 t with [ver; cpu] => mac_default ver cpu [] | _ => None end
              else Some [normalize_string t]
  | [] => Some []
  end.
Definition parse_opv (s : list N) : option pyver := match s with [] => None | _ :: _ => Some (parse_pv s) end.     (* "" = None *)
(* py_version_nodot: "N" = None, "S<text>" = a str, "I<digits>" = an int (the code applies str() to it) *)
Definition parse_nodot (s : list N) : option (list N) :=
  match s with
  | c :: t => if c =? 83 then Some t
              else if c =? 73 then (if parse_N t =? 0 then None else Some (show_N (parse_N t)))      (* int 0 is falsy; str(int) otherwise *)
              else None
  | [] => None
  end.
Definition mk_defaults (plats : list (list N)) (name nodot_var sysver : list N) : defaults :=
  {| d_plats := plats; d_sysver := parse_pv sysver; d_name := name; d_nodot := parse_nodot nodot_var |}.
Definition with_det (det : list N) (f : list (list N) -> list N) : list N :=
  match parse_det det with Some plats => f plats | None => asc "!EXC:ValueError" end.
Definition obs_cpython_d (pv abis ps cfg sysver det : list N) : list N :=
  with_det det (fun plats =>
    show_tags (cpython_tags_d (mk_defaults plats (asc "cpython") [78] sysver) (parse_cfg cfg) (parse_opv pv)
                              (if seqb abis [63] then None else Some (parse_list abis)) (parse_list ps))).
Definition obs_compat_d (pv interp ps sysver det : list N) : list N :=
  with_det det (fun plats =>
    show_tags (compatible_tags_d (mk_defaults plats (asc "cpython") [78] sysver) (parse_opv pv) (opt_interp interp) (parse_list ps))).
Definition obs_generic_d (interp abis ps name nodot_var sysver det : list N) : list N :=
  with_det det (fun plats => show_tags (generic_tags_d (mk_defaults plats name nodot_var sysver) interp (parse_list abis) (parse_list ps))).
(* whole sys_tags() with the detected platform list of the steered system *)
Definition obs_sys_p (name nodot_var sysver ext cfg det : list N) : list N :=
  with_det det (fun plats =>
    match sys_tags {| impl_name := name; py_version_nodot := parse_nodot nodot_var; sys_version := parse_pv sysver;
                      ext_suffix := parse_optS ext; abi_cfg := parse_cfg cfg |} plats with
    | SOk l => show_tags l
    | SSystemError => asc "E"
    | SCrash => asc "!EXC:IndexError"
    end).

Definition run_tags (cmd : list N) (args : list (list N)) : option (list N) :=
  let a := fun n => nth_str n args in
  if seqb cmd (asc "t.cpython") then Some (obs_cpython (a 0%nat) (a 1%nat) (a 2%nat) (a 3%nat))
  else if seqb cmd (asc "t.compat") then Some (obs_compat (a 0%nat) (a 1%nat) (a 2%nat))
  else if seqb cmd (asc "t.generic") then Some (obs_generic (a 0%nat) (a 1%nat) (a 2%nat))
  else if seqb cmd (asc "t.gabi") then Some (obs_gabi (a 0%nat) (a 1%nat) (a 2%nat))
  else if seqb cmd (asc "t.cpythond") then Some (obs_cpython_d (a 0%nat) (a 1%nat) (a 2%nat) (a 3%nat) (a 4%nat) (a 5%nat))
  else if seqb cmd (asc "t.compatd") then Some (obs_compat_d (a 0%nat) (a 1%nat) (a 2%nat) (a 3%nat) (a 4%nat))
  else if seqb cmd (asc "t.genericd") then Some (obs_generic_d (a 0%nat) (a 1%nat) (a 2%nat) (a 3%nat) (a 4%nat) (a 5%nat) (a 6%nat))
  else if seqb cmd (asc "t.sysp") then Some (obs_sys_p (a 0%nat) (a 1%nat) (a 2%nat) (a 3%nat) (a 4%nat) (a 5%nat))
  else if seqb cmd (asc "t.sys") then Some (obs_sys (a 0%nat) (a 1%nat) (a 2%nat) (a 3%nat) (a 4%nat) (a 5%nat))
  else None.
