(* Observation commands of the platform-tag domain (C16), prefix `p.`.  Definitions only. *)
From Coq Require Import List NArith Bool String.
Import ListNotations.
Require Import Elf ElfFile ElfDisk VParse VDec Show Tags TagsLit TagsModel PlatLit PlatModel PlatLoader RunTags.
Open Scope N_scope.

Definition hd_is_c (c : N) (s : list N) : bool := match s with x :: _ => x =? c | [] => false end.
(* ELFFile(io.BytesIO(bytes)): "E" | capacity|encoding|machine|flags|<interpreter: N, E, S+bytes> *)
Definition show_ires (r : ires) : list N := match r with INone => [78] | IInvalid => [69] | ISome b => 83 :: b end.
Definition obs_elf (f : list N) : list N :=
  match parse_header f with
  | Invalid => asc "E"
  | Ok e => fields [show_N (capacity e); show_N (encoding e); show_N (machine e); show_N (flags e); show_ires (interpreter f e)]
  end.

Definition parse_confstr (s : list N) : confstr_r :=
  match s with c :: t => if c =? 83 then CStr t else if c =? 78 then CNone else CRaise | [] => CRaise end.
Definition parse_ctypes (s : list N) : ctypes_r :=
  match s with
  | c :: t => if (c =? 83) || (c =? 66) then TStr t else if c =? 79 then TOSError else if c =? 65 then TNoSymbol else TNoModule
  | [] => TNoModule
  end.
Definition parse_exe_arg (s : list N) : option (list N) := match s with c :: t => if c =? 70 then Some t else None | [] => None end.
(* truth value of a result code: T O -> true, others false *)
Definition code_truth (c : N) : bool := (c =? 84) || (c =? 79).
Definition code_fres (c : N) : fres := if c =? 78 then FNone else FBool (code_truth c).
Definition code_attr (c : N) : option bool := if c =? 45 then None else Some (code_truth c).
(* a rule "M.m.arch=c" (arch "*" = any) *)
Definition rule_match (r : list N) (M m : nat) (arch : list N) : option fres :=
  match split_on 61 r with
  | [lhs; c :: _] =>
      match split_on 46 lhs with
      | [a; b; ar] => if Nat.eqb (parse_nat a) M && Nat.eqb (parse_nat b) m && (seqb ar [42] || seqb ar arch) then Some (code_fres c) else None
      | _ => None
      end
  | _ => None
  end.
Fixpoint first_rule (rs : list (list N)) (M m : nat) (arch : list N) : option fres :=
  match rs with [] => None | r :: t => match rule_match r M m arch with Some x => Some x | None => first_rule t M m arch end end.
(* "-" | "M" a1 a2010 a2014 [":" default (";" rule)*] *)
Definition parse_policy (s : list N) : option pmodule :=
  match s with
  | c :: a1 :: a2 :: a3 :: rest =>
      if negb (c =? 77) then None else
      let fn := match rest with
                | _ :: d :: rules => Some (fun M m arch => match first_rule (tl (split_on 59 rules)) M m arch with Some x => x | None => code_fres d end)
                | _ => None
                end in
      Some {| p_func := fn; p_1 := code_attr a1; p_2010 := code_attr a2; p_2014 := code_attr a3 |}
  | _ => None
  end.
Definition mk_menv (confstr ctypes exe policy : list N) : menv :=
  {| m_confstr := parse_confstr confstr; m_ctypes := parse_ctypes ctypes; m_exe := parse_exe_arg exe; m_policy := parse_policy policy |}.
Definition commas (l : list (list N)) : list N := join [44] l.
Definition obs_many (archs confstr ctypes exe policy : list N) : list N :=
  commas (manylinux_tags_l default_intmax (mk_menv confstr ctypes exe policy) (parse_list archs)).
Definition obs_musl (archs exe stderr : list N) : list N :=
  fields [commas (musllinux_tags (parse_exe_arg exe) stderr (parse_list archs));
          match musl_loader (parse_exe_arg exe) with Some ld => 83 :: ld | None => [45] end].
(* ---- the probe through a regular file and subprocess.run (PlatLoader.v); on the implementation side subprocess.run is a stand-in that
   raises what the real one raises (plat_impl.linux_env), except for p.muslreal, which runs the real subprocess.run on generated loader
   scripts (runs / not executable / a directory / missing / NUL in the path) ----
   limits: "" = 2^63 (what io.BytesIO has), else the decimal value; loaders: "" or "*" = every NUL-free path exists, else ",p1,p2" *)
Definition parse_lim1 (s : list N) : N := match s with [] => ssize_limit | _ :: _ => parse_N s end.
Definition mk_lim (a b : list N) : file_limits := {| seek_max := parse_lim1 a; read_max := parse_lim1 b |}.
Definition mk_le (loaders stderr : list N) : loader_env :=
  {| le_all := match loaders with [] => true | c :: _ => c =? 42 end; le_existing := parse_list loaders; le_stderr := stderr;
     le_intmax := default_intmax |}.
(* ELFFile(open(path, "rb")) *)
Definition obs_elf_disk (f seekmax readmax : list N) : list N :=
  match parse_header f with
  | Invalid => asc "E"
  | Ok e => fields [show_N (capacity e); show_N (encoding e); show_N (machine e); show_N (flags e);
                    show_ires (interpreter_disk (mk_lim seekmax readmax) f e)]
  end.
Definition obs_musl_x (archs exe stderr loaders seekmax readmax : list N) : list N :=
  let lim := mk_lim seekmax readmax in
  fields [commas (musllinux_tags_x lim (parse_exe_arg exe) (mk_le loaders stderr) (parse_list archs));
          match musl_loader_disk lim (parse_exe_arg exe) with Some ld => 83 :: ld | None => [45] end].
Definition obs_musl_real (archs exe stderr loaders seekmax readmax : list N) : list N :=
  commas (musllinux_tags_x (mk_lim seekmax readmax) (parse_exe_arg exe) (mk_le loaders stderr) (parse_list archs)).
(* a battery of probe steps without cache_clear(): args = archs, then 6 per step: key confstr ctypes exe policy stderr *)
Fixpoint parse_steps (fuel : nat) (args : list (list N)) : list pstep :=
  match fuel, args with
  | S fuel', key :: confstr :: ctypes :: exe :: policy :: stderr :: more =>
      {| st_key := key; st_menv := mk_menv confstr ctypes exe policy; st_lim := mem_limits; st_le := mk_le [] stderr |} :: parse_steps fuel' more
  | _, _ => []
  end.
Definition show_step (o : list (list N) * list (list N)) : list N := fields [commas (fst o); commas (snd o)].
Definition obs_probes (args : list (list N)) : list N :=
  match args with
  | archs :: rest => join [59] (map show_step (run_steps (parse_list archs) pstate0 (parse_steps (List.length rest) rest)))
  | [] => []
  end.

Definition pair_nat (a b : list N) : nat * nat := (parse_nat a, parse_nat b).
Definition show_olist (o : option (list (list N))) : list N := match o with Some l => commas l | None => asc "!EXC:ValueError" end.

Definition run_plat (cmd : list N) (args : list (list N)) : option (list N) :=
  let a := fun n => nth_str n args in
  if seqb cmd (asc "p.elf") then Some (obs_elf (a 0%nat))
  else if seqb cmd (asc "p.many") then Some (obs_many (a 0%nat) (a 1%nat) (a 2%nat) (a 3%nat) (a 4%nat))
  else if seqb cmd (asc "p.musl") then Some (obs_musl_x (a 0%nat) (a 1%nat) (a 2%nat) (a 3%nat) (a 4%nat) (a 5%nat))
  else if seqb cmd (asc "p.muslreal") then Some (obs_musl_real (a 0%nat) (a 1%nat) (a 2%nat) (a 3%nat) (a 4%nat) (a 5%nat))
  else if seqb cmd (asc "p.elff") then Some (obs_elf_disk (a 0%nat) (a 1%nat) (a 2%nat))
  else if seqb cmd (asc "p.probes") then Some (obs_probes args)
  else if seqb cmd (asc "p.mac") then Some (commas (mac_platforms (pair_nat (a 0%nat) (a 1%nat)) (a 2%nat)))
  else if seqb cmd (asc "p.macdef") then Some (show_olist (mac_default (a 0%nat) (a 1%nat) (a 2%nat)))
  else if seqb cmd (asc "p.ios") then Some (commas (ios_platforms (pair_nat (a 0%nat) (a 1%nat)) (a 2%nat)))
  else if seqb cmd (asc "p.linux") then
    Some (commas (linux_platforms_x (parse_bool (a 0%nat)) (a 1%nat) (mk_menv (a 2%nat) (a 3%nat) (a 4%nat) (a 5%nat))
                                          (mk_lim (a 8%nat) (a 9%nat)) (mk_le (a 7%nat) (a 6%nat))))
  else if seqb cmd (asc "p.plat") then
    Some (show_olist (platform_tags_x {| pe_system := a 0%nat; pe_get_platform := a 1%nat;
                                         pe_menv := mk_menv (a 2%nat) (a 3%nat) (a 4%nat) (a 5%nat); pe_musl_stderr := a 6%nat;
                                         pe_mac_ver := a 7%nat; pe_mac_cpu := a 8%nat; pe_mac_sub := a 9%nat;
                                         pe_ios_release := a 10%nat; pe_multiarch := a 11%nat |}
                                      (mk_lim (a 13%nat) (a 14%nat)) (mk_le (a 12%nat) (a 6%nat))))
  else None.
