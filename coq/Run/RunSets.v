(* Observation commands of the specifier-set domain (C05, C06).  Definitions only.
   One command, "s.run": the arguments are a small stack program over Specifier / SpecifierSet objects.
     S ov text            push SpecifierSet(text, prereleases=ov)                      (ov, arg, inst : T | F | N)
     L ov n (mov text)*n  push SpecifierSet([Specifier(text, prereleases=mov), ...], prereleases=ov)
     X ov text            push Specifier(text, prereleases=ov)
     &                    pop b, pop a, push a & b            &s text   replace the top a by a & "text"
     P ov                 top.prereleases = ov
     c arg inst k item    top.contains(item, prereleases=arg[, installed=inst])        (k : s = str item, v = Version object)
     in k item            item in top
     f arg n (k item)*n   list(top.filter(items, prereleases=arg))  -> positions and kinds of the returned objects
     str | len | pre | eq output str(top) | len(top) | top.prereleases | top-1 == top
     eqs k text           top == "text" (k = s) | top == Specifier(text) (k = X) | top == len(text) (k = n, an int);
                          InvalidSpecifier escaping from == ends the run with !E
   Override / argument tokens: T F N, and the non-bool values 1 0 (int) S E (non-empty / empty str), read by truthiness as the code does.
   Output: the outputs joined by ';'; a failing construction ends the run with !E (InvalidSpecifier) or !V (ValueError). *)
From Coq Require Import List NArith Bool String.
Import ListNotations.
Require Import VParse Py SpecModel SpecContains SetsModel SetsOps SetsWorld Show.
Open Scope N_scope.


Definition parse_tri (s : list N) : option bool :=
  if seqb s [84] || seqb s [49] || seqb s [83] then Some true
  else if seqb s [70] || seqb s [48] || seqb s [69] then Some false else None.
Definition show_tri (o : option bool) : list N := match o with Some true => [84] | Some false => [70] | None => [78] end.
Definition show_outcome (o : outcome) : list N := match o with Ans b => show_bool b | BadItem => [69] | Escaped => [88] end.
Definition show_nat (n : nat) : list N := show_N (N.of_nat n).

Fixpoint take_pairs (n : nat) (args : list (list N)) : list (list N * list N) * list (list N) :=
  match n, args with
  | S n', a :: b :: t => let '(l, r) := take_pairs n' t in ((a, b) :: l, r)
  | _, _ => ([], args)
  end.
Fixpoint members_of (l : list (list N * list N)) : option (list member) :=
  match l with
  | [] => Some []
  | (mo, t) :: r => match Specifier t with
                    | Some sp => option_map (cons {| m_sp := sp; m_ov := parse_tri mo |}) (members_of r)
                    | None => None
                    end
  end.
Definition show_fout (kinds : list (list N)) (r : fout) : list N :=
  match r with
  | FOk ps => join [46] (map (fun p => show_nat p ++ nth p kinds [63]) ps)
  | FBad => [69]
  | FEsc => [88]
  end.
Definition show_obs (kinds : list (list N)) (o : obs) : list N :=
  match o with
  | ObsNone => []
  | ObsC r => show_outcome r
  | ObsF r => asc "[" ++ show_fout kinds r ++ asc "]"
  | ObsP p => show_tri p
  end.
Definition bang_E := asc "!E".
Definition bang_V := asc "!V".
Definition bad_prog := asc "?prog".

Fixpoint exec (fuel : nat) (stack : list obj) (args : list (list N)) (out : list (list N)) : list (list N) :=
  match fuel with
  | O => out
  | S fuel' =>
    match args with
    | [] => out
    | op :: rest =>
      if seqb op (asc "S") then
        match rest with
        | o :: t :: rest' => match SpecifierSet t (parse_tri o) with
                             | Some A => exec fuel' (OSet A :: stack) rest' out
                             | None => bang_E :: out
                             end
        | _ => bad_prog :: out
        end
      else if seqb op (asc "X") then
        match rest with
        | o :: t :: rest' => match Specifier t with
                             | Some sp => exec fuel' (OSpec sp (parse_tri o) :: stack) rest' out
                             | None => bang_E :: out
                             end
        | _ => bad_prog :: out
        end
      else if seqb op (asc "L") then
        match rest with
        | o :: n :: rest' =>
            let '(prs, rest'') := take_pairs (N.to_nat (parse_N n)) rest' in
            match members_of prs with
            | Some l => exec fuel' (OSet (SpecifierSet_of l (parse_tri o)) :: stack) rest'' out
            | None => bang_E :: out
            end
        | _ => bad_prog :: out
        end
      else if seqb op (asc "&") then
        match stack with
        | OSet B :: OSet A :: st => match set_and A B with
                                    | Some C => exec fuel' (OSet C :: st) rest out
                                    | None => bang_V :: out
                                    end
        | _ => bad_prog :: out
        end
      else if seqb op (asc "&s") then
        match rest, stack with
        | t :: rest', OSet A :: st =>
            match set_and_str A t with
            | AndInvalid => bang_E :: out
            | AndConflict => bang_V :: out
            | AndOk C => exec fuel' (OSet C :: st) rest' out
            end
        | _, _ => bad_prog :: out
        end
      else if seqb op (asc "eqs") then
        match rest, stack with
        | k :: t :: rest', OSet A :: _ =>
            let r := if seqb k (asc "X") then match Specifier t with Some sp => set_eq_spec A sp | None => None end
                     else if seqb k (asc "n") then Some false          (* an object that is neither str, Specifier nor SpecifierSet: NotImplemented -> False *)
                     else set_eq_str A t in
            match r with
            | Some b => exec fuel' stack rest' (show_bool b :: out)
            | None => bang_E :: out
            end
        | _, _ => bad_prog :: out
        end
      else if seqb op (asc "P") then
        match rest, stack with
        | o :: rest', top :: st => exec fuel' (fst (step top (OpSet (parse_tri o))) :: st) rest' out
        | _, _ => bad_prog :: out
        end
      else if seqb op (asc "c") then
        match rest, stack with
        | a :: i :: _ :: t :: rest', top :: _ =>
            exec fuel' stack rest' (show_obs [] (snd (step top (OpContains (parse_tri a) (parse_tri i) t))) :: out)
        | _, _ => bad_prog :: out
        end
      else if seqb op (asc "in") then
        match rest, stack with
        | _ :: t :: rest', top :: _ => exec fuel' stack rest' (show_obs [] (snd (step top (OpIn t))) :: out)
        | _, _ => bad_prog :: out
        end
      else if seqb op (asc "f") then
        match rest, stack with
        | a :: n :: rest', top :: _ =>
            let '(prs, rest'') := take_pairs (N.to_nat (parse_N n)) rest' in
            exec fuel' stack rest'' (show_obs (map fst prs) (snd (step top (OpFilter (parse_tri a) (map snd prs)))) :: out)
        | _, _ => bad_prog :: out
        end
      else if seqb op (asc "str") then
        match stack with
        | OSet A :: _ => exec fuel' stack rest (set_str A :: out)
        | OSpec sp _ :: _ => exec fuel' stack rest (spec_str sp :: out)
        | _ => bad_prog :: out
        end
      else if seqb op (asc "len") then
        match stack with
        | OSet A :: _ => exec fuel' stack rest (show_nat (set_len A) :: out)
        | _ => bad_prog :: out
        end
      else if seqb op (asc "pre") then
        match stack with
        | top :: _ => exec fuel' stack rest (show_obs [] (snd (step top OpPre)) :: out)
        | _ => bad_prog :: out
        end
      else if seqb op (asc "eq") then
        match stack with
        | OSet B :: OSet A :: _ => exec fuel' stack rest (show_bool (set_eqb A B) :: out)
        | OSpec b _ :: OSpec a _ :: _ => exec fuel' stack rest (show_bool (sp_eqb a b) :: out)
        | _ => bad_prog :: out
        end
      else bad_prog :: out
    end
  end.

(* Second command, "s.world": objects with identity (SetsWorld).  Specifier objects and sets are numbered in order of creation.
     X ov text            cells += Specifier(text, prereleases=ov)
     L ov n a1..an        sets += SpecifierSet([cells[a1], ...], prereleases=ov)       (the very objects)
     & i j                sets += sets[i] & sets[j]                                     (!V ends the run)
     P i ov               sets[i].prereleases = ov            M a ov   cells[a].prereleases = ov   (a member object, through its own reference)
     Mi h a ov            the same assignment through the alias obtained by ITERATING sets[h]: next(s for s in sets[h] if s is cells[a]);
                          output !noalias (and no assignment) when sets[h] does not hold that object
     c i arg inst k item | in i k item | f i arg n (k item)*n | pre i | str i           observations of sets[i]
     xc a arg k item | xf a arg n (k item)*n | xpre a                                    observations of cells[a] *)
Fixpoint take_n (n : nat) (args : list (list N)) : list (list N) * list (list N) :=
  match n, args with
  | S n', a :: t => let '(l, r) := take_n n' t in (a :: l, r)
  | _, _ => ([], args)
  end.
Definition nat_of (a : list N) : nat := N.to_nat (parse_N a).
Definition show_wobs (kinds : list (list N)) (o : wobs) : list N :=
  match o with WNone => [] | WObs r => show_obs kinds r | WValueError => bang_V end.

Fixpoint wexec (fuel : nat) (w : world) (args : list (list N)) (out : list (list N)) : list (list N) :=
  match fuel with
  | O => out
  | S fuel' =>
    match args with
    | [] => out
    | op :: rest =>
      if seqb op (asc "X") then
        match rest with
        | o :: t :: rest' => match Specifier t with
                             | Some sp => wexec fuel' (fst (wstep w (WCell sp (parse_tri o)))) rest' out
                             | None => bang_E :: out
                             end
        | _ => bad_prog :: out
        end
      else if seqb op (asc "L") then
        match rest with
        | o :: n :: rest' =>
            let '(addrs, rest'') := take_n (nat_of n) rest' in
            wexec fuel' (fst (wstep w (WSet (map nat_of addrs) (parse_tri o)))) rest'' out
        | _ => bad_prog :: out
        end
      else if seqb op (asc "&") then
        match rest with
        | i :: j :: rest' => match wstep w (WAnd (nat_of i) (nat_of j)) with
                             | (_, WValueError) => bang_V :: out
                             | (w', _) => wexec fuel' w' rest' out
                             end
        | _ => bad_prog :: out
        end
      else if seqb op (asc "P") then
        match rest with
        | i :: o :: rest' => wexec fuel' (fst (wstep w (WSetOv (nat_of i) (parse_tri o)))) rest' out
        | _ => bad_prog :: out
        end
      else if seqb op (asc "M") then
        match rest with
        | a :: o :: rest' => wexec fuel' (fst (wstep w (WCellOv (nat_of a) (parse_tri o)))) rest' out
        | _ => bad_prog :: out
        end
      else if seqb op (asc "Mi") then
        match rest with
        | h :: a :: o :: rest' =>
            if existsb (Nat.eqb (nat_of a)) (h_ms (set_at w (nat_of h)))
            then wexec fuel' (fst (wstep w (WCellOv (nat_of a) (parse_tri o)))) rest' out
            else wexec fuel' w rest' (asc "!noalias" :: out)
        | _ => bad_prog :: out
        end
      else if seqb op (asc "c") then
        match rest with
        | i :: a :: inst :: _ :: t :: rest' =>
            wexec fuel' w rest' (show_wobs [] (snd (wstep w (WRead (nat_of i) (OpContains (parse_tri a) (parse_tri inst) t)))) :: out)
        | _ => bad_prog :: out
        end
      else if seqb op (asc "in") then
        match rest with
        | i :: _ :: t :: rest' => wexec fuel' w rest' (show_wobs [] (snd (wstep w (WRead (nat_of i) (OpIn t)))) :: out)
        | _ => bad_prog :: out
        end
      else if seqb op (asc "f") then
        match rest with
        | i :: a :: n :: rest' =>
            let '(prs, rest'') := take_pairs (nat_of n) rest' in
            wexec fuel' w rest'' (show_wobs (map fst prs) (snd (wstep w (WRead (nat_of i) (OpFilter (parse_tri a) (map snd prs))))) :: out)
        | _ => bad_prog :: out
        end
      else if seqb op (asc "pre") then
        match rest with
        | i :: rest' => wexec fuel' w rest' (show_wobs [] (snd (wstep w (WRead (nat_of i) OpPre))) :: out)
        | _ => bad_prog :: out
        end
      else if seqb op (asc "str") then
        match rest with
        | i :: rest' => wexec fuel' w rest' (set_str (resolve w (nat_of i)) :: out)
        | _ => bad_prog :: out
        end
      else if seqb op (asc "xc") then
        match rest with
        | a :: arg :: _ :: t :: rest' =>
            wexec fuel' w rest' (show_wobs [] (snd (wstep w (WReadCell (nat_of a) (OpContains (parse_tri arg) None t)))) :: out)
        | _ => bad_prog :: out
        end
      else if seqb op (asc "xf") then
        match rest with
        | a :: arg :: n :: rest' =>
            let '(prs, rest'') := take_pairs (nat_of n) rest' in
            wexec fuel' w rest'' (show_wobs (map fst prs) (snd (wstep w (WReadCell (nat_of a) (OpFilter (parse_tri arg) (map snd prs))))) :: out)
        | _ => bad_prog :: out
        end
      else if seqb op (asc "xpre") then
        match rest with
        | a :: rest' => wexec fuel' w rest' (show_wobs [] (snd (wstep w (WReadCell (nat_of a) OpPre))) :: out)
        | _ => bad_prog :: out
        end
      else bad_prog :: out
    end
  end.

Definition run_sets (cmd : list N) (args : list (list N)) : option (list N) :=
  if seqb cmd (asc "s.run") then Some (join [59] (rev (exec (S (List.length args)) [] args [])))
  else if seqb cmd (asc "s.world") then Some (join [59] (rev (wexec (S (List.length args)) empty_world args [])))
  else None.
