(* Observation commands: filled in by the corresponding property work; definitions only. *)
From Coq Require Import List NArith Bool String.
Import ListNotations.
Require Import Show.
Open Scope N_scope.

Definition run_sets (cmd : list N) (args : list (list N)) : option (list N) := None.
