(* Observation commands of the metadata domain (C17): m.from_raw, m.from_email.  Definitions only.
   Imports the model and the generated table, never the lemma files.

   Arguments are tokens, one per argument; the first character is the tag:
     T | F            validate flag (first argument)
     K<key>           next dict entry            S<text>  its value is a str
     L                its value is a list        I<text>  append an item to that list
     D                its value is a dict        P<label> Q<url>   append (label, url) to that dict
     U<key>           a key of the `unparsed` dict (from_email)
     o<c><text>       oracle entry of component c for the string <text>; c = 0 SpecifierSet, 1 Requirement, 2 licence expression,
                      3 EmailMessage content type, 4 pathlib tests;  without a following v-token the component rejects the string
     v<text>          the component accepts, <text> = str(result) (component 3: get_content_type(); component 4: unused)
     x<class>         the component raises something other than its documented exception (class name): ORaise
     c<text> w<text>  component 3: params["charset"], params["variant"] when present
     R<field>         read that attribute (after construction)
     H<name> V<value> W<value> Y<text> Z<text>    (m.from_email_doc only) what the email package delivers for the document: see RunEmail.v

     (m.heap only; <key> and the items of one operation are separated by U+001F, operations and reads are executed in argument order)
     R<field>         read        a<key>[^_<item>]*  caller: d[key] = [items]          d<key>  caller: del d[key]
     m<key>[^_<item>]*  caller: d[key][:] = [items] when d[key] is a list     h<key>[^_<item>]*  holder: getattr(m, key)[:] = [items] when it was read and is a list
     u<key>[^_<label>^_<url>]*  caller: d[key].clear(); d[key].update(pairs) when d[key] is a dict      g<key>[^_<label>^_<url>]*  the same by the holder
     first argument T: from_raw(validate=True) - the validation's reads happen before the operations (a rejected dict ends the run)

   The model run is MetaModel3.v (three-valued oracles, AttributeError for non-fields, sorted iteration order). *)
From Coq Require Import List NArith Bool String.
Import ListNotations.
Require Import Show MetaTable MetaBase MetaShow MetaModel MetaModel3 MetaModels MetaHeap EmailModel MetaEmailModel RunEmail.
Open Scope N_scope.

Record oentry := { oe_comp : N; oe_key : list N; oe_v : option (list N); oe_c : option (list N); oe_w : option (list N); oe_x : option (list N) }.
Record pstate := { p_data : list (list N * rawv); p_label : list N; p_unparsed : list (list N); p_or : list oentry; p_reads : list (list N) }.
Definition p0 := {| p_data := []; p_label := []; p_unparsed := []; p_or := []; p_reads := [] |}.

(* p_data and p_or are built in reverse (head = current entry) *)
Definition set_head (st : pstate) (f : rawv -> rawv) : pstate :=
  match p_data st with
  | (k, v) :: t => {| p_data := (k, f v) :: t; p_label := p_label st; p_unparsed := p_unparsed st; p_or := p_or st; p_reads := p_reads st |}
  | [] => st
  end.
Definition set_or (st : pstate) (f : oentry -> oentry) : pstate :=
  match p_or st with
  | e :: t => {| p_data := p_data st; p_label := p_label st; p_unparsed := p_unparsed st; p_or := f e :: t; p_reads := p_reads st |}
  | [] => st
  end.
Definition tok_step (st : pstate) (tok : list N) : pstate :=
  match tok with
  | [] => st
  | tag :: body =>
      if tag =? 75 then {| p_data := (body, VStr []) :: p_data st; p_label := []; p_unparsed := p_unparsed st; p_or := p_or st; p_reads := p_reads st |}
      else if tag =? 83 then set_head st (fun _ => VStr body)
      else if tag =? 76 then set_head st (fun _ => VList [])
      else if tag =? 73 then set_head st (fun v => match v with VList l => VList (l ++ [body]) | x => x end)
      else if tag =? 68 then set_head st (fun _ => VDict [])
      else if tag =? 80 then {| p_data := p_data st; p_label := body; p_unparsed := p_unparsed st; p_or := p_or st; p_reads := p_reads st |}
      else if tag =? 81 then set_head st (fun v => match v with VDict d => VDict (d ++ [(p_label st, body)]) | x => x end)
      else if tag =? 85 then {| p_data := p_data st; p_label := p_label st; p_unparsed := p_unparsed st ++ [body]; p_or := p_or st; p_reads := p_reads st |}
      else if tag =? 111 then
        match body with
        | c :: key => {| p_data := p_data st; p_label := p_label st; p_unparsed := p_unparsed st;
                         p_or := {| oe_comp := c - 48; oe_key := key; oe_v := None; oe_c := None; oe_w := None; oe_x := None |} :: p_or st; p_reads := p_reads st |}
        | [] => st
        end
      else if tag =? 118 then set_or st (fun e => {| oe_comp := oe_comp e; oe_key := oe_key e; oe_v := Some body; oe_c := oe_c e; oe_w := oe_w e; oe_x := oe_x e |})
      else if tag =? 99 then set_or st (fun e => {| oe_comp := oe_comp e; oe_key := oe_key e; oe_v := oe_v e; oe_c := Some body; oe_w := oe_w e; oe_x := oe_x e |})
      else if tag =? 119 then set_or st (fun e => {| oe_comp := oe_comp e; oe_key := oe_key e; oe_v := oe_v e; oe_c := oe_c e; oe_w := Some body; oe_x := oe_x e |})
      else if tag =? 120 then set_or st (fun e => {| oe_comp := oe_comp e; oe_key := oe_key e; oe_v := oe_v e; oe_c := oe_c e; oe_w := oe_w e; oe_x := Some body |})
      else if tag =? 82 then {| p_data := p_data st; p_label := p_label st; p_unparsed := p_unparsed st; p_or := p_or st; p_reads := p_reads st ++ [body] |}
      else st
  end.
Definition parse_tokens (toks : list (list N)) : pstate := fold_left tok_step toks p0.

Definition find_or (tbl : list oentry) (c : N) (s : list N) : option oentry :=
  find (fun e => (oe_comp e =? c) && seqb (oe_key e) s) tbl.
Definition or_text (tbl : list oentry) (c : N) (s : list N) : option (list N) :=
  match find_or tbl c s with Some e => oe_v e | None => None end.
Definition or_res (tbl : list oentry) (c : N) (s : list N) : ores (list N) :=
  match find_or tbl c s with
  | Some e => match oe_x e with Some x => ORaise x | None => match oe_v e with Some t => OAcc t | None => ORej end end
  | None => ORej
  end.
Definition oracles_of (tbl : list oentry) : oracles3 :=
  {| o3_specset := or_res tbl 0; o3_req := or_res tbl 1; o3_lic := or_res tbl 2;
     o3_ctype := fun s => match find_or tbl 3 s with
                          | Some e => match oe_x e with
                                      | Some x => ORaise x
                                      | None => match oe_v e with Some ct => OAcc (ct, (oe_c e, oe_w e)) | None => ORej end
                                      end
                          | None => ORej end;
     o3_path := fun s => negb (is_some (or_text tbl 4 s)) |}.

(* ---- rendering (MetaShow.v): a string is its code points, "104.105"; list [a,b]; dict {k:v,...}; None N *)
Definition show_enr (e : enr) : list N :=
  match e with ENone => asc "N" | EStr s => show_s s | EList l => show_list l | EDict d => show_dict d end.
Definition show_res (r : res) : list N :=
  match r with Ok e => show_enr e | Invalid f => asc "E:" ++ f | Crash c => asc "!EXC:" ++ c end.

Definition show_fr (O : oracles3) (r : frres) (rs : list (list N)) : list N :=
  match r with
  | FOk s => join bar (asc "OK" :: map show_res (reads3 O s rs))
  | FGroup fs => asc "G:" ++ join [44] (sort_s fs)
  | FCrash c => asc "!EXC:" ++ c
  end.

Definition obs_from_raw (args : list (list N)) : list N :=
  let st := parse_tokens (tl args) in
  let O := oracles_of (p_or st) in
  show_fr O (from_raw3 O (parse_bool (nth_str 0 args)) (rev (p_data st))) (p_reads st).
Definition obs_from_email (args : list (list N)) : list N :=
  let st := parse_tokens (tl args) in
  let O := oracles_of (p_or st) in
  show_fr O (from_email3 O (parse_bool (nth_str 0 args)) (rev (p_data st)) (p_unparsed st)) (p_reads st).

(* Metadata.from_email on the document: the C18 model of parse_email composed with the validation *)
Definition obs_from_email_doc (args : list (list N)) : list N :=
  let st := parse_tokens (tl args) in
  let ep := ep_parse (tl args) in
  let O := oracles_of (p_or st) in
  show_fr O (from_email_doc O (parse_bool (nth_str 0 args)) (ep_items ep) (ep_payload ep)) (p_reads st).

(* m.heap: the heap model (MetaHeap.v): from_raw(validate=False) on the caller's dict object, then reads interleaved with in-place changes;
   output = the reads, then "#" and the caller's dict as it is at the end *)
Fixpoint pairs_of (l : list (list N)) : list (list N * list N) :=
  match l with a :: b :: t => (a, b) :: pairs_of t | _ => [] end.
Definition heap_op (tok : list N) : list hop :=
  match tok with
  | [] => []
  | tag :: body =>
      let parts := split_on 31 body in
      let key := hd [] parts in
      let items := tl parts in
      if tag =? 82 then [HRead body]
      else if tag =? 97 then [HSet key items]
      else if tag =? 100 then [HDel body]
      else if tag =? 109 then [HMutCaller key (VList items)]
      else if tag =? 104 then [HMutResult key (VList items)]
      else if tag =? 117 then [HMutCaller key (VDict (pairs_of items))]
      else if tag =? 103 then [HMutResult key (VDict (pairs_of items))]
      else []
  end.
Definition show_rawv (v : rawv) : list N :=
  match v with VStr s => show_s s | VList l => show_list l | VDict d => show_dict d end.
Definition obs_heap (args : list (list N)) : list N :=
  let st := parse_tokens (tl args) in
  let O := oracles_of (p_or st) in
  let w := world_of (rev (p_data st)) in
  match hfrom_raw O (parse_bool (nth_str 0 args)) w caller_loc with
  | inr r => show_fr O r []
  | inl st0 =>
      let '(w2, _, rs) := hrun O caller_loc st0 (flat_map heap_op (tl args)) in
      join bar (asc "OK" :: map show_res rs) ++ [35] ++
      join [59] (map (fun kv => show_s (fst kv) ++ [61] ++ show_rawv (snd kv)) (deref w2 (odict (lookup caller_loc (w_dicts w2)))))
  end.

(* m.from_raw_models: from_raw3 with the oracles instantiated by the component MODELS (SetsModel, ReqModel, LicTop: MetaModels.O_models);
   only the content-type and pathlib verdicts come from the table.  This is the model C17_accept_iff_models is about. *)
Definition obs_from_raw_models (args : list (list N)) : list N :=
  let st := parse_tokens (tl args) in
  let T := oracles_of (p_or st) in
  let O := O_models (o3_ctype T) (o3_path T) in
  show_fr O (from_raw3 O (parse_bool (nth_str 0 args)) (rev (p_data st))) (p_reads st).

Definition run_meta (cmd : list N) (args : list (list N)) : option (list N) :=
  if seqb cmd (asc "m.from_raw") then Some (obs_from_raw args)
  else if seqb cmd (asc "m.from_email") then Some (obs_from_email args)
  else if seqb cmd (asc "m.from_email_doc") then Some (obs_from_email_doc args)
  else if seqb cmd (asc "m.heap") then Some (obs_heap args)
  else if seqb cmd (asc "m.from_raw_models") then Some (obs_from_raw_models args)
  else None.
