(* Helpers for the executable observation layer: ASCII literals, decimal printing, joining.
   Everything here is only used to format observations for the correspondence check. *)
From Coq Require Import List NArith Bool String Ascii.
Import ListNotations.
Require Import VParse VDec.
Open Scope N_scope.

Fixpoint asc (s : string) : list N :=
  match s with EmptyString => [] | String c t => N_of_ascii c :: asc t end.

Fixpoint seqb (a b : list N) : bool :=
  match a, b with [], [] => true | x :: a', y :: b' => (x =? y) && seqb a' b' | _, _ => false end.

Definition show_N (n : N) : list N := dec n.
Definition show_bool (b : bool) : list N := if b then [84] else [70].      (* T / F *)
Fixpoint join (sep : list N) (l : list (list N)) : list N :=
  match l with [] => [] | [x] => x | x :: t => x ++ sep ++ join sep t end.
Definition bar := [124].          (* | *)
Definition fields (l : list (list N)) : list N := join bar l.
Definition show_opt {A} (f : A -> list N) (o : option A) : list N :=
  match o with Some a => f a | None => [45] end.                           (* - *)
Definition nth_str (n : nat) (args : list (list N)) : list N := nth n args [].
Definition parse_N (s : list N) : N := match undec s with Some n => n | None => 0 end.
Definition parse_bool (s : list N) : bool := seqb s [84].
(* split on a separator character *)
Fixpoint split_on (c0 : N) (s : list N) : list (list N) :=
  match s with
  | [] => [[]]
  | c :: t => if c =? c0 then [] :: split_on c0 t
              else match split_on c0 t with h :: r => (c :: h) :: r | [] => [[c]] end
  end.
