(* Observation commands of the version domain (C01, C02, C12-version).  Definitions only.
   The real Version._key is not among the observations: Py.key is compared with _cmpkey only through the operators' outcomes and hash equality (v.cmp, v.cmph, v.sort).
   The model has no digit limit (finding D10): the real Version() rejects a component of more than 4300 digits. *)
From Coq Require Import List NArith Bool String.
Import ListNotations.
Require Import S1 VParse VDec Py VMeaning VCmp SpecModel Canon VObsModel Show.
Open Scope N_scope.

Definition show_letnum (p : list N * N) : list N := fst p ++ [44] ++ show_N (snd p).
Definition show_num (p : list N * N) : list N := show_N (snd p).
Definition local_str (l : list (N + list N)) : list N := join [46] (map c_seg l).
(* is_devrelease, rel_nth (major/minor/micro), lt_v, insert_v, sort_v, all_some: Ver/VObsModel.v (laws in Ver/VSortLaws.v, Ver/VReading.v) *)

Definition obs_version (s : list N) : list N :=
  match Version s with
  | None => asc "E"
  | Some v => fields [asc "OK"; vstr v; show_N (epoch v); join [46] (map show_N (release v));
      show_opt show_letnum (pre v); show_opt show_num (post v); show_opt show_num (dev v);
      show_opt local_str (local v); public_str v; base_str v;
      show_bool (is_prerelease v); show_bool (is_postrelease v); show_bool (is_devrelease v);
      show_N (rel_nth 0 v); show_N (rel_nth 1 v); show_N (rel_nth 2 v)]
  end.

Definition show_ob (o : option bool) : list N := match o with Some true => [84] | Some false => [70] | None => [88] end.
Definition show_cmp (c : comparison) : list N := match c with Lt => asc "<" | Eq => asc "=" | Gt => asc ">" end.
Definition obs_cmp (a b : list N) : list N :=
  match Version a, Version b with
  | Some x, Some y =>
      flat_map (fun o => show_ob (rich o (key x) (key y))) [Lt_; Le_; Eq_; Ne_; Ge_; Gt_] ++ bar ++ show_cmp (pep440_cmp x y)
  | _, _ => asc "E"
  end.

(* v.cmp plus "the two keys are structurally equal" (the implementation side reports hash(x) == hash(y)) *)
Definition obs_cmph (a b : list N) : list N :=
  match Version a, Version b with
  | Some x, Some y => obs_cmp a b ++ bar ++ show_bool (pv_eqb (key x) (key y))
  | _, _ => asc "E"
  end.

Definition obs_sort (args : list (list N)) : list N :=
  match all_some (map Version args) with
  | Some vs => join [44] (map vstr (sort_v vs))
  | None => asc "E"
  end.

Definition obs_canon (strip : bool) (s : list N) : list N := canon strip s.

Definition run_version (cmd : list N) (args : list (list N)) : option (list N) :=
  if seqb cmd (asc "v.parse") then Some (obs_version (nth_str 0 args))
  else if seqb cmd (asc "v.cmp") then Some (obs_cmp (nth_str 0 args) (nth_str 1 args))
  else if seqb cmd (asc "v.cmph") then Some (obs_cmph (nth_str 0 args) (nth_str 1 args))
  else if seqb cmd (asc "v.sort") then Some (obs_sort args)
  else if seqb cmd (asc "v.canon") then Some (obs_canon (parse_bool (nth_str 0 args)) (nth_str 1 args))
  else None.
