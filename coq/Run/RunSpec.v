(* Observation commands of the single-specifier domain (C03, C04, C12-specifier).  Definitions only. *)
From Coq Require Import List NArith Bool String.
Import ListNotations.
Require Import VParse VMeaning SpecModel SpecParse SpecSound SpecContains SpecSem Show.
Open Scope N_scope.

Definition show_outcome (o : outcome) : list N :=
  match o with Ans true => asc "T" | Ans false => asc "F" | BadItem => asc "EV" | Escaped => asc "X" end.
Definition parse_tri (s : list N) : option bool := if seqb s (asc "T") then Some true else if seqb s (asc "F") then Some false else None.

Definition obs_spec_parse (s : list N) : list N :=
  match Specifier s with
  | None => asc "E"
  | Some sp => fields [asc "OK"; op_txt (sp_op sp); sp_text sp; spec_str sp; show_bool (auto_pre sp)]
  end.
(* [ov]: the object's own pre-release setting (constructor keyword or attribute assigned later), "" = none *)
Definition obs_spec_contains (s arg item ov : list N) : list N :=
  match Specifier s with
  | None => asc "ES"
  | Some sp => show_outcome (contains sp (parse_tri ov) (parse_tri arg) item)
  end.
(* one query through any observation point: args = specifier, call argument, candidate, object setting, (how the setting was made),
   via = "contains" | "in" (`item in spec` = SpecContains.in_op: no call argument), (kind of candidate object: str / Version / subclass).
   The model has ONE representation of a candidate (its text) and ONE of the object setting (option bool): "how" (constructor keyword vs
   attribute assignment) and "kind" (str / Version / Version subclass) are distinctions of the implementation only; the correspondence run
   checks that the implementation's answer does not depend on them. *)
Definition obs_spec_query (s arg item ov via : list N) : list N :=
  match Specifier s with
  | None => asc "ES"
  | Some sp => show_outcome (if seqb via (asc "in") then in_op sp (parse_tri ov) item else contains sp (parse_tri ov) (parse_tri arg) item)
  end.
Definition obs_spec_sem (s item : list N) : list N :=
  match Specifier s with
  | None => asc "ES"
  | Some sp => match contains_spec sp item with Some o => show_outcome o | None => asc "?" end
  end.

Definition oper_eqb (a b : oper) : bool := seqb (op_txt a) (op_txt b).
Definition key_eqb (k k' : oper * list N) : bool := oper_eqb (fst k) (fst k') && seqb (snd k) (snd k').
(* Specifier.__eq__ / __hash__: both through _canonical_spec *)
Definition obs_spec_eq (a b : list N) : list N :=
  match Specifier a, Specifier b with
  | Some x, Some y => show_bool (key_eqb (spec_key x) (spec_key y))
  | _, _ => asc "E"
  end.
Definition obs_spec_key (a : list N) : list N :=
  match Specifier a with Some x => op_txt (fst (spec_key x)) ++ snd (spec_key x) | None => asc "E" end.

Definition run_spec (cmd : list N) (args : list (list N)) : option (list N) :=
  if seqb cmd (asc "sp.parse") then Some (obs_spec_parse (nth_str 0 args))
  else if seqb cmd (asc "sp.contains") then Some (obs_spec_contains (nth_str 0 args) (nth_str 1 args) (nth_str 2 args) (nth_str 3 args))
  else if seqb cmd (asc "sp.eq") then Some (obs_spec_eq (nth_str 0 args) (nth_str 1 args))
  else if seqb cmd (asc "sp.sem") then Some (obs_spec_sem (nth_str 0 args) (nth_str 1 args))
  else if seqb cmd (asc "sp.sem.obj") then Some (obs_spec_sem (nth_str 0 args) (nth_str 1 args))
  else if seqb cmd (asc "sp.query") then Some (obs_spec_query (nth_str 0 args) (nth_str 1 args) (nth_str 2 args) (nth_str 3 args) (nth_str 5 args))
  else None.
