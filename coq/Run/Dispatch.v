(* One entry point for the correspondence check: run cmd args = the model's observation, as text. *)
From Coq Require Import List NArith Bool String.
Import ListNotations.
Require Import Show RunVersion RunSpec RunSets RunNames RunFiles RunTags RunPlat RunMeta RunEmail RunLic RunMarker RunReq RunMisc.
Open Scope N_scope.

Definition first_some {A} (l : list (option A)) (d : A) : A :=
  fold_right (fun o acc => match o with Some a => a | None => acc end) d l.

Definition run (cmd : list N) (args : list (list N)) : list N :=
  first_some [ run_version cmd args; run_spec cmd args; run_sets cmd args; run_names cmd args; run_files cmd args;
               run_tags cmd args; run_plat cmd args; run_meta cmd args; run_email cmd args; run_lic cmd args;
               run_marker cmd args; run_req cmd args; run_misc cmd args ] (asc "?unknown-command").
