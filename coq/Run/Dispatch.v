(* One entry point for the correspondence check: run cmd args = the model's observation, as text. *)
From Coq Require Import List NArith Bool String.
Import ListNotations.
Require Import Show RunVersion.
Open Scope N_scope.

Definition first_some {A} (l : list (option A)) (d : A) : A :=
  fold_right (fun o acc => match o with Some a => a | None => acc end) d l.

Definition run (cmd : list N) (args : list (list N)) : list N :=
  first_some [ run_version cmd args ] (asc "?unknown-command").
