(* Observation commands of the marker domain (C07, C09).  Definitions only.
   k.eval  text mode entry*   mode = N (evaluate() without a mapping) | M (with one);
                              entry = "d" key "=" value   a detected value (default_environment())
                                    | "o" key "=" value   a supplied value
                                    | "o" key "!"         a supplied None
                              (a repeated key: the last entry counts; keys that name no variable are allowed)
                              -> T | F | U (UndefinedComparison) | I (InvalidMarker) | ? (outside the modelled domain) | C
   k.str   text               -> I | ? | "S" str(Marker(text))
   k.eq    a b                -> I | ? | T | F        (Marker(a) == Marker(b)) *)
From Coq Require Import List NArith Bool String.
Import ListNotations.
Require Import Show MText MkModel MkEval.
Open Scope N_scope.

Fixpoint split1 (c0 : N) (s : list N) : option (list N * list N) :=
  match s with
  | [] => None
  | c :: t => if c =? c0 then Some ([], t)
              else match split1 c0 t with Some (a, b) => Some (c :: a, b) | None => None end
  end.
Definition entry := (bool * (list N * option (list N)))%type.     (* (is_override, (key, value)) *)
Definition parse_entry (s : list N) : option entry :=
  match s with
  | tag :: body =>
      let ov := tag =? 111 in
      match split1 61 body with
      | Some (k, v) => Some (ov, (k, Some v))
      | None => match rev body with
                | c :: rk => if c =? 33 then Some (ov, (rev rk, None)) else None
                | [] => None
                end
      end
  | [] => None
  end.
Fixpoint entries (l : list (list N)) : list entry :=
  match l with [] => [] | s :: t => match parse_entry s with Some e => e :: entries t | None => entries t end end.
(* the entries are read like successive dict assignments (a repeated key: the LAST entry is the value); the environment model is an
   association list in which the FIRST entry of a key counts, hence the rev *)
Definition defaults_of (es : list entry) : list (list N * list N) :=
  rev (flat_map (fun e : entry => if fst e then [] else match snd (snd e) with Some v => [(fst (snd e), v)] | None => [] end) es).
Definition overrides_of (es : list entry) : envmap :=
  rev (flat_map (fun e : entry => if fst e then [snd e] else []) es).

Definition show_eres (r : eres) : list N :=
  match r with EBool true => [84] | EBool false => [70] | EUndef => [85] | ECrash => [67] end.

Definition obs_eval (args : list (list N)) : list N :=
  match Marker (nth_str 0 args) with
  | MInvalid => [73]
  | MOracle => [63]
  | MOk m =>
      let es := entries (skipn 2 args) in
      let ov := if seqb (nth_str 1 args) [78] then None else Some (overrides_of es) in
      show_eres (evaluate m (defaults_of es) ov)
  end.

Definition obs_str (s : list N) : list N :=
  match Marker s with MInvalid => [73] | MOracle => [63] | MOk m => 83 :: format_marker m end.

Definition obs_eq (a b : list N) : list N :=
  match Marker a, Marker b with
  | MOk x, MOk y => show_bool (marker_eq x y)
  | MInvalid, _ => [73] | _, MInvalid => [73]
  | _, _ => [63]
  end.

Definition run_marker (cmd : list N) (args : list (list N)) : option (list N) :=
  if seqb cmd (asc "k.eval") then Some (obs_eval args)
  else if seqb cmd (asc "k.str") then Some (obs_str (nth_str 0 args))
  else if seqb cmd (asc "k.eq") then Some (obs_eq (nth_str 0 args) (nth_str 1 args))
  else None.
