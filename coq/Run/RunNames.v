(* Observation commands of the name domain (C13).  Definitions only. *)
From Coq Require Import List NArith Bool String.
Import ListNotations.
Require Import VParse VMeaning Names Show.
Open Scope N_scope.

(* n.name s  ->  validate|normalized|canonical    validate = T when canonicalize_name(s, validate=True) returns (the same value), F when InvalidName *)
Definition obs_name (s : list N) : list N :=
  fields [ match canonicalize_name true s with NOk _ => show_bool true | NInvalidName => show_bool false end;
           show_bool (is_normalized s);
           match canonicalize_name false s with NOk c => c | NInvalidName => asc "E" end ].

Definition run_names (cmd : list N) (args : list (list N)) : option (list N) :=
  if seqb cmd (asc "n.name") then Some (obs_name (nth_str 0 args))
  else None.
