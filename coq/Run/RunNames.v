(* Observation commands of the name domain (C13).  Definitions only. *)
From Coq Require Import List NArith Bool String.
Import ListNotations.
Require Import VParse VMeaning Names NamesX NamesRegex Show.
Open Scope N_scope.

(* n.name s  ->  validate|normalized|canonical    validate = T when canonicalize_name(s, validate=True) returns (the same value), F when InvalidName.
   The model is the exact one (NamesX: the interpreter's full str.lower() table and the Final_Sigma rule). *)
Definition obs_name (s : list N) : list N :=
  fields [ match canonicalize_name_x true s with NOk _ => show_bool true | NInvalidName => show_bool false end;
           show_bool (is_normalized s);
           match canonicalize_name_x false s with NOk c => c | NInvalidName => asc "E" end ].
(* n.lower s  ->  s.lower()   (ties the generated tables of NamesX to the interpreter) *)
Definition obs_lower (s : list N) : list N := lower_full s.

(* n.re s  ->  T/F|T/F : the transcribed patterns through the regex matcher: _validate_regex.match(s), _normalized_regex.match(s) *)
Definition obs_re (s : list N) : list N := fields [show_bool (re_match validate_re s); show_bool (re_match normalized_re s)].

Definition run_names (cmd : list N) (args : list (list N)) : option (list N) :=
  if seqb cmd (asc "n.name") then Some (obs_name (nth_str 0 args))
  else if seqb cmd (asc "n.lower") then Some (obs_lower (nth_str 0 args))
  else if seqb cmd (asc "n.re") then Some (obs_re (nth_str 0 args))
  else None.
