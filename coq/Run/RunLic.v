(* Observation commands of the licence domain (C19).  Definitions only: imports the model and the generated table, no lemma file. *)
From Coq Require Import List NArith Bool String.
Import ListNotations.
Require Import Show LicModel LicTop LicSpec LicSpecX SpdxTable.
Open Scope N_scope.

(* l.canon s  ->  OK|<result>  |  E (InvalidLicenseExpression)  |  L|<result> (nesting depth 101..200: OK|<result> or E, interpreter
   dependent)  |  !EXC:KeyError *)
Definition obs_canon (s : list N) : list N :=
  match canonicalize_license_expression s with
  | Ok o => asc "OK|" ++ o
  | Err => asc "E"
  | Limit o => asc "L|" ++ o
  | Crash => asc "!EXC:KeyError"
  end.

(* l.sweep mode joiner m prefix w0 w1 ...: every sequence  prefix ++ suffix,  suffix of length 0..m over the words w0 w1 ... (shorter
   suffixes first, then lexicographic), joined with `joiner` and run through the whole model: one character per sequence,
   1 = accepted, 0 = rejected, ? = anything else; with mode "o" followed by "|" and every accepted result, each ended by "\n".
   prefix is a string of digits indexing the words. *)
Fixpoint seqs (n : nat) (alpha : list (list N)) : list (list (list N)) :=
  match n with O => [[]] | S m => flat_map (fun w => map (cons w) (seqs m alpha)) alpha end.
Fixpoint upto (n : nat) : list nat := match n with O => [O] | S m => upto m ++ [n] end.
Definition obs_sweep (mode joiner : list N) (m : N) (prefix : list N) (words : list (list N)) : list N :=
  let pre := map (fun c => nth (N.to_nat (c - 48)) words []) prefix in
  let rs := flat_map (fun n => map (fun suf => canonicalize_license_expression (join joiner (pre ++ suf))) (seqs n words)) (upto (N.to_nat m)) in
  map (fun r => match r with Ok _ => 49 | Err => 48 | _ => 63 end) rs ++
  (if seqb mode (asc "o") then 124 :: flat_map (fun r => match r with Ok o => o ++ [10] | _ => [] end) rs else []).

(* l.evalsweep m prefix: the eval() component alone.  Every skeleton  prefix ++ suffix  (suffix of length 0..m over False or and ( ),
   shorter first, then lexicographic; prefix = digits indexing these five) that the code can actually pass to eval(), i.e. that the
   first loop produces from the corresponding tokens without raising: one character each, 1 = py_eval says "value False",
   0 = "raises / not False", ? = interpreter dependent; preceded by their number and ":". *)
Definition ptoks : list ptok := [PF; POr; PAnd; PL; PR].
Definition ptok_word (p : ptok) : list N :=
  match p with PF => asc "x" | POr => asc "or" | PAnd => asc "and" | PL => asc "(" | PR => asc ")" end.
Fixpoint pseqs (n : nat) : list (list ptok) :=
  match n with O => [[]] | S m => flat_map (fun p => map (cons p) (pseqs m)) ptoks end.
Definition obs_evalsweep (m : N) (prefix : list N) : list N :=
  let pre := map (fun c => nth (N.to_nat (c - 48)) ptoks PF) prefix in
  let all := flat_map (fun n => map (fun suf => pre ++ suf) (pseqs n)) (upto (N.to_nat m)) in
  let passing := filter (fun ps => match skeleton None (map ptok_word ps) with Some _ => true | None => false end) all in
  show_N (N.of_nat (List.length passing)) ++ [58] ++
  map (fun ps => match py_eval ps with EvFalse => 49 | EvBad => 48 | EvLimit => 63 end) passing.

(* l.spec s: the declarative specification LicSpec.spec_canon alone (no model of the code involved; run as LicSpecX.spec_canon_x, proved
   equal: C19_spec_observation_is_the_specification), for the direct comparison with the harness-side Python reading of the property
   (harness/gen_lic.py spec):  N = not an expression  |  S|<band>|<canonical text>
   with band 0 = nesting depth <= 100, 1 = 101..200, 2 = deeper than 200. *)
Definition obs_spec (s : list N) : list N :=
  match spec_canon_x licenses exceptions s with
  | None => asc "N"
  | Some o =>
      asc "S|" ++ (if nests_deeper_than 200 (spdx_tokens s) then asc "2" else if nests_deeper_than 100 (spdx_tokens s) then asc "1" else asc "0")
      ++ asc "|" ++ o
  end.

Definition run_lic (cmd : list N) (args : list (list N)) : option (list N) :=
  if seqb cmd (asc "l.canon") then Some (obs_canon (nth_str 0 args))
  else if seqb cmd (asc "l.sweep") then Some (obs_sweep (nth_str 0 args) (nth_str 1 args) (parse_N (nth_str 2 args)) (nth_str 3 args) (skipn 4 args))
  else if seqb cmd (asc "l.spec") then Some (obs_spec (nth_str 0 args))
  else if seqb cmd (asc "l.evalsweep") then Some (obs_evalsweep (parse_N (nth_str 0 args)) (nth_str 1 args))
  else None.
