(* Observation commands of the filename / tag domain (C14).  Definitions only. *)
From Coq Require Import List NArith Bool String.
Import ListNotations.
Require Import VParse VDec Py VMeaning SpecModel Names WheelModel Show.
Open Scope N_scope.

(* a frozenset of tags: the sorted, duplicate-free list of their str(), joined by "." (no field of a parsed tag contains "." or "-") *)
Definition show_tags (ts : list tag) : list N := join [46] (sort_u (map tag_str ts)).
Definition show_build (b : option (N * list N)) : list N :=
  match b with None => asc "()" | Some (n, suf) => show_N n ++ [44] ++ suf end.
Definition show_crash (c : crash) : list N := asc "CRASH".

(* f.wheel fn -> E | CRASH | OK|name|str(version)|tags|build *)
Definition obs_wheel (fn : list N) : list N :=
  match parse_wheel fn with
  | FErr => asc "E"
  | FCrash c => show_crash c
  | FOk (name, v, b, ts) => fields [asc "OK"; name; vstr v; show_tags ts; show_build b]
  end.
(* f.sdist fn -> E | OK|name|str(version) *)
Definition obs_sdist (fn : list N) : list N :=
  match parse_sdist fn with
  | FErr => asc "E"
  | FCrash c => show_crash c
  | FOk (name, v) => fields [asc "OK"; name; vstr v]
  end.
(* f.tag s -> CRASH | n|tags   (n = size of the set) *)
Definition obs_tag (s : list N) : list N :=
  match parse_tag s with
  | FErr => asc "E"
  | FCrash c => show_crash c
  | FOk ts => fields [show_N (N.of_nat (List.length (sort_u (map tag_str ts)))); show_tags ts]
  end.
(* f.tageq i a p i' a' p' -> interpreter|abi|platform|str of the first, then T/F: Tag(i,a,p) == Tag(i',a',p') *)
Definition obs_tageq (args : list (list N)) : list N :=
  let x := mk_tag (nth_str 0 args) (nth_str 1 args) (nth_str 2 args) in
  let y := mk_tag (nth_str 3 args) (nth_str 4 args) (nth_str 5 args) in
  fields [t_interp x; t_abi x; t_plat x; tag_str x; show_bool (tag_eq (fun _ => 0) x y)].

Definition run_files (cmd : list N) (args : list (list N)) : option (list N) :=
  if seqb cmd (asc "f.wheel") then Some (obs_wheel (nth_str 0 args))
  else if seqb cmd (asc "f.sdist") then Some (obs_sdist (nth_str 0 args))
  else if seqb cmd (asc "f.tag") then Some (obs_tag (nth_str 0 args))
  else if seqb cmd (asc "f.tageq") then Some (obs_tageq args)
  else None.
