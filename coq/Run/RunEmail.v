(* Observation command of the e-mail domain (C18): e.parse = the (raw, unparsed) pair parse_email returns, computed by the model from
   what the `email` package delivered.  Definitions only.

   Tokens (one per argument, first character = tag):
     H<name>   a header, name as spelled          V<value> its value, every chunk valid UTF-8     W<value> its value, some chunk not UTF-8
     Y<text>   the payload _get_payload returned  Z<text>  _get_payload raised ValueError; <text> renders the object filed instead
   Other tags (the document itself, for the implementation side) are ignored. *)
From Coq Require Import List NArith Bool String.
Import ListNotations.
Require Import Show MetaBase MetaShow EmailModel EmailText.
Open Scope N_scope.

Record epstate := { ep_items : list item; ep_name : list N; ep_payload : payload }.
Definition ep_step (st : epstate) (tok : list N) : epstate :=
  match tok with
  | [] => st
  | tag :: body =>
      if tag =? 72 then {| ep_items := ep_items st; ep_name := body; ep_payload := ep_payload st |}
      else if tag =? 86 then {| ep_items := ep_items st ++ [{| i_name := ep_name st; i_val := body; i_valid := true |}]; ep_name := ep_name st; ep_payload := ep_payload st |}
      else if tag =? 87 then {| ep_items := ep_items st ++ [{| i_name := ep_name st; i_val := body; i_valid := false |}]; ep_name := ep_name st; ep_payload := ep_payload st |}
      else if tag =? 89 then {| ep_items := ep_items st; ep_name := ep_name st; ep_payload := POk body |}
      else if tag =? 90 then {| ep_items := ep_items st; ep_name := ep_name st; ep_payload := PErr body |}
      else st
  end.
Definition ep_parse (toks : list (list N)) : epstate := fold_left ep_step toks {| ep_items := []; ep_name := []; ep_payload := POk [] |}.

Definition show_rawval (v : rawval) : list N :=
  match v with RStr s => show_s s | RList l => show_list l | RDict d => show_dict d end.
Definition show_uval (u : uval) : list N := match u with UStr s => show_s s | UOpaque s => [63] ++ show_s s end.
Definition show_dicts (d : dicts) : list N :=
  let '(raw, unparsed) := d in
  join [59] (map (fun e => show_s (fst e) ++ [61] ++ show_rawval (snd e)) (sort_by fst raw)) ++ bar ++
  join [59] (map (fun e => show_s (fst e) ++ [61] ++ [91] ++ join [44] (map show_uval (snd e)) ++ [93]) (sort_by fst unparsed)).

Definition obs_parse (args : list (list N)) : list N :=
  let st := ep_parse args in show_dicts (post_email (ep_items st) (ep_payload st)).

(* e.lines doc -> what [parse_lines] says the email package delivers for a str document of the simple "Name: value" shape:
   name=value;...|body  (strings as code points), or "?" when the document is not of that shape (then nothing is claimed) *)
Definition obs_lines (doc : list N) : list N :=
  match parse_lines doc with
  | None => [63]
  | Some (items, p) =>
      join [59] (map (fun i => show_s (i_name i) ++ [61] ++ show_s (i_val i)) items) ++ bar ++
      match p with POk b => show_s b | PErr _ => [63] end
  end.

Definition run_email (cmd : list N) (args : list (list N)) : option (list N) :=
  if seqb cmd (asc "e.parse") then Some (obs_parse args)
  else if seqb cmd (asc "e.lines") then Some (obs_lines (nth_str 0 args))
  else None.
