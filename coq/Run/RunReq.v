(* Observation commands of the requirement domain (C08).  Definitions only.
   r.parse s   -> "E" (InvalidRequirement) | "?" (marker literal with a backslash: outside the model) |
                  OK|name|sorted extras joined by ","|str(specifier)|U<url> or -|M<str(marker)> or -|str(r)
   r.rt s      -> "E" | "?" | RT|str(r)|<r.parse of str(r)>|T/F (Requirement(str(r)) == r): the round trip of str()
   r.eq a b    -> "E" if either is invalid, "?" if either is outside the model, else T/F (Requirement.__eq__)
   r.eqh a b   -> as r.eq, followed by T/F for "the hashes are equal" (model: the keys req_key are equal) *)
From Coq Require Import List NArith Bool String.
Import ListNotations.
Require Import Show MText MkModel SpecContains ReqModel.
Open Scope N_scope.

Definition obs_req (s : list N) : list N :=
  match Requirement s with
  | RqInvalid => asc "E"
  | RqOracle => asc "?"
  | RqOk r =>
      fields [asc "OK"; q_name r; rq_join [44] (rq_extras_sorted r); rq_set_str (q_specs r);
              match q_url r with Some u => 85 :: u | None => [45] end;
              match q_marker r with Some m => 77 :: format_marker m | None => [45] end;
              req_str r]
  end.
Definition obs_req_eq (a b : list N) : list N :=
  match Requirement a, Requirement b with
  | RqOk x, RqOk y => show_bool (req_eq x y)
  | RqOracle, _ | _, RqOracle => asc "?"
  | _, _ => asc "E"
  end.

(* r.eqh a b   -> "E" | "?" | two letters: Requirement.__eq__, and equality of what __hash__ hashes (req_key), decided by
   ReqModel.rq_key_eqb - proved to be equality of keys (ReqExtraP.key_eqb_eq: rq_key_eqb x y = true <-> x = y), hence by
   C08_eq_is_key the second letter always equals the first in the model *)
Definition obs_req_eqh (a b : list N) : list N :=
  match Requirement a, Requirement b with
  | RqOk x, RqOk y => show_bool (req_eq x y) ++ show_bool (rq_key_eqb (req_key x) (req_key y))
  | RqOracle, _ | _, RqOracle => asc "?"
  | _, _ => asc "E"
  end.

Definition obs_req_rt (s : list N) : list N :=
  match Requirement s with
  | RqInvalid => asc "E"
  | RqOracle => asc "?"
  | RqOk r =>
      fields [asc "RT"; req_str r; obs_req (req_str r);
              match Requirement (req_str r) with RqOk r' => show_bool (req_eq r r') | _ => [45] end]
  end.

Definition run_req (cmd : list N) (args : list (list N)) : option (list N) :=
  if seqb cmd (asc "r.parse") then Some (obs_req (nth_str 0 args))
  else if seqb cmd (asc "r.rt") then Some (obs_req_rt (nth_str 0 args))
  else if seqb cmd (asc "r.eq") then Some (obs_req_eq (nth_str 0 args) (nth_str 1 args))
  else if seqb cmd (asc "r.eqh") then Some (obs_req_eqh (nth_str 0 args) (nth_str 1 args))
  else None.
