(* Observation commands of the requirement domain (C08).  Definitions only.
   r.parse s   -> "E" (InvalidRequirement) | "?" (marker literal with a backslash: outside the model) |
                  OK|name|sorted extras joined by ","|str(specifier)|U<url> or -|M<str(marker)> or -|str(r)
   r.eq a b    -> "E" if either is invalid, "?" if either is outside the model, else T/F (Requirement.__eq__) *)
From Coq Require Import List NArith Bool String.
Import ListNotations.
Require Import Show MText MkModel SpecContains ReqModel.
Open Scope N_scope.

Definition obs_req (s : list N) : list N :=
  match Requirement s with
  | RqInvalid => asc "E"
  | RqOracle => asc "?"
  | RqOk r =>
      fields [asc "OK"; q_name r; rq_join [44] (rq_extras_sorted r); rq_set_str (q_specs r);
              match q_url r with Some u => 85 :: u | None => [45] end;
              match q_marker r with Some m => 77 :: format_marker m | None => [45] end;
              req_str r]
  end.
Definition obs_req_eq (a b : list N) : list N :=
  match Requirement a, Requirement b with
  | RqOk x, RqOk y => show_bool (req_eq x y)
  | RqOracle, _ | _, RqOracle => asc "?"
  | _, _ => asc "E"
  end.

Definition run_req (cmd : list N) (args : list (list N)) : option (list N) :=
  if seqb cmd (asc "r.parse") then Some (obs_req (nth_str 0 args))
  else if seqb cmd (asc "r.eq") then Some (obs_req_eq (nth_str 0 args) (nth_str 1 args))
  else None.
