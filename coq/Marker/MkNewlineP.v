(* C09: a trailing newline.  END of the marker grammar is "$", which also matches just before a final "\n"; Marker(text + "\n")
   therefore is the very Marker(text).  Proved for EVERY text the strict parser (MText.parse_marker, END at the very end - the form
   the requirement model uses) accepts, by showing that every scanner of the grammar commutes with appending "\n" to the input:
   the newline is neither whitespace (WS = [ \t]+), nor a word character, nor part of any token. *)
From Coq Require Import List Arith NArith Bool Lia.
Import ListNotations.
Require Import MText MkModel MkEval MkEvalP.
Require Import ReqMarkP.
Open Scope N_scope.
Arguments N.eqb : simpl never.
Arguments N.leb : simpl never.

Definition nl1 : str := [10].
Definition ext (s t : st) : Prop := prev s = prev t /\ rest t = rest s ++ nl1.
Definition rel {A} (x y : option (A * st)) : Prop :=
  match x, y with None, None => True | Some (a, s), Some (b, t) => a = b /\ ext s t | _, _ => False end.
Definition extp {A} (f : st -> option (A * st)) : Prop := forall s t, ext s t -> rel (f s) (f t).

Lemma span_app_stop (p : char -> bool) : p 10 = false -> forall r, span p (r ++ nl1) = (fst (span p r), snd (span p r) ++ nl1).
Proof.
  intros Hc. induction r as [|x r IH]; cbn [app span].
  - unfold nl1. cbn [span]. now rewrite Hc.
  - destruct (p x); [|reflexivity]. rewrite IH. destruct (span p r). reflexivity.
Qed.
Lemma adv_ext s t tok r : ext s t -> ext (adv s tok r) (adv t tok (r ++ nl1)).
Proof. intros [H1 H2]. split; cbn; [now rewrite H1 | reflexivity]. Qed.
Lemma skip_ws_ext s t : ext s t -> ext (skip_ws s) (skip_ws t).
Proof.
  intros [H1 H2]. unfold skip_ws. rewrite H2. rewrite (span_app_stop is_wsb eq_refl).
  destruct (span is_wsb (rest s)) as [w r]. cbn [fst snd]. apply adv_ext. split; auto.
Qed.
Definition no10 (w : str) : bool := forallb (fun c => negb (c =? 10)) w.
Lemma starts_ext w : no10 w = true -> forall r, starts w (r ++ nl1) = option_map (fun x => x ++ nl1) (starts w r).
Proof.
  induction w as [|p w IH]; intros Hw r; [reflexivity|].
  cbn [no10 forallb] in Hw. apply andb_prop in Hw as [Hp Hw]. apply negb_true_iff in Hp.
  destruct r as [|c r]; cbn [app starts].
  - unfold nl1. cbn [starts]. rewrite N.eqb_sym, Hp. reflexivity.
  - destruct (c =? p); [apply IH; exact Hw | reflexivity].
Qed.
Lemma wordness_hd_ext (x : str) : wordness (hd_opt (x ++ nl1)) = wordness (hd_opt x).
Proof. destruct x; reflexivity. Qed.
Lemma first_bword_ext ws : forallb no10 ws = true -> extp (first_bword ws).
Proof.
  induction ws as [|w ws IH]; intros Hws s t Hst; cbn [first_bword]; [exact I|].
  cbn [forallb] in Hws. apply andb_prop in Hws as [Hw Hws]. pose proof Hst as [H1 H2].
  rewrite H2, (starts_ext w Hw). destruct (starts w (rest s)) as [r|]; cbn [option_map]; [|apply IH; auto].
  unfold boundary. rewrite wordness_hd_ext, H1.
  destruct (xorb _ _); [|apply IH; auto]. split; auto. now apply adv_ext.
Qed.
Lemma bword_ext ws : forallb no10 ws = true -> extp (bword ws).
Proof.
  intros Hws s t Hst. unfold bword. pose proof Hst as [H1 H2]. unfold boundary. rewrite H2, wordness_hd_ext, H1.
  destruct (xorb _ _); [|exact I]. now apply first_bword_ext.
Qed.
Lemma first_plain_ext ws : forallb no10 ws = true -> extp (first_plain ws).
Proof.
  induction ws as [|w ws IH]; intros Hws s t Hst; cbn [first_plain]; [exact I|].
  cbn [forallb] in Hws. apply andb_prop in Hws as [Hw Hws]. pose proof Hst as [H1 H2].
  rewrite H2, (starts_ext w Hw). destruct (starts w (rest s)) as [r|]; cbn [option_map]; [|apply IH; auto].
  split; auto. now apply adv_ext.
Qed.
Lemma span_app_found (p : char -> bool) r b : forall x c r', span p r = (x, c :: r') -> span p (r ++ b) = (x, c :: r' ++ b).
Proof.
  induction r as [|y r IH]; intros x c r'; cbn [app span]; [discriminate|].
  destruct (p y) eqn:E.
  - destruct (span p r) as [x0 r0] eqn:F. intros [= <- ->]. now rewrite (IH _ _ _ eq_refl).
  - intros [= <- <- <-]. reflexivity.
Qed.
Lemma span_app_all (p : char -> bool) r b : forallb p b = true -> forall x, span p r = (x, []) -> span p (r ++ b) = (x ++ b, []).
Proof.
  intros Hb. induction r as [|y r IH]; intros x; cbn [app span].
  - intros [= <-]. cbn [app]. induction b as [|c b IHb]; [reflexivity|]. cbn [forallb] in Hb. apply andb_prop in Hb as [Hc Hb].
    cbn [span]. now rewrite Hc, (IHb Hb).
  - destruct (p y); [|discriminate]. destruct (span p r) as [x0 r0]. intros [= <- ->]. now rewrite (IH _ eq_refl).
Qed.
Lemma p_quoted_ext : extp p_quoted.
Proof.
  intros [ps rs] [pt rt] [H1 H2]. cbn [rest prev] in *. subst pt rt. unfold p_quoted. cbn [rest].
  destruct rs as [|q r]; [exact I|]. cbn [app].
  destruct ((q =? 39) || (q =? 34)) eqn:Q; [|exact I].
  destruct (span (plain_char q) r) as [body r0] eqn:E. destruct r0 as [|q' r'].
  - assert (P10 : forallb (plain_char q) nl1 = true).
    { cbn. unfold plain_char. apply orb_prop in Q as [Q|Q]; apply N.eqb_eq in Q; subst q; reflexivity. }
    now rewrite (span_app_all _ r nl1 P10 _ E).
  - rewrite (span_app_found _ r nl1 _ _ _ E). split; auto. split; cbn; reflexivity.
Qed.

Lemma p_var_ext : extp p_var.
Proof.
  intros s t Hst. unfold p_var.
  pose proof (bword_ext var_alts eq_refl s t Hst) as X. unfold rel in X.
  destruct (bword var_alts s) as [[a s1]|], (bword var_alts t) as [[b t1]|]; try contradiction.
  - destruct X as [-> X]. split; auto.
  - pose proof (p_quoted_ext s t Hst) as Y. unfold rel in Y.
    destruct (p_quoted s) as [[a s1]|], (p_quoted t) as [[b t1]|]; try contradiction; auto.
    destruct Y as [-> Y]. split; auto.
Qed.
Lemma p_op_ext : extp p_op.
Proof.
  intros s t Hst. unfold p_op.
  pose proof (bword_ext [w_in] eq_refl s t Hst) as X. unfold rel in X.
  destruct (bword [w_in] s) as [[a s1]|], (bword [w_in] t) as [[b t1]|]; try contradiction.
  - destruct X as [_ X]. split; auto.
  - pose proof (bword_ext [w_not] eq_refl s t Hst) as Y. unfold rel in Y.
    destruct (bword [w_not] s) as [[a s1]|], (bword [w_not] t) as [[b t1]|]; try contradiction.
    + destruct Y as [_ Y]. pose proof Y as [Y1 Y2]. rewrite Y2, (span_app_stop is_wsb eq_refl).
      destruct (span is_wsb (rest s1)) as [w r]. cbn [fst snd]. destruct w as [|c w]; [exact I|].
      assert (Z : ext (adv s1 (c :: w) r) (adv t1 (c :: w) (r ++ nl1))) by (now apply adv_ext).
      pose proof (bword_ext [w_in] eq_refl _ _ Z) as Q. unfold rel in Q.
      destruct (bword [w_in] (adv s1 (c :: w) r)) as [[a' s2]|], (bword [w_in] (adv t1 (c :: w) (r ++ nl1))) as [[b' t2]|]; try contradiction; auto.
      destruct Q as [_ Q]. split; auto.
    + apply first_plain_ext; auto.
Qed.
Lemma p_item_ext : extp p_item.
Proof.
  intros s t Hst. unfold p_item. cbv zeta.
  pose proof (p_var_ext _ _ (skip_ws_ext _ _ Hst)) as X. unfold rel in X.
  destruct (p_var (skip_ws s)) as [[l s1]|], (p_var (skip_ws t)) as [[l' t1]|]; try contradiction; auto.
  destruct X as [-> X].
  pose proof (p_op_ext _ _ (skip_ws_ext _ _ X)) as Y. unfold rel in Y.
  destruct (p_op (skip_ws s1)) as [[o s2]|], (p_op (skip_ws t1)) as [[o' t2]|]; try contradiction; auto.
  destruct Y as [-> Y].
  pose proof (p_var_ext _ _ (skip_ws_ext _ _ Y)) as Z. unfold rel in Z.
  destruct (p_var (skip_ws s2)) as [[r s3]|], (p_var (skip_ws t2)) as [[r' t3]|]; try contradiction; auto.
  destruct Z as [-> Z]. split; auto. now apply skip_ws_ext.
Qed.
Lemma hd_is_c_ext c (x : str) : (c =? 10) = false -> hd_is_c c (x ++ nl1) = hd_is_c c x.
Proof. intros H. destruct x; cbn; [now rewrite N.eqb_sym|reflexivity]. Qed.
Lemma atom_ext pm : extp pm -> extp (p_atom_with pm).
Proof.
  intros H s t Hst. unfold p_atom_with. cbv zeta.
  pose proof (skip_ws_ext _ _ Hst) as K. pose proof K as [K1 K2]. rewrite K2, (hd_is_c_ext 40 _ eq_refl).
  destruct (hd_is_c 40 (rest (skip_ws s))) eqn:H40.
  - assert (T : tl (rest (skip_ws s) ++ nl1) = tl (rest (skip_ws s)) ++ nl1) by (destruct (rest (skip_ws s)); [discriminate|reflexivity]).
    rewrite T.
    assert (Z : ext (skip_ws (adv (skip_ws s) [40] (tl (rest (skip_ws s))))) (skip_ws (adv (skip_ws t) [40] (tl (rest (skip_ws s)) ++ nl1))))
      by (apply skip_ws_ext, adv_ext; exact K).
    pose proof (H _ _ Z) as X. unfold rel in X.
    destruct (pm (skip_ws (adv (skip_ws s) [40] (tl (rest (skip_ws s)))))) as [[m s2]|],
             (pm (skip_ws (adv (skip_ws t) [40] (tl (rest (skip_ws s)) ++ nl1)))) as [[m' t2]|]; try contradiction; auto.
    destruct X as [-> X]. pose proof (skip_ws_ext _ _ X) as L. pose proof L as [L1 L2]. rewrite L2, (hd_is_c_ext 41 _ eq_refl).
    destruct (hd_is_c 41 (rest (skip_ws s2))) eqn:H41; [|exact I]. split; auto.
    assert (T2 : tl (rest (skip_ws s2) ++ nl1) = tl (rest (skip_ws s2)) ++ nl1) by (destruct (rest (skip_ws s2)); [discriminate|reflexivity]).
    rewrite T2. apply skip_ws_ext, adv_ext. exact L.
  - pose proof (p_item_ext _ _ K) as X. unfold rel in X.
    destruct (p_item (skip_ws s)) as [[e s1]|], (p_item (skip_ws t)) as [[e' t1]|]; try contradiction; auto.
    destruct X as [-> X]. split; auto. now apply skip_ws_ext.
Qed.
Lemma loop_ext pa : extp pa -> forall k acc, extp (loop_with pa k acc).
Proof.
  intros H. induction k as [|k IH]; intros acc s t Hst; cbn [loop_with]; [exact I|].
  pose proof (bword_ext bool_alts eq_refl s t Hst) as X. unfold rel in X.
  destruct (bword bool_alts s) as [[w s1]|], (bword bool_alts t) as [[w' t1]|]; try contradiction.
  - destruct X as [-> X]. pose proof (H _ _ X) as Y. unfold rel in Y.
    destruct (pa s1) as [[a s2]|], (pa t1) as [[a' t2]|]; try contradiction; auto.
    destruct Y as [-> Y]. apply IH; auto.
  - split; auto.
Qed.
Lemma p_marker_ext : forall f, extp (p_marker f).
Proof.
  induction f as [|f IH]; intros s t Hst; [exact I|].
  change (p_marker (S f) s) with (match p_atom_with (p_marker f) s with None => None | Some (a, s1) => loop_with (p_atom_with (p_marker f)) (S f) [a] s1 end).
  change (p_marker (S f) t) with (match p_atom_with (p_marker f) t with None => None | Some (a, s1) => loop_with (p_atom_with (p_marker f)) (S f) [a] s1 end).
  pose proof (atom_ext _ IH s t Hst) as X. unfold rel in X.
  destruct (p_atom_with (p_marker f) s) as [[a s1]|], (p_atom_with (p_marker f) t) as [[a' t1]|]; try contradiction; auto.
  destruct X as [-> X]. apply loop_ext; auto. apply atom_ext; auto.
Qed.

(* ---- the grammar's END ---- *)
Theorem parse_marker_newline mt m : MText.parse_marker mt = Some m -> parse_marker_nl (mt ++ [10]) = Some m.
Proof.
  unfold MText.parse_marker. destruct (p_marker (S (length mt)) {| prev := None; rest := mt |}) as [[m0 s0]|] eqn:E; [|discriminate].
  destruct (rest s0) eqn:R; [|discriminate]. intros [= ->].
  apply (p_marker_fuel _ (S (length (mt ++ [10])))) in E; [|rewrite app_length; cbn; lia].
  change (mt ++ [10]) with (mt ++ nl1) in *.
  assert (Z : ext {| prev := None; rest := mt |} {| prev := None; rest := mt ++ nl1 |}) by (split; reflexivity).
  pose proof (p_marker_ext (S (length (mt ++ nl1))) _ _ Z) as X. unfold rel in X. rewrite E in X.
  unfold parse_marker_nl. change (mt ++ [10]) with (mt ++ nl1).
  destruct (p_marker (S (length (mt ++ nl1))) {| prev := None; rest := mt ++ nl1 |}) as [[m1 s1]|]; [|contradiction].
  destruct X as [<- [_ X2]]. rewrite X2, R. reflexivity.
Qed.
Lemma parse_marker_strict_nl mt m : MText.parse_marker mt = Some m -> parse_marker_nl mt = Some m.
Proof.
  unfold MText.parse_marker, parse_marker_nl. destruct (p_marker _ _) as [[m0 s0]|]; [|discriminate].
  destruct (rest s0); [auto|discriminate].
Qed.
Theorem Marker_trailing_newline mt m : MText.parse_marker mt = Some m -> Marker (mt ++ [10]) = Marker mt.
Proof. intros H. unfold Marker. now rewrite (parse_marker_newline mt m H), (parse_marker_strict_nl mt m H). Qed.

Definition newline_check : bool :=
  let t := [111;115;95;110;97;109;101;32;61;61;32;34;97;34;32;111;114;32;34;98;34;32;105;110;32;111;115;95;110;97;109;101] in   (* os_name == "a" or "b" in os_name *)
  match Marker t, Marker (t ++ [10]), Marker (t ++ [10;10]) with
  | MOk a, MOk b, MInvalid => marker_eq a b
  | _, _, _ => false
  end.
Example newline_nonvacuous : newline_check = true.
Proof. vm_compute. reflexivity. Qed.
Print Assumptions Marker_trailing_newline.
