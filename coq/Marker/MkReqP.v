(* C09, last clause: "the marker attached to a parsed Requirement equals the stand-alone Marker of the same text".
   Composition of the C08 theorem Requirement_marker_is_Marker (coq/Req/ReqTopP.v: for every spelled requirement - name, optional
   extras, a clause list (parenthesised or not) or "@ url", optional marker text, blanks wherever the grammar allows them) with the
   C09 round trip and equality laws: the two objects are the same structure, hence ==, same str, same hash, same evaluation, and
   the str of either reparses to it. *)
From Coq Require Import List Arith NArith Bool Lia.
Import ListNotations.
Require Import MText MRound MkModel MkEval MkEvalP MkFmtP MkShapeP MkRoundP MkEqP MkNewlineP.
Require Import ReqModel ReqSpec ReqTopP.
Open Scope N_scope.
Arguments N.eqb : simpl never.
Arguments N.leb : simpl never.

Theorem requirement_marker_same sp mt m : rq_wf sp (Some m) -> rs_marker sp = Some mt -> lit_class m = LOk ->
  exists r a b,
    Requirement (rq_render sp) = RqOk r /\ q_marker r = Some a /\ Marker mt = MOk b /\
    a = b /\ marker_eq a b = true /\ format_marker a = format_marker b /\
    (forall (h : str -> N), h (format_marker a) = h (format_marker b)) /\
    (forall defaults ov, evaluate a defaults ov = evaluate b defaults ov) /\
    (* and str(Requirement(...).marker) is a text of the stand-alone Marker: it reparses to an equal one *)
    Marker (format_marker a) = MOk (peel_top b) /\ marker_eq (peel_top b) b = true /\
    (* the stand-alone text may end in a newline (END = "$") *)
    Marker (mt ++ [10]) = MOk b.
Proof.
  intros W E L. destruct (Requirement_marker_is_Marker sp mt m W E L) as (HM & r & HR & HQ).
  exists r, (norm_l m), (norm_l m). repeat split; auto.
  - apply marker_eq_refl.
  - exact (proj1 (str_roundtrip mt (norm_l m) HM)).
  - exact (str_roundtrip_eq mt (norm_l m) HM).
  - destruct W as (_ & _ & _ & _ & _ & _ & _ & Hm). rewrite E in Hm. etransitivity; [exact (Marker_trailing_newline mt m Hm) | exact HM].
Qed.
Print Assumptions requirement_marker_same.
