(* C09, last clause: "the marker attached to a parsed Requirement equals the stand-alone Marker of the same text".
   Composition of the C08 theorem Requirement_marker_is_Marker (coq/Req/ReqTopP.v: for every spelled requirement - name, optional
   extras, a clause list (parenthesised or not) or "@ url", optional marker text, blanks wherever the grammar allows them) with the
   C09 round trip and equality laws: the two objects are the same structure, hence ==, same str, same hash, same evaluation, and
   the str of either reparses to it. *)
From Coq Require Import List Arith NArith Bool Lia.
Import ListNotations.
Require Import MText MRound MkModel MkEval MkEvalP MkFmtP MkShapeP MkRoundP MkEqP MkNewlineP.
Require Import ReqModel ReqSpec ReqTopP.
Require SpecParse.
Open Scope N_scope.
Arguments N.eqb : simpl never.
Arguments N.leb : simpl never.

Theorem requirement_marker_same sp mt m : rq_wf sp (Some m) -> rs_marker sp = Some mt -> lit_class m = LOk ->
  exists r a b,
    Requirement (rq_render sp) = RqOk r /\ q_marker r = Some a /\ Marker mt = MOk b /\
    a = b /\ marker_eq a b = true /\ format_marker a = format_marker b /\
    (forall (h : str -> N), h (format_marker a) = h (format_marker b)) /\
    (forall defaults ov, evaluate a defaults ov = evaluate b defaults ov) /\
    (* and str(Requirement(...).marker) is a text of the stand-alone Marker: it reparses to an equal one *)
    Marker (format_marker a) = MOk (peel_top b) /\ marker_eq (peel_top b) b = true /\
    (* the stand-alone text may end in a newline (END = "$") *)
    Marker (mt ++ [10]) = MOk b.
Proof.
  intros W E L. destruct (Requirement_marker_is_Marker sp mt m W E L) as (HM & r & HR & HQ).
  exists r, (norm_l m), (norm_l m). repeat split; auto.
  - apply marker_eq_refl.
  - exact (proj1 (str_roundtrip mt (norm_l m) HM)).
  - exact (str_roundtrip_eq mt (norm_l m) HM).
  - destruct W as (_ & _ & _ & _ & _ & _ & _ & Hm). rewrite E in Hm. etransitivity; [exact (Marker_trailing_newline mt m Hm) | exact HM].
Qed.
Print Assumptions requirement_marker_same.

(* the content of requirement_marker_same without the conjuncts that follow from a = b by reflexivity: the requirement's marker IS
   the stand-alone Marker of the text (also of the text followed by one newline), and its str reparses to the peeled structure *)
Theorem requirement_marker_core sp mt m : rq_wf sp (Some m) -> rs_marker sp = Some mt -> lit_class m = LOk ->
  exists r a,
    Requirement (rq_render sp) = RqOk r /\ q_marker r = Some a /\ Marker mt = MOk a /\ Marker (mt ++ [10]) = MOk a /\
    Marker (format_marker a) = MOk (peel_top a).
Proof.
  intros W E L. destruct (requirement_marker_same sp mt m W E L) as (r & a & b & HR & HQ & HM & -> & _ & _ & _ & _ & HF & _ & HN).
  exists r, b. auto.
Qed.
Print Assumptions requirement_marker_core.

(* ---- non-vacuity: " Foo.Bar [ a ,b]\t( >= 1.0 , ==2.* ) ;os.name=='a' or \"X_y\"==extra " satisfies every hypothesis ---- *)
Definition rx_marker_text : list N :=
  [111;115;46;110;97;109;101;61;61;39;97;39;32;111;114;32;34;88;95;121;34;61;61;101;120;116;114;97;32].
Definition rx_pub (r0 : list N) (rs : list (list N)) : SpecParse.pub_sp :=
  {| SpecParse.q_v := None; SpecParse.q_ep := None; SpecParse.q_rel0 := r0; SpecParse.q_rels := rs;
     SpecParse.q_pre := None; SpecParse.q_post := None; SpecParse.q_dev := None |}.
Definition rx_sp : rq_spelled :=
  {| rs_w0 := [32]; rs_name := [70;111;111;46;66;97;114]; rs_w1 := [32];
     rs_extras := Some ([32], [([], [97], [32]); ([], [98], [])]);
     rs_w2 := [9];
     rs_body := SB_clauses (Some [32])
       [ ([], {| c_op := SpecParse.OGe; c_ws := [32]; c_body := SpecParse.BPub (rx_pub [49] [[48]]) None |}, [32]);
         ([32], {| c_op := SpecParse.OEq; c_ws := []; c_body := SpecParse.BWild None None [50] [] |}, [32]) ];
     rs_w3 := [32]; rs_marker := Some rx_marker_text |}.
Example requirement_marker_hypotheses :
  exists m, rq_wf rx_sp (Some m) /\ rs_marker rx_sp = Some rx_marker_text /\ lit_class m = LOk.
Proof.
  eexists. split; [|split].
  - unfold rq_wf, rx_sp. cbn [rs_w0 rs_name rs_w1 rs_extras rs_w2 rs_body rs_w3 rs_marker rq_wf_body].
    repeat split; try reflexivity; try discriminate;
      repeat (constructor; try (repeat split; try reflexivity; try discriminate)).
  - reflexivity.
  - reflexivity.
Qed.
(* computed on that instance: the requirement's marker equals the Marker of the text and of text + "\n"; and - NOT a theorem, the
   requirement model has no lemma for it - Requirement(text + "\n") gives the same requirement (END = "$" there too) *)
Definition rx_check : bool :=
  match Requirement (rq_render rx_sp), Requirement (rq_render rx_sp ++ [10]), Marker rx_marker_text, Marker (rx_marker_text ++ [10]) with
  | RqOk r, RqOk r', MOk a, MOk a' =>
      match q_marker r, q_marker r' with
      | Some x, Some x' => marker_eq x a && marker_eq x' a && marker_eq a a' && str_eqb (req_str r) (req_str r')
                           && negb (str_eqb (format_marker a) rx_marker_text)
      | _, _ => false
      end
  | _, _, _, _ => false
  end.
Example rx_nonvacuous : rx_check = true.
Proof. vm_compute. reflexivity. Qed.
