(* C09: _format_marker on the structures the parser builds.  Parser-shaped structures (pfm), the canonical structure
   str() denotes (peel_top: single-element groups removed), format_marker m = MRound.fmt_list (peel_top m), and the
   invariance of evaluation, operands and extra-normalisation under peeling. *)
From Coq Require Import List Arith NArith Bool Lia.
Import ListNotations.
Require Import MText MRound MRound2 MRound3 MkModel MkEval MkEvalP.
Require Names.
Open Scope N_scope.
Arguments N.eqb : simpl never.
Arguments N.leb : simpl never.

Lemma ser_side_eq x : ser_side x = fmt_side x.
Proof. reflexivity. Qed.

(* ---------------- induction over  atom (BOOLOP atom)*  lists ---------------- *)
Lemma alt_ind2 (P : elem -> Prop) (Q : list elem -> Prop) :
  (forall a, P a -> Q [a]) ->
  (forall a w t, P a -> In w bool_alts -> alt P t -> Q t -> Q (a :: BoolOp w :: t)) ->
  forall m, alt P m -> Q m.
Proof.
  intros H1 H2. fix F 1. intros [|a [|b t]] H.
  - contradiction.
  - apply H1. exact H.
  - destruct b; try contradiction. cbn [alt] in H. destruct H as (Ha & Hw & Ht). apply H2; auto.
Qed.
Lemma alt_nonempty P m : alt P m -> m <> [].
Proof. destruct m; [contradiction|discriminate]. Qed.
Lemma alt_impl (P Q : elem -> Prop) m : (forall a, P a -> Q a) -> alt P m -> alt Q m.
Proof. intros H A. induction A using alt_ind2; cbn [alt]; auto. Qed.
Lemma alt_map (P Q : elem -> Prop) (f : elem -> elem) m :
  (forall a, P a -> Q (f a)) -> (forall w, f (BoolOp w) = BoolOp w) -> alt P m -> alt Q (map f m).
Proof.
  intros H Hb A. induction A as [a Ha | a w t Ha Hw Ht IH] using alt_ind2; cbn [map alt]; auto.
  rewrite Hb. cbn [alt]. auto.
Qed.
Lemma alt_snoc P m w a : alt P m -> In w bool_alts -> P a -> alt P (m ++ [BoolOp w; a]).
Proof.
  intros A Hw Ha. induction A as [b Hb | b w' t Hb Hw' Ht IH] using alt_ind2; cbn [app alt]; auto.
Qed.

(* ---------------- parser-shaped structures: items with well-formed operands, groups of any length >= 1 ---------------- *)
Fixpoint pfa (d : nat) (e : elem) : Prop :=
  match d with O => False | S d' =>
    match e with
    | Item _ _ _ => wf_item e
    | Nested m => alt (pfa d') m
    | BoolOp _ => False
    end
  end.
Definition pfm (d : nat) (m : list elem) : Prop := alt (pfa d) m.

Lemma pfa_mono d : forall e, pfa d e -> pfa (S d) e.
Proof.
  induction d as [|d IH]; intros e H; [contradiction|].
  destruct e; cbn [pfa] in *; auto. eapply alt_impl; [|exact H]. exact IH.
Qed.
Lemma wfa_mono d : forall e, wfa d e -> wfa (S d) e.
Proof.
  induction d as [|d IH]; intros e H; [contradiction|].
  destruct e; cbn [wfa] in *; auto. destruct H as [H L]. split; auto. eapply alt_impl; [|exact H]. exact IH.
Qed.
Lemma wfa_le d d' e : (d <= d')%nat -> wfa d e -> wfa d' e.
Proof. intros Hle. induction Hle; auto. intros W. apply wfa_mono. auto. Qed.
Lemma wfa_pfa d : forall e, wfa d e -> pfa d e.
Proof.
  induction d as [|d IH]; intros e H; [contradiction|].
  destruct e; cbn [wfa pfa] in *; auto. destruct H as [H _]. eapply alt_impl; [|exact H]. exact IH.
Qed.

(* ---------------- the structure str() denotes: single-element groups dissolved ---------------- *)
Fixpoint peel_e (e : elem) : elem :=
  match e with
  | Nested m =>
      match m with
      | [Item _ _ _ as x] => peel_e x
      | [Nested _ as x] => peel_e x
      | _ => Nested (map peel_e m)
      end
  | _ => e
  end.
Definition unwrap (e : elem) : list elem := match e with Nested m => m | _ => [e] end.
Definition peel_top (m : list elem) : list elem := unwrap (peel_e (Nested m)).

Lemma peel_long a b t : peel_e (Nested (a :: b :: t)) = Nested (map peel_e (a :: b :: t)).
Proof. destruct a; reflexivity. Qed.
Lemma fmt_long first a b t :
  fmt_e first (Nested (a :: b :: t)) =
    let inner := join_sp (map (fmt_e false) (a :: b :: t)) in if first then inner else 40 :: inner ++ [41].
Proof. destruct a; reflexivity. Qed.
Lemma peel_top_long a b t : peel_top (a :: b :: t) = map peel_e (a :: b :: t).
Proof. unfold peel_top. now rewrite peel_long. Qed.
Lemma peel_top_nested m : peel_top [Nested m] = peel_top m.
Proof. reflexivity. Qed.
Lemma peel_top_item l o r : peel_top [Item l o r] = [Item l o r].
Proof. reflexivity. Qed.

(* join_sp over an  atom (BOOLOP atom)*  list is MRound.fmt_list *)
Lemma join_fmt_list (P : elem -> Prop) (g : elem -> str) (f : elem -> elem) m :
  (forall a, P a -> g a = fmt_elem (f a)) -> (forall w, g (BoolOp w) = w) -> (forall w, f (BoolOp w) = BoolOp w) ->
  alt P m -> join_sp (map g m) = fmt_list (map f m).
Proof.
  intros Hg Hgb Hfb A. induction A as [a Ha | a w t Ha Hw Ht IH] using alt_ind2.
  - cbn. now apply Hg.
  - cbn [map]. rewrite Hfb, Hgb. pose proof (alt_nonempty _ _ Ht) as Ne.
    destruct t as [|x t']; [congruence|].
    change (fmt_list (f a :: BoolOp w :: map f (x :: t'))) with (fmt_elem (f a) ++ 32 :: w ++ 32 :: fmt_list (map f (x :: t'))).
    rewrite <- IH, <- (Hg a Ha). cbn [map join_sp]. reflexivity.
Qed.

Lemma alt_len3 P a w t : alt P t -> (3 <= length (a :: BoolOp w :: t))%nat.
Proof. intros H. destruct t; [contradiction|]. cbn. lia. Qed.

(* elements: a parser-shaped element peels to a canonical one, and prints (inside a list) as MRound.fmt_elem of it *)
Lemma peel_elem d : forall e, pfa d e -> wfa d (peel_e e) /\ fmt_e false e = fmt_elem (peel_e e).
Proof.
  induction d as [|d IH]; intros e H; [contradiction|].
  destruct e as [l o r | m | w]; cbn [pfa] in H; try contradiction.
  - split; [exact H | reflexivity].
  - destruct m as [|a [|b t]]; try contradiction.
    + (* single element *)
      cbn [alt] in H. destruct d as [|d']; [contradiction|].
      destruct a as [l o r | m' | w]; try contradiction.
      * destruct (IH _ H) as [W F]. split; [apply wfa_mono; exact W | exact F].
      * destruct (IH _ H) as [W F]. split; [apply wfa_mono; exact W | exact F].
    + destruct b as [| |w]; try contradiction. pose proof H as H0. cbn [alt] in H. destruct H as (Ha & Hw & Ht).
      rewrite peel_long, fmt_long. cbv zeta. split.
      * cbn [wfa]. split.
        -- apply (alt_map (pfa d) (wfa d) peel_e); auto. intros x Hx. now apply IH.
        -- rewrite map_length. eapply alt_len3; eauto.
      * change (fmt_elem (Nested (map peel_e (a :: BoolOp w :: t)))) with (40 :: fmt_list (map peel_e (a :: BoolOp w :: t)) ++ [41]).
        f_equal. f_equal. apply (join_fmt_list (pfa d)); auto. intros x Hx. now apply IH.
Qed.

Definition topc (m : list elem) : Prop := match m with [Nested _] => False | _ => True end.

(* the whole marker: str(Marker) is the canonical text of the peeled structure *)
Theorem format_peel d : forall m, pfm d m ->
  wfm d (peel_top m) /\ topc (peel_top m) /\ format_marker m = fmt_list (peel_top m).
Proof.
  induction d as [|d IH]; intros m H.
  - destruct m as [|a [|b t]]; cbn in H; try contradiction. destruct b; try contradiction. tauto.
  - unfold pfm in H. destruct m as [|a [|b t]]; try contradiction.
    + cbn [alt] in H. destruct a as [l o r | m' | w]; cbn [pfa] in H; try contradiction.
      * rewrite peel_top_item. split; [exact H|]. split; [exact I|reflexivity].
      * rewrite peel_top_nested. change (format_marker [Nested m']) with (format_marker m').
        destruct (IH m' H) as (W & T & F). split; [|split]; auto.
        unfold wfm in *. eapply alt_impl; [|exact W]. apply wfa_mono.
    + destruct b as [| |w]; try contradiction. pose proof H as H0. cbn [alt] in H. destruct H as (Ha & Hw & Ht).
      rewrite peel_top_long. unfold format_marker. rewrite fmt_long. cbv zeta. split; [|split].
      * unfold wfm. apply (alt_map (pfa (S d)) (wfa (S d)) peel_e); auto. intros x Hx. now apply (peel_elem (S d)).
      * cbn [map]. destruct (peel_e a); exact I.
      * apply (join_fmt_list (pfa (S d))); auto. intros x Hx. now apply (peel_elem (S d)).
Qed.

(* canonical structures are fixed points of peeling *)
Lemma peel_canon d : forall e, wfa d e -> peel_e e = e.
Proof.
  induction d as [|d IH]; intros e H; [contradiction|].
  destruct e as [l o r | m | w]; cbn [wfa] in H; try contradiction; [reflexivity|].
  destruct H as [A L]. destruct m as [|a [|b t]]; cbn in L; try lia.
  rewrite peel_long. f_equal.
  assert (Hm : forall m, alt (wfa d) m -> map peel_e m = m).
  { intros m0 A0. induction A0 as [x Hx | x w t0 Hx Hw Ht IHt] using alt_ind2; cbn [map]; rewrite ?IHt, (IH _ Hx); reflexivity. }
  now apply Hm.
Qed.
Lemma peel_top_canon d m : wfm d m -> topc m -> peel_top m = m.
Proof.
  intros W T. unfold wfm in W. destruct m as [|a [|b t]]; try contradiction.
  - cbn [alt] in W. destruct d; [contradiction|]. destruct a; cbn [wfa topc] in *; try contradiction. reflexivity.
  - rewrite peel_top_long.
    assert (Hm : forall m, alt (wfa d) m -> map peel_e m = m).
    { intros m0 A0. induction A0 as [x Hx | x w t0 Hx Hw Ht IHt] using alt_ind2; cbn [map]; rewrite ?IHt, (peel_canon _ _ Hx); reflexivity. }
    now apply Hm.
Qed.
Lemma wfm_pfm d m : wfm d m -> pfm d m.
Proof. apply alt_impl. apply wfa_pfa. Qed.

(* ---------------- peeling changes neither the value, nor the operands, and commutes with extra-normalisation ---------------- *)
Lemma map_ext_Forall {A B} (f g : A -> B) l : Forall (fun x => f x = g x) l -> map f l = map g l.
Proof. induction 1; cbn; congruence. Qed.

Definition is_bool (e : elem) : bool := match e with BoolOp _ => true | _ => false end.
Lemma geval_go_cons evi x t cur acc : is_bool x = false ->
  geval_go evi (x :: t) cur acc = match geval_e evi x with EBool b => geval_go evi t (cur && b) acc | err => err end.
Proof. destruct x; [reflexivity|reflexivity|discriminate]. Qed.
Lemma geval_go_bool evi w t cur acc :
  geval_go evi (BoolOp w :: t) cur acc =
    if str_eqb w w_or then geval_go evi t true (acc || cur) else if str_eqb w w_and then geval_go evi t cur acc else ECrash.
Proof. reflexivity. Qed.
Lemma geval_go_map evi (f : elem -> elem) m :
  Forall (fun x => geval_e evi (f x) = geval_e evi x) m -> (forall x, is_bool (f x) = is_bool x) -> (forall w, f (BoolOp w) = BoolOp w) ->
  forall cur acc, geval_go evi (map f m) cur acc = geval_go evi m cur acc.
Proof.
  intros H Hi Hb. induction H as [|x t Hx Ht IH]; intros cur acc; [reflexivity|].
  cbn [map]. destruct (is_bool x) eqn:Ex.
  - destruct x; try discriminate. rewrite Hb, !geval_go_bool. now rewrite !IH.
  - rewrite !geval_go_cons by (rewrite ?Hi; exact Ex). rewrite Hx. destruct (geval_e evi x); auto.
Qed.

Lemma peel_is_bool : forall e, is_bool (peel_e e) = is_bool e.
Proof.
  induction e as [l o r | w | m IH] using elem_ind'; try reflexivity.
  destruct m as [|a [|b t]]; try reflexivity; [|now rewrite peel_long].
  destruct a; try reflexivity. inversion IH; subst. assumption.
Qed.

(* evaluation, for every valuation of the items *)
Theorem geval_peel evi : forall e, geval_e evi (peel_e e) = geval_e evi e.
Proof.
  induction e as [l o r | w | m IH] using elem_ind'; try reflexivity.
  assert (G : geval_e evi (Nested (map peel_e m)) = geval_e evi (Nested m)).
  { rewrite !MkGroupsP.geval_nested. unfold geval_markers. apply geval_go_map; auto. apply peel_is_bool. }
  destruct m as [|a [|b t]]; try reflexivity; [|rewrite peel_long; exact G].
  inversion IH as [|? ? Ha _]; subst.
  destruct a as [l o r | m' | w]; try reflexivity.
  - cbn [peel_e]. rewrite MkGroupsP.geval_nested. unfold geval_markers. rewrite geval_go_cons by reflexivity.
    cbn [geval_e]. destruct (evi l o r); reflexivity.
  - change (peel_e (Nested [Nested m'])) with (peel_e (Nested m')). rewrite Ha.
    rewrite (MkGroupsP.geval_nested evi [Nested m']). unfold geval_markers. rewrite geval_go_cons by reflexivity.
    destruct (geval_e evi (Nested m')); reflexivity.
Qed.
Theorem geval_peel_top evi m : geval_markers evi (peel_top m) = geval_markers evi m.
Proof.
  rewrite <- (MkGroupsP.geval_nested evi m), <- geval_peel. unfold peel_top.
  destruct (peel_e (Nested m)) as [l o r | m' | w] eqn:E.
  - unfold geval_markers. cbn [unwrap]. rewrite geval_go_cons by reflexivity. cbn [geval_e]. destruct (evi l o r); reflexivity.
  - cbn [unwrap]. now rewrite MkGroupsP.geval_nested.
  - pose proof (peel_is_bool (Nested m)) as B. rewrite E in B. discriminate.
Qed.

(* the operands, in text order *)
Lemma sides_l_map (f : elem -> elem) m : Forall (fun x => sides_e (f x) = sides_e x) m -> sides_l (map f m) = sides_l m.
Proof. induction 1; cbn [map sides_l]; congruence. Qed.
Lemma sides_peel : forall e, sides_e (peel_e e) = sides_e e.
Proof.
  induction e as [l o r | w | m IH] using elem_ind'; try reflexivity.
  assert (G : sides_e (Nested (map peel_e m)) = sides_e (Nested m)) by (rewrite !sides_nested; now apply sides_l_map).
  destruct m as [|a [|b t]]; try reflexivity; [|rewrite peel_long; exact G].
  inversion IH as [|? ? Ha _]; subst.
  destruct a as [l o r | m' | w]; try reflexivity.
  change (peel_e (Nested [Nested m'])) with (peel_e (Nested m')). rewrite Ha.
  rewrite (sides_nested [Nested m']). cbn [sides_l]. now rewrite app_nil_r.
Qed.
Lemma sides_peel_top m : sides_l (peel_top m) = sides_l m.
Proof.
  rewrite <- (sides_nested m), <- sides_peel. unfold peel_top.
  destruct (peel_e (Nested m)) as [l o r | m' | w] eqn:E; cbn [unwrap].
  - reflexivity.
  - now rewrite sides_nested.
  - pose proof (peel_is_bool (Nested m)) as B. rewrite E in B. discriminate.
Qed.
Lemma lit_class_peel_top m : lit_class (peel_top m) = lit_class m.
Proof. unfold lit_class. now rewrite sides_peel_top. Qed.

(* _normalize_extra_values commutes with peeling *)
Lemma norm_item_item l o r : exists l' r', norm_item l o r = Item l' o r'.
Proof. unfold norm_item. destruct (is_extra l), (is_extra r), l, r; eauto. Qed.
Lemma norm_peel : forall e, norm_e (peel_e e) = peel_e (norm_e e).
Proof.
  induction e as [l o r | w | m IH] using elem_ind'; try reflexivity.
  - cbn [peel_e norm_e]. destruct (norm_item_item l o r) as (l' & r' & ->). reflexivity.
  - assert (G : norm_e (Nested (map peel_e m)) = Nested (map peel_e (map norm_e m))).
    { cbn [norm_e]. f_equal. rewrite !map_map. now apply map_ext_Forall. }
    destruct m as [|a [|b t]]; try reflexivity.
    + inversion IH as [|? ? Ha _]; subst. destruct a as [l o r | m' | w]; try reflexivity.
      * cbn [peel_e norm_e map]. destruct (norm_item_item l o r) as (l' & r' & ->). reflexivity.
      * change (peel_e (Nested [Nested m'])) with (peel_e (Nested m')). rewrite Ha. reflexivity.
    + rewrite peel_long, G. cbn [norm_e map]. now rewrite peel_long.
Qed.
Lemma norm_peel_top m : norm_l (peel_top m) = peel_top (norm_l m).
Proof.
  unfold peel_top. change (Nested (norm_l m)) with (norm_e (Nested m)). rewrite <- norm_peel.
  destruct (peel_e (Nested m)) as [l o r | m' | w] eqn:E; cbn [unwrap].
  - cbn [norm_l map norm_e]. destruct (norm_item_item l o r) as (l' & r' & ->). reflexivity.
  - reflexivity.
  - pose proof (peel_is_bool (Nested m)) as B. rewrite E in B. discriminate.
Qed.
Print Assumptions format_peel.
Print Assumptions norm_peel_top.
