From Coq Require Import List Arith NArith Bool Lia.
Import ListNotations.
Require Import MText MRound.
Open Scope N_scope.
Arguments N.eqb : simpl never.
Arguments N.leb : simpl never.

(* ---------------- canonical structures: atom (BOOLOP atom)*, nested lists of >= 3 elements ---------------- *)
Fixpoint alt (P : elem -> Prop) (m : list elem) : Prop :=
  match m with
  | [a] => P a
  | a :: BoolOp w :: t => P a /\ In w bool_alts /\ alt P t
  | _ => False
  end.
Fixpoint wfa (d : nat) (e : elem) : Prop :=
  match d with O => False | S d' =>
    match e with
    | Item l o r => wf_item e
    | Nested m => alt (wfa d') m /\ (3 <= length m)%nat
    | BoolOp _ => False
    end
  end.
Definition wfm (d : nat) (m : list elem) : Prop := alt (wfa d) m.

Definition tail_end (T : str) : Prop := T = [] \/ exists T', T = 41 :: T'.
Lemma tail_end_ok T : tail_end T -> tail_ok T.
Proof. intros [->|[T' ->]]; cbn; auto. Qed.
Lemma span_rest_head r : forall w r', span is_wsb r = (w, r') -> match r' with c :: _ => is_wsb c = false | [] => True end.
Proof.
  induction r as [|c r IH]; intros w r' E; cbn in E.
  - now inversion E.
  - destruct (is_wsb c) eqn:C.
    + destruct (span is_wsb r) as [a b] eqn:F. inversion E; subst. eapply IH; eauto.
    + inversion E; subst. exact C.
Qed.
Lemma skip_ws_idem s : skip_ws (skip_ws s) = skip_ws s.
Proof.
  destruct s as [p r]. remember (skip_ws {| prev := p; rest := r |}) as s1 eqn:E1.
  unfold skip_ws in E1. cbn [rest] in E1. destruct (span is_wsb r) as [w r'] eqn:E. subst s1.
  unfold adv; cbn [prev]. apply skip_ws_none. eapply span_rest_head; eauto.
Qed.
Lemma skip_ws_end q T : tail_end T -> skip_ws {| prev := q; rest := T |} = {| prev := q; rest := T |}.
Proof. intros [->|[T' ->]]; apply skip_ws_none; auto. Qed.

(* heads of canonical atoms *)
Definition starts_atom (s : str) : Prop :=
  match s with c :: _ => is_wsb c = false /\ (c = 40 \/ (hd_is_c 40 s = false /\ is_word c = true) \/ c = 34 \/ c = 39) | [] => False end.
Lemma side_head x t : wf_side x -> match fmt_side x ++ t with c :: _ => is_wsb c = false /\ (c =? 40) = false | [] => False end.
Proof.
  destruct x as [n|v]; cbn [wf_side fmt_side].
  - unfold canon_vars. cbn [In]. intros W. repeat (destruct W as [<-|W]; [split; reflexivity|]). contradiction.
  - intros _. cbn [app]. destruct (quote_cases v) as [-> | ->]; split; reflexivity.
Qed.

(* number of elements, recursively *)
Fixpoint size_e (e : elem) : nat :=
  match e with Nested m => S ((fix sl (m : list elem) : nat := match m with [] => O | x :: t => (size_e x + sl t)%nat end) m) | _ => 1%nat end.
Fixpoint size_l (m : list elem) : nat := match m with [] => O | x :: t => (size_e x + size_l t)%nat end.
Lemma size_nested m : size_e (Nested m) = S (size_l m).
Proof. reflexivity. Qed.

Section Depth.
Variable d : nat.
Variable f : nat.
(* induction hypothesis: markers of depth d that fit in the fuel are parsed back by p_marker f *)
Hypothesis IHm : forall m p T, wfm d m -> (d + size_l m <= f)%nat -> pre_ok p -> tail_end T ->
  exists q, p_marker f {| prev := p; rest := fmt_list m ++ T |} = Some (m, {| prev := q; rest := T |}).

Lemma fmt_list_head P m T : alt P m -> (forall a t, P a -> match fmt_elem a ++ t with c :: _ => is_wsb c = false | [] => False end) ->
  match fmt_list m ++ T with c :: _ => is_wsb c = false | [] => False end.
Proof.
  intros H Hd. destruct m as [|a [|b t]]; cbn [alt] in H; try contradiction.
  - cbn [fmt_list]. now apply Hd.
  - destruct b; try contradiction. cbn [fmt_list]. rewrite <- app_assoc. apply Hd. tauto.
Qed.
Lemma atom_head k a t : wfa k a -> match fmt_elem a ++ t with c :: _ => is_wsb c = false | [] => False end.
Proof.
  destruct k; [contradiction|]. destruct a; cbn [wfa]; try contradiction.
  - intros (Wl & _). cbn [fmt_elem]. rewrite <- app_assoc.
    pose proof (side_head l ((32 :: op ++ 32 :: fmt_side r) ++ t) Wl) as H. destruct (fmt_side l ++ _); tauto.
  - intros _. rewrite fmt_nested. reflexivity.
Qed.

Lemma atom_ok a p T : wfa (S d) a -> (d + size_e a <= S f)%nat -> pre_ok p -> tail_ok T ->
  exists q, p_atom_with (p_marker f) {| prev := p; rest := fmt_elem a ++ T |} = Some (a, skip_ws {| prev := q; rest := T |}).
Proof.
  intros W Hsz Hp HT. destruct a as [l o r|m|w]; cbn [wfa] in W; try contradiction.
  - (* item *)
    unfold p_atom_with. cbv zeta.
    assert (Hd := side_head l (32 :: o ++ 32 :: fmt_side r ++ T) (proj1 W)).
    assert (E : fmt_elem (Item l o r) ++ T = fmt_side l ++ 32 :: o ++ 32 :: fmt_side r ++ T).
    { cbn [fmt_elem]. rewrite <- app_assoc. cbn [app]. rewrite <- app_assoc. reflexivity. }
    rewrite skip_ws_none by (rewrite E; destruct (fmt_side l ++ _); tauto).
    cbn [rest].
    assert (H40 : hd_is_c 40 (fmt_elem (Item l o r) ++ T) = false).
    { rewrite E. destruct (fmt_side l ++ _) as [|c ?]; [contradiction|]. cbn. tauto. }
    rewrite H40. rewrite p_item_canon by assumption. rewrite skip_ws_idem. eexists. reflexivity.
  - (* parenthesised *)
    destruct W as [Wm _]. unfold p_atom_with. cbv zeta. rewrite fmt_nested. cbn [app].
    rewrite skip_ws_none by reflexivity. cbn [rest hd_is_c]. replace (40 =? 40) with true by reflexivity. cbn [tl].
    unfold adv at 1. cbn [prev last_opt]. rewrite <- app_assoc. cbn [app].
    rewrite skip_ws_none.
    2:{ assert (Hh : match fmt_list m ++ 41 :: T with c :: _ => is_wsb c = false | [] => False end)
          by (apply (fmt_list_head (wfa d) m (41 :: T) Wm); intros a t' Ha; eapply atom_head; eauto).
        match goal with |- match ?x with _ => _ end => change x with (fmt_list m ++ 41 :: T) end.
        destruct (fmt_list m ++ 41 :: T); tauto. }
    destruct (IHm m (Some 40) (41 :: T) Wm) as [q Eq]; [rewrite size_nested in Hsz; lia | reflexivity | right; eauto |].
    match goal with |- context [p_marker f ?s] => replace (p_marker f s) with (Some (m, {| prev := q; rest := 41 :: T |})) by (symmetry; exact Eq) end.
    rewrite skip_ws_none by reflexivity. cbn [rest hd_is_c]. replace (41 =? 41) with true by reflexivity. cbn [tl].
    unfold adv. cbn [prev last_opt]. eexists. reflexivity.
Qed.
End Depth.
Print Assumptions atom_ok.
