(* C09 / C10: Marker.__eq__ is an equivalence, conflates nothing but structures with the same peeled form, and equal
   markers evaluate alike (every environment).  The variable identifications of the tokenizer, stated by name. *)
From Coq Require Import List Arith NArith Bool Lia.
Import ListNotations.
Require Import MText MRound MRound2 MkModel MkEval MkEvalP MkGroupsP MkFmtP MkShapeP MkRoundP MkTreeP.
Open Scope N_scope.
Arguments N.eqb : simpl never.
Arguments N.leb : simpl never.

(* ---- equivalence ---- *)
Theorem marker_eq_refl a : marker_eq a a = true.
Proof. apply marker_eq_iff. reflexivity. Qed.
Theorem marker_eq_sym a b : marker_eq a b = marker_eq b a.
Proof.
  destruct (marker_eq a b) eqn:E, (marker_eq b a) eqn:F; auto.
  - apply marker_eq_iff in E. symmetry in E. apply marker_eq_iff in E. congruence.
  - apply marker_eq_iff in F. symmetry in F. apply marker_eq_iff in F. congruence.
Qed.
Theorem marker_eq_trans a b c : marker_eq a b = true -> marker_eq b c = true -> marker_eq a c = true.
Proof. rewrite !marker_eq_iff. congruence. Qed.

(* ---- canonicity converse: == conflates only structures with the same peeled form ---- *)
Theorem eq_only_if_same_peeled d a b : pfm d a -> pfm d b -> marker_eq a b = true -> peel_top a = peel_top b.
Proof.
  intros Ha Hb E. apply marker_eq_iff in E. pose proof (format_parses d a Ha) as Pa.
  pose proof (format_parses d b Hb) as Pb. rewrite E in Pa. rewrite Pa in Pb. now injection Pb.
Qed.
Corollary Marker_eq_only_if_same_peeled s1 s2 a b : Marker s1 = MOk a -> Marker s2 = MOk b -> marker_eq a b = true ->
  peel_top a = peel_top b.
Proof.
  intros Ha Hb E. apply Marker_shape in Ha as (Sa & _ & _). apply Marker_shape in Hb as (Sb & _ & _).
  apply marker_eq_iff in E. pose proof (format_parses _ a Sa) as Pa. pose proof (format_parses _ b Sb) as Pb.
  rewrite E in Pa. rewrite Pa in Pb. now injection Pb.
Qed.
(* == is exactly "same peeled structure" on accepted markers *)
Corollary Marker_eq_iff_same_peeled s1 s2 a b : Marker s1 = MOk a -> Marker s2 = MOk b ->
  (marker_eq a b = true <-> peel_top a = peel_top b).
Proof.
  intros Ha Hb. split; [now apply (Marker_eq_only_if_same_peeled s1 s2)|]. intros E.
  apply Marker_shape in Ha as (Sa & _ & _). apply Marker_shape in Hb as (Sb & _ & _).
  apply marker_eq_iff. destruct (format_peel _ a Sa) as (_ & _ & ->), (format_peel _ b Sb) as (_ & _ & ->). now rewrite E.
Qed.

(* ---- equal markers evaluate alike: for every valuation of the comparisons, hence in every environment ---- *)
Theorem equal_markers_geval_alike s1 s2 a b evi : Marker s1 = MOk a -> Marker s2 = MOk b -> marker_eq a b = true ->
  geval_markers evi a = geval_markers evi b.
Proof.
  intros Ha Hb E. pose proof (Marker_eq_only_if_same_peeled s1 s2 a b Ha Hb E) as P.
  rewrite <- (geval_peel_top evi a), <- (geval_peel_top evi b). now rewrite P.
Qed.
Theorem equal_markers_evaluate_alike s1 s2 a b defaults ov : Marker s1 = MOk a -> Marker s2 = MOk b -> marker_eq a b = true ->
  evaluate a defaults ov = evaluate b defaults ov.
Proof.
  intros Ha Hb E. unfold evaluate. destruct (effective_env defaults ov) as [env|]; [|reflexivity].
  exact (equal_markers_geval_alike s1 s2 a b (eval_item env) Ha Hb E).
Qed.
(* ... and have the same operands in the same order *)
Theorem equal_markers_same_operands s1 s2 a b : Marker s1 = MOk a -> Marker s2 = MOk b -> marker_eq a b = true ->
  sides_l a = sides_l b.
Proof.
  intros Ha Hb E. pose proof (Marker_eq_only_if_same_peeled s1 s2 a b Ha Hb E) as P.
  rewrite <- (sides_peel_top a), <- (sides_peel_top b). now rewrite P.
Qed.

(* ---- the variable identifications: a dotted PEP 345 spelling reads as the underscore name, python_implementation as
        platform_python_implementation, a canonical name as itself - and nothing else is identified ---- *)
Definition dot2us (w : str) : str := map (fun c => if c =? 46 then 95 else c) w.
Theorem var_spellings :
  forallb (fun w => str_eqb (norm_var w) (if str_eqb (dot2us w) w_pyimpl then w_ppyimpl else dot2us w)) var_alts = true
  /\ forallb (fun w => str_eqb (norm_var w) w) canon_vars = true
  /\ forallb (fun n => existsb (fun w => str_eqb (norm_var w) n) var_alts) canon_vars = true.
Proof. vm_compute. repeat split. Qed.
(* two spellings are read as the same variable exactly when they agree after  "." -> "_"  and  python_implementation ->
   platform_python_implementation  (finite check over the alternation) *)
Definition same_var_table : bool :=
  forallb (fun w1 => forallb (fun w2 =>
     Bool.eqb (str_eqb (norm_var w1) (norm_var w2))
              (str_eqb (dot2us w1) (dot2us w2)
               || (str_eqb (dot2us w1) w_pyimpl && str_eqb (dot2us w2) w_ppyimpl)
               || (str_eqb (dot2us w1) w_ppyimpl && str_eqb (dot2us w2) w_pyimpl))) var_alts) var_alts.
Theorem var_spellings_exact w1 w2 : In w1 var_alts -> In w2 var_alts ->
  (norm_var w1 = norm_var w2 <->
   dot2us w1 = dot2us w2 \/ (dot2us w1 = w_pyimpl /\ dot2us w2 = w_ppyimpl) \/ (dot2us w1 = w_ppyimpl /\ dot2us w2 = w_pyimpl)).
Proof.
  intros H1 H2. assert (T : same_var_table = true) by (vm_compute; reflexivity).
  unfold same_var_table in T. rewrite forallb_forall in T. specialize (T w1 H1). rewrite forallb_forall in T. specialize (T w2 H2).
  apply Bool.eqb_prop in T. split.
  - intros E. apply (str_eqb_eq (norm_var w1)) in E. rewrite T in E.
    apply orb_prop in E as [E|E]; [apply orb_prop in E as [E|E]|].
    + left. now apply str_eqb_eq.
    + right. left. apply andb_prop in E as [A B]. split; now apply str_eqb_eq.
    + right. right. apply andb_prop in E as [A B]. split; now apply str_eqb_eq.
  - intros E. apply (str_eqb_eq (norm_var w1)). rewrite T.
    destruct E as [E|[[A B]|[A B]]].
    + rewrite E, str_eqb_refl. reflexivity.
    + rewrite A, B, !str_eqb_refl. cbn. now rewrite orb_true_r.
    + rewrite A, B, !str_eqb_refl. cbn. now rewrite orb_true_r.
Qed.

(* non-vacuity: os.name and os_name are one variable; os_name and sys_platform are not; equal markers with different texts *)
Definition eq_check : bool :=
  let t1 := [40;111;115;46;110;97;109;101;61;61;39;97;39;41] in                     (* (os.name=='a') *)
  let t2 := [111;115;95;110;97;109;101;32;61;61;32;34;97;34] in                     (* os_name == "a" *)
  let t3 := [115;121;115;95;112;108;97;116;102;111;114;109;32;61;61;32;34;97;34] in (* sys_platform == "a" *)
  match Marker t1, Marker t2, Marker t3 with
  | MOk a, MOk b, MOk c => marker_eq a b && negb (marker_eq a c) && negb (marker_eq c b)
  | _, _, _ => false
  end.
Example eq_nonvacuous : eq_check = true.
Proof. vm_compute. reflexivity. Qed.
Print Assumptions equal_markers_evaluate_alike.
Print Assumptions var_spellings_exact.
