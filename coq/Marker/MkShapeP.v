(* Every structure the parser model returns is parser-shaped (pfm): items have a canonical variable name or a literal
   free of its own quote on each side and one of the ten operators; lists alternate atoms with "and"/"or";
   _normalize_extra_values keeps the shape and the literal class. *)
From Coq Require Import List Arith NArith Bool Lia.
Import ListNotations.
Require Import MText MRound MRound2 MRound3 MkModel MkEval MkEvalP MkFmtP.
Require Names NamesLaws.
Open Scope N_scope.
Arguments N.eqb : simpl never.
Arguments N.leb : simpl never.

(* ---------------- tokens ---------------- *)
Lemma first_bword_in ws s w s' : first_bword ws s = Some (w, s') -> In w ws.
Proof.
  induction ws as [|x ws IH]; cbn [first_bword]; [discriminate|].
  destruct (starts x (rest s)) as [r|].
  - destruct (boundary _ _); [intros [= <- _]; now left | intros H; right; auto].
  - intros H; right; auto.
Qed.
Lemma bword_in ws s w s' : bword ws s = Some (w, s') -> In w ws.
Proof. unfold bword. destruct (boundary _ _); [apply first_bword_in | discriminate]. Qed.
Lemma first_plain_in ws s w s' : first_plain ws s = Some (w, s') -> In w ws.
Proof.
  induction ws as [|x ws IH]; cbn [first_plain]; [discriminate|].
  destruct (starts x (rest s)); [intros [= <- _]; now left | intros H; right; auto].
Qed.
Lemma norm_var_canon w : In w var_alts -> In (norm_var w) canon_vars.
Proof.
  unfold var_alts. cbn [In]. intros H.
  repeat (destruct H as [<-|H]; [vm_compute; tauto|]). contradiction.
Qed.
Lemma span_all p s : forall a r, span p s = (a, r) -> forallb p a = true.
Proof.
  induction s as [|c s IH]; cbn [span]; intros a r.
  - intros [= <- _]. reflexivity.
  - destruct (p c) eqn:E.
    + destruct (span p s) as [a' r'] eqn:F. intros [= <- _]. cbn. rewrite E. eapply IH; eauto.
    + intros [= <- _]. reflexivity.
Qed.
Lemma forallb_plain_has q v : forallb (plain_char q) v = true -> has q v = false.
Proof.
  induction v as [|c v IH]; cbn; auto. intros H. apply andb_prop in H as [H1 H2].
  unfold plain_char in H1. apply negb_true_iff in H1. rewrite N.eqb_sym, H1. now apply IH.
Qed.
Lemma p_quoted_wf s v s' : p_quoted s = Some (v, s') -> (has 34 v && has 39 v) = false.
Proof.
  unfold p_quoted. destruct (rest s) as [|q t]; [discriminate|].
  destruct ((q =? 39) || (q =? 34)) eqn:Q; [|discriminate].
  destruct (span (plain_char q) t) as [body r] eqn:E. destruct r; [discriminate|]. intros [= <- _].
  apply span_all in E. apply forallb_plain_has in E.
  apply orb_prop in Q as [Q|Q]; apply N.eqb_eq in Q; subst q; rewrite E; [apply andb_false_r | reflexivity].
Qed.
Lemma p_var_wf s x s' : p_var s = Some (x, s') -> wf_side x.
Proof.
  unfold p_var. destruct (bword var_alts s) as [[w s1]|] eqn:B.
  - intros [= <- _]. cbn [wf_side]. apply norm_var_canon. eapply bword_in; eauto.
  - destruct (p_quoted s) as [[v s1]|] eqn:Q; [|discriminate]. intros [= <- _]. cbn [wf_side]. eapply p_quoted_wf; eauto.
Qed.
Lemma p_op_wf s o s' : p_op s = Some (o, s') -> In o canon_ops.
Proof.
  unfold p_op, canon_ops. destruct (bword [w_in] s) as [[w s1]|].
  - intros [= <- _]. apply in_or_app. right. now left.
  - destruct (bword [w_not] s) as [[w s1]|].
    + destruct (span is_wsb (rest s1)) as [ws r]. destruct ws; [discriminate|].
      destruct (bword [w_in] _) as [[w2 s2]|]; [|discriminate]. intros [= <- _]. apply in_or_app. right. right. now left.
    + intros H. apply in_or_app. left. eapply first_plain_in; eauto.
Qed.
Lemma p_item_wf s e s' : p_item s = Some (e, s') -> wf_item e.
Proof.
  unfold p_item. cbv zeta.
  destruct (p_var (skip_ws s)) as [[l s1]|] eqn:E1; [|discriminate].
  destruct (p_op (skip_ws s1)) as [[o s2]|] eqn:E2; [|discriminate].
  destruct (p_var (skip_ws s2)) as [[r s3]|] eqn:E3; [|discriminate].
  intros [= <- _]. cbn [wf_item]. repeat split; [eapply p_var_wf | eapply p_op_wf | eapply p_var_wf]; eauto.
Qed.

(* ---------------- the grammar ---------------- *)
Section Level.
Variable d : nat.
Variable pm : st -> option (list elem * st).
Hypothesis pm_shape : forall s m s', pm s = Some (m, s') -> pfm d m.

Lemma p_atom_shape s e s' : p_atom_with pm s = Some (e, s') -> pfa (S d) e.
Proof.
  unfold p_atom_with. cbv zeta. destruct (hd_is_c 40 (rest (skip_ws s))).
  - destruct (pm _) as [[m s2]|] eqn:E; [|discriminate].
    destruct (hd_is_c 41 _); [|discriminate]. intros [= <- _]. cbn [pfa]. eapply pm_shape; eauto.
  - destruct (p_item (skip_ws s)) as [[e0 s1]|] eqn:E; [|discriminate]. intros [= <- _].
    pose proof (p_item_wf _ _ _ E) as W. destruct e0; cbn [wf_item] in W; try contradiction. exact W.
Qed.
Lemma loop_shape : forall k acc s m s',
  alt (pfa (S d)) (rev acc) -> loop_with (p_atom_with pm) k acc s = Some (m, s') -> alt (pfa (S d)) m.
Proof.
  induction k as [|k IH]; intros acc s m s' A; cbn [loop_with]; [discriminate|].
  destruct (bword bool_alts s) as [[w s1]|] eqn:B.
  - destruct (p_atom_with pm s1) as [[a s2]|] eqn:E; [|discriminate].
    apply IH. cbn [rev]. rewrite <- app_assoc. cbn [app]. apply alt_snoc; auto.
    + eapply bword_in; eauto.
    + eapply p_atom_shape; eauto.
  - intros [= <- _]. exact A.
Qed.
End Level.

Theorem p_marker_shape : forall fuel s m s', p_marker fuel s = Some (m, s') -> pfm fuel m.
Proof.
  induction fuel as [|f IH]; intros s m s'; cbn [p_marker]; [discriminate|].
  destruct (p_atom_with (p_marker f) s) as [[a s1]|] eqn:E; [|discriminate].
  intros L. unfold pfm. eapply (loop_shape f (p_marker f) IH); [|exact L].
  cbn [rev app alt]. eapply p_atom_shape; eauto.
Qed.
Corollary parse_marker_nl_shape s m : parse_marker_nl s = Some m -> pfm (S (length s)) m.
Proof.
  unfold parse_marker_nl. destruct (p_marker _ _) as [[m0 s0]|] eqn:E; [|discriminate].
  intros H. assert (m0 = m).
  { destruct (rest s0) as [|c [|? ?]]; try discriminate; [now injection H | destruct (c =? 10); [now injection H|discriminate]]. }
  subst. eapply p_marker_shape; eauto.
Qed.

(* ---------------- canonicalize_name and the characters literals are classified by ---------------- *)
(* a character that is neither a separator nor a lower-case letter can only come out of canonicalize_name if it went in *)
Definition inert (q : char) : Prop := VParse.is_sep q = false /\ VParse.is_lower q = false /\ q <> 775.
Lemma has_char_cons (q c : char) (s : str) : has_char q (c :: s) = (q =? c) || has_char q s.
Proof. reflexivity. Qed.
Lemma has_char_app (q : char) (a b : str) : has_char q (a ++ b) = has_char q a || has_char q b.
Proof. induction a as [|c a IH]; cbn [app]; auto. rewrite !has_char_cons, IH. now rewrite orb_assoc. Qed.
(* str.lower() (VMeaning.py_lower_c) produces c+32 for an upper-case letter, "i" U+0307 for U+0130, "k" for U+212A, else the character itself *)
Lemma lower_inert q c : inert q -> has_char q (VMeaning.py_lower_c c) = true -> c = q.
Proof.
  intros (_ & Hl & H7). unfold VMeaning.py_lower_c.
  destruct ((65 <=? c) && (c <=? 90)) eqn:U.
  - rewrite has_char_cons. cbn [has_char]. rewrite orb_false_r. intros E. apply N.eqb_eq in E. exfalso.
    apply andb_prop in U as [U1 U2]. apply N.leb_le in U1, U2. unfold VParse.is_lower in Hl. subst q.
    apply andb_false_iff in Hl as [Hl|Hl]; apply N.leb_gt in Hl; lia.
  - destruct (c =? 304).
    + rewrite !has_char_cons. cbn [has_char]. rewrite orb_false_r. intros E. apply orb_prop in E as [E|E]; apply N.eqb_eq in E; subst q; [discriminate Hl | congruence].
    + destruct (c =? 8490).
      * rewrite has_char_cons. cbn [has_char]. rewrite orb_false_r. intros E. apply N.eqb_eq in E. subst q. discriminate Hl.
      * rewrite has_char_cons. cbn [has_char]. rewrite orb_false_r. intros E. apply N.eqb_eq in E. now subst.
Qed.
Lemma has_py_lower (q : char) : inert q -> forall s : str, has_char q (VMeaning.py_lower s) = true -> has_char q s = true.
Proof.
  intros Hq. induction s as [|c s IH]; auto. unfold VMeaning.py_lower. cbn [flat_map]. fold (VMeaning.py_lower s).
  rewrite has_char_app, has_char_cons. intros H. apply orb_prop in H as [H|H].
  - apply (lower_inert q c Hq) in H. subst c. now rewrite N.eqb_refl.
  - rewrite (IH H). apply orb_true_r.
Qed.
Lemma has_collapse (q : char) : inert q -> forall (s : str) b, has_char q (Names.sub_runs b s) = true -> has_char q s = true.
Proof.
  intros Hq. induction s as [|c s IH]; intros b; cbn [Names.sub_runs]; auto.
  rewrite (has_char_cons q c s). destruct (VParse.is_sep c) eqn:Sc.
  - destruct b.
    + intros H. rewrite (IH _ H). apply orb_true_r.
    + rewrite has_char_cons. intros H. apply orb_prop in H as [H|H].
      * apply N.eqb_eq in H. subst q. destruct Hq as [Hs _]. discriminate.
      * rewrite (IH _ H). apply orb_true_r.
  - rewrite has_char_cons. intros H. apply orb_prop in H as [H|H].
    + rewrite H. reflexivity.
    + rewrite (IH _ H). apply orb_true_r.
Qed.
Lemma has_canon (q : char) (v : str) : inert q -> has_char q v = false -> has_char q (Names.canon_name v) = false.
Proof.
  intros Hq H. destruct (has_char q (Names.canon_name v)) eqn:E; auto.
  unfold Names.canon_name in E. apply (has_py_lower q Hq) in E. apply (has_collapse q Hq) in E. congruence.
Qed.
Lemma inert_0 : inert 0. Proof. repeat split; try reflexivity; discriminate. Qed.
Lemma inert_10 : inert 10. Proof. repeat split; try reflexivity; discriminate. Qed.
Lemma inert_13 : inert 13. Proof. repeat split; try reflexivity; discriminate. Qed.
Lemma inert_34 : inert 34. Proof. repeat split; try reflexivity; discriminate. Qed.
Lemma inert_39 : inert 39. Proof. repeat split; try reflexivity; discriminate. Qed.
Lemma inert_92 : inert 92. Proof. repeat split; try reflexivity; discriminate. Qed.

Lemma wf_side_canon v : wf_side (SVal v) -> wf_side (SVal (Names.canon_name v)).
Proof.
  cbn [wf_side]. intros H. apply andb_false_iff in H as [H|H].
  - change (has 34 v) with (has_char 34 v) in H. apply (has_canon 34 v inert_34) in H.
    change (has 34 (Names.canon_name v)) with (has_char 34 (Names.canon_name v)). now rewrite H.
  - change (has 39 v) with (has_char 39 v) in H. apply (has_canon 39 v inert_39) in H.
    change (has 39 (Names.canon_name v)) with (has_char 39 (Names.canon_name v)). rewrite H. apply andb_false_r.
Qed.

(* ---------------- _normalize_extra_values keeps the shape ---------------- *)
Lemma norm_item_wf l o r : wf_item (Item l o r) -> wf_item (norm_item l o r).
Proof.
  intros (Wl & Wo & Wr). unfold norm_item.
  destruct (is_extra l); [destruct r; cbn [wf_item]; repeat split; auto; now apply wf_side_canon|].
  destruct (is_extra r); [destruct l; cbn [wf_item]; repeat split; auto; now apply wf_side_canon|].
  cbn [wf_item]. auto.
Qed.
Lemma norm_shape d : forall e, pfa d e -> pfa d (norm_e e).
Proof.
  induction d as [|d IH]; intros e H; [contradiction|].
  destruct e as [l o r | m | w]; cbn [pfa norm_e] in *; try contradiction.
  - pose proof (norm_item_wf l o r H) as W. destruct (norm_item_item l o r) as (l' & r' & E). rewrite E in *. exact W.
  - apply (alt_map (pfa d) (pfa d) norm_e); auto.
Qed.
Lemma norm_l_shape d m : pfm d m -> pfm d (norm_l m).
Proof. unfold pfm, norm_l. apply alt_map; [apply norm_shape | reflexivity]. Qed.

(* ---------------- ... and the literal class ---------------- *)
Definition lits_ok (Q : str -> bool) (l : list side) : bool := forallb Q (lits l).
Lemma lits_app a b : lits (a ++ b) = lits a ++ lits b.
Proof. induction a as [|[n|v] a IH]; cbn [app lits]; auto. now rewrite IH. Qed.
Lemma lits_ok_app Q a b : lits_ok Q (a ++ b) = lits_ok Q a && lits_ok Q b.
Proof. unfold lits_ok. now rewrite lits_app, forallb_app. Qed.
Lemma norm_lits Q : (forall v, Q v = true -> Q (Names.canon_name v) = true) ->
  forall e, lits_ok Q (sides_e e) = true -> lits_ok Q (sides_e (norm_e e)) = true.
Proof.
  intros HQ. induction e as [l o r | w | m IH] using elem_ind'; auto.
  - cbn [norm_e sides_e]. unfold norm_item.
    destruct (is_extra l); [|destruct (is_extra r)]; destruct l as [n|v], r as [n'|v']; cbn [sides_e]; auto;
      unfold lits_ok; cbn [lits forallb]; intros H; repeat (apply andb_prop in H as [? H]); repeat (apply andb_true_intro; split); auto.
  - cbn [norm_e]. rewrite !sides_nested. induction IH as [|x t Hx Ht IHt]; auto.
    cbn [map sides_l]. rewrite !lits_ok_app. intros H. apply andb_prop in H as [H1 H2]. rewrite (Hx H1), (IHt H2). reflexivity.
Qed.
Lemma norm_l_lits Q m : (forall v, Q v = true -> Q (Names.canon_name v) = true) ->
  lits_ok Q (sides_l m) = true -> lits_ok Q (sides_l (norm_l m)) = true.
Proof.
  intros HQ. rewrite <- !sides_nested. change (Nested (norm_l m)) with (norm_e (Nested m)). now apply norm_lits.
Qed.

Definition lit_good (v : str) : bool := negb (has_char 92 v) && negb (lit_bad v).
Lemma lit_class_ok m : lit_class m = LOk <-> lits_ok lit_good (sides_l m) = true.
Proof.
  unfold lit_class, lits_ok. set (ls := lits (sides_l m)). clearbody ls. split.
  - destruct (existsb (has_char 92) ls) eqn:A; [discriminate|]. destruct (existsb lit_bad ls) eqn:B; [discriminate|]. intros _.
    apply forallb_forall. intros v Hv. unfold lit_good.
    destruct (has_char 92 v) eqn:C; [assert (existsb (has_char 92) ls = true) by (apply existsb_exists; eauto); congruence|].
    destruct (lit_bad v) eqn:D; [assert (existsb lit_bad ls = true) by (apply existsb_exists; eauto); congruence|]. reflexivity.
  - intros H. rewrite forallb_forall in H.
    destruct (existsb (has_char 92) ls) eqn:A.
    { apply existsb_exists in A as (v & Hv & C). specialize (H v Hv). unfold lit_good in H. rewrite C in H. discriminate. }
    destruct (existsb lit_bad ls) eqn:B; auto.
    apply existsb_exists in B as (v & Hv & C). specialize (H v Hv). unfold lit_good in H. rewrite C in H. apply andb_prop in H as [_ H]. discriminate.
Qed.
Lemma lit_good_canon v : lit_good v = true -> lit_good (Names.canon_name v) = true.
Proof.
  unfold lit_good, lit_bad. intros H. apply andb_prop in H as [H1 H2]. apply negb_true_iff in H1, H2.
  apply orb_false_elim in H2 as [H2 H4]. apply orb_false_elim in H2 as [H2 H3].
  rewrite (has_canon 92 v inert_92 H1), (has_canon 0 v inert_0 H2), (has_canon 10 v inert_10 H3), (has_canon 13 v inert_13 H4). reflexivity.
Qed.
Lemma lit_class_norm m : lit_class m = LOk -> lit_class (norm_l m) = LOk.
Proof. rewrite !lit_class_ok. apply norm_l_lits. exact lit_good_canon. Qed.

(* ---------------- _normalize_extra_values is idempotent (canonicalize_name is) ---------------- *)
Lemma norm_item_idem l o r : norm_e (norm_item l o r) = norm_item l o r.
Proof.
  unfold norm_item. destruct (is_extra l) eqn:El.
  - destruct r as [n|v]; cbn [norm_e]; unfold norm_item; rewrite El; [reflexivity|]. now rewrite NamesLaws.canon_idempotent.
  - destruct (is_extra r) eqn:Er.
    + destruct l as [n|v]; cbn [norm_e]; unfold norm_item.
      * now rewrite El, Er.
      * cbn [is_extra]. rewrite Er. now rewrite NamesLaws.canon_idempotent.
    + cbn [norm_e]. unfold norm_item. now rewrite El, Er.
Qed.
Lemma norm_idem : forall e, norm_e (norm_e e) = norm_e e.
Proof.
  induction e as [l o r | w | m IH] using elem_ind'; auto.
  - apply norm_item_idem.
  - cbn [norm_e]. f_equal. rewrite map_map. now apply map_ext_Forall.
Qed.
Lemma norm_l_idem m : norm_l (norm_l m) = norm_l m.
Proof. unfold norm_l. rewrite map_map. apply map_ext. intros; apply norm_idem. Qed.
Print Assumptions p_marker_shape.
Print Assumptions lit_class_norm.
