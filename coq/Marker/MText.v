From Coq Require Import List Arith NArith Bool Lia.
Import ListNotations.
Open Scope N_scope.

Definition char := N.
Definition str := list char.
Definition is_digit (c : char) := (48 <=? c) && (c <=? 57).
Definition is_lower (c : char) := (97 <=? c) && (c <=? 122).
Definition is_upper (c : char) := (65 <=? c) && (c <=? 90).
Definition is_word (c : char) := is_digit c || is_lower c || is_upper c || (c =? 95).   (* ASCII part of \w *)
Definition is_wsb (c : char) := (c =? 32) || (c =? 9).                                   (* WS = [ \t]+ *)
Fixpoint span (p : char -> bool) (s : str) : str * str :=
  match s with c :: t => if p c then let '(a, r) := span p t in (c :: a, r) else ([], s) | [] => ([], []) end.
Fixpoint starts (w s : str) : option str :=
  match w, s with [], _ => Some s | p :: w', c :: t => if c =? p then starts w' t else None | _ :: _, [] => None end.
Definition wordness (o : option char) : bool := match o with Some c => is_word c | None => false end.
Definition boundary (prev next : option char) : bool := xorb (wordness prev) (wordness next).   (* \b *)
Definition hd_opt (s : str) : option char := match s with c :: _ => Some c | [] => None end.
Fixpoint last_opt (prev : option char) (s : str) : option char := match s with [] => prev | c :: t => last_opt (Some c) t end.

(* tokenizer state: the character before the cursor, and the remaining input *)
Record st := { prev : option char; rest : str }.
Definition adv (s : st) (tok r : str) : st := {| prev := last_opt (prev s) tok; rest := r |}.
Definition skip_ws (s : st) : st := let '(w, r) := span is_wsb (rest s) in adv s w r.

(* \b(w1|w2|...)\b : first alternative that is a prefix and is followed by a boundary *)
Fixpoint first_bword (ws : list str) (s : st) : option (str * st) :=
  match ws with
  | [] => None
  | w :: ws' =>
      match starts w (rest s) with
      | Some r => if boundary (last_opt (prev s) w) (hd_opt r) then Some (w, adv s w r) else first_bword ws' s
      | None => first_bword ws' s
      end
  end.
Definition bword (ws : list str) (s : st) : option (str * st) :=
  if boundary (prev s) (hd_opt (rest s)) then first_bword ws s else None.
Fixpoint first_plain (ws : list str) (s : st) : option (str * st) :=
  match ws with [] => None | w :: ws' => match starts w (rest s) with Some r => Some (w, adv s w r) | None => first_plain ws' s end end.

Definition L (s : list N) : str := s.
(* variables, in the order of the alternation, with the dotted PEP 345 spellings expanded *)
Definition var_alts : list str :=
  [ [112;121;116;104;111;110;95;118;101;114;115;105;111;110];                      (* python_version *)
    [112;121;116;104;111;110;95;102;117;108;108;95;118;101;114;115;105;111;110];   (* python_full_version *)
    [111;115;46;110;97;109;101]; [111;115;95;110;97;109;101];                       (* os.name os_name *)
    [115;121;115;46;112;108;97;116;102;111;114;109]; [115;121;115;95;112;108;97;116;102;111;114;109];  (* sys.platform sys_platform *)
    [112;108;97;116;102;111;114;109;95;114;101;108;101;97;115;101];                 (* platform_release *)
    [112;108;97;116;102;111;114;109;95;115;121;115;116;101;109];                    (* platform_system *)
    [112;108;97;116;102;111;114;109;46;118;101;114;115;105;111;110]; [112;108;97;116;102;111;114;109;95;118;101;114;115;105;111;110];
    [112;108;97;116;102;111;114;109;46;109;97;99;104;105;110;101]; [112;108;97;116;102;111;114;109;95;109;97;99;104;105;110;101];
    [112;108;97;116;102;111;114;109;46;112;121;116;104;111;110;95;105;109;112;108;101;109;101;110;116;97;116;105;111;110];
    [112;108;97;116;102;111;114;109;95;112;121;116;104;111;110;95;105;109;112;108;101;109;101;110;116;97;116;105;111;110];
    [112;121;116;104;111;110;95;105;109;112;108;101;109;101;110;116;97;116;105;111;110];   (* python_implementation *)
    [105;109;112;108;101;109;101;110;116;97;116;105;111;110;95;110;97;109;101];            (* implementation_name *)
    [105;109;112;108;101;109;101;110;116;97;116;105;111;110;95;118;101;114;115;105;111;110]; (* implementation_version *)
    [101;120;116;114;97] ].                                                                 (* extra *)
Definition w_pyimpl := [112;121;116;104;111;110;95;105;109;112;108;101;109;101;110;116;97;116;105;111;110].
Definition w_ppyimpl := [112;108;97;116;102;111;114;109;95;112;121;116;104;111;110;95;105;109;112;108;101;109;101;110;116;97;116;105;111;110].
Fixpoint str_eqb (a b : str) : bool :=
  match a, b with [], [] => true | x :: a', y :: b' => (x =? y) && str_eqb a' b' | _, _ => false end.
Definition norm_var (w : str) : str :=
  let w' := map (fun c => if c =? 46 then 95 else c) w in if str_eqb w' w_pyimpl then w_ppyimpl else w'.
Definition op_alts : list str := [[61;61;61]; [61;61]; [126;61]; [33;61]; [60;61]; [62;61]; [60]; [62]].
Definition w_in := [105;110]. Definition w_not := [110;111;116]. Definition w_not_in := [110;111;116;32;105;110].
Definition bool_alts : list str := [[111;114]; [97;110;100]].

Definition hd_is_c (c0 : char) (s : str) : bool := match s with c :: _ => c =? c0 | [] => false end.
Inductive side := SVar (name : str) | SVal (v : str).
Inductive elem := Item (l : side) (op : str) (r : side) | Nested (m : list elem) | BoolOp (w : str).

(* QUOTED_STRING: either quote, content up to the next same quote; content must be free of backslash, CR, LF, NUL for literal_eval to be the identity *)
Definition plain_char (q c : char) : bool := negb (c =? q).
Definition p_quoted (s : st) : option (str * st) :=
  match rest s with
  | q :: t => if (q =? 39) || (q =? 34) then
                let '(body, r) := span (plain_char q) t in
                match r with q' :: r' => Some (body, adv s (q :: body ++ [q']) r') | [] => None end
              else None
  | [] => None
  end.
Definition p_var (s : st) : option (side * st) :=
  match bword var_alts s with
  | Some (w, s') => Some (SVar (norm_var w), s')
  | None => match p_quoted s with Some (v, s') => Some (SVal v, s') | None => None end
  end.
Definition p_op (s : st) : option (str * st) :=
  match bword [w_in] s with
  | Some (_, s') => Some (w_in, s')
  | None =>
    match bword [w_not] s with
    | Some (_, s1) =>
        let '(w, r) := span is_wsb (rest s1) in
        match w with [] => None | _ =>
          match bword [w_in] (adv s1 w r) with Some (_, s2) => Some (w_not_in, s2) | None => None end end
    | None => first_plain op_alts s
    end
  end.
Definition p_item (s : st) : option (elem * st) :=
  let s := skip_ws s in
  match p_var s with None => None | Some (l, s) =>
  let s := skip_ws s in
  match p_op s with None => None | Some (o, s) =>
  let s := skip_ws s in
  match p_var s with None => None | Some (r, s) =>
  Some (Item l o r, skip_ws s) end end end.

(* marker_atom, given the parser for a parenthesised sub-marker *)
Definition p_atom_with (pm : st -> option (list elem * st)) (s : st) : option (elem * st) :=
  let s := skip_ws s in
  if hd_is_c 40 (rest s) then
    let s1 := skip_ws (adv s [40] (tl (rest s))) in
    match pm s1 with
    | None => None
    | Some (m, s2) =>
        let s3 := skip_ws s2 in
        if hd_is_c 41 (rest s3) then Some (Nested m, skip_ws (adv s3 [41] (tl (rest s3)))) else None
    end
  else match p_item s with Some (e, s') => Some (e, skip_ws s') | None => None end.
(* (BOOLOP marker_atom)* *)
Fixpoint loop_with (pa : st -> option (elem * st)) (k : nat) (acc : list elem) (s : st) : option (list elem * st) :=
  match k with O => None | S k' =>
    match bword bool_alts s with
    | None => Some (rev acc, s)
    | Some (w, s') => match pa s' with None => None | Some (a', s'') => loop_with pa k' (a' :: BoolOp w :: acc) s'' end
    end
  end.
Fixpoint p_marker (fuel : nat) (s : st) : option (list elem * st) :=
  match fuel with O => None | S f =>
    match p_atom_with (p_marker f) s with
    | None => None
    | Some (a, s1) => loop_with (p_atom_with (p_marker f)) fuel [a] s1
    end
  end.
Definition parse_marker (src : str) : option (list elem) :=
  match p_marker (S (length src)) {| prev := None; rest := src |} with
  | Some (m, s) => match rest s with [] => Some m | _ => None end
  | None => None
  end.
