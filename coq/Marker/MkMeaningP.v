(* C07: "a comparison uses PEP 440 specifier matching (pre-releases allowed)" - the link from _eval_op to the PEP 440
   definitions of the C03 check (SpecSem.sem / SpecOps.*_spec on structured versions).  Until now C07 stated the specifier
   branch only through SpecContains.compare_op, the code model of the operator methods. *)
From Coq Require Import List Arith NArith Bool Lia.
Import ListNotations.
Require Import MText MkModel MkEval MkEvalP MkOpP MkTotalP.
Require VParse SpecParse SpecSound SpecContains SpecModel SpecOps SpecSem SpecMain SpecLink VKeyEq Py VMeaning.
Open Scope N_scope.
Arguments N.eqb : simpl never.
Arguments N.leb : simpl never.

(* whenever operator + right operand form a valid specifier and the left operand is a valid version c, the result is the PEP 440
   meaning of that specifier at c: sem (operator read back) (denotation of the version text) c - never an exception *)
Theorem eval_op_is_pep440 (lhs o rhs : str) sp c :
  SpecContains.Specifier (o ++ rhs) = Some sp -> SpecModel.Version lhs = Some c ->
  exists f b, SpecSem.interp sp = Some f /\ SpecSem.form_ok (SpecContains.sp_op sp) f /\
              SpecSem.sem (SpecContains.sp_op sp) f c = Some b /\ eval_op lhs o rhs = EBool b.
Proof.
  intros Hs Hv. destruct (SpecLink.Specifier_interp _ sp Hs) as (f & I & F).
  pose proof (SpecMain.compare_op_spec sp f c (VKeyEq.Version_wf _ _ Hv) I F) as E.
  destruct (SpecLink.compare_op_total _ sp c Hs (VKeyEq.Version_wf _ _ Hv)) as [b Eb].
  exists f, b. repeat split; auto; [congruence|]. rewrite (eval_op_specifier lhs o rhs sp c Hs Hv), Eb. reflexivity.
Qed.
(* ... in the vocabulary of the C03 statement: evaluation agrees with contains_spec *)
Theorem eval_op_contains_spec (lhs o rhs : str) sp :
  SpecContains.Specifier (o ++ rhs) = Some sp ->
  match SpecSem.contains_spec sp lhs with
  | Some (SpecContains.Ans b) => eval_op lhs o rhs = EBool b
  | Some SpecContains.BadItem => SpecModel.Version lhs = None /\ eval_op lhs o rhs = string_op lhs o rhs
  | _ => False
  end.
Proof.
  intros Hs. destruct (SpecLink.Specifier_interp _ sp Hs) as (f & I & F).
  rewrite <- (SpecMain.contains_is_spec sp f lhs I F). unfold eval_op. rewrite Hs.
  destruct (SpecContains.contains sp None (Some true) lhs) eqn:C; auto.
  - split; [|reflexivity]. unfold SpecContains.contains in C. destruct (SpecModel.Version lhs); [|reflexivity].
    destruct (_ && _); [discriminate|]. destruct (SpecContains.compare_op _ _ _); discriminate.
  - exact (contains_never_escapes _ sp None (Some true) lhs Hs C).
Qed.

(* ---- the ordering operators, spelled out: for  <=  >=  <  >  written with a right operand that does not start with "="
        (so that the operator applied is the operator written, MkOpP.operator_identity), a valid specifier and a valid left
        operand: the right operand is a version text V (surrounded by optional whitespace, no local label) and the result is the
        PEP 440 ordered comparison of the C03 statement:  <= / >= the total order on the candidate's public version,
        < / > the order with the pre-release / post-release / local exclusions ---- *)
Lemma spec_text_of_rhs (o rhs : str) sp : In o op_alts -> SpecContains.Specifier (o ++ rhs) = Some sp ->
  SpecParse.op_txt (SpecContains.sp_op sp) = o ->
  exists ws wr, rhs = ws ++ SpecContains.sp_text sp ++ wr /\ forallb VParse.is_ws ws = true /\ forallb VParse.is_ws wr = true.
Proof.
  intros Ho. unfold SpecContains.Specifier. destruct (SpecParse.parse_specifier (o ++ rhs)) as [t|] eqn:E; [|discriminate].
  intros [= <-]. cbn [SpecContains.sp_op SpecContains.sp_text]. intros Eo.
  destruct (SpecSound.C12_spec_sound _ _ E) as (R & Wl & Ws & Wr & _).
  unfold SpecSound.render_spec in R. rewrite Eo in R.
  assert (L : SpecParse.s_wl t = []).
  { destruct (SpecParse.s_wl t) as [|c w]; [reflexivity|]. exfalso. cbn [forallb] in Wl. apply andb_prop in Wl as [Wc _].
    unfold op_alts in Ho. cbn [In] in Ho.
    repeat (destruct Ho as [<-|Ho]; [cbn [app] in R; injection R as -> _; vm_compute in Wc; discriminate Wc|]). contradiction. }
  rewrite L in R. cbn [app] in R. apply app_inv_head in R. exists (SpecParse.s_ws t), (SpecParse.s_wr t). auto.
Qed.

Theorem eval_op_ordering (lhs o rhs : str) sp c : In o [[60;61]; [62;61]; [60]; [62]] -> hd_is_c 61 rhs = false ->
  SpecContains.Specifier (o ++ rhs) = Some sp -> SpecModel.Version lhs = Some c ->
  exists V ws wr,
    rhs = ws ++ SpecContains.sp_text sp ++ wr /\ forallb VParse.is_ws ws = true /\ forallb VParse.is_ws wr = true /\
    SpecModel.Version (SpecContains.sp_text sp) = Some V /\ Py.local V = None /\ VMeaning.wf_version V /\ VMeaning.wf_version c /\
    (o = [60;61] -> eval_op lhs o rhs = EBool (SpecOps.le_spec c V)) /\
    (o = [62;61] -> eval_op lhs o rhs = EBool (SpecOps.ge_spec c V)) /\
    (o = [60] -> eval_op lhs o rhs = EBool (SpecOps.lt_spec c V)) /\
    (o = [62] -> eval_op lhs o rhs = EBool (SpecOps.gt_spec c V)).
Proof.
  intros Ho Hh Hs Hv.
  assert (Ho' : In o op_alts) by (unfold op_alts; cbn [In] in *; intuition).
  pose proof (operator_identity o rhs sp Ho' Hh Hs) as Eo.
  destruct (spec_text_of_rhs o rhs sp Ho' Hs Eo) as (ws & wr & R & Ws & Wr).
  destruct (eval_op_is_pep440 lhs o rhs sp c Hs Hv) as (f & b & I & F & S & E).
  pose proof (VKeyEq.Version_wf _ _ Hv) as Wc.
  unfold SpecSem.interp in I.
  cbn [In] in Ho. destruct Ho as [<-|[<-|[<-|[<-|[]]]]];
    (destruct (SpecContains.sp_op sp) eqn:Op; try discriminate Eo);
    (destruct (SpecModel.Version (SpecContains.sp_text sp)) as [V|] eqn:EV; [|discriminate I]); cbn [option_map] in I; injection I as <-;
    cbn [SpecSem.form_ok] in F; destruct F as [WV NL]; cbn [SpecSem.sem] in S; injection S as <-;
    exists V, ws, wr; refine (conj R (conj Ws (conj Wr (conj eq_refl (conj NL (conj WV (conj Wc _)))))));
    (split; [|split; [|split]]); intros Q; try discriminate Q; exact E.
Qed.

(* non-vacuity:  "3.10" >= "3.9 "  is True by version order (False as strings),  "1.0rc1" < "1.0"  False (the pre-release exclusion of PEP 440),  "1.0+local" <= "1.0" True *)
Definition meaning_check : bool :=
  match eval_op [51;46;49;48] [62;61] [51;46;57;32], string_op [51;46;49;48] [62;61] [51;46;57;32],
        eval_op [49;46;48;114;99;49] [60] [49;46;48], eval_op [49;46;48;43;108;111;99;97;108] [60;61] [49;46;48] with
  | EBool true, EBool false, EBool false, EBool true => true
  | _, _, _, _ => false
  end.
Example meaning_nonvacuous : meaning_check = true.
Proof. vm_compute. reflexivity. Qed.
Print Assumptions eval_op_is_pep440.
Print Assumptions eval_op_ordering.
