(* C07: _repair_python_full_version.  "a python_full_version ending in '+' is completed to a valid local version":
   if what precedes the '+' is a valid version without a local label (and without trailing whitespace - "3.9 +local" is not a
   version), then the completed text  u ++ "+local"  IS a valid version (Version() accepts it), so a comparison against it takes the
   PEP 440 branch of _eval_op instead of silently falling back to a string comparison. *)
From Coq Require Import List Arith NArith Bool Lia.
Import ListNotations.
Require Import MText MkModel MkEval MkEvalP.
Require VParse VTop VTop2 VGnfExists VMeaning SpecModel Py.
Open Scope N_scope.
Arguments N.eqb : simpl never.
Arguments N.leb : simpl never.

Definition ends_ws (u : list N) : bool := match @rev N u with c :: _ => VParse.is_ws c | [] => false end.
Definition add_local (sp : VParse.spelling) : VParse.spelling :=
  {| VParse.ws_l := VParse.ws_l sp; VParse.vpre := VParse.vpre sp; VParse.ep := VParse.ep sp; VParse.rel0 := VParse.rel0 sp;
     VParse.rels := VParse.rels sp; VParse.spre := VParse.spre sp; VParse.spost := VParse.spost sp; VParse.sdev := VParse.sdev sp;
     VParse.sloc := Some (w_local, []); VParse.ws_r := [] |}.

Lemma ends_ws_app a b : b <> [] -> ends_ws (a ++ b) = ends_ws b.
Proof.
  intros Hb. unfold ends_ws. rewrite rev_app_distr. destruct (rev b) as [|c r] eqn:E; [|reflexivity].
  apply (f_equal (@rev N)) in E. rewrite rev_involutive in E. contradiction.
Qed.
Lemma all_ws_ends w : w <> [] -> forallb VParse.is_ws w = true -> ends_ws w = true.
Proof.
  intros Hw A. unfold ends_ws. destruct (rev w) as [|c r] eqn:E.
  - apply (f_equal (@rev N)) in E. rewrite rev_involutive in E. contradiction.
  - rewrite forallb_forall in A. apply A. apply in_rev. rewrite E. now left.
Qed.

Theorem repaired_is_version (u : str) c : SpecModel.Version u = Some c -> Py.local c = None -> ends_ws u = false ->
  exists c', SpecModel.Version (u ++ 43 :: w_local) = Some c'.
Proof.
  unfold SpecModel.Version. destruct (VParse.parse_spelling u) as [sp|] eqn:P; [|discriminate].
  intros [= <-] L E. destruct (VTop.parse_spelling_sound _ _ P) as [R W].
  assert (Ls : VParse.sloc sp = None).
  { unfold VMeaning.meaning in L. cbn [Py.local] in L. destruct (VParse.sloc sp); [discriminate|reflexivity]. }
  assert (Wr : VParse.ws_r sp = []).
  { destruct (VParse.ws_r sp) as [|x w] eqn:Ew; [reflexivity|]. exfalso.
    destruct W as (_ & W2 & _). rewrite Ew in W2.
    rewrite <- R in E. unfold VParse.render in E. rewrite Ew in E.
    rewrite !app_assoc in E. rewrite ends_ws_app in E by discriminate.
    rewrite all_ws_ends in E; [discriminate|discriminate|exact W2]. }
  assert (R' : VParse.render (add_local sp) = u ++ 43 :: w_local).
  { rewrite <- R. unfold VParse.render, add_local. cbn [VParse.ws_l VParse.vpre VParse.ep VParse.rel0 VParse.rels VParse.spre VParse.spost VParse.sdev VParse.sloc VParse.ws_r].
    rewrite Ls, Wr. cbn [VParse.r_opt VParse.r_loc fst snd VParse.r_segs]. rewrite !app_nil_r. rewrite <- !app_assoc. reflexivity. }
  assert (W' : VTop.wf_spelling (add_local sp)).
  { destruct W as (W1 & W2 & Wv & We & W0 & Wrs & Wp & Wpo & Wd & Wl).
    unfold VTop.wf_spelling, add_local. cbn [VParse.ws_l VParse.vpre VParse.ep VParse.rel0 VParse.rels VParse.spre VParse.spost VParse.sdev VParse.sloc VParse.ws_r].
    repeat split; auto. }
  destruct (VGnfExists.version_language_complete _ W') as (sp' & P'). rewrite R' in P'.
  rewrite P'. cbn [option_map]. eauto.
Qed.

(* in the vocabulary of the environment model: a detected/supplied python_full_version  v = u ++ "+"  with u as above is replaced
   by a text that Version() accepts *)
Theorem repair_makes_valid_version v u c : v = u ++ [43] -> SpecModel.Version u = Some c -> Py.local c = None -> ends_ws u = false ->
  ends_plus v = true /\ exists c', SpecModel.Version (v ++ w_local) = Some c'.
Proof.
  intros -> Hu L E. split; [apply ends_plus_spec; eauto|]. rewrite <- app_assoc. cbn [app]. eapply repaired_is_version; eauto.
Qed.
(* non-vacuity on the forms CPython actually produces, N(.N)* [ (a|b|rc) N ] "+": for each witness v the HYPOTHESES of
   repair_makes_valid_version are computed with u = v without its last character (u is a version, without local label, not ending
   in whitespace, v = u ++ "+"), and then the conclusion (v ends in "+", v ++ "local" is a version - with a local label).
   The model has no digit limit (finding D10): the real Version() additionally rejects a component of more than 4300 digits. *)
Definition repair_check : bool :=
  forallb (fun v : list N =>
     let u := removelast v in
     match SpecModel.Version u with
     | Some c => match Py.local c with None => true | Some _ => false end
     | None => false end
     && negb (ends_ws u) && str_eqb v (u ++ [43])
     && ends_plus v
     && match SpecModel.Version (v ++ w_local) with
        | Some c' => match Py.local c' with Some _ => true | None => false end
        | None => false end)
    [[51;46;49;51;46;48;43]; [51;46;49;51;46;48;97;49;43]; [51;46;49;52;46;48;114;99;50;43]; [51;46;57;43]].
Example repair_nonvacuous : repair_check = true.
Proof. vm_compute. reflexivity. Qed.
Print Assumptions repaired_is_version.
