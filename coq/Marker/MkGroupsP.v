(* C07: the groups-of-all / any algorithm of _evaluate_markers computes the boolean value of the formula
   ('and' binds tighter than 'or', parentheses group), for every formula tree and every valuation of the items;
   every item is evaluated and the first exception (in text order) propagates. *)
From Coq Require Import List Arith NArith Bool Lia.
Import ListNotations.
Require Import MText MkModel MkEval.
Open Scope N_scope.
Arguments N.eqb : simpl never.
Arguments N.leb : simpl never.

(* ---- spec: formula trees ---- *)
Inductive form := FAtom (l : side) (o : str) (r : side) | FAnd (f g : form) | FOr (f g : form) | FParen (f : form).

(* the list _parse_marker builds for the text of f *)
Fixpoint flat (f : form) : list elem :=
  match f with
  | FAtom l o r => [Item l o r]
  | FParen f => [Nested (flat f)]
  | FOr f g => flat f ++ BoolOp w_or :: flat g
  | FAnd f g => flat f ++ BoolOp w_and :: flat g
  end.
(* f is the tree of its own text: an 'or' is never a direct operand of an 'and' (it would have needed parentheses) *)
Fixpoint no_bare_or (f : form) : bool :=
  match f with
  | FAtom _ _ _ => true | FParen f => no_bare_or f
  | FOr f g => no_bare_or f && no_bare_or g
  | FAnd f g => conj_only f && conj_only g
  end
with conj_only (f : form) : bool :=
  match f with
  | FAtom _ _ _ => true | FParen f => no_bare_or f
  | FOr _ _ => false
  | FAnd f g => conj_only f && conj_only g
  end.
Lemma conj_nbo f : conj_only f = true -> no_bare_or f = true.
Proof. induction f; cbn; auto; try discriminate. Qed.

Section V.
Variable evi : side -> str -> side -> eres.        (* value of one item: a bool or an exception *)

Definition as_bool (r : eres) : bool := match r with EBool b => b | _ => true end.
Definition is_exn (r : eres) : bool := match r with EBool _ => false | _ => true end.
(* boolean value of the formula when no item raises *)
Fixpoint bden (f : form) : bool :=
  match f with
  | FAtom l o r => as_bool (evi l o r)
  | FAnd f g => bden f && bden g
  | FOr f g => bden f || bden g
  | FParen f => bden f
  end.
(* the first exception in text order, if any *)
Fixpoint ferr (f : form) : option eres :=
  match f with
  | FAtom l o r => if is_exn (evi l o r) then Some (evi l o r) else None
  | FAnd f g | FOr f g => match ferr f with Some e => Some e | None => ferr g end
  | FParen f => ferr f
  end.
Definition den (f : form) : eres := match ferr f with Some e => e | None => EBool (bden f) end.

Lemma ferr_exn f e : ferr f = Some e -> is_exn e = true.
Proof.
  revert e. induction f as [l o r | f IHf g IHg | f IHf g IHg | f IHf]; intros e; cbn [ferr].
  - destruct (is_exn (evi l o r)) eqn:E; [intros [= <-]; exact E | discriminate].
  - destruct (ferr f); [intros [= <-]; now apply IHf | apply IHg].
  - destruct (ferr f); [intros [= <-]; now apply IHf | apply IHg].
  - apply IHf.
Qed.

Lemma geval_nested m : geval_e evi (Nested m) = geval_markers evi m.
Proof.
  unfold geval_markers. cbn [geval_e].
  match goal with |- ?f m true false = _ => enough (H : forall cur acc, f m cur acc = geval_go evi m cur acc) by apply H end.
  induction m as [|e t IH]; intros cur acc; [reflexivity|].
  destruct e; cbn [geval_go].
  - destruct (evi l op r); auto.
  - match goal with |- match ?x with _ => _ end = match ?y with _ => _ end => change x with y; destruct y end; auto.
  - destruct (str_eqb w w_or); [apply IH|]. destruct (str_eqb w w_and); [apply IH|reflexivity].
Qed.

(* state transformer of the groups algorithm over the flattened formula: (all of the open group, any of the closed groups) *)
Fixpoint st (f : form) (s : bool * bool) : bool * bool :=
  match f with
  | FAtom l o r => (fst s && as_bool (evi l o r), snd s)
  | FParen f => (fst s && bden f, snd s)
  | FAnd f g => st g (st f s)
  | FOr f g => let s1 := st f s in st g (true, snd s1 || fst s1)
  end.

Lemma go_or t cur acc : geval_go evi (BoolOp w_or :: t) cur acc = geval_go evi t true (acc || cur).
Proof. reflexivity. Qed.
Lemma go_and t cur acc : geval_go evi (BoolOp w_and :: t) cur acc = geval_go evi t cur acc.
Proof. reflexivity. Qed.

Lemma main f :
  (no_bare_or f = true ->
     (forall r cur acc, geval_go evi (flat f ++ r) cur acc =
        match ferr f with Some e => e | None => geval_go evi r (fst (st f (cur, acc))) (snd (st f (cur, acc))) end) /\
     (forall acc, snd (st f (true, acc)) || fst (st f (true, acc)) = acc || bden f)) /\
  (conj_only f = true -> forall cur acc, st f (cur, acc) = (cur && bden f, acc)).
Proof.
  induction f as [l o r0 | f IHf g IHg | f IHf g IHg | f IHf].
  - (* atom *) repeat split; intros; cbn [flat app geval_go geval_e ferr st fst snd bden]; auto.
    destruct (evi l o r0); reflexivity.
  - (* and *) destruct IHf as [Af Cf], IHg as [Ag Cg]. split.
    + intros H. cbn in H. apply andb_prop in H as [Hf Hg].
      destruct (Af (conj_nbo _ Hf)) as [A1 _], (Ag (conj_nbo _ Hg)) as [A2 _]. split.
      * intros r cur acc. cbn [flat st ferr]. rewrite <- app_assoc. cbn [app].
        rewrite A1. destruct (ferr f); [reflexivity|]. rewrite go_and, A2.
        destruct (ferr g); [reflexivity|]. destruct (st f (cur, acc)); reflexivity.
      * intros acc. cbn [st bden]. rewrite (Cf Hf), (Cg Hg). cbn. reflexivity.
    + intros H. cbn in H. apply andb_prop in H as [Hf Hg]. intros cur acc. cbn [st bden].
      rewrite (Cf Hf), (Cg Hg). now rewrite andb_assoc.
  - (* or *) destruct IHf as [Af _], IHg as [Ag _]. split; [|discriminate].
    intros H. cbn in H. apply andb_prop in H as [Hf Hg].
    destruct (Af Hf) as [A1 B1], (Ag Hg) as [A2 B2]. split.
    + intros r cur acc. cbn [flat st ferr]. rewrite <- app_assoc. cbn [app].
      rewrite A1. destruct (ferr f); [reflexivity|]. rewrite go_or, A2. reflexivity.
    + intros acc. cbn [st bden]. rewrite B2, B1. now rewrite orb_assoc.
  - (* paren *) destruct IHf as [Af _].
    assert (E : no_bare_or f = true -> geval_e evi (Nested (flat f)) = den f).
    { intros H. destruct (Af H) as [A1 B1]. rewrite geval_nested. unfold geval_markers, den.
      rewrite <- (app_nil_r (flat f)), A1. destruct (ferr f); [reflexivity|]. cbn [geval_go]. now rewrite B1. }
    split.
    + intros H. cbn in H. split.
      * intros r cur acc. cbn [flat app geval_go st fst snd ferr]. rewrite (E H). unfold den.
        destruct (ferr f) as [e|] eqn:Fe; [|reflexivity].
        apply ferr_exn in Fe. destruct e; [discriminate|reflexivity|reflexivity].
      * intros acc. cbn. reflexivity.
    + intros H cur acc. reflexivity.
Qed.

Theorem groups_are_or_of_ands f : no_bare_or f = true -> geval_markers evi (flat f) = den f.
Proof.
  intros H. destruct (main f) as [M _]. destruct (M H) as [A B]. unfold geval_markers, den.
  rewrite <- (app_nil_r (flat f)), A. destruct (ferr f); [reflexivity|]. cbn [geval_go]. now rewrite B.
Qed.
End V.
Print Assumptions groups_are_or_of_ands.
