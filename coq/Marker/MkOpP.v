(* C07: which operator does _eval_op apply?  Specifier(op + rhs) is built from the CONCATENATION of the written operator and
   the right operand, so the operator Specifier reads back need not be the written one.  Exactly three cases absorb a
   leading "=" of the right operand into the operator:
        <  + "=V"  is read as  <= V        >  + "=V"  is read as  >= V        ==  + "=X"  is read as  === X
   and in every other case the operator applied is the operator written (operator_identity). *)
From Coq Require Import List Arith NArith Bool Lia.
Import ListNotations.
Require Import MText MkModel MkEval MkEvalP.
Require VParse SpecParse SpecContains SpecModel.
Open Scope N_scope.
Arguments N.eqb : simpl never.
Arguments N.leb : simpl never.

(* the alternative of Specifier._regex that matched: its operator text is a prefix of the input and its version pattern
   accepts what follows (after whitespace) *)
Lemma try_ops_found ops wl s sp : SpecParse.try_ops ops wl s = Some sp ->
  exists s1 b r, In (SpecParse.s_op sp) ops /\ SpecParse.starts (SpecParse.op_txt (SpecParse.s_op sp)) s = Some s1 /\
                 SpecParse.p_body (SpecParse.s_op sp) (snd (VParse.span VParse.is_ws s1)) = Some (b, r).
Proof.
  induction ops as [|o ops IH]; cbn [SpecParse.try_ops]; [discriminate|].
  assert (R : SpecParse.try_ops ops wl s = Some sp ->
              exists s1 b r, In (SpecParse.s_op sp) (o :: ops) /\ SpecParse.starts (SpecParse.op_txt (SpecParse.s_op sp)) s = Some s1 /\
                 SpecParse.p_body (SpecParse.s_op sp) (snd (VParse.span VParse.is_ws s1)) = Some (b, r)).
  { intros H. destruct (IH H) as (s1 & b & r & Hin & A & B). exists s1, b, r. split; [now right|auto]. }
  destruct (SpecParse.starts (SpecParse.op_txt o) s) as [s1|] eqn:E1; [|exact R].
  destruct (VParse.span VParse.is_ws s1) as [ws s2] eqn:E2.
  destruct (SpecParse.p_body o s2) as [[b r]|] eqn:E3; [|exact R].
  destruct (SpecParse.all_ws r); [|exact R].
  intros [= <-]. cbn [SpecParse.s_op]. exists s1, b, r. rewrite E2. cbn [snd]. split; [now left|auto].
Qed.

(* no version pattern starts with "=": after "<", ">" or "==" a right operand "=..." cannot be that operator's version *)
Lemma p_body_eq_head o x : o <> SpecParse.OArb -> SpecParse.p_body o (61 :: x) = None.
Proof. destruct o; intros H; try reflexivity. congruence. Qed.
Lemma span_ws_eq_head x : VParse.span VParse.is_ws (61 :: x) = ([], 61 :: x).
Proof. reflexivity. Qed.

Definition oper_of (o : str) : option SpecParse.oper :=
  if str_eqb o [126;61] then Some SpecParse.OCompat else if str_eqb o [61;61] then Some SpecParse.OEq
  else if str_eqb o [33;61] then Some SpecParse.ONe else if str_eqb o [60;61] then Some SpecParse.OLe
  else if str_eqb o [62;61] then Some SpecParse.OGe else if str_eqb o [60] then Some SpecParse.OLt
  else if str_eqb o [62] then Some SpecParse.OGt else if str_eqb o [61;61;61] then Some SpecParse.OArb else None.

Ltac kill_starts :=
  match goal with
  | H : SpecParse.starts _ _ = Some _ |- _ => cbn in H; try discriminate H
  end.

(* the complete table *)
Theorem operator_read_back (o rhs : str) sp : In o op_alts -> SpecContains.Specifier (o ++ rhs) = Some sp ->
  SpecParse.op_txt (SpecContains.sp_op sp) = o \/
  exists v, rhs = 61 :: v /\
    ((o = [60] /\ SpecContains.sp_op sp = SpecParse.OLe) \/ (o = [62] /\ SpecContains.sp_op sp = SpecParse.OGe) \/
     (o = [61;61] /\ SpecContains.sp_op sp = SpecParse.OArb)).
Proof.
  intros Ho. unfold SpecContains.Specifier. destruct (SpecParse.parse_specifier (o ++ rhs)) as [t|] eqn:E; [|discriminate].
  intros [= <-]. cbn [SpecContains.sp_op].
  assert (W : VParse.span VParse.is_ws (o ++ rhs) = ([], o ++ rhs)).
  { unfold op_alts in Ho. cbn [In] in Ho. repeat (destruct Ho as [<-|Ho]; [reflexivity|]). contradiction. }
  unfold SpecParse.parse_specifier in E. rewrite W in E.
  apply try_ops_found in E as (s1 & b & r & _ & S & B).
  unfold op_alts in Ho. cbn [In] in Ho.
  assert (Hd : forall c (x y : list N), (if c =? 61 then Some x else None) = Some y -> c = 61 /\ x = y).
  { intros c x y. destruct (c =? 61) eqn:Q; [|discriminate]. apply N.eqb_eq in Q. intros [= <-]. auto. }
  repeat (destruct Ho as [<-|Ho]; [destruct (SpecParse.s_op t) eqn:Eo; cbn in S; try discriminate S; try (left; reflexivity) | ]);
    try contradiction.
  - (* written ===, read == : body "=rhs" *) injection S as <-. rewrite span_ws_eq_head in B. cbn [snd] in B. now rewrite p_body_eq_head in B.
  - (* written ==, read === *) destruct rhs as [|c v]; [discriminate|]. apply Hd in S as [-> _]. right. exists v. auto 6.
  - (* written <=, read < *) injection S as <-. rewrite span_ws_eq_head in B. cbn [snd] in B. now rewrite p_body_eq_head in B.
  - (* written >=, read > *) injection S as <-. rewrite span_ws_eq_head in B. cbn [snd] in B. now rewrite p_body_eq_head in B.
  - (* written <, read <= *) destruct rhs as [|c v]; [discriminate|]. apply Hd in S as [-> _]. right. exists v. auto 6.
  - (* written >, read >= *) destruct rhs as [|c v]; [discriminate|]. apply Hd in S as [-> _]. right. exists v. auto 6.
Qed.

(* operator identity: unless the right operand starts with "=", the operator applied is the operator written *)
Theorem operator_identity (o rhs : str) sp : In o op_alts -> hd_is_c 61 rhs = false ->
  SpecContains.Specifier (o ++ rhs) = Some sp -> SpecParse.op_txt (SpecContains.sp_op sp) = o.
Proof.
  intros Ho Hh S. destruct (operator_read_back o rhs sp Ho S) as [E|(v & -> & _)]; [exact E|].
  cbn in Hh. discriminate.
Qed.
(* ... and also when it does, for the five operators that are not a proper prefix of another one *)
Theorem operator_identity_closed (o rhs : str) sp : In o [[61;61;61]; [126;61]; [33;61]; [60;61]; [62;61]] ->
  SpecContains.Specifier (o ++ rhs) = Some sp -> SpecParse.op_txt (SpecContains.sp_op sp) = o.
Proof.
  intros Ho S. assert (Ho' : In o op_alts) by (unfold op_alts; cbn [In] in *; intuition).
  destruct (operator_read_back o rhs sp Ho' S) as [E|(v & _ & [[-> _]|[[-> _]|[-> _]]])]; [exact E| | |];
    cbn [In] in Ho; repeat (destruct Ho as [Ho|Ho]; [discriminate Ho|]); contradiction.
Qed.

(* the three absorbing cases, by name: the comparison made is that of the longer operator on the rest of the operand
   (whenever that is a valid specifier and the left operand a version - otherwise the string operator of the WRITTEN one) *)
Theorem absorbed_lt lhs v : eval_op lhs [60] (61 :: v) =
  match SpecContains.Specifier ([60;61] ++ v), SpecModel.Version lhs with
  | Some _, Some _ => eval_op lhs [60;61] v
  | _, _ => string_op lhs [60] (61 :: v)
  end.
Proof.
  rewrite (eval_op_dispatch lhs [60] (61 :: v)), (eval_op_dispatch lhs [60;61] v).
  cbn [app]. destruct (SpecContains.Specifier _); [|reflexivity]. destruct (SpecModel.Version lhs); reflexivity.
Qed.
Theorem absorbed_gt lhs v : eval_op lhs [62] (61 :: v) =
  match SpecContains.Specifier ([62;61] ++ v), SpecModel.Version lhs with
  | Some _, Some _ => eval_op lhs [62;61] v
  | _, _ => string_op lhs [62] (61 :: v)
  end.
Proof.
  rewrite (eval_op_dispatch lhs [62] (61 :: v)), (eval_op_dispatch lhs [62;61] v).
  cbn [app]. destruct (SpecContains.Specifier _); [|reflexivity]. destruct (SpecModel.Version lhs); reflexivity.
Qed.
Theorem absorbed_eq lhs x : eval_op lhs [61;61] (61 :: x) =
  match SpecContains.Specifier ([61;61;61] ++ x), SpecModel.Version lhs with
  | Some _, Some _ => eval_op lhs [61;61;61] x
  | _, _ => string_op lhs [61;61] (61 :: x)
  end.
Proof.
  rewrite (eval_op_dispatch lhs [61;61] (61 :: x)), (eval_op_dispatch lhs [61;61;61] x).
  cbn [app]. destruct (SpecContains.Specifier _); [|reflexivity]. destruct (SpecModel.Version lhs); reflexivity.
Qed.

(* witnesses (the real code agrees, see the k.eval sweep with right operands "=3.8", "=1.0"):
   python_version > "=3.8" under python_version = "3.8" is True (read as >=3.8); by string comparison it would be False *)
Definition absorb_check : bool :=
  match eval_op [51;46;56] [62] [61;51;46;56], string_op [51;46;56] [62] [61;51;46;56],
        eval_op [51;46;56] [61;61] [61;51;46;56], string_op [51;46;56] [61;61] [61;51;46;56],
        eval_op [51;46;55] [60] [61;51;46;56], eval_op [51;46;56] [60;61] [61;51;46;56] with
  | EBool true, EBool false, EBool true, EBool false, EBool true, EBool true => true
  | _, _, _, _, _, _ => false
  end.
Example absorb_nonvacuous : absorb_check = true.
Proof. vm_compute. reflexivity. Qed.
Print Assumptions operator_read_back.
Print Assumptions operator_identity.
