From Coq Require Import List Arith NArith Bool Lia.
Import ListNotations.
Require Import VParse SpecParse.
Require Import MText.
Open Scope N_scope.

(* ---------------- requirement grammar on top of the marker tokenizer ---------------- *)
Definition is_alnum (c : char) := MText.is_digit c || MText.is_lower c || MText.is_upper c.
Definition is_ident (c : char) := is_alnum c || (c =? 46) || (c =? 95) || (c =? 45).
(* IDENTIFIER = \b[a-zA-Z0-9][a-zA-Z0-9._-]*\b : greedy run, then back off trailing '.' and '-' (non-word) characters *)
Fixpoint trim_nonword (r : list char) : list char :=      (* on the reversed run *)
  match r with c :: t => if is_word c then r else trim_nonword t | [] => [] end.
Definition p_ident (s : st) : option (MText.str * st) :=
  match rest s with
  | c :: _ =>
      if is_alnum c && boundary (prev s) (Some c) then
        let '(run, _) := MText.span is_ident (rest s) in
        let tok := rev (trim_nonword (rev run)) in
        Some (tok, adv s tok (skipn (length tok) (rest s)))
      else None
  | [] => None
  end.
Definition at_end (s : st) : bool := match rest s with [] => true | [10] => true | _ => false end.      (* "$" *)
Definition is_hd (c0 : char) (s : st) : bool := match rest s with c :: _ => c =? c0 | [] => false end.
Definition drop1 (s : st) : st := match rest s with c :: r => adv s [c] r | [] => s end.

(* SPECIFIER token: the specifier pattern un-anchored (no trailing \s*$) *)
Fixpoint try_ops_tok (ops : list oper) (s : MText.str) : option (MText.str * MText.str) :=     (* (token text, rest) *)
  match ops with
  | [] => None
  | o :: more =>
      match SpecParse.starts (op_txt o) s with
      | None => try_ops_tok more s
      | Some s1 =>
          let '(ws, s2) := VParse.span is_ws s1 in
          match p_body o s2 with
          | Some (_, r) => Some (firstn (length s - length r) s, r)
          | None => try_ops_tok more s
          end
      end
  end.
Definition p_spec_tok (s : st) : option (MText.str * st) :=
  match try_ops_tok ops_in_order (rest s) with Some (tok, r) => Some (tok, adv s tok r) | None => None end.
Definition is_lower_alnum (c : char) := MText.is_digit c || MText.is_lower c.
Definition local_trail (s : st) : bool :=          (* \+[a-z0-9]+(...)* : enough to look at two characters *)
  match rest s with 43 :: c :: _ => is_lower_alnum c | _ => false end.
Definition prefix_trail (s : st) : bool := match rest s with 46 :: 42 :: _ => true | _ => false end.

Fixpoint p_version_many (fuel : nat) (acc : MText.str) (s : st) : option (MText.str * st) :=
  match fuel with O => Some (acc, s) | S f =>
    match p_spec_tok s with
    | None => Some (acc, s)
    | Some (tok, s1) =>
        if prefix_trail s1 || local_trail s1 then None
        else let s2 := skip_ws s1 in
             if is_hd 44 s2 then p_version_many f (acc ++ tok ++ [44]) (skip_ws (drop1 s2))
             else Some (acc ++ tok, s2)
    end
  end.
Definition p_specifier (s : st) : option (MText.str * st) :=
  if is_hd 40 s then
    match p_version_many (length (rest s)) [] (skip_ws (drop1 s)) with
    | Some (t, s1) => let s2 := skip_ws s1 in if is_hd 41 s2 then Some (t, drop1 s2) else None
    | None => None end
  else match p_version_many (length (rest s)) [] (skip_ws s) with Some (t, s1) => Some (t, skip_ws s1) | None => None end.

Fixpoint p_extras_more (fuel : nat) (acc : list MText.str) (s : st) : option (list MText.str * st) :=
  match fuel with O => None | S f =>
    let s := skip_ws s in
    match p_ident s with
    | Some _ => None                                    (* "Expected comma between extra names" *)
    | None => if is_hd 44 s then
                let s1 := skip_ws (drop1 s) in
                match p_ident s1 with Some (e, s2) => p_extras_more f (acc ++ [e]) s2 | None => None end
              else Some (acc, s)
    end
  end.
Definition p_extras (s : st) : option (list MText.str * st) :=
  if is_hd 91 s then
    let s1 := skip_ws (drop1 s) in
    match (match p_ident s1 with Some (e, s2) => p_extras_more (length (rest s2) + 1) [e] s2 | None => Some ([], s1) end) with
    | Some (es, s3) => let s4 := skip_ws s3 in if is_hd 93 s4 then Some (es, drop1 s4) else None
    | None => None end
  else Some ([], s).

Definition p_req_marker (s : st) : option (list elem * st) :=
  if is_hd 59 s then match p_marker (S (length (rest s))) (drop1 s) with Some (m, s') => Some (m, skip_ws s') | None => None end
  else None.
Record req := { r_name : MText.str; r_url : MText.str; r_extras : list MText.str; r_spec : MText.str; r_marker : option (list elem) }.
Definition not_blank (c : char) := negb (is_wsb c).
Definition parse_requirement (src : MText.str) : option req :=
  let s := skip_ws {| prev := None; rest := src |} in
  match p_ident s with None => None | Some (name, s) =>
  let s := skip_ws s in
  match p_extras s with None => None | Some (extras, s) =>
  let s := skip_ws s in
  let finish (url spec : MText.str) (m : option (list elem)) (s : st) :=
     if at_end s then Some {| r_name := name; r_url := url; r_extras := extras; r_spec := spec; r_marker := m |} else None in
  if is_hd 64 s then
    let s := skip_ws (drop1 s) in
    let '(url, r) := MText.span not_blank (rest s) in
    match url with [] => None | _ =>
      let s := adv s url r in
      if at_end s then finish url [] None s else
      let '(w, r') := MText.span is_wsb (rest s) in
      match w with [] => None | _ =>
        let s := adv s w r' in
        if at_end s then finish url [] None s else
        match p_req_marker s with Some (m, s) => finish url [] (Some m) s | None => None end
      end
    end
  else
    match p_specifier s with None => None | Some (spec, s) =>
      let s := skip_ws s in
      if at_end s then finish [] spec None s else
      match p_req_marker s with Some (m, s) => finish [] spec (Some m) s | None => None end
    end
  end end.
