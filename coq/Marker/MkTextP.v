(* C07 / C09 at text level: every layout of a formula tree parses to the flattening of that tree, evaluates to the value
   of that tree, and two layouts of one structure are equal markers. *)
From Coq Require Import List Arith NArith Bool Lia.
Import ListNotations.
Require Import MText MRound MRound2 MRound3 MkModel MkEval MkEvalP MkGroupsP MkFmtP MkShapeP MkRoundP MkLexP MkLayoutP.
Require Names NamesLaws.
Open Scope N_scope.
Arguments N.eqb : simpl never.
Arguments N.leb : simpl never.

(* ---------------- texts of a formula tree ---------------- *)
Inductive RForm : form -> str -> Prop :=
| RFAtom l o r t : RAtom (Item l o r) t -> RForm (FAtom l o r) t
| RFParen f t g1 g2 : RForm f t -> is_ws_str g1 = true -> is_ws_str g2 = true -> RForm (FParen f) (40 :: g1 ++ t ++ g2 ++ [41])
| RFAnd f g tf tg g1 g2 : RForm f tf -> RForm g tg -> is_ws_str g1 = true -> is_ws_str g2 = true ->
    sep_ok tf g1 w_and -> sep_ok w_and g2 tg -> RForm (FAnd f g) (tf ++ g1 ++ w_and ++ g2 ++ tg)
| RFOr f g tf tg g1 g2 : RForm f tf -> RForm g tg -> is_ws_str g1 = true -> is_ws_str g2 = true ->
    sep_ok tf g1 w_or -> sep_ok w_or g2 tg -> RForm (FOr f g) (tf ++ g1 ++ w_or ++ g2 ++ tg).

Lemma sep_ok_l a b g y : b <> [] -> sep_ok (a ++ b) g y -> sep_ok b g y.
Proof. intros Nb H E. apply H. now rewrite ends_word_app. Qed.
Lemma sep_ok_r x g a b : a <> [] -> sep_ok x g a -> sep_ok x g (a ++ b).
Proof. intros Na H E S. apply H; auto. now rewrite starts_word_app in S. Qed.

Lemma RList_app m1 t1 : RList m1 t1 -> forall m2 t2 w g1 g2, RList m2 t2 -> In w bool_alts ->
  is_ws_str g1 = true -> is_ws_str g2 = true -> sep_ok t1 g1 w -> sep_ok w g2 t2 ->
  RList (m1 ++ BoolOp w :: m2) (t1 ++ g1 ++ w ++ g2 ++ t2).
Proof.
  induction 1 as [a t Ha | a ta h1 w' h2 m tm Ha Hw' Hm IH W1 W2 S1 S2]; intros m2 t2 w g1 g2 H2 Hw G1 G2 T1 T2.
  - cbn [app]. now apply RCons.
  - destruct (list_text _ _ Hm) as [Nm _].
    replace ((ta ++ h1 ++ w' ++ h2 ++ tm) ++ g1 ++ w ++ g2 ++ t2) with (ta ++ h1 ++ w' ++ h2 ++ (tm ++ g1 ++ w ++ g2 ++ t2))
      by (now rewrite <- !app_assoc).
    cbn [app]. apply RCons; auto.
    + apply IH; auto. rewrite !app_assoc in T1. eapply sep_ok_l; eauto.
    + now apply sep_ok_r.
Qed.

Theorem form_renders f t : RForm f t -> RList (flat f) t.
Proof.
  induction 1 as [l o r t Ha | f t g1 g2 Hf IH W1 W2 | f g tf tg g1 g2 Hf IHf Hg IHg W1 W2 S1 S2 | f g tf tg g1 g2 Hf IHf Hg IHg W1 W2 S1 S2]; cbn [flat].
  - now apply ROne.
  - apply ROne. now apply RNest.
  - apply RList_app; auto. right. now left.
  - apply RList_app; auto. now left.
Qed.

(* every layout of the tree parses to the flattening of the tree *)
Theorem layout_formula f t g0 g3 nl : RForm f t -> is_ws_str g0 = true -> is_ws_str g3 = true -> nl = [] \/ nl = [10] ->
  parse_marker_nl (g0 ++ t ++ g3 ++ nl) = Some (flat f).
Proof. intros H. apply layout_parse. now apply form_renders. Qed.

(* ---------------- _normalize_extra_values does not change the value of a marker ---------------- *)
Lemma eval_norm_item env l o r : geval_e (eval_item env) (norm_item l o r) = eval_item env l o r.
Proof.
  unfold norm_item. destruct (is_extra l) eqn:El.
  - destruct r as [n|v]; [reflexivity|]. cbn [geval_e]. unfold eval_item. cbn [side_value].
    destruct (side_value env l) as [a|]; [|reflexivity].
    assert (K : str_eqb (env_key l (SVal (Names.canon_name v))) w_extra = true) by (rewrite env_key_extra, El; reflexivity).
    assert (K' : str_eqb (env_key l (SVal v)) w_extra = true) by (rewrite env_key_extra, El; reflexivity).
    unfold normalize. rewrite K, K'. now rewrite NamesLaws.canon_idempotent.
  - destruct (is_extra r) eqn:Er; [|reflexivity].
    destruct l as [n|v]; [reflexivity|]. cbn [geval_e]. unfold eval_item. cbn [side_value].
    destruct (side_value env r) as [b|]; [|reflexivity].
    assert (K : str_eqb (env_key (SVal (Names.canon_name v)) r) w_extra = true) by (rewrite env_key_extra, Er; reflexivity).
    assert (K' : str_eqb (env_key (SVal v) r) w_extra = true) by (rewrite env_key_extra, Er; reflexivity).
    unfold normalize. rewrite K, K'. now rewrite NamesLaws.canon_idempotent.
Qed.
Lemma norm_is_bool e : is_bool (norm_e e) = is_bool e.
Proof. destruct e as [l o r| |]; try reflexivity. cbn [norm_e]. destruct (norm_item_item l o r) as (l' & r' & ->). reflexivity. Qed.
Lemma eval_norm env : forall e, geval_e (eval_item env) (norm_e e) = geval_e (eval_item env) e.
Proof.
  induction e as [l o r | w | m IH] using elem_ind'; try reflexivity.
  - apply eval_norm_item.
  - cbn [norm_e]. rewrite !geval_nested. unfold geval_markers. apply geval_go_map; auto. apply norm_is_bool.
Qed.
Theorem eval_norm_l env m : eval_markers env (norm_l m) = eval_markers env m.
Proof.
  unfold eval_markers. change (eval_go env (norm_l m) true false) with (geval_markers (eval_item env) (norm_l m)).
  change (eval_go env m true false) with (geval_markers (eval_item env) m).
  rewrite <- !geval_nested. change (Nested (norm_l m)) with (norm_e (Nested m)). apply eval_norm.
Qed.

(* ---------------- the text-level statement of C07 ---------------- *)
(* any layout of a formula tree whose literals are PEP 508 strings is accepted, and under every environment it
   evaluates to the value of the tree: first exception in text order, else the boolean value with 'and' above 'or' *)
Theorem text_semantics f t g0 g3 nl : RForm f t -> no_bare_or f = true -> lit_class (flat f) = LOk ->
  is_ws_str g0 = true -> is_ws_str g3 = true -> nl = [] \/ nl = [10] ->
  exists m, Marker (g0 ++ t ++ g3 ++ nl) = MOk m /\ forall env, eval_markers env m = den (eval_item env) f.
Proof.
  intros HR Hf HL W0 W3 Hnl. exists (norm_l (flat f)). split.
  - unfold Marker. rewrite (layout_formula f t g0 g3 nl HR W0 W3 Hnl). now rewrite HL.
  - intros env. rewrite eval_norm_l. now apply (groups_are_or_of_ands (eval_item env) f).
Qed.

(* ---------------- the text-level statement of the C09 variants ---------------- *)
(* two texts of one structure - they differ in whitespace, quote style, spelling of variables - construct the same Marker *)
Theorem layout_variants m t1 t2 g0 g3 nl g0' g3' nl' : RList m t1 -> RList m t2 ->
  is_ws_str g0 = true -> is_ws_str g3 = true -> nl = [] \/ nl = [10] ->
  is_ws_str g0' = true -> is_ws_str g3' = true -> nl' = [] \/ nl' = [10] ->
  Marker (g0 ++ t1 ++ g3 ++ nl) = Marker (g0' ++ t2 ++ g3' ++ nl').
Proof.
  intros H1 H2 A B C A' B' C'. unfold Marker.
  now rewrite (layout_parse m t1 g0 g3 nl H1 A B C), (layout_parse m t2 g0' g3' nl' H2 A' B' C').
Qed.
(* with redundant parentheses and extra-name spellings on top: structures that normalise and peel to the same thing *)
Theorem layout_variants_eq m1 m2 t1 t2 : RList m1 t1 -> RList m2 t2 -> lit_class m1 = LOk -> lit_class m2 = LOk ->
  peel_top (norm_l m1) = peel_top (norm_l m2) ->
  exists a b, Marker t1 = MOk a /\ Marker t2 = MOk b /\ marker_eq a b = true.
Proof.
  intros H1 H2 L1 L2 E.
  pose proof (layout_parse m1 t1 [] [] [] H1 eq_refl eq_refl (or_introl eq_refl)) as P1.
  pose proof (layout_parse m2 t2 [] [] [] H2 eq_refl eq_refl (or_introl eq_refl)) as P2.
  cbn [app] in P1, P2. rewrite !app_nil_r in P1, P2.
  exists (norm_l m1), (norm_l m2). unfold Marker. rewrite P1, P2, L1, L2. repeat split.
  apply parse_marker_nl_shape in P1, P2.
  apply (variant_peel_equal (Nat.max (S (length t1)) (S (length t2)))); auto.
  - apply norm_l_shape. eapply alt_impl; [|exact P1]. intros e He.
    assert (G : forall d d' e, (d <= d')%nat -> pfa d e -> pfa d' e) by (intros d d' e0 Hle; induction Hle; auto; intros; apply pfa_mono; auto).
    eapply G; [|exact He]. lia.
  - apply norm_l_shape. eapply alt_impl; [|exact P2]. intros e He.
    assert (G : forall d d' e, (d <= d')%nat -> pfa d e -> pfa d' e) by (intros d d' e0 Hle; induction Hle; auto; intros; apply pfa_mono; auto).
    eapply G; [|exact He]. lia.
Qed.
Print Assumptions text_semantics.
Print Assumptions layout_variants_eq.
