From Coq Require Import List Bool Lia.
Import ListNotations.

Section M.
Variable atom : Type.
Variable ev : atom -> bool.   (* _eval_op on one (lhs, op, rhs) under a fixed environment; exceptions handled one level up *)

(* the structure _parse_marker builds: items, "and"/"or" strings, nested lists *)
Inductive elem := Item (a : atom) | Nested (l : list elem) | And_ | Or_.

(* _evaluate_markers: groups = [[]]; items appended to the last group; "or" opens a new group;
   result any(all(g) for g in groups).  [cur] = all() of the last group so far, [acc] = any() of the closed groups *)
Fixpoint eval_elem (e : elem) : bool :=
  match e with
  | Item a => ev a
  | Nested l =>
      (fix go (l : list elem) (cur acc : bool) : bool :=
         match l with
         | [] => acc || cur
         | Or_ :: t => go t true (acc || cur)
         | And_ :: t => go t cur acc
         | e :: t => go t (cur && eval_elem e) acc
         end) l true false
  | And_ | Or_ => true    (* never evaluated: the code asserts marker in ["and","or"] and skips it *)
  end.
Fixpoint go (l : list elem) (cur acc : bool) : bool :=
  match l with
  | [] => acc || cur
  | Or_ :: t => go t true (acc || cur)
  | And_ :: t => go t cur acc
  | e :: t => go t (cur && eval_elem e) acc
  end.
Definition eval_markers (l : list elem) : bool := go l true false.
Lemma eval_nested l : eval_elem (Nested l) = eval_markers l.
Proof.
  unfold eval_markers. cbn [eval_elem].
  match goal with |- ?f l true false = _ => enough (H : forall cur acc, f l cur acc = go l cur acc) by apply H end.
  induction l as [|e t IH]; intros cur acc; [reflexivity|]. destruct e; cbn [go]; apply IH.
Qed.

(* spec: formulas; "and" binds tighter than "or"; parentheses group *)
Inductive form := FAtom (a : atom) | FAnd (f g : form) | FOr (f g : form) | FParen (f : form).
Fixpoint den (f : form) : bool :=
  match f with FAtom a => ev a | FAnd f g => den f && den g | FOr f g => den f || den g | FParen f => den f end.

(* what the parser returns for the text of f, where an "or" directly under an "and" must have been parenthesised
   in the text (otherwise the text would denote a different formula) *)
Fixpoint flat (f : form) : list elem :=
  match f with
  | FAtom a => [Item a]
  | FParen f => [Nested (flat f)]
  | FOr f g => flat f ++ Or_ :: flat g
  | FAnd f g => flat f ++ And_ :: flat g
  end.
Fixpoint no_bare_or (f : form) : bool :=        (* FOr does not occur as an operand of FAnd without FParen *)
  match f with
  | FAtom _ => true | FParen f => no_bare_or f
  | FOr f g => no_bare_or f && no_bare_or g
  | FAnd f g => conj_only f && conj_only g
  end
with conj_only (f : form) : bool :=
  match f with
  | FAtom _ => true | FParen f => no_bare_or f
  | FOr _ _ => false
  | FAnd f g => conj_only f && conj_only g
  end.

Lemma conj_nbo f : conj_only f = true -> no_bare_or f = true.
Proof. induction f; cbn; auto; try discriminate. Qed.

(* state transformer of the groups algorithm over the flattened formula *)
Fixpoint st (f : form) (s : bool * bool) : bool * bool :=
  match f with
  | FAtom a => (fst s && ev a, snd s)
  | FParen f => (fst s && den f, snd s)
  | FAnd f g => st g (st f s)
  | FOr f g => let s1 := st f s in st g (true, snd s1 || fst s1)
  end.

Lemma go_app_and l r : forall cur acc, go (l ++ And_ :: r) cur acc = go (l ++ r) cur acc.
Proof. induction l as [|e l IH]; intros; cbn [app go]; [reflexivity|]. destruct e; cbn [go]; apply IH. Qed.

Lemma main f :
  (no_bare_or f = true ->
     (forall r cur acc, go (flat f ++ r) cur acc = go r (fst (st f (cur, acc))) (snd (st f (cur, acc)))) /\
     (forall acc, snd (st f (true, acc)) || fst (st f (true, acc)) = acc || den f)) /\
  (conj_only f = true -> forall cur acc, st f (cur, acc) = (cur && den f, acc)).
Proof.
  induction f as [a | f IHf g IHg | f IHf g IHg | f IHf].
  - (* atom *) repeat split; intros; cbn; auto.
  - (* and *) destruct IHf as [Af Cf], IHg as [Ag Cg]. split.
    + intros H. cbn in H. apply andb_prop in H as [Hf Hg].
      destruct (Af (conj_nbo _ Hf)) as [A1 _], (Ag (conj_nbo _ Hg)) as [A2 _]. split.
      * intros r cur acc. cbn [flat st]. rewrite <- app_assoc. cbn [app].
        rewrite A1. cbn [go]. rewrite A2. destruct (st f (cur, acc)); reflexivity.
      * intros acc. cbn [st den]. rewrite (Cf Hf), (Cg Hg). cbn. reflexivity.
    + intros H. cbn in H. apply andb_prop in H as [Hf Hg]. intros cur acc. cbn [st den].
      rewrite (Cf Hf), (Cg Hg). now rewrite andb_assoc.
  - (* or *) destruct IHf as [Af _], IHg as [Ag _]. split; [|discriminate].
    intros H. cbn in H. apply andb_prop in H as [Hf Hg].
    destruct (Af Hf) as [A1 B1], (Ag Hg) as [A2 B2]. split.
    + intros r cur acc. cbn [flat st]. rewrite <- app_assoc. cbn [app].
      rewrite A1. cbn [go]. rewrite A2. reflexivity.
    + intros acc. cbn [st den]. rewrite B2, B1. now rewrite orb_assoc.
  - (* paren *) destruct IHf as [Af _].
    assert (E : no_bare_or f = true -> eval_elem (Nested (flat f)) = den f).
    { intros H. destruct (Af H) as [A1 B1]. rewrite eval_nested. unfold eval_markers.
      rewrite <- (app_nil_r (flat f)), A1. cbn [go]. rewrite B1. reflexivity. }
    split.
    + intros H. cbn in H. split.
      * intros r cur acc. cbn [flat app go st fst snd]. now rewrite (E H).
      * intros acc. cbn. reflexivity.
    + intros H cur acc. reflexivity.
Qed.

Theorem C07_groups_are_or_of_ands f : no_bare_or f = true -> eval_markers (flat f) = den f.
Proof.
  intros H. destruct (main f) as [M _]. destruct (M H) as [A B]. unfold eval_markers.
  rewrite <- (app_nil_r (flat f)), A. cbn [go]. rewrite B. reflexivity.
Qed.
End M.
Print Assumptions C07_groups_are_or_of_ands.
