(* Marker construction and string form, as the code is now (markers.py, _parser.py after the fix: commits).
   Definitions only (this file is extracted).  The tokenizer / recursive-descent grammar is MText.p_marker.

   Marker.__init__      = _normalize_extra_values(parse_marker(s)), ParserSyntaxError -> InvalidMarker      -> Marker
   process_python_str   = ast.literal_eval on the quoted token: an ORACLE.  On a token whose body has no backslash it is the
                          identity on the body, except that NUL, LF and CR make it raise (SyntaxError/ValueError, which
                          _parse_marker_var now turns into a syntax error).  Checked over every code point, both quotes.
                          A body containing a backslash is outside the modelled domain (MOracle).
   Marker.__str__       = _format_marker(self._markers)                                                    -> format_marker
   Marker.__eq__/hash   = on str(self)                                                                     -> marker_eq *)
From Coq Require Import List Arith NArith Bool.
Import ListNotations.
Require Import MText.
Require Names.
Open Scope N_scope.

Definition w_extra : str := [101;120;116;114;97].
Definition w_and : str := [97;110;100].
Definition w_or : str := [111;114].

(* ---- parse_marker: _parse_full_marker expects END = "$", which also matches just before a final "\n" ---- *)
Definition parse_marker_nl (src : str) : option (list elem) :=
  match p_marker (S (length src)) {| prev := None; rest := src |} with
  | Some (m, s) => match rest s with [] => Some m | [c] => if c =? 10 then Some m else None | _ => None end
  | None => None
  end.

(* ---- the operands of a structure, in text order ---- *)
Fixpoint sides_e (e : elem) : list side :=
  match e with
  | Item l _ r => [l; r]
  | Nested m => (fix go (m : list elem) : list side := match m with [] => [] | x :: t => sides_e x ++ go t end) m
  | BoolOp _ => []
  end.
Fixpoint sides_l (m : list elem) : list side := match m with [] => [] | x :: t => sides_e x ++ sides_l t end.
Fixpoint lits (l : list side) : list str :=
  match l with [] => [] | SVal v :: t => v :: lits t | SVar _ :: t => lits t end.

(* ---- ast.literal_eval on the quoted tokens (oracle boundary) ---- *)
Inductive lclass := LOk | LInvalid | LOracle.
Definition has_char (c0 : char) (s : str) : bool := existsb (N.eqb c0) s.
Definition lit_bad (v : str) : bool := has_char 0 v || has_char 10 v || has_char 13 v.
Definition lit_class (m : list elem) : lclass :=
  let ls := lits (sides_l m) in
  if existsb (has_char 92) ls then LOracle
  else if existsb lit_bad ls then LInvalid
  else LOk.

(* ---- _normalize_extra_values: every (extra, op, Value) / (Value, op, extra) item, at any depth ---- *)
Definition is_extra (x : side) : bool := match x with SVar n => str_eqb n w_extra | SVal _ => false end.
Definition norm_item (l : side) (o : str) (r : side) : elem :=
  if is_extra l then
    match r with SVal v => Item l o (SVal (Names.canon_name v)) | SVar _ => Item l o r end
  else if is_extra r then
    match l with SVal v => Item (SVal (Names.canon_name v)) o r | SVar _ => Item l o r end
  else Item l o r.
Fixpoint norm_e (e : elem) : elem :=
  match e with
  | Item l o r => norm_item l o r
  | Nested m => Nested (map norm_e m)
  | BoolOp w => BoolOp w
  end.
Definition norm_l (m : list elem) : list elem := map norm_e m.

Inductive mres := MOk (m : list elem) | MInvalid | MOracle.
Definition Marker (s : str) : mres :=
  match parse_marker_nl s with
  | None => MInvalid
  | Some m => match lit_class m with LOk => MOk (norm_l m) | LInvalid => MInvalid | LOracle => MOracle end
  end.

(* ---- Value.serialize / Variable.serialize / Op.serialize ---- *)
Definition ser_quote (v : str) : char := if has_char 34 v && negb (has_char 39 v) then 39 else 34.
Definition ser_side (x : side) : str := match x with SVar n => n | SVal v => ser_quote v :: v ++ [ser_quote v] end.

Fixpoint join_sp (l : list str) : str :=
  match l with [] => [] | [x] => x | x :: t => x ++ 32 :: join_sp t end.

(* ---- _format_marker(marker, first): a list is [Nested m], a tuple an Item, a str a BoolOp ---- *)
Fixpoint fmt_e (first : bool) (e : elem) {struct e} : str :=
  match e with
  | Item l o r => join_sp [ser_side l; o; ser_side r]
  | BoolOp w => w
  | Nested m =>
      match m with
      | [Item _ _ _ as x] => fmt_e first x            (* single-item list holding a tuple *)
      | [Nested _ as x] => fmt_e first x              (* single-item list holding a list *)
      | _ => let inner := join_sp (map (fmt_e false) m) in
             if first then inner else 40 :: inner ++ [41]
      end
  end.
Definition format_marker (m : list elem) : str := fmt_e true (Nested m).

(* Marker.__eq__ : str(self) == str(other);  __hash__ : hash((class name, str(self))), a function of str(self) *)
Definition marker_eq (a b : list elem) : bool := str_eqb (format_marker a) (format_marker b).
