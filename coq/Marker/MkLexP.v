(* Lexing lemmas with arbitrary layout: whitespace gaps, either quote, every spelling of a variable, all ten operators.
   Everything is stated on the tokenizer state {| prev; rest |} and says: the token is read back, exactly its text is
   consumed, whatever surrounds it - provided word characters on both sides of a token border are separated. *)
From Coq Require Import List Arith NArith Bool Lia.
Import ListNotations.
Require Import MText MRound MRound2 MRound3 MkModel.
Open Scope N_scope.
Arguments N.eqb : simpl never.
Arguments N.leb : simpl never.

Ltac nrm := change str with (list N) in *; change char with N in *.
Ltac rwn H := let E := fresh "E" in pose proof H as E; change str with (list N) in E; change char with N in E; rewrite E; clear E.
Ltac evn := repeat match goal with |- context [N.eqb ?a ?b] =>
   let v := eval vm_compute in (N.eqb a b) in
   match v with true => change (N.eqb a b) with true | false => change (N.eqb a b) with false end end.

(* ---------------- ends of texts ---------------- *)
Definition starts_word (t : str) : bool := wordness (hd_opt t).
Definition ends_word (t : str) : bool := wordness (last_opt None t).
Definition is_ws_str (g : str) : bool := forallb is_wsb g.
(* a gap is needed only between two word characters *)
Definition sep_ok (x g y : str) : Prop := ends_word x = true -> starts_word y = true -> g <> [].

Lemma last_opt_some p t : t <> [] -> last_opt p t = last_opt None t.
Proof. destruct t; [congruence|reflexivity]. Qed.
Lemma wordness_last p t : t <> [] -> wordness (last_opt p t) = ends_word t.
Proof. intros H. unfold ends_word. now rewrite (last_opt_some p t H). Qed.
Lemma ws_not_word c : is_wsb c = true -> is_word c = false.
Proof. unfold is_wsb. intros H. apply orb_prop in H as [H|H]; apply N.eqb_eq in H; subst; reflexivity. Qed.

Lemma gap_last p g : is_ws_str g = true -> wordness (last_opt p g) = if match g with [] => true | _ => false end then wordness p else false.
Proof.
  revert p. induction g as [|c g IH]; intros p H; [reflexivity|]. cbn in H. apply andb_prop in H as [Hc Hg].
  cbn [last_opt]. rewrite IH by exact Hg. destruct g; [cbn; now apply ws_not_word | reflexivity].
Qed.
Lemma gap_hd g Y : is_ws_str g = true -> wordness (hd_opt (g ++ Y)) = if match g with [] => true | _ => false end then wordness (hd_opt Y) else false.
Proof. destruct g as [|c g]; [reflexivity|]. cbn. intros H. apply andb_prop in H as [Hc _]. now apply ws_not_word. Qed.
Definition hd_not_ws (Y : str) : Prop := match Y with c :: _ => is_wsb c = false | [] => True end.
Lemma skip_gap p g Y : is_ws_str g = true -> hd_not_ws Y -> skip_ws {| prev := p; rest := g ++ Y |} = {| prev := last_opt p g; rest := Y |}.
Proof.
  intros Hg HY. unfold skip_ws. cbn [rest].
  assert (E : span is_wsb (g ++ Y) = (g, Y)).
  { clear p. induction g as [|c g IH]; cbn [app span].
    - destruct Y as [|c Y]; [reflexivity|]. cbn [span]. cbn in HY. now rewrite HY.
    - cbn in Hg. apply andb_prop in Hg as [Hc Hg]. rewrite Hc, (IH Hg). reflexivity. }
  rewrite E. reflexivity.
Qed.
Lemma sep_prev p x g : x <> [] -> is_ws_str g = true -> (ends_word x = true -> g <> []) -> wordness (last_opt (last_opt p x) g) = false.
Proof.
  intros Hx Hg H. rewrite gap_last by exact Hg. destruct g; [|reflexivity]. rewrite wordness_last by exact Hx.
  destruct (ends_word x); [exfalso; now apply H|reflexivity].
Qed.
Lemma sep_next g Y : is_ws_str g = true -> (starts_word Y = true -> g <> []) -> wordness (hd_opt (g ++ Y)) = false.
Proof.
  intros Hg H. rewrite gap_hd by exact Hg. destruct g; [|reflexivity]. fold (starts_word Y). destruct (starts_word Y); [exfalso; now apply H|reflexivity].
Qed.
Lemma hd_app_ne (a b : str) : a <> [] -> hd_opt (a ++ b) = hd_opt a.
Proof. destruct a; [congruence|reflexivity]. Qed.
Lemma starts_word_app a b : a <> [] -> starts_word (a ++ b) = starts_word a.
Proof. intros H. unfold starts_word. now rewrite hd_app_ne. Qed.
Lemma ends_word_app a b : b <> [] -> ends_word (a ++ b) = ends_word b.
Proof. intros H. unfold ends_word. rewrite last_opt_app. now apply wordness_last. Qed.

(* ---------------- \b(w1|w2|...)\b with alternatives none of which is a prefix of another ---------------- *)
Fixpoint clash (a b : str) : bool :=       (* a and b differ at a position both have *)
  match a, b with x :: a', y :: b' => negb (x =? y) || clash a' b' | _, _ => false end.
Lemma clash_starts a : forall b X, clash a b = true -> starts a (b ++ X) = None.
Proof.
  induction a as [|x a IH]; intros [|y b] X H; cbn in H; try discriminate.
  cbn [app starts]. destruct (y =? x) eqn:E.
  - apply N.eqb_eq in E. subst y. rewrite N.eqb_refl in H. cbn in H. now apply IH.
  - reflexivity.
Qed.
Lemma starts_self w X : starts w (w ++ X) = Some X.
Proof. induction w as [|c w IH]; [reflexivity|]. cbn [app starts]. now rewrite N.eqb_refl. Qed.
Definition others_clash (ws : list str) (w : str) : bool := forallb (fun w' => str_eqb w' w || clash w' w) ws.
Lemma str_eqb_true a : forall b, str_eqb a b = true -> a = b.
Proof.
  induction a as [|x a IH]; intros [|y b]; cbn; try discriminate; auto.
  intros H. apply andb_prop in H as [H1 H2]. apply N.eqb_eq in H1. f_equal; auto.
Qed.
Lemma first_bword_hit ws w p X : In w ws -> others_clash ws w = true ->
  boundary (last_opt p w) (hd_opt X) = true ->
  first_bword ws {| prev := p; rest := w ++ X |} = Some (w, {| prev := last_opt p w; rest := X |}).
Proof.
  intros Hin Hc Hb. induction ws as [|w0 ws IH]; [contradiction|].
  cbn [others_clash forallb] in Hc. apply andb_prop in Hc as [H0 Hc]. cbn [first_bword rest prev].
  apply orb_prop in H0 as [H0|H0].
  - apply str_eqb_true in H0. subst w0. rewrite starts_self, Hb. reflexivity.
  - rewrite (clash_starts _ _ _ H0). destruct Hin as [->|Hin].
    + (* w0 = w clashes with itself: impossible *)
      exfalso. clear -H0. induction w as [|c w IH]; cbn in H0; [discriminate|]. rewrite N.eqb_refl in H0. cbn in H0. auto.
    + now apply IH.
Qed.
Lemma bword_hit ws w p X : In w ws -> others_clash ws w = true -> w <> [] ->
  starts_word w = true -> ends_word w = true -> wordness p = false -> wordness (hd_opt X) = false ->
  bword ws {| prev := p; rest := w ++ X |} = Some (w, {| prev := last_opt p w; rest := X |}).
Proof.
  intros Hin Hc Hne Hs He Hp HX. unfold bword. cbn [prev rest]. rewrite hd_app_ne by exact Hne.
  unfold boundary at 1. rewrite Hp. fold (starts_word w). rewrite Hs. cbn [xorb].
  apply first_bword_hit; auto. unfold boundary. rewrite wordness_last by exact Hne. rewrite He, HX. reflexivity.
Qed.
(* no alternative starts like the text: the rule does not match, whatever precedes *)
Lemma bword_miss ws s : (forall w, In w ws -> starts w (rest s) = None) -> bword ws s = None.
Proof.
  intros H. unfold bword. destruct (boundary _ _); [|reflexivity].
  induction ws as [|w ws IH]; [reflexivity|]. cbn [first_bword]. rewrite (H w) by now left. apply IH. intros; apply H; now right.
Qed.
Definition hd_differs (c : char) (w : str) : bool := match w with x :: _ => negb (c =? x) | [] => false end.
Lemma starts_hd_differs c Y w : hd_differs c w = true -> starts w (c :: Y) = None.
Proof. destruct w as [|x w]; [discriminate|]. cbn. intros H. apply negb_true_iff in H. now rewrite H. Qed.
Lemma bword_miss_hd ws p c Y : forallb (hd_differs c) ws = true -> bword ws {| prev := p; rest := c :: Y |} = None.
Proof. intros H. apply bword_miss. cbn [rest]. intros w Hw. apply starts_hd_differs. rewrite forallb_forall in H. auto. Qed.
Lemma bword_miss_nil ws p : forallb (fun w => match w with [] => false | _ => true end) ws = true -> bword ws {| prev := p; rest := [] |} = None.
Proof. intros H. apply bword_miss. cbn [rest]. intros w Hw. rewrite forallb_forall in H. specialize (H w Hw). destruct w; [discriminate|reflexivity]. Qed.

(* ---------------- operands ---------------- *)
Inductive RSide : side -> str -> Prop :=
| RVar w : In w var_alts -> RSide (SVar (norm_var w)) w                    (* any spelling of the alternation *)
| RVal q v : q = 34 \/ q = 39 -> has q v = false -> RSide (SVal v) (q :: v ++ [q]).   (* either quote, if absent from the literal *)

Lemma var_alts_props : forall w, In w var_alts ->
  others_clash var_alts w = true /\ w <> [] /\ starts_word w = true /\ ends_word w = true /\
  hd_not_ws w /\ hd_is_c 40 w = false /\ hd_is_c 61 w = false.
Proof.
  assert (H : forallb (fun w => others_clash var_alts w && negb (str_eqb w []) && starts_word w && ends_word w &&
                               match w with c :: _ => negb (is_wsb c) | [] => false end && negb (hd_is_c 40 w) && negb (hd_is_c 61 w)) var_alts = true)
    by (vm_compute; reflexivity).
  rewrite forallb_forall in H. intros w Hw. specialize (H w Hw).
  apply andb_prop in H as [H H7]. apply andb_prop in H as [H H6]. apply andb_prop in H as [H H5].
  apply andb_prop in H as [H H4]. apply andb_prop in H as [H H3]. apply andb_prop in H as [H1 H2].
  split; [exact H1|]. split; [intros ->; discriminate|]. split; [exact H3|]. split; [exact H4|].
  split; [destruct w; [discriminate|]; cbn; now apply negb_true_iff|]. split; now apply negb_true_iff.
Qed.
Lemma side_nonempty x t : RSide x t -> t <> [].
Proof. intros [w Hw | q v Hq Hv]; [apply (var_alts_props w Hw) | discriminate]. Qed.
Lemma side_heads x t : RSide x t -> hd_not_ws t /\ hd_is_c 40 t = false /\ hd_is_c 61 t = false.
Proof.
  intros [w Hw | q v Hq Hv]; [apply (var_alts_props w Hw)|]. cbn. destruct Hq as [-> | ->]; repeat split; reflexivity.
Qed.
Lemma quote_ends q v : q = 34 \/ q = 39 -> starts_word (q :: v ++ [q]) = false /\ ends_word (q :: v ++ [q]) = false.
Proof.
  intros Hq. split; [destruct Hq as [-> | ->]; reflexivity|].
  change (q :: v ++ [q]) with ((q :: v) ++ [q]). rewrite ends_word_app by discriminate. destruct Hq as [-> | ->]; reflexivity.
Qed.

(* an operand is read back, and exactly its text is consumed *)
Lemma p_var_side x t p X : RSide x t ->
  (starts_word t = true -> wordness p = false) -> (ends_word t = true -> wordness (hd_opt X) = false) ->
  p_var {| prev := p; rest := t ++ X |} = Some (x, {| prev := last_opt p t; rest := X |}).
Proof.
  intros [w Hw | q v Hq Hv] Hp HX.
  - destruct (var_alts_props w Hw) as (C & Ne & S & E & _). unfold p_var.
    rewrite (bword_hit var_alts w p X Hw C Ne S E (Hp S) (HX E)). reflexivity.
  - unfold p_var. cbn [app].
    assert (M : forall Y, bword var_alts {| prev := p; rest := q :: Y |} = None).
    { intros Y. apply bword_miss_hd. destruct Hq as [-> | ->]; vm_compute; reflexivity. }
    rewrite M.
    unfold p_quoted. cbn [rest].
    assert (Q : (q =? 39) || (q =? 34) = true) by (destruct Hq as [-> | ->]; reflexivity). rewrite Q.
    rewrite <- app_assoc. cbn [app]. rewrite span_until by exact Hv.
    reflexivity.
Qed.

(* ---------------- operators ---------------- *)
Inductive ROp : str -> str -> Prop :=
| RSym o : In o op_alts -> ROp o o
| RIn : ROp w_in w_in
| RNotIn g : g <> [] -> is_ws_str g = true -> ROp w_not_in (w_not ++ g ++ w_in).

Lemma op_nonempty o t : ROp o t -> t <> [].
Proof. intros [o' H | | g Hg Hw]; try discriminate. unfold op_alts in H. cbn [In] in H. repeat (destruct H as [<-|H]; [discriminate|]). contradiction. Qed.
Lemma op_heads o t : ROp o t -> hd_not_ws t.
Proof. intros [o' H | | g Hg Hw]; try reflexivity. unfold op_alts in H. cbn [In] in H. repeat (destruct H as [<-|H]; [reflexivity|]). contradiction. Qed.
Lemma sym_ends o : In o op_alts -> starts_word o = false /\ ends_word o = false.
Proof. unfold op_alts. cbn [In]. intros H. repeat (destruct H as [<-|H]; [split; reflexivity|]). contradiction. Qed.

Definition hd_not_eq (Y : str) : Prop := match Y with c :: _ => (c =? 61) = false | [] => True end.

Lemma bword_in_hit p Y : wordness p = false -> wordness (hd_opt Y) = false ->
  bword [w_in] {| prev := p; rest := w_in ++ Y |} = Some (w_in, {| prev := Some 110; rest := Y |}).
Proof. intros Hp HY. apply bword_hit; [now left | reflexivity | discriminate | reflexivity | reflexivity | exact Hp | exact HY]. Qed.

Lemma p_op_tok o t p Y : ROp o t ->
  (starts_word t = true -> wordness p = false) -> (ends_word t = true -> wordness (hd_opt Y) = false) -> hd_not_eq Y ->
  p_op {| prev := p; rest := t ++ Y |} = Some (o, {| prev := last_opt p t; rest := Y |}).
Proof.
  intros [o' H | | g Hg Hw] Hp HY He.
  - (* symbolic operator: neither word rule matches; the first alternative that is a prefix is the operator itself
       because the next character is not '=' *)
    unfold p_op.
    assert (M1 : bword [w_in] {| prev := p; rest := o' ++ Y |} = None).
    { unfold op_alts in H. cbn [In] in H. repeat (destruct H as [<-|H]; [apply bword_miss_hd; reflexivity|]). contradiction. }
    assert (M2 : bword [w_not] {| prev := p; rest := o' ++ Y |} = None).
    { unfold op_alts in H. cbn [In] in H. repeat (destruct H as [<-|H]; [apply bword_miss_hd; reflexivity|]). contradiction. }
    rewrite M1, M2. unfold op_alts in H. cbn [In] in H.
    destruct Y as [|c Y]; cbn in He.
    + repeat (destruct H as [<-|H]; [reflexivity|]). contradiction.
    + repeat (destruct H as [<-|H]; [repeat (cbn [first_plain op_alts rest app starts]; evn; cbv iota; rewrite ?He); reflexivity|]). contradiction.
  - unfold p_op. rewrite bword_in_hit; auto.
  - unfold p_op. rewrite <- !app_assoc.
    assert (M1 : forall Z, bword [w_in] {| prev := p; rest := w_not ++ Z |} = None)
      by (intros Z; exact (bword_miss_hd [w_in] p 110 ([111;116] ++ Z) eq_refl)).
    rewrite M1.
    assert (N1 : bword [w_not] {| prev := p; rest := w_not ++ g ++ w_in ++ Y |} = Some (w_not, {| prev := Some 116; rest := g ++ w_in ++ Y |})).
    { apply bword_hit; [now left | reflexivity | discriminate | reflexivity | reflexivity | now apply Hp |].
      rewrite gap_hd by exact Hw. destruct g; [congruence|reflexivity]. }
    nrm. rewrite N1. cbn [rest].
    assert (E : span is_wsb (g ++ w_in ++ Y) = (g, w_in ++ Y)).
    { clear -Hw. induction g as [|c g IH]; [reflexivity|]. cbn in Hw. apply andb_prop in Hw as [Hc Hw]. cbn [app span]. rewrite Hc, (IH Hw). reflexivity. }
    nrm. rewrite E. destruct g as [|c g]; [congruence|].
    unfold adv. cbn [prev].
    rewrite bword_in_hit.
    + do 3 f_equal. rewrite !last_opt_app. reflexivity.
    + rewrite gap_last by exact Hw. reflexivity.
    + apply HY. rewrite !ends_word_app by discriminate. reflexivity.
Qed.
Print Assumptions p_var_side.
Print Assumptions p_op_tok.
