(* C09 clause "markers that differ only in ... redundant parentheses ... or the spelling of a name compared with extra are
   equal" - AT ANY DEPTH.  Variant m1 m2: the structures are related by any number of
     - wrapping / unwrapping a single element in a group  "x" <-> "(x)"            in any context, at any depth
     - replacing the literal compared with extra by one with the same PEP 503 form in any context, at any depth, either side
   and such structures normalise and peel to the same thing, hence their Markers are equal. *)
From Coq Require Import List Arith NArith Bool Lia.
Import ListNotations.
Require Import MText MRound MRound2 MRound3 MkModel MkEval MkEvalP MkGroupsP MkFmtP MkShapeP MkRoundP MkTreeP MkLexP MkLayoutP MkTextP MkEqP.
Require Names.
Open Scope N_scope.
Arguments N.eqb : simpl never.
Arguments N.leb : simpl never.

Inductive VarE : elem -> elem -> Prop :=
| VE_refl e : VarE e e
| VE_sym a b : VarE a b -> VarE b a
| VE_trans a b c : VarE a b -> VarE b c -> VarE a c
(* the name compared with extra, on either side *)
| VE_extra_r n o v1 v2 : str_eqb n w_extra = true -> Names.canon_name v1 = Names.canon_name v2 ->
    VarE (Item (SVar n) o (SVal v1)) (Item (SVar n) o (SVal v2))
| VE_extra_l n o v1 v2 : str_eqb n w_extra = true -> Names.canon_name v1 = Names.canon_name v2 ->
    VarE (Item (SVal v1) o (SVar n)) (Item (SVal v2) o (SVar n))
(* parentheses around a single comparison or a single group *)
| VE_wrap e : is_bool e = false -> VarE e (Nested [e])
(* ... inside any group, at any position: hence at any depth *)
| VE_ctx pre post e e' : VarE e e' -> VarE (Nested (pre ++ e :: post)) (Nested (pre ++ e' :: post)).
(* whole markers: the top-level list is a group (so redundant OUTER parentheses are VE_wrap at the top) *)
Definition Variant (m1 m2 : list elem) : Prop := VarE (Nested m1) (Nested m2).

(* peeling a group, as a function of its peeled elements *)
Definition collapse (l : list elem) : elem :=
  match l with [x] => if is_bool x then Nested [x] else x | _ => Nested l end.
Lemma peel_collapse l : peel_e (Nested l) = collapse (map peel_e l).
Proof.
  destruct l as [|a [|b t]]; try reflexivity.
  - cbn [map collapse]. rewrite peel_is_bool. destruct a; reflexivity.
  - rewrite peel_long. reflexivity.
Qed.
Definition K (e : elem) : elem := peel_e (norm_e e).
Lemma K_nested l : K (Nested l) = collapse (map K l).
Proof. unfold K. cbn [norm_e]. rewrite peel_collapse, map_map. reflexivity. Qed.
Lemma K_is_bool e : is_bool (K e) = is_bool e.
Proof. unfold K. now rewrite peel_is_bool, norm_is_bool. Qed.

Theorem variant_same_canonical a b : VarE a b -> K a = K b.
Proof.
  induction 1 as [e | a b _ IH | a b c _ IH1 _ IH2 | n o v1 v2 E H | n o v1 v2 E H | e B | pre post e e' _ IH].
  - reflexivity.
  - now symmetry.
  - congruence.
  - unfold K. now rewrite (variant_extra_right n o v1 v2 E H).
  - unfold K. now rewrite (variant_extra_left n o v1 v2 E H).
  - rewrite K_nested. cbn [map collapse]. now rewrite K_is_bool, B.
  - rewrite !K_nested, !map_app. cbn [map]. now rewrite IH.
Qed.
Theorem variant_same_peeled m1 m2 : Variant m1 m2 -> peel_top (norm_l m1) = peel_top (norm_l m2).
Proof.
  intros V. apply variant_same_canonical in V. unfold peel_top.
  change (Nested (norm_l m1)) with (norm_e (Nested m1)). change (Nested (norm_l m2)) with (norm_e (Nested m2)).
  unfold K in V. now rewrite V.
Qed.

(* ---- consequences on Marker objects ---- *)
Lemma pfm_le d d' m : (d <= d')%nat -> pfm d m -> pfm d' m.
Proof.
  intros Hle H. eapply alt_impl; [|exact H]. intros e He.
  assert (G : forall d d' e, (d <= d')%nat -> pfa d e -> pfa d' e) by (intros x y e0 L; induction L; auto; intros; apply pfa_mono; auto).
  eapply G; eauto.
Qed.
(* whatever the two texts look like: if what the parser reads from them are variants, the Markers are equal (and so hash
   alike, print alike, and - MkEqP.equal_markers_evaluate_alike - evaluate alike) *)
Theorem variant_markers_equal t1 t2 m1 m2 : parse_marker_nl t1 = Some m1 -> parse_marker_nl t2 = Some m2 ->
  lit_class m1 = LOk -> lit_class m2 = LOk -> Variant m1 m2 ->
  exists a b, Marker t1 = MOk a /\ Marker t2 = MOk b /\ marker_eq a b = true /\ format_marker a = format_marker b.
Proof.
  intros P1 P2 L1 L2 V. exists (norm_l m1), (norm_l m2). unfold Marker. rewrite P1, P2, L1, L2.
  assert (E : marker_eq (norm_l m1) (norm_l m2) = true).
  { apply parse_marker_nl_shape in P1, P2.
    apply (variant_peel_equal (Nat.max (S (length t1)) (S (length t2)))).
    - apply norm_l_shape. eapply pfm_le; [|exact P1]. lia.
    - apply norm_l_shape. eapply pfm_le; [|exact P2]. lia.
    - now apply variant_same_peeled. }
  repeat split; auto. now apply marker_eq_iff.
Qed.
(* the same for every layout of the two structures (whitespace, quote style, variable spellings on top) *)
Theorem variant_layouts_equal m1 m2 t1 t2 : RList m1 t1 -> RList m2 t2 -> lit_class m1 = LOk -> lit_class m2 = LOk ->
  Variant m1 m2 -> exists a b, Marker t1 = MOk a /\ Marker t2 = MOk b /\ marker_eq a b = true.
Proof. intros R1 R2 L1 L2 V. apply (layout_variants_eq m1 m2 t1 t2 R1 R2 L1 L2). now apply variant_same_peeled. Qed.
Theorem variant_evaluate_alike t1 t2 m1 m2 defaults ov : parse_marker_nl t1 = Some m1 -> parse_marker_nl t2 = Some m2 ->
  lit_class m1 = LOk -> lit_class m2 = LOk -> Variant m1 m2 ->
  exists a b, Marker t1 = MOk a /\ Marker t2 = MOk b /\ evaluate a defaults ov = evaluate b defaults ov.
Proof.
  intros P1 P2 L1 L2 V. destruct (variant_markers_equal t1 t2 m1 m2 P1 P2 L1 L2 V) as (a & b & Ha & Hb & E & _).
  exists a, b. repeat split; auto. eapply equal_markers_evaluate_alike; eauto.
Qed.

(* ---- derived rules: the shapes the statement names ---- *)
Lemma Variant_outer_parens m : Variant m [Nested m].
Proof. apply VE_wrap. reflexivity. Qed.
Lemma Variant_at pre post e e' : VarE e e' -> Variant (pre ++ e :: post) (pre ++ e' :: post).
Proof. apply VE_ctx. Qed.
(* one level down, then again: any depth *)
Lemma Variant_at2 pre post pre' post' e e' : VarE e e' ->
  Variant (pre ++ Nested (pre' ++ e :: post') :: post) (pre ++ Nested (pre' ++ e' :: post') :: post).
Proof. intros H. apply VE_ctx, VE_ctx, H. Qed.

(* non-vacuity:  os_name == "a" and (sys_platform == "b" or ("Foo_Bar" == extra))
            vs  ((os_name == "a") and (sys_platform == "b" or "foo-bar" == extra))  - a respelling two groups down, a wrap
   at depth one and outer parentheses; both texts parse, to different structures, and the Markers are equal *)
Definition vx_t1 : str := [111;115;95;110;97;109;101;32;61;61;32;34;97;34;32;97;110;100;32;40;115;121;115;95;112;108;97;116;102;111;114;109;32;61;61;32;34;98;34;32;111;114;32;40;34;70;111;111;95;66;97;114;34;32;61;61;32;101;120;116;114;97;41;41].
Definition vx_t2 : str := [40;40;111;115;95;110;97;109;101;32;61;61;32;34;97;34;41;32;97;110;100;32;40;115;121;115;95;112;108;97;116;102;111;114;109;32;61;61;32;34;98;34;32;111;114;32;34;102;111;111;45;98;97;114;34;32;61;61;32;101;120;116;114;97;41;41].
Definition vx_os := Item (SVar [111;115;95;110;97;109;101]) [61;61] (SVal [97]).
Definition vx_sys := Item (SVar [115;121;115;95;112;108;97;116;102;111;114;109]) [61;61] (SVal [98]).
Definition vx_e1 := Item (SVal [70;111;111;95;66;97;114]) [61;61] (SVar w_extra).
Definition vx_e2 := Item (SVal [102;111;111;45;98;97;114]) [61;61] (SVar w_extra).
Definition vx_m1 : list elem := [vx_os; BoolOp w_and; Nested [vx_sys; BoolOp w_or; Nested [vx_e1]]].
Definition vx_m2 : list elem := [Nested [Nested [vx_os]; BoolOp w_and; Nested [vx_sys; BoolOp w_or; vx_e2]]].
Example variant_example_parses : parse_marker_nl vx_t1 = Some vx_m1 /\ parse_marker_nl vx_t2 = Some vx_m2.
Proof. vm_compute. split; reflexivity. Qed.
Example variant_example : Variant vx_m1 vx_m2.
Proof.
  unfold Variant. eapply VE_trans; [|apply VE_wrap; reflexivity].
  (* wrap os_name == "a" *)
  eapply VE_trans; [apply (VE_ctx [] [BoolOp w_and; Nested [vx_sys; BoolOp w_or; Nested [vx_e1]]] vx_os (Nested [vx_os])); apply VE_wrap; reflexivity|].
  cbn [app].
  apply (VE_ctx [Nested [vx_os]; BoolOp w_and] [] (Nested [vx_sys; BoolOp w_or; Nested [vx_e1]]) (Nested [vx_sys; BoolOp w_or; vx_e2])).
  apply (VE_ctx [vx_sys; BoolOp w_or] [] (Nested [vx_e1]) vx_e2).
  eapply VE_trans; [apply VE_sym, VE_wrap; reflexivity|].
  apply VE_extra_l; vm_compute; reflexivity.
Qed.
Definition variant_check : bool :=
  match Marker vx_t1, Marker vx_t2 with
  | MOk a, MOk b => marker_eq a b && negb (str_eqb vx_t1 vx_t2)
  | _, _ => false
  end.
Example variant_nonvacuous : variant_check = true.
Proof. vm_compute. reflexivity. Qed.
Print Assumptions variant_same_peeled.
Print Assumptions variant_markers_equal.
