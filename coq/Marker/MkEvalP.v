(* C07: _eval_op dispatch, the substring test, _normalize on extra, the environment rules, purity. *)
From Coq Require Import List Arith NArith Bool Lia.
Import ListNotations.
Require Import MText MkModel MkEval.
Require Names Py SpecContains SpecModel MkGroupsP.
Open Scope N_scope.
Arguments N.eqb : simpl never.
Arguments N.leb : simpl never.

(* ---------------- str_eqb ---------------- *)
Lemma str_eqb_refl a : str_eqb a a = true.
Proof. induction a; cbn; auto. now rewrite N.eqb_refl. Qed.
Lemma str_eqb_eq a : forall b, str_eqb a b = true <-> a = b.
Proof.
  induction a as [|x a IH]; intros [|y b]; cbn; split; try discriminate; auto.
  - intros H. apply andb_prop in H as [H1 H2]. apply N.eqb_eq in H1. apply IH in H2. now subst.
  - intros [= -> ->]. now rewrite N.eqb_refl, str_eqb_refl.
Qed.
Lemma str_eqb_neq a b : a <> b -> str_eqb a b = false.
Proof. intros H. destruct (str_eqb a b) eqn:E; auto. apply str_eqb_eq in E. contradiction. Qed.

(* ---------------- "in": the substring test, against an exists-split spec ---------------- *)
Lemma prefixb_spec a : forall b, prefixb a b = true <-> exists s, b = a ++ s.
Proof.
  induction a as [|x a IH]; intros b; cbn [prefixb].
  - split; auto. intros _. now exists b.
  - destruct b as [|y b].
    + split; [discriminate|]. intros [s H]. discriminate.
    + split.
      * intros H. apply andb_prop in H as [H1 H2]. apply N.eqb_eq in H1. subst y. apply IH in H2 as [s ->]. now exists s.
      * intros [s H]. injection H as -> ->. rewrite N.eqb_refl. apply IH. now exists s.
Qed.
Theorem substr_spec a : forall b, substr a b = true <-> exists p s, b = p ++ a ++ s.
Proof.
  intros b. induction b as [|y b IH]; cbn [substr].
  - rewrite orb_false_r. rewrite prefixb_spec. split.
    + intros [s H]. exists [], s. exact H.
    + intros (p & s & H). destruct p; [now exists s|discriminate].
  - split.
    + intros H. apply orb_prop in H as [H|H].
      * apply prefixb_spec in H as [s H]. exists [], s. exact H.
      * apply IH in H as (p & s & ->). exists (y :: p), s. reflexivity.
    + intros (p & s & H). destruct p as [|z p].
      * apply orb_true_intro. left. apply prefixb_spec. now exists s.
      * apply orb_true_intro. right. apply IH. injection H as _ ->. now exists p, s.
Qed.

(* ---------------- the string operators ---------------- *)
Definition cmp_op (o : str) : option Py.cop :=
  if str_eqb o w_lt then Some Py.Lt_ else if str_eqb o w_le then Some Py.Le_ else if str_eqb o w_eq then Some Py.Eq_
  else if str_eqb o w_ne then Some Py.Ne_ else if str_eqb o w_ge then Some Py.Ge_ else if str_eqb o w_gt then Some Py.Gt_ else None.

(* the fallback of the statement: 'in' / 'not in' substring tests, the six comparisons in code-point order,
   and no string operator for anything else (in particular '~=' and '===') *)
Theorem string_op_table (lhs o rhs : str) :
  string_op lhs o rhs =
    if str_eqb o w_in then EBool (substr lhs rhs)
    else if str_eqb o w_not_in then EBool (negb (substr lhs rhs))
    else match cmp_op o with
         | Some c => EBool (Py.of_cmp c (Py.str_cmp lhs rhs))
         | None => EUndef
         end.
Proof.
  unfold string_op, py_operator, cmp_op.
  repeat match goal with |- context [if ?b then _ else _] => destruct b end; reflexivity.
Qed.
Lemma string_op_compat (lhs rhs : str) : string_op lhs [126;61] rhs = EUndef.
Proof. reflexivity. Qed.
Lemma string_op_arbitrary (lhs rhs : str) : string_op lhs [61;61;61] rhs = EUndef.
Proof. reflexivity. Qed.

(* 'in' and 'not in' never form a specifier: the substring test is all there is *)
Lemma specifier_in (rhs : str) : SpecContains.Specifier (w_in ++ rhs) = None.
Proof. vm_compute. reflexivity. Qed.
Lemma specifier_not_in (rhs : str) : SpecContains.Specifier (w_not_in ++ rhs) = None.
Proof. vm_compute. reflexivity. Qed.

(* ---------------- _eval_op: the three-way rule ---------------- *)
(* 1. operator + right operand form a valid specifier and the left operand is a valid version:
      PEP 440 matching, pre-releases allowed (no pre-release gating: prereleases=True) *)
Theorem eval_op_specifier (lhs o rhs : str) sp c :
  SpecContains.Specifier (o ++ rhs) = Some sp -> SpecModel.Version lhs = Some c ->
  eval_op lhs o rhs = match SpecContains.compare_op (SpecContains.sp_op sp) c (SpecContains.sp_text sp) with
                      | Some b => EBool b | None => ECrash end.
Proof.
  intros Hs Hv. unfold eval_op. rewrite Hs. unfold SpecContains.contains. rewrite Hv.
  rewrite andb_false_r. destruct (SpecContains.compare_op _ _ _); reflexivity.
Qed.
(* 2. otherwise (no valid specifier, or the left operand is not a version): the Python string operator, if there is one *)
Theorem eval_op_fallback (lhs o rhs : str) :
  SpecContains.Specifier (o ++ rhs) = None \/ SpecModel.Version lhs = None ->
  eval_op lhs o rhs = string_op lhs o rhs.
Proof.
  intros [H|H]; unfold eval_op.
  - now rewrite H.
  - destruct (SpecContains.Specifier (o ++ rhs)); [|reflexivity]. unfold SpecContains.contains. now rewrite H.
Qed.
(* 3. in / not in: substring tests, whatever the operands look like *)
Theorem eval_op_in (lhs rhs : str) : eval_op lhs w_in rhs = EBool (substr lhs rhs).
Proof. rewrite eval_op_fallback by (left; apply specifier_in). reflexivity. Qed.
Theorem eval_op_not_in (lhs rhs : str) : eval_op lhs w_not_in rhs = EBool (negb (substr lhs rhs)).
Proof. rewrite eval_op_fallback by (left; apply specifier_not_in). reflexivity. Qed.
(* the three-way rule in one statement *)
Theorem eval_op_dispatch (lhs o rhs : str) :
  eval_op lhs o rhs =
    match SpecContains.Specifier (o ++ rhs), SpecModel.Version lhs with
    | Some sp, Some c => match SpecContains.compare_op (SpecContains.sp_op sp) c (SpecContains.sp_text sp) with
                         | Some b => EBool b | None => ECrash end
    | _, _ => string_op lhs o rhs
    end.
Proof.
  destruct (SpecContains.Specifier (o ++ rhs)) as [sp|] eqn:Hs.
  - destruct (SpecModel.Version lhs) as [c|] eqn:Hv.
    + now apply eval_op_specifier.
    + apply eval_op_fallback. now right.
  - destruct (SpecModel.Version lhs); apply eval_op_fallback; now left.
Qed.
(* UndefinedComparison arises in no other way: only from an operator without a string form *)
Theorem eval_op_undef (lhs o rhs : str) : eval_op lhs o rhs = EUndef -> py_operator o = None.
Proof.
  rewrite eval_op_dispatch. destruct (SpecContains.Specifier (o ++ rhs)) as [sp|].
  - destruct (SpecModel.Version lhs).
    + destruct (SpecContains.compare_op _ _ _); discriminate.
    + unfold string_op. destruct (py_operator o); [discriminate|reflexivity].
  - unfold string_op. destruct (py_operator o); [discriminate|reflexivity].
Qed.

(* ---------------- items: operands on either side, extra normalised on both sides ---------------- *)
Definition canon := Names.canon_name.
(* the comparison is made on normalised names exactly when one of the operands is the variable extra *)
Lemma env_key_extra l r : str_eqb (env_key l r) w_extra = is_extra l || is_extra r.
Proof.
  unfold env_key, is_extra. destruct l as [n|v], r as [n'|v']; cbn [orb].
  - destruct (str_eqb n w_extra) eqn:E; [exact E|]. reflexivity.
  - now rewrite orb_false_r.
  - reflexivity.
  - reflexivity.
Qed.
Theorem eval_item_spec env l o r a b :
  side_value env l = Some a -> side_value env r = Some b ->
  eval_item env l o r = if is_extra l || is_extra r then eval_op (canon a) o (canon b) else eval_op a o b.
Proof.
  intros Ha Hb. unfold eval_item. rewrite Ha, Hb. unfold normalize. rewrite env_key_extra.
  destruct (is_extra l || is_extra r); reflexivity.
Qed.
(* all four operand shapes *)
Corollary eval_item_var_lit env n o v a : side_value env (SVar n) = Some a ->
  eval_item env (SVar n) o (SVal v) = if str_eqb n w_extra then eval_op (canon a) o (canon v) else eval_op a o v.
Proof. intros H. rewrite (eval_item_spec env (SVar n) o (SVal v) a v H eq_refl). cbn. now rewrite orb_false_r. Qed.
Corollary eval_item_lit_var env n o v a : side_value env (SVar n) = Some a ->
  eval_item env (SVal v) o (SVar n) = if str_eqb n w_extra then eval_op (canon v) o (canon a) else eval_op v o a.
Proof. intros H. rewrite (eval_item_spec env (SVal v) o (SVar n) v a eq_refl H). reflexivity. Qed.
Corollary eval_item_lit_lit env o v w : eval_item env (SVal v) o (SVal w) = eval_op v o w.
Proof. reflexivity. Qed.
Corollary eval_item_var_var env n m o a b : side_value env (SVar n) = Some a -> side_value env (SVar m) = Some b ->
  eval_item env (SVar n) o (SVar m) =
    if str_eqb n w_extra || str_eqb m w_extra then eval_op (canon a) o (canon b) else eval_op a o b.
Proof. intros Ha Hb. now rewrite (eval_item_spec env _ o _ a b Ha Hb). Qed.

(* ---------------- the environment ---------------- *)
Lemma lookup_app k a b : lookup k (a ++ b) = match lookup k a with Some v => Some v | None => lookup k b end.
Proof. induction a as [|[k' v] a IH]; cbn [app lookup]; auto. destruct (str_eqb k k'); auto. Qed.
Definition dflt (defaults : list (str * str)) : envmap := map (fun kv => (fst kv, Some (snd kv))) defaults.
Fixpoint lookup_d (k : str) (d : list (str * str)) : option str :=
  match d with [] => None | (k', v) :: t => if str_eqb k k' then Some v else lookup_d k t end.
Lemma lookup_dflt k d : lookup k (dflt d) = option_map Some (lookup_d k d).
Proof. induction d as [|[k' v] d IH]; cbn; auto. destruct (str_eqb k k'); auto. Qed.

(* value of a key in the mapping before the repair step *)
Definition pre_repair (defaults : list (str * str)) (ov : option envmap) (k : str) : option (option str) :=
  let supplied := match ov with Some o => lookup k o | None => None end in
  match supplied with
  | Some (Some v) => Some (Some v)                                  (* a supplied value wins *)
  | Some None => if str_eqb k w_extra then Some (Some []) else Some None     (* extra=None reads as "" *)
  | None => if str_eqb k w_extra then Some (Some [])                (* extra defaults to "" *)
            else option_map Some (lookup_d k defaults)              (* the detected value *)
  end.
Definition cur_env (defaults : list (str * str)) (ov : option envmap) : envmap :=
  let cur0 := (w_extra, Some []) :: dflt defaults in
  match ov with
  | None => cur0
  | Some o => let c := o ++ cur0 in match lookup w_extra c with Some None => (w_extra, Some []) :: c | _ => c end
  end.
Lemma effective_env_eq d ov : effective_env d ov = repair (cur_env d ov).
Proof. reflexivity. Qed.
Lemma cur_env_lookup d ov k : lookup k (cur_env d ov) = pre_repair d ov k.
Proof.
  unfold cur_env, pre_repair. destruct ov as [o|].
  - set (c := o ++ (w_extra, Some []) :: dflt d).
    assert (Lc : forall k, lookup k c = match lookup k o with Some v => Some v | None =>
                   if str_eqb k w_extra then Some (Some []) else lookup k (dflt d) end).
    { intros k0. unfold c. rewrite lookup_app. cbn [lookup]. reflexivity. }
    destruct (str_eqb k w_extra) eqn:Ek.
    + apply str_eqb_eq in Ek. subst k. pose proof (Lc w_extra) as Le. rewrite str_eqb_refl in Le.
      destruct (lookup w_extra o) as [[v|]|] eqn:Eo; rewrite Le.
      * exact Le.
      * cbn [lookup]. now rewrite str_eqb_refl.
      * exact Le.
    + assert (lookup k (match lookup w_extra c with Some None => (w_extra, Some []) :: c | _ => c end) = lookup k c).
      { destruct (lookup w_extra c) as [[?|]|]; auto. cbn [lookup]. now rewrite Ek. }
      rewrite H, Lc, Ek. destruct (lookup k o) as [[v|]|]; auto. apply lookup_dflt.
  - cbn [lookup]. destruct (str_eqb k w_extra); auto. apply lookup_dflt.
Qed.

Lemma ends_plus_spec v : ends_plus v = true <-> exists u, v = u ++ [43].
Proof.
  induction v as [|c v IH]; cbn [ends_plus].
  - split; [discriminate|]. intros [[|? ?] H]; discriminate.
  - destruct v as [|c' v'].
    + rewrite N.eqb_eq. split; [intros ->; now exists [] | intros [[|? [|? ?]] H]; try discriminate; now injection H as ->].
    + rewrite IH. split; intros [u H].
      * exists (c :: u). cbn. now rewrite H.
      * destruct u as [|x u]; [discriminate|]. injection H as -> H. now exists u.
Qed.

(* the effective environment: supplied value, else detected value; extra "" by default and for None;
   python_full_version ending in '+' completed with "local"; every other key untouched by the repair *)
Theorem effective_env_lookup d ov env k :
  effective_env d ov = Some env ->
  lookup k env =
    if str_eqb k w_pfv then
      match pre_repair d ov w_pfv with
      | Some (Some v) => Some (Some (if ends_plus v then v ++ w_local else v))
      | x => x
      end
    else pre_repair d ov k.
Proof.
  rewrite effective_env_eq. unfold repair. rewrite cur_env_lookup.
  destruct (pre_repair d ov w_pfv) as [[v|]|] eqn:Ep; try discriminate. intros [= <-].
  destruct (str_eqb k w_pfv) eqn:Ek.
  - apply str_eqb_eq in Ek. subst k. destruct (ends_plus v).
    + cbn [lookup]. now rewrite str_eqb_refl.
    + now rewrite cur_env_lookup, Ep.
  - destruct (ends_plus v); [cbn [lookup]; rewrite Ek|]; apply cur_env_lookup.
Qed.
(* the environment can be built (no KeyError / AttributeError) exactly when python_full_version has a str value *)
Theorem effective_env_defined d ov :
  effective_env d ov <> None <-> exists v, pre_repair d ov w_pfv = Some (Some v).
Proof.
  rewrite effective_env_eq. unfold repair. rewrite cur_env_lookup.
  destruct (pre_repair d ov w_pfv) as [[v|]|]; split; try congruence; try (intros [v' H]; discriminate); eauto.
Qed.
(* after the repair python_full_version no longer ends in '+' followed by nothing: it is  u+local *)
Lemma repaired_form v : ends_plus v = true -> exists u, v ++ w_local = u ++ 43 :: w_local.
Proof. intros H. apply ends_plus_spec in H as [u ->]. exists u. now rewrite <- app_assoc. Qed.

(* ---------------- purity: the result depends on the environment only through the variables that occur ---------------- *)
Lemma side_value_ext e1 e2 x : (forall n, x = SVar n -> lookup n e1 = lookup n e2) -> side_value e1 x = side_value e2 x.
Proof. destruct x as [n|v]; cbn; auto. intros H. now rewrite (H n eq_refl). Qed.
Lemma eval_item_ext e1 e2 l o r :
  (forall n, In (SVar n) [l; r] -> lookup n e1 = lookup n e2) -> eval_item e1 l o r = eval_item e2 l o r.
Proof.
  intros H. unfold eval_item.
  rewrite (side_value_ext e1 e2 l) by (intros n ->; apply H; cbn; auto).
  rewrite (side_value_ext e1 e2 r) by (intros n ->; apply H; cbn; auto). reflexivity.
Qed.

Section ElemInd.
Variable P : elem -> Prop.
Hypothesis HI : forall l o r, P (Item l o r).
Hypothesis HB : forall w, P (BoolOp w).
Hypothesis HN : forall m, Forall P m -> P (Nested m).
Fixpoint elem_ind' (e : elem) : P e :=
  match e with
  | Item l o r => HI l o r
  | BoolOp w => HB w
  | Nested m => HN m ((fix go (m : list elem) : Forall P m :=
                         match m with [] => Forall_nil P | x :: t => Forall_cons x (elem_ind' x) (go t) end) m)
  end.
End ElemInd.

Lemma sides_nested m : sides_e (Nested m) = sides_l m.
Proof. cbn [sides_e]. induction m as [|x t IH]; [reflexivity|]. cbn [sides_l]. rewrite <- IH. reflexivity. Qed.

Lemma geval_ext (ev1 ev2 : side -> str -> side -> eres) :
  forall e, (forall l o r, In l (sides_e e) -> In r (sides_e e) -> ev1 l o r = ev2 l o r) -> geval_e ev1 e = geval_e ev2 e.
Proof.
  induction e as [l o r | w | m IH] using elem_ind'; intros H.
  - cbn. apply H; cbn; auto.
  - reflexivity.
  - rewrite !MkGroupsP.geval_nested. unfold geval_markers. rewrite sides_nested in H.
    generalize true. generalize false.
    induction m as [|x t IHt]; intros acc cur; [reflexivity|].
    inversion IH as [|? ? Hx Ht]; subst.
    assert (Ex : geval_e ev1 x = geval_e ev2 x).
    { apply Hx. intros l o r Hl Hr. apply H; cbn [sides_l]; apply in_or_app; auto. }
    assert (Et : forall acc cur, geval_go ev1 t cur acc = geval_go ev2 t cur acc).
    { intros. apply IHt; auto. intros l o r Hl Hr. apply H; cbn [sides_l]; apply in_or_app; auto. }
    destruct x; cbn [geval_go].
    + rewrite Ex. destruct (geval_e ev2 (Item l op r)); auto.
    + rewrite Ex. destruct (geval_e ev2 (Nested m)); auto.
    + destruct (str_eqb w w_or); auto. destruct (str_eqb w w_and); auto.
Qed.

Theorem eval_markers_ext e1 e2 m :
  (forall n, In (SVar n) (sides_l m) -> lookup n e1 = lookup n e2) -> eval_markers e1 m = eval_markers e2 m.
Proof.
  intros H. unfold eval_markers. change (eval_go e1 m true false) with (geval_markers (eval_item e1) m).
  change (eval_go e2 m true false) with (geval_markers (eval_item e2) m).
  rewrite <- !MkGroupsP.geval_nested. apply geval_ext. rewrite sides_nested.
  intros l o r Hl Hr. apply eval_item_ext. intros n [E|[E|[]]]; apply H; rewrite <- E; assumption.
Qed.
Print Assumptions eval_markers_ext.
