(* Marker.evaluate as the code is now (markers.py after the fix: commits): environment construction, _repair_python_full_version,
   _evaluate_markers, _normalize, _eval_op.  Definitions only (this file is extracted).
   Specifier(...) / Specifier.contains are the string-level model SpecContains; canonicalize_name is Names.canon_name;
   the Python operators on str are code-point comparisons (Py.str_cmp) and the substring test. *)
From Coq Require Import List Arith NArith Bool.
Import ListNotations.
Require Import MText MkModel.
Require Names Py SpecContains.
Open Scope N_scope.

(* ---- results: a bool, UndefinedComparison, or a Python-level failure of the modelled code (KeyError, TypeError,
        AttributeError, AssertionError, or an exception escaping Specifier.contains) ---- *)
Inductive eres := EBool (b : bool) | EUndef | ECrash.

(* ---- environments: a dict with str keys; a value is a str, or None (documented for "extra" only) ---- *)
Definition envmap := list (str * option str).
Fixpoint lookup (k : str) (e : envmap) : option (option str) :=
  match e with [] => None | (k', v) :: t => if str_eqb k k' then Some v else lookup k t end.

Definition w_pfv : str := [112;121;116;104;111;110;95;102;117;108;108;95;118;101;114;115;105;111;110].   (* python_full_version *)
Definition w_local : str := [108;111;99;97;108].
Fixpoint ends_plus (s : str) : bool := match s with [] => false | [c] => c =? 43 | _ :: t => ends_plus t end.

(* _repair_python_full_version; None = KeyError (no such key) / AttributeError (value None) *)
Definition repair (e : envmap) : option envmap :=
  match lookup w_pfv e with
  | Some (Some v) => Some (if ends_plus v then (w_pfv, Some (v ++ w_local)) :: e else e)
  | _ => None
  end.

(* Marker.evaluate(environment): default_environment() (the detected values, [defaults]), extra = "", then update() with
   the supplied mapping (a supplied key wins), extra None -> "", repair.  A dict is modelled as an association list in
   which the first entry of a key is the current one. *)
Definition effective_env (defaults : list (str * str)) (ov : option envmap) : option envmap :=
  let cur0 := (w_extra, Some []) :: map (fun kv => (fst kv, Some (snd kv))) defaults in
  let cur := match ov with
             | None => cur0
             | Some o =>
                 let c := o ++ cur0 in
                 match lookup w_extra c with Some None => (w_extra, Some []) :: c | _ => c end
             end in
  repair cur.

(* ---- Python's operators on two str ---- *)
Fixpoint prefixb (a b : str) : bool :=
  match a, b with [], _ => true | x :: a', y :: b' => (x =? y) && prefixb a' b' | _ :: _, [] => false end.
Fixpoint substr (a b : str) : bool :=                       (* a in b *)
  prefixb a b || match b with [] => false | _ :: t => substr a t end.

Definition w_lt : str := [60]. Definition w_le : str := [60;61]. Definition w_eq : str := [61;61]. Definition w_ne : str := [33;61].
Definition w_ge : str := [62;61]. Definition w_gt : str := [62].
(* _operators.get(op): None = no such key *)
Definition py_operator (o : str) : option (str -> str -> bool) :=
  if str_eqb o w_in then Some substr
  else if str_eqb o w_not_in then Some (fun a b => negb (substr a b))
  else if str_eqb o w_lt then Some (fun a b => Py.of_cmp Py.Lt_ (Py.str_cmp a b))
  else if str_eqb o w_le then Some (fun a b => Py.of_cmp Py.Le_ (Py.str_cmp a b))
  else if str_eqb o w_eq then Some (fun a b => Py.of_cmp Py.Eq_ (Py.str_cmp a b))
  else if str_eqb o w_ne then Some (fun a b => Py.of_cmp Py.Ne_ (Py.str_cmp a b))
  else if str_eqb o w_ge then Some (fun a b => Py.of_cmp Py.Ge_ (Py.str_cmp a b))
  else if str_eqb o w_gt then Some (fun a b => Py.of_cmp Py.Gt_ (Py.str_cmp a b))
  else None.
Definition string_op (lhs o rhs : str) : eres :=
  match py_operator o with Some f => EBool (f lhs rhs) | None => EUndef end.

(* _eval_op *)
Definition eval_op (lhs o rhs : str) : eres :=
  match SpecContains.Specifier (o ++ rhs) with
  | None => string_op lhs o rhs                                       (* InvalidSpecifier *)
  | Some sp =>
      match SpecContains.contains sp None (Some true) lhs with
      | SpecContains.Ans b => EBool b
      | SpecContains.BadItem => string_op lhs o rhs                   (* InvalidVersion: the left operand is not a version *)
      | SpecContains.Escaped => ECrash
      end
  end.

(* _normalize(lhs, rhs, key=...) *)
Definition normalize (key a b : str) : str * str :=
  if str_eqb key w_extra then (Names.canon_name a, Names.canon_name b) else (a, b).

(* the item branch of _evaluate_markers *)
Definition side_value (env : envmap) (x : side) : option str :=      (* None = KeyError, or a None value reaching a comparison *)
  match x with
  | SVal v => Some v
  | SVar n => match lookup n env with Some (Some v) => Some v | _ => None end
  end.
Definition env_key (l r : side) : str :=
  let k := match l with SVar n => n | SVal _ => [] end in
  match r with SVar n => if str_eqb k w_extra then k else n | SVal _ => k end.
Definition eval_item (env : envmap) (l : side) (o : str) (r : side) : eres :=
  match side_value env l with
  | None => ECrash
  | Some a =>
      match side_value env r with
      | None => ECrash
      | Some b => let '(a', b') := normalize (env_key l r) a b in eval_op a' o b'
      end
  end.

(* _evaluate_markers: groups = [[]]; an item or nested list appends its value to the last group; "or" opens a group;
   result any(all(g) for g in groups).  [cur] = all() of the open group, [acc] = any() over the closed groups.
   Every element is evaluated (no short circuit), the first exception propagates.
   [evi] is the value of one item (under the environment at hand); keeping it a parameter lets the grouping theorems
   speak about every valuation of the items. *)
Section Groups.
Variable evi : side -> str -> side -> eres.
Fixpoint geval_e (e : elem) {struct e} : eres :=
  match e with
  | Item l o r => evi l o r
  | Nested m =>
      (fix go (m : list elem) (cur acc : bool) {struct m} : eres :=
         match m with
         | [] => EBool (acc || cur)
         | BoolOp w :: t =>
             if str_eqb w w_or then go t true (acc || cur)
             else if str_eqb w w_and then go t cur acc
             else ECrash                                                (* assert marker in ["and", "or"] *)
         | x :: t => match geval_e x with EBool b => go t (cur && b) acc | err => err end
         end) m true false
  | BoolOp _ => ECrash
  end.
Fixpoint geval_go (m : list elem) (cur acc : bool) {struct m} : eres :=
  match m with
  | [] => EBool (acc || cur)
  | BoolOp w :: t =>
      if str_eqb w w_or then geval_go t true (acc || cur)
      else if str_eqb w w_and then geval_go t cur acc
      else ECrash
  | x :: t => match geval_e x with EBool b => geval_go t (cur && b) acc | err => err end
  end.
Definition geval_markers (m : list elem) : eres := geval_go m true false.
End Groups.
Definition eval_e (env : envmap) : elem -> eres := geval_e (eval_item env).
Definition eval_go (env : envmap) : list elem -> bool -> bool -> eres := geval_go (eval_item env).
Definition eval_markers (env : envmap) (m : list elem) : eres := eval_go env m true false.

Definition evaluate (m : list elem) (defaults : list (str * str)) (ov : option envmap) : eres :=
  match effective_env defaults ov with
  | None => ECrash
  | Some env => eval_markers env m
  end.
