From Coq Require Import List Arith NArith Bool Lia.
Import ListNotations.
Require Import MText MRound MRound2.
Open Scope N_scope.
Arguments N.eqb : simpl never.
Arguments N.leb : simpl never.

(* the part of an  atom (BOOLOP atom)*  list after its first atom *)
Fixpoint altr (P : elem -> Prop) (r : list elem) : Prop :=
  match r with [] => True | BoolOp w :: a :: t => In w bool_alts /\ P a /\ altr P t | _ => False end.
Fixpoint fmt_rest (r : list elem) : str :=
  match r with BoolOp w :: a :: t => 32 :: w ++ 32 :: fmt_elem a ++ fmt_rest t | _ => [] end.
Lemma alt_step P a w c t : alt P (a :: BoolOp w :: c :: t) = (P a /\ In w bool_alts /\ alt P (c :: t)).
Proof. reflexivity. Qed.
Lemma alt_cons P a r : alt P (a :: r) <-> P a /\ altr P r.
Proof.
  revert a. induction r as [r IH] using (well_founded_induction (Wf_nat.well_founded_ltof _ (@length elem))).
  intros a. destruct r as [|b [|c t]].
  - cbn. tauto.
  - destruct b; cbn; tauto.
  - destruct b; try (cbn; tauto). rewrite alt_step. cbn [altr]. rewrite (IH t); [tauto|]. unfold Wf_nat.ltof. cbn. lia.
Qed.
Lemma fmt_list_step a w c t : fmt_list (a :: BoolOp w :: c :: t) = fmt_elem a ++ 32 :: w ++ 32 :: fmt_list (c :: t).
Proof. reflexivity. Qed.
Lemma fmt_list_cons P a r : altr P r -> fmt_list (a :: r) = fmt_elem a ++ fmt_rest r.
Proof.
  revert a. induction r as [r IH] using (well_founded_induction (Wf_nat.well_founded_ltof _ (@length elem))).
  intros a H. destruct r as [|b [|c t]]; cbn [altr] in H.
  - cbn. now rewrite app_nil_r.
  - destruct b; contradiction.
  - destruct b; try contradiction. destruct H as (_ & _ & H). rewrite fmt_list_step. cbn [fmt_rest]. do 4 f_equal.
    apply IH; auto. unfold Wf_nat.ltof. cbn. lia.
Qed.

Ltac eval_eqb' := repeat match goal with |- context [N.eqb ?a ?b] =>
   let v := eval vm_compute in (N.eqb a b) in change (N.eqb a b) with v end.
Lemma bword_end q T : tail_end T -> bword bool_alts {| prev := q; rest := T |} = None.
Proof.
  intros [->|[T' ->]]; unfold bword; cbn [prev rest hd_opt].
  - match goal with |- (if ?b then _ else _) = _ => destruct b end; reflexivity.
  - assert (E : first_bword bool_alts {| prev := q; rest := 41 :: T' |} = None) by reflexivity.
    rewrite E. match goal with |- (if ?b then _ else _) = _ => destruct b end; reflexivity.
Qed.
Lemma bword_bool w X : In w bool_alts ->
  bword bool_alts {| prev := Some 32; rest := w ++ 32 :: X |} = Some (w, {| prev := last_opt (Some 32) w; rest := 32 :: X |}).
Proof. unfold bool_alts. cbn [In]. intros [<-|[<-|[]]]; vm_compute; reflexivity. Qed.
Lemma bool_head w X : In w bool_alts -> match w ++ X with c :: _ => is_wsb c = false | [] => True end.
Proof. unfold bool_alts. cbn [In]. intros [<-|[<-|[]]]; reflexivity. Qed.
Lemma atom_skip pm s : p_atom_with pm s = p_atom_with pm (skip_ws s).
Proof. unfold p_atom_with. cbv zeta. now rewrite skip_ws_idem. Qed.

Section Loop.
Variable pa : st -> option (elem * st).
Variable P : elem -> Prop.
Hypothesis pa_skip : forall s, pa s = pa (skip_ws s).
Hypothesis pa_ok : forall a p T, P a -> pre_ok p -> tail_ok T ->
  exists q, pa {| prev := p; rest := fmt_elem a ++ T |} = Some (a, skip_ws {| prev := q; rest := T |}).
Hypothesis P_head : forall a t, P a -> match fmt_elem a ++ t with c :: _ => is_wsb c = false | [] => False end.

Lemma rest_tail_ok r T : altr P r -> tail_end T -> tail_ok (fmt_rest r ++ T).
Proof.
  intros H HT. destruct r as [|b [|c t]]; cbn [altr fmt_rest] in *; try (now apply tail_end_ok).
  - destruct b; contradiction.
  - destruct b; try contradiction. cbn. auto.
Qed.

Lemma loop_ok : forall r acc k q T, altr P r -> tail_end T -> (length r < k)%nat ->
  exists q', loop_with pa k acc (skip_ws {| prev := q; rest := fmt_rest r ++ T |}) = Some (rev acc ++ r, {| prev := q'; rest := T |}).
Proof.
  induction r as [r IH] using (well_founded_induction (Wf_nat.well_founded_ltof _ (@length elem))).
  intros acc k q T H HT Hk. destruct k as [|k]; [lia|]. destruct r as [|b [|a t]]; cbn [altr] in H.
  - cbn [fmt_rest app]. rewrite skip_ws_end by assumption. cbn [loop_with]. rewrite bword_end by assumption.
    rewrite app_nil_r. eexists. reflexivity.
  - destruct b; contradiction.
  - destruct b as [| |w]; try contradiction. destruct H as (Hw & Ha & Ht).
    cbn [fmt_rest app]. rewrite <- app_assoc. cbn [app]. rewrite <- app_assoc.
    rewrite skip_ws_one by (apply (bool_head w _ Hw)).
    cbn [loop_with]. rewrite bword_bool by assumption.
    rewrite pa_skip. rewrite skip_ws_one.
    2:{ pose proof (P_head a (fmt_rest t ++ T) Ha) as Hh. destruct (fmt_elem a ++ fmt_rest t ++ T); tauto. }
    destruct (pa_ok a (Some 32) (fmt_rest t ++ T) Ha) as [q2 E2]; [reflexivity | now apply rest_tail_ok |].
    match goal with |- context [pa ?s] => replace (pa s) with (Some (a, skip_ws {| prev := q2; rest := fmt_rest t ++ T |})) by (symmetry; exact E2) end.
    destruct (IH t) with (acc := a :: BoolOp w :: acc) (k := k) (q := q2) (T := T) as [q' E]; auto.
    { unfold Wf_nat.ltof. cbn. lia. } { cbn in Hk. lia. }
    rewrite E. eexists. f_equal. f_equal. cbn [rev]. rewrite <- !app_assoc. reflexivity.
Qed.
End Loop.

(* ---------------- the marker level, by induction on the nesting depth ---------------- *)
Lemma size_ge_len m : (length m <= size_l m)%nat.
Proof. induction m as [|x m IH]; cbn; auto. destruct x; cbn [size_e]; lia. Qed.

Lemma altr_fit d f : forall r n, altr (wfa (S d)) r -> (S d + (n + size_l r) <= S f)%nat ->
  altr (fun a => wfa (S d) a /\ (d + size_e a <= S f)%nat) r.
Proof.
  induction r as [r IH] using (well_founded_induction (Wf_nat.well_founded_ltof _ (@length elem))).
  intros n Wr Hf. destruct r as [|b [|c t]]; cbn [altr] in *; auto. destruct b; try contradiction.
  destruct Wr as (H1 & H2 & H3). cbn [size_l size_e] in Hf. split; [assumption|split].
  - split; auto. lia.
  - apply (IH t) with (n := (n + 1 + size_e c)%nat); auto. { unfold Wf_nat.ltof. cbn. lia. } lia.
Qed.

Theorem marker_roundtrip : forall d fuel m p T, wfm d m -> (d + size_l m <= fuel)%nat -> pre_ok p -> tail_end T ->
  exists q, p_marker fuel {| prev := p; rest := fmt_list m ++ T |} = Some (m, {| prev := q; rest := T |}).
Proof.
  induction d as [|d IHd]; intros fuel m p T W Hf Hp HT.
  - unfold wfm in W. destruct m as [|a [|b t]]; cbn in W; try contradiction. destruct b; try contradiction. tauto.
  - destruct fuel as [|f]; [lia|].
    unfold wfm in W. destruct m as [|a r]; [contradiction|]. apply alt_cons in W as [Wa Wr].
    rewrite (fmt_list_cons (wfa (S d)) a r Wr). rewrite <- app_assoc.
    cbn [p_marker].
    assert (IHm : forall m p T, wfm d m -> (d + size_l m <= f)%nat -> pre_ok p -> tail_end T ->
       exists q, p_marker f {| prev := p; rest := fmt_list m ++ T |} = Some (m, {| prev := q; rest := T |})) by (intros; now apply IHd).
    assert (PA : forall a p T, wfa (S d) a /\ (d + size_e a <= S f)%nat -> pre_ok p -> tail_ok T ->
       exists q, p_atom_with (p_marker f) {| prev := p; rest := fmt_elem a ++ T |} = Some (a, skip_ws {| prev := q; rest := T |})).
    { intros a0 p0 T0 [H1 H2] H3 H4. eapply atom_ok; eauto. }
    cbn [size_l] in Hf.
    assert (TO : tail_ok (fmt_rest r ++ T)) by (eapply (rest_tail_ok (fun a => wfa (S d) a)); eauto).
    assert (SZ : wfa (S d) a /\ (d + size_e a <= S f)%nat) by (split; [assumption|lia]).
    destruct (PA a p (fmt_rest r ++ T) SZ Hp TO) as [q1 E1].
    match goal with |- context [p_atom_with (p_marker f) ?s] =>
      replace (p_atom_with (p_marker f) s) with (Some (a, skip_ws {| prev := q1; rest := fmt_rest r ++ T |})) by (symmetry; exact E1) end.
    (* the loop, with P := well-formed atoms that fit in the fuel *)
    set (P := fun a => wfa (S d) a /\ (d + size_e a <= S f)%nat).
    assert (Wr' : altr P r) by (apply (altr_fit d f r (size_e a)); auto).
    destruct (loop_ok (p_atom_with (p_marker f)) P (atom_skip _) PA) with (r := r) (acc := [a]) (k := S f) (q := q1) (T := T) as [q' E]; auto.
    { intros a0 t0 [H0 _]. eapply atom_head; eauto. }
    { pose proof (size_ge_len r). lia. }
    rewrite E. eexists. reflexivity.
Qed.
Print Assumptions marker_roundtrip.
