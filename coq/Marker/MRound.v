From Coq Require Import List Arith NArith Bool Lia.
Import ListNotations.
Require Import MText.
Open Scope N_scope.
Arguments N.eqb : simpl never.
Arguments N.leb : simpl never.

(* ---------------- canonical printing (Marker.__str__ with the D6/D23 repairs) ---------------- *)
Definition has (c0 : char) (s : str) : bool := existsb (N.eqb c0) s.
Definition quote_of (v : str) : char := if has 34 v && negb (has 39 v) then 39 else 34.
Definition fmt_side (x : side) : str := match x with SVar n => n | SVal v => quote_of v :: v ++ [quote_of v] end.
(* the text of  atom (BOOLOP atom)*  : what " ".join(...) produces on a list of that shape *)
Fixpoint fmt_elem (e : elem) : str :=
  match e with
  | Item l o r => fmt_side l ++ 32 :: o ++ 32 :: fmt_side r
  | BoolOp w => w
  | Nested m => 40 :: (fix fl (m : list elem) : str :=
                         match m with
                         | [a] => fmt_elem a
                         | a :: BoolOp w :: t => fmt_elem a ++ 32 :: w ++ 32 :: fl t
                         | _ => []
                         end) m ++ [41]
  end.
Fixpoint fmt_list (m : list elem) : str :=
  match m with
  | [a] => fmt_elem a
  | a :: BoolOp w :: t => fmt_elem a ++ 32 :: w ++ 32 :: fmt_list t
  | _ => []
  end.
Lemma fmt_nested m : fmt_elem (Nested m) = 40 :: fmt_list m ++ [41].
Proof. reflexivity. Qed.
Definition fmt_top (m : list elem) : str := fmt_list m.

(* ---------------- well-formed canonical structures ---------------- *)
Definition canon_vars : list str :=
  [ [112;121;116;104;111;110;95;118;101;114;115;105;111;110];
    [112;121;116;104;111;110;95;102;117;108;108;95;118;101;114;115;105;111;110];
    [111;115;95;110;97;109;101]; [115;121;115;95;112;108;97;116;102;111;114;109];
    [112;108;97;116;102;111;114;109;95;114;101;108;101;97;115;101]; [112;108;97;116;102;111;114;109;95;115;121;115;116;101;109];
    [112;108;97;116;102;111;114;109;95;118;101;114;115;105;111;110]; [112;108;97;116;102;111;114;109;95;109;97;99;104;105;110;101];
    w_ppyimpl;
    [105;109;112;108;101;109;101;110;116;97;116;105;111;110;95;110;97;109;101];
    [105;109;112;108;101;109;101;110;116;97;116;105;111;110;95;118;101;114;115;105;111;110];
    [101;120;116;114;97] ].
Definition canon_ops : list str := op_alts ++ [w_in; w_not_in].
Definition wf_side (x : side) : Prop :=
  match x with SVar n => In n canon_vars | SVal v => (has 34 v && has 39 v) = false end.

(* ---------------- lexing lemmas ---------------- *)
Definition pre_ok (p : option char) : Prop := wordness p = false.       (* start of input, or after a space / parenthesis / quote *)
Definition tail_ok (t : str) : Prop := match t with [] => True | c :: _ => c = 32 \/ c = 41 end.

Lemma last_opt_app p a b : last_opt p (a ++ b) = last_opt (last_opt p a) b.
Proof. revert p; induction a; intros; cbn; auto. Qed.

(* a canonical variable name followed by a space or ")" or the end is read back as itself *)
Lemma p_var_name n p t : In n canon_vars -> pre_ok p -> tail_ok t ->
  p_var {| prev := p; rest := n ++ t |} = Some (SVar n, {| prev := last_opt p n; rest := t |}).
Proof.
  intros Hn Hp Ht. unfold pre_ok in Hp.
  unfold p_var, bword. cbn [prev rest].
  assert (B : boundary p (hd_opt (n ++ t)) = true).
  { unfold boundary. rewrite Hp. unfold canon_vars in Hn. cbn [In] in Hn.
    repeat (destruct Hn as [<-|Hn]; [reflexivity|]). contradiction. }
  rewrite B.
  destruct t as [|c t']; [| destruct Ht as [-> | ->]];
    unfold canon_vars in Hn; cbn [In] in Hn;
    repeat (destruct Hn as [<-|Hn]; [vm_compute; destruct p; reflexivity|]); contradiction.
Qed.

Lemma span_until q v t : has q v = false -> span (plain_char q) (v ++ q :: t) = (v, q :: t).
Proof.
  induction v as [|c v IH]; cbn [app span has existsb].
  - intros _. unfold plain_char. now rewrite N.eqb_refl.
  - intros H. apply orb_false_elim in H as [H1 H2]. unfold plain_char at 1. rewrite N.eqb_sym in H1. rewrite H1. cbn [negb].
    unfold has in IH. now rewrite IH.
Qed.
Lemma quote_not_in v : (has 34 v && has 39 v) = false -> has (quote_of v) v = false.
Proof.
  unfold quote_of. destruct (has 34 v) eqn:A, (has 39 v) eqn:B; cbn; auto; discriminate.
Qed.
Lemma quote_cases v : quote_of v = 34 \/ quote_of v = 39.
Proof. unfold quote_of. destruct (has 34 v && negb (has 39 v)); auto. Qed.

Lemma p_var_value v p t : (has 34 v && has 39 v) = false -> pre_ok p ->
  p_var {| prev := p; rest := fmt_side (SVal v) ++ t |} = Some (SVal v, {| prev := Some (quote_of v); rest := t |}).
Proof.
  intros Hv Hp. unfold pre_ok in Hp. unfold p_var, bword. cbn [prev rest fmt_side app hd_opt].
  assert (B : boundary p (Some (quote_of v)) = false).
  { unfold boundary. rewrite Hp. destruct (quote_cases v) as [-> | ->]; reflexivity. }
  rewrite B. unfold p_quoted. cbn [rest].
  assert (Q : (quote_of v =? 39) || (quote_of v =? 34) = true) by (destruct (quote_cases v) as [-> | ->]; reflexivity).
  rewrite Q. rewrite <- app_assoc. cbn [app]. rewrite span_until by now apply quote_not_in.
  unfold adv; cbn [prev]. f_equal. f_equal. f_equal.
  change (quote_of v :: v ++ [quote_of v]) with ([quote_of v] ++ v ++ [quote_of v]). now rewrite !last_opt_app.
Qed.
Lemma p_var_side x p t : wf_side x -> pre_ok p -> tail_ok t ->
  p_var {| prev := p; rest := fmt_side x ++ t |} = Some (x, {| prev := last_opt p (fmt_side x); rest := t |}).
Proof.
  intros W Hp Ht. destruct x as [n|v]; cbn [wf_side] in W.
  - now apply p_var_name.
  - rewrite p_var_value by assumption. f_equal. f_equal. f_equal. cbn [fmt_side].
    change (quote_of v :: v ++ [quote_of v]) with ([quote_of v] ++ v ++ [quote_of v]). now rewrite !last_opt_app.
Qed.

Lemma skip_ws_none p t : match t with c :: _ => is_wsb c = false | [] => True end -> skip_ws {| prev := p; rest := t |} = {| prev := p; rest := t |}.
Proof. unfold skip_ws; cbn [rest]. destruct t as [|c t]; cbn [span]; [reflexivity|]. intros ->. reflexivity. Qed.
Lemma skip_ws_one p t : match t with c :: _ => is_wsb c = false | [] => True end ->
  skip_ws {| prev := p; rest := 32 :: t |} = {| prev := Some 32; rest := t |}.
Proof.
  intros H. unfold skip_ws; cbn [rest span]. replace (is_wsb 32) with true by reflexivity.
  destruct t as [|c t]; cbn [span]; [reflexivity|]. rewrite H. reflexivity.
Qed.

(* operators, after exactly one space *)
Lemma p_op_canon o t : In o canon_ops ->
  p_op {| prev := Some 32; rest := o ++ 32 :: t |} = Some (o, {| prev := last_opt (Some 32) o; rest := 32 :: t |}).
Proof.
  unfold canon_ops, op_alts. cbn [In app]. intros H.
  repeat (destruct H as [<-|H]; [vm_compute; reflexivity|]). contradiction.
Qed.

Definition wf_item (e : elem) : Prop :=
  match e with Item l o r => wf_side l /\ In o canon_ops /\ wf_side r | _ => False end.
Lemma side_hd_not_ws x t : wf_side x -> match fmt_side x ++ t with c :: _ => is_wsb c = false | [] => True end.
Proof.
  destruct x as [n|v]; cbn [wf_side fmt_side].
  - unfold canon_vars. cbn [In]. intros W. repeat (destruct W as [<-|W]; [reflexivity|]). contradiction.
  - intros _. cbn [app]. destruct (quote_cases v) as [-> | ->]; reflexivity.
Qed.
Lemma op_hd_not_ws o t : In o canon_ops -> match o ++ t with c :: _ => is_wsb c = false | [] => True end.
Proof. unfold canon_ops, op_alts. cbn [In app]. intros W. repeat (destruct W as [<-|W]; [reflexivity|]). contradiction. Qed.

Lemma p_item_canon l o r p t : wf_item (Item l o r) -> pre_ok p -> tail_ok t ->
  p_item {| prev := p; rest := fmt_elem (Item l o r) ++ t |} =
  Some (Item l o r, skip_ws {| prev := last_opt (Some 32) (fmt_side r); rest := t |}).
Proof.
  intros (Wl & Wo & Wr) Hp Ht. unfold p_item. cbv zeta. cbn [fmt_elem]. rewrite <- app_assoc. cbn [app]. rewrite <- app_assoc. cbn [app].
  rewrite skip_ws_none by (apply (side_hd_not_ws l _ Wl)).
  pose proof (p_var_side l p (32 :: o ++ 32 :: fmt_side r ++ t) Wl Hp) as E1.
  match goal with |- context [p_var ?s] => replace (p_var s) with (Some (l, {| prev := last_opt p (fmt_side l); rest := 32 :: o ++ 32 :: fmt_side r ++ t |})) by (symmetry; apply E1; cbn; auto) end.
  rewrite skip_ws_one by (apply (op_hd_not_ws o _ Wo)).
  pose proof (p_op_canon o (fmt_side r ++ t) Wo) as E2.
  match goal with |- context [p_op ?s] => replace (p_op s) with (Some (o, {| prev := last_opt (Some 32) o; rest := 32 :: fmt_side r ++ t |})) by (symmetry; exact E2) end.
  rewrite skip_ws_one by (apply (side_hd_not_ws r _ Wr)).
  pose proof (p_var_side r (Some 32) t Wr) as E3.
  match goal with |- context [p_var ?s] => replace (p_var s) with (Some (r, {| prev := last_opt (Some 32) (fmt_side r); rest := t |})) by (symmetry; apply E3; [reflexivity|assumption]) end.
  reflexivity.
Qed.
Print Assumptions p_item_canon.
