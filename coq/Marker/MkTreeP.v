(* C07: the nested list the parser returns IS the flattening of a formula tree in which 'and' binds tighter than 'or'
   (its parse tree), so the groups theorem applies to every accepted text. *)
From Coq Require Import List Arith NArith Bool Lia.
Import ListNotations.
Require Import MText MRound MRound2 MRound3 MkModel MkEval MkEvalP MkGroupsP MkFmtP MkShapeP MkRoundP.
Open Scope N_scope.
Arguments N.eqb : simpl never.
Arguments N.leb : simpl never.

Definition dummy : form := FAtom (SVal []) [] (SVal []).
(* the parse tree: or-separated groups, each a left-nested chain of 'and' *)
Fixpoint form_e (e : elem) : form :=
  match e with
  | Item l o r => FAtom l o r
  | BoolOp _ => dummy
  | Nested m =>
      FParen (match m with
              | [] => dummy
              | a :: r => (fix build (cur : form) (r : list elem) {struct r} : form :=
                             match r with
                             | BoolOp w :: e :: t =>
                                 if str_eqb w w_or then FOr cur (build (form_e e) t) else build (FAnd cur (form_e e)) t
                             | _ => cur
                             end) (form_e a) r
              end)
  end.
Fixpoint build (cur : form) (r : list elem) {struct r} : form :=
  match r with
  | BoolOp w :: e :: t => if str_eqb w w_or then FOr cur (build (form_e e) t) else build (FAnd cur (form_e e)) t
  | _ => cur
  end.
Definition form_l (m : list elem) : form := match m with [] => dummy | a :: r => build (form_e a) r end.
Lemma form_nested m : form_e (Nested m) = FParen (form_l m).
Proof. destruct m; reflexivity. Qed.

Lemma altr_ind2 (P : elem -> Prop) (Q : list elem -> Prop) :
  Q [] -> (forall w a t, In w bool_alts -> P a -> altr P t -> Q t -> Q (BoolOp w :: a :: t)) ->
  forall r, altr P r -> Q r.
Proof.
  intros H1 H2. fix F 1. intros [|b [|a t]] H.
  - exact H1.
  - destruct b; contradiction.
  - destruct b; try contradiction. cbn [altr] in H. destruct H as (Hw & Ha & Ht). apply H2; auto.
Qed.

Definition good (e : elem) : Prop := flat (form_e e) = [e] /\ conj_only (form_e e) = true.

Lemma build_ok r : altr good r -> forall cur, conj_only cur = true ->
  flat (build cur r) = flat cur ++ r /\ no_bare_or (build cur r) = true.
Proof.
  intros A. induction A as [| w a t Hw [Fa Ca] Ht IH] using altr_ind2; intros cur Hc.
  - cbn [build]. rewrite app_nil_r. split; [reflexivity | now apply conj_nbo].
  - cbn [build]. unfold bool_alts in Hw. cbn [In] in Hw. destruct Hw as [<-|[<-|[]]].
    + (* or *) change (str_eqb [111;114] w_or) with true. cbv iota.
      destruct (IH (form_e a) Ca) as [F N]. split.
      * cbn [flat]. rewrite F, Fa. reflexivity.
      * cbn [no_bare_or]. rewrite N, (conj_nbo _ Hc). reflexivity.
    + (* and *) change (str_eqb [97;110;100] w_or) with false. cbv iota.
      destruct (IH (FAnd cur (form_e a))) as [F N]; [cbn [conj_only]; now rewrite Hc, Ca|]. split; [|exact N].
      rewrite F. cbn [flat]. rewrite Fa, <- app_assoc. reflexivity.
Qed.

Lemma form_ok d : forall e, pfa d e -> good e.
Proof.
  induction d as [|d IH]; intros e H; [contradiction|].
  destruct e as [l o r | m | w]; cbn [pfa] in H; try contradiction.
  - split; reflexivity.
  - unfold good. rewrite form_nested. destruct m as [|a r]; [contradiction|].
    apply alt_cons in H as [Ha Hr].
    assert (Hr' : altr good r).
    { clear Ha. induction Hr as [| w x t Hw Hx Ht IHt] using altr_ind2; cbn [altr]; auto. }
    destruct (IH _ Ha) as [Fa Ca]. destruct (build_ok r Hr' (form_e a) Ca) as [F N].
    cbn [form_l flat conj_only]. rewrite F, Fa. split; [reflexivity | exact N].
Qed.

Theorem parse_tree d m : pfm d m -> flat (form_l m) = m /\ no_bare_or (form_l m) = true.
Proof.
  intros H. unfold pfm in H. destruct m as [|a r]; [contradiction|].
  apply alt_cons in H as [Ha Hr].
  assert (Hr' : altr good r).
  { clear Ha. induction Hr as [| w x t Hw Hx Ht IHt] using altr_ind2; cbn [altr]; auto. split; auto. split; auto. eapply form_ok; eauto. }
  destruct (form_ok d a Ha) as [Fa Ca]. destruct (build_ok r Hr' (form_e a) Ca) as [F N].
  cbn [form_l]. rewrite F, Fa. split; [reflexivity | exact N].
Qed.

(* every accepted text has a parse tree; its evaluation is the boolean value of that tree, for every valuation of the items *)
Theorem marker_is_formula s m : Marker s = MOk m ->
  exists f, no_bare_or f = true /\ flat f = m /\ forall evi, geval_markers evi m = den evi f.
Proof.
  intros H. apply Marker_shape in H as (Sh & _ & _). destruct (parse_tree _ _ Sh) as [F N].
  exists (form_l m). split; [exact N|]. split; [exact F|]. intros evi. rewrite <- F at 1. now apply groups_are_or_of_ands.
Qed.
Print Assumptions marker_is_formula.

(* ---------------- every variable the grammar accepts is defined in the effective environment: no KeyError ---------------- *)
Lemma shape_sides d : forall e, pfa d e -> forall x, In x (sides_e e) -> wf_side x.
Proof.
  induction d as [|d IH]; intros e H; [contradiction|].
  destruct e as [l o r | m | w]; cbn [pfa] in H; try contradiction.
  - destruct H as (Wl & _ & Wr). intros x [<-|[<-|[]]]; assumption.
  - rewrite sides_nested. induction H as [a Ha | a w t Ha Hw Ht IHt] using alt_ind2; cbn [sides_l]; intros x Hx.
    + rewrite app_nil_r in Hx. eapply IH; eauto.
    + apply in_app_or in Hx as [Hx|Hx]; [eapply IH; eauto | auto].
Qed.
Lemma shape_sides_l d m : pfm d m -> forall x, In x (sides_l m) -> wf_side x.
Proof. intros H. rewrite <- sides_nested. apply (shape_sides (S d) (Nested m)). exact H. Qed.

Definition typed (ov : option envmap) : Prop :=            (* None is a value for extra only *)
  match ov with None => True | Some o => forall k, lookup k o = Some None -> k = w_extra end.
Definition detects_all (defaults : list (str * str)) : Prop :=   (* default_environment() defines the 11 detected variables *)
  forall n, In n canon_vars -> n = w_extra \/ exists v, lookup_d n defaults = Some v.

Theorem env_complete defaults ov env : detects_all defaults -> typed ov -> effective_env defaults ov = Some env ->
  forall n, In n canon_vars -> exists v, lookup n env = Some (Some v).
Proof.
  intros HD HT HE n Hn. rewrite (effective_env_lookup defaults ov env n HE).
  assert (P : forall k, In k canon_vars -> exists v, pre_repair defaults ov k = Some (Some v)).
  { intros k Hk. unfold pre_repair. destruct ov as [o|].
    - destruct (lookup k o) as [[v|]|] eqn:E.
      + eauto.
      + rewrite (HT k E). rewrite str_eqb_refl. eauto.
      + destruct (str_eqb k w_extra) eqn:Ek; [eauto|]. destruct (HD k Hk) as [->|[v Hv]]; [now rewrite str_eqb_refl in Ek|]. rewrite Hv. cbn. eauto.
    - destruct (str_eqb k w_extra) eqn:Ek; [eauto|]. destruct (HD k Hk) as [->|[v Hv]]; [now rewrite str_eqb_refl in Ek|]. rewrite Hv. cbn. eauto. }
  destruct (str_eqb n w_pfv) eqn:En.
  - destruct (P w_pfv) as [v Hv]; [vm_compute; tauto|]. rewrite Hv. eauto.
  - now apply P.
Qed.
Theorem no_keyerror s m defaults ov env : Marker s = MOk m -> detects_all defaults -> typed ov ->
  effective_env defaults ov = Some env -> forall x, In x (sides_l m) -> side_value env x <> None.
Proof.
  intros HM HD HT HE x Hx. apply Marker_shape in HM as (Sh & _ & _).
  pose proof (shape_sides_l _ _ Sh x Hx) as W. destruct x as [n|v]; cbn [side_value wf_side] in *; [|discriminate].
  destruct (env_complete defaults ov env HD HT HE n W) as [v ->]. discriminate.
Qed.
Print Assumptions no_keyerror.
