(* C07 / C11: Marker.evaluate is total on accepted markers - under an environment whose detected part defines the eleven
   variables and whose supplied part is typed (None only for extra), evaluate() returns a bool or raises UndefinedComparison.
   The four ECrash sources of MkEval are jointly excluded:
     side_value = None      (KeyError / a None reaching a comparison)   <- no_keyerror
     Escaped from contains  (an exception out of Specifier.contains)     <- SpecLink.compare_op_total
     a bad BoolOp           (assert marker in ["and", "or"])             <- marker_is_formula (the parser only builds and/or)
     effective_env = None   (KeyError / AttributeError in the repair)    <- detects_all / typed
   The model has no digit limit (finding D10) and no recursion limit (finding D44): on the real code an operand with more than 4300
   digits in a row is answered by the string operator instead, and a marker nested ~490 deep raises RecursionError. *)
From Coq Require Import List Arith NArith Bool Lia.
Import ListNotations.
Require Import MText MRound MkModel MkEval MkEvalP MkGroupsP MkFmtP MkShapeP MkRoundP MkTreeP.
Require SpecContains SpecLink VKeyEq SpecModel.
Open Scope N_scope.
Arguments N.eqb : simpl never.
Arguments N.leb : simpl never.

(* ---- a comparison never fails with anything but UndefinedComparison ---- *)
Lemma contains_never_escapes s sp override arg item : SpecContains.Specifier s = Some sp ->
  SpecContains.contains sp override arg item <> SpecContains.Escaped.
Proof.
  intros S. unfold SpecContains.contains. destruct (SpecModel.Version item) as [c|] eqn:E; [|discriminate].
  destruct (_ && negb _); [discriminate|].
  destruct (SpecLink.compare_op_total s sp c S (VKeyEq.Version_wf _ _ E)) as [b ->]. discriminate.
Qed.
Lemma string_op_never_crashes l o r : string_op l o r <> ECrash.
Proof. unfold string_op. destruct (py_operator o); discriminate. Qed.
Theorem eval_op_never_crashes l o r : eval_op l o r <> ECrash.
Proof.
  unfold eval_op. destruct (SpecContains.Specifier (o ++ r)) as [sp|] eqn:S; [|apply string_op_never_crashes].
  pose proof (contains_never_escapes _ sp None (Some true) l S) as N.
  destruct (SpecContains.contains sp None (Some true) l); [discriminate | apply string_op_never_crashes | congruence].
Qed.
(* the dead arm of C07_eval_op_dispatch: for an accepted specifier and a valid version the operator method answers *)
Theorem eval_op_specifier_answers (lhs o rhs : str) sp c :
  SpecContains.Specifier (o ++ rhs) = Some sp -> SpecModel.Version lhs = Some c ->
  exists b, SpecContains.compare_op (SpecContains.sp_op sp) c (SpecContains.sp_text sp) = Some b /\ eval_op lhs o rhs = EBool b.
Proof.
  intros Hs Hv. destruct (SpecLink.compare_op_total _ sp c Hs (VKeyEq.Version_wf _ _ Hv)) as [b E].
  exists b. split; [exact E|]. rewrite (eval_op_specifier lhs o rhs sp c Hs Hv), E. reflexivity.
Qed.

(* ---- the first exception of a formula is the value of one of its comparisons ---- *)
Lemma sides_l_app a b : sides_l (a ++ b) = sides_l a ++ sides_l b.
Proof. induction a as [|x a IH]; cbn [app sides_l]; auto. now rewrite IH, app_assoc. Qed.
Lemma sides_flat_or f g w : sides_l (flat f ++ BoolOp w :: flat g) = sides_l (flat f) ++ sides_l (flat g).
Proof. rewrite sides_l_app. reflexivity. Qed.
Lemma ferr_is_item evi f e : ferr evi f = Some e ->
  exists l o r, e = evi l o r /\ In l (sides_l (flat f)) /\ In r (sides_l (flat f)).
Proof.
  revert e. induction f as [l o r | f IHf g IHg | f IHf g IHg | f IHf]; intros e; cbn [ferr flat].
  - destruct (is_exn (evi l o r)); [|discriminate]. intros [= <-]. exists l, o, r. cbn. auto.
  - rewrite sides_flat_or. destruct (ferr evi f) as [e'|].
    + intros [= <-]. destruct (IHf _ eq_refl) as (l & o & r & E & Hl & Hr). exists l, o, r. repeat split; auto; apply in_or_app; auto.
    + intros H. destruct (IHg _ H) as (l & o & r & E & Hl & Hr). exists l, o, r. repeat split; auto; apply in_or_app; auto.
  - rewrite sides_flat_or. destruct (ferr evi f) as [e'|].
    + intros [= <-]. destruct (IHf _ eq_refl) as (l & o & r & E & Hl & Hr). exists l, o, r. repeat split; auto; apply in_or_app; auto.
    + intros H. destruct (IHg _ H) as (l & o & r & E & Hl & Hr). exists l, o, r. repeat split; auto; apply in_or_app; auto.
  - intros H. destruct (IHf _ H) as (l & o & r & E & Hl & Hr). exists l, o, r.
    cbn [sides_l]. rewrite app_nil_r, sides_nested. auto.
Qed.

(* ---- the environment can be built ---- *)
Lemma pre_repair_defined defaults ov k : detects_all defaults -> typed ov -> In k canon_vars ->
  exists v, pre_repair defaults ov k = Some (Some v).
Proof.
  intros HD HT Hk. unfold pre_repair. destruct ov as [o|].
  - destruct (lookup k o) as [[v|]|] eqn:E.
    + eauto.
    + rewrite (HT k E). rewrite str_eqb_refl. eauto.
    + destruct (str_eqb k w_extra) eqn:Ek; [eauto|]. destruct (HD k Hk) as [->|[v Hv]]; [now rewrite str_eqb_refl in Ek|]. rewrite Hv. cbn. eauto.
  - destruct (str_eqb k w_extra) eqn:Ek; [eauto|]. destruct (HD k Hk) as [->|[v Hv]]; [now rewrite str_eqb_refl in Ek|]. rewrite Hv. cbn. eauto.
Qed.
Theorem effective_env_exists defaults ov : detects_all defaults -> typed ov -> exists env, effective_env defaults ov = Some env.
Proof.
  intros HD HT. destruct (effective_env defaults ov) as [env|] eqn:E; [eauto|]. exfalso.
  apply (proj2 (effective_env_defined defaults ov)); [|exact E].
  apply pre_repair_defined; auto. vm_compute. tauto.
Qed.

(* ---- totality ---- *)
Theorem eval_markers_total s m defaults ov env : Marker s = MOk m -> detects_all defaults -> typed ov ->
  effective_env defaults ov = Some env ->
  (exists b, eval_markers env m = EBool b) \/ eval_markers env m = EUndef.
Proof.
  intros HM HD HT HE. destruct (marker_is_formula s m HM) as (f & Nf & Ff & Df).
  change (eval_markers env m) with (geval_markers (eval_item env) m). rewrite Df. unfold den.
  destruct (ferr (eval_item env) f) as [e|] eqn:Fe; [|left; eauto].
  destruct (ferr_is_item _ _ _ Fe) as (l & o & r & -> & Hl & Hr). rewrite Ff in Hl, Hr.
  pose proof (no_keyerror s m defaults ov env HM HD HT HE l Hl) as Nl.
  pose proof (no_keyerror s m defaults ov env HM HD HT HE r Hr) as Nr.
  destruct (side_value env l) as [a|] eqn:Sl; [|congruence]. destruct (side_value env r) as [b|] eqn:Sr; [|congruence].
  rewrite (eval_item_spec env l o r a b Sl Sr).
  match goal with |- (exists b, ?x = _) \/ _ => assert (C : x <> ECrash) by (destruct (is_extra l || is_extra r); apply eval_op_never_crashes);
    destruct x; [left; eauto | right; reflexivity | congruence] end.
Qed.
Theorem evaluate_total s m defaults ov : Marker s = MOk m -> detects_all defaults -> typed ov ->
  (exists b, evaluate m defaults ov = EBool b) \/ evaluate m defaults ov = EUndef.
Proof.
  intros HM HD HT. destruct (effective_env_exists defaults ov HD HT) as [env HE]. unfold evaluate. rewrite HE.
  eapply eval_markers_total; eauto.
Qed.
Theorem evaluate_never_crashes s m defaults ov : Marker s = MOk m -> detects_all defaults -> typed ov ->
  evaluate m defaults ov <> ECrash.
Proof. intros HM HD HT. destruct (evaluate_total s m defaults ov HM HD HT) as [[b ->] | ->]; discriminate. Qed.

(* non-vacuity: a marker with an UndefinedComparison, one with a bool, under the 11 detected keys *)
Definition total_defaults : list (str * str) := map (fun n => (n, [51;46;57])) canon_vars.
Definition total_check : bool :=
  match Marker [111;115;95;110;97;109;101;32;126;61;32;34;120;34], Marker [111;115;95;110;97;109;101;32;60;32;34;120;34] with
  | MOk a, MOk b =>
      match evaluate a total_defaults None, evaluate b total_defaults (Some [(w_extra, None)]) with
      | EUndef, EBool true => true | _, _ => false end
  | _, _ => false
  end.
Example total_nonvacuous : total_check = true.
Proof. vm_compute. reflexivity. Qed.
Lemma total_defaults_detect : detects_all total_defaults.
Proof.
  intros n Hn. unfold canon_vars in Hn. cbn [In] in Hn.
  repeat (destruct Hn as [<-|Hn]; [first [left; reflexivity | right; eexists; vm_compute; reflexivity]|]). contradiction.
Qed.
Print Assumptions evaluate_total.
Print Assumptions evaluate_never_crashes.
