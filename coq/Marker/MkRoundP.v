(* C09: str(Marker(s)) parses back - to the peeled structure -, str is idempotent, evaluation is preserved for every
   valuation of the items; equality / hash are functions of str; the variant laws. *)
From Coq Require Import List Arith NArith Bool Lia.
Import ListNotations.
Require Import MText MRound MRound2 MRound3 MkModel MkEval MkEvalP MkFmtP MkShapeP.
Require Names MkGroupsP.
Open Scope N_scope.
Arguments N.eqb : simpl never.
Arguments N.leb : simpl never.

(* ---------------- the printed text is long enough to serve as fuel ---------------- *)
Fixpoint depth_e (e : elem) : nat :=
  match e with
  | Nested m => S ((fix dl (m : list elem) : nat := match m with [] => O | x :: t => Nat.max (depth_e x) (dl t) end) m)
  | Item _ _ _ => 1
  | BoolOp _ => 0
  end.
Fixpoint depth_l (m : list elem) : nat := match m with [] => O | x :: t => Nat.max (depth_e x) (depth_l t) end.
Lemma depth_nested m : depth_e (Nested m) = S (depth_l m).
Proof. reflexivity. Qed.

Lemma fmt_list_cons2 a w x t : fmt_list (a :: BoolOp w :: x :: t) = fmt_elem a ++ 32 :: w ++ 32 :: fmt_list (x :: t).
Proof. reflexivity. Qed.

Lemma tight d : forall e, wfa d e -> wfa (depth_e e) e /\ (depth_e e + size_e e <= length (fmt_elem e))%nat.
Proof.
  induction d as [|d IH]; intros e H; [contradiction|].
  destruct e as [l o r | m | w]; cbn [wfa] in H; try contradiction.
  - split; [exact H|]. cbn [depth_e size_e fmt_elem]. rewrite app_length. cbn [length]. rewrite app_length. cbn [length]. lia.
  - destruct H as [A L]. rewrite depth_nested, size_nested, fmt_nested. cbn [length]. rewrite app_length. cbn [length].
    assert (T : alt (wfa (depth_l m)) m /\ (depth_l m + size_l m <= length (fmt_list m))%nat).
    { clear L. induction A as [a Ha | a w t Ha Hw Ht IHt] using alt_ind2.
      - destruct (IH _ Ha) as [W B]. cbn [depth_l size_l alt fmt_list]. rewrite Nat.max_0_r. split; [exact W | lia].
      - destruct (IH _ Ha) as [W B]. destruct IHt as [Wt Bt]. pose proof (alt_nonempty _ _ Ht) as Ne.
        destruct t as [|x t']; [congruence|]. rewrite fmt_list_cons2.
        cbn [depth_l size_l size_e depth_e]. cbn [depth_l size_l] in Wt, Bt.
        set (dt := Nat.max (depth_e x) (depth_l t')) in *. set (st := (size_e x + size_l t')%nat) in *.
        rewrite Nat.max_0_l. split.
        + rewrite alt_step. split; [|split; [exact Hw|]].
          * eapply wfa_le; [|exact W]. lia.
          * eapply alt_impl; [|exact Wt]. intros y Hy. eapply wfa_le; [|exact Hy]. lia.
        + rewrite app_length. cbn [length]. rewrite app_length. cbn [length]. lia. }
    destruct T as [T1 T2]. split; [|lia]. cbn [wfa]. split; assumption.
Qed.
Lemma tight_l d m : wfm d m -> wfm (depth_l m) m /\ (depth_l m + size_l m <= length (fmt_list m))%nat.
Proof.
  intros W. destruct d as [|d].
  { unfold wfm in W. destruct m as [|a [|b t]]; cbn in W; try contradiction. destruct b; try contradiction. tauto. }
  assert (T : wfa (S (S d)) (Nested m) \/ (length m < 3)%nat).
  { destruct (le_lt_dec 3 (length m)); [left|right; assumption]. cbn [wfa]. split; [|assumption].
    eapply alt_impl; [|exact W]. auto. }
  destruct T as [T|T].
  - apply tight in T as [T1 T2]. rewrite depth_nested, size_nested, fmt_nested in *. cbn [wfa] in T1. destruct T1 as [T1 _].
    split; [exact T1|]. cbn [length] in T2. rewrite app_length in T2. cbn [length] in T2. lia.
  - unfold wfm in *. destruct m as [|a [|b t]]; try contradiction.
    + cbn [alt] in W. apply tight in W as [W1 W2]. cbn [depth_l size_l alt fmt_list]. rewrite Nat.max_0_r. split; [exact W1|lia].
    + destruct b; try contradiction. cbn [alt] in W. destruct W as (_ & _ & W). destruct t; [contradiction|]. cbn in T. lia.
Qed.

(* ---------------- the round trip on structures ---------------- *)
Theorem format_parses d m : pfm d m -> parse_marker_nl (format_marker m) = Some (peel_top m).
Proof.
  intros H. destruct (format_peel d m H) as (W & _ & F). rewrite F.
  apply tight_l in W as [W B].
  destruct (marker_roundtrip (depth_l (peel_top m)) (S (length (fmt_list (peel_top m)))) (peel_top m) None [] W) as [q E].
  - lia.
  - reflexivity.
  - now left.
  - unfold parse_marker_nl. rewrite app_nil_r in E. rewrite E. reflexivity.
Qed.
Theorem format_idem d m : pfm d m -> format_marker (peel_top m) = format_marker m.
Proof.
  intros H. destruct (format_peel d m H) as (W & T & F). rewrite F.
  destruct (format_peel d (peel_top m) (wfm_pfm _ _ W)) as (_ & _ & F2). rewrite F2.
  now rewrite (peel_top_canon d _ W T).
Qed.

(* the same with MText.parse_marker (END at the very end of the text), for a structure parsed with any fuel and any
   start state - the form the requirement model (coq/Req) needs for the marker attached to a Requirement *)
Theorem format_parses_strict d m : pfm d m -> MText.parse_marker (format_marker m) = Some (peel_top m).
Proof.
  intros H. destruct (format_peel d m H) as (W & _ & F). rewrite F.
  apply tight_l in W as [W B].
  destruct (marker_roundtrip (depth_l (peel_top m)) (S (length (fmt_list (peel_top m)))) (peel_top m) None [] W) as [q E].
  - lia.
  - reflexivity.
  - now left.
  - unfold MText.parse_marker. rewrite app_nil_r in E. rewrite E. reflexivity.
Qed.
Theorem parsed_marker_roundtrip fuel s m0 s' : p_marker fuel s = Some (m0, s') -> lit_class m0 = LOk ->
  exists m', MText.parse_marker (format_marker (norm_l m0)) = Some m' /\ lit_class m' = LOk /\
             format_marker (norm_l m') = format_marker (norm_l m0).
Proof.
  intros P L. pose proof (norm_l_shape _ _ (p_marker_shape _ _ _ _ P)) as Sh.
  exists (peel_top (norm_l m0)). split; [|split].
  - eapply format_parses_strict; eauto.
  - rewrite lit_class_peel_top. now apply lit_class_norm.
  - rewrite norm_peel_top, norm_l_idem. eapply format_idem; eauto.
Qed.

(* ---------------- the round trip on Marker objects ---------------- *)
Lemma Marker_ok s m : Marker s = MOk m ->
  exists m0, parse_marker_nl s = Some m0 /\ lit_class m0 = LOk /\ m = norm_l m0.
Proof.
  unfold Marker. destruct (parse_marker_nl s) as [m0|]; [|discriminate].
  destruct (lit_class m0) eqn:L; try discriminate. intros [= <-]. eauto.
Qed.
Lemma Marker_shape s m : Marker s = MOk m -> pfm (S (length s)) m /\ lit_class m = LOk /\ norm_l m = m.
Proof.
  intros H. apply Marker_ok in H as (m0 & P & L & ->). split; [|split].
  - apply norm_l_shape. now apply parse_marker_nl_shape.
  - now apply lit_class_norm.
  - apply norm_l_idem.
Qed.

(* str(Marker(s)) is a valid marker; it parses to the same structure with single-element groups dissolved;
   its string is the same; it evaluates identically under every valuation of the items (hence in every environment) *)
Theorem str_roundtrip s m : Marker s = MOk m ->
  Marker (format_marker m) = MOk (peel_top m)
  /\ format_marker (peel_top m) = format_marker m
  /\ (forall evi, geval_markers evi (peel_top m) = geval_markers evi m)
  /\ sides_l (peel_top m) = sides_l m.
Proof.
  intros H. apply Marker_shape in H as (Sh & L & N). split; [|split; [|split]].
  - unfold Marker. rewrite (format_parses _ _ Sh). rewrite lit_class_peel_top, L. now rewrite norm_peel_top, N.
  - eapply format_idem; eauto.
  - intros evi. apply geval_peel_top.
  - apply sides_peel_top.
Qed.
Corollary str_roundtrip_eval s m defaults ov : Marker s = MOk m ->
  evaluate (peel_top m) defaults ov = evaluate m defaults ov.
Proof.
  intros H. unfold evaluate. destruct (effective_env defaults ov) as [env|]; [|reflexivity].
  apply (proj1 (proj2 (proj2 (str_roundtrip s m H)))).
Qed.
Corollary str_roundtrip_eq s m : Marker s = MOk m -> marker_eq (peel_top m) m = true.
Proof. intros H. unfold marker_eq. rewrite (proj1 (proj2 (str_roundtrip s m H))). apply str_eqb_refl. Qed.

(* ---------------- grouping is preserved: the reparsed string of a formula still denotes that formula ---------------- *)
Theorem str_keeps_grouping s f : MkGroupsP.no_bare_or f = true -> Marker s = MOk (MkGroupsP.flat f) ->
  exists m', Marker (format_marker (MkGroupsP.flat f)) = MOk m' /\ forall evi, geval_markers evi m' = MkGroupsP.den evi f.
Proof.
  intros Hf H. exists (peel_top (MkGroupsP.flat f)). destruct (str_roundtrip _ _ H) as (R & _ & E & _). split; [exact R|].
  intros evi. rewrite E. now apply MkGroupsP.groups_are_or_of_ands.
Qed.

(* ---------------- equality and hash ---------------- *)
Theorem marker_eq_iff a b : marker_eq a b = true <-> format_marker a = format_marker b.
Proof. apply str_eqb_eq. Qed.
(* __hash__ = hash((class name, str(self))): any function of the string agrees on equal markers *)
Theorem marker_hash_agrees (h : str -> N) a b : marker_eq a b = true -> h (format_marker a) = h (format_marker b).
Proof. intros H. apply marker_eq_iff in H. now rewrite H. Qed.

(* ---------------- variants ---------------- *)
(* redundant outer parentheses, any number of them *)
Theorem variant_outer_parens m : format_marker [Nested m] = format_marker m.
Proof. reflexivity. Qed.
(* parentheses around a single comparison, or doubled parentheses, inside a list *)
Theorem variant_inner_parens_item first l o r : fmt_e first (Nested [Item l o r]) = fmt_e first (Item l o r).
Proof. reflexivity. Qed.
Theorem variant_inner_parens_group first m : fmt_e first (Nested [Nested m]) = fmt_e first (Nested m).
Proof. reflexivity. Qed.
(* the spelling of a name compared with extra, on either side, at any position *)
Theorem variant_extra_right (n o v1 v2 : str) : str_eqb n w_extra = true -> Names.canon_name v1 = Names.canon_name v2 ->
  norm_e (Item (SVar n) o (SVal v1)) = norm_e (Item (SVar n) o (SVal v2)).
Proof. intros E H. cbn [norm_e]. unfold norm_item. cbn [is_extra]. rewrite E. now rewrite H. Qed.
Theorem variant_extra_left (n o v1 v2 : str) : str_eqb n w_extra = true -> Names.canon_name v1 = Names.canon_name v2 ->
  norm_e (Item (SVal v1) o (SVar n)) = norm_e (Item (SVal v2) o (SVar n)).
Proof. intros E H. cbn [norm_e]. unfold norm_item. cbn [is_extra]. rewrite E. now rewrite H. Qed.
(* two parsed structures that agree up to extra-name spelling give equal markers *)
Theorem variant_norm_equal a b : norm_l a = norm_l b -> marker_eq (norm_l a) (norm_l b) = true.
Proof. intros ->. apply marker_eq_iff. reflexivity. Qed.
(* two structures with the same peeled form (they differ only in single-element groups) print alike *)
Theorem variant_peel_equal d a b : pfm d a -> pfm d b -> peel_top a = peel_top b -> marker_eq a b = true.
Proof.
  intros Ha Hb E. apply marker_eq_iff. destruct (format_peel d a Ha) as (_ & _ & ->), (format_peel d b Hb) as (_ & _ & ->). now rewrite E.
Qed.

(* ---------------- quoting preserves each literal ---------------- *)
Theorem quote_preserves_literal v p t : (has 34 v && has 39 v) = false -> pre_ok p ->
  p_var {| prev := p; rest := ser_side (SVal v) ++ t |} = Some (SVal v, {| prev := Some (ser_quote v); rest := t |}).
Proof. intros Hv Hp. exact (p_var_value v p t Hv Hp). Qed.
(* the quote chosen never occurs in the literal, and it is the double quote unless the literal needs the other one *)
Theorem quote_choice v : (has 34 v && has 39 v) = false ->
  has_char (ser_quote v) v = false /\ (has_char 34 v = false -> ser_quote v = 34).
Proof.
  intros H. split; [exact (quote_not_in v H)|]. unfold ser_quote. now intros ->.
Qed.

Print Assumptions str_roundtrip.
Print Assumptions str_keeps_grouping.
