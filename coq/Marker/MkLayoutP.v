(* C07 / C09, text level: EVERY layout of a marker expression - arbitrary runs of spaces and tabs wherever the grammar
   allows whitespace (and none where two tokens are not both word-like), either quote style, every spelling of the
   variables, all ten operators, any nesting of parentheses - is parsed to the same structure.
   RList m t : "t is a text of the structure m" (no outer whitespace);  layout_parse : RList m t -> parse (ws t ws) = m. *)
From Coq Require Import List Arith NArith Bool Lia.
Import ListNotations.
Require Import MText MRound MRound2 MRound3 MkModel MkLexP.
Open Scope N_scope.
Arguments N.eqb : simpl never.
Arguments N.leb : simpl never.

Inductive RAtom : elem -> str -> Prop :=
| RItem l tl o to r tr g1 g2 :
    RSide l tl -> ROp o to -> RSide r tr -> is_ws_str g1 = true -> is_ws_str g2 = true ->
    sep_ok tl g1 to -> sep_ok to g2 tr ->
    RAtom (Item l o r) (tl ++ g1 ++ to ++ g2 ++ tr)
| RNest m t g1 g2 : RList m t -> is_ws_str g1 = true -> is_ws_str g2 = true ->
    RAtom (Nested m) (40 :: g1 ++ t ++ g2 ++ [41])
with RList : list elem -> str -> Prop :=
| ROne a t : RAtom a t -> RList [a] t
| RCons a ta g1 w g2 m tm : RAtom a ta -> In w bool_alts -> RList m tm ->
    is_ws_str g1 = true -> is_ws_str g2 = true -> sep_ok ta g1 w -> sep_ok w g2 tm ->
    RList (a :: BoolOp w :: m) (ta ++ g1 ++ w ++ g2 ++ tm).
Scheme RAtom_min := Minimality for RAtom Sort Prop
  with RList_min := Minimality for RList Sort Prop.
Combined Scheme R_mutind from RAtom_min, RList_min.

(* ---------------- the ends of a text ---------------- *)
Lemma hd_not_ws_app a b : a <> [] -> hd_not_ws a -> hd_not_ws (a ++ b).
Proof. destruct a; [congruence|auto]. Qed.
Lemma hd_is_c_app c a b : a <> [] -> hd_is_c c (a ++ b) = hd_is_c c a.
Proof. destruct a; [congruence|reflexivity]. Qed.
Lemma atom_text a t : RAtom a t -> t <> [] /\ hd_not_ws t.
Proof.
  intros [l tl o to r tr g1 g2 Hl Ho Hr _ _ _ _ | m t0 g1 g2 _ _ _].
  - pose proof (side_nonempty _ _ Hl) as Ne. destruct (side_heads _ _ Hl) as (W & _). split.
    + destruct tl; [congruence|discriminate].
    + now apply hd_not_ws_app.
  - split; [discriminate|reflexivity].
Qed.
Lemma list_text m t : RList m t -> t <> [] /\ hd_not_ws t.
Proof.
  intros [a t0 Ha | a ta g1 w g2 m0 tm Ha _ _ _ _ _ _]; destruct (atom_text _ _ Ha) as [Ne W]; [auto|]. split.
  - destruct ta; [congruence|discriminate].
  - now apply hd_not_ws_app.
Qed.
Lemma bool_props w : In w bool_alts -> others_clash bool_alts w = true /\ w <> [] /\ starts_word w = true /\ ends_word w = true /\ hd_not_ws w.
Proof. unfold bool_alts. cbn [In]. intros [<-|[<-|[]]]; repeat split; try reflexivity; discriminate. Qed.

Lemma ws_char_not_eq c : is_wsb c = true -> (c =? 61) = false.
Proof. unfold is_wsb. intros H. apply orb_prop in H as [H|H]; apply N.eqb_eq in H; subst; reflexivity. Qed.

(* ---------------- one comparison ---------------- *)
Lemma p_item_R l tl o to r tr g1 g2 p X :
  RSide l tl -> ROp o to -> RSide r tr -> is_ws_str g1 = true -> is_ws_str g2 = true ->
  sep_ok tl g1 to -> sep_ok to g2 tr ->
  (starts_word tl = true -> wordness p = false) -> (ends_word tr = true -> wordness (hd_opt X) = false) ->
  p_item {| prev := p; rest := (tl ++ g1 ++ to ++ g2 ++ tr) ++ X |} =
    Some (Item l o r, skip_ws {| prev := last_opt p (tl ++ g1 ++ to ++ g2 ++ tr); rest := X |}).
Proof.
  intros Hl Ho Hr W1 W2 S1 S2 Hp HX.
  pose proof (side_nonempty _ _ Hl) as Nl. pose proof (side_nonempty _ _ Hr) as Nr. pose proof (op_nonempty _ _ Ho) as No.
  destruct (side_heads _ _ Hl) as (Wl & _ & _). destruct (side_heads _ _ Hr) as (Wr & _ & Er). pose proof (op_heads _ _ Ho) as Wo.
  unfold p_item. cbv zeta. nrm. rewrite <- !app_assoc.
  rewrite skip_ws_none by (apply hd_not_ws_app; assumption).
  (* left operand *)
  rwn (p_var_side l tl p (g1 ++ to ++ g2 ++ tr ++ X) Hl Hp).
  2:{ intros E. apply sep_next; [exact W1|]. rewrite starts_word_app by exact No. intros St. now apply S1. }
  rewrite skip_gap by (try exact W1; apply hd_not_ws_app; assumption).
  (* operator *)
  set (pp := last_opt (last_opt p tl) g1).
  rwn (p_op_tok o to pp (g2 ++ tr ++ X) Ho).
  2:{ intros St. apply sep_prev; auto. }
  2:{ intros E. apply sep_next; [exact W2|]. rewrite starts_word_app by exact Nr. intros St. now apply S2. }
  2:{ destruct g2 as [|c g2]; cbn [app].
      - destruct tr as [|c tr]; [congruence|]. cbn in Er |- *. exact Er.
      - cbn in W2. apply andb_prop in W2 as [Wc _]. cbn. now apply ws_char_not_eq. }
  rewrite skip_gap by (try exact W2; apply hd_not_ws_app; assumption).
  (* right operand *)
  set (pp2 := last_opt (last_opt pp to) g2).
  rwn (p_var_side r tr pp2 X Hr).
  2:{ intros St. apply sep_prev; auto. }
  2:{ exact HX. }
  do 3 f_equal. unfold pp2, pp. now rewrite !last_opt_app.
Qed.

(* ---------------- atoms and lists, by mutual induction on the rendering ---------------- *)
Definition seq_with (pa : st -> option (elem * st)) (k : nat) (acc : list elem) (s : st) : option (list elem * st) :=
  match pa s with Some (a, s1) => loop_with pa k (a :: acc) s1 | None => None end.
Lemma p_marker_seq f s : p_marker (S f) s = seq_with (p_atom_with (p_marker f)) (S f) [] s.
Proof. reflexivity. Qed.
Lemma seq_skip pm k acc s : seq_with (p_atom_with pm) k acc s = seq_with (p_atom_with pm) k acc (skip_ws s).
Proof. unfold seq_with. now rewrite <- atom_skip. Qed.

Definition tail_end' (T : str) : Prop := match T with [] => True | c :: _ => c = 41 \/ c = 10 end.
Lemma tail_end'_word T : tail_end' T -> wordness (hd_opt T) = false.
Proof. destruct T as [|c T]; [reflexivity|]. intros [-> | ->]; reflexivity. Qed.
Lemma tail_end'_bword p T : tail_end' T -> bword bool_alts {| prev := p; rest := T |} = None.
Proof.
  destruct T as [|c T]; intros H.
  - apply bword_miss_nil. reflexivity.
  - apply bword_miss_hd. destruct H as [-> | ->]; reflexivity.
Qed.

Definition P_atom (a : elem) (ta : str) : Prop := forall f p X,
  (size_e a <= S f)%nat -> (starts_word ta = true -> wordness p = false) -> (ends_word ta = true -> wordness (hd_opt X) = false) ->
  p_atom_with (p_marker f) {| prev := p; rest := ta ++ X |} = Some (a, skip_ws {| prev := last_opt p ta; rest := X |}).
Definition P_list (m : list elem) (t : str) : Prop := forall f acc k p g T,
  (size_l m <= S f)%nat -> (length m <= k)%nat -> (starts_word t = true -> wordness p = false) ->
  is_ws_str g = true -> tail_end' T ->
  seq_with (p_atom_with (p_marker f)) k acc {| prev := p; rest := t ++ g ++ T |} =
    Some (rev acc ++ m, {| prev := last_opt (last_opt p t) g; rest := T |}).

Lemma gap_tail_word g T : is_ws_str g = true -> tail_end' T -> wordness (hd_opt (g ++ T)) = false.
Proof. intros Hg HT. rewrite gap_hd by exact Hg. destruct g; [now apply tail_end'_word | reflexivity]. Qed.
Lemma tail_end'_not_ws T : tail_end' T -> hd_not_ws T.
Proof. destruct T as [|c T]; [auto|]. intros [-> | ->]; reflexivity. Qed.

Theorem layout_mut : (forall a ta, RAtom a ta -> P_atom a ta) /\ (forall m t, RList m t -> P_list m t).
Proof.
  apply R_mutind.
  - (* item *)
    intros l tl o to r tr g1 g2 Hl Ho Hr W1 W2 S1 S2 f p X _ Hp HX.
    pose proof (side_nonempty _ _ Hl) as Nl. pose proof (side_nonempty _ _ Hr) as Nr.
    destruct (side_heads _ _ Hl) as (Wl & Pl & _).
    unfold p_atom_with. cbv zeta.
    assert (Hd : hd_not_ws ((tl ++ g1 ++ to ++ g2 ++ tr) ++ X)) by (rewrite <- app_assoc; now apply hd_not_ws_app).
    rewrite skip_ws_none by exact Hd. cbn [rest].
    assert (H40 : hd_is_c 40 ((tl ++ g1 ++ to ++ g2 ++ tr) ++ X) = false) by (rewrite <- app_assoc; now rewrite hd_is_c_app).
    rewrite H40.
    nrm; rwn (p_item_R l tl o to r tr g1 g2 p X Hl Ho Hr W1 W2 S1 S2).
    + now rewrite skip_ws_idem.
    + intros St. apply Hp. now rewrite starts_word_app.
    + intros E. apply HX. rewrite !app_assoc. now rewrite ends_word_app.
  - (* parenthesised list *)
    intros m t g1 g2 HR IH W1 W2 f p X Hsz _ _.
    destruct (list_text _ _ HR) as [Nt Wt].
    rewrite size_nested in Hsz. assert (Hf : (size_l m <= f)%nat) by lia.
    pose proof (size_ge_len m) as Hlen.
    assert (Hpos : (1 <= size_l m)%nat).
    { destruct HR as [a ? ?|a ? ? ? ? ? ? ? ? ? ? ? ? ?]; cbn [size_l]; destruct a; cbn [size_e]; lia. }
    destruct f as [|f']; [lia|].
    unfold p_atom_with. cbv zeta. cbn [app].
    rewrite skip_ws_none by reflexivity. cbn [rest hd_is_c]. replace (40 =? 40) with true by reflexivity. cbn [tl].
    unfold adv at 1. cbn [prev last_opt].
    rewrite <- !app_assoc. cbn [app].
    rewrite skip_gap by (try exact W1; now apply hd_not_ws_app).
    rewrite p_marker_seq.
    nrm; rwn (IH f' [] (S f') (last_opt (Some 40) g1) g2 (41 :: X)); try assumption; try lia.
    + cbn [rev app]. rewrite skip_ws_none by reflexivity. cbn [rest hd_is_c]. replace (41 =? 41) with true by reflexivity. cbn [tl].
      unfold adv. cbn [prev]. do 3 f_equal.
      change (40 :: g1 ++ t ++ g2 ++ [41]) with ([40] ++ g1 ++ t ++ g2 ++ [41]). rewrite !last_opt_app. reflexivity.
    + intros _. rewrite gap_last by exact W1. destruct g1; reflexivity.
    + now left.
  - (* single atom *)
    intros a t HA IH f acc k p g T Hsz Hk Hp Hg HT.
    destruct (atom_text _ _ HA) as [Nt Wt].
    unfold seq_with. cbn [size_l] in Hsz.
    nrm; rwn (IH f p (g ++ T)); [|lia|exact Hp|intros _; now apply gap_tail_word].
    rewrite skip_gap by (try exact Hg; now apply tail_end'_not_ws).
    destruct k as [|k]; [cbn in Hk; lia|]. cbn [loop_with].
    rewrite tail_end'_bword by exact HT. cbn [rev]. reflexivity.
  - (* atom BOOLOP list *)
    intros a ta g1 w g2 m tm HA IHa Hw HR IHm W1 W2 S1 S2 f acc k p g T Hsz Hk Hp Hg HT.
    destruct (atom_text _ _ HA) as [Na Wa]. destruct (list_text _ _ HR) as [Nm Wm].
    destruct (bool_props w Hw) as (Cw & Nw & Sw & Ew & Ww).
    cbn [size_l size_e] in Hsz. cbn [length] in Hk.
    unfold seq_with. rewrite <- !app_assoc.
    nrm; rwn (IHa f p (g1 ++ w ++ g2 ++ tm ++ g ++ T)).
    2:{ lia. }
    2:{ intros St. apply Hp. now rewrite starts_word_app. }
    2:{ intros E. apply sep_next; [exact W1|]. rewrite starts_word_app by exact Nw. intros _. now apply S1. }
    rewrite skip_gap by (try exact W1; now apply hd_not_ws_app).
    destruct k as [|k]; [lia|]. cbn [loop_with].
    set (pp := last_opt (last_opt p ta) g1).
    nrm; rwn (bword_hit bool_alts w pp (g2 ++ tm ++ g ++ T) Hw Cw Nw Sw Ew).
    2:{ apply sep_prev; auto. }
    2:{ apply sep_next; [exact W2|]. rewrite starts_word_app by exact Nm. intros St. now apply S2. }
    fold (seq_with (p_atom_with (p_marker f)) k (BoolOp w :: a :: acc) {| prev := last_opt pp w; rest := g2 ++ tm ++ g ++ T |}).
    rewrite seq_skip. rewrite skip_gap by (try exact W2; now apply hd_not_ws_app).
    nrm; rwn (IHm f (BoolOp w :: a :: acc) k (last_opt (last_opt pp w) g2) g T); try assumption; try lia.
    + cbn [rev]. rewrite <- !app_assoc. cbn [app]. do 3 f_equal. unfold pp. now rewrite !last_opt_app.
    + intros St. apply sep_prev; auto.
Qed.

(* ---------------- sizes: the text is at least as long as the structure is big ---------------- *)
Lemma size_text : (forall a ta, RAtom a ta -> (size_e a <= length ta)%nat) /\ (forall m t, RList m t -> (size_l m <= length t)%nat).
Proof.
  apply R_mutind.
  - intros l tl o to r tr g1 g2 Hl _ _ _ _ _ _. pose proof (side_nonempty _ _ Hl). rewrite app_length. destruct tl; [congruence|cbn; lia].
  - intros m t g1 g2 _ IH _ _. rewrite size_nested. cbn [length]. rewrite !app_length. cbn [length]. lia.
  - intros a t _ IH. cbn [size_l]. lia.
  - intros a ta g1 w g2 m tm _ IHa Hw _ IHm _ _ _ _. cbn [size_l size_e]. rewrite !app_length.
    destruct (bool_props w Hw) as (_ & Nw & _). destruct w; [congruence|]. cbn [length]. lia.
Qed.

(* ---------------- the whole text: optional whitespace around, optionally a final newline ---------------- *)
Theorem layout_parse m t g0 g3 nl : RList m t -> is_ws_str g0 = true -> is_ws_str g3 = true -> nl = [] \/ nl = [10] ->
  parse_marker_nl (g0 ++ t ++ g3 ++ nl) = Some m.
Proof.
  intros HR W0 W3 Hnl. destruct (list_text _ _ HR) as [Nt Wt].
  unfold parse_marker_nl. rewrite p_marker_seq, seq_skip.
  rewrite skip_gap by (try exact W0; now apply hd_not_ws_app).
  pose proof (proj2 size_text m t HR) as Hs.
  nrm; rwn (proj2 layout_mut m t HR (length (g0 ++ t ++ g3 ++ nl)) [] (S (length (g0 ++ t ++ g3 ++ nl))) (last_opt None g0) g3 nl).
  - cbn [rev app rest]. destruct Hnl as [-> | ->]; reflexivity.
  - rewrite !app_length. lia.
  - pose proof (size_ge_len m). rewrite !app_length. lia.
  - intros _. rewrite gap_last by exact W0. destruct g0; reflexivity.
  - exact W3.
  - destruct Hnl as [-> | ->]; cbn; auto.
Qed.
Print Assumptions layout_parse.
