(* Laws of the filename / tag model (C14), part 2: the wheel and sdist parsers against the encoders of the two packaging specs. *)
From Coq Require Import List Arith NArith Bool Lia.
Import ListNotations.
Require Import S1 VParse VComplete VTop VDec Py VMeaning VCanon SpecModel CanonLaws Names NamesSpec NamesAscii NamesLaws LowerTable WordTable NamesX NamesLower NamesLowerLaws NamesLowerFull WheelModel Wheel.
Arguments N.ltb : simpl never.
Open Scope N_scope.
Arguments N.eqb : simpl never.
Arguments N.leb : simpl never.

(* ---------------- the file name as text: {name}-{version}(-{build})?-{python}-{abi}-{platform}.whl ---------------- *)
Record wheel := { w_name : str; w_ver : str; w_build : option str; w_py : str; w_abi : str; w_plat : str }.
Definition tagpart (w : wheel) : str := w_py w ++ dash :: w_abi w ++ dash :: w_plat w.
Definition stem (w : wheel) : str :=
  w_name w ++ dash :: w_ver w ++ match w_build w with Some b => dash :: b | None => [] end ++ dash :: tagpart w.
Definition encode (w : wheel) : str := stem w ++ w_whl.
Definition wf_wheel (w : wheel) : Prop :=
  nochar dash (w_name w) = true /\ nochar dash (w_ver w) = true /\
  (match w_build w with Some b => nochar dash b = true | None => True end) /\
  nochar dash (w_py w) = true /\ nochar dash (w_abi w) = true /\ nochar dash (w_plat w) = true.

(* what the parser must answer on encode w, component by component *)
Definition wheel_spec (w : wheel) : fres wheel_out :=
  if name_bad (w_name w) then FErr else
  match Version (w_ver w) with
  | None => FErr
  | Some v =>
    let tags := tag_product (split_all 46 (w_py w)) (split_all 46 (w_abi w)) (split_all 46 (w_plat w)) in
    match w_build w with
    | None => FOk (canon_full (w_name w), v, None, tags)
    | Some b => match build_of b with None => FErr | Some bt => FOk (canon_full (w_name w), v, Some bt, tags) end
    end
  end.

Lemma stem_split w : wf_wheel w ->
  count_c dash (stem w) = (match w_build w with Some _ => 5 | None => 4 end)%nat /\
  split_max dash (match w_build w with Some _ => 3 | None => 2 end) (stem w)
  = w_name w :: w_ver w :: match w_build w with Some b => [b] | None => [] end ++ [tagpart w].
Proof.
  intros (Hn & Hv & Hb & Hp & Ha & Hl). unfold stem, tagpart. split.
  - destruct (w_build w) as [b|]; repeat (rewrite ?count_app; cbn [count_c app]); unfold dash in *; rewrite !N.eqb_refl;
      rewrite !count_nochar by assumption; reflexivity.
  - destruct (w_build w) as [b|]; cbn [app].
    + rewrite split_max_step by assumption. rewrite split_max_step by assumption. rewrite split_max_step by assumption. reflexivity.
    + rewrite split_max_step by assumption. rewrite split_max_step by assumption. reflexivity.
Qed.

Theorem parse_wheel_encode w : wf_wheel w -> parse_wheel (encode w) = wheel_spec w.
Proof.
  intros W. destruct (stem_split w W) as [C S]. pose proof W as (Hn & Hv & Hb & Hp & Ha & Hl).
  unfold parse_wheel, encode. rewrite ends_with_app. change 4%nat with (length w_whl). rewrite drop_last_app. cbn [negb].
  rewrite C. unfold wheel_spec.
  destruct (w_build w) as [b|] eqn:EB; cbn [Nat.eqb orb negb Nat.sub]; rewrite S; cbn [app nth_error rev].
  - destruct (name_bad (w_name w)); [reflexivity|]. destruct (Version (w_ver w)) as [v|]; [|reflexivity].
    destruct (build_of b) as [bt|]; [|reflexivity]. unfold tagpart. now rewrite parse_tag_encode.
  - destruct (name_bad (w_name w)); [reflexivity|]. destruct (Version (w_ver w)) as [v|]; [|reflexivity].
    unfold tagpart. now rewrite parse_tag_encode.
Qed.

(* every name that passes the extension and part-count tests is encode w for some w: the decomposition above is exhaustive *)
Lemma decode_exists fn : ends_with w_whl fn = true ->
  (count_c dash (drop_last 4 fn) = 4 \/ count_c dash (drop_last 4 fn) = 5)%nat -> exists w, wf_wheel w /\ fn = encode w.
Proof.
  intros E C. apply ends_with_split in E. change (length w_whl) with 4%nat in E. set (st := drop_last 4 fn) in *.
  destruct C as [C|C].
  - destruct (count_split _ _ _ C) as (a0 & r0 & E0 & N0 & C0). destruct (count_split _ _ _ C0) as (a1 & r1 & E1 & N1 & C1).
    destruct (count_split _ _ _ C1) as (a2 & r2 & E2 & N2 & C2). destruct (count_split _ _ _ C2) as (a3 & r3 & E3 & N3 & C3).
    apply count_zero in C3.
    exists {| w_name := a0; w_ver := a1; w_build := None; w_py := a2; w_abi := a3; w_plat := r3 |}. split; [repeat split; assumption|].
    rewrite E. unfold encode, stem, tagpart. cbn [w_name w_ver w_build w_py w_abi w_plat app]. now rewrite E0, E1, E2, E3.
  - destruct (count_split _ _ _ C) as (a0 & r0 & E0 & N0 & C0). destruct (count_split _ _ _ C0) as (a1 & r1 & E1 & N1 & C1).
    destruct (count_split _ _ _ C1) as (a2 & r2 & E2 & N2 & C2). destruct (count_split _ _ _ C2) as (a3 & r3 & E3 & N3 & C3).
    destruct (count_split _ _ _ C3) as (a4 & r4 & E4 & N4 & C4). apply count_zero in C4.
    exists {| w_name := a0; w_ver := a1; w_build := Some a2; w_py := a3; w_abi := a4; w_plat := r4 |}. split; [repeat split; assumption|].
    rewrite E. unfold encode, stem, tagpart. cbn [w_name w_ver w_build w_py w_abi w_plat app]. now rewrite E0, E1, E2, E3, E4.
Qed.

(* the only failure of parse_wheel_filename is the documented one: no unpacking / index failure is reachable *)
Theorem parse_wheel_total fn : parse_wheel fn = FErr \/ exists r, parse_wheel fn = FOk r.
Proof.
  destruct (ends_with w_whl fn) eqn:E; [|left; unfold parse_wheel; now rewrite E].
  destruct (Nat.eqb (count_c dash (drop_last 4 fn)) 4 || Nat.eqb (count_c dash (drop_last 4 fn)) 5) eqn:C;
    [|left; unfold parse_wheel; rewrite E; cbn [negb]; now rewrite C].
  assert (C' : (count_c dash (drop_last 4 fn) = 4 \/ count_c dash (drop_last 4 fn) = 5)%nat).
  { apply orb_prop in C as [C|C]; apply Nat.eqb_eq in C; auto. }
  destruct (decode_exists fn E C') as (w & W & ->). rewrite parse_wheel_encode by assumption. unfold wheel_spec.
  destruct (name_bad _); auto. destruct (Version _); auto. destruct (w_build w); eauto. destruct (build_of _); eauto.
Qed.

(* ---------------- rejections ---------------- *)
Lemma reject_extension fn : ends_with w_whl fn = false -> parse_wheel fn = FErr.
Proof. intros E. unfold parse_wheel. now rewrite E. Qed.
Lemma reject_part_count fn : count_c dash (drop_last 4 fn) <> 4%nat -> count_c dash (drop_last 4 fn) <> 5%nat -> parse_wheel fn = FErr.
Proof.
  intros A B. unfold parse_wheel. destruct (ends_with w_whl fn); [|reflexivity]. cbn [negb].
  apply Nat.eqb_neq in A, B. now rewrite A, B.
Qed.
Lemma reject_name w : wf_wheel w -> name_bad (w_name w) = true -> parse_wheel (encode w) = FErr.
Proof. intros W B. rewrite parse_wheel_encode by assumption. unfold wheel_spec. now rewrite B. Qed.
Lemma reject_version w : wf_wheel w -> Version (w_ver w) = None -> parse_wheel (encode w) = FErr.
Proof. intros W B. rewrite parse_wheel_encode by assumption. unfold wheel_spec. rewrite B. now destruct (name_bad _). Qed.
Lemma build_of_nodigit b : hd_is is_d b = false -> build_of b = None.
Proof. intros H. unfold build_of. now rewrite span_none. Qed.
Lemma reject_build w b : wf_wheel w -> w_build w = Some b -> hd_is is_d b = false -> parse_wheel (encode w) = FErr.
Proof.
  intros W B H. rewrite parse_wheel_encode by assumption. unfold wheel_spec. rewrite B, build_of_nodigit by assumption.
  destruct (name_bad _); auto. now destruct (Version _).
Qed.
(* "non-escaped project name", read conservatively: "__", or an ASCII character other than a letter, a digit, '_' and '.' *)
Lemma has_uu_cons2 c d t : has_uu (c :: d :: t) = ((c =? 95) && (d =? 95)) || has_uu (d :: t).
Proof. reflexivity. Qed.
Lemma has_uu_app a b : has_uu (a ++ 95 :: 95 :: b) = true.
Proof.
  induction a as [|x a IH]; [reflexivity|]. cbn [app]. destruct (a ++ 95 :: 95 :: b) as [|d r] eqn:E; [destruct a; discriminate|].
  rewrite has_uu_cons2, IH. apply orb_true_r.
Qed.
Definition ascii_unescaped (c : char) : Prop := c < 128 /\ is_alnum c = false /\ c <> 95 /\ c <> 46.
Lemma name_char_ascii c : ascii_unescaped c -> name_char c = false.
Proof.
  intros (L & A & U & D). unfold name_char, is_word. rewrite A. apply N.eqb_neq in U, D. rewrite U, D. cbn [orb].
  rewrite (proj2 (N.leb_gt 128 c)) by lia. reflexivity.
Qed.
Lemma name_bad_unescaped n : (exists a b, n = a ++ 95 :: 95 :: b) \/ (exists c, In c n /\ ascii_unescaped c) -> name_bad n = true.
Proof.
  unfold name_bad. intros [(a & b & ->)|(c & Hc & U)]; [now rewrite has_uu_app|].
  apply orb_true_iff. right. apply negb_true_iff. destruct (forallb name_char n) eqn:F; [|reflexivity].
  rewrite forallb_forall in F. specialize (F c Hc). rewrite (name_char_ascii c U) in F. discriminate.
Qed.

(* ---------------- the escaped project name ---------------- *)
(* binary-distribution spec: runs of -_. become one '_' (re.sub(r"[-_.]+", "_", name): NamesLowerFull.esc), optionally lower-cased *)
Definition escape (n : str) : str := esc false n.
Definition name_ok (p : str) : Prop := name_bad p = false /\ nochar dash p = true.

(* for EVERY name n (any code points, U+03A3 included) both escaped spellings decode to canonicalize_name(n) *)
Lemma canon_escape n : canon_full (escape n) = canon_full n.
Proof. apply canon_full_esc. Qed.
Lemma canon_escape_lower n : canon_full (lower_full (escape n)) = canon_full n.
Proof. apply canon_full_lower_esc. Qed.

Definition esc_char (c : char) : bool := is_alnum c || (c =? 95).
Lemma esc_chars s : forallb is_cls s = true -> forall b, forallb esc_char (esc b s) = true /\ has_uu (esc b s) = false
  /\ (b = true -> hd_is (N.eqb 95) (esc b s) = false).
Proof.
  induction s as [|c t IH]; intros H b; cbn [forallb esc] in *; [repeat split; auto|]. apply andb_prop in H as [Hc Ht].
  destruct (is_sep c) eqn:E; [destruct b|].
  - now apply IH.
  - destruct (IH Ht true) as (A & B & C). specialize (C eq_refl). repeat split; [cbn [forallb]; now rewrite A| |discriminate].
    cbn [has_uu]. destruct (esc true t) as [|d r]; [reflexivity|]. cbn [hd_is] in C. rewrite B, (N.eqb_sym d 95), C. reflexivity.
  - destruct (IH Ht false) as (A & B & _). unfold is_cls in Hc. rewrite E, orb_false_r in Hc.
    assert (N95 : (c =? 95) = false) by (unfold is_sep in E; apply orb_false_elim in E as [_ E]; exact E).
    repeat split; [cbn [forallb]; unfold esc_char at 1; now rewrite Hc, A| |intros _; cbn [hd_is]; now rewrite N.eqb_sym].
    cbn [has_uu]. destruct (esc false t) as [|d r]; [reflexivity|]. now rewrite B, N95.
Qed.
Lemma esc_char_ok c : esc_char c = true -> name_char c = true /\ (c =? dash) = false.
Proof.
  unfold esc_char, name_char, is_word, dash. intros H. split.
  - apply orb_prop in H as [H|H]; rewrite H; cbn [orb]; auto. now rewrite orb_true_r.
  - unfold is_alnum, is_digit, is_lower, is_upper in H. bcase.
Qed.
Lemma esc_chars_ok p : forallb esc_char p = true -> has_uu p = false -> name_ok p.
Proof.
  intros F U. unfold name_ok, name_bad. rewrite U. cbn [orb]. rewrite forallb_forall in F. split.
  - apply negb_false_iff, forallb_forall. intros x Hx. now apply esc_char_ok, F.
  - apply forallb_forall. intros x Hx. apply negb_true_iff. now apply esc_char_ok, F.
Qed.
Lemma escape_ok n : forallb is_cls n = true -> name_ok (escape n).
Proof. intros H. destruct (esc_chars n H false) as (A & B & _). now apply esc_chars_ok. Qed.
Lemma esc_char_cls c : esc_char c = true -> is_cls c = true.
Proof. unfold esc_char, is_cls, is_sep. intros H. apply orb_prop in H as [H|H]; rewrite H; cbn [orb]; auto. now rewrite !orb_true_r. Qed.
Lemma lower_esc_char c : esc_char c = true -> esc_char (lower_a c) = true /\ ((lower_a c =? 95) = (c =? 95)).
Proof.
  intros H. unfold esc_char in *. unfold lower_a. destruct (is_upper c) eqn:U; [|auto].
  unfold is_upper in U. unfold is_alnum, is_digit, is_lower, is_upper. split; bcase.
Qed.
Lemma escape_lower_ok n : forallb is_cls n = true -> name_ok (lower_full (escape n)).
Proof.
  intros H. destruct (esc_chars n H false) as (A & B & _). unfold escape. revert A B. generalize (esc false n) as p.
  intros p A B. rewrite lower_full_cls.
  2:{ apply forallb_forall. intros x Hx. rewrite forallb_forall in A. now apply esc_char_cls, A. }
  apply esc_chars_ok.
  - induction p as [|c p IH]; [reflexivity|]. cbn [forallb] in A. apply andb_prop in A as [Ac Ap].
    destruct (lower_esc_char c Ac) as (Hd & _). cbn [map forallb]. rewrite Hd. apply IH; auto.
    destruct p as [|y p']; [reflexivity|]. cbn [has_uu] in B. now apply orb_false_elim in B as [_ B].
  - induction p as [|c p IH]; [reflexivity|]. cbn [forallb] in A. apply andb_prop in A as [Ac Ap].
    destruct (lower_esc_char c Ac) as (_ & Hd). cbn [map].
    destruct p as [|y p']; [reflexivity|]. cbn [has_uu] in B. apply orb_false_elim in B as [B1 B2]. specialize (IH Ap B2).
    cbn [forallb] in Ap. apply andb_prop in Ap as [Ay _]. destruct (lower_esc_char y Ay) as (_ & He).
    cbn [map] in *. rewrite has_uu_cons2, IH, Hd, He, B1. reflexivity.
Qed.

(* ---------------- the build tag ---------------- *)
Definition build_txt (b : N * str) : str := dec (fst b) ++ snd b.
Definition build_ok (b : option (N * str)) : Prop :=
  match b with None => True | Some (_, suf) => nochar dash suf = true /\ hd_is is_d suf = false end.
Lemma digit_is_d c : is_digit c = true -> is_d c = true /\ to_ascii_digit c = c.
Proof.
  intros H. unfold is_d, to_ascii_digit. rewrite H. split; [reflexivity|]. apply digit_range in H.
  unfold uni_digit. rewrite (proj2 (N.ltb_lt c 128)) by lia. reflexivity.
Qed.
Lemma build_of_txt k suf : hd_is is_d suf = false -> build_of (build_txt (k, suf)) = Some (k, suf).
Proof.
  intros H2. unfold build_of, build_txt. cbn [fst snd].
  assert (D : forallb is_d (dec k) = true /\ map to_ascii_digit (dec k) = dec k).
  { pose proof (dec_digits k) as F. induction (dec k) as [|c l IH]; [split; reflexivity|]. cbn [forallb map] in *. apply andb_prop in F as [Fc Fl].
    destruct (digit_is_d c Fc) as [A B]. destruct (IH Fl) as [C E]. now rewrite A, B, C, E. }
  destruct D as [D1 D2]. rewrite (span_complete is_d (dec k) suf D1 H2).
  pose proof (dec_nonnil k) as NN.
  assert (M : forall (x y : option (N * list N)), match dec k with [] => x | _ :: _ => y end = y) by (intros; destruct (dec k); congruence).
  rewrite M. unfold int_of, num. now rewrite D2, undec_dec.
Qed.
Lemma digits_nodash s : forallb is_digit s = true -> nochar dash s = true.
Proof.
  unfold nochar. rewrite !forallb_forall. intros H x Hx. specialize (H x Hx). apply digit_range in H. apply negb_true_iff, N.eqb_neq. unfold dash. lia.
Qed.

(* ---------------- the wheel round trip ---------------- *)
Definition parts_ok (l : list str) : Prop := l <> [] /\ Forall (fun p => nochar 45 p = true /\ nochar 46 p = true) l.
Definition wheel_name (p vtxt : str) (b : option (N * str)) (pys abis plats : list str) : str :=
  encode {| w_name := p; w_ver := vtxt; w_build := option_map build_txt b;
            w_py := join_c 46 pys; w_abi := join_c 46 abis; w_plat := join_c 46 plats |}.
Lemma parts_join l : parts_ok l -> nochar dash (join_c 46 l) = true /\ split_all 46 (join_c 46 l) = l.
Proof.
  intros [NE F]. split.
  - apply join_c_nochar; [reflexivity|]. eapply Forall_impl; [|exact F]. now intros x [A _].
  - apply split_all_join; auto. eapply Forall_impl; [|exact F]. now intros x [_ B].
Qed.
Theorem wheel_roundtrip p vtxt v b pys abis plats :
  name_ok p -> nochar dash vtxt = true -> Version vtxt = Some v -> build_ok b -> parts_ok pys -> parts_ok abis -> parts_ok plats ->
  parse_wheel (wheel_name p vtxt b pys abis plats) = FOk (canon_full p, v, b, tag_product pys abis plats).
Proof.
  intros [NB ND] VD VE B P1 P2 P3. destruct (parts_join _ P1) as [J1 S1], (parts_join _ P2) as [J2 S2], (parts_join _ P3) as [J3 S3].
  unfold wheel_name. rewrite parse_wheel_encode.
  - unfold wheel_spec. cbn [w_name w_ver w_build w_py w_abi w_plat]. rewrite NB, VE, S1, S2, S3.
    destruct b as [[k suf]|]; cbn [option_map]; [|reflexivity]. destruct B as (_ & B3). now rewrite build_of_txt.
  - repeat split; cbn [w_name w_ver w_build w_py w_abi w_plat]; auto.
    destruct b as [[k suf]|]; cbn [option_map]; auto. destruct B as (B1 & _). unfold build_txt. cbn [fst snd].
    now rewrite nochar_app, digits_nodash, B1 by apply dec_digits.
Qed.

(* str(Version) contains no '-' *)
Lemma nodash_app a b : nochar dash (a ++ b) = nochar dash a && nochar dash b.
Proof. apply nochar_app. Qed.
Lemma vstr_nodash v : VMeaning.wf_version v -> nochar dash (vstr v) = true.
Proof.
  intros (Hr & Hpre & Hpost & Hdev & Hloc). unfold vstr, render.
  cbn [canon_sp ws_l vpre ep rel0 rels spre spost sdev sloc ws_r r_osep app]. rewrite !app_nil_r, !nodash_app.
  assert (DD : forall n, nochar dash (dec n) = true) by (intros; apply digits_nodash, dec_digits).
  assert (E : nochar dash (r_opt r_ep (if Py.epoch v =? 0 then None else Some (dec (Py.epoch v)))) = true).
  { destruct (Py.epoch v =? 0); cbn [r_opt]; auto. unfold r_ep. now rewrite nodash_app, DD. }
  assert (R : forall l, nochar dash (r_rels (map dec l)) = true).
  { induction l as [|x l IH]; [reflexivity|]. cbn [map r_rels]. change (46 :: dec x ++ r_rels (map dec l)) with ([46] ++ dec x ++ r_rels (map dec l)).
    now rewrite !nodash_app, DD, IH. }
  assert (L : forall sep l n, (l = w_a \/ l = w_b \/ l = w_rc \/ l = w_post \/ l = w_dev) -> (sep = None \/ sep = Some 46) ->
              nochar dash (r_lv (c_lv sep (l, n))) = true).
  { intros sep l n Hl Hs. unfold r_lv, c_lv; cbn [l_sep1 l_word l_sep2 l_num fst snd r_osep app].
    rewrite !nodash_app, DD. destruct Hs as [->| ->]; destruct Hl as [->|[->|[->|[->| ->]]]]; reflexivity. }
  assert (SG : forall x, wf_seg x = true -> nochar dash (c_seg x) = true).
  { intros [n|s]; cbn [wf_seg c_seg]; [intros _; apply DD|]. intros H. apply andb_prop in H as [H _]. apply andb_prop in H as [_ H].
    unfold nochar. rewrite forallb_forall in *. intros x Hx. specialize (H x Hx). apply negb_true_iff, N.eqb_neq. unfold dash.
    unfold is_lower_alnum, is_digit, is_lower in H. intros ->. discriminate. }
  assert (LC : nochar dash (r_opt r_loc (option_map (fun l => (c_seg (hd (inl 0) l), map (fun x => (46, c_seg x)) (tl l))) (Py.local v))) = true).
  { destruct (Py.local v) as [loc|]; cbn [option_map r_opt]; [|reflexivity]. destruct Hloc as [NE F]. destruct loc as [|x loc]; [congruence|].
    cbn [forallb] in F. apply andb_prop in F as [Fx Fl]. unfold r_loc. cbn [fst snd hd tl].
    change (43 :: c_seg x ++ r_segs (map (fun x0 => (46, c_seg x0)) loc)) with ([43] ++ c_seg x ++ r_segs (map (fun x0 => (46, c_seg x0)) loc)).
    rewrite !nodash_app, SG by assumption. replace (nochar dash [43]) with true by reflexivity. cbn [andb].
    clear -Fl SG. induction loc as [|y loc IH]; [reflexivity|]. cbn [forallb] in Fl. apply andb_prop in Fl as [Fy Fl]. cbn [map r_segs].
    change (46 :: c_seg y ++ r_segs (map (fun x0 => (46, c_seg x0)) loc)) with ([46] ++ c_seg y ++ r_segs (map (fun x0 => (46, c_seg x0)) loc)).
    rewrite !nodash_app, SG, IH by assumption. reflexivity. }
  rewrite E, DD, R, LC. cbn [andb]. rewrite !andb_true_r.
  destruct (Py.pre v) as [[l n]|]; cbn [option_map r_opt]; [rewrite L by intuition|]; cbn [andb];
  (destruct (Py.post v) as [[l2 n2]|]; cbn [option_map r_opt r_post]; [subst l2; rewrite L by intuition|]; cbn [andb];
   (destruct (Py.dev v) as [[l3 n3]|]; cbn [option_map r_opt]; [subst l3; rewrite L by intuition|]; reflexivity)).
Qed.

(* ---------------- parse_sdist_filename ---------------- *)
Lemma not_targz_zip a : ends_with w_targz (a ++ w_zip) = false.
Proof.
  destruct (ends_with w_targz (a ++ w_zip)) eqn:E; [|reflexivity]. exfalso.
  change w_targz with ([46; 116; 97; 114; 46; 103] ++ [122]) in E. change w_zip with ([46; 122; 105] ++ [112]) in E. rewrite app_assoc in E.
  apply ends_with_last in E. discriminate.
Qed.
Theorem parse_sdist_encode p vtxt ext : nochar dash vtxt = true -> (ext = w_targz \/ ext = w_zip) ->
  parse_sdist (p ++ dash :: vtxt ++ ext) = match Version vtxt with Some v => FOk (canon_full p, v) | None => FErr end.
Proof.
  intros H [->| ->]; unfold parse_sdist.
  - replace (p ++ dash :: vtxt ++ w_targz) with ((p ++ dash :: vtxt) ++ w_targz) by (now rewrite <- app_assoc).
    rewrite ends_with_app. change 7%nat with (length w_targz). rewrite drop_last_app, rpart_app by assumption. now destruct (Version vtxt).
  - replace (p ++ dash :: vtxt ++ w_zip) with ((p ++ dash :: vtxt) ++ w_zip) by (now rewrite <- app_assoc).
    rewrite not_targz_zip, ends_with_app. change 4%nat with (length w_zip). rewrite drop_last_app, rpart_app by assumption. now destruct (Version vtxt).
Qed.
Lemma sdist_reject_extension fn : ends_with w_targz fn = false -> ends_with w_zip fn = false -> parse_sdist fn = FErr.
Proof. intros A B. unfold parse_sdist. now rewrite A, B. Qed.
Lemma sdist_reject_nodash stem ext : nochar dash stem = true -> (ext = w_targz \/ ext = w_zip) -> parse_sdist (stem ++ ext) = FErr.
Proof.
  intros H [->| ->]; unfold parse_sdist.
  - rewrite ends_with_app. change 7%nat with (length w_targz). now rewrite drop_last_app, rpart_none.
  - rewrite not_targz_zip, ends_with_app. change 4%nat with (length w_zip). now rewrite drop_last_app, rpart_none.
Qed.
Theorem parse_sdist_total fn : parse_sdist fn = FErr \/ exists r, parse_sdist fn = FOk r.
Proof.
  unfold parse_sdist. destruct (if ends_with w_targz fn then _ else _) as [st|]; auto.
  destruct (rpart dash st) as [[a b]|]; auto. destruct (Version b); eauto.
Qed.
