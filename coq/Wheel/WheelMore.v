(* Laws of the filename / tag model (C14), part 3: the converse directions and the text-level readings the round-trip theorems leave out.
     - accepted implies well-formed: every accepted wheel filename is encode w of a well-formed w whose components answer as wheel_spec says
     - the rejections are exhaustive: parse_wheel rejects exactly the five documented classes
     - the project-name check, exactly ("__", or a character outside \w and '.')
     - the build tag as TEXT: any non-empty \d run (leading zeros, non-ASCII decimal digits) followed by a suffix that does not start with \d
     - case-insensitivity through the parser: parse_tag / parse_wheel on ASCII-upper-cased tag text *)
From Coq Require Import List Arith NArith Bool Lia.
Import ListNotations.
Require Import S1 VParse VComplete VTop VDec Py VMeaning VCanon SpecModel CanonLaws Names NamesSpec NamesAscii NamesLaws LowerTable WordTable NamesX NamesLower NamesLowerLaws NamesLowerFull WheelModel Wheel WheelLaws.
Open Scope N_scope.
Arguments N.eqb : simpl never.
Arguments N.leb : simpl never.
Arguments N.ltb : simpl never.

(* ---------------- accepted implies well-formed ---------------- *)
Lemma parse_wheel_shape fn : parse_wheel fn <> FErr -> ends_with w_whl fn = true /\ (count_c dash (drop_last 4 fn) = 4 \/ count_c dash (drop_last 4 fn) = 5)%nat.
Proof.
  intros H. destruct (ends_with w_whl fn) eqn:E; [|exfalso; apply H; now apply reject_extension]. split; [reflexivity|].
  destruct (Nat.eq_dec (count_c dash (drop_last 4 fn)) 4) as [A|A]; auto. destruct (Nat.eq_dec (count_c dash (drop_last 4 fn)) 5) as [B|B]; auto.
  exfalso. apply H. now apply reject_part_count.
Qed.
Theorem accept_inv fn r : parse_wheel fn = FOk r -> exists w, wf_wheel w /\ fn = encode w /\ wheel_spec w = FOk r.
Proof.
  intros H. destruct (parse_wheel_shape fn) as [E C]; [congruence|]. destruct (decode_exists fn E C) as (w & W & ->).
  exists w. split; [exact W|]. split; [reflexivity|]. rewrite <- (parse_wheel_encode w W). exact H.
Qed.
(* what acceptance says about the components *)
Theorem accept_components w r : wf_wheel w -> parse_wheel (encode w) = FOk r ->
  name_bad (w_name w) = false /\ (exists v, Version (w_ver w) = Some v /\
    exists bt, r = (canon_full (w_name w), v, bt, tag_product (split_all 46 (w_py w)) (split_all 46 (w_abi w)) (split_all 46 (w_plat w))) /\
               match w_build w with None => bt = None | Some b => exists k, build_of b = Some k /\ bt = Some k end).
Proof.
  intros W. rewrite parse_wheel_encode by assumption. unfold wheel_spec. destruct (name_bad (w_name w)); [discriminate|].
  destruct (Version (w_ver w)) as [v|]; [|discriminate]. intros H. split; [reflexivity|]. exists v. split; [reflexivity|].
  destruct (w_build w) as [b|].
  - destruct (build_of b) as [k|]; [|discriminate]. injection H as <-. eexists. split; [reflexivity|]. eauto.
  - injection H as <-. eexists. split; reflexivity.
Qed.

(* ---------------- the rejections are exhaustive ---------------- *)
Lemma build_of_none_iff b : build_of b = None <-> hd_is is_d b = false.
Proof.
  split; [|apply build_of_nodigit]. unfold build_of. destruct b as [|c t]; [reflexivity|]. cbn [span hd_is]. destruct (is_d c); [|reflexivity].
  destruct (span is_d t). discriminate.
Qed.
Theorem reject_iff fn : parse_wheel fn = FErr <->
  ends_with w_whl fn = false \/
  (count_c dash (drop_last 4 fn) <> 4 /\ count_c dash (drop_last 4 fn) <> 5)%nat \/
  exists w, wf_wheel w /\ fn = encode w /\
    (name_bad (w_name w) = true \/ Version (w_ver w) = None \/ exists b, w_build w = Some b /\ hd_is is_d b = false).
Proof.
  split.
  - intros H. destruct (ends_with w_whl fn) eqn:E; [|now left]. right.
    destruct (Nat.eq_dec (count_c dash (drop_last 4 fn)) 4) as [A|A]; [|destruct (Nat.eq_dec (count_c dash (drop_last 4 fn)) 5) as [B|B]; [|now left]];
      right; (destruct (decode_exists fn E) as (w & W & ->); [auto|]); exists w; (split; [exact W|]); (split; [reflexivity|]);
      rewrite parse_wheel_encode in H by assumption; unfold wheel_spec in H;
      (destruct (name_bad (w_name w)); [now left|]); right; (destruct (Version (w_ver w)); [|now left]); right;
      (destruct (w_build w) as [b|]; [|discriminate]); exists b; (split; [reflexivity|]); apply build_of_none_iff; now destruct (build_of b).
  - intros [E|[[A B]|(w & W & -> & [N|[V|(b & Hb & D)]])]].
    + now apply reject_extension.
    + now apply reject_part_count.
    + now apply reject_name.
    + now apply reject_version.
    + now apply (reject_build w b).
Qed.

(* ---------------- the project-name check, exactly ---------------- *)
Lemma has_uu_inv n : has_uu n = true -> exists a b, n = a ++ 95 :: 95 :: b.
Proof.
  induction n as [|c t IH]; [discriminate|]. destruct t as [|d t']; [discriminate|]. rewrite has_uu_cons2. intros H. apply orb_prop in H as [H|H].
  - apply andb_prop in H as [A B]. apply N.eqb_eq in A, B. subst. exists [], t'. reflexivity.
  - destruct (IH H) as (a & b & E). exists (c :: a), b. now rewrite E.
Qed.
Theorem name_bad_iff n : name_bad n = true <-> (exists a b, n = a ++ 95 :: 95 :: b) \/ (exists c, In c n /\ name_char c = false).
Proof.
  unfold name_bad. split.
  - intros H. apply orb_prop in H as [H|H]; [left; now apply has_uu_inv|]. right. apply negb_true_iff in H.
    induction n as [|c t IH]; [discriminate|]. cbn [forallb] in H. destruct (name_char c) eqn:E.
    + destruct (IH H) as (x & I & Hx). exists x. split; [now right|exact Hx].
    + exists c. split; [now left|exact E].
  - intros [(a & b & ->)|(c & I & E)]; [now rewrite has_uu_app|]. apply orb_true_iff. right. apply negb_true_iff.
    destruct (forallb name_char n) eqn:F; [|reflexivity]. rewrite forallb_forall in F. rewrite (F c I) in E. discriminate.
Qed.
(* in particular nothing requires the name to be an ESCAPED one: '.', upper case, a leading or trailing '_', the empty name pass the check *)
Definition unescaped_accepted_check : bool :=
  negb (name_bad [102; 111; 111; 46; 98; 97; 114]) && negb (name_bad [46; 95; 46]) && negb (name_bad []) && negb (name_bad [70; 79; 79]) && negb (name_bad [95; 97; 95])
  && name_bad [97; 95; 95; 98] && name_bad [97; 32; 98] && name_bad [97; 10] && negb (name_bad [201; 931; 1633]).
Example unescaped_accepted_ok : unescaped_accepted_check = true. Proof. vm_compute. reflexivity. Qed.

(* ---------------- the build tag as text ---------------- *)
Theorem build_of_text ds rest : ds <> [] -> forallb is_d ds = true -> hd_is is_d rest = false -> build_of (ds ++ rest) = Some (int_of ds, rest).
Proof. intros NE D R. unfold build_of. rewrite (span_complete is_d ds rest D R). destruct ds; [congruence|reflexivity]. Qed.
Lemma ascii_digits_d ds : forallb is_digit ds = true -> forallb is_d ds = true /\ int_of ds = num ds.
Proof.
  intros H. assert (G : forallb is_d ds = true /\ map to_ascii_digit ds = ds).
  { induction ds as [|c l IH]; [split; reflexivity|]. cbn [forallb map] in *. apply andb_prop in H as [Hc Hl].
    destruct (digit_is_d c Hc) as [A B]. destruct (IH Hl) as [C E]. now rewrite A, B, C, E. }
  destruct G as [G1 G2]. split; [exact G1|]. unfold int_of. now rewrite G2.
Qed.
(* ASCII digits, leading zeros included: "007x" is build (7, "x") *)
Corollary build_of_ascii_text ds rest : ds <> [] -> forallb is_digit ds = true -> hd_is is_d rest = false -> build_of (ds ++ rest) = Some (num ds, rest).
Proof. intros NE D R. destruct (ascii_digits_d ds D) as [A B]. rewrite build_of_text by assumption. now rewrite B. Qed.
Lemma is_d_nodash c : is_d c = true -> (c =? dash) = false.
Proof.
  unfold is_d, dash. intros H. apply N.eqb_neq. intros ->. revert H. vm_compute. discriminate.
Qed.
(* the wheel round trip with the build tag given as text (digit run ds, suffix suf) *)
Definition wheel_name_t (p vtxt : str) (b : option (str * str)) (pys abis plats : list str) : str :=
  encode {| w_name := p; w_ver := vtxt; w_build := option_map (fun b => fst b ++ snd b) b;
            w_py := join_c 46 pys; w_abi := join_c 46 abis; w_plat := join_c 46 plats |}.
Definition build_ok_t (b : option (str * str)) : Prop :=
  match b with None => True | Some (ds, suf) => ds <> [] /\ forallb is_d ds = true /\ nochar dash suf = true /\ hd_is is_d suf = false end.
Theorem wheel_roundtrip_text p vtxt v b pys abis plats :
  name_ok p -> nochar dash vtxt = true -> Version vtxt = Some v -> build_ok_t b -> parts_ok pys -> parts_ok abis -> parts_ok plats ->
  parse_wheel (wheel_name_t p vtxt b pys abis plats)
  = FOk (canon_full p, v, option_map (fun b => (int_of (fst b), snd b)) b, tag_product pys abis plats).
Proof.
  intros [NB ND] VD VE B P1 P2 P3. destruct (parts_join _ P1) as [J1 S1], (parts_join _ P2) as [J2 S2], (parts_join _ P3) as [J3 S3].
  unfold wheel_name_t. rewrite parse_wheel_encode.
  - unfold wheel_spec. cbn [w_name w_ver w_build w_py w_abi w_plat]. rewrite NB, VE, S1, S2, S3.
    destruct b as [[ds suf]|]; cbn [option_map fst snd]; [|reflexivity]. destruct B as (B1 & B2 & _ & B4). now rewrite build_of_text.
  - repeat split; cbn [w_name w_ver w_build w_py w_abi w_plat]; auto.
    destruct b as [[ds suf]|]; cbn [option_map fst snd]; auto. destruct B as (_ & B2 & B3 & _). rewrite nochar_app, B3, andb_true_r.
    unfold nochar. apply forallb_forall. intros x Hx. rewrite forallb_forall in B2. apply negb_true_iff. now apply is_d_nodash, B2.
Qed.
Definition build_text_check : bool :=
  match build_of [48; 48; 55; 120], build_of [55; 2407; 120], build_of [2407], build_of [120; 49] with
  | Some (7, [120]), Some (71, [120]), Some (1, []), None => true | _, _, _, _ => false end.
Example build_text_ok : build_text_check = true. Proof. vm_compute. reflexivity. Qed.

(* ---------------- case-insensitivity through the parser ---------------- *)
Lemma upper_a_not c x : (x = 45 \/ x = 46) -> (upper_a c =? x) = (c =? x).
Proof. intros Hx. unfold upper_a, is_lower. destruct ((97 <=? c) && (c <=? 122)) eqn:L; [|reflexivity]. destruct Hx; subst x; bcase. Qed.
Lemma split_all_upper x s : (x = 45 \/ x = 46) -> split_all x (map upper_a s) = map (map upper_a) (split_all x s).
Proof.
  intros Hx. induction s as [|c t IH]; [reflexivity|]. cbn [map split_all]. rewrite (upper_a_not c x Hx), IH. destruct (c =? x); [reflexivity|].
  destruct (split_all x t); reflexivity.
Qed.
Lemma flat_map_map {A B C} (f : B -> list C) (g : A -> B) l : flat_map f (map g l) = flat_map (fun x => f (g x)) l.
Proof. induction l as [|x l IH]; [reflexivity|]. cbn [map flat_map]. now rewrite IH. Qed.
Lemma tag_product_upper is_ as_ ps : tag_product (map (map upper_a) is_) (map (map upper_a) as_) (map (map upper_a) ps) = tag_product is_ as_ ps.
Proof.
  unfold tag_product. rewrite flat_map_map. apply flat_map_ext. intros i. rewrite flat_map_map. apply flat_map_ext. intros a.
  rewrite map_map. apply map_ext. intros p. apply mk_tag_upper.
Qed.
Theorem parse_tag_upper s : parse_tag (map upper_a s) = parse_tag s.
Proof.
  unfold parse_tag. rewrite split_all_upper by auto. destruct (split_all 45 s) as [|a [|b [|c [|d r]]]]; try reflexivity.
  cbn [map]. rewrite !split_all_upper by auto. now rewrite tag_product_upper.
Qed.
Lemma nochar_upper x s : (x = 45 \/ x = 46) -> nochar x (map upper_a s) = nochar x s.
Proof. intros Hx. unfold nochar. induction s as [|c t IH]; [reflexivity|]. cbn [map forallb]. now rewrite (upper_a_not c x Hx), IH. Qed.
(* a wheel filename with its three tag parts ASCII-upper-cased decodes to the same result *)
Definition upper_tags (w : wheel) : wheel :=
  {| w_name := w_name w; w_ver := w_ver w; w_build := w_build w; w_py := map upper_a (w_py w); w_abi := map upper_a (w_abi w); w_plat := map upper_a (w_plat w) |}.
Theorem parse_wheel_upper_tags w : wf_wheel w -> parse_wheel (encode (upper_tags w)) = parse_wheel (encode w).
Proof.
  intros W. assert (W' : wf_wheel (upper_tags w)).
  { destruct W as (A & B & C & D & E & F). repeat split; cbn [upper_tags w_name w_ver w_build w_py w_abi w_plat]; auto; unfold dash; rewrite nochar_upper; auto. }
  rewrite !parse_wheel_encode by assumption. unfold wheel_spec. cbn [upper_tags w_name w_ver w_build w_py w_abi w_plat].
  now rewrite !split_all_upper, tag_product_upper by auto.
Qed.

(* closed check: parse_tag(str(Tag("a.b","c","d"))) has two members; a field with '-' does not parse back *)
Definition tag_str_check : bool :=
  match parse_tag (tag_str (mk_tag [97; 46; 98] [99] [100])), parse_tag (tag_str (mk_tag [97; 45; 98] [99] [100])) with
  | FOk [_; _], FCrash UnpackArity => true | _, _ => false end.
Example tag_str_check_ok : tag_str_check = true. Proof. vm_compute. reflexivity. Qed.

(* closed check for the two theorems above on instances that satisfy their hypotheses (C14_text_upper_nonvacuous states those):
   foo-1-007<U+0967>x-py3-n-a.b.whl decodes to build (71, "x") and two tags; upper-casing the tag parts of f-1-py3-n<e-acute>-a.whl changes the text
   but not the result *)
Definition text_upper_check : bool :=
  let w := {| w_name := [102]; w_ver := [49]; w_build := None; w_py := [112; 121; 51]; w_abi := [110; 233]; w_plat := [97] |} in
  match parse_wheel (wheel_name_t [102; 111; 111] [49] (Some ([48; 48; 55; 2407], [120])) [[112; 121; 51]] [[110]] [[97]; [98]]),
        parse_wheel (encode (upper_tags w)), parse_wheel (encode w) with
  | FOk (n, _, Some (71, [120]), [_; _]), FOk (n1, _, None, [t1]), FOk (n2, _, None, [t2]) =>
      str_eqb n [102; 111; 111] && str_eqb n1 n2 && str_eqb (tag_str t1) (tag_str t2) && str_eqb (t_abi t1) [110; 233]
      && negb (str_eqb (encode (upper_tags w)) (encode w))
  | _, _, _ => false
  end.
Example text_upper_ok : text_upper_check = true. Proof. vm_compute. reflexivity. Qed.
