(* Laws of the filename / tag model (C14), part 1: Python string helpers, Tag, parse_tag. *)
From Coq Require Import List Arith NArith Bool Lia.
Import ListNotations.
Require Import S1 VParse VComplete VTop VDec Py VMeaning SpecModel Names NamesSpec NamesAscii NamesLaws NamesX NamesLower NamesLowerLaws NamesLowerFull WheelModel.
Open Scope N_scope.
Arguments N.eqb : simpl never.
Arguments N.leb : simpl never.

(* ---------------- str helpers ---------------- *)
Lemma nochar_app c0 a b : nochar c0 (a ++ b) = nochar c0 a && nochar c0 b.
Proof. apply forallb_app. Qed.
Lemma nochar_cons c0 x a : nochar c0 (x :: a) = negb (x =? c0) && nochar c0 a.
Proof. reflexivity. Qed.
Lemma count_app c0 a b : count_c c0 (a ++ b) = (count_c c0 a + count_c c0 b)%nat.
Proof. induction a; cbn [app count_c]; auto. rewrite IHa. lia. Qed.
Lemma count_nochar c0 s : nochar c0 s = true -> count_c c0 s = O.
Proof.
  induction s as [|c t IH]; cbn [count_c]; auto. rewrite nochar_cons. intros H. apply andb_prop in H as [H1 H2]. apply negb_true_iff in H1.
  rewrite H1. now rewrite IH.
Qed.
Lemma count_zero c0 s : count_c c0 s = O -> nochar c0 s = true.
Proof.
  induction s as [|c t IH]; cbn [count_c]; auto. rewrite nochar_cons. destruct (c =? c0); [discriminate|]. cbn [negb andb plus]. exact IH.
Qed.
Lemma count_split c0 s n : count_c c0 s = S n -> exists a b, s = a ++ c0 :: b /\ nochar c0 a = true /\ count_c c0 b = n.
Proof.
  induction s as [|c t IH]; cbn [count_c]; [discriminate|]. destruct (c =? c0) eqn:E.
  - apply N.eqb_eq in E. subst c. intros [= H]. exists [], t. auto.
  - cbn [plus]. intros H. destruct (IH H) as (a & b & -> & Ha & Hb). exists (c :: a), b. rewrite nochar_cons, E, Ha. auto.
Qed.

Lemma split_max_go c0 k' : forall a cur b, nochar c0 a = true ->
  (fix go (cur s : str) : list str :=
     match s with [] => [rev cur] | c :: t => if c =? c0 then rev cur :: split_max c0 k' t else go (c :: cur) t end) cur (a ++ c0 :: b)
  = (rev cur ++ a) :: split_max c0 k' b.
Proof.
  induction a as [|x a IH]; intros cur b H; cbn [app].
  - rewrite N.eqb_refl. now rewrite app_nil_r.
  - rewrite nochar_cons in H. apply andb_prop in H as [H1 H2]. apply negb_true_iff in H1. rewrite H1.
    rewrite IH by assumption. cbn [rev]. now rewrite <- app_assoc.
Qed.
Lemma split_max_step c0 k a b : nochar c0 a = true -> split_max c0 (S k) (a ++ c0 :: b) = a :: split_max c0 k b.
Proof. intros H. cbn [split_max]. now rewrite split_max_go. Qed.

Lemma split_all_none c0 s : nochar c0 s = true -> split_all c0 s = [s].
Proof.
  induction s as [|c t IH]; cbn [split_all]; auto. rewrite nochar_cons. intros H. apply andb_prop in H as [H1 H2].
  apply negb_true_iff in H1. rewrite H1. now rewrite IH.
Qed.
Lemma split_all_app c0 a b : nochar c0 a = true -> split_all c0 (a ++ c0 :: b) = a :: split_all c0 b.
Proof.
  induction a as [|c t IH]; cbn [app split_all].
  - now rewrite N.eqb_refl.
  - rewrite nochar_cons. intros H. apply andb_prop in H as [H1 H2]. apply negb_true_iff in H1. rewrite H1. now rewrite IH.
Qed.
Lemma split_all_pieces c0 s : Forall (fun p => nochar c0 p = true) (split_all c0 s) /\ split_all c0 s <> [].
Proof.
  induction s as [|c t [IH1 IH2]]; cbn [split_all]; [split; [repeat constructor|discriminate]|].
  destruct (c =? c0) eqn:E; [split; [constructor; auto|discriminate]|].
  destruct (split_all c0 t) as [|h r]; [congruence|]. inversion IH1; subst. split; [|discriminate].
  constructor; auto. now rewrite nochar_cons, E.
Qed.
Lemma split_all_length c0 s : length (split_all c0 s) = S (count_c c0 s).
Proof.
  induction s as [|c t IH]; cbn [split_all count_c]; [reflexivity|]. destruct (c =? c0); cbn [length plus]; [now rewrite IH|].
  pose proof (split_all_pieces c0 t) as [_ NE]. destruct (split_all c0 t); [congruence|]. exact IH.
Qed.
(* "c0".join(parts) *)
Fixpoint join_c (c0 : char) (l : list str) : str :=
  match l with [] => [] | x :: t => match t with [] => x | _ => x ++ c0 :: join_c c0 t end end.
Lemma split_all_join c0 l : l <> [] -> Forall (fun p => nochar c0 p = true) l -> split_all c0 (join_c c0 l) = l.
Proof.
  induction l as [|x t IH]; [congruence|]. intros _ H. inversion H; subst. cbn [join_c]. destruct t as [|y t'].
  - now apply split_all_none.
  - rewrite split_all_app by assumption. f_equal. apply IH; auto. discriminate.
Qed.
Lemma join_c_nochar c0 c1 l : (c1 =? c0) = false -> Forall (fun p => nochar c0 p = true) l -> nochar c0 (join_c c1 l) = true.
Proof.
  intros E. induction l as [|x t IH]; [reflexivity|]. intros H. inversion H; subst. cbn [join_c]. destruct t as [|y t']; [assumption|].
  rewrite nochar_app, nochar_cons, E, IH by assumption. now rewrite H2.
Qed.

Lemma rpart_none c0 s : nochar c0 s = true -> rpart c0 s = None.
Proof.
  induction s as [|c t IH]; cbn [rpart]; auto. rewrite nochar_cons. intros H. apply andb_prop in H as [H1 H2]. apply negb_true_iff in H1.
  now rewrite IH, H1.
Qed.
Lemma rpart_app c0 a b : nochar c0 b = true -> rpart c0 (a ++ c0 :: b) = Some (a, b).
Proof.
  intros Hb. induction a as [|c t IH]; cbn [app rpart].
  - now rewrite rpart_none, N.eqb_refl.
  - now rewrite IH.
Qed.
Lemma rpart_some c0 s a b : rpart c0 s = Some (a, b) -> s = a ++ c0 :: b /\ nochar c0 b = true.
Proof.
  revert a. induction s as [|c t IH]; intros a; cbn [rpart]; [discriminate|].
  destruct (rpart c0 t) as [[a' b']|] eqn:E.
  - intros [= <- <-]. destruct (IH a' eq_refl) as [-> H]. auto.
  - destruct (c =? c0) eqn:Ec; [|discriminate]. intros [= <- <-]. apply N.eqb_eq in Ec. subst c. split; [reflexivity|].
    clear IH. induction t as [|x t IHt]; [reflexivity|]. cbn [rpart] in E. destruct (rpart c0 t) as [[? ?]|]; [discriminate|].
    destruct (x =? c0) eqn:Ex; [discriminate|]. rewrite nochar_cons, Ex. now apply IHt.
Qed.

Lemma str_eqb_refl s : str_eqb s s = true.
Proof. induction s; cbn [str_eqb]; auto. now rewrite N.eqb_refl. Qed.
Lemma str_eqb_true a b : str_eqb a b = true -> a = b.
Proof.
  revert b. induction a as [|x a IH]; intros [|y b]; cbn [str_eqb]; try discriminate; auto.
  intros H. apply andb_prop in H as [H1 H2]. apply N.eqb_eq in H1. subst. f_equal. now apply IH.
Qed.
Lemma str_eqb_iff a b : str_eqb a b = true <-> a = b.
Proof. split; [apply str_eqb_true|intros ->; apply str_eqb_refl]. Qed.
Lemma ends_with_app a suf : ends_with suf (a ++ suf) = true.
Proof.
  unfold ends_with. rewrite app_length. replace (length a + length suf - length suf)%nat with (length a) by lia.
  rewrite skipn_app, Nat.sub_diag, skipn_all. cbn [skipn app]. apply str_eqb_refl.
Qed.
Lemma drop_last_app a suf : drop_last (length suf) (a ++ suf) = a.
Proof.
  unfold drop_last. rewrite app_length. replace (length a + length suf - length suf)%nat with (length a) by lia.
  rewrite firstn_app, Nat.sub_diag, firstn_all. cbn [firstn]. now rewrite app_nil_r.
Qed.
Lemma ends_with_split suf s : ends_with suf s = true -> s = drop_last (length suf) s ++ suf.
Proof.
  unfold ends_with, drop_last. intros H. apply str_eqb_true in H.
  rewrite <- (firstn_skipn (length s - length suf) s) at 1. now rewrite H.
Qed.
Lemma ends_with_last suf s x y : ends_with (suf ++ [x]) (s ++ [y]) = true -> x = y.
Proof.
  intros H. apply ends_with_split in H. apply (f_equal (@rev N)) in H. rewrite !rev_app_distr in H. cbn [rev app] in H. now injection H.
Qed.

(* ---------------- str.lower() ---------------- *)
(* lower-casing creates no '-' and no '.' *)
Lemma lower_full_nochar x s : (x = 45 \/ x = 46) -> nochar x s = true -> nochar x (lower_full s) = true.
Proof. intros Hx H. unfold nochar, lower_full. apply lower_go_nosep; auto. destruct Hx; subst; reflexivity. Qed.

(* ---------------- Tag ---------------- *)
Lemma mk_tag_lowered i a p : mk_tag (lower_full i) (lower_full a) (lower_full p) = mk_tag i a p.
Proof. unfold mk_tag. now rewrite !lower_full_idem. Qed.
Lemma mk_tag_fields i a p : let t := mk_tag i a p in mk_tag (t_interp t) (t_abi t) (t_plat t) = t.
Proof. apply mk_tag_lowered. Qed.
Lemma tag_eq_iff h x y : tag_eq h x y = true <-> x = y.
Proof.
  unfold tag_eq. split.
  - intros H. apply andb_prop in H as [H Hi]. apply andb_prop in H as [H Ha]. apply andb_prop in H as [_ Hp].
    apply str_eqb_true in Hi, Ha, Hp. destruct x, y; cbn in *. congruence.
  - intros ->. now rewrite N.eqb_refl, !str_eqb_refl.
Qed.
Lemma mk_tag_eq_iff i a p i' a' p' :
  mk_tag i a p = mk_tag i' a' p' <-> lower_full i = lower_full i' /\ lower_full a = lower_full a' /\ lower_full p = lower_full p'.
Proof. unfold mk_tag. split; [intros [= -> -> ->]; auto|intros (-> & -> & ->); reflexivity]. Qed.
(* ASCII upper-casing of a field does not change the tag (NamesLowerFull.upper_a, lower_full_upper) *)
Lemma mk_tag_upper i a p : mk_tag (map upper_a i) (map upper_a a) (map upper_a p) = mk_tag i a p.
Proof. unfold mk_tag. now rewrite !lower_full_upper. Qed.

(* ---------------- parse_tag ---------------- *)
Lemma parse_tag_encode py abi plat : nochar 45 py = true -> nochar 45 abi = true -> nochar 45 plat = true ->
  parse_tag (py ++ 45 :: abi ++ 45 :: plat) = FOk (tag_product (split_all 46 py) (split_all 46 abi) (split_all 46 plat)).
Proof.
  intros H1 H2 H3. unfold parse_tag. rewrite split_all_app by assumption. rewrite split_all_app by assumption. now rewrite split_all_none.
Qed.
Lemma parse_tag_ok_iff s : (exists ts, parse_tag s = FOk ts) <-> count_c 45 s = 2%nat.
Proof.
  unfold parse_tag. pose proof (split_all_length 45 s) as L. split.
  - intros [ts H]. destruct (split_all 45 s) as [|a [|b [|c [|d r]]]]; try discriminate. cbn [length] in L. lia.
  - intros C. rewrite C in L. destruct (split_all 45 s) as [|a [|b [|c [|d r]]]]; cbn [length] in L; try lia. eauto.
Qed.
Lemma in_tag_product t is_ as_ ps : In t (tag_product is_ as_ ps) <-> exists i a p, In i is_ /\ In a as_ /\ In p ps /\ t = mk_tag i a p.
Proof.
  unfold tag_product. rewrite in_flat_map. split.
  - intros (i & Hi & H). apply in_flat_map in H as (a & Ha & H). apply in_map_iff in H as (p & <- & Hp). eauto 8.
  - intros (i & a & p & Hi & Ha & Hp & ->). exists i. split; auto. apply in_flat_map. exists a. split; auto. apply in_map_iff. eauto.
Qed.
(* parse_tag(str(t)) = {t} for a tag whose fields contain neither '-' nor '.' *)
Lemma parse_tag_str i a p :
  nochar 45 i = true -> nochar 46 i = true -> nochar 45 a = true -> nochar 46 a = true -> nochar 45 p = true -> nochar 46 p = true ->
  parse_tag (tag_str (mk_tag i a p)) = FOk [mk_tag i a p].
Proof.
  intros I1 I2 A1 A2 P1 P2. unfold tag_str. cbn [mk_tag t_interp t_abi t_plat].
  rewrite parse_tag_encode by (apply lower_full_nochar; auto).
  rewrite !split_all_none by (apply lower_full_nochar; auto). cbn [tag_product flat_map map app]. now rewrite mk_tag_lowered.
Qed.
(* every member of a parsed tag set is such a tag *)
Lemma parse_tag_members s ts t : parse_tag s = FOk ts -> In t ts -> parse_tag (tag_str t) = FOk [t].
Proof.
  unfold parse_tag. destruct (split_all 45 s) as [|x [|y [|z [|w r]]]] eqn:E; try discriminate. intros [= <-] H.
  apply in_tag_product in H as (i & a & p & Hi & Ha & Hp & ->).
  pose proof (split_all_pieces 45 s) as [F _]. rewrite E in F. inversion F as [|? ? Fx F1]; subst. inversion F1 as [|? ? Fy F2]; subst. inversion F2 as [|? ? Fz _]; subst.
  assert (G : forall u part, nochar 45 part = true -> In u (split_all 46 part) -> nochar 45 u = true /\ nochar 46 u = true).
  { intros u part Hp' Hu. pose proof (split_all_pieces 46 part) as [F46 _]. rewrite Forall_forall in F46. split; [|now apply F46].
    clear F46. revert u Hu. induction part as [|c part IHp]; cbn [split_all].
    - intros u [<-|[]]. reflexivity.
    - rewrite nochar_cons in Hp'. apply andb_prop in Hp' as [Hc Hp']. destruct (c =? 46).
      + intros u [<-|Hu]; [reflexivity|now apply IHp].
      + pose proof (split_all_pieces 46 part) as [_ NE]. destruct (split_all 46 part) as [|h r]; [congruence|].
        intros u [<-|Hu]; [|apply IHp; auto; now right]. rewrite nochar_cons, Hc. apply IHp; auto. now left. }
  destruct (G i x Fx Hi), (G a y Fy Ha), (G p z Fz Hp). now apply parse_tag_str.
Qed.
