From Coq Require Import List Arith NArith Bool Lia.
Import ListNotations.
Require Import S1 VParse VComplete VTop VTop2 VDec Py VMeaning VCanon VCanon2 VCanon3 VCmp SpecModel SpecOps Prefix Prefix2.
Open Scope N_scope.
Arguments N.eqb : simpl never.
Arguments N.leb : simpl never.

(* ---------------- str helpers ---------------- *)
Fixpoint count_c (c0 : char) (s : str) : nat := match s with [] => O | c :: t => ((if N.eqb c c0 then 1 else 0) + count_c c0 t)%nat end.
Lemma count_app c0 a b : count_c c0 (a ++ b) = (count_c c0 a + count_c c0 b)%nat.
Proof. induction a; cbn; auto. rewrite IHa. lia. Qed.
Lemma count_nochar c0 s : nochar c0 s = true -> count_c c0 s = O.
Proof.
  induction s as [|c t IH]; cbn; auto. intros H. apply andb_prop in H as [H1 H2]. apply negb_true_iff in H1. rewrite H1.
  unfold nochar in IH. now rewrite IH.
Qed.
(* str.split(sep, maxsplit) *)
Fixpoint split_max (c0 : char) (k : nat) (s : str) : list str :=
  match k with
  | O => [s]
  | S k' =>
      (fix go (cur s : str) : list str :=
         match s with
         | [] => [rev cur]
         | c :: t => if c =? c0 then rev cur :: split_max c0 k' t else go (c :: cur) t
         end) [] s
  end.
Lemma split_max_go c0 k' : forall a cur b, nochar c0 a = true ->
  (fix go (cur s : str) : list str :=
     match s with [] => [rev cur] | c :: t => if c =? c0 then rev cur :: split_max c0 k' t else go (c :: cur) t end) cur (a ++ c0 :: b)
  = (rev cur ++ a) :: split_max c0 k' b.
Proof.
  induction a as [|x a IH]; intros cur b H; cbn [app].
  - rewrite N.eqb_refl. now rewrite app_nil_r.
  - cbn [nochar forallb] in H. apply andb_prop in H as [H1 H2]. apply negb_true_iff in H1. rewrite H1.
    unfold nochar in IH. rewrite IH by assumption. cbn [rev]. now rewrite <- app_assoc.
Qed.
Lemma split_max_step c0 k a b : nochar c0 a = true -> split_max c0 (S k) (a ++ c0 :: b) = a :: split_max c0 k b.
Proof. intros H. cbn [split_max]. now rewrite split_max_go. Qed.

(* ---------------- the wheel file name: "{name}-{version}(-{build})?-{py}-{abi}-{plat}.whl" ---------------- *)
Definition dash := 45.
Definition w_whl : str := [46; 119; 104; 108].
Definition ends_with (suf s : str) : bool := VMeaning.str_eqb (skipn (length s - length suf) s) suf.
Definition stem_of (s : str) : str := firstn (length s - 4) s.

Record wheel := { w_name : str; w_ver : str; w_build : option str; w_py : str; w_abi : str; w_plat : str }.
Definition encode (w : wheel) : str :=
  w_name w ++ dash :: w_ver w ++ match w_build w with Some b => dash :: b | None => [] end ++
  dash :: w_py w ++ dash :: w_abi w ++ dash :: w_plat w ++ w_whl.
(* the structural part of parse_wheel_filename: extension, dash count, split from the left with maxsplit = dashes - 2 *)
Definition split_wheel (fn : str) : option (list str) :=
  if negb (ends_with w_whl fn) then None else
  let stem := stem_of fn in
  let dashes := count_c dash stem in
  if Nat.eqb dashes 4 || Nat.eqb dashes 5 then Some (split_max dash (dashes - 2) stem) else None.

Definition wf_wheel (w : wheel) : Prop :=
  nochar dash (w_name w) = true /\ nochar dash (w_ver w) = true /\
  (match w_build w with Some b => nochar dash b = true | None => True end) /\
  nochar dash (w_py w) = true /\ nochar dash (w_abi w) = true /\ nochar dash (w_plat w) = true.

Lemma str_eqb_refl' s : VMeaning.str_eqb s s = true.
Proof. induction s; cbn; auto. now rewrite N.eqb_refl. Qed.
Lemma ends_with_app a suf : ends_with suf (a ++ suf) = true.
Proof.
  unfold ends_with. rewrite app_length. replace (length a + length suf - length suf)%nat with (length a) by lia.
  rewrite skipn_app, Nat.sub_diag, skipn_all. cbn. apply str_eqb_refl'.
Qed.
Lemma stem_app a : stem_of (a ++ w_whl) = a.
Proof.
  unfold stem_of. rewrite app_length. cbn [length w_whl]. replace (length a + 4 - 4)%nat with (length a) by lia.
  rewrite firstn_app, Nat.sub_diag, firstn_all. cbn. now rewrite app_nil_r.
Qed.

Definition tagpart (w : wheel) : str := w_py w ++ dash :: w_abi w ++ dash :: w_plat w.
Theorem split_wheel_encode w : wf_wheel w ->
  split_wheel (encode w) =
  Some (w_name w :: w_ver w :: match w_build w with Some b => [b] | None => [] end ++ [tagpart w]).
Proof.
  intros (Hn & Hv & Hb & Hp & Ha & Hl). unfold split_wheel.
  set (body := w_name w ++ dash :: w_ver w ++ match w_build w with Some b => dash :: b | None => [] end ++
               dash :: w_py w ++ dash :: w_abi w ++ dash :: w_plat w).
  assert (E : encode w = body ++ w_whl).
  { unfold encode, body. repeat (rewrite <- ?app_assoc; cbn [app]). reflexivity. }
  rewrite E, ends_with_app, stem_app. cbn [negb].
  assert (C : count_c dash body = match w_build w with Some _ => 5%nat | None => 4%nat end).
  { unfold body. repeat (rewrite ?count_app; cbn [count_c]). rewrite !N.eqb_refl.
    rewrite !count_nochar by assumption. destruct (w_build w) as [b|]; cbn [count_c]; rewrite ?N.eqb_refl, ?count_nochar by assumption; cbn [app count_c]; lia. }
  rewrite C. unfold body. destruct (w_build w) as [b|]; cbn [Nat.eqb orb Nat.sub app].
  - rewrite split_max_step by assumption. rewrite split_max_step by assumption.
    rewrite split_max_step by assumption. reflexivity.
  - rewrite split_max_step by assumption. rewrite split_max_step by assumption. reflexivity.
Qed.
Print Assumptions split_wheel_encode.
