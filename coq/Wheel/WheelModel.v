(* Model of packaging.utils.parse_wheel_filename / parse_sdist_filename and packaging.tags.Tag / parse_tag (C14).
   Executable definitions only.  Strings are lists of code points.
   Runtime behaviour on non-ASCII text is carried by tables generated from the running interpreter (harness/tables_lower.py) and
   re-validated against it, for every code point, on every check run (law.n.lowertable, law.f.tables):
     str.lower()       NamesX.lower_full     (Gen/LowerTable.v: every code point lower() changes; the Final_Sigma rule for U+03A3)
     \w (re.UNICODE)   Gen/WordTable.word_ranges
     \d, int()         Gen/WordTable.digit_ranges
   so the model is exact on every string of code points (lone surrogates are not generated). *)
From Coq Require Import List Arith NArith Bool.
Import ListNotations.
Require Import S1 VParse VDec Py VMeaning SpecModel Names LowerTable WordTable NamesX.
Open Scope N_scope.

(* ---------------- Python str helpers ---------------- *)
Definition nochar (c0 : char) (s : str) : bool := forallb (fun c => negb (c =? c0)) s.
Fixpoint count_c (c0 : char) (s : str) : nat :=                                  (* s.count(c0) *)
  match s with [] => O | c :: t => ((if N.eqb c c0 then 1 else 0) + count_c c0 t)%nat end.
(* s.split(c0, k) *)
Fixpoint split_max (c0 : char) (k : nat) (s : str) : list str :=
  match k with
  | O => [s]
  | S k' =>
      (fix go (cur s : str) : list str :=
         match s with
         | [] => [rev cur]
         | c :: t => if c =? c0 then rev cur :: split_max c0 k' t else go (c :: cur) t
         end) [] s
  end.
(* s.split(c0) *)
Fixpoint split_all (c0 : char) (s : str) : list str :=
  match s with
  | [] => [[]]
  | c :: t => if c =? c0 then [] :: split_all c0 t
              else match split_all c0 t with h :: r => (c :: h) :: r | [] => [[c]] end
  end.
(* s.rpartition(c0): None when c0 does not occur, else (before the last c0, after it) *)
Fixpoint rpart (c0 : char) (s : str) : option (str * str) :=
  match s with
  | [] => None
  | c :: t => match rpart c0 t with
              | Some (a, b) => Some (c :: a, b)
              | None => if c =? c0 then Some ([], t) else None
              end
  end.
Definition ends_with (suf s : str) : bool := str_eqb (skipn (length s - length suf) s) suf.   (* s.endswith(suf) *)
Definition drop_last (n : nat) (s : str) : str := firstn (length s - n) s.                     (* s[:-n] on len(s) >= n *)

(* ---------------- results ---------------- *)
(* FErr = the documented exception of the entry point (InvalidWheelFilename / InvalidSdistFilename);
   FCrash = a Python-level failure the code as written could reach (tuple-unpacking arity, IndexError) *)
Inductive crash := UnpackArity | IndexError.
Inductive fres (A : Type) := FOk (a : A) | FErr | FCrash (c : crash).
Arguments FOk {A} a. Arguments FErr {A}. Arguments FCrash {A} c.

(* ---------------- tags.Tag, tags.parse_tag ---------------- *)
Record tag := { t_interp : str; t_abi : str; t_plat : str }.
Definition mk_tag (i a p : str) : tag := {| t_interp := lower_full i; t_abi := lower_full a; t_plat := lower_full p |}.   (* Tag.__init__: three str.lower() *)
Definition tag_str (t : tag) : str := t_interp t ++ 45 :: t_abi t ++ 45 :: t_plat t.                               (* Tag.__str__ *)
(* Tag.__eq__, h = the precomputed hash((interpreter, abi, platform)), any function of the stored triple *)
Definition tag_eq (h : str * str * str -> N) (x y : tag) : bool :=
  (h (t_interp x, t_abi x, t_plat x) =? h (t_interp y, t_abi y, t_plat y)) && str_eqb (t_plat x) (t_plat y)
  && str_eqb (t_abi x) (t_abi y) && str_eqb (t_interp x) (t_interp y).
Definition tag_product (is_ as_ ps : list str) : list tag :=
  flat_map (fun i => flat_map (fun a => map (fun p => mk_tag i a p) ps) as_) is_.
(* parse_tag: `interpreters, abis, platforms = tag.split("-")`, then the triple loop; the frozenset is the set of the list's elements *)
Definition parse_tag (s : str) : fres (list tag) :=
  match split_all 45 s with
  | [is_; as_; ps] => FOk (tag_product (split_all 46 is_) (split_all 46 as_) (split_all 46 ps))
  | _ => FCrash UnpackArity
  end.

(* ---------------- the project-name check of parse_wheel_filename ---------------- *)
Definition is_word (c : char) : bool := is_alnum c || (c =? 95) || ((128 <=? c) && in_ranges c word_ranges).   (* \w under re.UNICODE *)
Definition name_char (c : char) : bool := is_word c || (c =? 46).                                 (* [\w\d._]  (\d is inside \w) *)
Fixpoint has_uu (s : str) : bool :=                                                              (* "__" in s *)
  match s with c :: t => match t with d :: _ => ((c =? 95) && (d =? 95)) || has_uu t | [] => false end | [] => false end.
Definition name_bad (n : str) : bool := has_uu n || negb (forallb name_char n).

(* ---------------- the build tag: _build_tag_regex = one or more \d as group 1, then dot-star (re.DOTALL) as group 2, used with .match; int(group 1) ---------------- *)
(* the value of a non-ASCII decimal digit: digit_ranges holds (lo, hi, value of lo), values ascending inside a range *)
Definition uni_digit (c : char) : option N :=
  if c <? 128 then None
  else option_map (fun p => snd p + (c - fst (fst p))) (find (fun p => (fst (fst p) <=? c) && (c <=? snd (fst p))) digit_ranges).
Definition is_d (c : char) : bool := is_digit c || match uni_digit c with Some _ => true | None => false end.      (* \d *)
Definition to_ascii_digit (c : char) : char := match uni_digit c with Some v => 48 + v | None => c end.
Definition int_of (ds : str) : N := num (map to_ascii_digit ds).                                 (* int() on a run of decimal digits *)
Definition build_of (b : str) : option (N * str) :=
  let '(ds, rest) := span is_d b in
  match ds with [] => None | _ => Some (int_of ds, rest) end.

(* ---------------- parse_wheel_filename ---------------- *)
Definition dash : char := 45.
Definition w_whl : str := [46; 119; 104; 108].
Definition wheel_out := (str * version * option (N * str) * list tag)%type.
Definition parse_wheel (fn : str) : fres wheel_out :=
  if negb (ends_with w_whl fn) then FErr else
  let stem := drop_last 4 fn in
  let dashes := count_c dash stem in
  if negb (Nat.eqb dashes 4 || Nat.eqb dashes 5) then FErr else
  let parts := split_max dash (dashes - 2) stem in
  match nth_error parts 0 with None => FCrash IndexError | Some name_part =>
  if name_bad name_part then FErr else
  let name := canon_full name_part in
  match nth_error parts 1 with None => FCrash IndexError | Some ver_part =>
  match Version ver_part with None => FErr | Some v =>
  let tags_of (b : option (N * str)) : fres wheel_out :=
    match rev parts with
    | [] => FCrash IndexError
    | tag_part :: _ => match parse_tag tag_part with
                       | FOk ts => FOk (name, v, b, ts)
                       | FErr => FErr
                       | FCrash c => FCrash c
                       end
    end in
  if Nat.eqb dashes 5 then
    match nth_error parts 2 with None => FCrash IndexError | Some build_part =>
    match build_of build_part with None => FErr | Some b => tags_of (Some b) end end
  else tags_of None
  end end end.

(* ---------------- parse_sdist_filename ---------------- *)
Definition w_targz : str := [46; 116; 97; 114; 46; 103; 122].
Definition w_zip : str := [46; 122; 105; 112].
Definition parse_sdist (fn : str) : fres (str * version) :=
  let stem := if ends_with w_targz fn then Some (drop_last 7 fn)
              else if ends_with w_zip fn then Some (drop_last 4 fn) else None in
  match stem with None => FErr | Some stem =>
  match rpart dash stem with None => FErr | Some (name_part, ver_part) =>
  match Version ver_part with None => FErr | Some v => FOk (canon_full name_part, v) end end end.

(* ---------------- frozenset of tags as a canonical list: sorted by code points, duplicates dropped ---------------- *)
Fixpoint insert_u (x : str) (l : list str) : list str :=
  match l with
  | [] => [x]
  | y :: t => match lex x y with Lt => x :: l | Eq => l | Gt => y :: insert_u x t end
  end.
Definition sort_u (l : list str) : list str := fold_right insert_u [] l.
