(* C18  The TEXT side of the round trip: the serialiser of the statement as a function to text, and a small parser for documents made of
   plain  "Name: value"  lines, a blank line and a body.  Definitions only (extracted; run by the command e.lines of RunEmail.v).

   [parse_lines] is total on the documents it understands and answers None on everything else (folded lines, lines without a header
   name, line-break characters other than LF inside the header block, ...): it is not a model of the `email` package, it is the
   statement "on documents of this simple shape the package returns these (name, value) pairs and this body", which the command
   e.lines checks against the package on generated str documents that are text (no surrogate code points).  What it mirrors:
     feedparser: the header block ends at the first empty line, the rest is the body, verbatim;
                 str.splitlines() is used to cut lines, so VT, FF, FS, GS, RS, NEL, LS and PS also end a line (we answer None);
     compat32.header_source_parse:  name, value = line.split(':', 1);  value.lstrip(' \t').rstrip('\r\n');
     a Content-Type header can turn the body into a multipart / message payload (we answer None when one occurs). *)
From Coq Require Import List NArith Bool String.
Import ListNotations.
Require Import Show MetaBase EmailModel.
Open Scope N_scope.

(* str.splitlines() boundaries *)
Definition is_break (c : N) : bool :=
  (c =? 10) || (c =? 11) || (c =? 12) || (c =? 13) || (c =? 28) || (c =? 29) || (c =? 30) || (c =? 133) || (c =? 8232) || (c =? 8233).
(* feedparser's header regex: [\041-\071\073-\176]*: *)
Definition name_char (c : N) : bool := (33 <=? c) && (c <=? 126) && negb (c =? 58).
Definition header_name_ok (n : list N) : bool := match n with [] => false | _ => forallb name_char n end.
Fixpoint lstrip_blank (s : list N) : list N :=
  match s with c :: t => if (c =? 32) || (c =? 9) then lstrip_blank t else s | [] => [] end.

(* ---------------------------------------------------------------- serialise *)
Definition line_of (i : item) : list N := i_name i ++ [58; 32] ++ i_val i ++ [10].
Definition text_of_items (items : list item) : list N := flat_map line_of items.
(* "Name: value\n" per header, then - when there is a body - an empty line and the body *)
Definition text_of (items : list item) (p : payload) : list N :=
  text_of_items items ++ match p with POk (c :: body) => 10 :: c :: body | _ => [] end.

(* ---------------------------------------------------------------- parse *)
Definition k_content_type := asc "content-type".
Definition header_of_line (line : list N) : option item :=
  let '(name, rest) := split_first 58 line in
  match rest with
  | None => None
  | Some v => if header_name_ok name && negb (existsb is_break v) && negb (seqb (lower_name name) k_content_type)
              then Some {| i_name := name; i_val := lstrip_blank v; i_valid := true |} else None
  end.
Fixpoint parse_lines_f (fuel : nat) (doc : list N) (acc : list item) : option (list item * payload) :=
  match fuel with
  | O => None
  | S f =>
      match doc with
      | [] => Some (acc, POk [])
      | _ =>
          let '(line, rest) := split_first 10 doc in
          match line with
          | [] => Some (acc, POk (match rest with Some body => body | None => [] end))        (* the empty line: the rest is the body *)
          | _ => match header_of_line line with
                 | None => None
                 | Some i => match rest with Some r => parse_lines_f f r (acc ++ [i]) | None => Some (acc ++ [i], POk []) end
                 end
          end
      end
  end.
Definition parse_lines (doc : list N) : option (list item * payload) := parse_lines_f (S (List.length doc)) doc [].
