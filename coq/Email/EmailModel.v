(* C18  Executable model of packaging.metadata.parse_email AFTER the stdlib e-mail parser: the loop over header names, the
   raw/unparsed partition, _parse_keywords, _parse_project_urls and the description/body merge.  Definitions only.

   Input (produced by the `email` package, an oracle):
     items   : the headers in document order, each with its name as spelled, its value as a str (after the Header/chunk decoding
               dance) and whether every chunk of it was valid UTF-8;
     payload : _get_payload's result, or the object parse_email files under 'description' when _get_payload raises ValueError. *)
From Coq Require Import List NArith Bool String.
Import ListNotations.
Require Import Show VParse MetaTable MetaBase.
Open Scope N_scope.

Record item := { i_name : list N; i_val : list N; i_valid : bool }.
Inductive payload := POk (s : list N) | PErr (opaque : list N).
Inductive rawval := RStr (s : list N) | RList (l : list (list N)) | RDict (d : list (list N * list N)).
(* values of the unparsed dict: header/body strings, or the undecodable payload object *)
Inductive uval := UStr (s : list N) | UOpaque (s : list N).

Definition lower_name (s : list N) : list N := map lower_ascii s.        (* header names are ASCII (feedparser's header regex) *)

(* frozenset(parsed.keys()): the distinct names as spelled, in some order (here: first occurrence) *)
Fixpoint dedup (l : list (list N)) : list (list N) :=
  match l with [] => [] | x :: t => x :: filter (fun y => negb (seqb y x)) (dedup t) end.
Definition key_set (items : list item) : list (list N) := dedup (map i_name items).
(* Message.get_all(name): every header whose name equals it ignoring case, in document order *)
Definition get_all (items : list item) (n : list N) : list item :=
  filter (fun i => seqb (lower_name (i_name i)) (lower_name n)) items.

(* _EMAIL_TO_RAW_MAPPING.get(name) together with the kind of the raw field (Gen table) *)
Definition raw_of_email (n : list N) : option (list N * N) :=
  match find (fun row => seqb (fst (snd row)) n) gen_fields with
  | Some (k, (_, (_, kind))) => Some (k, kind)
  | None => None
  end.

(* str.strip() *)
Fixpoint lstrip (s : list N) : list N := match s with c :: t => if is_ws c then lstrip t else s | [] => [] end.
Definition strip (s : list N) : list N := rev (lstrip (rev (lstrip s))).
(* [k.strip() for k in data.split(",")] *)
Definition parse_keywords (s : list N) : list (list N) := map strip (split_on 44 s).
(* pair.split(",", 1), stripped, padded to two items *)
Fixpoint split_first (c0 : N) (s : list N) : list N * option (list N) :=
  match s with
  | [] => ([], None)
  | c :: t => if c =? c0 then ([], Some t) else let '(a, b) := split_first c0 t in (c :: a, b)
  end.
Definition split_url (s : list N) : list N * list N :=
  let '(a, b) := split_first 44 s in (strip a, match b with Some u => strip u | None => [] end).
(* _parse_project_urls: None = KeyError("duplicate labels in project urls") *)
Fixpoint parse_project_urls (acc : list (list N * list N)) (data : list (list N)) : option (list (list N * list N)) :=
  match data with
  | [] => Some acc
  | pr :: t => let '(label, url) := split_url pr in
                 if is_some (lookup label acc) then None else parse_project_urls (acc ++ [(label, url)]) t
  end.

Definition single {A} (l : list A) : option A := match l with [v] => Some v | _ => None end.

Definition dicts := (list (list N * rawval) * list (list N * list uval))%type.

(* the decision taken for one lower-cased header name: its RawMetadata key and value, or "goes to unparsed" *)
Inductive cls := CRaw (k : list N) (v : rawval) | CUnp.
Definition values (items : list item) (name : list N) : list (list N) := map i_val (get_all items name).
Definition classify (items : list item) (name : list N) : cls :=
  let headers := get_all items name in
  let value := values items name in
  if negb (forallb i_valid headers) then CUnp                             (* not valid_encoding *)
  else match raw_of_email name with
  | None => CUnp                                                          (* unknown header *)
  | Some (raw_name, kind) =>
      if kind =? 0 then                                                   (* raw_name in _STRING_FIELDS and len(value) == 1 *)
        match single value with Some v => CRaw raw_name (RStr v) | None => CUnp end
      else if kind =? 1 then CRaw raw_name (RList value)                  (* raw_name in _LIST_FIELDS *)
      else if kind =? 2 then                                              (* keywords and len(value) == 1 *)
        match single value with Some v => CRaw raw_name (RList (parse_keywords v)) | None => CUnp end
      else if kind =? 3 then                                              (* project_urls; KeyError -> unparsed *)
        match parse_project_urls [] value with Some d => CRaw raw_name (RDict d) | None => CUnp end
      else CUnp
  end.

(* one iteration of `for name in frozenset(parsed.keys())`: name = name.lower(); raw[raw_name] = ... or unparsed[name] = value *)
Definition step (items : list item) (st : dicts) (name0 : list N) : dicts :=
  let '(raw, unparsed) := st in
  let name := lower_name name0 in
  match classify items name with
  | CRaw k v => (dset k v raw, unparsed)
  | CUnp => (raw, dset name (map UStr (values items name)) unparsed)
  end.

Definition k_description := asc "description".
(* unparsed.setdefault(k, []).extend(items) *)
Definition dextend (k : list N) (xs : list uval) (d : list (list N * list uval)) : list (list N * list uval) :=
  match lookup k d with Some l => dset k (l ++ xs) d | None => d ++ [(k, xs)] end.
Definition ustr_of (v : rawval) : uval :=
  match v with RStr s => UStr s | _ => UOpaque (asc "not-a-str") end.      (* description is a string field: always RStr *)

Definition merge_payload (st : dicts) (p : payload) : dicts :=
  let '(raw, unparsed) := st in
  match p with
  | PErr obj =>
      match lookup k_description raw with
      | Some h => (remove k_description raw, dextend k_description [UOpaque obj] (dextend k_description [ustr_of h] unparsed))
      | None => (raw, dextend k_description [UOpaque obj] unparsed)
      end
  | POk [] => st
  | POk body =>
      match lookup k_description raw with
      | Some h => (remove k_description raw, dextend k_description [ustr_of h; UStr body] unparsed)
      | None => if is_some (lookup k_description unparsed) then (raw, dextend k_description [UStr body] unparsed)
                else (dset k_description (RStr body) raw, unparsed)
      end
  end.

Definition post_email (items : list item) (p : payload) : dicts :=
  merge_payload (fold_left (step items) (key_set items) ([], [])) p.
